import Csproto.Proofs.Lazy
import Csproto.Props.C03
import Csproto.Props.C20
/-
  C13 — Lazy partial decoding equals a full reference parse.

  Reference side: a well-formed message is a list of records `rs : List Rec` (number, wire type,
  raw value) — what any wire-format parser finds; `lookup rs tag` are the raw values of the tag's
  occurrences in wire order.
-/
namespace Csproto.C13
open Csproto

/-- the reference parser's answer for a tag: raw values of all occurrences, in wire order -/
def lookup (rs : List Rec) (tag : Nat) : List Bytes := (rs.filter (·.tag = tag)).map Rec.chunk

/-- "each requested field number uses one wire type throughout" -/
def OneWireType (rs : List Rec) : Prop := ∀ r1 ∈ rs, ∀ r2 ∈ rs, r1.tag = r2.tag → r1.wt = r2.wt

/-! ## 1. the single pass records exactly what the reference parser finds -/

theorem idxOf?_get {xs : List Nat} {x i : Nat} (h : idxOf? xs x = some i) : xs[i]? = some x := by
  unfold idxOf? at h
  simp only at h
  split at h
  · rename_i hlt
    simp at h; subst h
    simp [hlt]
  · simp at h

theorem idxOf?_inj {xs : List Nat} {x y i : Nat} (hx : idxOf? xs x = some i) (hy : idxOf? xs y = some i) : x = y := by
  have a := idxOf?_get hx; have b := idxOf?_get hy
  rw [a] at b; exact Option.some.inj b

theorem idxOf?_of_nodup {xs : List Nat} (hn : xs.Nodup) {i : Nat} (hi : i < xs.length) : idxOf? xs xs[i] = some i := by
  unfold idxOf?
  have : xs.idxOf xs[i] = i := List.Nodup.idxOf_getElem hn i hi
  simp [this, hi]

theorem applyRec_some {flat : List Nat} {fds : List FD} {r : Rec} {i : Nat} {fd : FD}
    (hidx : idxOf? flat r.tag = some i) (hget : fds[i]? = some fd) :
    applyRec flat fds r = fds.set i { wt := r.wt, data := fd.data ++ [r.chunk] } := by
  unfold applyRec; simp [hidx, hget]

theorem applyRec_noidx {flat : List Nat} {fds : List FD} {r : Rec} (hidx : idxOf? flat r.tag = none) :
    applyRec flat fds r = fds := by
  unfold applyRec; simp [hidx]

theorem applyRec_noget {flat : List Nat} {fds : List FD} {r : Rec} {i : Nat}
    (hidx : idxOf? flat r.tag = some i) (hget : fds[i]? = none) : applyRec flat fds r = fds := by
  unfold applyRec; simp [hidx, hget]

/-- invariant used to discharge `NoConflict`: recorded wire types agree with the message's -/
def WtInv (flat : List Nat) (all : List Rec) (fds : List FD) : Prop :=
  ∀ i fd, fds[i]? = some fd → fd.data = [] ∨ ∀ r ∈ all, idxOf? flat r.tag = some i → fd.wt = r.wt

theorem wtInv_applyRec {flat : List Nat} {all : List Rec} (hw : OneWireType all) {fds : List FD} (h : WtInv flat all fds)
    (r : Rec) (hr : r ∈ all) : WtInv flat all (applyRec flat fds r) := by
  cases hidx : idxOf? flat r.tag with
  | none => rw [applyRec_noidx hidx]; exact h
  | some i =>
    cases hget : fds[i]? with
    | none => rw [applyRec_noget hidx hget]; exact h
    | some fd =>
      rw [applyRec_some hidx hget]
      intro j fd' hj
      by_cases hji : j = i
      · subst hji
        have hlt : j < fds.length := (List.getElem?_eq_some_iff.mp hget).1
        rw [List.getElem?_set_self hlt] at hj
        have := Option.some.inj hj; subst this
        right
        intro r' hr' hidx'
        exact (hw r hr r' hr' (idxOf?_inj hidx hidx')).symm ▸ rfl
      · rw [List.getElem?_set_ne (Ne.symm hji)] at hj
        exact h j fd' hj

theorem noConflict_of_inv {flat : List Nat} {all : List Rec} (hw : OneWireType all) :
    ∀ (rs : List Rec) (fds : List FD), (∀ r ∈ rs, r ∈ all) → WtInv flat all fds → NoConflict flat fds rs
  | [], _, _, _ => trivial
  | r :: rs, fds, hsub, hinv => by
    refine ⟨?_, noConflict_of_inv hw rs _ (fun q hq => hsub q (by simp [hq])) (wtInv_applyRec hw hinv r (hsub r (by simp)))⟩
    intro i fd hidx hget
    rcases hinv i fd hget with h | h
    · exact Or.inl h
    · exact Or.inr (h r (hsub r (by simp)) hidx)

theorem wtInv_clean (flat : List Nat) (all : List Rec) (n : Nat) : WtInv flat all (cleanFds n) := by
  intro i fd h
  left
  unfold cleanFds at h
  have := List.getElem?_eq_some_iff.mp h
  obtain ⟨_, he⟩ := this
  simp at he; rw [← he]

/-- **Lazy decoding succeeds on every well-formed message** and leaves exactly `applyRecs` in the
    result's field data. -/
theorem decode_records (flat : List Nat) (rs : List Rec) (hok : ∀ r ∈ rs, r.OK) (hw : OneWireType rs) :
    decodeInto flat (cleanFds flat.length) (wiresOf rs) = .ok (applyRecs flat (cleanFds flat.length) rs) := by
  unfold decodeInto
  exact loop_records flat rs hok _ _ [] _ (by have := length_le_wiresOf rs; omega)
    ⟨by simp, rfl⟩ rfl (by simp [cleanFds])
    (noConflict_of_inv hw rs _ (fun _ h => h) (wtInv_clean flat rs _))

theorem applyRec_data (flat : List Nat) (fds : List FD) (r : Rec) (i : Nat) :
    (applyRec flat fds r)[i]? =
      fds[i]?.map (fun fd => if idxOf? flat r.tag = some i then { wt := r.wt, data := fd.data ++ [r.chunk] } else fd) := by
  cases hidx : idxOf? flat r.tag with
  | none => rw [applyRec_noidx hidx]; simp
  | some j =>
    cases hget : fds[j]? with
    | none =>
      rw [applyRec_noget hidx hget]
      by_cases hji : j = i
      · subst hji; simp [hget]
      · have : ¬ (some j = some i) := by simpa using hji
        simp [this]
    | some fd =>
      rw [applyRec_some hidx hget]
      by_cases hji : j = i
      · subst hji
        have hlt : j < fds.length := (List.getElem?_eq_some_iff.mp hget).1
        simp [List.getElem?_set_self hlt, hget]
      · have : ¬ (some j = some i) := by simpa using hji
        simp [List.getElem?_set_ne hji, this]

/-- **What the result holds for a requested tag is exactly the reference parser's answer**: the raw
    values of all occurrences of that tag, in wire order. -/
theorem recorded_eq_lookup (flat : List Nat) (hn : flat.Nodup) (rs : List Rec) :
    ∀ (fds : List FD) (i : Nat) (hi : i < flat.length),
      ((applyRecs flat fds rs)[i]?.map FD.data) = (fds[i]?.map FD.data).map (· ++ lookup rs flat[i]) := by
  induction rs with
  | nil =>
    intro fds i hi
    cases h : fds[i]? <;> simp [applyRecs, lookup, h]
  | cons r rs ih =>
    intro fds i hi
    have hstep := applyRec_data flat fds r i
    have := ih (applyRec flat fds r) i hi
    simp only [applyRecs, List.foldl_cons] at this ⊢
    rw [this, hstep]
    have hiff : idxOf? flat r.tag = some i ↔ r.tag = flat[i] := by
      constructor
      · intro h; have := idxOf?_get h; simp [hi] at this; exact this.symm
      · intro h; rw [h]; exact idxOf?_of_nodup hn hi
    cases hfd : fds[i]? with
    | none => simp
    | some fd =>
      by_cases ht : r.tag = flat[i]
      · have h1 := hiff.mpr ht
        have h2 : idxOf? flat flat[i] = some i := by rw [← ht]; exact h1
        simp [h2, lookup, List.filter_cons, ht]
      · have h1 : ¬ idxOf? flat r.tag = some i := fun h => ht (hiff.mp h)
        simp [h1, lookup, List.filter_cons, ht]

/-- corollary for a freshly created (or, by C14, recycled) result -/
theorem recorded_eq_lookup_clean (flat : List Nat) (hn : flat.Nodup) (rs : List Rec) (i : Nat) (hi : i < flat.length) :
    ((applyRecs flat (cleanFds flat.length) rs)[i]?.map FD.data) = some (lookup rs flat[i]) := by
  rw [recorded_eq_lookup flat hn rs _ i hi]
  simp [cleanFds, hi]

/-! ## 2. the error contract -/

/-- undeclared tag ⇒ not-defined -/
theorem undeclared_notDefined (dec : LDec) (fds : List FD) (tag : Nat) (a : Acc) (h : tag ∉ dec.flat) :
    accessTag dec fds tag a = .notDefined := by
  unfold accessTag
  split
  · rfl
  · have : idxOf? dec.flat tag = none := by
      unfold idxOf?
      have := List.idxOf_eq_length h
      simp [this]
    simp [this]

/-- declared but absent ⇒ not-found -/
theorem absent_notFound (dec : LDec) (fds : List FD) (tag i : Nat) (a : Acc) (fd : FD)
    (hi : idxOf? dec.flat tag = some i) (hfd : fds[i]? = some fd) (hempty : fd.data = []) :
    accessTag dec fds tag a = .notFound := by
  unfold accessTag
  have : ¬ dec.flat.isEmpty := by
    intro he; have := idxOf?_lt hi; simp at he; simp [he] at this
  simp [this, hi, hfd, hempty]

/-- a nested request on a tag declared without a nested definition ⇒ nesting-not-defined -/
theorem nesting_notDefined (dec : LDec) (fds : List FD) (tag i : Nat)
    (hn : ¬ dec.nested.isEmpty) (hi : idxOf? dec.flat tag = some i) (hsub : dec.sub tag = none) :
    nestedSelect dec fds tag = .ans .nestingNotDefined := by
  unfold nestedSelect; simp [hn, hi, hsub]

/-- a single-value request that does not fit the recorded wire type ⇒ mismatch -/
theorem scalar_mismatch {α} (fd : FD) (wt : Nat) (conv : Bytes → Conv α) (mk : α → Item)
    (hne : fd.data ≠ []) (hwt : fd.wt ≠ wt) : scalarValue fd wt conv mk = .mismatch := by
  unfold scalarValue
  have : fd.data.getLast? ≠ none := by simpa using hne
  cases h : fd.data.getLast? with
  | none => exact absurd h this
  | some last => simp [hwt]

/-- a slice request on a field that is neither of the element's wire type nor length-delimited ⇒ mismatch -/
theorem slice_mismatch {α} (fd : FD) (wt : Nat) (conv : Bytes → Conv α) (mk : List α → Item)
    (hne : fd.data ≠ []) (h1 : fd.wt ≠ wt) (h2 : fd.wt ≠ wtLen) : sliceValue fd wt conv mk = .mismatch := by
  unfold sliceValue
  have : ¬ fd.data.isEmpty := by simpa using hne
  simp [this, h1, h2]


/-! ## 3. single-value accessors return the last occurrence; slice accessors all occurrences -/

/-- **Single-value accessor = last occurrence.** If the last recorded occurrence `c` of the right
    wire type converts to `v`, the accessor returns `v` (whatever came before). -/
theorem scalar_last {α} (fd : FD) (wt : Nat) (conv : Bytes → Conv α) (mk : α → Item)
    (cs : List Bytes) (c : Bytes) (v : α) (n : Nat)
    (hd : fd.data = cs ++ [c]) (hwt : fd.wt = wt) (hc : conv c = .ok v n) :
    scalarValue fd wt conv mk = .ok (mk v) := by
  unfold scalarValue
  simp [hd, hwt, hc]

theorem convVarint_enc {α} (f : Nat → Option α) (v : Nat) (hv : v < two64) (x : α) (hf : f v = some x) (rest : Bytes) :
    convVarint f (encVarint v ++ rest) = .ok x (encVarint v).length := by
  unfold convVarint; rw [decodeVarint_encVarint v hv]; simp [hf]

/-- **Value range of `sint32`.** A varint that does not fit in 32 bits asked for as `sint32` is an overflow
    error (as for `int32` / `uint32`), one that fits is the zig-zag decoding of its 32 bits. -/
theorem sint32_range (v : Nat) (hv : v < two64) (rest : Bytes) :
    convZz32 (encVarint v ++ rest) =
      if v > 4294967295 then .overflow else .ok (unzigzag (v % two32)) (encVarint v).length := by
  unfold convZz32
  rw [decodeVarint_encVarint v hv]
  have hpos : (encVarint v).length ≠ 0 := by have := encVarint_length_pos v; omega
  simp [hpos]

theorem sint32_overflow (fd : FD) (cs : List Bytes) (v : Nat) (hv : v < two64) (hbig : v > 4294967295) (rest : Bytes)
    (hd : fd.data = cs ++ [encVarint v ++ rest]) (hwt : fd.wt = wtVarint) :
    accessFD fd .sint32 = .overflow := by
  simp only [accessFD, scalarValue, hd, List.getLast?_append, List.getLast?_singleton, Option.some_or, hwt,
    ne_eq, not_true_eq_false, if_false, sint32_range v hv rest, hbig, if_true]

/-- the inner loop over one occurrence: a run of encoded values yields exactly those values -/
theorem chunkValues_run {α} (conv : Bytes → Conv α) (enc : α → Bytes)
    (henc : ∀ v rest, conv (enc v ++ rest) = .ok v (enc v).length) (hpos : ∀ v, 0 < (enc v).length) :
    ∀ (vs : List α) (fuel : Nat) (acc : List α), vs.length < fuel →
      chunkValues conv fuel ((vs.map enc).flatten) acc = some (some (acc ++ vs)) := by
  intro vs
  induction vs with
  | nil => intro fuel acc hf; match fuel, hf with | fuel + 1, _ => simp [chunkValues]
  | cons v vs ih =>
    intro fuel acc hf
    match fuel, hf with
    | fuel + 1, hf =>
      have hp := hpos v
      have hne : ¬ (enc v ++ (vs.map enc).flatten).isEmpty := by
        have : 0 < (enc v ++ (vs.map enc).flatten).length := by simp; omega
        intro h; simp at h; simp [h] at hp
      have hn0 : ¬ (enc v).length = 0 := by omega
      simp only [List.map_cons, List.flatten_cons, chunkValues, hne, henc, hn0, if_false]
      rw [List.drop_left, ih fuel (acc ++ [v]) (by simp at hf; omega)]
      simp

/-- **Slice accessor = all occurrences in wire order, packed runs expanded.** Each occurrence is a
    run of encoded values (a single value for the unpacked form, any number for the packed form). -/
theorem sliceLoop_runs {α} (wt : Nat) (hwt : wt ≠ wtLen) (conv : Bytes → Conv α) (enc : α → Bytes)
    (henc : ∀ v rest, conv (enc v ++ rest) = .ok v (enc v).length) (hpos : ∀ v, 0 < (enc v).length) :
    ∀ (runs : List (List α)) (acc : List α),
      sliceLoop wt conv (runs.map fun vs => (vs.map enc).flatten) acc = some (some (acc ++ runs.flatten)) := by
  intro runs
  induction runs with
  | nil => intro acc; simp [sliceLoop]
  | cons vs runs ih =>
    intro acc
    simp only [List.map_cons, sliceLoop, hwt, if_false]
    have hfuel : vs.length < ((vs.map enc).flatten).length + 1 := by
      have := length_le_flatten enc vs (fun v _ => hpos v)
      omega
    rw [chunkValues_run conv enc henc hpos vs _ acc hfuel]
    simp only []
    rw [ih]; simp

/-- the full slice accessor on a field recorded as runs -/
theorem slice_all {α} (fd : FD) (wt : Nat) (hwt : wt ≠ wtLen) (conv : Bytes → Conv α) (enc : α → Bytes)
    (mk : List α → Item)
    (henc : ∀ v rest, conv (enc v ++ rest) = .ok v (enc v).length) (hpos : ∀ v, 0 < (enc v).length)
    (runs : List (List α)) (hne : runs ≠ [])
    (hd : fd.data = runs.map fun vs => (vs.map enc).flatten) (hfw : fd.wt = wt ∨ fd.wt = wtLen) :
    sliceValue fd wt conv mk = .ok (mk runs.flatten) := by
  unfold sliceValue
  have h1 : ¬ fd.data.isEmpty := by rw [hd]; simp [hne]
  have h2 : ¬ (List.map (fun vs => (List.map enc vs).flatten) runs).isEmpty := by rw [← hd]; exact h1
  simp only [hd, h2, if_false] at hfw ⊢
  simp only [hfw, if_true, sliceLoop_runs wt hwt conv enc henc hpos runs []]
  simp

/-- `UInt64Values`' conversion with the value's range carried in the type, as Go's `uint64` does -/
def convU64 (p : Bytes) : Conv { v : Nat // v < two64 } :=
  match convVarint some p with
  | .ok v n => if h : v < two64 then .ok ⟨v, h⟩ n else .err
  | .overflow => .overflow
  | .err => .err

/-- instance: `UInt64Values` over any mix of single and packed occurrences of 64-bit values -/
theorem uint64s_all (fd : FD) (runs : List (List { v : Nat // v < two64 })) (hne : runs ≠ [])
    (hd : fd.data = runs.map fun vs => (vs.map fun v => encVarint v.1).flatten)
    (hfw : fd.wt = wtVarint ∨ fd.wt = wtLen) :
    sliceValue fd wtVarint convU64 (fun vs => Item.nats (vs.map (·.1))) = .ok (.nats (runs.flatten.map (·.1))) := by
  apply slice_all fd wtVarint (by decide) convU64 (fun v => encVarint v.1) _ _ _ runs hne hd hfw
  · intro v rest
    unfold convU64
    rw [convVarint_enc some v.1 v.2 v.1 rfl]; simp [v.2]
  · intro v; exact encVarint_length_pos v.1

/-- a length-delimited target (strings / bytes) takes exactly one value per occurrence, empty ones
    included -/
theorem sliceLoop_len {α} (conv : Bytes → Conv α) (f : Bytes → α) (hconv : ∀ b, conv b = .ok (f b) b.length) :
    ∀ (chunks : List Bytes) (acc : List α), sliceLoop wtLen conv chunks acc = some (some (acc ++ chunks.map f)) := by
  intro chunks
  induction chunks with
  | nil => intro acc; simp [sliceLoop]
  | cons c cs ih => intro acc; simp [sliceLoop, hconv, ih]

/-! ## 4. nested paths: the same statement, recursively, on the last occurrence's payload -/

/-- descending into a declared nested tag whose last occurrence carries the well-formed message
    `rs'` continues on exactly the field data the reference parse of `rs'` gives -/
theorem nested_step (fuel : Nat) (dec sub : LDec) (fds : List FD) (tag i : Nat) (rest : List Nat) (a : Acc)
    (hrest : rest ≠ []) (fd : FD) (cs : List Bytes) (rs' : List Rec)
    (hn : ¬ dec.nested.isEmpty) (hi : idxOf? dec.flat tag = some i) (hsub : dec.sub tag = some sub)
    (hfd : fds[i]? = some fd) (hd : fd.data = cs ++ [wiresOf rs']) (hwt : fd.wt = wtLen)
    (hne : rs' ≠ []) (hok : ∀ r ∈ rs', r.OK) (hw : OneWireType rs') :
    lookupPath (fuel + 1) dec (some fds) (tag :: rest) a =
      lookupPath fuel sub (some (applyRecs sub.flat (cleanFds sub.flat.length) rs')) rest a := by
  have hsel : nestedSelect dec fds tag = .payload sub (wiresOf rs') := by
    unfold nestedSelect; simp [hn, hi, hsub, hfd, hd, hwt]
  have hnonempty : ¬ (wiresOf rs').isEmpty := by
    have h1 := length_le_wiresOf rs'
    have h2 : 0 < rs'.length := List.length_pos_iff.mpr hne
    intro h
    have h0 : (wiresOf rs').length = 0 := by simpa using h
    omega
  cases rest with
  | nil => exact absurd rfl hrest
  | cons t ts =>
    simp only [lookupPath, hsel, hnonempty, if_false, decode_records sub.flat rs' hok hw]
    simp

/-! ## 5. totality on arbitrary bytes -/

theorem decodeIntoLoop_safe (flat : List Nat) :
    ∀ (fuel : Nat) (d : Dec) (fds : List FD), d.Inv → fds.length = flat.length →
      decodeIntoLoop flat fuel d fds ≠ .panic ∧
      ∀ fds', decodeIntoLoop flat fuel d fds = .ok fds' → fds'.length = flat.length := by
  intro fuel
  induction fuel with
  | zero => intro d fds _ _; simp [decodeIntoLoop]
  | succ fuel ih =>
    intro d fds hi hl
    rw [decodeIntoLoop]
    split
    · exact ⟨by simp, fun fds' h => by simp at h; rw [← h]; exact hl⟩
    · split
      · rename_i d1 tag wt a htag
        have h1 := C20.stepInv hi htag
        split
        · -- tag not requested: skip
          split
          · rename_i d2 _ _ hsk
            exact ih d2 fds (C20.stepInv h1.1 hsk).1 hl
          · rename_i hsk; exact absurd rfl (C20.stepInv h1.1 hsk).2
          · simp
        · rename_i i hidx
          split
          · -- index out of range: impossible
            rename_i hnone
            have := idxOf?_lt hidx
            have := List.getElem?_eq_none_iff.mp hnone
            omega
          · rename_i fd hfd
            split
            · simp
            · split
              · split
                · rename_i d2 val _ hsk
                  exact ih d2 _ (C20.stepInv h1.1 hsk).1 (by simp [hl])
                · rename_i hsk; exact absurd rfl (C20.stepInv h1.1 hsk).2
                · simp
              · split
                · split
                  · rename_i d2 val _ hsk
                    exact ih d2 _ (C20.stepInv h1.1 hsk).1 (by simp [hl])
                  · rename_i hsk; exact absurd rfl (C20.stepInv h1.1 hsk).2
                  · simp
                · simp
      · rename_i htag; exact absurd rfl (C20.stepInv hi htag).2
      · simp

/-- **On every byte string** lazy decoding returns an error or a result, never a panic. -/
theorem decodeInto_total (flat : List Nat) (fds : List FD) (input : Bytes) (hl : fds.length = flat.length) :
    decodeInto flat fds input ≠ .panic ∧ ∀ fds', decodeInto flat fds input = .ok fds' → fds'.length = flat.length :=
  decodeIntoLoop_safe flat _ _ fds (by simp [Dec.Inv, Dec.len]) hl

/-! ## 6. the decoder's tag tables are sorted and duplicate-free (so `Nodup` above is met) -/

theorem insertSorted_sorted (x : Nat) : ∀ (l : List Nat), l.Pairwise (· < ·) → (insertSorted x l).Pairwise (· < ·) ∧
    ∀ y ∈ insertSorted x l, y = x ∨ y ∈ l
  | [], _ => by simp [insertSorted]
  | y :: ys, h => by
    have hy := List.pairwise_cons.mp h
    simp only [insertSorted]
    by_cases h1 : x < y
    · simp only [h1, if_true]
      refine ⟨List.pairwise_cons.mpr ⟨?_, h⟩, by simp⟩
      intro z hz; simp at hz
      rcases hz with rfl | hz
      · exact h1
      · exact Nat.lt_trans h1 (hy.1 z hz)
    · by_cases h2 : x = y
      · subst h2
        simp only [Nat.lt_irrefl, if_false, if_true]
        exact ⟨h, fun z hz => Or.inr hz⟩
      · simp only [h1, h2, if_false]
        have ih := insertSorted_sorted x ys hy.2
        refine ⟨List.pairwise_cons.mpr ⟨?_, ih.1⟩, ?_⟩
        · intro z hz
          rcases ih.2 z hz with rfl | hz'
          · omega
          · exact hy.1 z hz'
        · intro z hz; simp at hz
          rcases hz with rfl | hz
          · simp
          · rcases ih.2 z hz with rfl | h'
            · simp
            · simp [h']

theorem sortDedup_sorted (xs : List Nat) : (sortDedup xs).Pairwise (· < ·) := by
  unfold sortDedup
  induction xs with
  | nil => simp
  | cons x xs ih => exact (insertSorted_sorted x _ ih).1

theorem sortDedup_nodup (xs : List Nat) : (sortDedup xs).Nodup :=
  (sortDedup_sorted xs).imp (fun h => Nat.ne_of_lt h)

/-- the compiled decoder's flat tag table is duplicate-free for every definition -/
theorem compile_flat_nodup (d : LDef) : d.compile.flat.Nodup := by
  cases d with
  | node es => simp only [LDef.compile, LDec.flat]; exact sortDedup_nodup _

/-! ## non-vacuity: a concrete message meeting the hypotheses of `decode_records` -/
example : (∀ r ∈ [Rec.varint 1 150, .len 3 [1, 2], .varint 1 7, .fixed32 9 5], r.OK) ∧
    OneWireType [Rec.varint 1 150, .len 3 [1, 2], .varint 1 7, .fixed32 9 5] := by
  constructor
  · intro r hr
    simp at hr
    rcases hr with rfl | rfl | rfl | rfl <;> simp [Rec.OK, maxTagValue, two64, two32, maxFieldLen]
  · intro r1 h1 r2 h2 ht
    simp at h1 h2
    rcases h1 with rfl | rfl | rfl | rfl <;> rcases h2 with rfl | rfl | rfl | rfl <;> simp_all [Rec.tag, Rec.wt]

end Csproto.C13
