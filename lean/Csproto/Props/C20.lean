import Csproto.Model.Hex
import Csproto.Model.Dump
import Csproto.Props.C03
import Csproto.Proofs.Dec
import Csproto.Proofs.Records
/-
  C20 — Diagnostic tooling: annotated hex and protodump are faithful.
-/
namespace Csproto.C20
open Csproto

/-! ## annotated hex: an independent, character-level reading of the format

  `significant inComment text` = the characters that lie outside comments and are not whitespace,
  read by a one-pass state machine (a ';' opens a comment, a line feed closes it). -/

def significant : Bool → List Char → List Char
  | _, [] => []
  | inC, c :: r =>
    if c = '\n' then significant false r
    else if inC then significant true r
    else if c = ';' then significant true r
    else if isSpaceRune c then significant false r
    else c :: significant false r

theorem splitLines_ne_nil (x : List Char) : splitLines x ≠ [] := by
  cases x with
  | nil => simp [splitLines]
  | cons c cs =>
    simp only [splitLines]
    split
    · simp
    · split <;> simp

theorem nl_is_space : isSpaceRune '\n' = true := by decide

/-- the line-based procedure and the character-level reading see the same significant characters -/
theorem significant_lines (x : List Char) :
    ∀ l ls, splitLines x = l :: ls →
      significant false x = sigLine l ++ (ls.map sigLine).flatten ∧
      significant true x = (ls.map sigLine).flatten := by
  induction x with
  | nil => intro l ls h; simp [splitLines] at h; obtain ⟨h1, h2⟩ := h; subst h1; subst h2; simp [significant, sigLine, cutComment]
  | cons c cs ih =>
    intro l ls h
    simp only [splitLines] at h
    by_cases hc : c = '\n'
    · simp only [hc, if_true] at h
      obtain ⟨h1, h2⟩ := List.cons.inj h
      subst h1
      obtain ⟨l', ls', hs⟩ := List.exists_cons_of_ne_nil (splitLines_ne_nil cs)
      have := ih l' ls' hs
      rw [hs] at h2; subst h2
      simp [significant, hc, sigLine, cutComment, this.1]
    · simp only [hc, if_false] at h
      obtain ⟨l', ls', hs⟩ := List.exists_cons_of_ne_nil (splitLines_ne_nil cs)
      rw [hs] at h
      simp only at h
      obtain ⟨h1, h2⟩ := List.cons.inj h
      subst h1; subst h2
      have := ih l' ls' hs
      constructor
      · by_cases hsemi : c = ';'
        · simp [significant, hc, hsemi, sigLine, cutComment, this.2]
        · by_cases hsp : isSpaceRune c
          · simp [significant, hc, hsemi, hsp, sigLine, cutComment, this.1]
          · simp [significant, hc, hsemi, hsp, sigLine, cutComment, this.1]
      · simp [significant, hc, this.2]

theorem significant_eq_flatten (x : List Char) :
    significant false x = ((splitLines x).map sigLine).flatten := by
  obtain ⟨l, ls, hs⟩ := List.exists_cons_of_ne_nil (splitLines_ne_nil x)
  rw [hs, (significant_lines x l ls hs).1]; simp

theorem decodeHex_append : ∀ (a : List Char) (x : Bytes) (b : List Char), decodeHex a = some x →
    decodeHex (a ++ b) = (decodeHex b).map (x ++ ·)
  | [], x, b, h => by simp [decodeHex] at h; subst h; simp
  | [_], x, b, h => by simp [decodeHex] at h
  | c1 :: c2 :: rest, x, b, h => by
    simp only [decodeHex] at h
    cases h1 : hexDigitVal c1 <;> cases h2 : hexDigitVal c2 <;> cases h3 : decodeHex rest <;> simp [h1, h2, h3] at h
    subst h
    have := decodeHex_append rest _ b h3
    simp only [List.cons_append, decodeHex, h1, h2, this]
    cases decodeHex b <;> simp

theorem parseLines_sound : ∀ (ls : List (List Char)) (b : Bytes), parseLines ls = some b →
    decodeHex ((ls.map sigLine).flatten) = some b
  | [], b, h => by simp [parseLines] at h; subst h; simp [decodeHex]
  | l :: ls, b, h => by
    simp only [parseLines] at h
    by_cases he : (sigLine l).isEmpty
    · simp only [he, if_true] at h
      have : sigLine l = [] := by simpa using he
      simp [this, parseLines_sound ls b h]
    · simp only [he] at h
      cases h1 : decodeHex (sigLine l) <;> cases h2 : parseLines ls <;> simp [h1, h2] at h
      subst h
      rename_i b1 bs
      simp only [List.map_cons, List.flatten_cons]
      rw [decodeHex_append _ b1 _ h1, parseLines_sound ls bs h2]; simp

/-- **Soundness.** Whenever `ParseAnnotatedHex` succeeds, the bytes it returns are exactly the bytes
    denoted by the hex digits that lie outside comments — for every placement of whitespace, line
    breaks and ';' comments. -/
theorem hex_sound (x : List Char) (b : Bytes) (h : parseAnnotatedHex x = some b) :
    decodeHex (significant false x) = some b := by
  rw [significant_eq_flatten]; exact parseLines_sound _ b h

theorem decodeHex_all_hex : ∀ (s : List Char) (b : Bytes), decodeHex s = some b →
    ∀ c ∈ s, (hexDigitVal c).isSome
  | [], _, _ => by simp
  | [_], _, h => by simp [decodeHex] at h
  | c1 :: c2 :: rest, b, h => by
    simp only [decodeHex] at h
    cases h1 : hexDigitVal c1 <;> cases h2 : hexDigitVal c2 <;> cases h3 : decodeHex rest <;> simp [h1, h2, h3] at h
    intro c hc
    simp at hc
    rcases hc with rfl | rfl | hc
    · simp [h1]
    · simp [h2]
    · exact decodeHex_all_hex rest _ h3 c hc

/-- **Rejection.** Text containing anything other than hex digits, whitespace and comments is
    rejected: a foreign character outside a comment makes the call fail. -/
theorem hex_rejects (x : List Char) (c : Char) (hc : c ∈ significant false x) (hbad : hexDigitVal c = none) :
    parseAnnotatedHex x = none := by
  cases h : parseAnnotatedHex x with
  | none => rfl
  | some b =>
    have := decodeHex_all_hex _ b (hex_sound x b h) c hc
    simp [hbad] at this

theorem parseLines_complete : ∀ (ls : List (List Char)), (∀ l ∈ ls, (decodeHex (sigLine l)).isSome) →
    parseLines ls = decodeHex ((ls.map sigLine).flatten) ∧ (parseLines ls).isSome
  | [], _ => by simp [parseLines, decodeHex]
  | l :: ls, h => by
    have hl := h l (by simp)
    have ih := parseLines_complete ls (fun m hm => h m (by simp [hm]))
    obtain ⟨b1, h1⟩ := Option.isSome_iff_exists.mp hl
    obtain ⟨bs, h2⟩ := Option.isSome_iff_exists.mp ih.2
    simp only [parseLines, List.map_cons, List.flatten_cons]
    by_cases he : (sigLine l).isEmpty
    · have : sigLine l = [] := by simpa using he
      simp [this, ih.1, ih.2]
      rw [← ih.1]; exact ih.2
    · simp only [he, h1, h2]
      rw [decodeHex_append _ b1 _ h1, ← ih.1, h2]; simp

/-- **Completeness.** For every text whose lines each carry a whole number of bytes (all significant
    characters hex digits, an even number per line — i.e. line breaks fall *between* bytes; spaces,
    tabs and comments may be anywhere), the call succeeds and returns exactly the denoted bytes. -/
theorem hex_complete (x : List Char) (h : ∀ l ∈ splitLines x, (decodeHex (sigLine l)).isSome) :
    parseAnnotatedHex x = decodeHex (significant false x) ∧ (parseAnnotatedHex x).isSome := by
  rw [significant_eq_flatten]; exact parseLines_complete _ h

/-- a line qualifies exactly when it has an even number of significant characters, all hex digits -/
theorem decodeHex_isSome_iff : ∀ (s : List Char),
    (decodeHex s).isSome ↔ (s.length % 2 = 0 ∧ ∀ c ∈ s, (hexDigitVal c).isSome)
  | [] => by simp [decodeHex]
  | [c] => by simp [decodeHex]
  | c1 :: c2 :: rest => by
    have ih := decodeHex_isSome_iff rest
    have hlen : (c1 :: c2 :: rest).length % 2 = rest.length % 2 := by
      simp only [List.length_cons]; omega
    rw [hlen]
    simp only [decodeHex]
    cases h1 : hexDigitVal c1 <;> cases h2 : hexDigitVal c2 <;> cases h3 : decodeHex rest <;> simp_all

/-! ## protodump -/

/-- **Path matching is exact**: a field is expanded / printed as a string exactly when its full tag
    path is one of the requested paths (no prefixes, no wildcards). -/
theorem pathsMatch_iff (paths : List (List Nat)) (p : List Nat) :
    pathsMatch paths p = true ↔ p ≠ [] ∧ p ∈ paths := by
  unfold pathsMatch pathMatches
  simp only [List.any_eq_true, Bool.and_eq_true, Bool.not_eq_true', beq_iff_eq]
  constructor
  · rintro ⟨tp, hm, hne, rfl⟩; exact ⟨by simpa using hne, hm⟩
  · rintro ⟨hne, hm⟩; exact ⟨p, hm, by simpa using hne, rfl⟩


theorem stepInv {d d' : Dec} {op : DecOp} {o : DecOut} {a : Nat} (hi : d.Inv) (h : d.step op = (d', o, a)) :
    d'.Inv ∧ o ≠ .panic := by
  have := C03.step_safe d hi op
  rw [h] at this
  exact ⟨this.inv, this.noPanic⟩

/-- **protodump never crashes**: for every input and every expand/strings path sets the dump loop
    ends with "ok" or with a reported error, never with a panic (malformed input is an error). -/
theorem dumpLoop_no_panic (expand strs : List (List Nat)) :
    ∀ (fuel : Nat) (d : Dec) (parent : List Nat) (indent : Nat), d.Inv →
      (dumpLoop expand strs fuel d parent indent).2 ≠ .panic := by
  intro fuel
  induction fuel with
  | zero => intro d parent indent _; simp [dumpLoop]
  | succ fuel ih =>
    intro d parent indent hi
    rw [dumpLoop]
    split
    · simp
    · split
      · -- tag ok
        rename_i d1 tag wt a htag
        have h1 := stepInv hi htag
        dsimp only
        split
        · split
          · rename_i d2 v a2 hv
            exact ih d2 parent indent (stepInv h1.1 hv).1
          · rename_i hv; exact absurd rfl (stepInv h1.1 hv).2
          · simp
        · split
          · split
            · rename_i d2 v a2 hv
              exact ih d2 parent indent (stepInv h1.1 hv).1
            · rename_i hv; exact absurd rfl (stepInv h1.1 hv).2
            · simp
          · split
            · split
              · rename_i d2 v a2 hv
                exact ih d2 parent indent (stepInv h1.1 hv).1
              · rename_i hv; exact absurd rfl (stepInv h1.1 hv).2
              · simp
            · split
              · split
                · rename_i d2 b a2 hv
                  have hd2 := (stepInv h1.1 hv).1
                  split
                  · exact ih d2 parent indent hd2
                  · split
                    · have hin := ih (Dec.new b) (parent ++ [tag]) (indent + 1) (C03.new_inv b)
                      split
                      · exact ih d2 parent indent hd2
                      · rename_i e hne
                        dsimp only
                        intro hp
                        apply hin
                        rw [← hp]
                    · exact ih d2 parent indent hd2
                · rename_i hv; exact absurd rfl (stepInv h1.1 hv).2
                · simp
              · split
                · rename_i hv; exact absurd rfl (stepInv h1.1 hv).2
                · simp
      · rename_i htag; exact absurd rfl (stepInv hi htag).2
      · simp

theorem dumpProto_no_panic (data : Bytes) (expand strs : List (List Nat)) :
    (dumpProto data expand strs).2 ≠ .panic :=
  dumpLoop_no_panic expand strs _ _ _ _ (C03.new_inv data)

/-! ### one entry per field, in wire order, with number, wire type and value -/

/-- what protodump must print for the record (no expand / strings paths) -/
def Rec.entry (indent : Nat) : Rec → Bytes
  | .varint t v => asciiBytes s!"{indentStr indent}tag: {t}, wire type: {wtName wtVarint}\n" ++
      asciiBytes s!"{indentStr indent}  varint: {toI64 v}\n"
  | .fixed32 t v => asciiBytes s!"{indentStr indent}tag: {t}, wire type: {wtName wtFixed32}\n" ++
      asciiBytes s!"{indentStr indent}  fixed32: {v}\n"
  | .fixed64 t v => asciiBytes s!"{indentStr indent}tag: {t}, wire type: {wtName wtFixed64}\n" ++
      asciiBytes s!"{indentStr indent}  fixed64: {v}\n"
  | .len t b => asciiBytes s!"{indentStr indent}tag: {t}, wire type: {wtName wtLen}\n" ++
      (asciiBytes s!"{indentStr indent}  length: {b.length}\n" ++
       asciiBytes (s!"{indentStr indent}  [" ++ ",".intercalate (b.map byteHex) ++ "]\n"))

theorem elInt64_any (v : Nat) (hv : v < two64) (rest : Bytes) :
    elInt64 (encVarint v ++ rest) = .ok (toI64 v, (encVarint v).length) := by
  unfold elInt64; rw [elVarint_enc v hv]; rfl

/-- **One entry per field, in wire order, carrying the field number, wire type and value a
    reference parser finds** — for every sequence of well-formed records. -/
theorem dump_entries (rs : List Rec) (hrs : ∀ r ∈ rs, r.OK) :
    ∀ (fuel : Nat) (d : Dec) (pre : Bytes) (parent : List Nat) (indent : Nat),
      rs.length < fuel → d.At pre ((rs.map Rec.wire).flatten) →
      dumpLoop [] [] fuel d parent indent = (((rs.map (Rec.entry indent)).flatten), .ok) := by
  induction rs with
  | nil =>
    intro fuel d pre parent indent hf h
    match fuel, hf with
    | fuel + 1, _ =>
      have : ¬ d.off < d.len := by rw [h.len, h.off]; simp
      simp [dumpLoop, this]
  | cons r rs ih =>
    intro fuel d pre parent indent hf h
    match fuel, hf with
    | fuel + 1, hf =>
      have hok := hrs r (by simp)
      have hmore : d.off < d.len := by
        have := List.length_pos_iff.mpr (Rec.wire_ne_nil r)
        rw [h.len, h.off]; simp; omega
      simp only [List.map_cons, List.flatten_cons] at h ⊢
      have ih' := fun d2 pre2 => ih (fun q hq => hrs q (by simp [hq])) fuel d2 pre2 parent indent (by simp at hf; omega)
      rw [dumpLoop]
      simp only [hmore, not_true_eq_false, if_false]
      cases r with
      | varint t v =>
        obtain ⟨h1, ht, hv⟩ := hok
        simp only [Rec.wire, Rec.tag, Rec.wt, Rec.body, Rec.chunk, List.append_assoc] at h
        have htag := Dec.tag_at h h1 ht (by decide)
        have hAt := h.afterTag
        have hval := Dec.scalar_at hAt (encVarint_ne_nil v) elInt64 .int (toI64 v) (elInt64_any v hv _)
        have hAt2 := hAt.advance
        have := ih' _ _ hAt2
        have hstep : Dec.step (d.afterTag (encTag t wtVarint).length) .int64 = ({ d.afterTag (encTag t wtVarint).length with off := (d.afterTag (encTag t wtVarint).length).off + (encVarint v).length }, .ok (.int (toI64 v)), 0) := by
          show withAlloc (Dec.scalar _ elInt64 .int) 0 = _
          rw [hval]; rfl
        simp only [htag, if_true, hstep, this, Rec.entry]

      | fixed32 t v =>
        obtain ⟨h1, ht, hv⟩ := hok
        simp only [Rec.wire, Rec.tag, Rec.wt, Rec.body, Rec.chunk, List.append_assoc] at h
        have htag := Dec.tag_at h h1 ht (by decide)
        have hAt := h.afterTag
        have hval := Dec.scalar_at hAt (by simp [encFixed32, leBytes]) elFixed32 .nat v (elFixed32_enc v hv _)
        have hAt2 := hAt.advance
        have := ih' _ _ hAt2
        have hstep : Dec.step (d.afterTag (encTag t wtFixed32).length) .fixed32 = ({ d.afterTag (encTag t wtFixed32).length with off := (d.afterTag (encTag t wtFixed32).length).off + (encFixed32 v).length }, .ok (.nat v), 0) := by
          show withAlloc (Dec.scalar _ elFixed32 .nat) 0 = _
          rw [hval]; rfl
        have n1 : ¬ (wtFixed32 = wtVarint) := by decide
        simp only [htag, n1, if_false, if_true, hstep, this, Rec.entry]

      | fixed64 t v =>
        obtain ⟨h1, ht, hv⟩ := hok
        simp only [Rec.wire, Rec.tag, Rec.wt, Rec.body, Rec.chunk, List.append_assoc] at h
        have htag := Dec.tag_at h h1 ht (by decide)
        have hAt := h.afterTag
        have hval := Dec.scalar_at hAt (by simp [encFixed64, leBytes]) elFixed64 .nat v (elFixed64_enc v hv _)
        have hAt2 := hAt.advance
        have := ih' _ _ hAt2
        have hstep : Dec.step (d.afterTag (encTag t wtFixed64).length) .fixed64 = ({ d.afterTag (encTag t wtFixed64).length with off := (d.afterTag (encTag t wtFixed64).length).off + (encFixed64 v).length }, .ok (.nat v), 0) := by
          show withAlloc (Dec.scalar _ elFixed64 .nat) 0 = _
          rw [hval]; rfl
        have n1 : ¬ (wtFixed64 = wtVarint) := by decide
        have n2 : ¬ (wtFixed64 = wtFixed32) := by decide
        simp only [htag, n1, n2, if_false, if_true, hstep, this, Rec.entry]

      | len t b =>
        obtain ⟨h1, ht, hb⟩ := hok
        simp only [Rec.wire, Rec.tag, Rec.wt, Rec.body, Rec.chunk, List.append_assoc] at h
        have htag := Dec.tag_at h h1 ht (by decide)
        have hAt := h.afterTag
        have hAt' : Dec.At (d.afterTag (encTag t wtLen).length) (pre ++ encTag t wtLen)
            (encVarint b.length ++ b ++ (rs.map Rec.wire).flatten) := by simpa using hAt
        have hval := Dec.bytes_at hAt' hb
        have hAt2 : Dec.At { d.afterTag (encTag t wtLen).length with off := (d.afterTag (encTag t wtLen).length).off + (encVarint b.length ++ b).length }
            (pre ++ encTag t wtLen ++ (encVarint b.length ++ b)) ((rs.map Rec.wire).flatten) := by
          have := hAt'.advance (x := encVarint b.length ++ b)
          simpa using this
        have := ih' _ _ hAt2
        have hstep : Dec.step (d.afterTag (encTag t wtLen).length) .bytes = ({ d.afterTag (encTag t wtLen).length with off := (d.afterTag (encTag t wtLen).length).off + (encVarint b.length ++ b).length }, .ok (.bytes b), 0) := by
          show withAlloc (Dec.bytesOp _) 0 = _
          rw [hval]; rfl
        have n1 : ¬ (wtLen = wtVarint) := by decide
        have n2 : ¬ (wtLen = wtFixed32) := by decide
        have n3 : ¬ (wtLen = wtFixed64) := by decide
        simp only [htag, n1, n2, n3, if_false, if_true, hstep, this, Rec.entry, pathsMatch]
        simp

/-! ### nothing but the ASCII hex digits counts as a digit -/

/-- a character denotes a nibble exactly when it is one of `0-9`, `A-F`, `a-f` -/
theorem hexDigitVal_isSome_iff (c : Char) :
    (hexDigitVal c).isSome ↔
      ((48 ≤ c.toNat ∧ c.toNat ≤ 57) ∨ (65 ≤ c.toNat ∧ c.toNat ≤ 70) ∨ (97 ≤ c.toNat ∧ c.toNat ≤ 102)) := by
  unfold hexDigitVal
  dsimp only
  split
  · simp; omega
  · split
    · simp; omega
    · split
      · simp; omega
      · simp; omega

/-- **No character outside ASCII is ever taken for a digit** (whatever its low byte, its case folding
    or its Unicode class): such a character outside a comment, unless it is whitespace, makes the call fail. -/
theorem hex_rejects_non_ascii (x : List Char) (c : Char) (hc : c ∈ significant false x) (h : 128 ≤ c.toNat) :
    parseAnnotatedHex x = none := by
  apply hex_rejects x c hc
  cases hv : hexDigitVal c with
  | none => rfl
  | some v =>
    have := (hexDigitVal_isSome_iff c).mp (by simp [hv])
    omega

/-- the same three statements for the bytes of a Go string, well-formed UTF-8 or not (`goRunes`): a byte
    that is not part of a well-formed sequence is a foreign character like any other -/
theorem hex_bytes_sound (x b : Bytes) (h : parseAnnotatedHexBytes x = some b) :
    decodeHex (significant false (goRunes x)) = some b := hex_sound _ b h

theorem hex_bytes_rejects (x : Bytes) (c : Char) (hc : c ∈ significant false (goRunes x)) (hbad : hexDigitVal c = none) :
    parseAnnotatedHexBytes x = none := hex_rejects _ c hc hbad

theorem hex_bytes_complete (x : Bytes) (h : ∀ l ∈ splitLines (goRunes x), (decodeHex (sigLine l)).isSome) :
    parseAnnotatedHexBytes x = decodeHex (significant false (goRunes x)) ∧ (parseAnnotatedHexBytes x).isSome :=
  hex_complete _ h

theorem runeError_not_hex : hexDigitVal runeError = none := by decide

/-! ### protodump recurses into exactly the requested paths

  `DTree` is a message the way a reference parser sees it once it has been told which fields hold
  messages: leaves are records, `msg` is a length-delimited field whose payload is again a sequence of
  trees.  `Fits` ties a tree to the path sets: a `msg` node sits at a path that is requested for expansion
  (and not as a string), a length-delimited leaf sits at a path that is requested as a string or not
  requested for expansion.  For every such tree, of any depth and with any sibling order, the dump is the
  reference rendering `rendersD`: one entry per field in wire order, the requested strings as strings,
  and below each requested path - and nowhere else - the entries of the nested message, one level deeper. -/

inductive DTree where
  | leaf (r : Rec)
  | msg (tag : Nat) (kids : List DTree)

mutual
def DTree.wire : DTree → Bytes
  | .leaf r => r.wire
  | .msg t kids => encTag t wtLen ++ (encVarint (wiresD kids).length ++ wiresD kids)
def wiresD : List DTree → Bytes
  | [] => []
  | k :: ks => k.wire ++ wiresD ks
end

mutual
def DTree.size : DTree → Nat
  | .leaf _ => 1
  | .msg _ kids => 1 + sizesD kids
def sizesD : List DTree → Nat
  | [] => 0
  | k :: ks => k.size + sizesD ks
end

/-- a length-delimited leaf is not at a path that gets expanded -/
def leafFits (expand strs : List (List Nat)) (parent : List Nat) : Rec → Prop
  | .len t _ => pathsMatch strs (parent ++ [t]) = true ∨ pathsMatch expand (parent ++ [t]) = false
  | _ => True

mutual
def DTree.Fits (expand strs : List (List Nat)) : List Nat → DTree → Prop
  | parent, .leaf r => r.OK ∧ leafFits expand strs parent r
  | parent, .msg t kids => 1 ≤ t ∧ t ≤ maxTagValue ∧ (wiresD kids).length ≤ maxFieldLen ∧
      pathsMatch strs (parent ++ [t]) = false ∧ pathsMatch expand (parent ++ [t]) = true ∧
      FitsAll expand strs (parent ++ [t]) kids
def FitsAll (expand strs : List (List Nat)) : List Nat → List DTree → Prop
  | _, [] => True
  | parent, k :: ks => k.Fits expand strs parent ∧ FitsAll expand strs parent ks
end

/-- the entry of a record when `strs` are the paths requested as strings -/
def Rec.entryWith (strs : List (List Nat)) (parent : List Nat) (indent : Nat) : Rec → Bytes
  | .len t b =>
    asciiBytes s!"{indentStr indent}tag: {t}, wire type: {wtName wtLen}\n" ++
      (asciiBytes s!"{indentStr indent}  length: {b.length}\n" ++
       (if pathsMatch strs (parent ++ [t]) then
          asciiBytes s!"{indentStr indent}  string: " ++ b ++ asciiBytes "\n"
        else asciiBytes (s!"{indentStr indent}  [" ++ ",".intercalate (b.map byteHex) ++ "]\n")))
  | r => Rec.entry indent r

mutual
/-- the reference rendering -/
def DTree.render (strs : List (List Nat)) : List Nat → Nat → DTree → Bytes
  | parent, indent, .leaf r => Rec.entryWith strs parent indent r
  | parent, indent, .msg t kids =>
    Rec.entry indent (.len t (wiresD kids)) ++ rendersD strs (parent ++ [t]) (indent + 1) kids
def rendersD (strs : List (List Nat)) : List Nat → Nat → List DTree → Bytes
  | _, _, [] => []
  | parent, indent, k :: ks => k.render strs parent indent ++ rendersD strs parent indent ks
end

theorem DTree.size_pos (k : DTree) : 0 < k.size := by cases k <;> simp [DTree.size] <;> omega

mutual
theorem DTree.size_le_wire : ∀ k : DTree, k.size ≤ k.wire.length
  | .leaf r => by
    have := List.length_pos_iff.mpr (Rec.wire_ne_nil r)
    simp [DTree.size, DTree.wire]; omega
  | .msg t kids => by
    have h1 := sizesD_le_wires kids
    have h2 : 0 < (encTag t wtLen).length := List.length_pos_iff.mpr (by simp [encTag, encVarint_ne_nil])
    simp [DTree.size, DTree.wire]; omega
theorem sizesD_le_wires : ∀ ks : List DTree, sizesD ks ≤ (wiresD ks).length
  | [] => by simp [sizesD, wiresD]
  | k :: ks => by
    have h1 := DTree.size_le_wire k
    have h2 := sizesD_le_wires ks
    simp [sizesD, wiresD]; omega
end

theorem Dec.new_at (b : Bytes) : (Dec.new b).At [] b := ⟨by simp [Dec.new], rfl⟩

/-- **protodump recurses into exactly the requested paths**, at every depth: for every tree that fits
    the path sets the dump loop prints the reference rendering and ends without an error. -/
theorem dump_tree (expand strs : List (List Nat)) :
    ∀ (fuel : Nat) (ks : List DTree) (d : Dec) (pre : Bytes) (parent : List Nat) (indent : Nat),
      FitsAll expand strs parent ks → sizesD ks < fuel → d.At pre (wiresD ks) →
      dumpLoop expand strs fuel d parent indent = (rendersD strs parent indent ks, .ok) := by
  intro fuel
  induction fuel with
  | zero => intro ks d pre parent indent _ hf _; omega
  | succ fuel ih =>
    intro ks d pre parent indent hfit hf h
    cases ks with
    | nil =>
      have : ¬ d.off < d.len := by rw [h.len, h.off]; simp [wiresD]
      simp [dumpLoop, this, rendersD]
    | cons k rs =>
      obtain ⟨hk, hrs⟩ : k.Fits expand strs parent ∧ FitsAll expand strs parent rs := by
        simpa [FitsAll] using hfit
      have hsz : k.size + sizesD rs < fuel + 1 := by simpa [sizesD] using hf
      have hkpos := DTree.size_pos k
      have hmore : d.off < d.len := by
        have h1 := DTree.size_le_wire k
        rw [h.len, h.off]; simp [wiresD]; omega
      have ih' := fun d2 pre2 => ih rs d2 pre2 parent indent hrs (by omega)
      rw [dumpLoop]
      simp only [hmore, not_true_eq_false, if_false]
      cases k with
      | leaf r =>
        obtain ⟨hok, hleaf⟩ : r.OK ∧ leafFits expand strs parent r := by simpa [DTree.Fits] using hk
        simp only [wiresD, DTree.wire] at h
        simp only [rendersD, DTree.render]
        cases r with
        | varint t v =>
          obtain ⟨h1, ht, hv⟩ := hok
          simp only [Rec.wire, Rec.tag, Rec.wt, Rec.body, Rec.chunk, List.append_assoc] at h
          have htag := Dec.tag_at h h1 ht (by decide)
          have hAt := h.afterTag
          have hval := Dec.scalar_at hAt (encVarint_ne_nil v) elInt64 .int (toI64 v) (elInt64_any v hv _)
          have hAt2 := hAt.advance
          have := ih' _ _ hAt2
          have hstep : Dec.step (d.afterTag (encTag t wtVarint).length) .int64 = ({ d.afterTag (encTag t wtVarint).length with off := (d.afterTag (encTag t wtVarint).length).off + (encVarint v).length }, .ok (.int (toI64 v)), 0) := by
            show withAlloc (Dec.scalar _ elInt64 .int) 0 = _
            rw [hval]; rfl
          simp only [htag, if_true, hstep, this, Rec.entryWith, Rec.entry]
        | fixed32 t v =>
          obtain ⟨h1, ht, hv⟩ := hok
          simp only [Rec.wire, Rec.tag, Rec.wt, Rec.body, Rec.chunk, List.append_assoc] at h
          have htag := Dec.tag_at h h1 ht (by decide)
          have hAt := h.afterTag
          have hval := Dec.scalar_at hAt (by simp [encFixed32, leBytes]) elFixed32 .nat v (elFixed32_enc v hv _)
          have hAt2 := hAt.advance
          have := ih' _ _ hAt2
          have hstep : Dec.step (d.afterTag (encTag t wtFixed32).length) .fixed32 = ({ d.afterTag (encTag t wtFixed32).length with off := (d.afterTag (encTag t wtFixed32).length).off + (encFixed32 v).length }, .ok (.nat v), 0) := by
            show withAlloc (Dec.scalar _ elFixed32 .nat) 0 = _
            rw [hval]; rfl
          have n1 : ¬ (wtFixed32 = wtVarint) := by decide
          simp only [htag, n1, if_false, if_true, hstep, this, Rec.entryWith, Rec.entry]
        | fixed64 t v =>
          obtain ⟨h1, ht, hv⟩ := hok
          simp only [Rec.wire, Rec.tag, Rec.wt, Rec.body, Rec.chunk, List.append_assoc] at h
          have htag := Dec.tag_at h h1 ht (by decide)
          have hAt := h.afterTag
          have hval := Dec.scalar_at hAt (by simp [encFixed64, leBytes]) elFixed64 .nat v (elFixed64_enc v hv _)
          have hAt2 := hAt.advance
          have := ih' _ _ hAt2
          have hstep : Dec.step (d.afterTag (encTag t wtFixed64).length) .fixed64 = ({ d.afterTag (encTag t wtFixed64).length with off := (d.afterTag (encTag t wtFixed64).length).off + (encFixed64 v).length }, .ok (.nat v), 0) := by
            show withAlloc (Dec.scalar _ elFixed64 .nat) 0 = _
            rw [hval]; rfl
          have n1 : ¬ (wtFixed64 = wtVarint) := by decide
          have n2 : ¬ (wtFixed64 = wtFixed32) := by decide
          simp only [htag, n1, n2, if_false, if_true, hstep, this, Rec.entryWith, Rec.entry]
        | len t b =>
          obtain ⟨h1, ht, hb⟩ := hok
          simp only [Rec.wire, Rec.tag, Rec.wt, Rec.body, Rec.chunk, List.append_assoc] at h
          have htag := Dec.tag_at h h1 ht (by decide)
          have hAt := h.afterTag
          have hAt' : Dec.At (d.afterTag (encTag t wtLen).length) (pre ++ encTag t wtLen)
              (encVarint b.length ++ b ++ wiresD rs) := by simpa using hAt
          have hval := Dec.bytes_at hAt' hb
          have hAt2 : Dec.At { d.afterTag (encTag t wtLen).length with off := (d.afterTag (encTag t wtLen).length).off + (encVarint b.length ++ b).length }
              (pre ++ encTag t wtLen ++ (encVarint b.length ++ b)) (wiresD rs) := by
            have := hAt'.advance (x := encVarint b.length ++ b)
            simpa using this
          have := ih' _ _ hAt2
          have hstep : Dec.step (d.afterTag (encTag t wtLen).length) .bytes = ({ d.afterTag (encTag t wtLen).length with off := (d.afterTag (encTag t wtLen).length).off + (encVarint b.length ++ b).length }, .ok (.bytes b), 0) := by
            show withAlloc (Dec.bytesOp _) 0 = _
            rw [hval]; rfl
          have n1 : ¬ (wtLen = wtVarint) := by decide
          have n2 : ¬ (wtLen = wtFixed32) := by decide
          have n3 : ¬ (wtLen = wtFixed64) := by decide
          simp only [htag, n1, n2, n3, if_false, if_true, hstep, this, Rec.entryWith]
          by_cases hs : pathsMatch strs (parent ++ [t]) = true
          · simp [hs]
          · have he : pathsMatch expand (parent ++ [t]) = false := by
              rcases hleaf with hl | hl
              · exact absurd hl hs
              · exact hl
            simp [hs, he]
      | msg t kids =>
        obtain ⟨h1, ht, hb, hs, he, hkids⟩ :
            1 ≤ t ∧ t ≤ maxTagValue ∧ (wiresD kids).length ≤ maxFieldLen ∧
            pathsMatch strs (parent ++ [t]) = false ∧ pathsMatch expand (parent ++ [t]) = true ∧
            FitsAll expand strs (parent ++ [t]) kids := by simpa [DTree.Fits] using hk
        simp only [wiresD, DTree.wire, List.append_assoc] at h
        simp only [rendersD, DTree.render]
        have htag := Dec.tag_at h h1 ht (by decide)
        have hAt := h.afterTag
        have hAt' : Dec.At (d.afterTag (encTag t wtLen).length) (pre ++ encTag t wtLen)
            (encVarint (wiresD kids).length ++ wiresD kids ++ wiresD rs) := by simpa using hAt
        have hval := Dec.bytes_at hAt' hb
        have hAt2 : Dec.At { d.afterTag (encTag t wtLen).length with off := (d.afterTag (encTag t wtLen).length).off + (encVarint (wiresD kids).length ++ wiresD kids).length }
            (pre ++ encTag t wtLen ++ (encVarint (wiresD kids).length ++ wiresD kids)) (wiresD rs) := by
          have := hAt'.advance (x := encVarint (wiresD kids).length ++ wiresD kids)
          simpa using this
        have hrest := ih' _ _ hAt2
        have hinner := ih kids (Dec.new (wiresD kids)) [] (parent ++ [t]) (indent + 1) hkids
          (by simp [DTree.size] at hsz; omega) (Dec.new_at _)
        have hstep : Dec.step (d.afterTag (encTag t wtLen).length) .bytes = ({ d.afterTag (encTag t wtLen).length with off := (d.afterTag (encTag t wtLen).length).off + (encVarint (wiresD kids).length ++ wiresD kids).length }, .ok (.bytes (wiresD kids)), 0) := by
          show withAlloc (Dec.bytesOp _) 0 = _
          rw [hval]; rfl
        have n1 : ¬ (wtLen = wtVarint) := by decide
        have n2 : ¬ (wtLen = wtFixed32) := by decide
        have n3 : ¬ (wtLen = wtFixed64) := by decide
        simp only [htag, n1, n2, n3, if_false, if_true, hstep, hs, he, hinner, hrest, Rec.entry]
        simp

/-- the whole program: `protodump -expand … -strings …` on the encoding of a tree that fits the path sets -/
theorem dumpProto_tree (expand strs : List (List Nat)) (ks : List DTree) (h : FitsAll expand strs [] ks) :
    dumpProto (wiresD ks) expand strs = (rendersD strs [] 0 ks, .ok) := by
  unfold dumpProto
  exact dump_tree expand strs _ ks _ [] [] 0 h (by have := sizesD_le_wires ks; omega) (Dec.new_at _)

/-- what "fits" means in terms of the requested paths (exact matching, `pathsMatch_iff`): a field is
    recursed into iff its full path is among the `-expand` paths and not among the `-strings` paths -/
theorem recursed_iff (expand strs : List (List Nat)) (p : List Nat) (hp : p ≠ []) :
    (pathsMatch strs p = false ∧ pathsMatch expand p = true) ↔ (p ∈ expand ∧ p ∉ strs) := by
  have h1 := pathsMatch_iff expand p
  have h2 := pathsMatch_iff strs p
  constructor
  · rintro ⟨hs, he⟩
    refine ⟨(h1.mp he).2, fun hm => ?_⟩
    have := h2.mpr ⟨hp, hm⟩
    simp [hs] at this
  · rintro ⟨he, hs⟩
    refine ⟨?_, h1.mpr ⟨hp, he⟩⟩
    cases hm : pathsMatch strs p with
    | false => rfl
    | true => exact absurd (h2.mp hm).2 hs

/-! ## non-vacuity -/
example : parseAnnotatedHex "08 ; tag\n 96 01\t; value".toList = some [0x08, 0x96, 0x01] := by decide
example : (dumpProto [0x08, 0x96, 0x01] [] []).2 = .ok := by decide
-- characters whose code point merely ends in the code of a hex digit (U+0134 -> '4', U+0661 -> 'a') are foreign
example : parseAnnotatedHex "08 6Ĵ".toList = none := by decide
example : parseAnnotatedHex "0١ 02".toList = none := by decide
example : parseAnnotatedHex "08 ６4".toList = none := by decide
-- a stray continuation byte / a truncated sequence outside a comment is foreign, inside a comment it is nothing
example : parseAnnotatedHexBytes [0x30, 0x38, 0x80] = none := by decide
example : parseAnnotatedHexBytes [0x30, 0x38, 0x3B, 0xC3, 0x0A, 0x36, 0x34] = some [0x08, 0x64] := by decide
-- ... but anything goes inside a comment
example : parseAnnotatedHex "08 ; Ĵ١\n64".toList = some [0x08, 0x64] := by decide

/-! four levels deep, four sibling fields that are treated differently (raw, string, message, string): an
    instance of `dumpProto_tree` (the hypotheses can be met), and a well-formed message that reads as hex text -/
/-- the demo shape: 1.1.1.{1 raw, 2 string, 3 message, 4 string}, four levels deep -/
def ladTree : List DTree :=
  [.msg 1 [.msg 1 [.msg 1 [.leaf (.len 1 [0xDE,0xAD]), .leaf (.len 2 [0x68,0x69]), .msg 3 [.leaf (.varint 1 5)], .leaf (.len 4 [0x79,0x6F])]]]]
def ladBytes : Bytes := [0x0A,0x14,0x0A,0x12,0x0A,0x10,0x0A,0x02,0xDE,0xAD,0x12,0x02,0x68,0x69,0x1A,0x02,0x08,0x05,0x22,0x02,0x79,0x6F]
theorem ladTree_wire : wiresD ladTree = ladBytes := by
  simp [ladTree, ladBytes, wiresD, DTree.wire, Rec.wire, Rec.body, Rec.chunk, Rec.tag, Rec.wt, encTag, keyOf, two64, encVarint_small, wtLen, wtVarint]
theorem ladTree_fits : FitsAll [[1],[1,1],[1,1,1],[1,1,1,3]] [[1,1,1,2],[1,1,1,4]] [] ladTree := by
  simp [ladTree, FitsAll, DTree.Fits, leafFits, Rec.OK, pathsMatch, pathMatches, maxTagValue, two64, maxFieldLen, wiresD, DTree.wire, Rec.wire, Rec.body, Rec.chunk, Rec.tag, Rec.wt, encTag, keyOf, two64, encVarint_small, wtLen, wtVarint]
example : dumpProto ladBytes [[1],[1,1],[1,1,1],[1,1,1,3]] [[1,1,1,2],[1,1,1,4]] =
    (rendersD [[1,1,1,2],[1,1,1,4]] [] 0 ladTree, .ok) := by
  rw [← ladTree_wire]; exact dumpProto_tree _ _ _ ladTree_fits
theorem hexish_wire : wiresD [.leaf (.varint 6 56), .leaf (.varint 6 49)] = [0x30, 0x38, 0x30, 0x31] := by
  simp [wiresD, DTree.wire, Rec.wire, Rec.body, Rec.chunk, Rec.tag, Rec.wt, encTag, keyOf, two64, encVarint_small, wtVarint]
example : dumpProto [0x30, 0x38, 0x30, 0x31] [] [] =
    (Rec.entry 0 (.varint 6 56) ++ (Rec.entry 0 (.varint 6 49) ++ []), .ok) := by
  rw [← hexish_wire]
  exact dumpProto_tree [] [] _ (by simp [FitsAll, DTree.Fits, leafFits, Rec.OK, maxTagValue, two64])

end Csproto.C20
