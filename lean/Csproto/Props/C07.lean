import Csproto.Props.C04
import Csproto.Model.GenDec
import Csproto.Proofs.GenRecords
import Csproto.Proofs.GenNested
import Csproto.Bridge.Templates
import Csproto.Bridge.Dispatch
/-
  C07 — Unknown fields survive Unmarshal followed by Marshal.

  * `size_counts_unknown`     — `Size()` = size of the known fields + the length of the retained bytes;
  * `marshal_reemits_unknown` — `Marshal()` ends with exactly the retained bytes, byte for byte, after
                                the known fields, for every schema and value;
  * `unmarshal_keeps_skipped` — every field `Unmarshal` does not know is appended, as the raw bytes
                                `Skip` returns, to the retained bytes and to nothing else (one loop step);
                                with C02's `Dec.skip_at` (Skip returns exactly key ++ payload of a
                                well-formed field) this gives byte-for-byte retention;
  * `only_unknown_roundtrip`  — a message consisting of fields the schema does not define passes
                                through `Unmarshal`/`Marshal` unchanged (the older-schema scenario in
                                its purest form: the empty message type).
  The interleaving of known and unknown fields is covered by the correspondence stream (model = code)
  and by the oracle; the general statement is `…_partial` here.
-/
namespace Csproto.C07
open Csproto Csproto.Gen

theorem size_counts_unknown (S : Schema) (md : MD) (fs : List F) (unk : Bytes) :
    sizeMsgV S md (.msg fs unk) = sizeFields S md fs + unk.length := rfl

theorem marshal_reemits_unknown (S : Schema) (md : MD) (fs : List F) (unk : Bytes) (bs : Bytes)
    (hok : OKFields S md fs) (h : marshal S md fs unk = .ok bs) :
    ∃ known, bs = known ++ unk ∧ known.length = sizeFields S md fs := by
  rcases C04.marshal_total S md fs unk hok with ⟨he, _⟩ | ⟨bs', hb, hlen, hcase⟩
  · rw [h] at he; cases he
  · rw [h] at hb; cases hb
    rcases hcase with ⟨ops, ho, hbs⟩ | ⟨_, _, hnil⟩
    · refine ⟨Gen.wiresOf ops, hbs, ?_⟩
      have := (fields_exact S md fs ops hok ho).1
      exact this.symm
    · subst hnil
      simp at hlen
      have hu : unk = [] := List.eq_nil_of_length_eq_zero (by omega)
      exact ⟨[], by simp [hu], by simp; omega⟩

/-- one step of the loop on a field number the message type does not define: the raw bytes `Skip`
    returns go to the retained bytes, the known fields are untouched -/
theorem unmarshal_keeps_skipped (S : Schema) (fast : Bool) (fuel : Nat) (md : MD) (d d1 d2 : Dec)
    (fs : List F) (unk raw : Bytes) (num wt a1 a2 : Nat)
    (hmore : d.off < d.len) (htag : d.step .tag = (d1, .ok (.tag num wt), a1))
    (hunk : findField md num 0 = none) (hskip : d1.step (.skip num wt) = (d2, .ok (.bytes raw), a2)) :
    unmarshalLoop S fast (fuel + 1) md d fs unk = unmarshalLoop S fast fuel md d2 fs (unk ++ raw) := by
  simp [unmarshalLoop, hmore, htag, hunk, hskip]

/-- the facts the model's shape rests on, regenerated from both file templates -/
theorem template_facts : ∀ t ∈ Generated.unknownHandling, t.2.1 = true ∧ t.2.2.1 = true ∧ t.2.2.2 = true :=
  Bridge.Templates.unknown_fields_handled

/-- `reserved` declarations play no part: the generator never reads them, so the number of a deleted field is an
    undefined number (`findField … = none`, the hypothesis of `unmarshal_keeps_skipped`) and its data is retained -/
theorem reserved_numbers_are_undefined_numbers : Generated.reservedMentions = 0 :=
  Bridge.Templates.generator_ignores_reserved

/-- ownership: the bytes `Marshal()` returns are a buffer allocated by that call (both templates), so nothing
    the caller does to them afterwards can change what the message retains — in the model the result is a value;
    this is the fact that makes that reading of the code sound -/
theorem marshal_result_owned_by_caller :
    ∀ t ∈ Generated.marshalReturns, t.2.1 = true ∧ ∀ r ∈ t.2.2, r = "[]byte{}, nil" ∨ r = "buf, err" :=
  Bridge.Templates.marshal_result_is_fresh

/-- the retained bytes are touched by the generated code only: the hand-written package that the generated
    `Unmarshal` calls in the middle of its loop (extension arms) never mentions a message's unknown-field storage -/
theorem only_generated_code_touches_retained_bytes : Generated.shimUnknownStoreMentions = 0 :=
  Bridge.Templates.shim_leaves_unknown_store_alone

/-- a child message whose type this plug-in run has no generated code for (a well-known type, a type of a file
    generated without fast-marshal code) is handed WHOLE to its own runtime: `Encoder.EncodeNested`, `csproto.Size`
    and `csproto.Marshal` choose what to call by CAPABILITY alone (the interfaces a value implements, probed in this
    order) and never by concrete message type — no message type is sized or written field by field by the
    hand-written package, so the unknown fields such a child holds are its runtime's to count and to re-emit (that
    the runtimes do: oracle, unknown fields inside runtime-served children at every nesting position) -/
theorem nested_children_dispatched_by_capability :
    Generated.EncodeNested_arms =
        ["MarshalerTo:Size,EncodeTag,EncodeVarint,.MarshalTo", "Marshaler:.Marshal,.EncodeBytes", "default:Marshal,.EncodeBytes"] ∧
    Generated.Size_probes = ["Sizer:.Size", "ProtoV1Sizer:.XXX_Size", "proto.Message:proto.Size"] ∧
    Generated.Marshal_probes = ["Marshaler:.Marshal", "ProtoV1Marshaler:.XXX_Size,.XXX_Marshal", "proto.Message:proto.Marshal"] :=
  ⟨Bridge.encodeNested_arms_ok, Bridge.size_probes_ok, Bridge.marshal_probes_ok⟩

/-- a second `Marshal` of the same message yields the same bytes (the model's `marshal` is a function of the
    message contents; with `marshal_result_owned_by_caller` this is "re-emitted by the NEXT Marshal" for every
    later one as well) -/
theorem marshal_again_same (S : Schema) (md : MD) (fs : List F) (unk : Bytes) (b1 b2 : Bytes)
    (h1 : marshal S md fs unk = .ok b1) (h2 : marshal S md fs unk = .ok b2) : b1 = b2 := by
  rw [h1] at h2; injection h2

/-- non-vacuity (and the purest older-schema case): a message type that defines nothing keeps every
    field of all four wire types, in order, and writes them back unchanged -/
def sample : Bytes := [0x08, 0x96, 0x01, 0x15, 1, 2, 3, 4, 0x19, 1, 2, 3, 4, 5, 6, 7, 8, 0x22, 0x02, 0x68, 0x69,
  0xf8, 0xff, 0xff, 0xff, 0x0f, 0x05]
example : unmarshal [[]] false [] sample = .ok ([], sample) := by rfl
example : marshal [[]] [] [] sample = .ok sample := by rfl

/-- **unknown fields interleaved with known scalar fields**: whatever the order, exactly the unknown
    records' raw bytes are retained, in wire order -/
theorem unknown_retained_in_order (S : Schema) (fast : Bool) (md : MD) (rs : List WRec) (hok : ∀ r ∈ rs, r.OK md)
    (fs : List F) (unk : Bytes) (h : unmarshal S fast md (wiresW rs) = .ok (fs, unk)) :
    unk = unknownBytes rs := by
  rw [unmarshal_records S fast md rs hok] at h
  split at h
  · cases h
  · injection h with h
    have h2 : unk = (rs.foldl (WRec.apply md) (initFields md, [])).2 := by rw [h]
    rw [h2, fold_unknown]; simp

/-- what is retained at one level of a record tree: the raw bytes of that level's unknown records -/
def unknownBytesN : List NRec → Bytes
  | [] => []
  | .flat (.unknown r) :: rs => r.wire ++ unknownBytesN rs
  | _ :: rs => unknownBytesN rs

theorem foldN_unknown (S : Schema) (md : MD) : ∀ (rs : List NRec) (st st' : List F × Bytes),
    foldN S md rs st = .ok st' → st'.2 = st.2 ++ unknownBytesN rs
  | [], st, st', h => by simp [foldN] at h; subst h; simp [unknownBytesN]
  | r :: rs, st, st', h => by
    simp only [foldN] at h
    cases hr : r.applyN S md st with
    | ok s1 =>
      rw [hr] at h
      have ih := foldN_unknown S md rs s1 st' h
      rw [ih]
      cases r with
      | flat w =>
        simp only [NRec.applyN_flat] at hr
        injection hr with hr
        subst hr
        cases w <;> simp [WRec.apply, unknownBytesN]
      | msg idx fd i sub =>
        simp only [NRec.applyN_msg] at hr
        cases hd : decodeMsgN S (S.md i) sub with
        | ok p => rw [hd] at hr; injection hr with hr; subst hr; simp [unknownBytesN]
        | err => rw [hd] at hr; cases hr
        | panic => rw [hd] at hr; cases hr
      | map idx fd i sub =>
        simp only [NRec.applyN] at hr
        cases hd : foldE S (S.md i) sub (initFields (S.md i)) with
        | ok p => rw [hd] at hr; injection hr with hr; subst hr; simp [unknownBytesN]
        | err => rw [hd] at hr; cases hr
        | panic => rw [hd] at hr; cases hr
    | err => rw [hr] at h; cases h
    | panic => rw [hr] at h; cases h

/-- **unknown fields interleaved with scalar, message-typed and map fields** (nested / repeated / recursive
    types, map entries in any form): exactly the unknown records' raw bytes of the top level are retained, in wire order; the
    same statement holds one level down for every nested message, whose own retained bytes are kept
    inside its decoded value (`decodeMsgN` is applied recursively by `NRec.applyN`) -/
theorem unknown_retained_in_order_nested (S : Schema) (fast : Bool) (md : MD) (rs : List NRec) (hok : OKs S md rs)
    (fs : List F) (unk : Bytes) (h : unmarshal S fast md (wiresN rs) = .ok (fs, unk)) :
    unk = unknownBytesN rs := by
  rw [unmarshal_nested S fast md rs hok] at h
  cases rs with
  | nil =>
    simp only [decodeMsgN] at h
    split at h
    · cases h
    · injection h with h; injection h with _ h2; simp [unknownBytesN, ← h2]
  | cons r rest =>
    simp only [decodeMsgN] at h
    cases hf : foldN S md (r :: rest) (initFields md, []) with
    | ok st =>
      rw [hf] at h
      have := foldN_unknown S md (r :: rest) _ st hf
      simp only [] at h
      split at h
      · cases h
      · injection h with h; injection h with _ h2; rw [h2] at this; simpa using this
    | err => rw [hf] at h; cases h
    | panic => rw [hf] at h; cases h

end Csproto.C07
