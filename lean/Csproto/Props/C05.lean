import Csproto.Props.C04
import Csproto.Proofs.GenRoundtrip
import Csproto.Proofs.GenNestedRoundtrip
/-
  C05 — Generated Marshal output is what the reference runtime would decode.

  Part 1 (this file): what the generated `Marshal()` writes, field by field — *nothing unset is
  emitted, nothing set is dropped, every emitted piece is one well-formed record carrying the field's
  own number and the wire type of its kind*:

  * `marshal_is_concatenation` — the output is the concatenation, in visit order, of the wire bytes of
                                  the per-field encoder calls, then the unknown fields, and nothing else;
  * `unset_emits_nothing`, `implicit_default_emits_nothing`, `empty_list_emits_nothing`
                                — no phantom fields;
  * `explicit_always_emitted`, `implicit_nondefault_emitted`, `negative_zero_is_emitted`
                                — nothing dropped: a set optional/oneof field is written even when it
                                  holds zero / the empty string; a proto3 field is written whenever its
                                  bits are not all zero (‑0.0 included);
  * `scalar_record_shape`       — each scalar call writes `key(number, wire type of kind) ++ payload`.

  Part 2 (decoding these records back with the reference semantics) is `Props/C06.lean`
  (`roundtrip_*`), which reuses the per-kind round-trip theorems of C01.
-/
namespace Csproto.C05
open Csproto Csproto.Gen

/-- the output of `Marshal()` is exactly the fields' records followed by the unknown fields -/
theorem marshal_is_concatenation (S : Schema) (md : MD) (fs : List F) (unk : Bytes) (bs : Bytes)
    (hok : OKFields S md fs) (h : marshal S md fs unk = .ok bs) (hm : opsFields S md fs ≠ .err) :
    ∃ ops, opsFields S md fs = .ok ops ∧ bs = Gen.wiresOf ops ++ unk := by
  rcases C04.marshal_total S md fs unk hok with ⟨_, he⟩ | ⟨bs', hb, _, hcase⟩
  · exact absurd he hm
  · rw [h] at hb; cases hb
    rcases hcase with ⟨ops, ho, hbs⟩ | ⟨he, _, _⟩
    · exact ⟨ops, ho, hbs⟩
    · exact absurd he hm

/-- **`MarshalTo` into a recycled buffer**: whatever the caller's buffer (of exactly `Size()` bytes) held
    before, afterwards it holds the fields' records followed by the unknown fields and nothing else — every
    byte of the encoding is stored by some encoder call, no byte of the old contents shows through.  (In the
    model every writer stores all of its bytes; that the writers of encoder.go do is what the C01 encoder
    stream and the dirty-buffer oracle of this property check on the code.) -/
theorem marshalTo_overwrites_any_buffer (S : Schema) (md : MD) (fs : List F) (unk old : Bytes) (ops : List EncOp)
    (hok : OKFields S md fs) (ho : opsFields S md fs = .ok ops)
    (hlen : old.length = sizeFields S md fs + unk.length) :
    ∃ e, ({ buf := old, off := 0 } : Enc).run (ops ++ [.raw unk]) = .ok e ∧ e.buf = Gen.wiresOf ops ++ unk := by
  obtain ⟨_, x⟩ := fields_exact S md fs ops hok ho
  have hsz := C04.size_exact S md fs unk ops hok ho
  have hx : ∀ op ∈ ops ++ [EncOp.raw unk], OpExact op := by
    intro op hop
    rcases List.mem_append.mp hop with h | h
    · exact x op h
    · simp at h; subst h; exact True.intro
  obtain ⟨e, hr, ha⟩ := run_exact (ops ++ [.raw unk]) ({ buf := old, off := 0 } : Enc) hx
    (by unfold Enc.Room Enc.cap; simp only []; rw [hlen, hsz]; omega)
  have hcap : e.cap = sizeFields S md fs + unk.length := by rw [ha.cap]; simp [Enc.cap, hlen]
  have hoff : e.off = e.cap := by rw [ha.off, hcap, hsz]; simp
  refine ⟨e, hr, ?_⟩
  rw [← Enc.written_full hoff, ha.written, Gen.wiresOf_append]
  simp [Gen.wiresOf, EncOp.wire, Enc.written]

/-- an unset field (nil pointer / nil oneof member) writes nothing -/
theorem unset_emits_nothing (S : Schema) (fd : FD) (h : fd.card ≠ .required) :
    opsField S fd .unset = .ok [] ∧ sizeField S fd .unset = 0 := by
  simp [opsField, sizeField, h]

/-- a proto3 field without presence holding its default writes nothing -/
theorem implicit_default_emits_nothing (S : Schema) (num : Nat) (k : SK) (v : V)
    (h : implicitPresent k v = false) :
    opsField S ⟨num, .sc k, .implicit⟩ (.one v) = .ok [] ∧ sizeField S ⟨num, .sc k, .implicit⟩ (.one v) = 0 := by
  simp [opsField, sizeField, h]

/-- an empty repeated field (packed or not, scalar or message) and an empty map write nothing -/
theorem empty_list_emits_nothing (S : Schema) (fd : FD) :
    opsField S fd (.many []) = .ok [] ∧ sizeField S fd (.many []) = 0 := by
  cases hty : fd.ty with
  | sc k => cases hc : fd.card <;> simp [opsField, sizeField, hty, hc, packedSize, sumSizes]
  | msg i => simp [opsField, sizeField, hty, opsMsgList, sizeMsgList]

/-- a set field with explicit presence (proto2 optional, proto3 optional, oneof member) is written
    whatever its value — zero, false, the empty string / bytes included -/
theorem explicit_always_emitted (S : Schema) (num : Nat) (k : SK) (v : V) (c : Card)
    (hc : c = .explicit ∨ (∃ g, c = .oneof g) ∨ c = .required ∨ c = .always) :
    opsField S ⟨num, .sc k, c⟩ (.one v) = .ok [scalarOp k num v] := by
  rcases hc with rfl | ⟨g, rfl⟩ | rfl | rfl <;> simp [opsField]

/-- a proto3 field without presence is written whenever it differs from the default -/
theorem implicit_nondefault_emitted (S : Schema) (num : Nat) (k : SK) (v : V)
    (h : implicitPresent k v = true) :
    opsField S ⟨num, .sc k, .implicit⟩ (.one v) = .ok [scalarOp k num v] := by
  simp [opsField, h]

/-- ‑0.0 is not the default: its bit pattern is not zero (`math.Float32bits(v) != 0`) -/
theorem negative_zero_is_emitted :
    implicitPresent .float (.num 0x80000000) = true ∧ implicitPresent .double (.num 0x8000000000000000) = true := by
  decide

/-- every scalar call writes one record: the key of the field's own number with the wire type of the
    kind, then the payload -/
theorem scalar_record_shape (k : SK) (num : Nat) (v : V) :
    ∃ payload, (scalarOp k num v).wire = encTag num (match k with
        | .fixed32 | .sfixed32 | .float => wtFixed32
        | .fixed64 | .sfixed64 | .double => wtFixed64
        | .string | .bytes => wtLen
        | _ => wtVarint) ++ payload := by
  cases k <;> simp [scalarOp, EncOp.wire] <;> exact ⟨_, rfl⟩

/-- a nested message is written as one length-delimited record holding exactly its own `Marshal()` -/
theorem nested_record_shape (S : Schema) (num i : Nat) (c : Card) (v : V) (body : Bytes)
    (hv : OKMsgV S (S.md i) v) (hb : bytesMsgV S (S.md i) v = .ok body) :
    ∃ op, opsField S ⟨num, .msg i, c⟩ (.one v) = .ok [op] ∧ op.wire = encTag num wtLen ++ encVarint body.length ++ body := by
  have hl := msgV_exact S (S.md i) v body hv hb
  refine ⟨.nested num (sizeMsgV S (S.md i) v) 0 (some body), by simp [opsField, hb], ?_⟩
  simp [EncOp.wire, hl]

/-! ### Part 2: decoding the bytes back

For message types of scalar fields the generated `Marshal` output *is* a sequence of well-formed
records (`wiresW (msgRecs …)`), and decoding it with the reference rule (C06: last one wins, append,
retain) — which the generated `Unmarshal` provably implements — gives the message back with identical
presence, the unknown fields byte for byte. -/

/-- what `Marshal` writes is exactly the records of the fields, in order -/
theorem marshal_records (S : Schema) (md : MD) (fs : List F) (ops : List EncOp)
    (hflat : ∀ fd ∈ md, ∃ k, fd.ty = .sc k) (ho : opsFields S md fs = .ok ops) :
    Gen.wiresOf ops = wiresW (msgRecs 0 md fs) := by
  rw [wiresW_eq_wiresOf, ← opsFields_recs S 0 md fs ops hflat ho]

/-- the reference rule applied to those records gives the message back -/
theorem records_decode_to_message (md : MD) (fs : List F) (hflat : FlatMD md) (hlen : fs.length = md.length)
    (hsh : ∀ p ∈ md.zip fs, ShapeOK p.1 p.2) :
    (msgRecs 0 md fs).foldl (WRec.apply md) (initFields md, []) = (canonFields md fs, []) := by
  have := msg_fold md [] md fs [] (fun fd hfd => (hflat fd hfd).2.1) hlen hsh
  simpa [initFields] using this

/-- an unset optional field stays unset, a set one stays set (presence is preserved by the round trip) -/
theorem presence_preserved (fd : FD) (v : V) (hc : fd.card = .explicit) :
    canonField fd .unset = .unset ∧ ∃ w, canonField fd (.one v) = .one w := by
  simp [canonField, initField, hc]

/-! ### with message-typed fields (nested, repeated, recursive types) and real oneofs -/

/-- what `Marshal` writes is exactly the record tree of the message: one record per set scalar element /
    packed run, one length-delimited record per set message field or list element whose payload is the
    record tree of that message, in declaration order at every level -/
theorem marshal_record_tree (S : Schema) (md : MD) (fs : List F) (ops : List EncOp)
    (hok : OKFields S md fs) (hcl : CleanFs fs) (ho : opsFields S md fs = .ok ops) :
    Gen.wiresOf ops = wiresN (recsFields S 0 md fs) :=
  ops_recsFields S 0 md fs ops hok hcl ho

/-- every record of that tree is a well-formed record of a declared field (own number, wire type of its
    kind, payload within the length limit), at every level -/
theorem record_tree_well_formed (S : Schema) (hS : SchemaOK S) (i : Nat) (fs : List F) (hwf : WFs S (S.md i) fs) :
    OKs S (S.md i) (recsFields S 0 (S.md i) fs) := by
  have := recs_ok S hS (S.md i) (hS i).1 (fun fd hfd => ((hS i).2 fd hfd).1) (S.md i) fs [] rfl hwf
  simpa using this

/-- decoding that tree with the record rule gives the message back, presence included, at every level -/
theorem record_tree_decodes_to_message (S : Schema) (hS : SchemaOK S) (i : Nat) (fs : List F) (ops : List EncOp)
    (hwf : WFs S (S.md i) fs) (hex : Excl (S.md i) fs) (ho : opsFields S (S.md i) fs = .ok ops) :
    foldN S (S.md i) (recsFields S 0 (S.md i) fs) (initFields (S.md i), []) = .ok (canonFs S (S.md i) fs, []) := by
  have := fold_fields S hS (S.md i) fs [] (wfs_len S _ fs hwf) hex (S.md i) fs [] [] ops rfl rfl rfl hwf ho
  simpa [initFields, canonFs] using this

end Csproto.C05
