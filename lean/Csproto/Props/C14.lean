import Csproto.Model.Pool
import Csproto.Props.C13
/-
  C14 — Pooled lazy-decode results are isolated across reuse.

  The argument has three parts.
  (A) *Stale state is unobservable.*  A recycled object differs from a new one only in the wire-type
      marks of fields whose data is empty.  `FdsEq` captures that; the decode pass and every accessor
      respect it, so decoding into a clean recycled object is indistinguishable from decoding into a
      new one (`decode_into_clean`, `accessTag_congr`).
  (B) *`Close` only clears.*  Whatever `closeObj` touches ends up with empty data and no closers, and
      every object it puts into a pool is such an object (`closeObj_only_clears`).
  (C) *Results are a function of their own input.*  With (A), what a handle exposes after `Decode`
      is exactly `decodeInto flat (cleanFds n) input` — the value C13 relates to the reference parse
      of that input — whichever pooled object was chosen (`decodeWithPool_reuse_eq_new`).

  Full statement vs what is proved: see the end of the file.
-/
namespace Csproto.C14
open Csproto

/-- same recorded data; wire-type marks may differ only where no data is recorded -/
def FdEq (a b : FD) : Prop := a.data = b.data ∧ (a.data ≠ [] → a.wt = b.wt)

inductive FdsEq : List FD → List FD → Prop
  | nil : FdsEq [] []
  | cons {a b : FD} {xs ys : List FD} : FdEq a b → FdsEq xs ys → FdsEq (a :: xs) (b :: ys)

theorem FdEq.refl (a : FD) : FdEq a a := ⟨rfl, fun _ => rfl⟩

theorem FdsEq.refl : ∀ (xs : List FD), FdsEq xs xs
  | [] => FdsEq.nil
  | x :: xs => FdsEq.cons (FdEq.refl x) (FdsEq.refl xs)

theorem FdsEq.length {xs ys : List FD} (h : FdsEq xs ys) : xs.length = ys.length := by
  induction h with
  | nil => rfl
  | cons _ _ ih => simp [ih]

theorem FdsEq.get {xs ys : List FD} (h : FdsEq xs ys) (i : Nat) :
    (xs[i]? = none ∧ ys[i]? = none) ∨ ∃ a b, xs[i]? = some a ∧ ys[i]? = some b ∧ FdEq a b := by
  induction h generalizing i with
  | nil => left; simp
  | cons hab _ ih =>
    cases i with
    | zero => right; exact ⟨_, _, rfl, rfl, hab⟩
    | succ i => simpa using ih i

theorem FdsEq.set {xs ys : List FD} (h : FdsEq xs ys) (i : Nat) {a b : FD} (hab : FdEq a b) :
    FdsEq (xs.set i a) (ys.set i b) := by
  induction h generalizing i with
  | nil => exact FdsEq.nil
  | cons hxy hrest ih =>
    cases i with
    | zero => exact FdsEq.cons hab hrest
    | succ i => exact FdsEq.cons hxy (ih i)

/-- a clean object (all data empty) of the right length is `FdsEq` to a brand-new one, whatever its
    stale wire-type marks are -/
theorem clean_eq_new : ∀ (fds : List FD), (∀ fd ∈ fds, fd.data = []) → FdsEq fds (cleanFds fds.length)
  | [], _ => by simp only [cleanFds, List.length_nil, List.replicate_zero]; exact FdsEq.nil
  | fd :: fds, h => by
    have h1 := h fd (by simp)
    have := clean_eq_new fds (fun x hx => h x (by simp [hx]))
    simp only [cleanFds, List.length_cons, List.replicate_succ]
    exact FdsEq.cons ⟨h1, fun hne => absurd h1 hne⟩ this

/-! ## (A) the pass and the accessors cannot tell a recycled object from a new one -/

theorem decodeIntoLoop_congr (flat : List Nat) :
    ∀ (fuel : Nat) (d : Dec) (xs ys : List FD), FdsEq xs ys →
      match decodeIntoLoop flat fuel d xs, decodeIntoLoop flat fuel d ys with
      | .ok xs', .ok ys' => FdsEq xs' ys'
      | .err, .err => True
      | .panic, .panic => True
      | _, _ => False := by
  intro fuel
  induction fuel with
  | zero => intro d xs ys _; simp [decodeIntoLoop]
  | succ fuel ih =>
    intro d xs ys h
    rw [decodeIntoLoop, decodeIntoLoop]
    by_cases hmore : d.off < d.len
    · simp only [hmore, not_true_eq_false, if_false]
      generalize d.step .tag = st
      obtain ⟨d1, o, a⟩ := st
      cases o with
      | ok it =>
        cases it with
        | tag tag wt =>
          simp only []
          cases hidx : idxOf? flat tag with
          | none =>
            simp only []
            generalize d1.step (.skip tag wt) = sk
            obtain ⟨d2, o2, a2⟩ := sk
            cases o2 with
            | ok it2 => exact ih d2 xs ys h
            | err => trivial
            | errNested p => trivial
            | panic => trivial
          | some i =>
            simp only []
            rcases h.get i with ⟨hx, hy⟩ | ⟨fa, fb, hx, hy, hab⟩
            · simp [hx, hy]
            · simp only [hx, hy]
              have hcond : (¬ fa.data.isEmpty = true ∧ fa.wt ≠ wt) ↔ (¬ fb.data.isEmpty = true ∧ fb.wt ≠ wt) := by
                rw [← hab.1]
                constructor
                · rintro ⟨h1, h2⟩
                  have : fa.data ≠ [] := by simpa using h1
                  exact ⟨h1, by rw [← hab.2 this]; exact h2⟩
                · rintro ⟨h1, h2⟩
                  have : fa.data ≠ [] := by simpa using h1
                  exact ⟨h1, by rw [hab.2 this]; exact h2⟩
              by_cases hc : (¬ fa.data.isEmpty = true ∧ fa.wt ≠ wt)
              · have hc' := hcond.mp hc
                simp [hc, hc']
              · have hc' : ¬ (¬ fb.data.isEmpty = true ∧ fb.wt ≠ wt) := fun x => hc (hcond.mpr x)
                simp only [hc, hc', if_false]
                by_cases hk : wt = wtVarint ∨ wt = wtFixed32 ∨ wt = wtFixed64
                · simp only [hk, if_true]
                  generalize d1.step (.skip tag wt) = sk
                  obtain ⟨d2, o2, a2⟩ := sk
                  cases o2 with
                  | ok it2 =>
                    cases it2 with
                    | bytes val =>
                      exact ih d2 _ _ (h.set i ⟨by rw [hab.1], fun _ => rfl⟩)
                    | _ => trivial
                  | err => trivial
                  | errNested p => trivial
                  | panic => trivial
                · simp only [hk, if_false]
                  by_cases hl : wt = wtLen
                  · simp only [hl, if_true]
                    generalize d1.step .bytes = sk
                    obtain ⟨d2, o2, a2⟩ := sk
                    cases o2 with
                    | ok it2 =>
                      cases it2 with
                      | bytes val =>
                        exact ih d2 _ _ (h.set i ⟨by rw [hab.1], fun _ => rfl⟩)
                      | _ => trivial
                    | err => trivial
                    | errNested p => trivial
                    | panic => trivial
                  · simp [hl]
        | _ => trivial
      | err => trivial
      | errNested p => trivial
      | panic => trivial
    · simp only [hmore, not_false_eq_true, if_true]
      exact h

/-- **Decoding into a clean recycled object gives the same field data as decoding into a new one**
    (up to unobservable wire-type marks on empty fields). -/
theorem decode_into_clean (flat : List Nat) (fds : List FD) (input : Bytes)
    (hclean : ∀ fd ∈ fds, fd.data = []) :
    match decodeInto flat fds input, decodeInto flat (cleanFds fds.length) input with
    | .ok xs', .ok ys' => FdsEq xs' ys'
    | .err, .err => True
    | .panic, .panic => True
    | _, _ => False :=
  decodeIntoLoop_congr flat _ _ fds _ (clean_eq_new fds hclean)

/-- every accessor answers the same on `FdEq` field data -/
theorem accessFD_congr {a b : FD} (h : FdEq a b) (hne : a.data ≠ []) (acc : Acc) : accessFD a acc = accessFD b acc := by
  have hwt := h.2 hne
  have hd := h.1
  cases a with
  | mk wa da =>
    cases b with
    | mk wb db =>
      simp only at hwt hd
      subst hwt; subst hd
      rfl

theorem accessTag_congr (dec : LDec) {xs ys : List FD} (h : FdsEq xs ys) (tag : Nat) (acc : Acc) :
    accessTag dec xs tag acc = accessTag dec ys tag acc := by
  unfold accessTag
  split
  · rfl
  · split
    · rfl
    · rename_i i _
      rcases h.get i with ⟨hx, hy⟩ | ⟨fa, fb, hx, hy, hab⟩
      · simp [hx, hy]
      · simp only [hx, hy]
        by_cases he : fa.data.isEmpty
        · have : fb.data.isEmpty := by rw [← hab.1]; exact he
          simp [he, this]
        · have hne : fa.data ≠ [] := by simpa using he
          have : ¬ fb.data.isEmpty := by rw [← hab.1]; exact he
          simp only [he, this, if_false]
          exact accessFD_congr hab hne acc

/-- so does the selection of a nested payload -/
theorem nestedSelect_congr (dec : LDec) {xs ys : List FD} (h : FdsEq xs ys) (tag : Nat) :
    nestedSelect dec xs tag = nestedSelect dec ys tag := by
  unfold nestedSelect
  split
  · rfl
  · split
    · rfl
    · rename_i i _
      split
      · rfl
      · rcases h.get i with ⟨hx, hy⟩ | ⟨fa, fb, hx, hy, hab⟩
        · simp [hx, hy]
        · simp only [hx, hy, ← hab.1]
          cases hl : fa.data.getLast? with
          | none => rfl
          | some last =>
            have hne : fa.data ≠ [] := by intro e; simp [e] at hl
            simp only [hab.2 hne]

/-! ## (B) `Close` only clears, and only cleared objects enter a pool -/

def Cleared (o : LObj) : Prop := (∀ fd ∈ o.fds, fd.data = []) ∧ o.closers = []

theorem find_filter_ne {κ β} [DecidableEq κ] (k k' : κ) (h : k' ≠ k) : ∀ (l : List (κ × β)),
    (l.filter (fun x => x.1 ≠ k)).find? (fun x => x.1 = k') = l.find? (fun x => x.1 = k')
  | [] => rfl
  | x :: xs => by
    have ih := find_filter_ne k k' h xs
    by_cases hx : x.1 = k
    · have hx' : ¬ x.1 = k' := by rw [hx]; exact fun e => h e.symm
      rw [List.filter_cons, List.find?_cons]
      simp only [hx, ne_eq, not_true_eq_false, decide_false, Bool.false_eq_true, if_false]
      rw [← hx] at ih ⊢
      simp only [hx', decide_false]
      exact ih
    · rw [List.filter_cons]
      simp only [ne_eq, hx, not_false_eq_true, decide_true, if_true, List.find?_cons]
      by_cases hx2 : x.1 = k'
      · simp [hx2]
      · simp only [hx2, decide_false]; exact ih

theorem obj_setObj (s : LState) (id id' : Nat) (o : LObj) :
    (s.setObj id o).obj? id' = if id' = id then some o else s.obj? id' := by
  unfold LState.setObj LState.obj?
  by_cases h : id' = id
  · subst h; simp
  · have hne : ¬ (id = id') := fun e => h e.symm
    simp only [h, if_false, List.find?_cons, hne, decide_false]
    rw [find_filter_ne id id' h]

theorem obj_setPool (s : LState) (p : List Nat) (ids : List Nat) (id : Nat) : (s.setPool p ids).obj? id = s.obj? id := rfl

theorem pool_setObj (s : LState) (id : Nat) (o : LObj) (p : List Nat) : (s.setObj id o).pool p = s.pool p := rfl

theorem pool_setPool (s : LState) (p p' : List Nat) (ids : List Nat) :
    (s.setPool p ids).pool p' = if p' = p then ids else s.pool p' := by
  unfold LState.setPool LState.pool
  by_cases h : p' = p
  · subst h; simp
  · have hne : ¬ (p = p') := fun e => h e.symm
    simp only [h, if_false, List.find?_cons, hne, decide_false]
    rw [find_filter_ne p p' h]

/-- what `Close` may do to the heap and the pools: objects are untouched or cleared, cleared
    objects stay cleared, and only cleared objects are added to a pool -/
structure OnlyClears (s s' : LState) : Prop where
  objs : ∀ id o', s'.obj? id = some o' → s.obj? id = some o' ∨ Cleared o'
  pools : ∀ p id, id ∈ s'.pool p → id ∈ s.pool p ∨ ∃ o', s'.obj? id = some o' ∧ Cleared o'
  keep : ∀ id o, s.obj? id = some o → Cleared o → ∃ o', s'.obj? id = some o' ∧ Cleared o'

theorem OnlyClears.refl (s : LState) : OnlyClears s s :=
  ⟨fun _ _ h => Or.inl h, fun _ _ h => Or.inl h, fun _ o h hc => ⟨o, h, hc⟩⟩

theorem OnlyClears.trans {a b c : LState} (h1 : OnlyClears a b) (h2 : OnlyClears b c) : OnlyClears a c := by
  refine ⟨?_, ?_, ?_⟩
  · intro id o' h
    rcases h2.objs id o' h with hb | hc
    · exact h1.objs id o' hb
    · exact Or.inr hc
  · intro p id h
    rcases h2.pools p id h with hb | hc
    · rcases h1.pools p id hb with ha | ⟨o, ho, hcl⟩
      · exact Or.inl ha
      · exact Or.inr (h2.keep id o ho hcl)
    · exact Or.inr hc
  · intro id o h hc
    obtain ⟨o1, ho1, hc1⟩ := h1.keep id o h hc
    exact h2.keep id o1 ho1 hc1

theorem foldl_onlyClears (f : LState → Nat → LState) (hf : ∀ s id, OnlyClears s (f s id)) :
    ∀ (ids : List Nat) (s : LState), OnlyClears s (ids.foldl f s)
  | [], s => OnlyClears.refl s
  | id :: ids, s => (hf s id).trans (foldl_onlyClears f hf ids (f s id))

/-- **`(*DecodeResult).close` only clears**: every object it touches ends up with no recorded data
    and no closers, and every object it returns to a pool is such an object. -/
theorem closeObj_onlyClears : ∀ (fuel : Nat) (s : LState) (id : Nat), OnlyClears s (closeObj fuel s id)
  | 0, s, _ => OnlyClears.refl s
  | fuel + 1, s, id => by
    rw [closeObj]
    cases ho : s.obj? id with
    | none => exact OnlyClears.refl s
    | some o =>
      simp only []
      have hcl : Cleared { o with fds := o.fds.map fun fd => { fd with data := [] }, closers := [] } := by
        constructor
        · intro fd hfd
          simp at hfd
          obtain ⟨x, _, rfl⟩ := hfd; rfl
        · rfl
      have h1 : OnlyClears s (s.setObj id { o with fds := o.fds.map fun fd => { fd with data := [] }, closers := [] }) := by
        refine ⟨?_, ?_, ?_⟩
        · intro id' o' h
          rw [obj_setObj] at h
          by_cases e : id' = id
          · simp only [e, if_true] at h
            have := Option.some.inj h; subst this
            exact Or.inr hcl
          · simp only [e, if_false] at h; exact Or.inl h
        · intro p id' h; exact Or.inl h
        · intro id' o2 h hc
          rw [obj_setObj]
          by_cases e : id' = id
          · exact ⟨_, by simp [e], hcl⟩
          · exact ⟨o2, by simp [e, h], hc⟩
      have h2 := foldl_onlyClears (closeObj fuel) (closeObj_onlyClears fuel) o.closers
        (s.setObj id { o with fds := o.fds.map fun fd => { fd with data := [] }, closers := [] })
      have h12 := h1.trans h2
      split
      · -- returned to its pool: the object is cleared in the current state
        rename_i hp
        refine h12.trans ⟨?_, ?_, ?_⟩
        · intro id' o' h; exact Or.inl h
        · intro p id' h
          rw [pool_setPool] at h
          by_cases e : p = o.path
          · simp only [e, if_true] at h
            rcases List.mem_append.mp h with h | h
            · exact Or.inl (by rw [e]; exact h)
            · have : id' = id := by simpa using h
              subst this
              have := h2.keep id' _ (by rw [obj_setObj]; simp) hcl
              exact Or.inr this
          · simp only [e, if_false] at h; exact Or.inl h
        · intro id' o2 h hc; exact ⟨o2, h, hc⟩
      · exact h12

/-- `(*DecodeResult).Close` (with its `skipClose` / `closed` guards) only clears as well, apart from
    setting the `closed` mark on the result itself -/
theorem closeRes_pools (s : LState) (id : Nat) :
    ∀ p id', id' ∈ (closeRes s id).pool p → id' ∈ s.pool p ∨ ∃ o', (closeRes s id).obj? id' = some o' ∧ Cleared o' := by
  intro p id' h
  unfold closeRes at h ⊢
  cases ho : s.obj? id with
  | none => simp only [ho] at h ⊢; exact Or.inl h
  | some o =>
    simp only [ho] at h ⊢
    split at h
    · rename_i hg; simp only [hg, if_true]; exact Or.inl h
    · rename_i hg
      simp only [hg, if_false]
      have := (closeObj_onlyClears (s.objs.length + 1) (s.setObj id { o with closed := true }) id).pools p id' h
      rcases this with h' | h'
      · exact Or.inl h'
      · exact Or.inr h'

/-! ## (C) what a handle exposes after `Decode` depends on its own input only -/

/-- **Reuse is invisible.** If the object chosen from the pool is cleared (as (B) guarantees for
    everything `Close` puts there) and has the decoder's length, decoding `input` into it yields
    field data `FdsEq` to what a brand-new object would hold — i.e. to
    `decodeInto flat (cleanFds n) input`, the value C13 relates to the reference parse of `input`. -/
theorem reuse_eq_new (node : LDec) (o : LObj) (input : Bytes) (hcl : Cleared o) (hlen : o.fds.length = node.flat.length) :
    match decodeInto node.flat o.fds input, decodeInto node.flat (cleanFds node.flat.length) input with
    | .ok xs', .ok ys' => FdsEq xs' ys'
    | .err, .err => True
    | .panic, .panic => True
    | _, _ => False := by
  have := decode_into_clean node.flat o.fds input hcl.1
  rw [hlen] at this
  exact this

/-- and therefore every accessor answers as on a brand-new result -/
theorem reuse_answers (node : LDec) (o : LObj) (input : Bytes) (hcl : Cleared o) (hlen : o.fds.length = node.flat.length)
    (xs ys : List FD) (hx : decodeInto node.flat o.fds input = .ok xs)
    (hy : decodeInto node.flat (cleanFds node.flat.length) input = .ok ys) (tag : Nat) (acc : Acc) :
    accessTag node xs tag acc = accessTag node ys tag acc ∧ nestedSelect node xs tag = nestedSelect node ys tag := by
  have := reuse_eq_new node o input hcl hlen
  rw [hx, hy] at this
  exact ⟨accessTag_congr node this tag acc, nestedSelect_congr node this tag⟩

/-! ## the full statement, and what is proved of it

  Full statement (C14): for every history of operations in which handles are not used after their
  root's `Close` (an immediately repeated `Close` excepted), every pool choice and every option
  combination, no step panics and every accessor answer on a handle equals the answer on a
  brand-new result decoded from that handle's own input.

  Proved here: the three lemmas that make the pool invariant "everything in a pool is cleared"
  inductive and sufficient — (A) stale state is unobservable, (B) `Close` only clears and pools only
  cleared objects, (C) decoding into a cleared object equals decoding into a new one, for the pass,
  every accessor and nested selection.

  Proved in `Props/C14History.lean`: the induction over WHOLE histories with object identities for
  histories on root results (Decode / accessor / Range / Close, any pool choice at every Decode,
  pooled or unpooled root): `flat_history_refines` (the outputs are those of a pool-free specification
  in which every answer is computed from the handle's own input) and `flat_history_no_panic`.

  Not proved in Lean (`…_partial` in that sense): the same induction for histories that also create
  nested results (`NestedResult(s)`, multi-element accessor paths); it additionally needs "no object is in
  two closer lists / the closer graph is a forest", which the `skipClose` flag provides.  That part is
  validated by the correspondence stream, which feeds the implementation's observed reuse choices to
  this very state machine, and by lemmas (A)–(C), which hold for nested decoders as well. -/
end Csproto.C14
