import Csproto.Props.C14Nested
/-
  C13 with SEVERAL results of one Decoder alive at the same time.

  C13 quantifies over messages and definitions: a nested path returns the corresponding sub-message's
  values — whatever else the Decoder has been asked to do in the meantime.  A client may keep a result
  open while it decodes the next message with the same Decoder (batches, two goroutines, a result held
  while the next one is read), so the answers of result B must not depend on what happens to result A:
  on A's nested reads, on A's `Close` (which releases A's nested results into the nested decoder's pool),
  or on a later `Decode` that recycles A's objects.

  The general statement is `C14N.nested_history_refines`: the pooled machine answers like the pool-free
  specification `NSpec`.  Here that specification is shown to have the frame property C13 needs — the
  answer for a live handle is a function of the handle's own bytes alone, and no operation on another
  result changes those bytes — and the two are combined (`live_answers_are_own_input`).  `liveEx` is the
  interleaving "open A, open B, nested reads on both, close A, re-decode into A's recycled objects, read
  B again" evaluated on the pooled machine.
-/
namespace Csproto.C13Live
open Csproto Csproto.C14 Csproto.C14N

/-- what the specification answers for a request on a handle: computed from the handle's own bytes -/
def ownAnswer (root : LDec) (b : Bytes) (p : List Nat) (path : List Int) (a : Acc) : LOut :=
  match view root p b with
  | some (node, fds) => .ans (lookupPath (path.length + 1) node (some fds) (path.map Int.natAbs) a)
  | none => .ans .panic

/-- **the answer depends on the handle's own bytes only**: two specification states that agree on handle
    `h` answer alike, whatever other results are open or closed in them -/
theorem spec_acc_own (sp : NSpec) (h : Nat) (b : Bytes) (p : List Nat) (g : Nat) (path : List Int) (a : Acc)
    (hh : sp.handle? h = some (.live b p g)) :
    (sp.step (.acc h path a)).2 = ownAnswer sp.root b p path a := by
  simp only [NSpec.step, hh, ownAnswer]
  cases view sp.root p b with
  | none => rfl
  | some x => cases x; rfl

theorem closeGen_other {g g' : Nat} (b : Bytes) (p : List Nat) (hne : g' ≠ g) :
    closeGen g (.live b p g') = .live b p g' := by
  simp [closeGen, hne]

/-- a handle's entry after one step of the specification, for the operations that do not (re)bind it -/
theorem handle_clr (sp : NSpec) (h : Nat) : sp.clr.handle? h = sp.handle? h := rfl

/-- **Closing one result leaves the others as they are**: a live handle that descends from another root
    result (another generation) is still live, with the same bytes, after `Close` of the root handle `h`. -/
theorem spec_close_keeps_others (sp : NSpec) (h h' : Nat) (b b' : Bytes) (p' : List Nat) (g g' : Nat)
    (hh : sp.handle? h = some (.live b [] g)) (hh' : sp.handle? h' = some (.live b' p' g')) (hne : g' ≠ g) :
    (sp.step (.close h)).1.handle? h' = some (.live b' p' g') := by
  have e : (sp.step (.close h)).1 = { sp.closeAll g with justClosed := some h } := by
    simp [NSpec.step, hh]
  rw [e]
  have e2 : ({ sp.closeAll g with justClosed := some h } : NSpec).handle? h' = (sp.closeAll g).handle? h' := rfl
  rw [e2, nhandle_closeAll, hh']
  simp [closeGen_other b' p' hne]

/-- a request on one handle changes no handle -/
theorem spec_acc_keeps (sp : NSpec) (h h' : Nat) (path : List Int) (a : Acc) :
    (sp.step (.acc h path a)).1.handle? h' = sp.handle? h' := rfl

/-- decoding a further message into a NEW handle changes no other handle -/
theorem spec_decode_keeps (sp : NSpec) (h h' : Nat) (input : Bytes) (c : Choice) (hne : h' ≠ h) :
    (sp.step (.decode h input c)).1.handle? h' = sp.handle? h' := by
  simp only [NSpec.step]
  split
  · show (sp.setHandle h .nilRes).handle? h' = _
    rw [nhandle_setHandle]; simp [hne]
  · split
    · show (sp.setHandle h (.live input [] sp.gen)).handle? h' = _
      rw [nhandle_setHandle]; simp [hne]
    · rfl
    · rfl

/-- **C13 for a result that is read while other results of the same Decoder are open, closed and
    recycled.**  Take any history `pre` that keeps to the API contract, after which handle `h` is a live
    result decoded from the bytes `b` by decoder node `p`.  Then the pooled machine — whatever objects its
    pools handed out during `pre` — answers a request `path`/`a` on `h` with the value computed from `b`
    alone (`ownAnswer`: a brand-new object decodes `b` and the path is looked up in it). -/
theorem live_answers_are_own_input (root : LDec) (pooled : Bool) (pre : List LOp) (h : Nat) (path : List Int) (a : Acc)
    (hok : NHistOK (LState.init root pooled) (NSpec.init root) (pre ++ [.acc h path a])) :
    ∀ (sp : NSpec) (b : Bytes) (p : List Nat) (g : Nat),
      sp.root = root →
      NSpec.outputs (NSpec.init root) (pre ++ [.acc h path a]) = NSpec.outputs (NSpec.init root) pre ++ [(sp.step (.acc h path a)).2] →
      sp.handle? h = some (.live b p g) →
      outputs (LState.init root pooled) (pre ++ [.acc h path a]) =
        NSpec.outputs (NSpec.init root) pre ++ [ownAnswer root b p path a] := by
  intro sp b p g hroot hout hh
  rw [nested_history_refines root pooled _ hok, hout, spec_acc_own sp h b p g path a hh, hroot]

/-- the specification state after a history -/
def specAfter (sp : NSpec) : List LOp → NSpec
  | [] => sp
  | op :: ops => specAfter (sp.step op).1 ops

theorem outputs_append (ops : List LOp) : ∀ (sp : NSpec) (op : LOp),
    NSpec.outputs sp (ops ++ [op]) = NSpec.outputs sp ops ++ [((specAfter sp ops).step op).2]
  | sp, op => by
    induction ops generalizing sp with
    | nil => simp [NSpec.outputs, specAfter]
    | cons o os ih => simp [NSpec.outputs, specAfter, ih]

theorem specNesteds_root (sub : LDec) (p : List Nat) (t g : Nat) : ∀ (sp : NSpec) (data : List Bytes) (hs : List Nat) (cs : List Choice)
    (acc : List Bool), (specNesteds sub p t g sp data hs cs acc).1.root = sp.root
  | sp, [], _, _, acc => by simp [specNesteds]
  | sp, _ :: _, [], _, acc => by simp [specNesteds]
  | sp, _ :: _, _ :: _, [], acc => by simp [specNesteds]
  | sp, b :: bs, h :: hs, c :: cs, acc => by
    simp only [specNesteds]
    split
    · rw [specNesteds_root sub p t g _ bs hs cs]; rfl
    · rw [specNesteds_root sub p t g _ bs hs cs]; rfl
    · rfl

theorem step_root (sp : NSpec) (op : LOp) : (sp.step op).1.root = sp.root := by
  cases op with
  | decode h input c =>
    simp only [NSpec.step]
    repeat' split
    all_goals rfl
  | acc h path a => rfl
  | range h => rfl
  | close h =>
    simp only [NSpec.step]
    repeat' split
    all_goals rfl
  | nested h tag h' c =>
    simp only [NSpec.step]
    repeat' split
    all_goals rfl
  | nesteds h tag hs cs =>
    simp only [NSpec.step]
    repeat' split
    all_goals first | rfl | exact specNesteds_root _ _ _ _ _ _ _ _ _

theorem specAfter_root (ops : List LOp) : ∀ (sp : NSpec), (specAfter sp ops).root = sp.root := by
  induction ops with
  | nil => intro sp; rfl
  | cons op ops ih => intro sp; simp only [specAfter]; rw [ih, step_root]

/-- the same, with the specification state computed from the history: if after `pre` the specification
    holds handle `h` as a live result decoded from `b`, the pooled machine's last answer is `ownAnswer … b …` -/
theorem live_answer_after (root : LDec) (pooled : Bool) (pre : List LOp) (h : Nat) (path : List Int) (a : Acc)
    (b : Bytes) (p : List Nat) (g : Nat)
    (hok : NHistOK (LState.init root pooled) (NSpec.init root) (pre ++ [.acc h path a]))
    (hh : (specAfter (NSpec.init root) pre).handle? h = some (.live b p g)) :
    outputs (LState.init root pooled) (pre ++ [.acc h path a]) =
      NSpec.outputs (NSpec.init root) pre ++ [ownAnswer root b p path a] :=
  live_answers_are_own_input root pooled pre h path a hok _ b p g
    (by rw [specAfter_root]; rfl) (outputs_append pre _ _) hh

/-! ## the interleaving, evaluated on the pooled machine

  `nroot`: tag 1 is a scalar, tag 2 a nested message of which tag 1 is requested. -/

/-- `{1: 5, 2: {1: 7}}` -/
def inA : Bytes := [0x08, 0x05, 0x12, 0x02, 0x08, 0x07]
/-- `{1: 6, 2: {1: 9}}` -/
def inB : Bytes := [0x08, 0x06, 0x12, 0x02, 0x08, 0x09]
/-- `{1: 8, 2: {1: 11}}` -/
def inC : Bytes := [0x08, 0x08, 0x12, 0x02, 0x08, 0x0b]

/-- open A (object 10) and B (object 20); `NestedResult(2)` on A (object 11, handle 3) and on B (object 21,
    handle 4); read both nested handles and both two-element paths; `Close` A — which releases 11 and the
    client-invisible nested object behind A's path read into the nested decoder's pool — and read B's nested
    handle and path again; decode C into A's RECYCLED root object 10 and take its nested result out of A's
    RECYCLED nested object 11; read C's and then, once more, B's nested values; close B, then C. -/
def liveEx : List LOp :=
  [.decode 1 inA (.new 10), .decode 2 inB (.new 20), .nested 1 2 3 (.new 11), .nested 2 2 4 (.new 21),
   .acc 3 [1] .uint64, .acc 4 [1] .uint64, .acc 1 [2, 1] .uint64, .acc 2 [2, 1] .uint64,
   .close 1, .acc 4 [1] .uint64, .acc 2 [2, 1] .uint64,
   .decode 5 inC (.reuse 10), .nested 5 2 6 (.reuse 11), .acc 6 [1] .uint64, .acc 5 [2, 1] .uint64,
   .acc 4 [1] .uint64, .acc 2 [2, 1] .uint64, .acc 2 [1] .uint64, .close 2, .acc 6 [1] .uint64, .close 5]

theorem liveEx_ok : NHistOK (LState.init nroot true) (NSpec.init nroot) liveEx :=
  nhistOKb_sound _ _ _ (by decide)

/-- B answers 9 (and 6 at the root) before and after A's `Close` and after A's objects were recycled for C -/
theorem liveEx_outputs : outputs (LState.init nroot true) liveEx =
    [.ok, .ok, .ok, .ok, .ans (.ok (.nat 7)), .ans (.ok (.nat 9)), .ans (.ok (.nat 7)), .ans (.ok (.nat 9)),
     .ok, .ans (.ok (.nat 9)), .ans (.ok (.nat 9)),
     .ok, .ok, .ans (.ok (.nat 11)), .ans (.ok (.nat 11)),
     .ans (.ok (.nat 9)), .ans (.ok (.nat 9)), .ans (.ok (.nat 6)), .ok, .ans (.ok (.nat 11)), .ok] := by
  decide

end Csproto.C13Live
