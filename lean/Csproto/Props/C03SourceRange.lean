import Csproto.Props.C03SourcePacked
import Csproto.Props.C03
/-
  C03 for the SOURCE, the cursor clause: after every call of the translated readers the cursor is inside the buffer
  (`*_inrange`) — from the refinement theorems and `C03.step_safe` (the model's step keeps `off ≤ len` and the buffer).
-/
set_option linter.unusedSimpArgs false
set_option linter.unusedVariables false
set_option linter.unusedSectionVars false
namespace Csproto.C03.Source
open Csproto Csproto.Generated.WireFuncs Csproto.Bridge Csproto.Bridge.WireFuncs Csproto.Bridge.DecoderFuncs Csproto.Bridge.SkipFuncs
open Csproto.Bridge.PackedFuncs Csproto.Bridge.SeekFuncs

theorem model_inrange (p : Bytes) (off ks ke : BitVec 64) (fast : Bool) (hoff : off.toNat ≤ p.length) (op : DecOp) :
    ((decOf p off ks ke fast).step op).1.off ≤ p.length := by
  have hs := C03.step_safe (decOf p off ks ke fast) (by simpa [Dec.Inv, decOf, Dec.len] using hoff) op
  have h1 := hs.inv
  have h2 := hs.sameBuf
  unfold Dec.Inv Dec.len at h1
  rw [h2] at h1
  simpa [decOf] using h1

macro "inrange_from " h:term ", " m:term : tactic =>
  `(tactic| (obtain ⟨r, e, s, hr, _, _, _, _, hm⟩ := $h
             refine ⟨r, e, s, hr, ?_⟩
             have hmod := $m
             split at hm
             · rename_i heq; rw [heq] at hmod; rw [hm.2.2]; exact hmod
             · first | (rw [hm.2]; assumption) | (rename_i heq; rw [heq] at hmod; rw [hm.2]; exact hmod)
             · exact hm.elim))

variable (fuel : Nat) (hf : 11 ≤ fuel) (p : Bytes) (off mode ks ke : BitVec 64)
include hf

theorem DecodeUInt64_inrange (hp : p.length < 2 ^ 63) (hoff : off.toNat ≤ p.length) :
    ∃ r e s, Decoder_DecodeUInt64 fuel p off mode ks ke = .ret (r, e) s ∧ s.d_offset.toNat ≤ p.length := by
  inrange_from (DecodeUInt64_refines fuel hf p off mode ks ke false hp hoff), (model_inrange p off ks ke false hoff .uint64)
theorem DecodeInt64_inrange (hp : p.length < 2 ^ 63) (hoff : off.toNat ≤ p.length) :
    ∃ r e s, Decoder_DecodeInt64 fuel p off mode ks ke = .ret (r, e) s ∧ s.d_offset.toNat ≤ p.length := by
  inrange_from (DecodeInt64_refines fuel hf p off mode ks ke false hp hoff), (model_inrange p off ks ke false hoff .int64)
theorem DecodeUInt32_inrange (hp : p.length < 2 ^ 63) (hoff : off.toNat ≤ p.length) :
    ∃ r e s, Decoder_DecodeUInt32 fuel p off mode ks ke = .ret (r, e) s ∧ s.d_offset.toNat ≤ p.length := by
  inrange_from (DecodeUInt32_refines fuel hf p off mode ks ke false hp hoff), (model_inrange p off ks ke false hoff .uint32)
theorem DecodeInt32_inrange (hp : p.length < 2 ^ 63) (hoff : off.toNat ≤ p.length) :
    ∃ r e s, Decoder_DecodeInt32 fuel p off mode ks ke = .ret (r, e) s ∧ s.d_offset.toNat ≤ p.length := by
  inrange_from (DecodeInt32_refines fuel hf p off mode ks ke false hp hoff), (model_inrange p off ks ke false hoff .int32)
theorem DecodeSInt32_inrange (hp : p.length < 2 ^ 63) (hoff : off.toNat ≤ p.length) :
    ∃ r e s, Decoder_DecodeSInt32 fuel p off mode ks ke = .ret (r, e) s ∧ s.d_offset.toNat ≤ p.length := by
  inrange_from (DecodeSInt32_refines fuel hf p off mode ks ke false hp hoff), (model_inrange p off ks ke false hoff .sint32)
theorem DecodeSInt64_inrange (hp : p.length < 2 ^ 63) (hoff : off.toNat ≤ p.length) :
    ∃ r e s, Decoder_DecodeSInt64 fuel p off mode ks ke = .ret (r, e) s ∧ s.d_offset.toNat ≤ p.length := by
  inrange_from (DecodeSInt64_refines fuel hf p off mode ks ke false hp hoff), (model_inrange p off ks ke false hoff .sint64)
theorem DecodeFixed32_inrange (hp : p.length < 2 ^ 63) (hoff : off.toNat ≤ p.length) :
    ∃ r e s, Decoder_DecodeFixed32 fuel p off mode ks ke = .ret (r, e) s ∧ s.d_offset.toNat ≤ p.length := by
  inrange_from (DecodeFixed32_refines fuel p off mode ks ke false hp hoff), (model_inrange p off ks ke false hoff .fixed32)
theorem DecodeFixed64_inrange (hp : p.length < 2 ^ 63) (hoff : off.toNat ≤ p.length) :
    ∃ r e s, Decoder_DecodeFixed64 fuel p off mode ks ke = .ret (r, e) s ∧ s.d_offset.toNat ≤ p.length := by
  inrange_from (DecodeFixed64_refines fuel p off mode ks ke false hp hoff), (model_inrange p off ks ke false hoff .fixed64)
theorem DecodeBool_inrange (hp : p.length < 2 ^ 63) (hoff : off.toNat ≤ p.length) :
    ∃ r e s, Decoder_DecodeBool fuel p off mode ks ke = .ret (r, e) s ∧ s.d_offset.toNat ≤ p.length := by
  inrange_from (DecodeBool_refines fuel hf p off mode ks ke false hp hoff), (model_inrange p off ks ke false hoff .bool)
theorem DecodeBytes_inrange (hp : p.length < 2 ^ 62) (hoff : off.toNat ≤ p.length) :
    ∃ r e s, Decoder_DecodeBytes fuel p off mode ks ke = .ret (r, e) s ∧ s.d_offset.toNat ≤ p.length := by
  inrange_from (DecodeBytes_refines fuel hf p off mode ks ke false hp hoff), (model_inrange p off ks ke false hoff .bytes)
theorem Skip_inrange (tag wt : BitVec 64) (hp : p.length < 2 ^ 62) (hoff : off.toNat ≤ p.length) (hks : ks.toNat ≤ p.length) (hke : ke.toNat ≤ p.length) :
    ∃ r e s, Decoder_Skip fuel p off mode ks ke tag wt = .ret (r, e) s ∧ s.d_offset.toNat ≤ p.length := by
  inrange_from (Skip_refines fuel hf p off mode ks ke tag wt hp hoff hks hke), (model_inrange p off ks ke (mode != 0#64) hoff (.skip tag.toNat wt.toNat))
theorem DecodePackedUint64_inrange (hp : p.length < 2 ^ 62) (hfl : p.length + 2 ≤ fuel) (hoff : off.toNat ≤ p.length) :
    ∃ r e s, Decoder_DecodePackedUint64 fuel p off mode ks ke = .ret (r, e) s ∧ s.d_offset.toNat ≤ p.length := by
  inrange_from (DecodePackedUint64_refines fuel hf p off mode ks ke false hp hfl hoff), (model_inrange p off ks ke false hoff .packedUint64)
theorem DecodePackedInt64_inrange (hp : p.length < 2 ^ 62) (hfl : p.length + 2 ≤ fuel) (hoff : off.toNat ≤ p.length) :
    ∃ r e s, Decoder_DecodePackedInt64 fuel p off mode ks ke = .ret (r, e) s ∧ s.d_offset.toNat ≤ p.length := by
  inrange_from (DecodePackedInt64_refines fuel hf p off mode ks ke false hp hfl hoff), (model_inrange p off ks ke false hoff .packedInt64)
theorem DecodePackedUint32_inrange (hp : p.length < 2 ^ 62) (hfl : p.length + 2 ≤ fuel) (hoff : off.toNat ≤ p.length) :
    ∃ r e s, Decoder_DecodePackedUint32 fuel p off mode ks ke = .ret (r, e) s ∧ s.d_offset.toNat ≤ p.length := by
  inrange_from (DecodePackedUint32_refines fuel hf p off mode ks ke false hp hfl hoff), (model_inrange p off ks ke false hoff .packedUint32)
theorem DecodePackedInt32_inrange (hp : p.length < 2 ^ 62) (hfl : p.length + 2 ≤ fuel) (hoff : off.toNat ≤ p.length) :
    ∃ r e s, Decoder_DecodePackedInt32 fuel p off mode ks ke = .ret (r, e) s ∧ s.d_offset.toNat ≤ p.length := by
  inrange_from (DecodePackedInt32_refines fuel hf p off mode ks ke false hp hfl hoff), (model_inrange p off ks ke false hoff .packedInt32)
theorem DecodePackedSint64_inrange (hp : p.length < 2 ^ 62) (hfl : p.length + 2 ≤ fuel) (hoff : off.toNat ≤ p.length) :
    ∃ r e s, Decoder_DecodePackedSint64 fuel p off mode ks ke = .ret (r, e) s ∧ s.d_offset.toNat ≤ p.length := by
  inrange_from (DecodePackedSint64_refines fuel hf p off mode ks ke false hp hfl hoff), (model_inrange p off ks ke false hoff .packedSint64)
theorem DecodePackedSint32_inrange (hp : p.length < 2 ^ 62) (hfl : p.length + 2 ≤ fuel) (hoff : off.toNat ≤ p.length) :
    ∃ r e s, Decoder_DecodePackedSint32 fuel p off mode ks ke = .ret (r, e) s ∧ s.d_offset.toNat ≤ p.length := by
  inrange_from (DecodePackedSint32_refines fuel hf p off mode ks ke false hp hfl hoff), (model_inrange p off ks ke false hoff .packedSint32)
theorem DecodePackedFixed64_inrange (hp : p.length < 2 ^ 62) (hfl : p.length + 2 ≤ fuel) (hoff : off.toNat ≤ p.length) :
    ∃ r e s, Decoder_DecodePackedFixed64 fuel p off mode ks ke = .ret (r, e) s ∧ s.d_offset.toNat ≤ p.length := by
  inrange_from (DecodePackedFixed64_refines fuel hf p off mode ks ke false hp hfl hoff), (model_inrange p off ks ke false hoff .packedFixed64)
theorem DecodePackedFixed32_inrange (hp : p.length < 2 ^ 62) (hfl : p.length + 2 ≤ fuel) (hoff : off.toNat ≤ p.length) :
    ∃ r e s, Decoder_DecodePackedFixed32 fuel p off mode ks ke = .ret (r, e) s ∧ s.d_offset.toNat ≤ p.length := by
  inrange_from (DecodePackedFixed32_refines fuel hf p off mode ks ke false hp hfl hoff), (model_inrange p off ks ke false hoff .packedFixed32)
theorem DecodePackedBool_inrange (hp : p.length < 2 ^ 62) (hfl : p.length + 2 ≤ fuel) (hoff : off.toNat ≤ p.length) :
    ∃ r e s, Decoder_DecodePackedBool fuel p off mode ks ke = .ret (r, e) s ∧ s.d_offset.toNat ≤ p.length := by
  inrange_from (DecodePackedBool_refines fuel hf p off mode ks ke false hp hfl hoff), (model_inrange p off ks ke false hoff .packedBool)

end Csproto.C03.Source
