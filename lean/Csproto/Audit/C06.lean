import Csproto.Props.C06
import Csproto.Bridge.Templates
/- axiom audit for C06 -/
#print axioms Csproto.C06.dst_independent
#print axioms Csproto.C06.repeated_accepts_unpacked
#print axioms Csproto.C06.repeated_accepts_packed
#print axioms Csproto.C06.packable_kinds
#print axioms Csproto.C06.order_independent_step
#print axioms Csproto.C06.last_wins_witness
#print axioms Csproto.C06.unmarshal_is_reference_fold
#print axioms Csproto.C06.loop_is_reference_fold
#print axioms Csproto.C06.mode_independent
#print axioms Csproto.C06.roundtrip
#print axioms Csproto.Bridge.Templates.unmarshal_dispatch_total
#print axioms Csproto.Bridge.Templates.number_arms_total
#print axioms Csproto.Bridge.Templates.unmarshal_resets_first
#print axioms Csproto.Gen.loop_records
#print axioms Csproto.Gen.loop_step
#print axioms Csproto.Gen.unmarshal_records
#print axioms Csproto.Gen.roundtrip_flat
#print axioms Csproto.C06.unmarshal_is_record_tree_decode
#print axioms Csproto.C06.roundtrip_nested
#print axioms Csproto.C06.roundtrip_nested_example
#print axioms Csproto.Gen.unmarshal_nested
#print axioms Csproto.Gen.roundtrip_nested
#print axioms Csproto.C06.map_entry_order_irrelevant
#print axioms Csproto.C06.map_entry_last_wins
#print axioms Csproto.C06.map_entry_omitted_is_default
#print axioms Csproto.C06.map_entry_unknown_skipped
#print axioms Csproto.C06.map_entries_example
