import Csproto.Props.C06
/- axiom audit for C06 -/
#print axioms Csproto.C06.dst_independent
#print axioms Csproto.C06.repeated_accepts_unpacked
#print axioms Csproto.C06.repeated_accepts_packed
#print axioms Csproto.C06.packable_kinds
#print axioms Csproto.C06.order_independent_step
#print axioms Csproto.C06.last_wins_witness
#print axioms Csproto.Bridge.Templates.unmarshal_dispatch_total
#print axioms Csproto.Bridge.Templates.number_arms_total
#print axioms Csproto.Bridge.Templates.unmarshal_resets_first
