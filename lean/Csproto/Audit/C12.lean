import Csproto.Props.C12
/- axiom audit for C12 -/
#print axioms Csproto.C12.coherent_has_after_set
#print axioms Csproto.C12.coherent_get_after_set
#print axioms Csproto.C12.coherent_set_other
#print axioms Csproto.C12.coherent_absent_after_clear
#print axioms Csproto.C12.coherent_keys_after_clear
#print axioms Csproto.C12.coherent_clearAll
#print axioms Csproto.C12.coherent_range_has
#print axioms Csproto.C12.transparent
#print axioms Csproto.C12.set_then_has_get
#print axioms Csproto.C12.clear_then_absent
#print axioms Csproto.C12.clearAll_then_absent
#print axioms Csproto.C12.number_blind
#print axioms Csproto.C12.mismatch
#print axioms Csproto.C12.cross_family_refused
#print axioms Csproto.C12.history_refines
#print axioms Csproto.C12.foreign_history_keeps_state
#print axioms Csproto.C12.ext_asserts_ok
#print axioms Csproto.C12.ext_asserts_nothing_else
#print axioms Csproto.Bridge.arms_call_owner
#print axioms Csproto.Bridge.arms_assert_owner
#print axioms Csproto.Bridge.shimFrame_ok
#print axioms Csproto.Bridge.shimArms_ok
#print axioms Csproto.Bridge.shimArms_complete
