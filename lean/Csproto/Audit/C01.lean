import Csproto.Props.C01
import Csproto.Bridge.Facts
import Csproto.Bridge.WireFuncs
import Csproto.Bridge.WireFuncs2
import Csproto.Bridge.DecoderFuncs
import Csproto.Bridge.EncoderFuncs
import Csproto.Bridge.PackedEncFuncs
import Csproto.Props.C01Source
import Csproto.Props.C01SourcePacked
/- axiom audit for C01: parsed by ./check; every line must list only propext / Classical.choice / Quot.sound -/
open Csproto
#print axioms C01.sizeOfVarint_exact
#print axioms C01.sizeOfTagKey_exact
#print axioms C01.sizeOfZigZag_exact
#print axioms C01.predicted_exact
#print axioms C01.exact_fill
#print axioms C01.value_step
#print axioms C01.roundtrip
#print axioms decodeVarint_encVarint
#print axioms unzigzag_zigzag
#print axioms toI32_toU32
#print axioms Bridge.maxTagValue_ok
#print axioms Bridge.maxTagValue_doc
#print axioms Bridge.maxFieldLen_ok
#print axioms Bridge.wireTypes_ok
#print axioms Bridge.decoderModes_ok
#print axioms Bridge.sizeOfVarint_src
#print axioms Bridge.sizeOfTagKey_src
#print axioms Bridge.sizeOfZigZag_src
#print axioms Bridge.encodeTag_src
#print axioms Bridge.encodeZigZag32_src
#print axioms Bridge.encodeZigZag64_src
#print axioms Bridge.decodeZigZag32_src
#print axioms Bridge.decodeZigZag64_src

-- the wire primitives TRANSLATED from the Go source (Generated/WireFuncs.lean) compute what the model says
#print axioms Csproto.Bridge.WireFuncs.EncodeVarint_ok
#print axioms Csproto.Bridge.WireFuncs.EncodeVarint_short
#print axioms Csproto.Bridge.WireFuncs.DecodeVarint_eq
#print axioms Csproto.Bridge.WireFuncs.DecodeFixed32_ok
#print axioms Csproto.Bridge.WireFuncs.DecodeFixed32_short
#print axioms Csproto.Bridge.WireFuncs.DecodeFixed64_ok
#print axioms Csproto.Bridge.WireFuncs.DecodeFixed64_short
#print axioms Csproto.Bridge.WireFuncs.translated_varint_roundtrip

-- second batch of TRANSLATED primitives (functions that call other translated functions): Bridge/WireFuncs2.lean
#print axioms Csproto.Bridge.WireFuncs.EncodeTag_ok
#print axioms Csproto.Bridge.WireFuncs.EncodeTag_short
#print axioms Csproto.Bridge.WireFuncs.EncodeZigZag32_ok
#print axioms Csproto.Bridge.WireFuncs.EncodeZigZag32_short
#print axioms Csproto.Bridge.WireFuncs.EncodeZigZag64_ok
#print axioms Csproto.Bridge.WireFuncs.EncodeZigZag64_short
#print axioms Csproto.Bridge.WireFuncs.DecodeZigZag32_eq
#print axioms Csproto.Bridge.WireFuncs.DecodeZigZag64_eq
#print axioms Csproto.Bridge.WireFuncs.translated_zigzag64_roundtrip
#print axioms Csproto.Bridge.WireFuncs.translated_zigzag32_roundtrip
#print axioms Csproto.Bridge.WireFuncs.translated_tag_roundtrip

-- Decoder METHODS translated from decoder.go refine the transition system Dec.step the property theorems are about: Bridge/DecoderFuncs.lean
#print axioms Csproto.Bridge.DecoderFuncs.DecodeTag_refines
#print axioms Csproto.Bridge.DecoderFuncs.DecodeUInt64_refines
#print axioms Csproto.Bridge.DecoderFuncs.DecodeInt64_refines
#print axioms Csproto.Bridge.DecoderFuncs.DecodeUInt32_refines
#print axioms Csproto.Bridge.DecoderFuncs.DecodeInt32_refines
#print axioms Csproto.Bridge.DecoderFuncs.DecodeSInt32_refines
#print axioms Csproto.Bridge.DecoderFuncs.DecodeSInt64_refines
#print axioms Csproto.Bridge.DecoderFuncs.DecodeFixed32_refines
#print axioms Csproto.Bridge.DecoderFuncs.DecodeFixed64_refines
#print axioms Csproto.Bridge.DecoderFuncs.Offset_refines
#print axioms Csproto.Bridge.DecoderFuncs.Reset_refines

-- Encoder METHODS translated from encoder.go refine Enc.step (same buffer, same cursor, panic iff the buffer is short): Bridge/EncoderFuncs.lean
#print axioms Csproto.Bridge.EncoderFuncs.EncodeUInt64_refines
#print axioms Csproto.Bridge.EncoderFuncs.EncodeInt64_refines
#print axioms Csproto.Bridge.EncoderFuncs.EncodeUInt32_refines
#print axioms Csproto.Bridge.EncoderFuncs.EncodeInt32_refines
#print axioms Csproto.Bridge.EncoderFuncs.EncodeSInt64_refines
#print axioms Csproto.Bridge.EncoderFuncs.EncodeSInt32_refines
#print axioms Csproto.Bridge.EncoderFuncs.writeAt_writeAt

-- C01 stated about the SOURCE (translated methods only, no model function in the statements): Props/C01Source.lean
#print axioms Csproto.C01.Source.source_roundtrip_uint64
#print axioms Csproto.C01.Source.source_roundtrip_sint64
#print axioms Csproto.C01.Source.source_roundtrip_sint32
#print axioms Csproto.C01.Source.source_roundtrip_uint32

-- bool paths of the current source: DecodeBool / More / EncodeBool (the byte for false is stored, whatever the destination held)
#print axioms Csproto.Bridge.DecoderFuncs.DecodeBool_refines
#print axioms Csproto.Bridge.DecoderFuncs.More_refines
#print axioms Csproto.Bridge.EncoderFuncs.EncodeBool_refines

-- a packed WRITER of the current encoder.go (two range loops) refines Enc.step (.packedVarint tag vs)
#print axioms Csproto.Bridge.PackedEncFuncs.sizes_loop
#print axioms Csproto.Bridge.PackedEncFuncs.write_loop
#print axioms Csproto.Bridge.PackedEncFuncs.EncodePackedUInt64_refines
#print axioms Csproto.Bridge.PackedEncFuncs.EncodePackedInt32_refines
#print axioms Csproto.Bridge.PackedEncFuncs.EncodePackedInt64_refines
#print axioms Csproto.Bridge.PackedEncFuncs.EncodePackedUInt32_refines
#print axioms Csproto.Bridge.PackedEncFuncs.EncodePackedSInt64_refines
#print axioms Csproto.Bridge.PackedEncFuncs.EncodePackedSInt32_refines
#print axioms Csproto.C01.Source.source_roundtrip_packed_uint64
#print axioms Csproto.C01.Source.source_roundtrip_packed_int32
#print axioms Csproto.Bridge.EncoderFuncs.EncodeBytes_refines
#print axioms Csproto.C01.Source.source_roundtrip_bytes
#print axioms Csproto.C01.Source.source_roundtrip_packed_sint64
#print axioms Csproto.C01.Source.source_roundtrip_packed_int64
#print axioms Csproto.Bridge.PackedEncFuncs.bool_loop
#print axioms Csproto.Bridge.PackedEncFuncs.EncodePackedBool_refines
#print axioms Csproto.C01.Source.source_roundtrip_packed_uint32
#print axioms Csproto.C01.Source.source_roundtrip_packed_sint32
#print axioms Csproto.C01.Source.source_roundtrip_int64
#print axioms Csproto.C01.Source.source_roundtrip_int32
#print axioms Csproto.Bridge.EncoderFuncs.EncodeMapEntryHeader_refines
#print axioms Csproto.Bridge.EncoderFuncs.EncodeRaw_refines
#print axioms Csproto.Bridge.EncoderFuncs.EncodeFixed32_ok
#print axioms Csproto.Bridge.EncoderFuncs.EncodeFixed64_ok
#print axioms Csproto.Bridge.EncoderFuncs.EncodeFixed32_refines
#print axioms Csproto.Bridge.EncoderFuncs.EncodeFixed64_refines
#print axioms Csproto.C01.Source.source_roundtrip_fixed32
