import Csproto.Props.C10
import Csproto.Props.C10Prov
/- axiom audit for C10 -/
#print axioms Csproto.C10.safe_mode_owns_everything
#print axioms Csproto.C10.clobber_invariant
#print axioms Csproto.C10.safe_reads_decoded
#print axioms Csproto.C10.fast_mode_aliases
#print axioms Csproto.C10.facts
#print axioms Csproto.C10.mode_is_the_option
#print axioms Csproto.C10.clobber_invariant_after_any_activity
#print axioms Csproto.C10.recycling_decoders_would_alias
#print axioms Csproto.C10.facts_decoder_mode
-- C10Prov
#print axioms Csproto.C10Prov.template_policy_safe
#print axioms Csproto.C10Prov.policy_from_facts
#print axioms Csproto.C10Prov.erasure
#print axioms Csproto.C10Prov.succeeds_iff
#print axioms Csproto.C10Prov.safe_mode_owns_everything
#print axioms Csproto.C10Prov.clobber_invariant
#print axioms Csproto.C10Prov.clobbered_reads_decoded
#print axioms Csproto.C10Prov.safe_mode_never_aliases
#print axioms Csproto.C10Prov.fast_mode_aliases
#print axioms Csproto.C10Prov.fast_mode_bytes_alias
#print axioms Csproto.C10Prov.nocopy_bytes_arm_aliases
#print axioms Csproto.C10Prov.nested_alias_is_relative_to_outer_buffer
#print axioms Csproto.C10Prov.unknown_fields_owned_in_fast_mode
#print axioms Csproto.C10Prov.every_site_example
#print axioms Csproto.C10Prov.lazy_erasure
#print axioms Csproto.C10Prov.lazy_safe_backing
#print axioms Csproto.C10Prov.lazy_clobber_invariant
#print axioms Csproto.C10Prov.lazy_accessors_clobber_invariant
#print axioms Csproto.C10Prov.lazy_nested
#print axioms Csproto.C10Prov.lazy_value_erasure
#print axioms Csproto.C10Prov.lazy_values_clobber_invariant
#print axioms Csproto.C10Prov.lazy_fast_mode_aliases
#print axioms Csproto.Prov.erase_aux
#print axioms Csproto.Prov.owned_aux
#print axioms Csproto.Prov.erase_decodeIntoLoop
