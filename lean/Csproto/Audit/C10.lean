import Csproto.Props.C10
/- axiom audit for C10 -/
#print axioms Csproto.C10.safe_mode_owns_everything
#print axioms Csproto.C10.clobber_invariant
#print axioms Csproto.C10.safe_reads_decoded
#print axioms Csproto.C10.fast_mode_aliases
#print axioms Csproto.C10.facts
