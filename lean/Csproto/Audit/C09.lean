import Csproto.Props.C09
/- axiom audit for C09 -/
#print axioms Csproto.C09.genMarshal_no_cache
#print axioms Csproto.C09.history_invariant
#print axioms Csproto.C09.initial_cache_irrelevant
#print axioms Csproto.C09.fact_no_size_cache
#print axioms Csproto.C09.readers_agree
#print axioms Csproto.C09.cache_reader_breaks_it
#print axioms Csproto.C09.runtime_cache_convention_breaks_it
#print axioms Csproto.C09.unmarshal_empty_ok
#print axioms Csproto.C09.unmarshal_empty_is_reset
#print axioms Csproto.C09.marshal_after_empty_unmarshal
#print axioms Csproto.C09.fact_csproto_routes
#print axioms Csproto.C09.fact_extension_order_static
