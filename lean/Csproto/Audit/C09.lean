import Csproto.Props.C09
/- axiom audit for C09 -/
#print axioms Csproto.C09.genMarshal_no_cache
#print axioms Csproto.C09.history_invariant
#print axioms Csproto.C09.initial_cache_irrelevant
#print axioms Csproto.C09.fact_no_size_cache
#print axioms Csproto.C09.readers_agree
#print axioms Csproto.C09.cache_reader_breaks_it
#print axioms Csproto.C09.runtime_cache_convention_breaks_it
