import Csproto.Props.C08
/- axiom audit for C08 -/
#print axioms Csproto.C08.unmarshal_total
#print axioms Csproto.C08.parts_total
#print axioms Csproto.C08.calls_are_bounded
#print axioms Csproto.Gen.unmarshal_no_panic
#print axioms Csproto.Gen.no_panic_aux
