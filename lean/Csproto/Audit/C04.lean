import Csproto.Props.C04
import Csproto.Bridge.Templates
import Csproto.Props.C04Ext
import Csproto.Props.C04FirstUse
/- axiom audit for C04 -/
#print axioms Csproto.C04.size_exact
#print axioms Csproto.C04.marshalTo_fills
#print axioms Csproto.C04.marshal_total
#print axioms Csproto.Gen.fields_exact
#print axioms Csproto.Gen.run_exact
#print axioms Csproto.Gen.scalar_exact
#print axioms Csproto.Gen.packed_exact
#print axioms Csproto.Gen.opsFields_no_panic
#print axioms Csproto.Bridge.Templates.size_dispatch_total
#print axioms Csproto.Bridge.Templates.marshal_dispatch_total
#print axioms Csproto.Bridge.Templates.oneof_arms_total
-- proto2 extensions inside the model (singular = explicit presence in the runtime's store, repeated = list)
#print axioms Csproto.Ext.size_exact
#print axioms Csproto.Ext.marshalTo_fills
#print axioms Csproto.Ext.cleared_extension_emits_nothing
#print axioms Csproto.Ext.never_set_extension_emits_nothing
#print axioms Csproto.Ext.set_extension_always_emitted
#print axioms Csproto.Ext.repeated_extension_one_record_per_element
#print axioms Csproto.Ext.repeated_extension_size
#print axioms Csproto.Ext.empty_repeated_extension_emits_nothing
#print axioms Csproto.Ext.set_to_empty_list_emits_nothing
#print axioms Csproto.Ext.set_to_empty_list_like_cleared
#print axioms Csproto.Ext.roundtrip
#print axioms Csproto.Bridge.Templates.extension_arms_total
#print axioms Csproto.Bridge.Templates.extension_repeated_arms
-- C04Ext: extensions during the concurrent first use of a type
#print axioms Csproto.C04Ext.agree_when_answers_constant
#print axioms Csproto.C04Ext.first_use_agree
#print axioms Csproto.C04Ext.placeholder_answer_breaks_it
#print axioms Csproto.C04Ext.fact_type_cache_protocol
-- the quantifier over generator options: the option list of run.go is the one the model accounts for
#print axioms Csproto.Bridge.Templates.generator_options_known
