import Csproto.Props.C04
import Csproto.Bridge.Templates
/- axiom audit for C04 -/
#print axioms Csproto.C04.size_exact
#print axioms Csproto.C04.marshalTo_fills
#print axioms Csproto.C04.marshal_total
#print axioms Csproto.Gen.fields_exact
#print axioms Csproto.Gen.run_exact
#print axioms Csproto.Gen.scalar_exact
#print axioms Csproto.Gen.packed_exact
#print axioms Csproto.Gen.opsFields_no_panic
#print axioms Csproto.Bridge.Templates.size_dispatch_total
#print axioms Csproto.Bridge.Templates.marshal_dispatch_total
#print axioms Csproto.Bridge.Templates.oneof_arms_total
