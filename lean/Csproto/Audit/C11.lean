import Csproto.Props.C11
import Csproto.Bridge.Shim
/- axiom audit for C11 -/
#print axioms Csproto.C11.classify_supported
#print axioms Csproto.C11.classify_unsupported
#print axioms Csproto.C11.classify_v2_first
#print axioms Csproto.C11.mem_set
#print axioms Csproto.C11.cacheInv_init
#print axioms Csproto.C11.cacheInv_step
#print axioms Csproto.C11.cache_stable
#print axioms Csproto.C11.returned_value_correct
#print axioms Csproto.C11.firstProbe_head
#print axioms Csproto.C11.firstProbe_none
#print axioms Csproto.C11.equal_transparent
#print axioms Csproto.C11.equal_cross_class
#print axioms Csproto.C11.equal_unsupported
#print axioms Csproto.C11.equal_ignores_identity
#print axioms Csproto.C11.shortcut_transparent_iff
#print axioms Csproto.C11.shortcut_witness
#print axioms Csproto.C11.shortcut_only_on_same_pointer
#print axioms Csproto.C11.unary_transparent
#print axioms Csproto.Bridge.arms_call_owner
#print axioms Csproto.Bridge.arms_assert_owner
#print axioms Csproto.Bridge.arms_reach_expected
#print axioms Csproto.Bridge.deduceSkeleton_ok
#print axioms Csproto.Bridge.msgTypeProtocol_ok
#print axioms Csproto.Bridge.jsonProbes_ok
#print axioms Csproto.Bridge.jsonWiring_ok
#print axioms Csproto.Bridge.jsonSetters_ok
#print axioms Csproto.Bridge.jsonOptionWrites_ok
#print axioms Csproto.Bridge.no_cached_size_requests
#print axioms Csproto.Bridge.grpcCodec_ok
#print axioms Csproto.Bridge.resetProbes_ok
#print axioms Csproto.Bridge.marshalTextProbes_ok
#print axioms Csproto.Bridge.shimFrame_ok
#print axioms Csproto.Bridge.shimArms_ok
#print axioms Csproto.Bridge.shimArms_complete
