import Csproto.Props.C05
import Csproto.Bridge.Templates
import Csproto.Props.C05Map
/- axiom audit for C05 -/
#print axioms Csproto.C05.marshal_is_concatenation
#print axioms Csproto.C05.unset_emits_nothing
#print axioms Csproto.C05.implicit_default_emits_nothing
#print axioms Csproto.C05.empty_list_emits_nothing
#print axioms Csproto.C05.explicit_always_emitted
#print axioms Csproto.C05.implicit_nondefault_emitted
#print axioms Csproto.C05.negative_zero_is_emitted
#print axioms Csproto.C05.scalar_record_shape
#print axioms Csproto.C05.nested_record_shape
#print axioms Csproto.C05.marshal_records
#print axioms Csproto.C05.records_decode_to_message
#print axioms Csproto.C05.presence_preserved
#print axioms Csproto.Bridge.Templates.marshal_dispatch_total
#print axioms Csproto.Bridge.Templates.oneof_arms_total
#print axioms Csproto.Gen.msg_fold
#print axioms Csproto.Gen.opsFields_recs
#print axioms Csproto.Gen.field_fold
#print axioms Csproto.C05.marshal_record_tree
#print axioms Csproto.C05.record_tree_well_formed
#print axioms Csproto.C05.record_tree_decodes_to_message
-- C05Map
#print axioms Csproto.C05Map.size_exact_maps
#print axioms Csproto.C05Map.marshalTo_fills_maps
#print axioms Csproto.C05Map.snippet_size_is_model_size
#print axioms Csproto.C05Map.snippet_bytes_are_model_bytes
#print axioms Csproto.C05Map.snippet_exact
#print axioms Csproto.C05Map.nil_value_entry_is_written_by_the_model
#print axioms Csproto.C05Map.map_field_is_entry_records
#print axioms Csproto.C05Map.marshal_record_tree_maps
#print axioms Csproto.C05Map.record_tree_maps_well_formed
#print axioms Csproto.C05Map.roundtrip_maps
#print axioms Csproto.C05Map.roundtrip_maps_mode_independent
#print axioms Csproto.C05Map.decoded_keys_distinct
#print axioms Csproto.C05Map.roundtrip_maps_as_finite_map
#print axioms Csproto.C05Map.roundtrip_order_independent
#print axioms Csproto.C05Map.roundtrip_order_independent_deep
#print axioms Csproto.C05Map.order_independent_deep_example
#print axioms Csproto.C05Map.roundtrip_maps_example
#print axioms Csproto.C05Map.order_independent_example
#print axioms Csproto.Gen.roundtrip_map
#print axioms Csproto.Gen.recs_okM
#print axioms Csproto.Gen.fold_fieldsM
#print axioms Csproto.Gen.fold_mapM
#print axioms Csproto.Gen.fold_entryM
#print axioms Csproto.Gen.mapInsert_fresh
#print axioms Csproto.Gen.mapGet_perm
#print axioms Csproto.Gen.canonFs_mapsPermuted
#print axioms Csproto.Gen.canon_sameFs
#print axioms Csproto.Gen.roundtrip_same
#print axioms Csproto.Gen.tMapSize_eq
#print axioms Csproto.Gen.tMapOps_eq
#print axioms Csproto.Gen.tMap_exact
