import Csproto.Props.C05
import Csproto.Bridge.Templates
/- axiom audit for C05 -/
#print axioms Csproto.C05.marshal_is_concatenation
#print axioms Csproto.C05.unset_emits_nothing
#print axioms Csproto.C05.implicit_default_emits_nothing
#print axioms Csproto.C05.empty_list_emits_nothing
#print axioms Csproto.C05.explicit_always_emitted
#print axioms Csproto.C05.implicit_nondefault_emitted
#print axioms Csproto.C05.negative_zero_is_emitted
#print axioms Csproto.C05.scalar_record_shape
#print axioms Csproto.C05.nested_record_shape
#print axioms Csproto.C05.marshal_records
#print axioms Csproto.C05.records_decode_to_message
#print axioms Csproto.C05.presence_preserved
#print axioms Csproto.Bridge.Templates.marshal_dispatch_total
#print axioms Csproto.Bridge.Templates.oneof_arms_total
#print axioms Csproto.Gen.msg_fold
#print axioms Csproto.Gen.opsFields_recs
#print axioms Csproto.Gen.field_fold
#print axioms Csproto.C05.marshal_record_tree
#print axioms Csproto.C05.record_tree_well_formed
#print axioms Csproto.C05.record_tree_decodes_to_message
