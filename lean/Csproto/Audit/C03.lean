import Csproto.Props.C03
import Csproto.Bridge.Facts
import Csproto.Bridge.WireFuncs
import Csproto.Bridge.WireFuncs2
/- axiom audit for C03 -/
open Csproto
#print axioms C03.step_safe
#print axioms C03.run_safe
#print axioms C03.lenPrefix_safe
#print axioms C03.declared_length_beyond_input_is_error
#print axioms C03.packed_safe
#print axioms C03.new_inv
#print axioms packedLoop_safe
#print axioms decodeVarint_ok
#print axioms Bridge.maxFieldLen_ok
#print axioms Bridge.maxTagValue_ok

-- the wire primitives TRANSLATED from the Go source (Generated/WireFuncs.lean) compute what the model says
#print axioms Csproto.Bridge.WireFuncs.EncodeVarint_ok
#print axioms Csproto.Bridge.WireFuncs.EncodeVarint_short
#print axioms Csproto.Bridge.WireFuncs.DecodeVarint_eq
#print axioms Csproto.Bridge.WireFuncs.DecodeFixed32_ok
#print axioms Csproto.Bridge.WireFuncs.DecodeFixed32_short
#print axioms Csproto.Bridge.WireFuncs.DecodeFixed64_ok
#print axioms Csproto.Bridge.WireFuncs.DecodeFixed64_short
#print axioms Csproto.Bridge.WireFuncs.translated_varint_roundtrip

-- second batch of TRANSLATED primitives (functions that call other translated functions): Bridge/WireFuncs2.lean
#print axioms Csproto.Bridge.WireFuncs.DecodeVarint_returns
#print axioms Csproto.Bridge.WireFuncs.DecodeZigZag32_eq
#print axioms Csproto.Bridge.WireFuncs.DecodeZigZag64_eq
