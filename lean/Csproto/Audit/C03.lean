import Csproto.Props.C03
import Csproto.Bridge.Facts
import Csproto.Bridge.WireFuncs
import Csproto.Bridge.WireFuncs2
import Csproto.Bridge.DecoderFuncs
import Csproto.Bridge.SkipFuncs
import Csproto.Props.C03Source
import Csproto.Bridge.SeekFuncs
import Csproto.Bridge.PackedFuncs
import Csproto.Props.C03SourcePacked
import Csproto.Props.C03SourceRange
/- axiom audit for C03 -/
open Csproto
#print axioms C03.step_safe
#print axioms C03.run_safe
#print axioms C03.lenPrefix_safe
#print axioms C03.declared_length_beyond_input_is_error
#print axioms C03.packed_safe
#print axioms C03.new_inv
#print axioms packedLoop_safe
#print axioms decodeVarint_ok
#print axioms Bridge.maxFieldLen_ok
#print axioms Bridge.maxTagValue_ok

-- the wire primitives TRANSLATED from the Go source (Generated/WireFuncs.lean) compute what the model says
#print axioms Csproto.Bridge.WireFuncs.EncodeVarint_ok
#print axioms Csproto.Bridge.WireFuncs.EncodeVarint_short
#print axioms Csproto.Bridge.WireFuncs.DecodeVarint_eq
#print axioms Csproto.Bridge.WireFuncs.DecodeFixed32_ok
#print axioms Csproto.Bridge.WireFuncs.DecodeFixed32_short
#print axioms Csproto.Bridge.WireFuncs.DecodeFixed64_ok
#print axioms Csproto.Bridge.WireFuncs.DecodeFixed64_short
#print axioms Csproto.Bridge.WireFuncs.translated_varint_roundtrip

-- second batch of TRANSLATED primitives (functions that call other translated functions): Bridge/WireFuncs2.lean
#print axioms Csproto.Bridge.WireFuncs.DecodeVarint_returns
#print axioms Csproto.Bridge.WireFuncs.DecodeZigZag32_eq
#print axioms Csproto.Bridge.WireFuncs.DecodeZigZag64_eq

-- Decoder METHODS translated from decoder.go refine the transition system Dec.step the property theorems are about: Bridge/DecoderFuncs.lean
#print axioms Csproto.Bridge.DecoderFuncs.DecodeTag_refines
#print axioms Csproto.Bridge.DecoderFuncs.DecodeUInt64_refines
#print axioms Csproto.Bridge.DecoderFuncs.DecodeInt64_refines
#print axioms Csproto.Bridge.DecoderFuncs.DecodeUInt32_refines
#print axioms Csproto.Bridge.DecoderFuncs.DecodeInt32_refines
#print axioms Csproto.Bridge.DecoderFuncs.DecodeSInt32_refines
#print axioms Csproto.Bridge.DecoderFuncs.DecodeSInt64_refines
#print axioms Csproto.Bridge.DecoderFuncs.DecodeFixed32_refines
#print axioms Csproto.Bridge.DecoderFuncs.DecodeFixed64_refines
#print axioms Csproto.Bridge.DecoderFuncs.Offset_refines
#print axioms Csproto.Bridge.DecoderFuncs.Reset_refines

-- DecodeBytes and Skip of the current decoder.go refine Dec.step: Bridge/DecoderFuncs.lean, Bridge/SkipFuncs.lean
#print axioms Csproto.Bridge.DecoderFuncs.DecodeBytes_refines
#print axioms Csproto.Bridge.SkipFuncs.Skip_refines
#print axioms Csproto.Bridge.SkipFuncs.prefix_eval
#print axioms Csproto.Bridge.SkipFuncs.check_eval
#print axioms Csproto.Bridge.SkipFuncs.len_eval

-- C03 stated about the translated source (returns: no panic, no divergence; buffer untouched; failed call leaves the cursor): Props/C03Source.lean
#print axioms Csproto.C03.Source.DecodeTag_safe
#print axioms Csproto.C03.Source.DecodeUInt64_safe
#print axioms Csproto.C03.Source.DecodeInt64_safe
#print axioms Csproto.C03.Source.DecodeUInt32_safe
#print axioms Csproto.C03.Source.DecodeInt32_safe
#print axioms Csproto.C03.Source.DecodeSInt32_safe
#print axioms Csproto.C03.Source.DecodeSInt64_safe
#print axioms Csproto.C03.Source.DecodeFixed32_safe
#print axioms Csproto.C03.Source.DecodeFixed64_safe
#print axioms Csproto.C03.Source.DecodeBytes_safe
#print axioms Csproto.C03.Source.Skip_safe

-- bool paths of the current source: DecodeBool / More / EncodeBool (the byte for false is stored, whatever the destination held)
#print axioms Csproto.Bridge.DecoderFuncs.DecodeBool_refines
#print axioms Csproto.Bridge.DecoderFuncs.More_refines

-- Seek of the current decoder.go (wrapping 64-bit arithmetic, bounds test) refines Dec.step (.seek o w)
#print axioms Csproto.Bridge.SeekFuncs.Seek_refines
#print axioms Csproto.Bridge.SeekFuncs.wrap_add

-- a packed reader of the current decoder.go (loop, append, shadowing locals) refines Dec.step .packedUint64; the loop terminates
#print axioms Csproto.Bridge.PackedFuncs.loop_eq
#print axioms Csproto.Bridge.PackedFuncs.DecodePackedUint64_refines
#print axioms Csproto.Bridge.PackedFuncs.loop_eqI
#print axioms Csproto.Bridge.PackedFuncs.DecodePackedInt64_refines
#print axioms Csproto.Bridge.PackedFuncs.loop_eqS
#print axioms Csproto.Bridge.PackedFuncs.DecodePackedSint64_refines
#print axioms Csproto.Bridge.PackedFuncs.loop_eqT
#print axioms Csproto.Bridge.PackedFuncs.DecodePackedSint32_refines
#print axioms Csproto.Bridge.PackedFuncs.loop_eqU
#print axioms Csproto.Bridge.PackedFuncs.DecodePackedUint32_refines
#print axioms Csproto.Bridge.PackedFuncs.loop_eqJ
#print axioms Csproto.Bridge.PackedFuncs.DecodePackedInt32_refines
#print axioms Csproto.Bridge.PackedFuncs.DecodePackedFixed64_refines
#print axioms Csproto.Bridge.PackedFuncs.DecodePackedFixed32_refines
#print axioms Csproto.Bridge.PackedFuncs.DecodePackedBool_refines

-- totality of DecodeBool, Seek and nine packed readers of the translated source: Props/C03SourcePacked.lean
#print axioms Csproto.C03.Source.DecodeBool_total
#print axioms Csproto.C03.Source.Seek_total
#print axioms Csproto.C03.Source.DecodePackedUint64_total
#print axioms Csproto.C03.Source.DecodePackedInt64_total
#print axioms Csproto.C03.Source.DecodePackedUint32_total
#print axioms Csproto.C03.Source.DecodePackedInt32_total
#print axioms Csproto.C03.Source.DecodePackedSint64_total
#print axioms Csproto.C03.Source.DecodePackedSint32_total
#print axioms Csproto.C03.Source.DecodePackedFixed64_total
#print axioms Csproto.C03.Source.DecodePackedFixed32_total
#print axioms Csproto.C03.Source.DecodePackedBool_total

-- the cursor clause for the translated source: after every call the cursor is inside the buffer (Props/C03SourceRange.lean)
#print axioms Csproto.C03.Source.model_inrange
#print axioms Csproto.C03.Source.DecodeUInt64_inrange
#print axioms Csproto.C03.Source.DecodeInt64_inrange
#print axioms Csproto.C03.Source.DecodeUInt32_inrange
#print axioms Csproto.C03.Source.DecodeInt32_inrange
#print axioms Csproto.C03.Source.DecodeSInt32_inrange
#print axioms Csproto.C03.Source.DecodeSInt64_inrange
#print axioms Csproto.C03.Source.DecodeFixed32_inrange
#print axioms Csproto.C03.Source.DecodeFixed64_inrange
#print axioms Csproto.C03.Source.DecodeBool_inrange
#print axioms Csproto.C03.Source.DecodeBytes_inrange
#print axioms Csproto.C03.Source.Skip_inrange
#print axioms Csproto.C03.Source.DecodePackedUint64_inrange
#print axioms Csproto.C03.Source.DecodePackedInt64_inrange
#print axioms Csproto.C03.Source.DecodePackedUint32_inrange
#print axioms Csproto.C03.Source.DecodePackedInt32_inrange
#print axioms Csproto.C03.Source.DecodePackedSint64_inrange
#print axioms Csproto.C03.Source.DecodePackedSint32_inrange
#print axioms Csproto.C03.Source.DecodePackedFixed64_inrange
#print axioms Csproto.C03.Source.DecodePackedFixed32_inrange
#print axioms Csproto.C03.Source.DecodePackedBool_inrange
