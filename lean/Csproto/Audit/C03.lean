import Csproto.Props.C03
import Csproto.Bridge.Facts
/- axiom audit for C03 -/
open Csproto
#print axioms C03.step_safe
#print axioms C03.run_safe
#print axioms C03.lenPrefix_safe
#print axioms C03.declared_length_beyond_input_is_error
#print axioms C03.packed_safe
#print axioms C03.new_inv
#print axioms packedLoop_safe
#print axioms decodeVarint_ok
#print axioms Bridge.maxFieldLen_ok
#print axioms Bridge.maxTagValue_ok
