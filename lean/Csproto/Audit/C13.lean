import Csproto.Props.C13
import Csproto.Props.C13Live
import Csproto.Bridge.Lazy
import Csproto.Bridge.Facts
/- axiom audit for C13 -/
open Csproto
#print axioms loop_records
#print axioms C13.decode_records
#print axioms C13.recorded_eq_lookup
#print axioms C13.recorded_eq_lookup_clean
#print axioms C13.undeclared_notDefined
#print axioms C13.absent_notFound
#print axioms C13.nesting_notDefined
#print axioms C13.scalar_mismatch
#print axioms C13.slice_mismatch
#print axioms C13.scalar_last
#print axioms C13.slice_all
#print axioms C13.uint64s_all
#print axioms C13.sliceLoop_len
#print axioms C13.nested_step
#print axioms C13.decodeInto_total
#print axioms C13.compile_flat_nodup
#print axioms Bridge.lazyAccessors_ok
#print axioms Bridge.accessFD_mismatch
#print axioms Bridge.maxTagValue_ok
#print axioms Csproto.C13.sint32_range
#print axioms Csproto.C13.sint32_overflow
-- several results of one Decoder open at the same time (Props/C13Live.lean)
#print axioms Csproto.C13Live.spec_acc_own
#print axioms Csproto.C13Live.spec_close_keeps_others
#print axioms Csproto.C13Live.spec_decode_keeps
#print axioms Csproto.C13Live.live_answers_are_own_input
#print axioms Csproto.C13Live.live_answer_after
#print axioms Csproto.C14N.nested_history_refines
#print axioms Csproto.C13Live.liveEx_ok
#print axioms Csproto.C13Live.liveEx_outputs
