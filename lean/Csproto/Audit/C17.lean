import Csproto.Props.C17
/- axiom audit for C17 -/
#print axioms Csproto.C17.opsFields_err_iff
#print axioms Csproto.C17.opsField_err_iff
#print axioms Csproto.C17.bytesMsgV_err_iff
#print axioms Csproto.C17.opsMsgList_err_iff
#print axioms Csproto.C17.no_required_size_zero
#print axioms Csproto.C17.sizeMsgList_zero
#print axioms Csproto.C17.missList_nil_entries
#print axioms Csproto.C17.marshal_err_iff
#print axioms Csproto.C17.marshal_ok_of_complete
#print axioms Csproto.C17.marshal_empty_message
#print axioms Csproto.C17.unmarshal_ok_complete
#print axioms Csproto.C17.requiredMissing_init
#print axioms Csproto.C17.unmarshal_empty_input
#print axioms Csproto.C17.template_facts
