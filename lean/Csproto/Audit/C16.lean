import Csproto.Props.C16
/- axiom audit for C16 -/
#print axioms Csproto.C16.single_file_one_name
#print axioms Csproto.C16.per_message_one_file_per_message
#print axioms Csproto.C16.name_inj
#print axioms Csproto.C16.per_message_names_distinct_iff
#print axioms Csproto.C16.collision_witness
#print axioms Csproto.C16.name_plan_fact
#print axioms Csproto.C16.generator_keeps_no_state_fact
#print axioms Csproto.C16.value_option_stores_fact
#print axioms Csproto.C16.special_names_order_free
#print axioms Csproto.C16.routing_total
