import Csproto.Props.C14
import Csproto.Props.C14History
import Csproto.Bridge.Lazy
import Csproto.Props.C14Nested
import Csproto.Props.C14Opts
/- axiom audit for C14 -/
open Csproto
#print axioms C14.clean_eq_new
#print axioms C14.decodeIntoLoop_congr
#print axioms C14.decode_into_clean
#print axioms C14.accessFD_congr
#print axioms C14.accessTag_congr
#print axioms C14.nestedSelect_congr
#print axioms C14.obj_setObj
#print axioms C14.pool_setPool
#print axioms C14.closeObj_onlyClears
#print axioms C14.closeRes_pools
#print axioms C14.reuse_eq_new
#print axioms C14.reuse_answers
#print axioms C13.decode_records
#print axioms C13.decodeInto_total
#print axioms Bridge.lazyAccessors_ok
#print axioms Csproto.C14.step_refines
#print axioms Csproto.C14.flat_history_refines
#print axioms Csproto.C14.flat_history_no_panic
#print axioms Csproto.C14.histEx_ok
#print axioms Csproto.C14.histEx_outputs
-- C14Nested
#print axioms Csproto.C14N.fold_close
#print axioms Csproto.C14N.closeObj_spec
#print axioms Csproto.C14N.closeObj_misc
#print axioms Csproto.C14N.decodeAt
#print axioms Csproto.C14N.W.attach
#print axioms Csproto.C14N.attach_spec
#print axioms Csproto.C14N.close_root
#print axioms Csproto.C14N.accPath_spec
#print axioms Csproto.C14N.nesteds_loop
#print axioms Csproto.C14N.nstep_refines
#print axioms Csproto.C14N.nested_history_refines
#print axioms Csproto.C14N.nstep_no_panic
#print axioms Csproto.C14N.nested_history_no_panic
#print axioms Csproto.C14N.nhistOKb_sound
#print axioms Csproto.C14N.nhistEx_ok
#print axioms Csproto.C14N.nhistEx_outputs
#print axioms Csproto.C14N.accPathC_spec
#print axioms Csproto.C14N.xstep_refines
#print axioms Csproto.C14N.nested_history_refines_x
#print axioms Csproto.C14N.xhistEx_ok
#print axioms Csproto.C14N.xhistEx_outputs
#print axioms Csproto.C14Opts.closeFds_erases_options
#print axioms Csproto.C14Opts.closeFds_all_empty
#print axioms Csproto.C14Opts.closeFds_option_independent
#print axioms Csproto.C14Opts.closeFds_lazy_reset_witness
#print axioms Csproto.Bridge.lazyClose_resets_first
