import Csproto.Props.C19
import Csproto.Bridge.Dispatch
import Csproto.Bridge.Facts
/- axiom audit for C19 -/
open Csproto
#print axioms C19.encodeNested_exact
#print axioms C19.encodeNested_error
#print axioms C19.decodeNested_exact
#print axioms C19.decodeNested_error
#print axioms C19.decodeNested_beyond_buffer
#print axioms C19.nested_roundtrip
#print axioms Bridge.encodeNested_arms_ok
#print axioms Bridge.decodeNested_arms_ok
#print axioms Bridge.marshal_probes_ok
#print axioms Bridge.unmarshal_probes_ok
#print axioms Bridge.size_probes_ok
#print axioms Bridge.maxFieldLen_ok
