import Csproto.Props.C07
/- axiom audit for C07 -/
#print axioms Csproto.C07.size_counts_unknown
#print axioms Csproto.C07.marshal_reemits_unknown
#print axioms Csproto.C07.unmarshal_keeps_skipped
#print axioms Csproto.C07.template_facts
