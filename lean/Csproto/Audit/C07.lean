import Csproto.Props.C07
import Csproto.Bridge.Templates
/- axiom audit for C07 -/
#print axioms Csproto.C07.size_counts_unknown
#print axioms Csproto.C07.marshal_reemits_unknown
#print axioms Csproto.C07.unmarshal_keeps_skipped
#print axioms Csproto.C07.template_facts
#print axioms Csproto.C07.unknown_retained_in_order
#print axioms Csproto.Gen.fold_unknown
#print axioms Csproto.Bridge.Templates.unknown_fields_handled
#print axioms Csproto.C07.unknown_retained_in_order_nested
#print axioms Csproto.Gen.unmarshal_nested
#print axioms Csproto.C07.marshal_result_owned_by_caller
#print axioms Csproto.C07.only_generated_code_touches_retained_bytes
#print axioms Csproto.C07.marshal_again_same
#print axioms Csproto.Bridge.Templates.marshal_result_is_fresh
#print axioms Csproto.Bridge.Templates.shim_leaves_unknown_store_alone
#print axioms Csproto.C07.reserved_numbers_are_undefined_numbers
#print axioms Csproto.Bridge.Templates.generator_ignores_reserved
#print axioms Csproto.C07.nested_children_dispatched_by_capability
#print axioms Csproto.Bridge.encodeNested_arms_ok
#print axioms Csproto.Bridge.size_probes_ok
