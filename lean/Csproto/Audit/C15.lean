import Csproto.Props.C15
import Csproto.Bridge.LazyWrites
import Csproto.Bridge.Lazy
/- axiom audit for C15 -/
open Csproto
#print axioms C15.inv_step
#print axioms C15.inv_run
#print axioms C15.exclusive
#print axioms C15.owner_persists
#print axioms C15.acquire_via_pool
#print axioms C15.accesses_ordered
#print axioms C15.shared_tables_read_only
#print axioms Bridge.shared_written_only_by_constructors
#print axioms Bridge.writes_classified
#print axioms C14.reuse_eq_new
#print axioms C14.closeObj_onlyClears
#print axioms Bridge.no_package_level_state_mutated
-- safe mode hands out copies (BytesValue / BytesValues clone, strings are converted): the accessor table the model assumes
#print axioms Bridge.lazyAccessors_ok
