import Csproto.Props.C14Nested
/- axiom audit for C14, histories with nested results -/
open Csproto
#print axioms C14N.fold_close
#print axioms C14N.closeObj_spec
#print axioms C14N.closeObj_misc
#print axioms C14N.decodeAt
#print axioms C14N.W.attach
#print axioms C14N.attach_spec
#print axioms C14N.close_root
#print axioms C14N.accPath_spec
#print axioms C14N.nesteds_loop
#print axioms C14N.nstep_refines
#print axioms C14N.nested_history_refines
#print axioms C14N.nstep_no_panic
#print axioms C14N.nested_history_no_panic
#print axioms C14N.nhistOKb_sound
#print axioms C14N.nhistEx_ok
#print axioms C14N.nhistEx_outputs
#print axioms C14N.accPathC_spec
#print axioms C14N.xstep_refines
#print axioms C14N.nested_history_refines_x
#print axioms C14N.xhistEx_ok
#print axioms C14N.xhistEx_outputs
