import Csproto.Props.C18
/- axiom audit for C18 -/
#print axioms Csproto.C18.defaults
#print axioms Csproto.C18.setter_indent
#print axioms Csproto.C18.setter_enumNumbers
#print axioms Csproto.C18.setter_zeroValues
#print axioms Csproto.C18.setter_allowUnknown
#print axioms Csproto.C18.setter_allowPartial
#print axioms Csproto.C18.build_snoc
#print axioms Csproto.C18.nil_marshals_to_nothing
#print axioms Csproto.C18.nil_unmarshal_is_error
#print axioms Csproto.C18.own_codec_first
#print axioms Csproto.C18.v2_before_v1
#print axioms Csproto.C18.gogo_takes_v1_arm
#print axioms Csproto.C18.every_value_has_an_arm
#print axioms Csproto.C18.wiring_fact
#print axioms Csproto.C18.setters_fact
#print axioms Csproto.C18.probes_fact
#print axioms Csproto.C18.wiring_complete
#print axioms Csproto.Bridge.jsonProbes_ok
#print axioms Csproto.Bridge.jsonWiring_ok
#print axioms Csproto.Bridge.jsonSetters_ok
#print axioms Csproto.Bridge.jsonOptionWrites_ok
