import Csproto.Props.C02
import Csproto.Bridge.Facts
import Csproto.Bridge.WireFuncs
import Csproto.Bridge.WireFuncs2
import Csproto.Bridge.DecoderFuncs
import Csproto.Bridge.SkipFuncs
import Csproto.Props.C02Source
import Csproto.Props.C02SourceWalk
import Csproto.Bridge.EncoderFuncs
import Csproto.Bridge.PackedEncFuncs
/- axiom audit for C02 -/
open Csproto
#print axioms canon_encVarint
#print axioms canon_unique
#print axioms C02.encoder_canonical
#print axioms C02.specField_unique
#print axioms C02.conforming_decode
#print axioms C02.payload_wf
#print axioms C02.skip_field
#print axioms C02.skip_walk
#print axioms Dec.skip_at
#print axioms Bridge.maxTagValue_ok
#print axioms Bridge.maxFieldLen_ok
#print axioms Bridge.wireTypes_ok
#print axioms Bridge.encodeTag_src
#print axioms Bridge.sizeOfTagKey_src

-- the wire primitives TRANSLATED from the Go source (Generated/WireFuncs.lean) compute what the model says
#print axioms Csproto.Bridge.WireFuncs.EncodeVarint_ok
#print axioms Csproto.Bridge.WireFuncs.EncodeVarint_short
#print axioms Csproto.Bridge.WireFuncs.DecodeVarint_eq
#print axioms Csproto.Bridge.WireFuncs.DecodeFixed32_ok
#print axioms Csproto.Bridge.WireFuncs.DecodeFixed32_short
#print axioms Csproto.Bridge.WireFuncs.DecodeFixed64_ok
#print axioms Csproto.Bridge.WireFuncs.DecodeFixed64_short
#print axioms Csproto.Bridge.WireFuncs.translated_varint_roundtrip

-- second batch of TRANSLATED primitives (functions that call other translated functions): Bridge/WireFuncs2.lean
#print axioms Csproto.Bridge.WireFuncs.EncodeTag_ok
#print axioms Csproto.Bridge.WireFuncs.EncodeZigZag32_ok
#print axioms Csproto.Bridge.WireFuncs.EncodeZigZag64_ok
#print axioms Csproto.Bridge.WireFuncs.DecodeZigZag32_eq
#print axioms Csproto.Bridge.WireFuncs.DecodeZigZag64_eq
#print axioms Csproto.Bridge.WireFuncs.key_toNat

-- Decoder METHODS translated from decoder.go refine the transition system Dec.step the property theorems are about: Bridge/DecoderFuncs.lean
#print axioms Csproto.Bridge.DecoderFuncs.DecodeTag_refines
#print axioms Csproto.Bridge.DecoderFuncs.DecodeUInt64_refines
#print axioms Csproto.Bridge.DecoderFuncs.DecodeInt64_refines
#print axioms Csproto.Bridge.DecoderFuncs.DecodeUInt32_refines
#print axioms Csproto.Bridge.DecoderFuncs.DecodeInt32_refines
#print axioms Csproto.Bridge.DecoderFuncs.DecodeSInt32_refines
#print axioms Csproto.Bridge.DecoderFuncs.DecodeSInt64_refines
#print axioms Csproto.Bridge.DecoderFuncs.DecodeFixed32_refines
#print axioms Csproto.Bridge.DecoderFuncs.DecodeFixed64_refines
#print axioms Csproto.Bridge.DecoderFuncs.Offset_refines
#print axioms Csproto.Bridge.DecoderFuncs.Reset_refines

-- Encoder METHODS translated from encoder.go refine Enc.step (same buffer, same cursor, panic iff the buffer is short): Bridge/EncoderFuncs.lean
#print axioms Csproto.Bridge.EncoderFuncs.EncodeUInt64_refines
#print axioms Csproto.Bridge.EncoderFuncs.EncodeInt64_refines
#print axioms Csproto.Bridge.EncoderFuncs.EncodeUInt32_refines
#print axioms Csproto.Bridge.EncoderFuncs.EncodeInt32_refines
#print axioms Csproto.Bridge.EncoderFuncs.EncodeSInt64_refines
#print axioms Csproto.Bridge.EncoderFuncs.EncodeSInt32_refines
#print axioms Csproto.Bridge.EncoderFuncs.writeAt_writeAt

-- DecodeBytes and Skip of the current decoder.go refine Dec.step: Bridge/DecoderFuncs.lean, Bridge/SkipFuncs.lean
#print axioms Csproto.Bridge.DecoderFuncs.DecodeBytes_refines
#print axioms Csproto.Bridge.SkipFuncs.Skip_refines
#print axioms Csproto.Bridge.SkipFuncs.prefix_eval
#print axioms Csproto.Bridge.SkipFuncs.check_eval
#print axioms Csproto.Bridge.SkipFuncs.len_eval

-- the Skip clause of C02 stated about the translated source: Props/C02Source.lean
#print axioms Csproto.C02.Source.source_skip_field

-- bool paths of the current source: DecodeBool / More / EncodeBool (the byte for false is stored, whatever the destination held)
#print axioms Csproto.Bridge.EncoderFuncs.EncodeBool_refines
#print axioms Csproto.Bridge.DecoderFuncs.DecodeBool_refines

-- a packed WRITER of the current encoder.go (two range loops) refines Enc.step (.packedVarint tag vs)
#print axioms Csproto.Bridge.PackedEncFuncs.sizes_loop
#print axioms Csproto.Bridge.PackedEncFuncs.write_loop
#print axioms Csproto.Bridge.PackedEncFuncs.EncodePackedUInt64_refines
#print axioms Csproto.Bridge.PackedEncFuncs.EncodePackedInt32_refines
#print axioms Csproto.Bridge.PackedEncFuncs.EncodePackedInt64_refines
#print axioms Csproto.Bridge.PackedEncFuncs.EncodePackedUInt32_refines
#print axioms Csproto.Bridge.PackedEncFuncs.EncodePackedSInt64_refines
#print axioms Csproto.Bridge.PackedEncFuncs.EncodePackedSInt32_refines
#print axioms Csproto.Bridge.EncoderFuncs.EncodeBytes_refines
#print axioms Csproto.Bridge.PackedEncFuncs.bool_loop
#print axioms Csproto.Bridge.PackedEncFuncs.EncodePackedBool_refines
#print axioms Csproto.C02.Source.skip_step
#print axioms Csproto.C02.Source.skip_walk
#print axioms Csproto.Bridge.EncoderFuncs.EncodeMapEntryHeader_refines
#print axioms Csproto.Bridge.EncoderFuncs.EncodeRaw_refines
#print axioms Csproto.Bridge.EncoderFuncs.EncodeFixed32_ok
#print axioms Csproto.Bridge.EncoderFuncs.EncodeFixed64_ok
#print axioms Csproto.Bridge.EncoderFuncs.EncodeFixed32_refines
#print axioms Csproto.Bridge.EncoderFuncs.EncodeFixed64_refines
