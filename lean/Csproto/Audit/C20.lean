import Csproto.Props.C20
import Csproto.Bridge.Facts
/- axiom audit for C20 -/
open Csproto
#print axioms C20.significant_eq_flatten
#print axioms C20.hex_sound
#print axioms C20.hex_rejects
#print axioms C20.hex_complete
#print axioms C20.decodeHex_isSome_iff
#print axioms C20.pathsMatch_iff
#print axioms C20.dumpLoop_no_panic
#print axioms C20.dumpProto_no_panic
#print axioms C20.dump_entries
#print axioms Bridge.maxTagValue_ok
#print axioms Bridge.wireTypes_ok
