import Csproto.Props.C20
import Csproto.Bridge.Facts
import Csproto.Bridge.Tools
/- axiom audit for C20 -/
open Csproto
#print axioms C20.significant_eq_flatten
#print axioms C20.hex_sound
#print axioms C20.hex_rejects
#print axioms C20.hex_complete
#print axioms C20.decodeHex_isSome_iff
#print axioms C20.pathsMatch_iff
#print axioms C20.dumpLoop_no_panic
#print axioms C20.dumpProto_no_panic
#print axioms C20.dump_entries
#print axioms C20.hexDigitVal_isSome_iff
#print axioms C20.hex_rejects_non_ascii
#print axioms C20.hex_bytes_sound
#print axioms C20.hex_bytes_rejects
#print axioms C20.hex_bytes_complete
#print axioms C20.sizesD_le_wires
#print axioms C20.dump_tree
#print axioms C20.dumpProto_tree
#print axioms C20.recursed_iff
#print axioms Bridge.tagPaths_written_only_by_Set
#print axioms Bridge.dump_writes_classified
#print axioms Bridge.protodump_structs_ok
#print axioms Bridge.protodump_no_global_state
#print axioms Bridge.dump_input_verbatim
#print axioms Bridge.hex_calls_ok
#print axioms Bridge.maxTagValue_ok
#print axioms Bridge.wireTypes_ok
