import Csproto.Generated.Tools
/-
  Bridge for F17 (C20): the shape of cmd/protodump and prototest.ParseAnnotatedHex that the tool models
  (Model/Dump, Model/Hex) assume.

  * `pathsMatch` is a function of the configured paths and the path asked about, and `dumpLoop` carries
    nothing from one field to the next except the decoder: in the source the only field of `tagPaths`
    is `paths`, it is written by `Set` (flag parsing) only, no other struct field is written while
    dumping except the indentation, no address of a field is handed out, and the package has no
    variables besides the build information.
  * `dumpProto data …` decodes the bytes it is given: in `dumpProtoFile` the value passed to
    `csproto.NewDecoder` is assigned exactly once, from `io.ReadAll`.
  * `parseAnnotatedHex` mirrors strings.Split / strings.Index / strings.Map + unicode.IsSpace /
    hex.DecodeString; these (and fmt.Errorf for the error text) are all the calls the function makes.
-/
namespace Csproto.Bridge

/-- the fields of the per-run configuration copy `dumpConfig` -/
def configFields : List String := ["dumpConfig.indent", "dumpConfig.expand", "dumpConfig.strings"]

/-- **path matching keeps no state**: every write to a struct field either goes to the configuration copy
    or is `Set` (flag parsing) storing the configured paths - nothing else of `tagPaths` is ever written,
    in particular not by `Matches` / `ShouldExpand` -/
theorem tagPaths_written_only_by_Set :
    Generated.protodumpFieldWrites.all (fun w => configFields.contains w.1 || w == ("tagPaths.paths", "Set")) = true := by
  decide

/-- the dump loop changes nothing but the indentation of its own configuration copy; the rest of the
    configuration is fixed when `dumpProtoFile` builds it -/
theorem dump_writes_classified :
    Generated.protodumpFieldWrites.all (fun w =>
      w == ("tagPaths.paths", "Set") || w == ("dumpConfig.indent", "dumpProto") ||
      w.2 == "dumpProtoFile(literal)") = true := by
  decide

theorem protodump_structs_ok :
    Generated.protodumpStructFields = ["dumpConfig: indent expand strings", "tagPaths: paths"] := by decide

theorem protodump_no_global_state :
    Generated.protodumpGlobals.all (fun g => ["builtBy", "commit", "date", "version"].contains g) = true := by decide

/-- **the input is decoded as it was read** -/
theorem dump_input_verbatim : Generated.dumpInputFlow = ["io.ReadAll"] := by decide

/-- `ParseAnnotatedHex` is made of the library calls the model mirrors -/
theorem hex_calls_ok :
    Generated.hexCalls = ["fmt.Errorf", "hex.DecodeString", "strings.Index", "strings.Map", "strings.Split", "unicode.IsSpace"] := by
  decide

end Csproto.Bridge
