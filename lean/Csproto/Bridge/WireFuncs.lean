import Csproto.Generated.WireFuncs
import Csproto.Model.Wire
import Csproto.Proofs.Varint
/-
  Bridge for the TRANSLATED wire primitives.

  `Generated/WireFuncs.lean` is produced on every run by `harness/cmd/extract/wirefuncs.go` from the bodies of
  `EncodeVarint` (encoder.go) and `DecodeVarint`, `DecodeFixed32`, `DecodeFixed64` (decoder.go) of `/repo`'s current tree,
  statement by statement, over the Go-fragment semantics of `Model/GoSem.lean` (fixed-width integers as `BitVec`, bounds-
  checked loads and stores, loops with fuel).  The theorems here prove — for EVERY input, by induction, no bound —
  that those translated functions compute exactly what the hand-written model of `Model/Wire.lean` says, which is what
  all property theorems (C01–C03 and everything above them) are stated about:

  * `EncodeVarint_ok` / `EncodeVarint_short`: into a buffer with room it writes `encVarint v`, leaves the rest of the buffer
    alone and returns the length; into a shorter buffer it panics (index out of range);
  * `DecodeVarint_eq`: value, length and acceptance equal `decodeVarint` (the three code paths: one byte, fewer than ten
    bytes available, ten or more);
  * `DecodeFixed32_ok/_short`, `DecodeFixed64_ok/_short`: little-endian value and the truncation error.

  Side conditions are Go's own: a slice length fits in `int` (`< 2^63`).  `fuel` only has to be large enough (≥ 11): the
  theorems therefore also show termination of the loops.  A change to one of these Go functions changes the generated
  definitions; if it changes what they compute, these theorems fail and the check reports the broken obligation and
  searches for a failing input with the correspondence streams.
-/
set_option linter.unusedSimpArgs false
set_option linter.unusedVariables false
namespace Csproto.Bridge.WireFuncs
open Csproto Csproto.Generated.WireFuncs

/-! ## fixed-width readers -/

theorem or_shift (x y i : Nat) (hx : x < 2 ^ i) : x ||| (y <<< i) = x + y * 2 ^ i := by
  rw [Nat.or_comm, ← Nat.shiftLeft_add_eq_or_of_lt hx, Nat.shiftLeft_eq, Nat.add_comm]

theorem slt_ofNat (n k : Nat) (hn : n < 2 ^ 63) (hk : k < 2 ^ 63) :
    (BitVec.ofNat 64 n).slt (BitVec.ofNat 64 k) = decide (n < k) := by
  simp only [BitVec.slt, BitVec.toInt_eq_toNat_cond, BitVec.toNat_ofNat]
  have h1 : n % 2 ^ 64 = n := Nat.mod_eq_of_lt (by omega)
  have h2 : k % 2 ^ 64 = k := Nat.mod_eq_of_lt (by omega)
  rw [h1, h2]
  have : 2 * n < 2 ^ 64 := by omega
  have : 2 * k < 2 ^ 64 := by omega
  simp [*]

theorem rd_cons_zero (a : UInt8) (p : Bytes) : Go.rd (a :: p) 0 = a.toBitVec := by simp [Go.rd]
theorem rd_cons_succ (a : UInt8) (p : Bytes) (i : Nat) : Go.rd (a :: p) (i + 1) = Go.rd p i := by simp [Go.rd]

theorem le4 (a b c d : UInt8) :
    (BitVec.setWidth 32 a.toBitVec ||| BitVec.setWidth 32 b.toBitVec <<< 8 ||| BitVec.setWidth 32 c.toBitVec <<< 16 |||
      BitVec.setWidth 32 d.toBitVec <<< 24) = BitVec.ofNat 32 (fromLE [a, b, c, d]) := by
  apply BitVec.eq_of_toNat_eq
  have ha := a.toNat_lt; have hb := b.toNat_lt; have hc := c.toNat_lt; have hd := d.toNat_lt
  simp only [BitVec.toNat_or, BitVec.toNat_shiftLeft, BitVec.toNat_setWidth, UInt8.toNat_toBitVec, BitVec.toNat_ofNat, fromLE]
  have e1 : a.toNat % 2 ^ 32 = a.toNat := Nat.mod_eq_of_lt (by omega)
  have e2 : b.toNat % 2 ^ 32 = b.toNat := Nat.mod_eq_of_lt (by omega)
  have e3 : c.toNat % 2 ^ 32 = c.toNat := Nat.mod_eq_of_lt (by omega)
  have e4 : d.toNat % 2 ^ 32 = d.toNat := Nat.mod_eq_of_lt (by omega)
  rw [e1, e2, e3, e4]
  have s2 : (b.toNat <<< 8) % 2 ^ 32 = b.toNat <<< 8 := by rw [Nat.shiftLeft_eq]; apply Nat.mod_eq_of_lt; omega
  have s3 : (c.toNat <<< 16) % 2 ^ 32 = c.toNat <<< 16 := by rw [Nat.shiftLeft_eq]; apply Nat.mod_eq_of_lt; omega
  have s4 : (d.toNat <<< 24) % 2 ^ 32 = d.toNat <<< 24 := by rw [Nat.shiftLeft_eq]; apply Nat.mod_eq_of_lt; omega
  rw [s2, s3, s4, or_shift _ _ 8 (by omega), or_shift _ _ 16 (by omega), or_shift _ _ 24 (by omega)]
  rw [Nat.mod_eq_of_lt (by omega)]
  omega

theorem DecodeFixed32_ok (fuel : Nat) (a b c d : UInt8) (rest : Bytes) (hp : (a :: b :: c :: d :: rest).length < 2 ^ 63) :
    ∃ s, DecodeFixed32 fuel (a :: b :: c :: d :: rest) = .ret (BitVec.ofNat 32 (fromLE [a, b, c, d]), 4#64, Go.Err.nil) s := by
  have h := slt_ofNat (a :: b :: c :: d :: rest).length 4 hp (by omega)
  simp only [List.length_cons] at h hp
  have h4 : ¬ (rest.length + 1 + 1 + 1 + 1 < 4) := by omega
  unfold DecodeFixed32 DecodeFixed32.body
  simp [Go.seq, Go.skip, h, h4, rd_cons_zero, rd_cons_succ, le4]

theorem DecodeFixed32_short (fuel : Nat) (p : Bytes) (hp : p.length < 4) :
    ∃ s, DecodeFixed32 fuel p = .ret (0#32, 0#64, Go.Err.unexpectedEOF) s := by
  have h := slt_ofNat p.length 4 (by omega) (by omega)
  unfold DecodeFixed32 DecodeFixed32.body
  simp [Go.seq, Go.skip, h, hp]

set_option maxHeartbeats 1600000 in
theorem le8 (a b c d e f g h : UInt8) :
    (BitVec.setWidth 64 a.toBitVec ||| BitVec.setWidth 64 b.toBitVec <<< 8 ||| BitVec.setWidth 64 c.toBitVec <<< 16 |||
      BitVec.setWidth 64 d.toBitVec <<< 24 ||| BitVec.setWidth 64 e.toBitVec <<< 32 ||| BitVec.setWidth 64 f.toBitVec <<< 40 |||
      BitVec.setWidth 64 g.toBitVec <<< 48 ||| BitVec.setWidth 64 h.toBitVec <<< 56) = BitVec.ofNat 64 (fromLE [a, b, c, d, e, f, g, h]) := by
  apply BitVec.eq_of_toNat_eq
  have ha := a.toNat_lt; have hb := b.toNat_lt; have hc := c.toNat_lt; have hd := d.toNat_lt
  have he := e.toNat_lt; have hf := f.toNat_lt; have hg := g.toNat_lt; have hh := h.toNat_lt
  simp only [BitVec.toNat_or, BitVec.toNat_shiftLeft, BitVec.toNat_setWidth, UInt8.toNat_toBitVec, BitVec.toNat_ofNat, fromLE]
  rw [Nat.mod_eq_of_lt (show a.toNat < 2 ^ 64 by omega), Nat.mod_eq_of_lt (show b.toNat < 2 ^ 64 by omega),
    Nat.mod_eq_of_lt (show c.toNat < 2 ^ 64 by omega), Nat.mod_eq_of_lt (show d.toNat < 2 ^ 64 by omega),
    Nat.mod_eq_of_lt (show e.toNat < 2 ^ 64 by omega), Nat.mod_eq_of_lt (show f.toNat < 2 ^ 64 by omega),
    Nat.mod_eq_of_lt (show g.toNat < 2 ^ 64 by omega), Nat.mod_eq_of_lt (show h.toNat < 2 ^ 64 by omega)]
  have s2 : (b.toNat <<< 8) % 2 ^ 64 = b.toNat <<< 8 := by rw [Nat.shiftLeft_eq]; apply Nat.mod_eq_of_lt; omega
  have s3 : (c.toNat <<< 16) % 2 ^ 64 = c.toNat <<< 16 := by rw [Nat.shiftLeft_eq]; apply Nat.mod_eq_of_lt; omega
  have s4 : (d.toNat <<< 24) % 2 ^ 64 = d.toNat <<< 24 := by rw [Nat.shiftLeft_eq]; apply Nat.mod_eq_of_lt; omega
  have s5 : (e.toNat <<< 32) % 2 ^ 64 = e.toNat <<< 32 := by rw [Nat.shiftLeft_eq]; apply Nat.mod_eq_of_lt; omega
  have s6 : (f.toNat <<< 40) % 2 ^ 64 = f.toNat <<< 40 := by rw [Nat.shiftLeft_eq]; apply Nat.mod_eq_of_lt; omega
  have s7 : (g.toNat <<< 48) % 2 ^ 64 = g.toNat <<< 48 := by rw [Nat.shiftLeft_eq]; apply Nat.mod_eq_of_lt; omega
  have s8 : (h.toNat <<< 56) % 2 ^ 64 = h.toNat <<< 56 := by rw [Nat.shiftLeft_eq]; apply Nat.mod_eq_of_lt; omega
  rw [s2, s3, s4, s5, s6, s7, s8, or_shift _ _ 8 (by omega), or_shift _ _ 16 (by omega), or_shift _ _ 24 (by omega),
    or_shift _ _ 32 (by omega), or_shift _ _ 40 (by omega), or_shift _ _ 48 (by omega), or_shift _ _ 56 (by omega)]
  rw [Nat.mod_eq_of_lt (by omega)]
  omega

theorem DecodeFixed64_ok (fuel : Nat) (a b c d e f g h : UInt8) (rest : Bytes) (hp : (a :: b :: c :: d :: e :: f :: g :: h :: rest).length < 2 ^ 63) :
    ∃ s, DecodeFixed64 fuel (a :: b :: c :: d :: e :: f :: g :: h :: rest) = .ret (BitVec.ofNat 64 (fromLE [a, b, c, d, e, f, g, h]), 8#64, Go.Err.nil) s := by
  have hl := slt_ofNat (a :: b :: c :: d :: e :: f :: g :: h :: rest).length 8 hp (by omega)
  simp only [List.length_cons] at hl hp
  have h8 : ¬ (rest.length + 1 + 1 + 1 + 1 + 1 + 1 + 1 + 1 < 8) := by omega
  unfold DecodeFixed64 DecodeFixed64.body
  simp [Go.seq, Go.skip, hl, h8, rd_cons_zero, rd_cons_succ, le8]

theorem DecodeFixed64_short (fuel : Nat) (p : Bytes) (hp : p.length < 8) :
    ∃ s, DecodeFixed64 fuel p = .ret (0#64, 0#64, Go.Err.unexpectedEOF) s := by
  have h := slt_ofNat p.length 8 (by omega) (by omega)
  unfold DecodeFixed64 DecodeFixed64.body
  simp [Go.seq, Go.skip, h, hp]

/-! ## `EncodeVarint` -/

theorem byte_hi (v : BitVec 64) :
    UInt8.ofBitVec (BitVec.setWidth 8 ((v &&& 127#64) ||| 128#64)) = UInt8.ofNat (v.toNat % 128 + 128) := by
  apply UInt8.toNat_inj.mp
  have h1 : v.toNat &&& 127 = v.toNat % 128 := Nat.and_two_pow_sub_one_eq_mod v.toNat 7
  have h2 : v.toNat % 128 ||| 128 = v.toNat % 128 + 128 := by
    have := or_shift (v.toNat % 128) 1 7 (by omega)
    simpa using this
  have h3 : (UInt8.ofBitVec (BitVec.setWidth 8 ((v &&& 127#64) ||| 128#64))).toNat = ((v.toNat &&& 127) ||| 128) % 256 := by
    simp only [UInt8.toNat_ofBitVec, BitVec.toNat_setWidth, BitVec.toNat_or, BitVec.toNat_and, BitVec.toNat_ofNat]
  rw [h3, h1, h2, UInt8.toNat_ofNat']

theorem byte_lo (v : BitVec 64) (h : v.toNat < 128) :
    UInt8.ofBitVec (BitVec.setWidth 8 v) = UInt8.ofNat v.toNat := by
  apply UInt8.toNat_inj.mp
  simp

theorem set_at_length (pre : Bytes) (x y : UInt8) (t : Bytes) : (pre ++ x :: t).set pre.length y = pre ++ y :: t := by
  induction pre with
  | nil => simp
  | cons a pre ih => simp [ih]

theorem ule_128 (v : BitVec 64) : BitVec.ule 128#64 v = decide (128 ≤ v.toNat) := by
  simp [BitVec.ule]

theorem loop_succ {σ ρ : Type} (c : σ → Option Bool) (b p : σ → Go.Out σ ρ) (fuel : Nat) (s : σ) :
    Go.loop c b p (fuel + 1) s =
      match c s with
      | none => .panic
      | some false => .next s
      | some true =>
        match b s with
        | .next s1 =>
          match p s1 with
          | .next s2 => Go.loop c b p fuel s2
          | o => o
        | o => o := rfl

/-- the rest of `EncodeVarint` after the loop: the last store and the `return` -/
def encFin : EncodeVarint.St → Go.Out EncodeVarint.St EncodeVarint.R :=
  (Go.seq (fun s => if ((s.n).toNat < s.dest.length) then .next { s with dest := Go.wr s.dest (s.n).toNat (BitVec.setWidth 8 s.v) } else .panic)
    (fun s => .ret ((s.n + 1#64)) s))

theorem body_eval (fuelB : Nat) (pre : Bytes) (x : UInt8) (t : Bytes) (v n : BitVec 64) (hn : n.toNat = pre.length) :
    EncodeVarint.loop1.body fuelB { dest := pre ++ x :: t, v := v, n := n }
      = .next { dest := (pre ++ [UInt8.ofNat (v.toNat % 128 + 128)]) ++ t, v := v >>> 7, n := n + 1#64 } := by
  have h1 : pre.length < (pre ++ x :: t).length := by simp
  simp only [EncodeVarint.loop1.body, Go.seq, hn, h1, if_true, Go.wr, set_at_length, byte_hi, List.append_assoc, List.singleton_append]

theorem body_eval_nil (fuelB : Nat) (pre : Bytes) (v n : BitVec 64) (hn : n.toNat = pre.length) :
    EncodeVarint.loop1.body fuelB { dest := pre, v := v, n := n } = .panic := by
  have h1 : ¬ n.toNat < pre.length := by omega
  simp only [EncodeVarint.loop1.body, Go.seq, h1, if_false]

theorem enc_loop (fuelB : Nat) : ∀ (m : Nat) (v : BitVec 64), v.toNat = m → ∀ (pre tail : Bytes) (n : BitVec 64) (fuel : Nat),
    n.toNat = pre.length → pre.length + (encVarint m).length < 2 ^ 64 → (encVarint m).length ≤ fuel →
    ((encVarint m).length ≤ tail.length →
      ∃ s', Go.seq (Go.loop EncodeVarint.loop1.cond (EncodeVarint.loop1.body fuelB) EncodeVarint.loop1.post fuel) encFin
          { dest := pre ++ tail, v := v, n := n } = .ret (BitVec.ofNat 64 (pre.length + (encVarint m).length)) s' ∧
        s'.dest = pre ++ encVarint m ++ tail.drop (encVarint m).length) ∧
    (tail.length < (encVarint m).length →
      Go.seq (Go.loop EncodeVarint.loop1.cond (EncodeVarint.loop1.body fuelB) EncodeVarint.loop1.post fuel) encFin
          { dest := pre ++ tail, v := v, n := n } = .panic) := by
  intro m
  induction m using Nat.strongRecOn with
  | _ m ih =>
    intro v hv pre tail n fuel hn hpre hfuel
    have hlen := encVarint_length_pos m
    obtain ⟨fuel, rfl⟩ : ∃ f, fuel = f + 1 := ⟨fuel - 1, by omega⟩
    by_cases hm : m < 128
    · -- last byte
      rw [encVarint_small hm] at hfuel hpre ⊢
      simp only [List.length_singleton] at hpre
      have hc : EncodeVarint.loop1.cond { dest := pre ++ tail, v := v, n := n } = some false := by
        simp [EncodeVarint.loop1.cond, ule_128, hv]; omega
      simp only [Go.seq, loop_succ, hc, encFin, List.length_singleton]
      constructor
      · intro ht
        obtain ⟨x, t, rfl⟩ : ∃ x t, tail = x :: t := by
          cases tail with
          | nil => simp at ht
          | cons x t => exact ⟨x, t, rfl⟩
        have h1 : n.toNat < (pre ++ x :: t).length := by simp [hn]
        simp only [h1, if_true]
        refine ⟨{ dest := Go.wr (pre ++ x :: t) n.toNat (BitVec.setWidth 8 v), v := v, n := n }, ?_, ?_⟩
        · congr 1
          apply BitVec.eq_of_toNat_eq
          simp [BitVec.toNat_add, hn]
        · simp [Go.wr, hn, set_at_length, byte_lo v (by omega), hv]
      · intro ht
        have : tail = [] := by cases tail with | nil => rfl | cons _ _ => simp at ht
        subst this
        have h1 : ¬ n.toNat < pre.length := by omega
        simp [h1]
    · -- a continuation byte, then the rest
      have hbig := encVarint_big hm
      rw [hbig] at hfuel hpre ⊢
      simp only [List.length_cons] at hfuel hpre ⊢
      have hc : EncodeVarint.loop1.cond { dest := pre ++ tail, v := v, n := n } = some true := by
        simp [EncodeVarint.loop1.cond, ule_128, hv]; omega
      cases tail with
      | nil =>
        have hc' : EncodeVarint.loop1.cond { dest := pre, v := v, n := n } = some true := by simpa using hc
        constructor
        · intro ht; simp at ht
        · intro _
          simp only [List.append_nil, Go.seq, loop_succ, hc', body_eval_nil fuelB pre v n hn]
      | cons x t =>
        have hv' : (v >>> 7).toNat = m / 128 := by
          rw [BitVec.toNat_ushiftRight, hv, Nat.shiftRight_eq_div_pow]
        have hn' : (n + 1#64).toNat = (pre ++ [UInt8.ofNat (m % 128 + 128)]).length := by
          simp [BitVec.toNat_add, hn]; omega
        have hstep : Go.seq (Go.loop EncodeVarint.loop1.cond (EncodeVarint.loop1.body fuelB) EncodeVarint.loop1.post (fuel + 1)) encFin
              { dest := pre ++ x :: t, v := v, n := n }
            = Go.seq (Go.loop EncodeVarint.loop1.cond (EncodeVarint.loop1.body fuelB) EncodeVarint.loop1.post fuel) encFin
              { dest := (pre ++ [UInt8.ofNat (m % 128 + 128)]) ++ t, v := v >>> 7, n := n + 1#64 } := by
          simp only [Go.seq, loop_succ, hc, body_eval fuelB pre x t v n hn, EncodeVarint.loop1.post, Go.skip, hv]
        rw [hstep]
        have := ih (m / 128) (by omega) (v >>> 7) hv' (pre ++ [UInt8.ofNat (m % 128 + 128)]) t (n + 1#64) fuel hn'
          (by simp; omega) (by omega)
        constructor
        · intro ht
          obtain ⟨s', h1, h2⟩ := this.1 (by simp at ht; omega)
          refine ⟨s', ⟨?_, ?_⟩⟩
          · rw [h1]; congr 2; simp; omega
          · rw [h2]; simp
        · intro ht
          exact this.2 (by simp at ht; omega)

theorem EncodeVarint_unfold (fuel : Nat) (dest : Bytes) (v : BitVec 64) :
    EncodeVarint fuel dest v =
      Go.seq (Go.seq (Go.loop EncodeVarint.loop1.cond (EncodeVarint.loop1.body fuel) EncodeVarint.loop1.post fuel) encFin)
        Go.missingReturn { dest := dest, v := v, n := 0#64 } := rfl

theorem EncodeVarint_ok (fuel : Nat) (dest : Bytes) (v : BitVec 64) (hf : 10 ≤ fuel) (hd : (encVarint v.toNat).length ≤ dest.length) :
    ∃ s', EncodeVarint fuel dest v = .ret (BitVec.ofNat 64 (encVarint v.toNat).length) s' ∧
      s'.dest = encVarint v.toNat ++ dest.drop (encVarint v.toNat).length := by
  have h10 := encVarint_length_le_10 (v := v.toNat) (by rw [two64_eq]; exact v.isLt)
  have := (enc_loop fuel v.toNat v rfl [] dest 0#64 fuel (by simp) (by simp; omega) (by omega)).1 hd
  obtain ⟨s', h1, h2⟩ := this
  refine ⟨s', ?_, ?_⟩
  · rw [EncodeVarint_unfold]
    simp only [List.nil_append, List.length_nil, Nat.zero_add] at h1
    show Go.seq _ _ _ = _
    unfold Go.seq at h1 ⊢

    rw [h1]
  · simpa using h2

theorem EncodeVarint_short (fuel : Nat) (dest : Bytes) (v : BitVec 64) (hf : 10 ≤ fuel) (hd : dest.length < (encVarint v.toNat).length) :
    EncodeVarint fuel dest v = .panic := by
  have h10 := encVarint_length_le_10 (v := v.toNat) (by rw [two64_eq]; exact v.isLt)
  have := (enc_loop fuel v.toNat v rfl [] dest 0#64 fuel (by simp) (by simp; omega) (by omega)).2 hd
  rw [EncodeVarint_unfold]
  simp only [List.nil_append] at this
  unfold Go.seq at this ⊢

  rw [this]

/-! ## `DecodeVarint` -/

theorem sle_ofNat (n k : Nat) (hn : n < 2 ^ 63) (hk : k < 2 ^ 63) :
    (BitVec.ofNat 64 n).sle (BitVec.ofNat 64 k) = decide (n ≤ k) := by
  simp only [BitVec.sle, BitVec.toInt_eq_toNat_cond, BitVec.toNat_ofNat]
  have h1 : n % 2 ^ 64 = n := Nat.mod_eq_of_lt (by omega)
  have h2 : k % 2 ^ 64 = k := Nat.mod_eq_of_lt (by omega)
  rw [h1, h2]
  have : 2 * n < 2 ^ 64 := by omega
  have : 2 * k < 2 ^ 64 := by omega
  simp [*]

theorem ult_ofNat (n k : Nat) (hn : n < 2 ^ 64) (hk : k < 2 ^ 64) :
    (BitVec.ofNat 64 n).ult (BitVec.ofNat 64 k) = decide (n < k) := by
  simp [BitVec.ult, Nat.mod_eq_of_lt hn, Nat.mod_eq_of_lt hk]

theorem ofNat_succ (k : Nat) : BitVec.ofNat 64 k + 1#64 = BitVec.ofNat 64 (k + 1) := by
  apply BitVec.eq_of_toNat_eq; simp [BitVec.toNat_add]

theorem ofNat_add7 (k : Nat) : BitVec.ofNat 64 k + 7#64 = BitVec.ofNat 64 (k + 7) := by
  apply BitVec.eq_of_toNat_eq; simp [BitVec.toNat_add]

theorem and128 : ∀ x : Fin 256, (x.val &&& 128 = 0) = (x.val < 128) := by decide +kernel

/-- what a run of `DecodeVarint` amounts to in the vocabulary of the model -/
def toRes : Go.Out DecodeVarint.St DecodeVarint.R → Res (Nat × Nat)
  | .ret (v, n, .nil) _ => .ok (v.toNat, n.toNat)
  | .ret _ _ => .err
  | _ => .panic

/-- the accumulator update of both loops -/
theorem acc_step (v : BitVec 64) (bt : UInt8) (sh : Nat) (hsh : sh < 2 ^ 64) :
    (v ||| ((BitVec.setWidth 64 bt.toBitVec &&& 127#64) <<< (BitVec.ofNat 64 sh).toNat)).toNat
      = v.toNat ||| (((bt.toNat % 128) <<< sh) % two64) := by
  have h1 : bt.toNat &&& 127 = bt.toNat % 128 := Nat.and_two_pow_sub_one_eq_mod bt.toNat 7
  have hb := bt.toNat_lt
  simp only [BitVec.toNat_or, BitVec.toNat_shiftLeft, BitVec.toNat_and, BitVec.toNat_setWidth, UInt8.toNat_toBitVec,
    BitVec.toNat_ofNat, Nat.mod_eq_of_lt hsh, two64_eq]
  rw [Nat.mod_eq_of_lt (show bt.toNat < 2 ^ 64 by omega)]
  rw [show (127 % 2 ^ 64) = 127 by decide, h1]

theorem stop_bit (bt : UInt8) : ((BitVec.setWidth 64 bt.toBitVec &&& 128#64) == 0#64) = decide (bt.toNat < 128) := by
  have hb := bt.toNat_lt
  have h := and128 ⟨bt.toNat, hb⟩
  simp only at h
  have : (BitVec.setWidth 64 bt.toBitVec &&& 128#64).toNat = bt.toNat &&& 128 := by
    simp only [BitVec.toNat_and, BitVec.toNat_setWidth, UInt8.toNat_toBitVec, BitVec.toNat_ofNat]
    rw [Nat.mod_eq_of_lt (show bt.toNat < 2 ^ 64 by omega)]
  by_cases hlt : bt.toNat < 128
  · have h0 : bt.toNat &&& 128 = 0 := by rw [h]; exact hlt
    have : BitVec.setWidth 64 bt.toBitVec &&& 128#64 = 0#64 := by
      apply BitVec.eq_of_toNat_eq; rw [this, h0]; rfl
    simp [this, hlt]
  · have h0 : ¬ (bt.toNat &&& 128 = 0) := by rw [h]; exact hlt
    have : ¬ (BitVec.setWidth 64 bt.toBitVec &&& 128#64 = 0#64) := by
      intro hc; apply h0; rw [← this, hc]; rfl
    simp [this, hlt]

theorem rd_drop (p : Bytes) (k : Nat) (bt : UInt8) (rest : Bytes) (h : p.drop k = bt :: rest) : Go.rd p k = bt.toBitVec := by
  have : p[k]? = some bt := by
    have := congrArg (fun l => l[0]?) h
    simpa using this
  simp [Go.rd, List.getD, this]

def ovf : DecodeVarint.St → Go.Out DecodeVarint.St DecodeVarint.R := (fun s => .ret (0#64, 0#64, Go.Err.overflow) s)

abbrev St1 (p : Bytes) (v : BitVec 64) (k : Nat) (e : Go.Err) (sh : Nat) (b i : BitVec 64) : DecodeVarint.St :=
  { p := p, v := v, n := BitVec.ofNat 64 k, err := e, shift := BitVec.ofNat 64 sh, b := b, i := i }

theorem body1_eof (fB : Nat) (p : Bytes) (hp : p.length < 2 ^ 63) (v : BitVec 64) (k : Nat) (hk : k ≤ 10) (e : Go.Err) (sh : Nat) (b i : BitVec 64)
    (hlen : p.length ≤ k) :
    DecodeVarint.loop1.body fB (St1 p v k e sh b i) = .ret (0#64, 0#64, Go.Err.unexpectedEOF) (St1 p v k e sh b i) := by
  have hsle := sle_ofNat p.length k hp (by omega)
  simp [DecodeVarint.loop1.body, Go.seq, St1, hsle, hlen]

theorem body1_byte (fB : Nat) (p : Bytes) (hp : p.length < 2 ^ 63) (v : BitVec 64) (k : Nat) (hk : k ≤ 10) (e : Go.Err) (sh : Nat) (b i : BitVec 64)
    (bt : UInt8) (rest : Bytes) (hd : p.drop k = bt :: rest) :
    DecodeVarint.loop1.body fB (St1 p v k e sh b i) =
      if bt.toNat < 128 then
        .ret (v ||| ((BitVec.setWidth 64 bt.toBitVec &&& 127#64) <<< (BitVec.ofNat 64 sh).toNat), BitVec.ofNat 64 (k + 1), Go.Err.nil)
          (St1 p (v ||| ((BitVec.setWidth 64 bt.toBitVec &&& 127#64) <<< (BitVec.ofNat 64 sh).toNat)) (k + 1) e sh (BitVec.setWidth 64 bt.toBitVec) i)
      else
        .next (St1 p (v ||| ((BitVec.setWidth 64 bt.toBitVec &&& 127#64) <<< (BitVec.ofNat 64 sh).toNat)) (k + 1) e sh (BitVec.setWidth 64 bt.toBitVec) i) := by
  have hklt : k < p.length := by
    have : k < p.length ∨ p.length ≤ k := by omega
    rcases this with h | h
    · exact h
    · rw [List.drop_eq_nil_of_le h] at hd; cases hd
  have hsle := sle_ofNat p.length k hp (by omega)
  have hrd := rd_drop p k bt rest hd
  have hk' : (BitVec.ofNat 64 k).toNat = k := by simp; omega
  have hnle : ¬ p.length ≤ k := by omega
  have hstop := stop_bit bt
  by_cases hb : bt.toNat < 128
  · simp [DecodeVarint.loop1.body, Go.seq, Go.skip, St1, hsle, hnle, hk', hklt, hrd, hstop, hb, ofNat_succ]
  · simp [DecodeVarint.loop1.body, Go.seq, Go.skip, St1, hsle, hnle, hk', hklt, hrd, hstop, hb, ofNat_succ]

/-- first loop (`len(p) < 10`): from byte `k` on it computes what the model's loop computes -/
theorem loop1_eq (fuelB : Nat) (p : Bytes) (hp : p.length < 2 ^ 63) : ∀ (d k : Nat), k + d = 10 → ∀ (v : BitVec 64) (e : Go.Err) (b i : BitVec 64) (fuel : Nat),
    d + 1 ≤ fuel →
    toRes (Go.seq (Go.loop DecodeVarint.loop1.cond (DecodeVarint.loop1.body fuelB) DecodeVarint.loop1.post fuel) ovf
        (St1 p v k e (7 * k) b i))
      = (match decVarintLoop d (7 * k) v.toNat k (p.drop k) with | .ok r => .ok r | _ => .err) := by
  intro d
  induction d with
  | zero =>
    intro k hk v e b i fuel hf
    obtain ⟨fuel, rfl⟩ : ∃ f, fuel = f + 1 := ⟨fuel - 1, by omega⟩
    have hc : DecodeVarint.loop1.cond (St1 p v k e (7 * k) b i) = some false := by
      have := ult_ofNat (7 * k) 64 (by omega) (by omega)
      simp only [DecodeVarint.loop1.cond, St1, show (64#64 : BitVec 64) = BitVec.ofNat 64 64 from rfl, this]
      simp; omega
    simp only [Go.seq, loop_succ, hc, ovf, toRes, decVarintLoop]
  | succ d ih =>
    intro k hk v e b i fuel hf
    obtain ⟨fuel, rfl⟩ : ∃ f, fuel = f + 1 := ⟨fuel - 1, by omega⟩
    have hc : DecodeVarint.loop1.cond (St1 p v k e (7 * k) b i) = some true := by
      have := ult_ofNat (7 * k) 64 (by omega) (by omega)
      simp only [DecodeVarint.loop1.cond, St1, show (64#64 : BitVec 64) = BitVec.ofNat 64 64 from rfl, this]
      simp; omega
    by_cases hlen : p.length ≤ k
    · have hd : p.drop k = [] := List.drop_eq_nil_of_le hlen
      simp only [Go.seq, loop_succ, hc, body1_eof fuelB p hp v k (by omega) e (7 * k) b i hlen, toRes, hd, decVarintLoop]
    · obtain ⟨bt, rest, hd⟩ : ∃ bt rest, p.drop k = bt :: rest := by
        cases h : p.drop k with
        | nil => exact absurd (List.drop_eq_nil_iff.mp h) hlen
        | cons a t => exact ⟨a, t, rfl⟩
      have hacc := acc_step v bt (7 * k) (by omega)
      have hrest : p.drop (k + 1) = rest := by
        have := congrArg (List.drop 1) hd
        simpa [List.drop_drop, Nat.add_comm] using this
      have hbody := body1_byte fuelB p hp v k (by omega) e (7 * k) b i bt rest hd
      by_cases hb : bt.toNat < 128
      · simp only [hb, if_true] at hbody
        simp only [Go.seq, loop_succ, hc, hbody, toRes, hd, decVarintLoop, hacc, hb, if_true]
        congr 2
        simp; omega
      · simp only [hb, if_false] at hbody
        have hpost : DecodeVarint.loop1.post (St1 p (v ||| ((BitVec.setWidth 64 bt.toBitVec &&& 127#64) <<< (BitVec.ofNat 64 (7 * k)).toNat)) (k + 1) e (7 * k) (BitVec.setWidth 64 bt.toBitVec) i)
            = .next (St1 p (v ||| ((BitVec.setWidth 64 bt.toBitVec &&& 127#64) <<< (BitVec.ofNat 64 (7 * k)).toNat)) (k + 1) e (7 * (k + 1)) (BitVec.setWidth 64 bt.toBitVec) i) := by
          simp only [DecodeVarint.loop1.post, St1, ofNat_add7, show 7 * (k + 1) = 7 * k + 7 by omega]
        have hnext := ih (k + 1) (by omega) (v ||| ((BitVec.setWidth 64 bt.toBitVec &&& 127#64) <<< (BitVec.ofNat 64 (7 * k)).toNat)) e
          (BitVec.setWidth 64 bt.toBitVec) i fuel (by omega)
        rw [hacc, hrest] at hnext
        simp only [Go.seq, loop_succ, hc, hbody, hpost, hd, decVarintLoop, hb, if_false] at hnext ⊢
        rw [show 7 * k + 7 = 7 * (k + 1) by omega]
        exact hnext

abbrev St2 (p : Bytes) (v : BitVec 64) (n : BitVec 64) (e : Go.Err) (k : Nat) (b : BitVec 64) : DecodeVarint.St :=
  { p := p, v := v, n := n, err := e, shift := BitVec.ofNat 64 (7 * k), b := b, i := BitVec.ofNat 64 k }

theorem body2_byte (fB : Nat) (p : Bytes) (v n : BitVec 64) (k : Nat) (hk : k ≤ 10) (e : Go.Err) (b : BitVec 64)
    (bt : UInt8) (rest : Bytes) (hd : p.drop k = bt :: rest) :
    DecodeVarint.loop2.body fB (St2 p v n e k b) =
      if bt.toNat < 128 then
        .ret (v ||| ((BitVec.setWidth 64 bt.toBitVec &&& 127#64) <<< (BitVec.ofNat 64 (7 * k)).toNat), BitVec.ofNat 64 (k + 1), Go.Err.nil)
          (St2 p (v ||| ((BitVec.setWidth 64 bt.toBitVec &&& 127#64) <<< (BitVec.ofNat 64 (7 * k)).toNat)) n e k (BitVec.setWidth 64 bt.toBitVec))
      else
        .next (St2 p (v ||| ((BitVec.setWidth 64 bt.toBitVec &&& 127#64) <<< (BitVec.ofNat 64 (7 * k)).toNat)) n e k (BitVec.setWidth 64 bt.toBitVec)) := by
  have hklt : k < p.length := by
    have : k < p.length ∨ p.length ≤ k := by omega
    rcases this with h | h
    · exact h
    · rw [List.drop_eq_nil_of_le h] at hd; cases hd
  have hrd := rd_drop p k bt rest hd
  have hk' : (BitVec.ofNat 64 k).toNat = k := by simp; omega
  have hstop := stop_bit bt
  by_cases hb : bt.toNat < 128
  · simp [DecodeVarint.loop2.body, Go.seq, Go.skip, St2, hk', hklt, hrd, hstop, hb, ofNat_succ]
  · simp [DecodeVarint.loop2.body, Go.seq, Go.skip, St2, hk', hklt, hrd, hstop, hb, ofNat_succ]

/-- second loop (`len(p) >= 10`) -/
theorem loop2_eq (fuelB : Nat) (p : Bytes) (hp10 : 10 ≤ p.length) : ∀ (d k : Nat), k + d = 10 → ∀ (v n : BitVec 64) (e : Go.Err) (b : BitVec 64) (fuel : Nat),
    d + 1 ≤ fuel →
    toRes (Go.seq (Go.loop DecodeVarint.loop2.cond (DecodeVarint.loop2.body fuelB) DecodeVarint.loop2.post fuel) ovf
        (St2 p v n e k b))
      = (match decVarintLoop d (7 * k) v.toNat k (p.drop k) with | .ok r => .ok r | _ => .err) := by
  intro d
  induction d with
  | zero =>
    intro k hk v n e b fuel hf
    obtain ⟨fuel, rfl⟩ : ∃ f, fuel = f + 1 := ⟨fuel - 1, by omega⟩
    have hc : DecodeVarint.loop2.cond (St2 p v n e k b) = some false := by
      have := slt_ofNat k 10 (by omega) (by omega)
      simp only [DecodeVarint.loop2.cond, St2, show (10#64 : BitVec 64) = BitVec.ofNat 64 10 from rfl, this]
      simp; omega
    simp only [Go.seq, loop_succ, hc, ovf, toRes, decVarintLoop]
  | succ d ih =>
    intro k hk v n e b fuel hf
    obtain ⟨fuel, rfl⟩ : ∃ f, fuel = f + 1 := ⟨fuel - 1, by omega⟩
    have hc : DecodeVarint.loop2.cond (St2 p v n e k b) = some true := by
      have := slt_ofNat k 10 (by omega) (by omega)
      simp only [DecodeVarint.loop2.cond, St2, show (10#64 : BitVec 64) = BitVec.ofNat 64 10 from rfl, this]
      simp; omega
    obtain ⟨bt, rest, hd⟩ : ∃ bt rest, p.drop k = bt :: rest := by
      cases h : p.drop k with
      | nil => have := List.drop_eq_nil_iff.mp h; omega
      | cons a t => exact ⟨a, t, rfl⟩
    have hacc := acc_step v bt (7 * k) (by omega)
    have hrest : p.drop (k + 1) = rest := by
      have := congrArg (List.drop 1) hd
      simpa [List.drop_drop, Nat.add_comm] using this
    have hbody := body2_byte fuelB p v n k (by omega) e b bt rest hd
    by_cases hb : bt.toNat < 128
    · simp only [hb, if_true] at hbody
      simp only [Go.seq, loop_succ, hc, hbody, toRes, hd, decVarintLoop, hacc, hb, if_true]
      congr 2
      simp; omega
    · simp only [hb, if_false] at hbody
      have hpost : DecodeVarint.loop2.post (St2 p (v ||| ((BitVec.setWidth 64 bt.toBitVec &&& 127#64) <<< (BitVec.ofNat 64 (7 * k)).toNat)) n e k (BitVec.setWidth 64 bt.toBitVec))
          = .next (St2 p (v ||| ((BitVec.setWidth 64 bt.toBitVec &&& 127#64) <<< (BitVec.ofNat 64 (7 * k)).toNat)) n e (k + 1) (BitVec.setWidth 64 bt.toBitVec)) := by
        simp only [DecodeVarint.loop2.post, St2, ofNat_add7, ofNat_succ, show 7 * (k + 1) = 7 * k + 7 by omega]
      have hnext := ih (k + 1) (by omega) (v ||| ((BitVec.setWidth 64 bt.toBitVec &&& 127#64) <<< (BitVec.ofNat 64 (7 * k)).toNat)) n e
        (BitVec.setWidth 64 bt.toBitVec) fuel (by omega)
      rw [hacc, hrest] at hnext
      simp only [Go.seq, loop_succ, hc, hbody, hpost, hd, decVarintLoop, hb, if_false] at hnext ⊢
      rw [show 7 * k + 7 = 7 * (k + 1) by omega]
      exact hnext

def dvA : DecodeVarint.St → Go.Out DecodeVarint.St DecodeVarint.R :=
  (fun s => if ((BitVec.ofNat 64 s.p.length) == 0#64) then (fun s => .ret (0#64, 0#64, Go.Err.invalidVarint) s) s else Go.skip s)
def dvB : DecodeVarint.St → Go.Out DecodeVarint.St DecodeVarint.R :=
  (fun s => if ((0#64).toNat < s.p.length) then if (BitVec.ult (Go.rd s.p (0#64).toNat) 128#8) then (fun s => if ((0#64).toNat < s.p.length) then .ret ((BitVec.setWidth 64 (Go.rd s.p (0#64).toNat)), 1#64, Go.Err.nil) s else .panic) s else Go.skip s else .panic)
def dvC (fuel : Nat) : DecodeVarint.St → Go.Out DecodeVarint.St DecodeVarint.R :=
  (fun s => if (BitVec.slt (BitVec.ofNat 64 s.p.length) 10#64) then (Go.seq (Go.seq (fun s => .next { s with shift := 0#64 }) (Go.loop DecodeVarint.loop1.cond (DecodeVarint.loop1.body fuel) DecodeVarint.loop1.post fuel))
    ovf) s else Go.skip s)
def dvD : DecodeVarint.St → Go.Out DecodeVarint.St DecodeVarint.R :=
  (fun s => if ((0#64).toNat < s.p.length) then .next { s with v := (BitVec.setWidth 64 ((Go.rd s.p (0#64).toNat) &&& 127#8)) } else .panic)
def dvE (fuel : Nat) : DecodeVarint.St → Go.Out DecodeVarint.St DecodeVarint.R :=
  (Go.seq (Go.seq (fun s => .next { s with i := 1#64, shift := 7#64 }) (Go.loop DecodeVarint.loop2.cond (DecodeVarint.loop2.body fuel) DecodeVarint.loop2.post fuel))
    ovf)

/-- the shape of the translated body (fails to elaborate when the source function is restructured) -/
theorem DecodeVarint_unfold (fuel : Nat) (p : Bytes) :
    DecodeVarint fuel p = Go.seq (Go.seq dvA (Go.seq dvB (Go.seq (dvC fuel) (Go.seq dvD (dvE fuel))))) Go.missingReturn { p := p } := rfl

/-- **`DecodeVarint` of the source = `decodeVarint` of the model**, for every input a Go slice can hold -/
theorem DecodeVarint_eq (fuel : Nat) (hf : 11 ≤ fuel) (p : Bytes) (hp : p.length < 2 ^ 63) :
    toRes (DecodeVarint fuel p) = (match decodeVarint p with | .ok r => .ok r | _ => .err) := by
  rw [DecodeVarint_unfold]
  cases p with
  | nil =>
    have hA : dvA { p := [] } = .ret (0#64, 0#64, Go.Err.invalidVarint) { p := [] } := by simp [dvA]
    simp only [Go.seq, hA, toRes, decodeVarint]
  | cons b0 rest =>
    have hA : dvA { p := b0 :: rest } = .next { p := b0 :: rest } := by
      have : ¬ (BitVec.ofNat 64 (b0 :: rest).length = 0#64) := by
        intro h
        have := congrArg BitVec.toNat h
        simp at this hp; omega
      simp only [List.length_cons] at this
      simp [dvA, Go.skip, this]
    by_cases hb : b0.toNat < 128
    · have hB : dvB { p := b0 :: rest } = .ret (BitVec.setWidth 64 b0.toBitVec, 1#64, Go.Err.nil) { p := b0 :: rest } := by
        simp [dvB, Go.rd, BitVec.ult, hb]
      have : (BitVec.setWidth 64 b0.toBitVec).toNat = b0.toNat := by
        have := b0.toNat_lt
        simp
      simp only [Go.seq, hA, hB, toRes, decodeVarint, hb, if_true, this]
      rfl
    · have hB : dvB { p := b0 :: rest } = .next { p := b0 :: rest } := by
        have : ¬ (b0.toNat < 128) := hb
        simp [dvB, Go.rd, BitVec.ult, Go.skip, this]
      have hslt := slt_ofNat (b0 :: rest).length 10 hp (by omega)
      by_cases h10 : (b0 :: rest).length < 10
      · have h1 := loop1_eq fuel (b0 :: rest) hp 10 0 (by omega) 0#64 Go.Err.nil 0#64 0#64 fuel (by omega)
        simp only [List.drop_zero, Nat.mul_zero, BitVec.toNat_ofNat, Nat.zero_mod] at h1
        have hC : dvC fuel { p := b0 :: rest } =
            Go.seq (Go.loop DecodeVarint.loop1.cond (DecodeVarint.loop1.body fuel) DecodeVarint.loop1.post fuel) ovf (St1 (b0 :: rest) 0#64 0 Go.Err.nil 0 0#64 0#64) := by
          simp only [dvC, show (10#64 : BitVec 64) = BitVec.ofNat 64 10 from rfl, hslt, h10, decide_true, if_true, Go.seq, St1]
        simp only [decodeVarint, hb, if_false]
        rw [← h1]
        simp only [Go.seq, hA, hB, hC]
        cases hx : Go.loop DecodeVarint.loop1.cond (DecodeVarint.loop1.body fuel) DecodeVarint.loop1.post fuel (St1 (b0 :: rest) 0#64 0 Go.Err.nil 0 0#64 0#64) <;> simp [ovf, toRes]
      · -- ten bytes or more: the first byte by hand, then bytes 2..10
        have h10' : 10 ≤ (b0 :: rest).length := by omega
        have hC : dvC fuel { p := b0 :: rest } = .next { p := b0 :: rest } := by
          simp only [dvC, show (10#64 : BitVec 64) = BitVec.ofNat 64 10 from rfl, hslt, h10, decide_false, Go.skip]
          simp
        have hD : dvD { p := b0 :: rest } = .next { p := b0 :: rest, v := BitVec.setWidth 64 (b0.toBitVec &&& 127#8) } := by
          simp [dvD, Go.rd]
        have hv0 : (BitVec.setWidth 64 (b0.toBitVec &&& 127#8)).toNat = b0.toNat % 128 := by
          have h1 : b0.toNat &&& 127 = b0.toNat % 128 := Nat.and_two_pow_sub_one_eq_mod b0.toNat 7
          have := b0.toNat_lt
          simp only [BitVec.toNat_setWidth, BitVec.toNat_and, UInt8.toNat_toBitVec, BitVec.toNat_ofNat]
          rw [show (127 % 2 ^ 8) = 127 by decide, h1]
          omega
        have h2 := loop2_eq fuel (b0 :: rest) h10' 9 1 (by omega) (BitVec.setWidth 64 (b0.toBitVec &&& 127#8)) 0#64 Go.Err.nil 0#64 fuel (by omega)
        have hE : dvE fuel { p := b0 :: rest, v := BitVec.setWidth 64 (b0.toBitVec &&& 127#8) } =
            Go.seq (Go.loop DecodeVarint.loop2.cond (DecodeVarint.loop2.body fuel) DecodeVarint.loop2.post fuel) ovf
              (St2 (b0 :: rest) (BitVec.setWidth 64 (b0.toBitVec &&& 127#8)) 0#64 Go.Err.nil 1 0#64) := by
          simp only [dvE, Go.seq, St2]
        have hmodel : decodeVarint (b0 :: rest) = decVarintLoop 9 7 (b0.toNat % 128) 1 rest := by
          have e : (0 ||| ((b0.toNat % 128) <<< 0) % two64) = b0.toNat % 128 := by
            rw [two64_eq, Nat.zero_or, Nat.shiftLeft_zero]
            exact Nat.mod_eq_of_lt (by omega)
          simp only [decodeVarint, hb, if_false, decVarintLoop, e, Nat.zero_add]
        rw [hmodel]
        rw [hv0] at h2
        simp only [List.drop_one, List.tail_cons, Nat.mul_one] at h2
        rw [← h2]
        simp only [Go.seq, hA, hB, hC, hD, hE]
        cases hx : Go.loop DecodeVarint.loop2.cond (DecodeVarint.loop2.body fuel) DecodeVarint.loop2.post fuel (St2 (b0 :: rest) (BitVec.setWidth 64 (b0.toBitVec &&& 127#8)) 0#64 Go.Err.nil 1 0#64) <;> simp [ovf, toRes]

/-! ## end to end, on the translated source alone -/

/-- **the source's `EncodeVarint` followed by the source's `DecodeVarint` is the identity**: for every 64-bit value and
    every destination buffer with room (whatever it held before), running the TRANSLATION of `EncodeVarint` and then the
    TRANSLATION of `DecodeVarint` on the buffer returns the value and the number of bytes written.  No model function
    occurs in the statement: it is a theorem about the two Go functions as they are in `/repo` now. -/
theorem translated_varint_roundtrip (fuel : Nat) (hf : 11 ≤ fuel) (v : BitVec 64) (dest : Bytes)
    (hroom : 10 ≤ dest.length) (hlen : dest.length < 2 ^ 63) :
    ∃ n s', EncodeVarint fuel dest v = .ret n s' ∧ s'.dest.length = dest.length ∧
      toRes (DecodeVarint fuel s'.dest) = .ok (v.toNat, n.toNat) := by
  have h10 := encVarint_length_le_10 (v := v.toNat) (by rw [two64_eq]; exact v.isLt)
  obtain ⟨s', h1, h2⟩ := EncodeVarint_ok fuel dest v (by omega) (by omega)
  refine ⟨_, s', h1, ?_, ?_⟩
  · rw [h2]; simp; omega
  · have hl : s'.dest.length < 2 ^ 63 := by rw [h2]; simp; omega
    rw [DecodeVarint_eq fuel hf s'.dest hl, h2, decodeVarint_encVarint v.toNat (by rw [two64_eq]; exact v.isLt)]
    simp
    omega

end Csproto.Bridge.WireFuncs
