import Csproto.Bridge.DecoderFuncs
/-
  Bridge for the TRANSLATED `(*Decoder).Skip` (decoder.go): `Generated/WireFuncs.lean` holds its body, one definition per
  top-level statement (`Decoder_Skip.s1 … s11`).  `Skip_refines`: for every buffer, in-range cursor, remembered key span
  inside the buffer, mode, expected field number and wire type, the translated method and `Dec.step (.skip tag wt)` of the
  hand-written transition system agree on acceptance, on the returned slice (the field from where its key starts —
  `keyStart` when Skip directly follows the DecodeTag that read the key, `offset - SizeOfTagKey(tag)` clamped at 0
  otherwise — up to the end of its payload) and on the new cursor; the method never panics and never diverges.
-/
set_option linter.unusedSimpArgs false
set_option linter.unusedVariables false
namespace Csproto.Bridge.SkipFuncs
open Csproto Csproto.Generated Csproto.Generated.WireFuncs Csproto.Bridge Csproto.Bridge.WireFuncs Csproto.Bridge.DecoderFuncs

abbrev SS := Decoder_Skip.St

/-- a state of `Skip` with every field explicit -/
def G (p : Bytes) (off mode ks ke tag wt sz bof v n : BitVec 64) (err : Go.Err) (tt tw skipped l : BitVec 64) : SS :=
  { d_p := p, d_offset := off, d_mode := mode, d_keyStart := ks, d_keyEnd := ke, tag := tag, wt := wt, sz := sz, bof := bof,
    v := v, n := n, err := err, thisTag := tt, thisWireType := tw, skipped := skipped, l := l }

theorem sizeOfTagKey_bounds (k : Nat) : 1 ≤ sizeOfTagKey k ∧ sizeOfTagKey k ≤ 10 := by
  unfold sizeOfTagKey
  have hlt : (k <<< 3) % two64 < two64 := Nat.mod_lt _ (by unfold two64; omega)
  rw [sizeOfVarint_eq_length]
  exact ⟨encVarint_length_pos _, encVarint_length_le_10 hlt⟩

/-- the start of the field as statements 2–5 compute it, against the model's `bof` -/
def modelBof (off ks ke sz : Nat) : Nat := if ke = off ∧ ke > ks then ks else off - sz

theorem sub_small (off sz : BitVec 64) (ho : off.toNat < 2 ^ 62) (hs : sz.toNat ≤ 10) :
    BitVec.slt (off - sz) 0#64 = decide (off.toNat < sz.toNat) ∧
    (¬ off.toNat < sz.toNat → (off - sz).toNat = off.toNat - sz.toNat) := by
  have hsub : (off - sz).toNat = (2 ^ 64 - sz.toNat + off.toNat) % 2 ^ 64 := by simp [BitVec.toNat_sub]
  constructor
  · simp only [BitVec.slt, BitVec.toInt_eq_toNat_cond, hsub]
    by_cases h : off.toNat < sz.toNat
    · have : (2 ^ 64 - sz.toNat + off.toNat) % 2 ^ 64 = 2 ^ 64 - sz.toNat + off.toNat := Nat.mod_eq_of_lt (by omega)
      rw [this]; simp [h]; omega
    · have : (2 ^ 64 - sz.toNat + off.toNat) % 2 ^ 64 = off.toNat - sz.toNat := by omega
      rw [this]; simp [h]; omega
  · intro h; rw [hsub]; omega

theorem key_cond (off ks ke : BitVec 64) (hks : ks.toNat < 2 ^ 63) (hke : ke.toNat < 2 ^ 63) :
    (ke = off ∧ BitVec.slt ks ke = true) ↔ (ke.toNat = off.toNat ∧ ke.toNat > ks.toNat) := by
  have h2 : BitVec.slt ks ke = decide (ks.toNat < ke.toNat) := by
    have := slt_ofNat ks.toNat ke.toNat hks hke
    rw [← off_eq ks, ← off_eq ke] at this; exact this
  rw [h2]
  constructor
  · rintro ⟨h, hb⟩; subst h; simp at hb; exact ⟨rfl, hb⟩
  · rintro ⟨h, hb⟩; exact ⟨BitVec.eq_of_toNat_eq h, by simp; omega⟩

/-- statements 2–5: `sz`, and `bof` = the model's start of the field -/
theorem prefix_eval (fuel : Nat) (p : Bytes) (off mode ks ke tag wt : BitVec 64)
    (hp : p.length < 2 ^ 62) (hoff : off.toNat ≤ p.length) (hks : ks.toNat ≤ p.length) (hke : ke.toNat ≤ p.length)
    (K : SS → Go.Out SS Decoder_Skip.R) :
    ∃ bof : BitVec 64, bof.toNat = modelBof off.toNat ks.toNat ke.toNat (sizeOfTagKey tag.toNat) ∧ bof.toNat ≤ off.toNat ∧
      Go.seq (Decoder_Skip.s2 fuel) (Go.seq (Decoder_Skip.s3 fuel) (Go.seq (Decoder_Skip.s4 fuel) (Go.seq (Decoder_Skip.s5 fuel) K)))
        (G p off mode ks ke tag wt 0#64 0#64 0#64 0#64 .nil 0#64 0#64 0#64 0#64) =
      K (G p off mode ks ke tag wt (SizeOfTagKey tag) bof 0#64 0#64 .nil 0#64 0#64 0#64 0#64) := by
  have hsz := sizeOfTagKey_src tag
  have hb := sizeOfTagKey_bounds tag.toNat
  obtain ⟨hslt, hsub⟩ := sub_small off (SizeOfTagKey tag) (by omega) (by rw [hsz]; exact hb.2)
  have hkc := key_cond off ks ke (by omega) (by omega)
  simp only [Go.seq, Decoder_Skip.s2, Decoder_Skip.s3, Decoder_Skip.s4, Decoder_Skip.s5, G, Go.skip, hslt, Bool.and_eq_true, beq_iff_eq, hkc]
  unfold modelBof
  by_cases hk : ke.toNat = off.toNat ∧ ke.toNat > ks.toNat
  · have hkp : ke = off ∧ ks.slt ke = true := hkc.mpr hk
    refine ⟨ks, by rw [if_pos hk], by omega, ?_⟩
    by_cases hc : off.toNat < (SizeOfTagKey tag).toNat
    · simp only [hc, decide_true, if_true, if_pos hkp]
    · simp only [hc, decide_false, Bool.false_eq_true, if_false, if_pos hkp]
  · have hkn : ¬ (ke = off ∧ ks.slt ke = true) := fun h => hk (hkc.mp h)
    by_cases hc : off.toNat < (SizeOfTagKey tag).toNat
    · refine ⟨0#64, by rw [if_neg hk]; simp; omega, by simp, ?_⟩
      simp only [hc, decide_true, if_true, if_neg hkn]
    · refine ⟨off - SizeOfTagKey tag, by rw [if_neg hk, hsub hc, hsz], by rw [hsub hc]; omega, ?_⟩
      simp only [hc, decide_false, Bool.false_eq_true, if_false, if_neg hkn]

theorem bne_iff (a b : BitVec 64) : (a != b) = decide (a.toNat ≠ b.toNat) := by
  by_cases h : a = b
  · subst h; simp
  · have : a.toNat ≠ b.toNat := fun h' => h (BitVec.eq_of_toNat_eq h')
    simp [h, this]

theorem mode_fast (mode : BitVec 64) : (mode != 0#64) = !(mode == 0#64) := by simp [bne]

/-- statement 6: the safe-mode re-read of the key at `bof` -/
theorem check_eval (fuel : Nat) (hf : 11 ≤ fuel) (p : Bytes) (off mode ks ke tag wt sz bof v0 n0 : BitVec 64) (e0 : Go.Err)
    (tt0 tw0 sk0 l0 : BitVec 64) (hp : p.length < 2 ^ 62) (hb : bof.toNat ≤ p.length) :
    match (decOf p off ks ke (mode != 0#64)).skipCheck tag.toNat wt.toNat bof.toNat sz.toNat with
    | .ok () => ∃ v n e tt tw, Decoder_Skip.s6 fuel (G p off mode ks ke tag wt sz bof v0 n0 e0 tt0 tw0 sk0 l0) =
        .next (G p off mode ks ke tag wt sz bof v n e tt tw sk0 l0)
    | .err => ∃ e s', Decoder_Skip.s6 fuel (G p off mode ks ke tag wt sz bof v0 n0 e0 tt0 tw0 sk0 l0) = .ret ([], e) s' ∧
        e ≠ .nil ∧ s'.d_p = p ∧ s'.d_offset = off ∧ s'.d_mode = mode ∧ s'.d_keyStart = ks ∧ s'.d_keyEnd = ke
    | .panic => False := by
  unfold Dec.skipCheck Decoder_Skip.s6
  simp only [decOf, G, sliceFrom, hb, if_true]
  by_cases hm : mode = 0#64
  · subst hm
    obtain ⟨v, n, e, c, hd, hcase⟩ := call_varint fuel hf (p.drop bof.toNat) (drop_len p _ (by omega))
    simp only [Go.seq, Go.skip, hd, hb, if_true, bne_self_eq_false, Bool.false_eq_true, if_false, beq_self_eq_true]
    rcases hcase with ⟨he, hmv, hpos, hle⟩ | ⟨he, hmv⟩
    · subst he
      simp only [hmv, bne_self_eq_false, Bool.false_eq_true, if_false, bne_iff]
      by_cases hn : n.toNat ≠ sz.toNat
      · simp [hn]
        exact ⟨_, _, ⟨rfl, rfl⟩, by simp, rfl, rfl, rfl, rfl, rfl⟩
      · have hsh : (v >>> 3).toNat = v.toNat >>> 3 := by simp [BitVec.toNat_ushiftRight]
        have hand : (v &&& 7#64).toNat = v.toNat &&& 7 := by simp [BitVec.toNat_and]
        by_cases hmis : v.toNat >>> 3 ≠ tag.toNat ∨ v.toNat &&& 7 ≠ wt.toNat
        · have hbb : (decide ((v >>> 3).toNat ≠ tag.toNat) || decide ((v &&& 7#64).toNat ≠ wt.toNat)) = true := by
            rw [hsh, hand]; rcases hmis with h | h <;> simp [h]
          simp [hn, hmis, hbb]
          exact ⟨_, _, ⟨rfl, rfl⟩, by simp, rfl, rfl, rfl, rfl, rfl⟩
        · have hbb : (decide ((v >>> 3).toNat ≠ tag.toNat) || decide ((v &&& 7#64).toNat ≠ wt.toNat)) = false := by
            rw [hsh, hand]; simp at hmis ⊢; exact hmis
          simp [hn, hmis, hbb]
    · cases e with
      | nil => exact absurd rfl he
      | invalidVarint | unexpectedEOF | overflow | other w =>
        cases hmm : decodeVarint (p.drop bof.toNat) with
        | ok r => exact absurd hmm (hmv r)
        | err => simp; exact ⟨_, _, ⟨rfl, rfl⟩, by simp, rfl, rfl, rfl, rfl, rfl⟩
        | panic => exact absurd hmm (decodeVarint_ok _).1
  · have h1 : (mode == 0#64) = false := by simp [hm]
    have h2 : (mode != 0#64) = true := by simp [hm]
    simp only [h1, h2, Bool.false_eq_true, if_false, if_true, Go.skip]
    exact ⟨_, _, _, _, _, rfl⟩

theorem beq_lit (wt : BitVec 64) (k : Nat) (hk : k < 2 ^ 64) : (wt == BitVec.ofNat 64 k) = decide (wt.toNat = k) := by
  by_cases h : wt = BitVec.ofNat 64 k
  · subst h; simp [Nat.mod_eq_of_lt hk]
  · have : wt.toNat ≠ k := fun h' => h (BitVec.eq_of_toNat_eq (by simp [h', Nat.mod_eq_of_lt hk]))
    simp [h, this]

theorem decVarintLoop_le (fuel : Nat) : ∀ (shift acc n : Nat) (s : Bytes) (v k : Nat),
    decVarintLoop fuel shift acc n s = .ok (v, k) → k ≤ n + fuel := by
  induction fuel with
  | zero => intro shift acc n s v k h; simp [decVarintLoop] at h
  | succ fuel ih =>
    intro shift acc n s v k h
    cases s with
    | nil => simp [decVarintLoop] at h
    | cons b bs =>
      simp only [decVarintLoop] at h
      by_cases hb : b.toNat < 128
      · simp [hb] at h; omega
      · simp only [hb, if_false] at h
        have := ih _ _ _ _ _ _ h
        omega

theorem decodeVarint_le10 {s : Bytes} {v n : Nat} (h : decodeVarint s = .ok (v, n)) : n ≤ 10 := by
  cases s with
  | nil => simp [decodeVarint] at h
  | cons b bs =>
    simp only [decodeVarint] at h
    by_cases hb : b.toNat < 128
    · simp [hb] at h; omega
    · simp only [hb, if_false] at h
      have := decVarintLoop_le _ _ _ _ _ _ _ h
      omega

/-- statement 8: the number of payload bytes per wire type -/
theorem len_eval (fuel : Nat) (hf : 11 ≤ fuel) (p : Bytes) (off mode ks ke tag wt sz bof v0 n0 : BitVec 64) (e0 : Go.Err)
    (tt0 tw0 sk0 l0 : BitVec 64) (hp : p.length < 2 ^ 62) (hoff : off.toNat ≤ p.length) :
    match (decOf p off ks ke (mode != 0#64)).skipLen wt.toNat with
    | .ok k => ∃ n e l sk, Decoder_Skip.s8 fuel (G p off mode ks ke tag wt sz bof v0 n0 e0 tt0 tw0 sk0 l0) =
        .next (G p off mode ks ke tag wt sz bof v0 n e tt0 tw0 sk l) ∧ sk.toNat = k ∧ k ≤ 2 ^ 31 + 10
    | .err => ∃ e s', Decoder_Skip.s8 fuel (G p off mode ks ke tag wt sz bof v0 n0 e0 tt0 tw0 sk0 l0) = .ret ([], e) s' ∧
        e ≠ .nil ∧ s'.d_p = p ∧ s'.d_offset = off ∧ s'.d_mode = mode ∧ s'.d_keyStart = ks ∧ s'.d_keyEnd = ke
    | .panic => False := by
  have hp63 : p.length < 2 ^ 63 := by omega
  have b0 := beq_lit wt 0 (by omega)
  have b1 := beq_lit wt 1 (by omega)
  have b2 := beq_lit wt 2 (by omega)
  have b5 := beq_lit wt 5 (by omega)
  unfold Dec.skipLen Decoder_Skip.s8
  simp only [decOf, G, sliceFrom, hoff, if_true, wtVarint, wtFixed64, wtLen, wtFixed32, b0, b1, b2, b5]
  by_cases w0 : wt.toNat = 0
  · obtain ⟨v, n, e, c, hd, hcase⟩ := call_varint fuel hf (p.drop off.toNat) (drop_len p _ hp63)
    simp only [w0, decide_true, if_true, Go.seq, Go.skip, hd, hoff]
    rcases hcase with ⟨he, hmv, hpos, hle⟩ | ⟨he, hmv⟩
    · subst he
      simp only [hmv, Res.map, bne_self_eq_false, Bool.false_eq_true, if_false]
      refine ⟨n, .nil, l0, n, rfl, rfl, ?_⟩
      have : (p.drop off.toNat).length ≤ p.length := by simp
      have h10 : n.toNat ≤ 10 := by
        have := decodeVarint_le10 hmv; exact this
      omega
    · cases e with
      | nil => exact absurd rfl he
      | invalidVarint | unexpectedEOF | overflow | other w =>
        cases hmm : decodeVarint (p.drop off.toNat) with
        | ok r => exact absurd hmm (hmv r)
        | err => simp [Res.map]; exact ⟨_, _, ⟨rfl, rfl⟩, by simp, rfl, rfl, rfl, rfl, rfl⟩
        | panic => exact absurd hmm (decodeVarint_ok _).1
  · by_cases w1 : wt.toNat = 1
    · simp only [w1, decide_true, decide_false, if_true, Bool.false_eq_true, if_false, Nat.one_ne_zero, reduceCtorEq]
      simp
      exact ⟨_, _, _, _, ⟨rfl, rfl, rfl, rfl⟩, by simp⟩
    · by_cases w2 : wt.toNat = 2
      · obtain ⟨l, n, e, c, hd, hcase⟩ := call_varint fuel hf (p.drop off.toNat) (drop_len p _ hp63)
        simp [w2, Go.seq, Go.skip, hd, hoff]
        rcases hcase with ⟨he, hmv, hpos, hle⟩ | ⟨he, hmv⟩
        · subst he
          have hn0 : ¬ n.toNat = 0 := by omega
          have h10 : n.toNat ≤ 10 := decodeVarint_le10 hmv
          have hne : ¬ n = 0#64 := fun h => hn0 (by rw [h]; rfl)
          by_cases hbig : maxFieldLen < l.toNat
          · simp [hmv, hn0, hne, n_zero_iff, ult_maxLen, hbig]
            exact ⟨_, _, ⟨rfl, rfl⟩, by simp, rfl, rfl, rfl, rfl, rfl⟩
          · have hl31 : l.toNat ≤ 2147483647 := by unfold maxFieldLen at hbig; omega
            simp [hmv, hn0, hne, n_zero_iff, ult_maxLen, hbig]
            exact ⟨_, _, _, _, ⟨rfl, rfl, rfl, rfl⟩, by rw [add_toNat n l (by omega)], by omega⟩
        · cases e with
          | nil => exact absurd rfl he
          | invalidVarint | unexpectedEOF | overflow | other w =>
            cases hmm : decodeVarint (p.drop off.toNat) with
            | ok r => exact absurd hmm (hmv r)
            | err => simp; exact ⟨_, _, ⟨rfl, rfl⟩, by simp, rfl, rfl, rfl, rfl, rfl⟩
            | panic => exact absurd hmm (decodeVarint_ok _).1
      · by_cases w5 : wt.toNat = 5
        · simp [w5]
          exact ⟨_, _, _, _, ⟨rfl, rfl, rfl, rfl⟩, by simp⟩
        · simp [w0, w1, w2, w5]
          exact ⟨_, _, ⟨rfl, rfl⟩, by simp, rfl, rfl, rfl, rfl, rfl⟩

/-- **`(*Decoder).Skip` of the source refines `Dec.step (.skip tag wt)`** (a Go slice holds fewer than 2^62 bytes; the
    remembered key span lies inside the buffer, as every `DecodeTag` leaves it) -/
theorem Skip_refines (fuel : Nat) (hf : 11 ≤ fuel) (p : Bytes) (off mode ks ke tag wt : BitVec 64)
    (hp : p.length < 2 ^ 62) (hoff : off.toNat ≤ p.length) (hks : ks.toNat ≤ p.length) (hke : ke.toNat ≤ p.length) :
    ∃ b e s, Decoder_Skip fuel p off mode ks ke tag wt = .ret (b, e) s ∧
      s.d_p = p ∧ s.d_mode = mode ∧ s.d_keyStart = ks ∧ s.d_keyEnd = ke ∧
      (match ((decOf p off ks ke (mode != 0#64)).step (.skip tag.toNat wt.toNat)) with
       | (d', .ok (.bytes x), _) => e = .nil ∧ b = x ∧ s.d_offset.toNat = d'.off
       | (_, .err, _) => e ≠ .nil ∧ s.d_offset = off
       | _ => False) := by
  have hp63 : p.length < 2 ^ 63 := by omega
  have hinit : Decoder_Skip fuel p off mode ks ke tag wt =
      Decoder_Skip.body fuel (G p off mode ks ke tag wt 0#64 0#64 0#64 0#64 .nil 0#64 0#64 0#64 0#64) := rfl
  rw [hinit]
  unfold Decoder_Skip.body
  simp only [Dec.step, withAlloc, Dec.skip]
  have hdlen : (decOf p off ks ke (mode != 0#64)).len = p.length := rfl
  have hdoff : (decOf p off ks ke (mode != 0#64)).off = off.toNat := rfl
  have hdks : (decOf p off ks ke (mode != 0#64)).ks = ks.toNat := rfl
  have hdke : (decOf p off ks ke (mode != 0#64)).ke = ke.toNat := rfl
  have hdp : (decOf p off ks ke (mode != 0#64)).p = p := rfl
  rw [hdlen, hdoff, hdks, hdke, hdp]
  -- statement 1
  have hs1 : Decoder_Skip.s1 fuel (G p off mode ks ke tag wt 0#64 0#64 0#64 0#64 .nil 0#64 0#64 0#64 0#64) =
      if p.length ≤ off.toNat then .ret ([], Go.Err.unexpectedEOF) (G p off mode ks ke tag wt 0#64 0#64 0#64 0#64 .nil 0#64 0#64 0#64 0#64)
      else .next (G p off mode ks ke tag wt 0#64 0#64 0#64 0#64 .nil 0#64 0#64 0#64 0#64) := by
    simp only [Decoder_Skip.s1, G, eof_test p off hp63 hoff, Go.skip]
    by_cases h : p.length ≤ off.toNat <;> simp [h]
  by_cases heof : p.length ≤ off.toNat
  · simp only [Go.seq, hs1, heof, if_true, ge_iff_le]
    refine ⟨_, _, _, rfl, rfl, rfl, rfl, rfl, ?_, rfl⟩
    simp
  · have hge : ¬ off.toNat ≥ p.length := by omega
    simp only [hge, if_false]
    -- statements 2–5
    obtain ⟨bof, hbof, hble, hpre⟩ := prefix_eval fuel p off mode ks ke tag wt hp hoff hks hke
      (Go.seq (Decoder_Skip.s6 fuel) (Go.seq (Decoder_Skip.s7 fuel) (Go.seq (Decoder_Skip.s8 fuel)
        (Go.seq (Decoder_Skip.s9 fuel) (Go.seq (Decoder_Skip.s10 fuel) (Decoder_Skip.s11 fuel))))))
    have hbody : Go.seq (Go.seq (Decoder_Skip.s1 fuel) (Go.seq (Decoder_Skip.s2 fuel) (Go.seq (Decoder_Skip.s3 fuel)
        (Go.seq (Decoder_Skip.s4 fuel) (Go.seq (Decoder_Skip.s5 fuel) (Go.seq (Decoder_Skip.s6 fuel) (Go.seq (Decoder_Skip.s7 fuel)
        (Go.seq (Decoder_Skip.s8 fuel) (Go.seq (Decoder_Skip.s9 fuel) (Go.seq (Decoder_Skip.s10 fuel) (Decoder_Skip.s11 fuel)))))))))))
        Go.missingReturn (G p off mode ks ke tag wt 0#64 0#64 0#64 0#64 .nil 0#64 0#64 0#64 0#64) =
      Go.seq (Go.seq (Decoder_Skip.s6 fuel) (Go.seq (Decoder_Skip.s7 fuel) (Go.seq (Decoder_Skip.s8 fuel)
        (Go.seq (Decoder_Skip.s9 fuel) (Go.seq (Decoder_Skip.s10 fuel) (Decoder_Skip.s11 fuel)))))) Go.missingReturn
        (G p off mode ks ke tag wt (SizeOfTagKey tag) bof 0#64 0#64 .nil 0#64 0#64 0#64 0#64) := by
      have e1 : ∀ (a b : SS → Go.Out SS Decoder_Skip.R) (x : SS), Go.seq a b x = (match a x with
        | .next s' => b s' | .ret r s1 => .ret r s1 | .panic => .panic | .diverge => .diverge) := fun a b x => by cases h : a x <;> simp [Go.seq, h]
      rw [e1 (Go.seq (Decoder_Skip.s1 fuel) _), e1 (Decoder_Skip.s1 fuel), hs1]
      simp only [heof, if_false]
      rw [hpre, e1 (Go.seq (Decoder_Skip.s6 fuel) _)]
    rw [hbody]
    have hmb : (if ke.toNat = off.toNat ∧ ke.toNat > ks.toNat then ks.toNat else off.toNat - sizeOfTagKey tag.toNat) = bof.toNat := by
      rw [hbof]; rfl
    rw [hmb]
    have hszn : sizeOfTagKey tag.toNat = (SizeOfTagKey tag).toNat := (sizeOfTagKey_src tag).symm
    rw [hszn]
    -- statement 6
    have hck := check_eval fuel hf p off mode ks ke tag wt (SizeOfTagKey tag) bof 0#64 0#64 .nil 0#64 0#64 0#64 0#64 hp (by omega)
    cases hc : (decOf p off ks ke (mode != 0#64)).skipCheck tag.toNat wt.toNat bof.toNat (SizeOfTagKey tag).toNat with
    | panic => rw [hc] at hck; exact hck.elim
    | err =>
      rw [hc] at hck
      obtain ⟨e, s', h6, hne, h1, h2, h3, h4, h5⟩ := hck
      simp only [Go.seq, h6]
      exact ⟨_, _, _, rfl, h1, h3, h4, h5, hne, h2⟩
    | ok u =>
      rw [hc] at hck
      obtain ⟨v, n, e, tt, tw, h6⟩ := hck
      -- statement 7, 8
      have hlen := len_eval fuel hf p off mode ks ke tag wt (SizeOfTagKey tag) bof v n e tt tw 0#64 0#64 hp hoff
      have h7 : Decoder_Skip.s7 fuel (G p off mode ks ke tag wt (SizeOfTagKey tag) bof v n e tt tw 0#64 0#64) =
          .next (G p off mode ks ke tag wt (SizeOfTagKey tag) bof v n e tt tw 0#64 0#64) := rfl
      cases hl : (decOf p off ks ke (mode != 0#64)).skipLen wt.toNat with
      | panic => rw [hl] at hlen; exact hlen.elim
      | err =>
        rw [hl] at hlen
        obtain ⟨e', s', h8, hne, h1, h2, h3, h4, h5⟩ := hlen
        simp only [Go.seq, h6, h7, h8]
        exact ⟨_, _, _, rfl, h1, h3, h4, h5, hne, h2⟩
      | ok k =>
        rw [hl] at hlen
        obtain ⟨n2, e2, l2, sk, h8, hsk, hkb⟩ := hlen
        have hsum : (off + sk).toNat = off.toNat + k := by rw [add_toNat off sk (by omega), hsk]
        have hslt := slt_len p (off + sk) hp63 (by omega)
        simp only [Go.seq, h6, h7, h8]
        simp only [Decoder_Skip.s9, Decoder_Skip.s10, Decoder_Skip.s11, G, hslt, hsum, Go.skip]
        by_cases hover : p.length < off.toNat + k
        · have : off.toNat + k > p.length := hover
          simp only [hover, this, decide_true, if_true]
          refine ⟨_, _, _, rfl, ?_⟩
          simp
        · have hn : ¬ off.toNat + k > p.length := hover
          have hg : bof.toNat ≤ off.toNat + k ∧ off.toNat + k ≤ p.length := by omega
          simp only [hover, hn, decide_false, Bool.false_eq_true, if_false]
          simp only [hsum, hg, and_self, if_true]
          refine ⟨_, _, _, rfl, ?_⟩
          simp [hsum]

end Csproto.Bridge.SkipFuncs
