import Csproto.Bridge.WireFuncs2
import Csproto.Model.Dec
import Csproto.Proofs.Total
/-
  Bridge for the TRANSLATED `Decoder` methods (third batch): `Generated/WireFuncs.lean` holds the bodies of
  `(*Decoder).DecodeTag`, `DecodeUInt64`, `DecodeInt64`, `DecodeUInt32`, `DecodeInt32`, `DecodeSInt32`, `DecodeSInt64`,
  `DecodeFixed32`, `DecodeFixed64`, `Offset` and `Reset`, translated statement by statement from `/repo`'s current
  decoder.go.  The receiver's fields (`d.p`, `d.offset`, `d.mode`, `d.keyStart`, `d.keyEnd`) are state variables
  `d_p`, `d_offset`, …; `DecodeVarint(d.p[d.offset:])` is a call of the translated `DecodeVarint` on `d_p.drop d_offset`
  guarded by Go's slice-bounds check; `fmt.Errorf("… %w", err)` keeps the class of `err`.

  The theorems here are REFINEMENT statements: for every buffer a Go slice can hold and every cursor inside it, running the
  translated method and running the corresponding operation of the hand-written transition system `Dec.step`
  (`Model/Dec.lean`, which is what C01–C03, C08, C13 … are proved about) agree on: acceptance, the value, the new cursor, the
  recorded key span — and the method never panics, never diverges, and changes no other field.
-/
set_option linter.unusedSimpArgs false
set_option linter.unusedVariables false
namespace Csproto.Bridge.DecoderFuncs
open Csproto Csproto.Generated.WireFuncs Csproto.Bridge Csproto.Bridge.WireFuncs

/-- the model state a receiver denotes -/
def decOf (p : Bytes) (off ks ke : BitVec 64) (fast : Bool) : Dec :=
  { p := p, off := off.toNat, fast := fast, ks := ks.toNat, ke := ke.toNat }

theorem off_eq (off : BitVec 64) : off = BitVec.ofNat 64 off.toNat := by simp

/-- `d.offset >= len(d.p)` as the translator renders it -/
theorem eof_test (p : Bytes) (off : BitVec 64) (hp : p.length < 2 ^ 63) (hoff : off.toNat ≤ p.length) :
    BitVec.sle (BitVec.ofNat 64 p.length) off = decide (p.length ≤ off.toNat) := by
  conv => lhs; rw [off_eq off]
  exact sle_ofNat p.length off.toNat hp (by omega)

/-- what the call `DecodeVarint(d.p[d.offset:])` yields, in the model's vocabulary -/
theorem call_varint (fuel : Nat) (hf : 11 ≤ fuel) (q : Bytes) (hq : q.length < 2 ^ 63) :
    ∃ v n e c, DecodeVarint fuel q = .ret (v, n, e) c ∧
      ((e = .nil ∧ decodeVarint q = .ok (v.toNat, n.toNat) ∧ 0 < n.toNat ∧ n.toNat ≤ q.length) ∨
       (e ≠ .nil ∧ ∀ r, decodeVarint q ≠ .ok r)) := by
  obtain ⟨v, n, e, c, hd⟩ := DecodeVarint_returns fuel hf q hq
  have h := DecodeVarint_eq fuel hf q hq
  rw [hd] at h
  refine ⟨v, n, e, c, hd, ?_⟩
  cases e with
  | nil =>
    left
    simp only [toRes] at h
    cases hm : decodeVarint q with
    | ok r =>
      rw [hm] at h; simp only [Res.ok.injEq] at h; subst h
      exact ⟨rfl, rfl, decodeVarint_pos hm, (decodeVarint_ok q).2 _ _ hm⟩
    | err => rw [hm] at h; simp at h
    | panic => rw [hm] at h; simp at h
  | invalidVarint | unexpectedEOF | overflow | other w =>
    right
    simp only [toRes] at h
    refine ⟨by simp, ?_⟩
    intro r hr; rw [hr] at h; simp at h

theorem add_toNat (off n : BitVec 64) (h : off.toNat + n.toNat < 2 ^ 64) : (off + n).toNat = off.toNat + n.toNat := by
  rw [BitVec.toNat_add]; exact Nat.mod_eq_of_lt h

theorem drop_len (p : Bytes) (k : Nat) (hp : p.length < 2 ^ 63) : (p.drop k).length < 2 ^ 63 := by
  simp; omega

/-- **`(*Decoder).DecodeUInt64` of the source refines `Dec.step .uint64`** -/
theorem DecodeUInt64_refines (fuel : Nat) (hf : 11 ≤ fuel) (p : Bytes) (off mode ks ke : BitVec 64) (fast : Bool)
    (hp : p.length < 2 ^ 63) (hoff : off.toNat ≤ p.length) :
    ∃ v e s, Decoder_DecodeUInt64 fuel p off mode ks ke = .ret (v, e) s ∧
      s.d_p = p ∧ s.d_mode = mode ∧ s.d_keyStart = ks ∧ s.d_keyEnd = ke ∧
      (match ((decOf p off ks ke fast).step .uint64) with
       | (d', .ok (.nat x), _) => e = .nil ∧ v.toNat = x ∧ s.d_offset.toNat = d'.off
       | (_, .err, _) => e ≠ .nil ∧ s.d_offset = off
       | _ => False) := by
  unfold Decoder_DecodeUInt64 Decoder_DecodeUInt64.body
  simp only [Go.seq, Go.skip, eof_test p off hp hoff, Dec.step, withAlloc, Dec.scalar, decOf, Dec.len, sliceFrom]
  by_cases heof : p.length ≤ off.toNat
  · simp [heof]
    exact ⟨_, _, _, ⟨⟨rfl, rfl⟩, rfl⟩, by simp⟩
  · obtain ⟨v, n, e, c, hd, hcase⟩ := call_varint fuel hf (p.drop off.toNat) (drop_len p _ hp)
    simp only [heof, decide_false, Bool.false_eq_true, if_false, hoff, if_true, hd, ge_iff_le]
    rcases hcase with ⟨he, hm, hpos, hle⟩ | ⟨he, hm⟩
    · subst he
      have hn0 : ¬ n.toNat = 0 := by omega
      have hlen : (p.drop off.toNat).length = p.length - off.toNat := by simp
      have hsum : (off + n).toNat = off.toNat + n.toNat := add_toNat off n (by omega)
      simp [elVarint, nz, hm, hn0, n_zero_iff, hsum]
      exact ⟨_, _, _, ⟨⟨rfl, rfl⟩, rfl⟩, by simp [hsum]⟩
    · cases e with
      | nil => exact absurd rfl he
      | invalidVarint | unexpectedEOF | overflow | other w =>
        cases hmm : decodeVarint (p.drop off.toNat) with
        | ok r => exact absurd hmm (hm r)
        | err => simp [elVarint, nz, hmm]; exact ⟨_, _, _, ⟨⟨rfl, rfl⟩, rfl⟩, by simp⟩
        | panic => exact absurd hmm (decodeVarint_ok _).1

theorem toI64_toNat (v : BitVec 64) : toI64 v.toNat = v.toInt := by
  have := v.isLt
  unfold toI64 two64 two63
  rw [Nat.mod_eq_of_lt (by omega), BitVec.toInt_eq_toNat_cond]
  by_cases h : v.toNat < 9223372036854775808
  · have : 2 * v.toNat < 2 ^ 64 := by omega
    simp [h, this]
  · have : ¬ 2 * v.toNat < 2 ^ 64 := by omega
    simp [h, this]

/-- **`(*Decoder).DecodeInt64` of the source refines `Dec.step .int64`** -/
theorem DecodeInt64_refines (fuel : Nat) (hf : 11 ≤ fuel) (p : Bytes) (off mode ks ke : BitVec 64) (fast : Bool)
    (hp : p.length < 2 ^ 63) (hoff : off.toNat ≤ p.length) :
    ∃ v e s, Decoder_DecodeInt64 fuel p off mode ks ke = .ret (v, e) s ∧
      s.d_p = p ∧ s.d_mode = mode ∧ s.d_keyStart = ks ∧ s.d_keyEnd = ke ∧
      (match ((decOf p off ks ke fast).step .int64) with
       | (d', .ok (.int x), _) => e = .nil ∧ v.toInt = x ∧ s.d_offset.toNat = d'.off
       | (_, .err, _) => e ≠ .nil ∧ s.d_offset = off
       | _ => False) := by
  unfold Decoder_DecodeInt64 Decoder_DecodeInt64.body
  simp only [Go.seq, Go.skip, eof_test p off hp hoff, Dec.step, withAlloc, Dec.scalar, decOf, Dec.len, sliceFrom]
  by_cases heof : p.length ≤ off.toNat
  · simp [heof]
    exact ⟨_, _, _, ⟨⟨rfl, rfl⟩, rfl⟩, by simp⟩
  · obtain ⟨v, n, e, c, hd, hcase⟩ := call_varint fuel hf (p.drop off.toNat) (drop_len p _ hp)
    simp only [heof, decide_false, Bool.false_eq_true, if_false, hoff, if_true, hd, ge_iff_le]
    rcases hcase with ⟨he, hm, hpos, hle⟩ | ⟨he, hm⟩
    · subst he
      have hn0 : ¬ n.toNat = 0 := by omega
      have hlen : (p.drop off.toNat).length = p.length - off.toNat := by simp
      have hsum : (off + n).toNat = off.toNat + n.toNat := add_toNat off n (by omega)
      simp [elInt64, Res.map, elVarint, nz, hm, hn0, n_zero_iff, hsum]
      exact ⟨_, _, _, ⟨⟨rfl, rfl⟩, rfl⟩, by simp [hsum, toI64_toNat]⟩
    · cases e with
      | nil => exact absurd rfl he
      | invalidVarint | unexpectedEOF | overflow | other w =>
        cases hmm : decodeVarint (p.drop off.toNat) with
        | ok r => exact absurd hmm (hm r)
        | err => simp [elInt64, Res.map, elVarint, nz, hmm]; exact ⟨_, _, _, ⟨⟨rfl, rfl⟩, rfl⟩, by simp⟩
        | panic => exact absurd hmm (decodeVarint_ok _).1

theorem ult_max32 (v : BitVec 64) : BitVec.ult 4294967295#64 v = decide (4294967295 < v.toNat) := by
  simp [BitVec.ult]

/-- **`(*Decoder).DecodeUInt32` of the source refines `Dec.step .uint32`** (values above 2^32-1 are an error, the cursor stays) -/
theorem DecodeUInt32_refines (fuel : Nat) (hf : 11 ≤ fuel) (p : Bytes) (off mode ks ke : BitVec 64) (fast : Bool)
    (hp : p.length < 2 ^ 63) (hoff : off.toNat ≤ p.length) :
    ∃ v e s, Decoder_DecodeUInt32 fuel p off mode ks ke = .ret (v, e) s ∧
      s.d_p = p ∧ s.d_mode = mode ∧ s.d_keyStart = ks ∧ s.d_keyEnd = ke ∧
      (match ((decOf p off ks ke fast).step .uint32) with
       | (d', .ok (.nat x), _) => e = .nil ∧ v.toNat = x ∧ s.d_offset.toNat = d'.off
       | (_, .err, _) => e ≠ .nil ∧ s.d_offset = off
       | _ => False) := by
  unfold Decoder_DecodeUInt32 Decoder_DecodeUInt32.body
  simp only [Go.seq, Go.skip, eof_test p off hp hoff, Dec.step, withAlloc, Dec.scalar, decOf, Dec.len, sliceFrom]
  by_cases heof : p.length ≤ off.toNat
  · simp [heof]
    exact ⟨_, _, _, ⟨⟨rfl, rfl⟩, rfl⟩, by simp⟩
  · obtain ⟨v, n, e, c, hd, hcase⟩ := call_varint fuel hf (p.drop off.toNat) (drop_len p _ hp)
    simp only [heof, decide_false, Bool.false_eq_true, if_false, hoff, if_true, hd, ge_iff_le]
    rcases hcase with ⟨he, hm, hpos, hle⟩ | ⟨he, hm⟩
    · subst he
      have hn0 : ¬ n.toNat = 0 := by omega
      have hlen : (p.drop off.toNat).length = p.length - off.toNat := by simp
      have hsum : (off + n).toNat = off.toNat + n.toNat := add_toNat off n (by omega)
      by_cases hbig : 4294967295 < v.toNat
      · simp [elUint32, elVarint, nz, hm, hn0, n_zero_iff, hsum, ult_max32, hbig]
        exact ⟨_, _, _, ⟨⟨rfl, rfl⟩, rfl⟩, by simp⟩
      · have hmod : v.toNat % 4294967296 = v.toNat := Nat.mod_eq_of_lt (by omega)
        simp [elUint32, elVarint, nz, hm, hn0, n_zero_iff, hsum, ult_max32, hbig]
        exact ⟨_, _, _, ⟨⟨rfl, rfl⟩, rfl⟩, by simp [hsum, hmod]⟩
    · cases e with
      | nil => exact absurd rfl he
      | invalidVarint | unexpectedEOF | overflow | other w =>
        cases hmm : decodeVarint (p.drop off.toNat) with
        | ok r => exact absurd hmm (hm r)
        | err => simp [elUint32, elVarint, nz, hmm]; exact ⟨_, _, _, ⟨⟨rfl, rfl⟩, rfl⟩, by simp⟩
        | panic => exact absurd hmm (decodeVarint_ok _).1

theorem slt_one (n : BitVec 64) (hn : n.toNat < 2 ^ 63) : BitVec.slt n 1#64 = decide (n.toNat < 1) := by
  have h := slt_ofNat n.toNat 1 hn (by omega)
  rw [← off_eq n] at h
  exact h

theorem ult_one (v : BitVec 64) : BitVec.ult v 1#64 = decide (v.toNat < 1) := by simp [BitVec.ult]

theorem ult_maxTag (x : BitVec 64) : BitVec.ult 536870911#64 x = decide (maxTagValue < x.toNat) := by
  unfold maxTagValue; simp [BitVec.ult]

/-- **`(*Decoder).DecodeTag` of the source refines `Dec.step .tag`**: acceptance (a key below 1, a field number above
    2^29-1 and a malformed varint are errors that leave cursor and key span alone), field number, wire type, the new
    cursor and the recorded key span `[keyStart, keyEnd)`. -/
theorem DecodeTag_refines (fuel : Nat) (hf : 11 ≤ fuel) (p : Bytes) (off mode ks ke : BitVec 64) (fast : Bool)
    (hp : p.length < 2 ^ 63) (hoff : off.toNat ≤ p.length) :
    ∃ t w e s, Decoder_DecodeTag fuel p off mode ks ke = .ret (t, w, e) s ∧ s.d_p = p ∧ s.d_mode = mode ∧
      (match ((decOf p off ks ke fast).step .tag) with
       | (d', .ok (.tag a b), _) => e = .nil ∧ t.toNat = a ∧ w.toNat = b ∧ s.d_offset.toNat = d'.off ∧
            s.d_keyStart.toNat = d'.ks ∧ s.d_keyEnd.toNat = d'.ke
       | (_, .err, _) => e ≠ .nil ∧ s.d_offset = off ∧ s.d_keyStart = ks ∧ s.d_keyEnd = ke
       | _ => False) := by
  unfold Decoder_DecodeTag Decoder_DecodeTag.body
  simp only [Go.seq, Go.skip, eof_test p off hp hoff, Dec.step, decOf, Dec.len, sliceFrom]
  by_cases heof : p.length ≤ off.toNat
  · simp [heof]
    exact ⟨_, _, _, _, ⟨⟨rfl, rfl, rfl⟩, rfl⟩, by simp⟩
  · obtain ⟨v, n, e, c, hd, hcase⟩ := call_varint fuel hf (p.drop off.toNat) (drop_len p _ hp)
    simp only [heof, decide_false, Bool.false_eq_true, if_false, hoff, if_true, hd, ge_iff_le]
    rcases hcase with ⟨he, hm, hpos, hle⟩ | ⟨he, hm⟩
    · subst he
      have hlen : (p.drop off.toNat).length = p.length - off.toNat := by simp
      have hsum : (off + n).toNat = off.toNat + n.toNat := add_toNat off n (by omega)
      have hn1 : ¬ n.toNat < 1 := by omega
      have hshr : (v >>> 3).toNat = v.toNat >>> 3 := by simp [BitVec.toNat_ushiftRight]
      have hslt : n.slt 1#64 = false := by rw [slt_one n (by omega)]; simp; omega
      by_cases hbad : v.toNat = 0 ∨ maxTagValue < v.toNat >>> 3
      · simp [hm, hslt, hbad, ult_one, ult_maxTag, hshr, hn1]
        exact ⟨_, _, _, _, ⟨⟨rfl, rfl, rfl⟩, rfl⟩, by simp⟩
      · simp [hm, hslt, hbad, ult_one, ult_maxTag, hshr, hn1]
        exact ⟨_, _, _, _, ⟨⟨rfl, rfl, rfl⟩, rfl⟩, by simp [hsum, hshr]⟩
    · cases e with
      | nil => exact absurd rfl he
      | invalidVarint | unexpectedEOF | overflow | other w =>
        cases hmm : decodeVarint (p.drop off.toNat) with
        | ok r => exact absurd hmm (hm r)
        | err => simp [hmm]; exact ⟨_, _, _, _, ⟨⟨rfl, rfl, rfl⟩, rfl⟩, by simp⟩
        | panic => exact absurd hmm (decodeVarint_ok _).1

/-- `Offset()` returns the cursor and changes nothing; `Reset()` moves the cursor to 0 and changes nothing else -/
theorem Offset_refines (fuel : Nat) (p : Bytes) (off mode ks ke : BitVec 64) :
    Decoder_Offset fuel p off mode ks ke =
      .ret off { d_p := p, d_offset := off, d_mode := mode, d_keyStart := ks, d_keyEnd := ke } := rfl

theorem Reset_refines (fuel : Nat) (p : Bytes) (off mode ks ke : BitVec 64) :
    Decoder_Reset fuel p off mode ks ke =
      .ret () { d_p := p, d_offset := 0#64, d_mode := mode, d_keyStart := ks, d_keyEnd := ke } := rfl

/-! ### zig-zag and fixed-width methods -/

theorem call_zigzag64 (fuel : Nat) (hf : 11 ≤ fuel) (q : Bytes) (hq : q.length < 2 ^ 63) :
    ∃ v n e c, DecodeZigZag64 fuel q = .ret (v, n, e) c ∧
      ((e = .nil ∧ decodeZigZag64 q = .ok (v.toInt, n.toNat) ∧ 0 < n.toNat ∧ n.toNat ≤ q.length) ∨
       (e ≠ .nil ∧ ∀ r, decodeZigZag64 q ≠ .ok r)) := by
  have h := DecodeZigZag64_eq fuel hf q hq
  have hnp : decodeZigZag64 q ≠ .panic := by
    unfold decodeZigZag64
    cases hm : decodeVarint q with
    | ok r => obtain ⟨a, b⟩ := r; simp; split <;> simp
    | err => simp
    | panic => exact absurd hm (decodeVarint_ok _).1
  have hbound : ∀ x k, decodeZigZag64 q = .ok (x, k) → 0 < k ∧ k ≤ q.length := by
    intro x k hk
    unfold decodeZigZag64 at hk
    cases hm : decodeVarint q with
    | ok r =>
      obtain ⟨a, b⟩ := r
      rw [hm] at hk; simp at hk
      split at hk
      · simp at hk
      · simp at hk; obtain ⟨_, hb⟩ := hk; subst hb
        exact ⟨decodeVarint_pos hm, (decodeVarint_ok q).2 _ _ hm⟩
    | err => rw [hm] at hk; simp at hk
    | panic => rw [hm] at hk; simp at hk
  cases hd : DecodeZigZag64 fuel q with
  | ret r c =>
    obtain ⟨v, n, e⟩ := r
    refine ⟨v, n, e, c, rfl, ?_⟩
    rw [hd] at h
    cases e with
    | nil =>
      left
      simp only [toResZ64] at h
      cases hm : decodeZigZag64 q with
      | ok r => rw [hm] at h; simp only [Res.ok.injEq] at h; subst h; exact ⟨rfl, rfl, hbound _ _ hm⟩
      | err => rw [hm] at h; simp at h
      | panic => exact absurd hm hnp
    | invalidVarint | unexpectedEOF | overflow | other w =>
      right
      simp only [toResZ64] at h
      refine ⟨by simp, ?_⟩
      intro r hr; rw [hr] at h; simp at h
  | next s => rw [hd] at h; simp only [toResZ64] at h; cases hm : decodeZigZag64 q <;> rw [hm] at h <;> simp at h
  | panic => rw [hd] at h; simp only [toResZ64] at h; cases hm : decodeZigZag64 q <;> rw [hm] at h <;> simp at h
  | diverge => rw [hd] at h; simp only [toResZ64] at h; cases hm : decodeZigZag64 q <;> rw [hm] at h <;> simp at h

/-- **`(*Decoder).DecodeSInt64` of the source refines `Dec.step .sint64`** -/
theorem DecodeSInt64_refines (fuel : Nat) (hf : 11 ≤ fuel) (p : Bytes) (off mode ks ke : BitVec 64) (fast : Bool)
    (hp : p.length < 2 ^ 63) (hoff : off.toNat ≤ p.length) :
    ∃ v e s, Decoder_DecodeSInt64 fuel p off mode ks ke = .ret (v, e) s ∧
      s.d_p = p ∧ s.d_mode = mode ∧ s.d_keyStart = ks ∧ s.d_keyEnd = ke ∧
      (match ((decOf p off ks ke fast).step .sint64) with
       | (d', .ok (.int x), _) => e = .nil ∧ v.toInt = x ∧ s.d_offset.toNat = d'.off
       | (_, .err, _) => e ≠ .nil ∧ s.d_offset = off
       | _ => False) := by
  unfold Decoder_DecodeSInt64 Decoder_DecodeSInt64.body
  simp only [Go.seq, Go.skip, eof_test p off hp hoff, Dec.step, withAlloc, Dec.scalar, decOf, Dec.len, sliceFrom]
  by_cases heof : p.length ≤ off.toNat
  · simp [heof]
    exact ⟨_, _, _, ⟨⟨rfl, rfl⟩, rfl⟩, by simp⟩
  · obtain ⟨v, n, e, c, hd, hcase⟩ := call_zigzag64 fuel hf (p.drop off.toNat) (drop_len p _ hp)
    simp only [heof, decide_false, Bool.false_eq_true, if_false, hoff, if_true, hd, ge_iff_le]
    rcases hcase with ⟨he, hm, hpos, hle⟩ | ⟨he, hm⟩
    · subst he
      have hn0 : ¬ n.toNat = 0 := by omega
      have hlen : (p.drop off.toNat).length = p.length - off.toNat := by simp
      have hsum : (off + n).toNat = off.toNat + n.toNat := add_toNat off n (by omega)
      simp [elSint64, nz, hm, hn0, n_zero_iff, hsum]
      exact ⟨_, _, _, ⟨⟨rfl, rfl⟩, rfl⟩, by simp [hsum]⟩
    · cases e with
      | nil => exact absurd rfl he
      | invalidVarint | unexpectedEOF | overflow | other w =>
        cases hmm : decodeZigZag64 (p.drop off.toNat) with
        | ok r => exact absurd hmm (hm r)
        | err => simp [elSint64, nz, hmm]; exact ⟨_, _, _, ⟨⟨rfl, rfl⟩, rfl⟩, by simp⟩
        | panic =>
          exfalso
          unfold decodeZigZag64 at hmm
          cases hv : decodeVarint (p.drop off.toNat) with
          | ok r => obtain ⟨a, b⟩ := r; rw [hv] at hmm; simp at hmm; split at hmm <;> simp at hmm
          | err => rw [hv] at hmm; simp at hmm
          | panic => exact absurd hv (decodeVarint_ok _).1

theorem call_zigzag32 (fuel : Nat) (hf : 11 ≤ fuel) (q : Bytes) (hq : q.length < 2 ^ 63) :
    ∃ v n e c, DecodeZigZag32 fuel q = .ret (v, n, e) c ∧
      ((e = .nil ∧ decodeZigZag32 q = .ok (v.toInt, n.toNat) ∧ 0 < n.toNat ∧ n.toNat ≤ q.length) ∨
       (e ≠ .nil ∧ ∀ r, decodeZigZag32 q ≠ .ok r)) := by
  have h := DecodeZigZag32_eq fuel hf q hq
  have hnp : decodeZigZag32 q ≠ .panic := by
    unfold decodeZigZag32
    cases hm : decodeVarint q with
    | ok r => obtain ⟨a, b⟩ := r; simp; split <;> simp
    | err => simp
    | panic => exact absurd hm (decodeVarint_ok _).1
  have hbound : ∀ x k, decodeZigZag32 q = .ok (x, k) → 0 < k ∧ k ≤ q.length := by
    intro x k hk
    unfold decodeZigZag32 at hk
    cases hm : decodeVarint q with
    | ok r =>
      obtain ⟨a, b⟩ := r
      rw [hm] at hk; simp at hk
      split at hk
      · simp at hk
      · simp at hk; obtain ⟨_, hb⟩ := hk; subst hb
        exact ⟨decodeVarint_pos hm, (decodeVarint_ok q).2 _ _ hm⟩
    | err => rw [hm] at hk; simp at hk
    | panic => rw [hm] at hk; simp at hk
  cases hd : DecodeZigZag32 fuel q with
  | ret r c =>
    obtain ⟨v, n, e⟩ := r
    refine ⟨v, n, e, c, rfl, ?_⟩
    rw [hd] at h
    cases e with
    | nil =>
      left
      simp only [toResZ32] at h
      cases hm : decodeZigZag32 q with
      | ok r => rw [hm] at h; simp only [Res.ok.injEq] at h; subst h; exact ⟨rfl, rfl, hbound _ _ hm⟩
      | err => rw [hm] at h; simp at h
      | panic => exact absurd hm hnp
    | invalidVarint | unexpectedEOF | overflow | other w =>
      right
      simp only [toResZ32] at h
      refine ⟨by simp, ?_⟩
      intro r hr; rw [hr] at h; simp at h
  | next s => rw [hd] at h; simp only [toResZ32] at h; cases hm : decodeZigZag32 q <;> rw [hm] at h <;> simp at h
  | panic => rw [hd] at h; simp only [toResZ32] at h; cases hm : decodeZigZag32 q <;> rw [hm] at h <;> simp at h
  | diverge => rw [hd] at h; simp only [toResZ32] at h; cases hm : decodeZigZag32 q <;> rw [hm] at h <;> simp at h

/-- **`(*Decoder).DecodeSInt32` of the source refines `Dec.step .sint32`** -/
theorem DecodeSInt32_refines (fuel : Nat) (hf : 11 ≤ fuel) (p : Bytes) (off mode ks ke : BitVec 64) (fast : Bool)
    (hp : p.length < 2 ^ 63) (hoff : off.toNat ≤ p.length) :
    ∃ v e s, Decoder_DecodeSInt32 fuel p off mode ks ke = .ret (v, e) s ∧
      s.d_p = p ∧ s.d_mode = mode ∧ s.d_keyStart = ks ∧ s.d_keyEnd = ke ∧
      (match ((decOf p off ks ke fast).step .sint32) with
       | (d', .ok (.int x), _) => e = .nil ∧ v.toInt = x ∧ s.d_offset.toNat = d'.off
       | (_, .err, _) => e ≠ .nil ∧ s.d_offset = off
       | _ => False) := by
  unfold Decoder_DecodeSInt32 Decoder_DecodeSInt32.body
  simp only [Go.seq, Go.skip, eof_test p off hp hoff, Dec.step, withAlloc, Dec.scalar, decOf, Dec.len, sliceFrom]
  by_cases heof : p.length ≤ off.toNat
  · simp [heof]
    exact ⟨_, _, _, ⟨⟨rfl, rfl⟩, rfl⟩, by simp⟩
  · obtain ⟨v, n, e, c, hd, hcase⟩ := call_zigzag32 fuel hf (p.drop off.toNat) (drop_len p _ hp)
    simp only [heof, decide_false, Bool.false_eq_true, if_false, hoff, if_true, hd, ge_iff_le]
    rcases hcase with ⟨he, hm, hpos, hle⟩ | ⟨he, hm⟩
    · subst he
      have hn0 : ¬ n.toNat = 0 := by omega
      have hlen : (p.drop off.toNat).length = p.length - off.toNat := by simp
      have hsum : (off + n).toNat = off.toNat + n.toNat := add_toNat off n (by omega)
      simp [elSint32, nz, hm, hn0, n_zero_iff, hsum]
      exact ⟨_, _, _, ⟨⟨rfl, rfl⟩, rfl⟩, by simp [hsum]⟩
    · cases e with
      | nil => exact absurd rfl he
      | invalidVarint | unexpectedEOF | overflow | other w =>
        cases hmm : decodeZigZag32 (p.drop off.toNat) with
        | ok r => exact absurd hmm (hm r)
        | err => simp [elSint32, nz, hmm]; exact ⟨_, _, _, ⟨⟨rfl, rfl⟩, rfl⟩, by simp⟩
        | panic =>
          exfalso
          unfold decodeZigZag32 at hmm
          cases hv : decodeVarint (p.drop off.toNat) with
          | ok r => obtain ⟨a, b⟩ := r; rw [hv] at hmm; simp at hmm; split at hmm <;> simp at hmm
          | err => rw [hv] at hmm; simp at hmm
          | panic => exact absurd hv (decodeVarint_ok _).1

theorem fromLE_lt (l : Bytes) : fromLE l < 256 ^ l.length := by
  induction l with
  | nil => simp [fromLE]
  | cons b bs ih =>
    have hb := b.toNat_lt
    simp only [fromLE, List.length_cons, Nat.pow_succ]
    generalize 256 ^ bs.length = k at ih ⊢
    omega

theorem fromLE4_lt (a b c d : UInt8) : fromLE [a, b, c, d] < 2 ^ 32 := by
  have := fromLE_lt [a, b, c, d]; simp only [List.length_cons, List.length_nil] at this; omega

theorem fromLE8_lt (a b c d e f g h : UInt8) : fromLE [a, b, c, d, e, f, g, h] < 2 ^ 64 := by
  have := fromLE_lt [a, b, c, d, e, f, g, h]; simp only [List.length_cons, List.length_nil] at this; omega

theorem call_fixed32 (fuel : Nat) (q : Bytes) (hq : q.length < 2 ^ 63) :
    ∃ v n e c, DecodeFixed32 fuel q = .ret (v, n, e) c ∧
      ((e = .nil ∧ decodeFixed32 q = .ok (v.toNat, n.toNat) ∧ n.toNat = 4 ∧ 4 ≤ q.length) ∨
       (e ≠ .nil ∧ decodeFixed32 q = .err)) := by
  by_cases hs : q.length < 4
  · obtain ⟨c, hc⟩ := DecodeFixed32_short fuel q hs
    exact ⟨_, _, _, c, hc, Or.inr ⟨by simp, by simp [decodeFixed32, hs]⟩⟩
  · match q, hs, hq with
    | a :: b :: c :: d :: rest, hs, hq =>
      obtain ⟨st, hc⟩ := DecodeFixed32_ok fuel a b c d rest hq
      refine ⟨_, _, _, st, hc, Or.inl ⟨rfl, ?_, by simp, by simp⟩⟩
      have := fromLE4_lt a b c d
      simp [decodeFixed32, Nat.mod_eq_of_lt this]
    | [], hs, _ => simp at hs
    | [_], hs, _ => simp at hs
    | [_, _], hs, _ => simp at hs
    | [_, _, _], hs, _ => simp at hs

theorem call_fixed64 (fuel : Nat) (q : Bytes) (hq : q.length < 2 ^ 63) :
    ∃ v n e c, DecodeFixed64 fuel q = .ret (v, n, e) c ∧
      ((e = .nil ∧ decodeFixed64 q = .ok (v.toNat, n.toNat) ∧ n.toNat = 8 ∧ 8 ≤ q.length) ∨
       (e ≠ .nil ∧ decodeFixed64 q = .err)) := by
  by_cases hs : q.length < 8
  · obtain ⟨c, hc⟩ := DecodeFixed64_short fuel q hs
    exact ⟨_, _, _, c, hc, Or.inr ⟨by simp, by simp [decodeFixed64, hs]⟩⟩
  · match q, hs, hq with
    | a :: b :: c :: d :: e :: f :: g :: h :: rest, hs, hq =>
      obtain ⟨st, hc⟩ := DecodeFixed64_ok fuel a b c d e f g h rest hq
      refine ⟨_, _, _, st, hc, Or.inl ⟨rfl, ?_, by simp, by simp⟩⟩
      have := fromLE8_lt a b c d e f g h
      simp [decodeFixed64, Nat.mod_eq_of_lt this]
    | [], hs, _ => simp at hs
    | [_], hs, _ => simp at hs
    | [_, _], hs, _ => simp at hs
    | [_, _, _], hs, _ => simp at hs
    | [_, _, _, _], hs, _ => simp at hs
    | [_, _, _, _, _], hs, _ => simp at hs
    | [_, _, _, _, _, _], hs, _ => simp at hs
    | [_, _, _, _, _, _, _], hs, _ => simp at hs

/-- **`(*Decoder).DecodeFixed32` of the source refines `Dec.step .fixed32`** -/
theorem DecodeFixed32_refines (fuel : Nat) (p : Bytes) (off mode ks ke : BitVec 64) (fast : Bool)
    (hp : p.length < 2 ^ 63) (hoff : off.toNat ≤ p.length) :
    ∃ v e s, Decoder_DecodeFixed32 fuel p off mode ks ke = .ret (v, e) s ∧
      s.d_p = p ∧ s.d_mode = mode ∧ s.d_keyStart = ks ∧ s.d_keyEnd = ke ∧
      (match ((decOf p off ks ke fast).step .fixed32) with
       | (d', .ok (.nat x), _) => e = .nil ∧ v.toNat = x ∧ s.d_offset.toNat = d'.off
       | (_, .err, _) => e ≠ .nil ∧ s.d_offset = off
       | _ => False) := by
  unfold Decoder_DecodeFixed32 Decoder_DecodeFixed32.body
  simp only [Go.seq, Go.skip, eof_test p off hp hoff, Dec.step, withAlloc, Dec.scalar, decOf, Dec.len, sliceFrom]
  by_cases heof : p.length ≤ off.toNat
  · simp [heof]
    exact ⟨_, _, _, ⟨⟨rfl, rfl⟩, rfl⟩, by simp⟩
  · obtain ⟨v, n, e, c, hd, hcase⟩ := call_fixed32 fuel (p.drop off.toNat) (drop_len p _ hp)
    simp only [heof, decide_false, Bool.false_eq_true, if_false, hoff, if_true, hd, ge_iff_le]
    rcases hcase with ⟨he, hm, hn4, hle⟩ | ⟨he, hm⟩
    · subst he
      have hn0 : ¬ n.toNat = 0 := by omega
      have hlen : (p.drop off.toNat).length = p.length - off.toNat := by simp
      have hsum : (off + n).toNat = off.toNat + n.toNat := add_toNat off n (by omega)
      simp [elFixed32, nz, hm, hn0, n_zero_iff, hsum]
      exact ⟨_, _, _, ⟨⟨rfl, rfl⟩, rfl⟩, by simp [hsum]⟩
    · cases e with
      | nil => exact absurd rfl he
      | invalidVarint | unexpectedEOF | overflow | other w =>
        simp [elFixed32, nz, hm]; exact ⟨_, _, _, ⟨⟨rfl, rfl⟩, rfl⟩, by simp⟩

/-- **`(*Decoder).DecodeFixed64` of the source refines `Dec.step .fixed64`** -/
theorem DecodeFixed64_refines (fuel : Nat) (p : Bytes) (off mode ks ke : BitVec 64) (fast : Bool)
    (hp : p.length < 2 ^ 63) (hoff : off.toNat ≤ p.length) :
    ∃ v e s, Decoder_DecodeFixed64 fuel p off mode ks ke = .ret (v, e) s ∧
      s.d_p = p ∧ s.d_mode = mode ∧ s.d_keyStart = ks ∧ s.d_keyEnd = ke ∧
      (match ((decOf p off ks ke fast).step .fixed64) with
       | (d', .ok (.nat x), _) => e = .nil ∧ v.toNat = x ∧ s.d_offset.toNat = d'.off
       | (_, .err, _) => e ≠ .nil ∧ s.d_offset = off
       | _ => False) := by
  unfold Decoder_DecodeFixed64 Decoder_DecodeFixed64.body
  simp only [Go.seq, Go.skip, eof_test p off hp hoff, Dec.step, withAlloc, Dec.scalar, decOf, Dec.len, sliceFrom]
  by_cases heof : p.length ≤ off.toNat
  · simp [heof]
    exact ⟨_, _, _, ⟨⟨rfl, rfl⟩, rfl⟩, by simp⟩
  · obtain ⟨v, n, e, c, hd, hcase⟩ := call_fixed64 fuel (p.drop off.toNat) (drop_len p _ hp)
    simp only [heof, decide_false, Bool.false_eq_true, if_false, hoff, if_true, hd, ge_iff_le]
    rcases hcase with ⟨he, hm, hn4, hle⟩ | ⟨he, hm⟩
    · subst he
      have hn0 : ¬ n.toNat = 0 := by omega
      have hlen : (p.drop off.toNat).length = p.length - off.toNat := by simp
      have hsum : (off + n).toNat = off.toNat + n.toNat := add_toNat off n (by omega)
      simp [elFixed64, nz, hm, hn0, n_zero_iff, hsum]
      exact ⟨_, _, _, ⟨⟨rfl, rfl⟩, rfl⟩, by simp [hsum]⟩
    · cases e with
      | nil => exact absurd rfl he
      | invalidVarint | unexpectedEOF | overflow | other w =>
        simp [elFixed64, nz, hm]; exact ⟨_, _, _, ⟨⟨rfl, rfl⟩, rfl⟩, by simp⟩

/-! ### `DecodeInt32`: the range test on `int64(v)` and the truncation to 32 bits -/

theorem slt_max32 (v : BitVec 64) : BitVec.slt 2147483647#64 v = decide (2147483647 < v.toInt) := by
  simp [BitVec.slt]

theorem slt_min32 (v : BitVec 64) : BitVec.slt v (BitVec.ofInt 64 (-2147483648)) = decide (v.toInt < -2147483648) := by
  have : (BitVec.ofInt 64 (-2147483648)).toInt = -2147483648 := by decide
  simp [BitVec.slt, this]

theorem slt_min32' (v : BitVec 64) : BitVec.slt v 18446744071562067968#64 = decide (v.toInt < -2147483648) := by
  have : (18446744071562067968#64).toInt = -2147483648 := by decide
  simp [BitVec.slt, this]

theorem setWidth32_toInt (v : BitVec 64) (h1 : ¬ 2147483647 < v.toInt) (h2 : ¬ v.toInt < -2147483648) :
    (BitVec.setWidth 32 v).toInt = v.toInt := by
  have hv := v.isLt
  rw [BitVec.toInt_eq_toNat_cond] at h1 h2 ⊢
  rw [BitVec.toInt_eq_toNat_cond]
  simp only [BitVec.toNat_setWidth]
  by_cases hc : 2 * v.toNat < 2 ^ 64
  · simp only [hc, if_true] at h1 h2 ⊢
    have hm : v.toNat % 2 ^ 32 = v.toNat := Nat.mod_eq_of_lt (by omega)
    rw [hm]
    have : 2 * v.toNat < 2 ^ 32 := by omega
    simp [this]
  · simp only [hc, if_false] at h1 h2 ⊢
    have hm : v.toNat % 2 ^ 32 = v.toNat - (2 ^ 64 - 2 ^ 32) := by omega
    rw [hm]
    have : ¬ 2 * (v.toNat - (2 ^ 64 - 2 ^ 32)) < 2 ^ 32 := by omega
    simp only [this, if_false]
    omega

/-- **`(*Decoder).DecodeInt32` of the source refines `Dec.step .int32`** (a value outside the int32 range is an error) -/
theorem DecodeInt32_refines (fuel : Nat) (hf : 11 ≤ fuel) (p : Bytes) (off mode ks ke : BitVec 64) (fast : Bool)
    (hp : p.length < 2 ^ 63) (hoff : off.toNat ≤ p.length) :
    ∃ v e s, Decoder_DecodeInt32 fuel p off mode ks ke = .ret (v, e) s ∧
      s.d_p = p ∧ s.d_mode = mode ∧ s.d_keyStart = ks ∧ s.d_keyEnd = ke ∧
      (match ((decOf p off ks ke fast).step .int32) with
       | (d', .ok (.int x), _) => e = .nil ∧ v.toInt = x ∧ s.d_offset.toNat = d'.off
       | (_, .err, _) => e ≠ .nil ∧ s.d_offset = off
       | _ => False) := by
  unfold Decoder_DecodeInt32 Decoder_DecodeInt32.body
  simp only [Go.seq, Go.skip, eof_test p off hp hoff, Dec.step, withAlloc, Dec.scalar, decOf, Dec.len, sliceFrom]
  by_cases heof : p.length ≤ off.toNat
  · simp [heof]
    exact ⟨_, _, _, ⟨⟨rfl, rfl⟩, rfl⟩, by simp⟩
  · obtain ⟨v, n, e, c, hd, hcase⟩ := call_varint fuel hf (p.drop off.toNat) (drop_len p _ hp)
    simp only [heof, decide_false, Bool.false_eq_true, if_false, hoff, if_true, hd, ge_iff_le]
    rcases hcase with ⟨he, hm, hpos, hle⟩ | ⟨he, hm⟩
    · subst he
      have hn0 : ¬ n.toNat = 0 := by omega
      have hlen : (p.drop off.toNat).length = p.length - off.toNat := by simp
      have hsum : (off + n).toNat = off.toNat + n.toNat := add_toNat off n (by omega)
      by_cases hbig : 2147483647 < v.toInt ∨ v.toInt < -2147483648
      · have hb : (decide (2147483647 < v.toInt) || decide (v.toInt < -2147483648)) = true := by
          rcases hbig with h | h <;> simp [h]
        simp [elInt32, elVarint, nz, hm, hn0, n_zero_iff, hsum, slt_max32, slt_min32, slt_min32', toI64_toNat, hbig, hb]
        exact ⟨_, _, _, ⟨⟨rfl, rfl⟩, rfl⟩, by simp⟩
      · have h1 : ¬ 2147483647 < v.toInt := fun h => hbig (Or.inl h)
        have h2 : ¬ v.toInt < -2147483648 := fun h => hbig (Or.inr h)
        simp [elInt32, elVarint, nz, hm, hn0, n_zero_iff, hsum, slt_max32, slt_min32, slt_min32', toI64_toNat, h1, h2]
        exact ⟨_, _, _, ⟨⟨rfl, rfl⟩, rfl⟩, by simp [hsum, setWidth32_toInt v h1 h2]⟩
    · cases e with
      | nil => exact absurd rfl he
      | invalidVarint | unexpectedEOF | overflow | other w =>
        cases hmm : decodeVarint (p.drop off.toNat) with
        | ok r => exact absurd hmm (hm r)
        | err => simp [elInt32, elVarint, nz, hmm]; exact ⟨_, _, _, ⟨⟨rfl, rfl⟩, rfl⟩, by simp⟩
        | panic => exact absurd hmm (decodeVarint_ok _).1

/-! ### `DecodeBytes` (length-delimited payload) -/

theorem ult_maxLen (l : BitVec 64) : BitVec.ult 2147483647#64 l = decide (maxFieldLen < l.toNat) := by
  unfold maxFieldLen; simp [BitVec.ult]

theorem slt_len (p : Bytes) (x : BitVec 64) (hp : p.length < 2 ^ 63) (hx : x.toNat < 2 ^ 63) :
    BitVec.slt (BitVec.ofNat 64 p.length) x = decide (p.length < x.toNat) := by
  conv => lhs; rw [off_eq x]
  exact slt_ofNat p.length x.toNat hp hx

/-- **`(*Decoder).DecodeBytes` of the source refines `Dec.step .bytes`**: the length prefix is validated (malformed varint,
    more than 2^31-1, beyond the remaining input: errors that leave the cursor), the returned slice is exactly the payload,
    the cursor ends behind it.  (A Go slice holds fewer than 2^62 bytes.) -/
theorem DecodeBytes_refines (fuel : Nat) (hf : 11 ≤ fuel) (p : Bytes) (off mode ks ke : BitVec 64) (fast : Bool)
    (hp : p.length < 2 ^ 62) (hoff : off.toNat ≤ p.length) :
    ∃ b e s, Decoder_DecodeBytes fuel p off mode ks ke = .ret (b, e) s ∧
      s.d_p = p ∧ s.d_mode = mode ∧ s.d_keyStart = ks ∧ s.d_keyEnd = ke ∧
      (match ((decOf p off ks ke fast).step .bytes) with
       | (d', .ok (.bytes x), _) => e = .nil ∧ b = x ∧ s.d_offset.toNat = d'.off
       | (_, .err, _) => e ≠ .nil ∧ s.d_offset = off
       | _ => False) := by
  have hp63 : p.length < 2 ^ 63 := by omega
  unfold Decoder_DecodeBytes Decoder_DecodeBytes.body
  simp only [Go.seq, Go.skip, eof_test p off hp63 hoff, Dec.step, withAlloc, Dec.bytesOp, Dec.lenPrefix, decOf, Dec.len, sliceFrom]
  by_cases heof : p.length ≤ off.toNat
  · simp [heof]
    exact ⟨_, _, _, ⟨⟨rfl, rfl⟩, rfl⟩, by simp⟩
  · obtain ⟨l, n, e, c, hd, hcase⟩ := call_varint fuel hf (p.drop off.toNat) (drop_len p _ hp63)
    simp only [heof, decide_false, Bool.false_eq_true, if_false, hoff, if_true, hd, ge_iff_le]
    rcases hcase with ⟨he, hm, hpos, hle⟩ | ⟨he, hm⟩
    · subst he
      have hn0 : ¬ n.toNat = 0 := by omega
      have hlen : (p.drop off.toNat).length = p.length - off.toNat := by simp
      have hsum : (off + n).toNat = off.toNat + n.toNat := add_toNat off n (by omega)
      by_cases hbig : maxFieldLen < l.toNat
      · simp [hm, hn0, n_zero_iff, ult_maxLen, hbig]
        exact ⟨_, _, _, ⟨⟨rfl, rfl⟩, rfl⟩, by simp⟩
      · have hl31 : l.toNat ≤ 2147483647 := by unfold maxFieldLen at hbig; omega
        have hsum2 : (off + n + l).toNat = off.toNat + n.toNat + l.toNat := by
          rw [add_toNat (off + n) l (by omega), hsum]
        have hsum3 : (off + (n + l)).toNat = off.toNat + n.toNat + l.toNat := by
          rw [← BitVec.add_assoc]; exact hsum2
        have hslt := slt_len p (off + n + l) hp63 (by omega)
        by_cases hover : p.length < off.toNat + n.toNat + l.toNat
        · simp [hm, hn0, n_zero_iff, ult_maxLen, hbig, hslt, hsum2, hover]
          exact ⟨_, _, _, ⟨⟨rfl, rfl⟩, rfl⟩, by simp⟩
        · have hg : (off + n).toNat ≤ (off + n + l).toNat ∧ (off + n + l).toNat ≤ p.length := by
            rw [hsum, hsum2]; omega
          have hnot : ¬ off.toNat + n.toNat + l.toNat > p.length := by omega
          have hmod : (off.toNat + n.toNat) % 18446744073709551616 = off.toNat + n.toNat := Nat.mod_eq_of_lt (by omega)
          have hg2 : off.toNat + n.toNat + l.toNat ≤ p.length := by omega
          simp [hm, hn0, n_zero_iff, ult_maxLen, hbig, hslt, hsum2, hover, hg, hnot, hmod, hg2]
          refine ⟨_, _, _, ⟨⟨rfl, rfl⟩, rfl⟩, ?_⟩
          simp [hsum, hsum2, hsum3, hmod]
    · cases e with
      | nil => exact absurd rfl he
      | invalidVarint | unexpectedEOF | overflow | other w =>
        cases hmm : decodeVarint (p.drop off.toNat) with
        | ok r => exact absurd hmm (hm r)
        | err => simp [hmm]; exact ⟨_, _, _, ⟨⟨rfl, rfl⟩, rfl⟩, by simp⟩
        | panic => exact absurd hmm (decodeVarint_ok _).1

/-! ### `DecodeBool`, `More` -/

/-- **`(*Decoder).DecodeBool` of the source refines `Dec.step .bool`** (any non-zero varint is `true`) -/
theorem DecodeBool_refines (fuel : Nat) (hf : 11 ≤ fuel) (p : Bytes) (off mode ks ke : BitVec 64) (fast : Bool)
    (hp : p.length < 2 ^ 63) (hoff : off.toNat ≤ p.length) :
    ∃ v e s, Decoder_DecodeBool fuel p off mode ks ke = .ret (v, e) s ∧
      s.d_p = p ∧ s.d_mode = mode ∧ s.d_keyStart = ks ∧ s.d_keyEnd = ke ∧
      (match ((decOf p off ks ke fast).step .bool) with
       | (d', .ok (.bool x), _) => e = .nil ∧ v = x ∧ s.d_offset.toNat = d'.off
       | (_, .err, _) => e ≠ .nil ∧ s.d_offset = off
       | _ => False) := by
  unfold Decoder_DecodeBool Decoder_DecodeBool.body
  simp only [Go.seq, Go.skip, eof_test p off hp hoff, Dec.step, withAlloc, Dec.scalar, decOf, Dec.len, sliceFrom]
  by_cases heof : p.length ≤ off.toNat
  · simp [heof]
    exact ⟨_, _, ⟨rfl, rfl⟩, by simp⟩
  · obtain ⟨v, n, e, c, hd, hcase⟩ := call_varint fuel hf (p.drop off.toNat) (drop_len p _ hp)
    simp only [heof, decide_false, Bool.false_eq_true, if_false, hoff, if_true, hd, ge_iff_le]
    rcases hcase with ⟨he, hm, hpos, hle⟩ | ⟨he, hm⟩
    · subst he
      have hn0 : ¬ n.toNat = 0 := by omega
      have hlen : (p.drop off.toNat).length = p.length - off.toNat := by simp
      have hsum : (off + n).toNat = off.toNat + n.toNat := add_toNat off n (by omega)
      simp [elBool, Res.map, elVarint, nz, hm, hn0, n_zero_iff, hsum]
      by_cases hv : v = 0#64
      · left; exact ⟨_, _, ⟨⟨hv, rfl⟩, rfl⟩, rfl, rfl, rfl, rfl, rfl, by simp [hv], hsum⟩
      · right
        have hvn : ¬ v.toNat = 0 := fun h0 => hv (BitVec.eq_of_toNat_eq (by simpa using h0))
        exact ⟨_, _, ⟨⟨hv, rfl⟩, rfl⟩, rfl, rfl, rfl, rfl, rfl, hvn, hsum⟩
    · cases e with
      | nil => exact absurd rfl he
      | invalidVarint | unexpectedEOF | overflow | other w =>
        cases hmm : decodeVarint (p.drop off.toNat) with
        | ok r => exact absurd hmm (hm r)
        | err => simp [elBool, Res.map, elVarint, nz, hmm]; exact ⟨_, _, ⟨rfl, rfl⟩, by simp⟩
        | panic => exact absurd hmm (decodeVarint_ok _).1

/-- `More()` is `offset < len(p)` and changes nothing -/
theorem More_refines (fuel : Nat) (p : Bytes) (off mode ks ke : BitVec 64) (hp : p.length < 2 ^ 63) (hoff : off.toNat ≤ p.length) :
    Decoder_More fuel p off mode ks ke =
      .ret (decide (off.toNat < p.length)) { d_p := p, d_offset := off, d_mode := mode, d_keyStart := ks, d_keyEnd := ke } := by
  have h : BitVec.slt off (BitVec.ofNat 64 p.length) = decide (off.toNat < p.length) := by
    conv => lhs; rw [off_eq off]
    exact slt_ofNat off.toNat p.length (by omega) hp
  unfold Decoder_More Decoder_More.body
  simp [Go.seq, h]

end Csproto.Bridge.DecoderFuncs
