import Csproto.Bridge.WireFuncs2
import Csproto.Model.Dec
import Csproto.Proofs.Total
/-
  Bridge for the TRANSLATED `Decoder` methods (third batch): `Generated/WireFuncs.lean` holds the bodies of
  `(*Decoder).DecodeTag`, `DecodeUInt64`, `DecodeInt64`, `DecodeUInt32`, `DecodeInt32`, `DecodeSInt32`, `DecodeSInt64`,
  `DecodeFixed32`, `DecodeFixed64`, `Offset` and `Reset`, translated statement by statement from `/repo`'s current
  decoder.go.  The receiver's fields (`d.p`, `d.offset`, `d.mode`, `d.keyStart`, `d.keyEnd`) are state variables
  `d_p`, `d_offset`, …; `DecodeVarint(d.p[d.offset:])` is a call of the translated `DecodeVarint` on `d_p.drop d_offset`
  guarded by Go's slice-bounds check; `fmt.Errorf("… %w", err)` keeps the class of `err`.

  The theorems here are REFINEMENT statements: for every buffer a Go slice can hold and every cursor inside it, running the
  translated method and running the corresponding operation of the hand-written transition system `Dec.step`
  (`Model/Dec.lean`, which is what C01–C03, C08, C13 … are proved about) agree on: acceptance, the value, the new cursor, the
  recorded key span — and the method never panics, never diverges, and changes no other field.
-/
set_option linter.unusedSimpArgs false
set_option linter.unusedVariables false
namespace Csproto.Bridge.DecoderFuncs
open Csproto Csproto.Generated.WireFuncs Csproto.Bridge Csproto.Bridge.WireFuncs

/-- the model state a receiver denotes -/
def decOf (p : Bytes) (off ks ke : BitVec 64) (fast : Bool) : Dec :=
  { p := p, off := off.toNat, fast := fast, ks := ks.toNat, ke := ke.toNat }

theorem off_eq (off : BitVec 64) : off = BitVec.ofNat 64 off.toNat := by simp

/-- `d.offset >= len(d.p)` as the translator renders it -/
theorem eof_test (p : Bytes) (off : BitVec 64) (hp : p.length < 2 ^ 63) (hoff : off.toNat ≤ p.length) :
    BitVec.sle (BitVec.ofNat 64 p.length) off = decide (p.length ≤ off.toNat) := by
  conv => lhs; rw [off_eq off]
  exact sle_ofNat p.length off.toNat hp (by omega)

/-- what the call `DecodeVarint(d.p[d.offset:])` yields, in the model's vocabulary -/
theorem call_varint (fuel : Nat) (hf : 11 ≤ fuel) (q : Bytes) (hq : q.length < 2 ^ 63) :
    ∃ v n e c, DecodeVarint fuel q = .ret (v, n, e) c ∧
      ((e = .nil ∧ decodeVarint q = .ok (v.toNat, n.toNat) ∧ 0 < n.toNat ∧ n.toNat ≤ q.length) ∨
       (e ≠ .nil ∧ ∀ r, decodeVarint q ≠ .ok r)) := by
  obtain ⟨v, n, e, c, hd⟩ := DecodeVarint_returns fuel hf q hq
  have h := DecodeVarint_eq fuel hf q hq
  rw [hd] at h
  refine ⟨v, n, e, c, hd, ?_⟩
  cases e with
  | nil =>
    left
    simp only [toRes] at h
    cases hm : decodeVarint q with
    | ok r =>
      rw [hm] at h; simp only [Res.ok.injEq] at h; subst h
      exact ⟨rfl, rfl, decodeVarint_pos hm, (decodeVarint_ok q).2 _ _ hm⟩
    | err => rw [hm] at h; simp at h
    | panic => rw [hm] at h; simp at h
  | invalidVarint | unexpectedEOF | overflow | other w =>
    right
    simp only [toRes] at h
    refine ⟨by simp, ?_⟩
    intro r hr; rw [hr] at h; simp at h

theorem add_toNat (off n : BitVec 64) (h : off.toNat + n.toNat < 2 ^ 64) : (off + n).toNat = off.toNat + n.toNat := by
  rw [BitVec.toNat_add]; exact Nat.mod_eq_of_lt h

theorem drop_len (p : Bytes) (k : Nat) (hp : p.length < 2 ^ 63) : (p.drop k).length < 2 ^ 63 := by
  simp; omega

/-- **`(*Decoder).DecodeUInt64` of the source refines `Dec.step .uint64`** -/
theorem DecodeUInt64_refines (fuel : Nat) (hf : 11 ≤ fuel) (p : Bytes) (off mode ks ke : BitVec 64) (fast : Bool)
    (hp : p.length < 2 ^ 63) (hoff : off.toNat ≤ p.length) :
    ∃ v e s, Decoder_DecodeUInt64 fuel p off mode ks ke = .ret (v, e) s ∧
      s.d_p = p ∧ s.d_mode = mode ∧ s.d_keyStart = ks ∧ s.d_keyEnd = ke ∧
      (match ((decOf p off ks ke fast).step .uint64) with
       | (d', .ok (.nat x), _) => e = .nil ∧ v.toNat = x ∧ s.d_offset.toNat = d'.off
       | (_, .err, _) => e ≠ .nil ∧ s.d_offset = off
       | _ => False) := by
  unfold Decoder_DecodeUInt64 Decoder_DecodeUInt64.body
  simp only [Go.seq, Go.skip, eof_test p off hp hoff, Dec.step, withAlloc, Dec.scalar, decOf, Dec.len, sliceFrom]
  by_cases heof : p.length ≤ off.toNat
  · simp [heof]
    exact ⟨_, _, _, ⟨⟨rfl, rfl⟩, rfl⟩, by simp⟩
  · obtain ⟨v, n, e, c, hd, hcase⟩ := call_varint fuel hf (p.drop off.toNat) (drop_len p _ hp)
    simp only [heof, decide_false, Bool.false_eq_true, if_false, hoff, if_true, hd, ge_iff_le]
    rcases hcase with ⟨he, hm, hpos, hle⟩ | ⟨he, hm⟩
    · subst he
      have hn0 : ¬ n.toNat = 0 := by omega
      have hlen : (p.drop off.toNat).length = p.length - off.toNat := by simp
      have hsum : (off + n).toNat = off.toNat + n.toNat := add_toNat off n (by omega)
      simp [elVarint, nz, hm, hn0, n_zero_iff, hsum]
      exact ⟨_, _, _, ⟨⟨rfl, rfl⟩, rfl⟩, by simp [hsum]⟩
    · cases e with
      | nil => exact absurd rfl he
      | invalidVarint | unexpectedEOF | overflow | other w =>
        cases hmm : decodeVarint (p.drop off.toNat) with
        | ok r => exact absurd hmm (hm r)
        | err => simp [elVarint, nz, hmm]; exact ⟨_, _, _, ⟨⟨rfl, rfl⟩, rfl⟩, by simp⟩
        | panic => exact absurd hmm (decodeVarint_ok _).1

end Csproto.Bridge.DecoderFuncs
