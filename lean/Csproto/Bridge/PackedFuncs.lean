import Csproto.Bridge.SkipFuncs
/-
  Bridge for a TRANSLATED packed reader: `(*Decoder).DecodePackedUint64` of `/repo`'s current decoder.go — a `for` loop over
  the packed run that calls the translated `DecodeVarint` per element, appends to a result slice and advances the cursor,
  with inner `:=` declarations that shadow outer variables (the translator gives them state variables of their own).

  `DecodePackedUint64_refines`: for every buffer, in-range cursor and enough fuel (`len + 2`), the translated method and
  `Dec.step .packedUint64` agree on acceptance, on the element list and on the cursor — which, as in the Go code, is NOT
  restored when an element is malformed or the run overshoots its declared length; the method never panics, and the loop
  terminates (by induction on the model's fuel, the invariant relating the two loop states).
-/
set_option linter.unusedSimpArgs false
set_option linter.unusedVariables false
namespace Csproto.Bridge.PackedFuncs
open Csproto Csproto.Generated.WireFuncs Csproto.Bridge Csproto.Bridge.WireFuncs Csproto.Bridge.DecoderFuncs Csproto.Bridge.SkipFuncs

abbrev PS := Decoder_DecodePackedUint64.St
abbrev PR := Decoder_DecodePackedUint64.R

/-- what follows the loop: the `nRead != l` test and the final return -/
def tail : PS → Go.Out PS PR :=
  Go.seq (fun s => if (s.nRead != s.l) then (fun s => .ret (([] : List (BitVec 64)), (Go.Err.other "ErrInvalidPackedData")) s) s else Go.skip s)
    (fun s => .ret (s.res, Go.Err.nil) s)

def L (fuel g : Nat) : PS → Go.Out PS PR :=
  Go.loop Decoder_DecodePackedUint64.loop1.cond (Decoder_DecodePackedUint64.loop1.body fuel) Decoder_DecodePackedUint64.loop1.post g

/-- the relation between a loop state of the translation and the arguments of the model's `packedLoop` -/
structure Rel (p : Bytes) (l mode ks ke : BitVec 64) (nRead off : Nat) (acc : List Nat) (s : PS) : Prop where
  p : s.d_p = p
  l : s.l = l
  mode : s.d_mode = mode
  ks : s.d_keyStart = ks
  ke : s.d_keyEnd = ke
  nRead : s.nRead.toNat = nRead
  off : s.d_offset.toNat = off
  res : s.res.map (·.toNat) = acc.reverse

/-- what a finished run of loop + tail amounts to -/
def Outcome (p : Bytes) (mode ks ke : BitVec 64) (m : Nat × Res (List Nat)) (o : Go.Out PS PR) : Prop :=
  match m with
  | (off2, .ok vs) => ∃ R s', o = .ret (R, .nil) s' ∧ R.map (·.toNat) = vs ∧ s'.d_offset.toNat = off2 ∧
      s'.d_p = p ∧ s'.d_mode = mode ∧ s'.d_keyStart = ks ∧ s'.d_keyEnd = ke
  | (off2, .err) => ∃ R e s', o = .ret (R, e) s' ∧ e ≠ .nil ∧ s'.d_offset.toNat = off2 ∧
      s'.d_p = p ∧ s'.d_mode = mode ∧ s'.d_keyStart = ks ∧ s'.d_keyEnd = ke
  | (_, .panic) => False

theorem ult_iff (a b : BitVec 64) : BitVec.ult a b = decide (a.toNat < b.toNat) := by simp [BitVec.ult]

/-- **the loop of the source = the loop of the model**, by induction on the model's fuel -/
theorem loop_eq (fuel : Nat) (hf : 11 ≤ fuel) (p : Bytes) (l mode ks ke : BitVec 64) (hp : p.length < 2 ^ 62) :
    ∀ (k nRead off : Nat) (acc : List Nat) (s : PS) (g : Nat), Rel p l mode ks ke nRead off acc s →
      off ≤ p.length → nRead ≤ off → p.length - off < k → p.length - off < g →
      Outcome p mode ks ke (packedLoop elVarint p l.toNat k nRead off acc) (Go.seq (L fuel g) tail s) := by
  intro k
  induction k with
  | zero => intro nRead off acc s g hr ho hn hk hg; omega
  | succ k ih =>
    intro nRead off acc s g hr ho hn hk hg
    obtain ⟨g', rfl⟩ : ∃ g', g = g' + 1 := ⟨g - 1, by omega⟩
    have hp63 : p.length < 2 ^ 63 := by omega
    have hcond : Decoder_DecodePackedUint64.loop1.cond s = some (decide (nRead < l.toNat)) := by
      simp [Decoder_DecodePackedUint64.loop1.cond, ult_iff, hr.nRead, hr.l]
    simp only [packedLoop, Go.seq, L, Go.loop, hcond]
    by_cases hlt : nRead < l.toNat
    · simp only [hlt, decide_true, if_true]
      -- one iteration
      have heof : BitVec.sle (BitVec.ofNat 64 s.d_p.length) s.d_offset = decide (p.length ≤ off) := by
        rw [hr.p, eof_test p s.d_offset hp63 (by rw [hr.off]; exact ho), hr.off]
      by_cases he : p.length ≤ off
      · have hge : off ≥ p.length := he
        have hbody : Decoder_DecodePackedUint64.loop1.body fuel s = .ret (([] : List (BitVec 64)), Go.Err.unexpectedEOF) s := by
          simp [Decoder_DecodePackedUint64.loop1.body, Go.seq, Go.skip, heof, he]
        simp only [hbody, hge, if_true, Outcome]
        exact ⟨_, _, _, rfl, by simp, hr.off, hr.p, hr.mode, hr.ks, hr.ke⟩
      · have hge : ¬ off ≥ p.length := he
        have hle : s.d_offset.toNat ≤ s.d_p.length := by rw [hr.off, hr.p]; exact ho
        obtain ⟨v, n, e, c, hd, hcase⟩ := call_varint fuel hf (p.drop off) (drop_len p _ hp63)
        have hd' : DecodeVarint fuel (s.d_p.drop s.d_offset.toNat) = .ret (v, n, e) c := by rw [hr.p, hr.off]; exact hd
        simp only [hge, if_false, sliceFrom, ho, if_true]
        rcases hcase with ⟨hen, hm, hpos, hlen⟩ | ⟨hen, hm⟩
        · subst hen
          have hn0 : ¬ n.toNat = 0 := by omega
          have hdl : (p.drop off).length = p.length - off := by simp
          have hbody : Decoder_DecodePackedUint64.loop1.body fuel s =
              .next { s with v := v, n_1 := n, err_1 := Go.Err.nil, nRead := s.nRead + n, d_offset := s.d_offset + n, res := s.res ++ [v] } := by
            simp [Decoder_DecodePackedUint64.loop1.body, Go.seq, Go.skip, heof, he, hle, hd', n_zero_iff, hn0]
          simp only [hbody, Decoder_DecodePackedUint64.loop1.post, Go.skip, elVarint, nz, hm, hn0, if_false]
          have hoff' : (s.d_offset + n).toNat = off + n.toNat := by rw [add_toNat s.d_offset n (by rw [hr.off]; omega), hr.off]
          have hnr' : (s.nRead + n).toNat = nRead + n.toNat := by rw [add_toNat s.nRead n (by rw [hr.nRead]; omega), hr.nRead]
          exact ih (nRead + n.toNat) (off + n.toNat) (v.toNat :: acc) _ g'
            ⟨hr.p, hr.l, hr.mode, hr.ks, hr.ke, hnr', hoff', by simp [hr.res]⟩ (by omega) (by omega) (by omega) (by omega)
        · have hbody : ∃ e', e' ≠ Go.Err.nil ∧ Decoder_DecodePackedUint64.loop1.body fuel s =
              .ret (([] : List (BitVec 64)), e') { s with v := v, n_1 := n, err_1 := e } := by
            refine ⟨e, hen, ?_⟩
            cases e with
            | nil => exact absurd rfl hen
            | invalidVarint | unexpectedEOF | overflow | other w =>
              simp [Decoder_DecodePackedUint64.loop1.body, Go.seq, Go.skip, heof, he, hle, hd']
          obtain ⟨e', hne', hb⟩ := hbody
          cases hmm : decodeVarint (p.drop off) with
          | ok r => exact absurd hmm (hm r)
          | err =>
            simp only [hb, elVarint, nz, hmm, Outcome]
            exact ⟨_, _, _, rfl, hne', hr.off, hr.p, hr.mode, hr.ks, hr.ke⟩
          | panic => exact absurd hmm (decodeVarint_ok _).1
    · simp only [hlt, decide_false, Bool.false_eq_true, if_false, tail, Go.seq, Go.skip]
      have hbne : (s.nRead != s.l) = decide (nRead ≠ l.toNat) := by rw [bne_iff, hr.nRead, hr.l]
      by_cases hne : nRead ≠ l.toNat
      · simp only [hbne, hne, decide_true, if_true, ne_eq, not_false_eq_true, Outcome]
        exact ⟨_, _, _, rfl, by simp, hr.off, hr.p, hr.mode, hr.ks, hr.ke⟩
      · simp only [hbne, hne, decide_false, Bool.false_eq_true, if_false, ne_eq, Outcome]
        exact ⟨_, _, rfl, by rw [hr.res], hr.off, hr.p, hr.mode, hr.ks, hr.ke⟩

/-- **`(*Decoder).DecodePackedUint64` of the source refines `Dec.step .packedUint64`** -/
theorem DecodePackedUint64_refines (fuel : Nat) (hf : 11 ≤ fuel) (p : Bytes) (off mode ks ke : BitVec 64) (fast : Bool)
    (hp : p.length < 2 ^ 62) (hfl : p.length + 2 ≤ fuel) (hoff : off.toNat ≤ p.length) :
    ∃ R e s, Decoder_DecodePackedUint64 fuel p off mode ks ke = .ret (R, e) s ∧
      s.d_p = p ∧ s.d_mode = mode ∧ s.d_keyStart = ks ∧ s.d_keyEnd = ke ∧
      (match ((decOf p off ks ke fast).step .packedUint64) with
       | (d', .ok (.nats vs), _) => e = .nil ∧ R.map (·.toNat) = vs ∧ s.d_offset.toNat = d'.off
       | (d', .err, _) => e ≠ .nil ∧ s.d_offset.toNat = d'.off
       | _ => False) := by
  have hp63 : p.length < 2 ^ 63 := by omega
  unfold Decoder_DecodePackedUint64 Decoder_DecodePackedUint64.body
  simp only [Go.seq, Go.skip, eof_test p off hp63 hoff, Dec.step, Dec.packed, decOf, Dec.len, sliceFrom]
  by_cases heof : p.length ≤ off.toNat
  · simp [heof]
    exact ⟨_, _, _, ⟨⟨rfl, rfl⟩, rfl⟩, by simp⟩
  · obtain ⟨l, n, e, c, hd, hcase⟩ := call_varint fuel hf (p.drop off.toNat) (drop_len p _ hp63)
    simp only [heof, decide_false, Bool.false_eq_true, if_false, hoff, if_true, hd, ge_iff_le]
    rcases hcase with ⟨he, hm, hpos, hle⟩ | ⟨he, hm⟩
    · subst he
      have hn0 : ¬ n.toNat = 0 := by omega
      have hlen : (p.drop off.toNat).length = p.length - off.toNat := by simp
      have hsum : (off + n).toNat = off.toNat + n.toNat := add_toNat off n (by omega)
      simp only [elVarint, nz, hm, hn0, if_false, bne_self_eq_false, Bool.false_eq_true, n_zero_iff, decide_false]
      have hL := loop_eq fuel hf p l mode ks ke hp (p.length + 1) 0 (off.toNat + n.toNat) []
        { d_p := p, d_offset := off + n, d_mode := mode, d_keyStart := ks, d_keyEnd := ke, l := l, n := n, packedDataStart := off + n }
        fuel ⟨rfl, rfl, rfl, rfl, rfl, rfl, hsum, rfl⟩ (by omega) (by omega) (by omega) (by omega)
      simp only [Go.seq, L, tail, Go.skip] at hL
      cases hpl : packedLoop elVarint p l.toNat (p.length + 1) 0 (off.toNat + n.toNat) [] with
      | mk off2 r =>
        rw [hpl] at hL
        cases r with
        | ok vs =>
          simp only [Outcome] at hL
          obtain ⟨R, s', ho, hR, h1, h2, h3, h4, h5⟩ := hL
          rw [ho]
          exact ⟨R, .nil, s', rfl, h2, h3, h4, h5, rfl, hR, h1⟩
        | err =>
          simp only [Outcome] at hL
          obtain ⟨R, e', s', ho, hne, h1, h2, h3, h4, h5⟩ := hL
          rw [ho]
          exact ⟨R, e', s', rfl, h2, h3, h4, h5, hne, h1⟩
        | panic => simp only [Outcome] at hL
    · cases e with
      | nil => exact absurd rfl he
      | invalidVarint | unexpectedEOF | overflow | other w =>
        cases hmm : decodeVarint (p.drop off.toNat) with
        | ok r => exact absurd hmm (hm r)
        | err => simp [elVarint, nz, hmm]; exact ⟨_, _, _, ⟨⟨rfl, rfl⟩, rfl⟩, by simp⟩
        | panic => exact absurd hmm (decodeVarint_ok _).1

/-! ## the same for `DecodePackedInt64` (elements read as int64) -/

abbrev PSI := Decoder_DecodePackedInt64.St
abbrev PRI := Decoder_DecodePackedInt64.R

/-- what follows the loop: the `nRead != l` test and the final return -/
def tailI : PSI → Go.Out PSI PRI :=
  Go.seq (fun s => if (s.nRead != s.l) then (fun s => .ret (([] : List (BitVec 64)), (Go.Err.other "ErrInvalidPackedData")) s) s else Go.skip s)
    (fun s => .ret (s.res, Go.Err.nil) s)

def LI (fuel g : Nat) : PSI → Go.Out PSI PRI :=
  Go.loop Decoder_DecodePackedInt64.loop1.cond (Decoder_DecodePackedInt64.loop1.body fuel) Decoder_DecodePackedInt64.loop1.post g

/-- the relation between a loop state of the translation and the arguments of the model's `packedLoop` -/
structure RelI (p : Bytes) (l mode ks ke : BitVec 64) (nRead off : Nat) (acc : List Int) (s : PSI) : Prop where
  p : s.d_p = p
  l : s.l = l
  mode : s.d_mode = mode
  ks : s.d_keyStart = ks
  ke : s.d_keyEnd = ke
  nRead : s.nRead.toNat = nRead
  off : s.d_offset.toNat = off
  res : s.res.map (·.toInt) = acc.reverse

/-- what a finished run of loop + tailI amounts to -/
def OutcomeI (p : Bytes) (mode ks ke : BitVec 64) (m : Nat × Res (List Int)) (o : Go.Out PSI PRI) : Prop :=
  match m with
  | (off2, .ok vs) => ∃ R s', o = .ret (R, .nil) s' ∧ R.map (·.toInt) = vs ∧ s'.d_offset.toNat = off2 ∧
      s'.d_p = p ∧ s'.d_mode = mode ∧ s'.d_keyStart = ks ∧ s'.d_keyEnd = ke
  | (off2, .err) => ∃ R e s', o = .ret (R, e) s' ∧ e ≠ .nil ∧ s'.d_offset.toNat = off2 ∧
      s'.d_p = p ∧ s'.d_mode = mode ∧ s'.d_keyStart = ks ∧ s'.d_keyEnd = ke
  | (_, .panic) => False


/-- **the loop of the source = the loop of the model**, by induction on the model's fuel -/
theorem loop_eqI (fuel : Nat) (hf : 11 ≤ fuel) (p : Bytes) (l mode ks ke : BitVec 64) (hp : p.length < 2 ^ 62) :
    ∀ (k nRead off : Nat) (acc : List Int) (s : PSI) (g : Nat), RelI p l mode ks ke nRead off acc s →
      off ≤ p.length → nRead ≤ off → p.length - off < k → p.length - off < g →
      OutcomeI p mode ks ke (packedLoop elInt64 p l.toNat k nRead off acc) (Go.seq (LI fuel g) tailI s) := by
  intro k
  induction k with
  | zero => intro nRead off acc s g hr ho hn hk hg; omega
  | succ k ih =>
    intro nRead off acc s g hr ho hn hk hg
    obtain ⟨g', rfl⟩ : ∃ g', g = g' + 1 := ⟨g - 1, by omega⟩
    have hp63 : p.length < 2 ^ 63 := by omega
    have hcond : Decoder_DecodePackedInt64.loop1.cond s = some (decide (nRead < l.toNat)) := by
      simp [Decoder_DecodePackedInt64.loop1.cond, ult_iff, hr.nRead, hr.l]
    simp only [packedLoop, Go.seq, LI, Go.loop, hcond]
    by_cases hlt : nRead < l.toNat
    · simp only [hlt, decide_true, if_true]
      -- one iteration
      have heof : BitVec.sle (BitVec.ofNat 64 s.d_p.length) s.d_offset = decide (p.length ≤ off) := by
        rw [hr.p, eof_test p s.d_offset hp63 (by rw [hr.off]; exact ho), hr.off]
      by_cases he : p.length ≤ off
      · have hge : off ≥ p.length := he
        have hbody : Decoder_DecodePackedInt64.loop1.body fuel s = .ret (([] : List (BitVec 64)), Go.Err.unexpectedEOF) s := by
          simp [Decoder_DecodePackedInt64.loop1.body, Go.seq, Go.skip, heof, he]
        simp only [hbody, hge, if_true, OutcomeI]
        exact ⟨_, _, _, rfl, by simp, hr.off, hr.p, hr.mode, hr.ks, hr.ke⟩
      · have hge : ¬ off ≥ p.length := he
        have hle : s.d_offset.toNat ≤ s.d_p.length := by rw [hr.off, hr.p]; exact ho
        obtain ⟨v, n, e, c, hd, hcase⟩ := call_varint fuel hf (p.drop off) (drop_len p _ hp63)
        have hd' : DecodeVarint fuel (s.d_p.drop s.d_offset.toNat) = .ret (v, n, e) c := by rw [hr.p, hr.off]; exact hd
        simp only [hge, if_false, sliceFrom, ho, if_true]
        rcases hcase with ⟨hen, hm, hpos, hlen⟩ | ⟨hen, hm⟩
        · subst hen
          have hn0 : ¬ n.toNat = 0 := by omega
          have hdl : (p.drop off).length = p.length - off := by simp
          have hbody : Decoder_DecodePackedInt64.loop1.body fuel s =
              .next { s with v := v, n_1 := n, err_1 := Go.Err.nil, nRead := s.nRead + n, d_offset := s.d_offset + n, res := s.res ++ [v] } := by
            simp [Decoder_DecodePackedInt64.loop1.body, Go.seq, Go.skip, heof, he, hle, hd', n_zero_iff, hn0]
          simp only [hbody, Decoder_DecodePackedInt64.loop1.post, Go.skip, elInt64, Res.map, elVarint, nz, hm, hn0, if_false, toI64_toNat]
          have hoff' : (s.d_offset + n).toNat = off + n.toNat := by rw [add_toNat s.d_offset n (by rw [hr.off]; omega), hr.off]
          have hnr' : (s.nRead + n).toNat = nRead + n.toNat := by rw [add_toNat s.nRead n (by rw [hr.nRead]; omega), hr.nRead]
          exact ih (nRead + n.toNat) (off + n.toNat) (v.toInt :: acc) _ g'
            ⟨hr.p, hr.l, hr.mode, hr.ks, hr.ke, hnr', hoff', by simp [hr.res]⟩ (by omega) (by omega) (by omega) (by omega)
        · have hbody : ∃ e', e' ≠ Go.Err.nil ∧ Decoder_DecodePackedInt64.loop1.body fuel s =
              .ret (([] : List (BitVec 64)), e') { s with v := v, n_1 := n, err_1 := e } := by
            refine ⟨e, hen, ?_⟩
            cases e with
            | nil => exact absurd rfl hen
            | invalidVarint | unexpectedEOF | overflow | other w =>
              simp [Decoder_DecodePackedInt64.loop1.body, Go.seq, Go.skip, heof, he, hle, hd']
          obtain ⟨e', hne', hb⟩ := hbody
          cases hmm : decodeVarint (p.drop off) with
          | ok r => exact absurd hmm (hm r)
          | err =>
            simp only [hb, elInt64, Res.map, elVarint, nz, hmm, OutcomeI]
            exact ⟨_, _, _, rfl, hne', hr.off, hr.p, hr.mode, hr.ks, hr.ke⟩
          | panic => exact absurd hmm (decodeVarint_ok _).1
    · simp only [hlt, decide_false, Bool.false_eq_true, if_false, tailI, Go.seq, Go.skip]
      have hbne : (s.nRead != s.l) = decide (nRead ≠ l.toNat) := by rw [bne_iff, hr.nRead, hr.l]
      by_cases hne : nRead ≠ l.toNat
      · simp only [hbne, hne, decide_true, if_true, ne_eq, not_false_eq_true, OutcomeI]
        exact ⟨_, _, _, rfl, by simp, hr.off, hr.p, hr.mode, hr.ks, hr.ke⟩
      · simp only [hbne, hne, decide_false, Bool.false_eq_true, if_false, ne_eq, OutcomeI]
        exact ⟨_, _, rfl, by rw [hr.res], hr.off, hr.p, hr.mode, hr.ks, hr.ke⟩

/-- **`(*Decoder).DecodePackedUint64` of the source refines `Dec.step .packedInt64`** -/
theorem DecodePackedInt64_refines (fuel : Nat) (hf : 11 ≤ fuel) (p : Bytes) (off mode ks ke : BitVec 64) (fast : Bool)
    (hp : p.length < 2 ^ 62) (hfl : p.length + 2 ≤ fuel) (hoff : off.toNat ≤ p.length) :
    ∃ R e s, Decoder_DecodePackedInt64 fuel p off mode ks ke = .ret (R, e) s ∧
      s.d_p = p ∧ s.d_mode = mode ∧ s.d_keyStart = ks ∧ s.d_keyEnd = ke ∧
      (match ((decOf p off ks ke fast).step .packedInt64) with
       | (d', .ok (.ints vs), _) => e = .nil ∧ R.map (·.toInt) = vs ∧ s.d_offset.toNat = d'.off
       | (d', .err, _) => e ≠ .nil ∧ s.d_offset.toNat = d'.off
       | _ => False) := by
  have hp63 : p.length < 2 ^ 63 := by omega
  unfold Decoder_DecodePackedInt64 Decoder_DecodePackedInt64.body
  simp only [Go.seq, Go.skip, eof_test p off hp63 hoff, Dec.step, Dec.packed, decOf, Dec.len, sliceFrom]
  by_cases heof : p.length ≤ off.toNat
  · simp [heof]
    exact ⟨_, _, _, ⟨⟨rfl, rfl⟩, rfl⟩, by simp⟩
  · obtain ⟨l, n, e, c, hd, hcase⟩ := call_varint fuel hf (p.drop off.toNat) (drop_len p _ hp63)
    simp only [heof, decide_false, Bool.false_eq_true, if_false, hoff, if_true, hd, ge_iff_le]
    rcases hcase with ⟨he, hm, hpos, hle⟩ | ⟨he, hm⟩
    · subst he
      have hn0 : ¬ n.toNat = 0 := by omega
      have hlen : (p.drop off.toNat).length = p.length - off.toNat := by simp
      have hsum : (off + n).toNat = off.toNat + n.toNat := add_toNat off n (by omega)
      simp only [elVarint, nz, hm, hn0, if_false, bne_self_eq_false, Bool.false_eq_true, n_zero_iff, decide_false]
      have hL := loop_eqI fuel hf p l mode ks ke hp (p.length + 1) 0 (off.toNat + n.toNat) []
        { d_p := p, d_offset := off + n, d_mode := mode, d_keyStart := ks, d_keyEnd := ke, l := l, n := n, packedDataStart := off + n }
        fuel ⟨rfl, rfl, rfl, rfl, rfl, rfl, hsum, rfl⟩ (by omega) (by omega) (by omega) (by omega)
      simp only [Go.seq, LI, tailI, Go.skip] at hL
      cases hpl : packedLoop elInt64 p l.toNat (p.length + 1) 0 (off.toNat + n.toNat) [] with
      | mk off2 r =>
        rw [hpl] at hL
        cases r with
        | ok vs =>
          simp only [OutcomeI] at hL
          obtain ⟨R, s', ho, hR, h1, h2, h3, h4, h5⟩ := hL
          rw [ho]
          exact ⟨R, .nil, s', rfl, h2, h3, h4, h5, rfl, hR, h1⟩
        | err =>
          simp only [OutcomeI] at hL
          obtain ⟨R, e', s', ho, hne, h1, h2, h3, h4, h5⟩ := hL
          rw [ho]
          exact ⟨R, e', s', rfl, h2, h3, h4, h5, hne, h1⟩
        | panic => simp only [OutcomeI] at hL
    · cases e with
      | nil => exact absurd rfl he
      | invalidVarint | unexpectedEOF | overflow | other w =>
        cases hmm : decodeVarint (p.drop off.toNat) with
        | ok r => exact absurd hmm (hm r)
        | err => simp [elVarint, nz, hmm]; exact ⟨_, _, _, ⟨⟨rfl, rfl⟩, rfl⟩, by simp⟩
        | panic => exact absurd hmm (decodeVarint_ok _).1


theorem decodeZigZag64_ne_panic (q : Bytes) : decodeZigZag64 q ≠ .panic := by
  unfold decodeZigZag64
  cases hm : decodeVarint q with
  | ok r => obtain ⟨a, b⟩ := r; simp; split <;> simp
  | err => simp
  | panic => exact absurd hm (decodeVarint_ok _).1

/-! ## the same for `DecodePackedSint64` (elements read by the translated `DecodeZigZag64`) -/

abbrev PSS := Decoder_DecodePackedSint64.St
abbrev PRS := Decoder_DecodePackedSint64.R

/-- what follows the loop: the `nRead != l` test and the final return -/
def tailS : PSS → Go.Out PSS PRS :=
  Go.seq (fun s => if (s.nRead != s.l) then (fun s => .ret (([] : List (BitVec 64)), (Go.Err.other "ErrInvalidPackedData")) s) s else Go.skip s)
    (fun s => .ret (s.res, Go.Err.nil) s)

def LS (fuel g : Nat) : PSS → Go.Out PSS PRS :=
  Go.loop Decoder_DecodePackedSint64.loop1.cond (Decoder_DecodePackedSint64.loop1.body fuel) Decoder_DecodePackedSint64.loop1.post g

/-- the relation between a loop state of the translation and the arguments of the model's `packedLoop` -/
structure RelS (p : Bytes) (l mode ks ke : BitVec 64) (nRead off : Nat) (acc : List Int) (s : PSS) : Prop where
  p : s.d_p = p
  l : s.l = l
  mode : s.d_mode = mode
  ks : s.d_keyStart = ks
  ke : s.d_keyEnd = ke
  nRead : s.nRead.toNat = nRead
  off : s.d_offset.toNat = off
  res : s.res.map (·.toInt) = acc.reverse

/-- what a finished run of loop + tailS amounts to -/
def OutcomeS (p : Bytes) (mode ks ke : BitVec 64) (m : Nat × Res (List Int)) (o : Go.Out PSS PRS) : Prop :=
  match m with
  | (off2, .ok vs) => ∃ R s', o = .ret (R, .nil) s' ∧ R.map (·.toInt) = vs ∧ s'.d_offset.toNat = off2 ∧
      s'.d_p = p ∧ s'.d_mode = mode ∧ s'.d_keyStart = ks ∧ s'.d_keyEnd = ke
  | (off2, .err) => ∃ R e s', o = .ret (R, e) s' ∧ e ≠ .nil ∧ s'.d_offset.toNat = off2 ∧
      s'.d_p = p ∧ s'.d_mode = mode ∧ s'.d_keyStart = ks ∧ s'.d_keyEnd = ke
  | (_, .panic) => False


/-- **the loop of the source = the loop of the model**, by induction on the model's fuel -/
theorem loop_eqS (fuel : Nat) (hf : 11 ≤ fuel) (p : Bytes) (l mode ks ke : BitVec 64) (hp : p.length < 2 ^ 62) :
    ∀ (k nRead off : Nat) (acc : List Int) (s : PSS) (g : Nat), RelS p l mode ks ke nRead off acc s →
      off ≤ p.length → nRead ≤ off → p.length - off < k → p.length - off < g →
      OutcomeS p mode ks ke (packedLoop elSint64 p l.toNat k nRead off acc) (Go.seq (LS fuel g) tailS s) := by
  intro k
  induction k with
  | zero => intro nRead off acc s g hr ho hn hk hg; omega
  | succ k ih =>
    intro nRead off acc s g hr ho hn hk hg
    obtain ⟨g', rfl⟩ : ∃ g', g = g' + 1 := ⟨g - 1, by omega⟩
    have hp63 : p.length < 2 ^ 63 := by omega
    have hcond : Decoder_DecodePackedSint64.loop1.cond s = some (decide (nRead < l.toNat)) := by
      simp [Decoder_DecodePackedSint64.loop1.cond, ult_iff, hr.nRead, hr.l]
    simp only [packedLoop, Go.seq, LS, Go.loop, hcond]
    by_cases hlt : nRead < l.toNat
    · simp only [hlt, decide_true, if_true]
      -- one iteration
      have heof : BitVec.sle (BitVec.ofNat 64 s.d_p.length) s.d_offset = decide (p.length ≤ off) := by
        rw [hr.p, eof_test p s.d_offset hp63 (by rw [hr.off]; exact ho), hr.off]
      by_cases he : p.length ≤ off
      · have hge : off ≥ p.length := he
        have hbody : Decoder_DecodePackedSint64.loop1.body fuel s = .ret (([] : List (BitVec 64)), Go.Err.unexpectedEOF) s := by
          simp [Decoder_DecodePackedSint64.loop1.body, Go.seq, Go.skip, heof, he]
        simp only [hbody, hge, if_true, OutcomeS]
        exact ⟨_, _, _, rfl, by simp, hr.off, hr.p, hr.mode, hr.ks, hr.ke⟩
      · have hge : ¬ off ≥ p.length := he
        have hle : s.d_offset.toNat ≤ s.d_p.length := by rw [hr.off, hr.p]; exact ho
        obtain ⟨v, n, e, c, hd, hcase⟩ := call_zigzag64 fuel hf (p.drop off) (drop_len p _ hp63)
        have hd' : DecodeZigZag64 fuel (s.d_p.drop s.d_offset.toNat) = .ret (v, n, e) c := by rw [hr.p, hr.off]; exact hd
        simp only [hge, if_false, sliceFrom, ho, if_true]
        rcases hcase with ⟨hen, hm, hpos, hlen⟩ | ⟨hen, hm⟩
        · subst hen
          have hn0 : ¬ n.toNat = 0 := by omega
          have hdl : (p.drop off).length = p.length - off := by simp
          have hbody : Decoder_DecodePackedSint64.loop1.body fuel s =
              .next { s with v := v, n_1 := n, err_1 := Go.Err.nil, nRead := s.nRead + n, d_offset := s.d_offset + n, res := s.res ++ [v] } := by
            simp [Decoder_DecodePackedSint64.loop1.body, Go.seq, Go.skip, heof, he, hle, hd', n_zero_iff, hn0]
          simp only [hbody, Decoder_DecodePackedSint64.loop1.post, Go.skip, elSint64, nz, hm, hn0, if_false]
          have hoff' : (s.d_offset + n).toNat = off + n.toNat := by rw [add_toNat s.d_offset n (by rw [hr.off]; omega), hr.off]
          have hnr' : (s.nRead + n).toNat = nRead + n.toNat := by rw [add_toNat s.nRead n (by rw [hr.nRead]; omega), hr.nRead]
          exact ih (nRead + n.toNat) (off + n.toNat) (v.toInt :: acc) _ g'
            ⟨hr.p, hr.l, hr.mode, hr.ks, hr.ke, hnr', hoff', by simp [hr.res]⟩ (by omega) (by omega) (by omega) (by omega)
        · have hbody : ∃ e', e' ≠ Go.Err.nil ∧ Decoder_DecodePackedSint64.loop1.body fuel s =
              .ret (([] : List (BitVec 64)), e') { s with v := v, n_1 := n, err_1 := e } := by
            refine ⟨e, hen, ?_⟩
            cases e with
            | nil => exact absurd rfl hen
            | invalidVarint | unexpectedEOF | overflow | other w =>
              simp [Decoder_DecodePackedSint64.loop1.body, Go.seq, Go.skip, heof, he, hle, hd']
          obtain ⟨e', hne', hb⟩ := hbody
          cases hmm : decodeZigZag64 (p.drop off) with
          | ok r => exact absurd hmm (hm r)
          | err =>
            have hel : elSint64 (p.drop off) = .err := by unfold elSint64 nz; rw [hmm]
            simp only [hb, hel, OutcomeS]
            exact ⟨_, _, _, rfl, hne', hr.off, hr.p, hr.mode, hr.ks, hr.ke⟩
          | panic => exact absurd hmm (decodeZigZag64_ne_panic _)
    · simp only [hlt, decide_false, Bool.false_eq_true, if_false, tailS, Go.seq, Go.skip]
      have hbne : (s.nRead != s.l) = decide (nRead ≠ l.toNat) := by rw [bne_iff, hr.nRead, hr.l]
      by_cases hne : nRead ≠ l.toNat
      · simp only [hbne, hne, decide_true, if_true, ne_eq, not_false_eq_true, OutcomeS]
        exact ⟨_, _, _, rfl, by simp, hr.off, hr.p, hr.mode, hr.ks, hr.ke⟩
      · simp only [hbne, hne, decide_false, Bool.false_eq_true, if_false, ne_eq, OutcomeS]
        exact ⟨_, _, rfl, by rw [hr.res], hr.off, hr.p, hr.mode, hr.ks, hr.ke⟩

/-- **`(*Decoder).DecodePackedUint64` of the source refines `Dec.step .packedSint64`** -/
theorem DecodePackedSint64_refines (fuel : Nat) (hf : 11 ≤ fuel) (p : Bytes) (off mode ks ke : BitVec 64) (fast : Bool)
    (hp : p.length < 2 ^ 62) (hfl : p.length + 2 ≤ fuel) (hoff : off.toNat ≤ p.length) :
    ∃ R e s, Decoder_DecodePackedSint64 fuel p off mode ks ke = .ret (R, e) s ∧
      s.d_p = p ∧ s.d_mode = mode ∧ s.d_keyStart = ks ∧ s.d_keyEnd = ke ∧
      (match ((decOf p off ks ke fast).step .packedSint64) with
       | (d', .ok (.ints vs), _) => e = .nil ∧ R.map (·.toInt) = vs ∧ s.d_offset.toNat = d'.off
       | (d', .err, _) => e ≠ .nil ∧ s.d_offset.toNat = d'.off
       | _ => False) := by
  have hp63 : p.length < 2 ^ 63 := by omega
  unfold Decoder_DecodePackedSint64 Decoder_DecodePackedSint64.body
  simp only [Go.seq, Go.skip, eof_test p off hp63 hoff, Dec.step, Dec.packed, decOf, Dec.len, sliceFrom]
  by_cases heof : p.length ≤ off.toNat
  · simp [heof]
    exact ⟨_, _, _, ⟨⟨rfl, rfl⟩, rfl⟩, by simp⟩
  · obtain ⟨l, n, e, c, hd, hcase⟩ := call_varint fuel hf (p.drop off.toNat) (drop_len p _ hp63)
    simp only [heof, decide_false, Bool.false_eq_true, if_false, hoff, if_true, hd, ge_iff_le]
    rcases hcase with ⟨he, hm, hpos, hle⟩ | ⟨he, hm⟩
    · subst he
      have hn0 : ¬ n.toNat = 0 := by omega
      have hlen : (p.drop off.toNat).length = p.length - off.toNat := by simp
      have hsum : (off + n).toNat = off.toNat + n.toNat := add_toNat off n (by omega)
      simp only [elVarint, nz, hm, hn0, if_false, bne_self_eq_false, Bool.false_eq_true, n_zero_iff, decide_false]
      have hL := loop_eqS fuel hf p l mode ks ke hp (p.length + 1) 0 (off.toNat + n.toNat) []
        { d_p := p, d_offset := off + n, d_mode := mode, d_keyStart := ks, d_keyEnd := ke, l := l, n := n, packedDataStart := off + n }
        fuel ⟨rfl, rfl, rfl, rfl, rfl, rfl, hsum, rfl⟩ (by omega) (by omega) (by omega) (by omega)
      simp only [Go.seq, LS, tailS, Go.skip] at hL
      cases hpl : packedLoop elSint64 p l.toNat (p.length + 1) 0 (off.toNat + n.toNat) [] with
      | mk off2 r =>
        rw [hpl] at hL
        cases r with
        | ok vs =>
          simp only [OutcomeS] at hL
          obtain ⟨R, s', ho, hR, h1, h2, h3, h4, h5⟩ := hL
          rw [ho]
          exact ⟨R, .nil, s', rfl, h2, h3, h4, h5, rfl, hR, h1⟩
        | err =>
          simp only [OutcomeS] at hL
          obtain ⟨R, e', s', ho, hne, h1, h2, h3, h4, h5⟩ := hL
          rw [ho]
          exact ⟨R, e', s', rfl, h2, h3, h4, h5, hne, h1⟩
        | panic => simp only [OutcomeS] at hL
    · cases e with
      | nil => exact absurd rfl he
      | invalidVarint | unexpectedEOF | overflow | other w =>
        cases hmm : decodeVarint (p.drop off.toNat) with
        | ok r => exact absurd hmm (hm r)
        | err => simp [elVarint, nz, hmm]; exact ⟨_, _, _, ⟨⟨rfl, rfl⟩, rfl⟩, by simp⟩
        | panic => exact absurd hmm (decodeVarint_ok _).1

theorem decodeZigZag32_ne_panic (q : Bytes) : decodeZigZag32 q ≠ .panic := by
  unfold decodeZigZag32
  cases hm : decodeVarint q with
  | ok r => obtain ⟨a, b⟩ := r; simp; split <;> simp
  | err => simp
  | panic => exact absurd hm (decodeVarint_ok _).1

/-! ## the same for `DecodePackedSint32` (`DecodeZigZag32`, a list of 32-bit elements) -/

abbrev PST := Decoder_DecodePackedSint32.St
abbrev PRT := Decoder_DecodePackedSint32.R

/-- what follows the loop: the `nRead != l` test and the final return -/
def tailT : PST → Go.Out PST PRT :=
  Go.seq (fun s => if (s.nRead != s.l) then (fun s => .ret (([] : List (BitVec 32)), (Go.Err.other "ErrInvalidPackedData")) s) s else Go.skip s)
    (fun s => .ret (s.res, Go.Err.nil) s)

def LT (fuel g : Nat) : PST → Go.Out PST PRT :=
  Go.loop Decoder_DecodePackedSint32.loop1.cond (Decoder_DecodePackedSint32.loop1.body fuel) Decoder_DecodePackedSint32.loop1.post g

/-- the relation between a loop state of the translation and the arguments of the model's `packedLoop` -/
structure RelT (p : Bytes) (l mode ks ke : BitVec 64) (nRead off : Nat) (acc : List Int) (s : PST) : Prop where
  p : s.d_p = p
  l : s.l = l
  mode : s.d_mode = mode
  ks : s.d_keyStart = ks
  ke : s.d_keyEnd = ke
  nRead : s.nRead.toNat = nRead
  off : s.d_offset.toNat = off
  res : s.res.map (·.toInt) = acc.reverse

/-- what a finished run of loop + tailT amounts to -/
def OutcomeT (p : Bytes) (mode ks ke : BitVec 64) (m : Nat × Res (List Int)) (o : Go.Out PST PRT) : Prop :=
  match m with
  | (off2, .ok vs) => ∃ R s', o = .ret (R, .nil) s' ∧ R.map (·.toInt) = vs ∧ s'.d_offset.toNat = off2 ∧
      s'.d_p = p ∧ s'.d_mode = mode ∧ s'.d_keyStart = ks ∧ s'.d_keyEnd = ke
  | (off2, .err) => ∃ R e s', o = .ret (R, e) s' ∧ e ≠ .nil ∧ s'.d_offset.toNat = off2 ∧
      s'.d_p = p ∧ s'.d_mode = mode ∧ s'.d_keyStart = ks ∧ s'.d_keyEnd = ke
  | (_, .panic) => False


/-- **the loop of the source = the loop of the model**, by induction on the model's fuel -/
theorem loop_eqT (fuel : Nat) (hf : 11 ≤ fuel) (p : Bytes) (l mode ks ke : BitVec 64) (hp : p.length < 2 ^ 62) :
    ∀ (k nRead off : Nat) (acc : List Int) (s : PST) (g : Nat), RelT p l mode ks ke nRead off acc s →
      off ≤ p.length → nRead ≤ off → p.length - off < k → p.length - off < g →
      OutcomeT p mode ks ke (packedLoop elSint32 p l.toNat k nRead off acc) (Go.seq (LT fuel g) tailT s) := by
  intro k
  induction k with
  | zero => intro nRead off acc s g hr ho hn hk hg; omega
  | succ k ih =>
    intro nRead off acc s g hr ho hn hk hg
    obtain ⟨g', rfl⟩ : ∃ g', g = g' + 1 := ⟨g - 1, by omega⟩
    have hp63 : p.length < 2 ^ 63 := by omega
    have hcond : Decoder_DecodePackedSint32.loop1.cond s = some (decide (nRead < l.toNat)) := by
      simp [Decoder_DecodePackedSint32.loop1.cond, ult_iff, hr.nRead, hr.l]
    simp only [packedLoop, Go.seq, LT, Go.loop, hcond]
    by_cases hlt : nRead < l.toNat
    · simp only [hlt, decide_true, if_true]
      -- one iteration
      have heof : BitVec.sle (BitVec.ofNat 64 s.d_p.length) s.d_offset = decide (p.length ≤ off) := by
        rw [hr.p, eof_test p s.d_offset hp63 (by rw [hr.off]; exact ho), hr.off]
      by_cases he : p.length ≤ off
      · have hge : off ≥ p.length := he
        have hbody : Decoder_DecodePackedSint32.loop1.body fuel s = .ret (([] : List (BitVec 32)), Go.Err.unexpectedEOF) s := by
          simp [Decoder_DecodePackedSint32.loop1.body, Go.seq, Go.skip, heof, he]
        simp only [hbody, hge, if_true, OutcomeT]
        exact ⟨_, _, _, rfl, by simp, hr.off, hr.p, hr.mode, hr.ks, hr.ke⟩
      · have hge : ¬ off ≥ p.length := he
        have hle : s.d_offset.toNat ≤ s.d_p.length := by rw [hr.off, hr.p]; exact ho
        obtain ⟨v, n, e, c, hd, hcase⟩ := call_zigzag32 fuel hf (p.drop off) (drop_len p _ hp63)
        have hd' : DecodeZigZag32 fuel (s.d_p.drop s.d_offset.toNat) = .ret (v, n, e) c := by rw [hr.p, hr.off]; exact hd
        simp only [hge, if_false, sliceFrom, ho, if_true]
        rcases hcase with ⟨hen, hm, hpos, hlen⟩ | ⟨hen, hm⟩
        · subst hen
          have hn0 : ¬ n.toNat = 0 := by omega
          have hdl : (p.drop off).length = p.length - off := by simp
          have hbody : Decoder_DecodePackedSint32.loop1.body fuel s =
              .next { s with v := v, n_1 := n, err_1 := Go.Err.nil, nRead := s.nRead + n, d_offset := s.d_offset + n, res := s.res ++ [v] } := by
            simp [Decoder_DecodePackedSint32.loop1.body, Go.seq, Go.skip, heof, he, hle, hd', n_zero_iff, hn0]
          simp only [hbody, Decoder_DecodePackedSint32.loop1.post, Go.skip, elSint32, nz, hm, hn0, if_false]
          have hoff' : (s.d_offset + n).toNat = off + n.toNat := by rw [add_toNat s.d_offset n (by rw [hr.off]; omega), hr.off]
          have hnr' : (s.nRead + n).toNat = nRead + n.toNat := by rw [add_toNat s.nRead n (by rw [hr.nRead]; omega), hr.nRead]
          exact ih (nRead + n.toNat) (off + n.toNat) (v.toInt :: acc) _ g'
            ⟨hr.p, hr.l, hr.mode, hr.ks, hr.ke, hnr', hoff', by simp [hr.res]⟩ (by omega) (by omega) (by omega) (by omega)
        · have hbody : ∃ e', e' ≠ Go.Err.nil ∧ Decoder_DecodePackedSint32.loop1.body fuel s =
              .ret (([] : List (BitVec 32)), e') { s with v := v, n_1 := n, err_1 := e } := by
            refine ⟨e, hen, ?_⟩
            cases e with
            | nil => exact absurd rfl hen
            | invalidVarint | unexpectedEOF | overflow | other w =>
              simp [Decoder_DecodePackedSint32.loop1.body, Go.seq, Go.skip, heof, he, hle, hd']
          obtain ⟨e', hne', hb⟩ := hbody
          cases hmm : decodeZigZag32 (p.drop off) with
          | ok r => exact absurd hmm (hm r)
          | err =>
            have hel : elSint32 (p.drop off) = .err := by unfold elSint32 nz; rw [hmm]
            simp only [hb, hel, OutcomeT]
            exact ⟨_, _, _, rfl, hne', hr.off, hr.p, hr.mode, hr.ks, hr.ke⟩
          | panic => exact absurd hmm (decodeZigZag32_ne_panic _)
    · simp only [hlt, decide_false, Bool.false_eq_true, if_false, tailT, Go.seq, Go.skip]
      have hbne : (s.nRead != s.l) = decide (nRead ≠ l.toNat) := by rw [bne_iff, hr.nRead, hr.l]
      by_cases hne : nRead ≠ l.toNat
      · simp only [hbne, hne, decide_true, if_true, ne_eq, not_false_eq_true, OutcomeT]
        exact ⟨_, _, _, rfl, by simp, hr.off, hr.p, hr.mode, hr.ks, hr.ke⟩
      · simp only [hbne, hne, decide_false, Bool.false_eq_true, if_false, ne_eq, OutcomeT]
        exact ⟨_, _, rfl, by rw [hr.res], hr.off, hr.p, hr.mode, hr.ks, hr.ke⟩

/-- **`(*Decoder).DecodePackedUint64` of the source refines `Dec.step .packedSint32`** -/
theorem DecodePackedSint32_refines (fuel : Nat) (hf : 11 ≤ fuel) (p : Bytes) (off mode ks ke : BitVec 64) (fast : Bool)
    (hp : p.length < 2 ^ 62) (hfl : p.length + 2 ≤ fuel) (hoff : off.toNat ≤ p.length) :
    ∃ R e s, Decoder_DecodePackedSint32 fuel p off mode ks ke = .ret (R, e) s ∧
      s.d_p = p ∧ s.d_mode = mode ∧ s.d_keyStart = ks ∧ s.d_keyEnd = ke ∧
      (match ((decOf p off ks ke fast).step .packedSint32) with
       | (d', .ok (.ints vs), _) => e = .nil ∧ R.map (·.toInt) = vs ∧ s.d_offset.toNat = d'.off
       | (d', .err, _) => e ≠ .nil ∧ s.d_offset.toNat = d'.off
       | _ => False) := by
  have hp63 : p.length < 2 ^ 63 := by omega
  unfold Decoder_DecodePackedSint32 Decoder_DecodePackedSint32.body
  simp only [Go.seq, Go.skip, eof_test p off hp63 hoff, Dec.step, Dec.packed, decOf, Dec.len, sliceFrom]
  by_cases heof : p.length ≤ off.toNat
  · simp [heof]
    exact ⟨_, _, _, ⟨⟨rfl, rfl⟩, rfl⟩, by simp⟩
  · obtain ⟨l, n, e, c, hd, hcase⟩ := call_varint fuel hf (p.drop off.toNat) (drop_len p _ hp63)
    simp only [heof, decide_false, Bool.false_eq_true, if_false, hoff, if_true, hd, ge_iff_le]
    rcases hcase with ⟨he, hm, hpos, hle⟩ | ⟨he, hm⟩
    · subst he
      have hn0 : ¬ n.toNat = 0 := by omega
      have hlen : (p.drop off.toNat).length = p.length - off.toNat := by simp
      have hsum : (off + n).toNat = off.toNat + n.toNat := add_toNat off n (by omega)
      simp only [elVarint, nz, hm, hn0, if_false, bne_self_eq_false, Bool.false_eq_true, n_zero_iff, decide_false]
      have hL := loop_eqT fuel hf p l mode ks ke hp (p.length + 1) 0 (off.toNat + n.toNat) []
        { d_p := p, d_offset := off + n, d_mode := mode, d_keyStart := ks, d_keyEnd := ke, l := l, n := n, packedDataStart := off + n }
        fuel ⟨rfl, rfl, rfl, rfl, rfl, rfl, hsum, rfl⟩ (by omega) (by omega) (by omega) (by omega)
      simp only [Go.seq, LT, tailT, Go.skip] at hL
      cases hpl : packedLoop elSint32 p l.toNat (p.length + 1) 0 (off.toNat + n.toNat) [] with
      | mk off2 r =>
        rw [hpl] at hL
        cases r with
        | ok vs =>
          simp only [OutcomeT] at hL
          obtain ⟨R, s', ho, hR, h1, h2, h3, h4, h5⟩ := hL
          rw [ho]
          exact ⟨R, .nil, s', rfl, h2, h3, h4, h5, rfl, hR, h1⟩
        | err =>
          simp only [OutcomeT] at hL
          obtain ⟨R, e', s', ho, hne, h1, h2, h3, h4, h5⟩ := hL
          rw [ho]
          exact ⟨R, e', s', rfl, h2, h3, h4, h5, hne, h1⟩
        | panic => simp only [OutcomeT] at hL
    · cases e with
      | nil => exact absurd rfl he
      | invalidVarint | unexpectedEOF | overflow | other w =>
        cases hmm : decodeVarint (p.drop off.toNat) with
        | ok r => exact absurd hmm (hm r)
        | err => simp [elVarint, nz, hmm]; exact ⟨_, _, _, ⟨⟨rfl, rfl⟩, rfl⟩, by simp⟩
        | panic => exact absurd hmm (decodeVarint_ok _).1

/-! ## `DecodePackedUint32`: each element must fit 32 bits (the failed call returns before any update) -/

abbrev PSU := Decoder_DecodePackedUint32.St
abbrev PRU := Decoder_DecodePackedUint32.R

/-- what follows the loop: the `nRead != l` test and the final return -/
def tailU : PSU → Go.Out PSU PRU :=
  Go.seq (fun s => if (s.nRead != s.l) then (fun s => .ret (([] : List (BitVec 32)), (Go.Err.other "ErrInvalidPackedData")) s) s else Go.skip s)
    (fun s => .ret (s.res, Go.Err.nil) s)

def LU (fuel g : Nat) : PSU → Go.Out PSU PRU :=
  Go.loop Decoder_DecodePackedUint32.loop1.cond (Decoder_DecodePackedUint32.loop1.body fuel) Decoder_DecodePackedUint32.loop1.post g

/-- the relation between a loop state of the translation and the arguments of the model's `packedLoop` -/
structure RelU (p : Bytes) (l mode ks ke : BitVec 64) (nRead off : Nat) (acc : List Nat) (s : PSU) : Prop where
  p : s.d_p = p
  l : s.l = l
  mode : s.d_mode = mode
  ks : s.d_keyStart = ks
  ke : s.d_keyEnd = ke
  nRead : s.nRead.toNat = nRead
  off : s.d_offset.toNat = off
  res : s.res.map (·.toNat) = acc.reverse

/-- what a finished run of loop + tailU amounts to -/
def OutcomeU (p : Bytes) (mode ks ke : BitVec 64) (m : Nat × Res (List Nat)) (o : Go.Out PSU PRU) : Prop :=
  match m with
  | (off2, .ok vs) => ∃ R s', o = .ret (R, .nil) s' ∧ R.map (·.toNat) = vs ∧ s'.d_offset.toNat = off2 ∧
      s'.d_p = p ∧ s'.d_mode = mode ∧ s'.d_keyStart = ks ∧ s'.d_keyEnd = ke
  | (off2, .err) => ∃ R e s', o = .ret (R, e) s' ∧ e ≠ .nil ∧ s'.d_offset.toNat = off2 ∧
      s'.d_p = p ∧ s'.d_mode = mode ∧ s'.d_keyStart = ks ∧ s'.d_keyEnd = ke
  | (_, .panic) => False


/-- **the loop of the source = the loop of the model**, by induction on the model's fuel -/
theorem loop_eqU (fuel : Nat) (hf : 11 ≤ fuel) (p : Bytes) (l mode ks ke : BitVec 64) (hp : p.length < 2 ^ 62) :
    ∀ (k nRead off : Nat) (acc : List Nat) (s : PSU) (g : Nat), RelU p l mode ks ke nRead off acc s →
      off ≤ p.length → nRead ≤ off → p.length - off < k → p.length - off < g →
      OutcomeU p mode ks ke (packedLoop elUint32 p l.toNat k nRead off acc) (Go.seq (LU fuel g) tailU s) := by
  intro k
  induction k with
  | zero => intro nRead off acc s g hr ho hn hk hg; omega
  | succ k ih =>
    intro nRead off acc s g hr ho hn hk hg
    obtain ⟨g', rfl⟩ : ∃ g', g = g' + 1 := ⟨g - 1, by omega⟩
    have hp63 : p.length < 2 ^ 63 := by omega
    have hcond : Decoder_DecodePackedUint32.loop1.cond s = some (decide (nRead < l.toNat)) := by
      simp [Decoder_DecodePackedUint32.loop1.cond, ult_iff, hr.nRead, hr.l]
    simp only [packedLoop, Go.seq, LU, Go.loop, hcond]
    by_cases hlt : nRead < l.toNat
    · simp only [hlt, decide_true, if_true]
      -- one iteration
      have heof : BitVec.sle (BitVec.ofNat 64 s.d_p.length) s.d_offset = decide (p.length ≤ off) := by
        rw [hr.p, eof_test p s.d_offset hp63 (by rw [hr.off]; exact ho), hr.off]
      by_cases he : p.length ≤ off
      · have hge : off ≥ p.length := he
        have hbody : Decoder_DecodePackedUint32.loop1.body fuel s = .ret (([] : List (BitVec 32)), Go.Err.unexpectedEOF) s := by
          simp [Decoder_DecodePackedUint32.loop1.body, Go.seq, Go.skip, heof, he]
        simp only [hbody, hge, if_true, OutcomeU]
        exact ⟨_, _, _, rfl, by simp, hr.off, hr.p, hr.mode, hr.ks, hr.ke⟩
      · have hge : ¬ off ≥ p.length := he
        have hle : s.d_offset.toNat ≤ s.d_p.length := by rw [hr.off, hr.p]; exact ho
        obtain ⟨v, n, e, c, hd, hcase⟩ := call_varint fuel hf (p.drop off) (drop_len p _ hp63)
        have hd' : DecodeVarint fuel (s.d_p.drop s.d_offset.toNat) = .ret (v, n, e) c := by rw [hr.p, hr.off]; exact hd
        simp only [hge, if_false, sliceFrom, ho, if_true]
        rcases hcase with ⟨hen, hm, hpos, hlen⟩ | ⟨hen, hm⟩
        · subst hen
          have hn0 : ¬ n.toNat = 0 := by omega
          have hdl : (p.drop off).length = p.length - off := by simp
          by_cases hbig : 4294967295 < v.toNat
          · have hbody : Decoder_DecodePackedUint32.loop1.body fuel s =
                .ret (([] : List (BitVec 32)), Go.Err.overflow) { s with v := v, n_1 := n, err_1 := Go.Err.nil } := by
              simp [Decoder_DecodePackedUint32.loop1.body, Go.seq, Go.skip, heof, he, hle, hd', n_zero_iff, hn0, ult_max32, hbig]
            have hel : elUint32 (p.drop off) = .err := by simp [elUint32, elVarint, nz, hm, hn0, hbig]
            simp only [hbody, hel, OutcomeU]
            exact ⟨_, _, _, rfl, by simp, hr.off, hr.p, hr.mode, hr.ks, hr.ke⟩
          · have hbody : Decoder_DecodePackedUint32.loop1.body fuel s =
                .next { s with v := v, n_1 := n, err_1 := Go.Err.nil, nRead := s.nRead + n, d_offset := s.d_offset + n, res := s.res ++ [BitVec.setWidth 32 v] } := by
              simp [Decoder_DecodePackedUint32.loop1.body, Go.seq, Go.skip, heof, he, hle, hd', n_zero_iff, hn0, ult_max32, hbig]
            have hel : elUint32 (p.drop off) = .ok (v.toNat, n.toNat) := by simp [elUint32, elVarint, nz, hm, hn0, hbig]
            simp only [hbody, Decoder_DecodePackedUint32.loop1.post, Go.skip, hel, hn0, if_false]
            have hoff' : (s.d_offset + n).toNat = off + n.toNat := by rw [add_toNat s.d_offset n (by rw [hr.off]; omega), hr.off]
            have hnr' : (s.nRead + n).toNat = nRead + n.toNat := by rw [add_toNat s.nRead n (by rw [hr.nRead]; omega), hr.nRead]
            have hmod : v.toNat % 4294967296 = v.toNat := Nat.mod_eq_of_lt (by omega)
            exact ih (nRead + n.toNat) (off + n.toNat) (v.toNat :: acc) _ g'
              ⟨hr.p, hr.l, hr.mode, hr.ks, hr.ke, hnr', hoff', by simp [hr.res, hmod]⟩ (by omega) (by omega) (by omega) (by omega)
        · have hbody : ∃ e', e' ≠ Go.Err.nil ∧ Decoder_DecodePackedUint32.loop1.body fuel s =
              .ret (([] : List (BitVec 32)), e') { s with v := v, n_1 := n, err_1 := e } := by
            refine ⟨e, hen, ?_⟩
            cases e with
            | nil => exact absurd rfl hen
            | invalidVarint | unexpectedEOF | overflow | other w =>
              simp [Decoder_DecodePackedUint32.loop1.body, Go.seq, Go.skip, heof, he, hle, hd']
          obtain ⟨e', hne', hb⟩ := hbody
          cases hmm : decodeVarint (p.drop off) with
          | ok r => exact absurd hmm (hm r)
          | err =>
            have hel : elUint32 (p.drop off) = .err := by simp [elUint32, elVarint, nz, hmm]
            simp only [hb, hel, OutcomeU]
            exact ⟨_, _, _, rfl, hne', hr.off, hr.p, hr.mode, hr.ks, hr.ke⟩
          | panic => exact absurd hmm (decodeVarint_ok _).1
    · simp only [hlt, decide_false, Bool.false_eq_true, if_false, tailU, Go.seq, Go.skip]
      have hbne : (s.nRead != s.l) = decide (nRead ≠ l.toNat) := by rw [bne_iff, hr.nRead, hr.l]
      by_cases hne : nRead ≠ l.toNat
      · simp only [hbne, hne, decide_true, if_true, ne_eq, not_false_eq_true, OutcomeU]
        exact ⟨_, _, _, rfl, by simp, hr.off, hr.p, hr.mode, hr.ks, hr.ke⟩
      · simp only [hbne, hne, decide_false, Bool.false_eq_true, if_false, ne_eq, OutcomeU]
        exact ⟨_, _, rfl, by rw [hr.res], hr.off, hr.p, hr.mode, hr.ks, hr.ke⟩

/-- **`(*Decoder).DecodePackedUint64` of the source refines `Dec.step .packedUint32`** -/
theorem DecodePackedUint32_refines (fuel : Nat) (hf : 11 ≤ fuel) (p : Bytes) (off mode ks ke : BitVec 64) (fast : Bool)
    (hp : p.length < 2 ^ 62) (hfl : p.length + 2 ≤ fuel) (hoff : off.toNat ≤ p.length) :
    ∃ R e s, Decoder_DecodePackedUint32 fuel p off mode ks ke = .ret (R, e) s ∧
      s.d_p = p ∧ s.d_mode = mode ∧ s.d_keyStart = ks ∧ s.d_keyEnd = ke ∧
      (match ((decOf p off ks ke fast).step .packedUint32) with
       | (d', .ok (.nats vs), _) => e = .nil ∧ R.map (·.toNat) = vs ∧ s.d_offset.toNat = d'.off
       | (d', .err, _) => e ≠ .nil ∧ s.d_offset.toNat = d'.off
       | _ => False) := by
  have hp63 : p.length < 2 ^ 63 := by omega
  unfold Decoder_DecodePackedUint32 Decoder_DecodePackedUint32.body
  simp only [Go.seq, Go.skip, eof_test p off hp63 hoff, Dec.step, Dec.packed, decOf, Dec.len, sliceFrom]
  by_cases heof : p.length ≤ off.toNat
  · simp [heof]
    exact ⟨_, _, _, ⟨⟨rfl, rfl⟩, rfl⟩, by simp⟩
  · obtain ⟨l, n, e, c, hd, hcase⟩ := call_varint fuel hf (p.drop off.toNat) (drop_len p _ hp63)
    simp only [heof, decide_false, Bool.false_eq_true, if_false, hoff, if_true, hd, ge_iff_le]
    rcases hcase with ⟨he, hm, hpos, hle⟩ | ⟨he, hm⟩
    · subst he
      have hn0 : ¬ n.toNat = 0 := by omega
      have hlen : (p.drop off.toNat).length = p.length - off.toNat := by simp
      have hsum : (off + n).toNat = off.toNat + n.toNat := add_toNat off n (by omega)
      simp only [elVarint, nz, hm, hn0, if_false, bne_self_eq_false, Bool.false_eq_true, n_zero_iff, decide_false]
      have hL := loop_eqU fuel hf p l mode ks ke hp (p.length + 1) 0 (off.toNat + n.toNat) []
        { d_p := p, d_offset := off + n, d_mode := mode, d_keyStart := ks, d_keyEnd := ke, l := l, n := n, packedDataStart := off + n }
        fuel ⟨rfl, rfl, rfl, rfl, rfl, rfl, hsum, rfl⟩ (by omega) (by omega) (by omega) (by omega)
      simp only [Go.seq, LU, tailU, Go.skip] at hL
      cases hpl : packedLoop elUint32 p l.toNat (p.length + 1) 0 (off.toNat + n.toNat) [] with
      | mk off2 r =>
        rw [hpl] at hL
        cases r with
        | ok vs =>
          simp only [OutcomeU] at hL
          obtain ⟨R, s', ho, hR, h1, h2, h3, h4, h5⟩ := hL
          rw [ho]
          exact ⟨R, .nil, s', rfl, h2, h3, h4, h5, rfl, hR, h1⟩
        | err =>
          simp only [OutcomeU] at hL
          obtain ⟨R, e', s', ho, hne, h1, h2, h3, h4, h5⟩ := hL
          rw [ho]
          exact ⟨R, e', s', rfl, h2, h3, h4, h5, hne, h1⟩
        | panic => simp only [OutcomeU] at hL
    · cases e with
      | nil => exact absurd rfl he
      | invalidVarint | unexpectedEOF | overflow | other w =>
        cases hmm : decodeVarint (p.drop off.toNat) with
        | ok r => exact absurd hmm (hm r)
        | err => simp [elVarint, nz, hmm]; exact ⟨_, _, _, ⟨⟨rfl, rfl⟩, rfl⟩, by simp⟩
        | panic => exact absurd hmm (decodeVarint_ok _).1


/-! ## `DecodePackedInt32`: `int64(v)` must lie in the int32 range; elements are truncated to 32 bits -/

abbrev PSJ := Decoder_DecodePackedInt32.St
abbrev PRJ := Decoder_DecodePackedInt32.R

/-- what follows the loop: the `nRead != l` test and the final return -/
def tailJ : PSJ → Go.Out PSJ PRJ :=
  Go.seq (fun s => if (s.nRead != s.l) then (fun s => .ret (([] : List (BitVec 32)), (Go.Err.other "ErrInvalidPackedData")) s) s else Go.skip s)
    (fun s => .ret (s.res, Go.Err.nil) s)

def LJ (fuel g : Nat) : PSJ → Go.Out PSJ PRJ :=
  Go.loop Decoder_DecodePackedInt32.loop1.cond (Decoder_DecodePackedInt32.loop1.body fuel) Decoder_DecodePackedInt32.loop1.post g

/-- the relation between a loop state of the translation and the arguments of the model's `packedLoop` -/
structure RelJ (p : Bytes) (l mode ks ke : BitVec 64) (nRead off : Nat) (acc : List Int) (s : PSJ) : Prop where
  p : s.d_p = p
  l : s.l = l
  mode : s.d_mode = mode
  ks : s.d_keyStart = ks
  ke : s.d_keyEnd = ke
  nRead : s.nRead.toNat = nRead
  off : s.d_offset.toNat = off
  res : s.res.map (·.toInt) = acc.reverse

/-- what a finished run of loop + tailJ amounts to -/
def OutcomeJ (p : Bytes) (mode ks ke : BitVec 64) (m : Nat × Res (List Int)) (o : Go.Out PSJ PRJ) : Prop :=
  match m with
  | (off2, .ok vs) => ∃ R s', o = .ret (R, .nil) s' ∧ R.map (·.toInt) = vs ∧ s'.d_offset.toNat = off2 ∧
      s'.d_p = p ∧ s'.d_mode = mode ∧ s'.d_keyStart = ks ∧ s'.d_keyEnd = ke
  | (off2, .err) => ∃ R e s', o = .ret (R, e) s' ∧ e ≠ .nil ∧ s'.d_offset.toNat = off2 ∧
      s'.d_p = p ∧ s'.d_mode = mode ∧ s'.d_keyStart = ks ∧ s'.d_keyEnd = ke
  | (_, .panic) => False


/-- **the loop of the source = the loop of the model**, by induction on the model's fuel -/
theorem loop_eqJ (fuel : Nat) (hf : 11 ≤ fuel) (p : Bytes) (l mode ks ke : BitVec 64) (hp : p.length < 2 ^ 62) :
    ∀ (k nRead off : Nat) (acc : List Int) (s : PSJ) (g : Nat), RelJ p l mode ks ke nRead off acc s →
      off ≤ p.length → nRead ≤ off → p.length - off < k → p.length - off < g →
      OutcomeJ p mode ks ke (packedLoop elInt32 p l.toNat k nRead off acc) (Go.seq (LJ fuel g) tailJ s) := by
  intro k
  induction k with
  | zero => intro nRead off acc s g hr ho hn hk hg; omega
  | succ k ih =>
    intro nRead off acc s g hr ho hn hk hg
    obtain ⟨g', rfl⟩ : ∃ g', g = g' + 1 := ⟨g - 1, by omega⟩
    have hp63 : p.length < 2 ^ 63 := by omega
    have hcond : Decoder_DecodePackedInt32.loop1.cond s = some (decide (nRead < l.toNat)) := by
      simp [Decoder_DecodePackedInt32.loop1.cond, ult_iff, hr.nRead, hr.l]
    simp only [packedLoop, Go.seq, LJ, Go.loop, hcond]
    by_cases hlt : nRead < l.toNat
    · simp only [hlt, decide_true, if_true]
      -- one iteration
      have heof : BitVec.sle (BitVec.ofNat 64 s.d_p.length) s.d_offset = decide (p.length ≤ off) := by
        rw [hr.p, eof_test p s.d_offset hp63 (by rw [hr.off]; exact ho), hr.off]
      by_cases he : p.length ≤ off
      · have hge : off ≥ p.length := he
        have hbody : Decoder_DecodePackedInt32.loop1.body fuel s = .ret (([] : List (BitVec 32)), Go.Err.unexpectedEOF) s := by
          simp [Decoder_DecodePackedInt32.loop1.body, Go.seq, Go.skip, heof, he]
        simp only [hbody, hge, if_true, OutcomeJ]
        exact ⟨_, _, _, rfl, by simp, hr.off, hr.p, hr.mode, hr.ks, hr.ke⟩
      · have hge : ¬ off ≥ p.length := he
        have hle : s.d_offset.toNat ≤ s.d_p.length := by rw [hr.off, hr.p]; exact ho
        obtain ⟨v, n, e, c, hd, hcase⟩ := call_varint fuel hf (p.drop off) (drop_len p _ hp63)
        have hd' : DecodeVarint fuel (s.d_p.drop s.d_offset.toNat) = .ret (v, n, e) c := by rw [hr.p, hr.off]; exact hd
        simp only [hge, if_false, sliceFrom, ho, if_true]
        rcases hcase with ⟨hen, hm, hpos, hlen⟩ | ⟨hen, hm⟩
        · subst hen
          have hn0 : ¬ n.toNat = 0 := by omega
          have hdl : (p.drop off).length = p.length - off := by simp
          by_cases hbig : 2147483647 < v.toInt ∨ v.toInt < -2147483648
          · have hb1 : (decide (2147483647 < v.toInt) || decide (v.toInt < -2147483648)) = true := by
              rcases hbig with h | h <;> simp [h]
            have hbody : Decoder_DecodePackedInt32.loop1.body fuel s =
                .ret (([] : List (BitVec 32)), Go.Err.overflow) { s with v := v, n_1 := n, err_1 := Go.Err.nil, i64 := v } := by
              simp [Decoder_DecodePackedInt32.loop1.body, Go.seq, Go.skip, heof, he, hle, hd', n_zero_iff, hn0, slt_max32, slt_min32, slt_min32', hbig, hb1]
            have hel : elInt32 (p.drop off) = .err := by simp [elInt32, elVarint, nz, hm, hn0, toI64_toNat, hbig]
            simp only [hbody, hel, OutcomeJ]
            exact ⟨_, _, _, rfl, by simp, hr.off, hr.p, hr.mode, hr.ks, hr.ke⟩
          · have h1 : ¬ 2147483647 < v.toInt := fun h => hbig (Or.inl h)
            have h2 : ¬ v.toInt < -2147483648 := fun h => hbig (Or.inr h)
            have hb1 : (decide (2147483647 < v.toInt) || decide (v.toInt < -2147483648)) = false := by simp [h1, h2]
            have hbody : Decoder_DecodePackedInt32.loop1.body fuel s =
                .next { s with v := v, n_1 := n, err_1 := Go.Err.nil, i64 := v, nRead := s.nRead + n, d_offset := s.d_offset + n, res := s.res ++ [BitVec.setWidth 32 v] } := by
              simp [Decoder_DecodePackedInt32.loop1.body, Go.seq, Go.skip, heof, he, hle, hd', n_zero_iff, hn0, slt_max32, slt_min32, slt_min32', hbig, hb1]
            have hel : elInt32 (p.drop off) = .ok (v.toInt, n.toNat) := by simp [elInt32, elVarint, nz, hm, hn0, toI64_toNat, h1, h2]
            simp only [hbody, Decoder_DecodePackedInt32.loop1.post, Go.skip, hel, hn0, if_false]
            have hoff' : (s.d_offset + n).toNat = off + n.toNat := by rw [add_toNat s.d_offset n (by rw [hr.off]; omega), hr.off]
            have hnr' : (s.nRead + n).toNat = nRead + n.toNat := by rw [add_toNat s.nRead n (by rw [hr.nRead]; omega), hr.nRead]
            exact ih (nRead + n.toNat) (off + n.toNat) (v.toInt :: acc) _ g'
              ⟨hr.p, hr.l, hr.mode, hr.ks, hr.ke, hnr', hoff', by simp [hr.res, setWidth32_toInt v h1 h2]⟩ (by omega) (by omega) (by omega) (by omega)
        · have hbody : ∃ e', e' ≠ Go.Err.nil ∧ Decoder_DecodePackedInt32.loop1.body fuel s =
              .ret (([] : List (BitVec 32)), e') { s with v := v, n_1 := n, err_1 := e } := by
            refine ⟨e, hen, ?_⟩
            cases e with
            | nil => exact absurd rfl hen
            | invalidVarint | unexpectedEOF | overflow | other w =>
              simp [Decoder_DecodePackedInt32.loop1.body, Go.seq, Go.skip, heof, he, hle, hd']
          obtain ⟨e', hne', hb⟩ := hbody
          cases hmm : decodeVarint (p.drop off) with
          | ok r => exact absurd hmm (hm r)
          | err =>
            have hel : elInt32 (p.drop off) = .err := by simp [elInt32, elVarint, nz, hmm]
            simp only [hb, hel, OutcomeJ]
            exact ⟨_, _, _, rfl, hne', hr.off, hr.p, hr.mode, hr.ks, hr.ke⟩
          | panic => exact absurd hmm (decodeVarint_ok _).1
    · simp only [hlt, decide_false, Bool.false_eq_true, if_false, tailJ, Go.seq, Go.skip]
      have hbne : (s.nRead != s.l) = decide (nRead ≠ l.toNat) := by rw [bne_iff, hr.nRead, hr.l]
      by_cases hne : nRead ≠ l.toNat
      · simp only [hbne, hne, decide_true, if_true, ne_eq, not_false_eq_true, OutcomeJ]
        exact ⟨_, _, _, rfl, by simp, hr.off, hr.p, hr.mode, hr.ks, hr.ke⟩
      · simp only [hbne, hne, decide_false, Bool.false_eq_true, if_false, ne_eq, OutcomeJ]
        exact ⟨_, _, rfl, by rw [hr.res], hr.off, hr.p, hr.mode, hr.ks, hr.ke⟩

/-- **`(*Decoder).DecodePackedUint64` of the source refines `Dec.step .packedInt32`** -/
theorem DecodePackedInt32_refines (fuel : Nat) (hf : 11 ≤ fuel) (p : Bytes) (off mode ks ke : BitVec 64) (fast : Bool)
    (hp : p.length < 2 ^ 62) (hfl : p.length + 2 ≤ fuel) (hoff : off.toNat ≤ p.length) :
    ∃ R e s, Decoder_DecodePackedInt32 fuel p off mode ks ke = .ret (R, e) s ∧
      s.d_p = p ∧ s.d_mode = mode ∧ s.d_keyStart = ks ∧ s.d_keyEnd = ke ∧
      (match ((decOf p off ks ke fast).step .packedInt32) with
       | (d', .ok (.ints vs), _) => e = .nil ∧ R.map (·.toInt) = vs ∧ s.d_offset.toNat = d'.off
       | (d', .err, _) => e ≠ .nil ∧ s.d_offset.toNat = d'.off
       | _ => False) := by
  have hp63 : p.length < 2 ^ 63 := by omega
  unfold Decoder_DecodePackedInt32 Decoder_DecodePackedInt32.body
  simp only [Go.seq, Go.skip, eof_test p off hp63 hoff, Dec.step, Dec.packed, decOf, Dec.len, sliceFrom]
  by_cases heof : p.length ≤ off.toNat
  · simp [heof]
    exact ⟨_, _, _, ⟨⟨rfl, rfl⟩, rfl⟩, by simp⟩
  · obtain ⟨l, n, e, c, hd, hcase⟩ := call_varint fuel hf (p.drop off.toNat) (drop_len p _ hp63)
    simp only [heof, decide_false, Bool.false_eq_true, if_false, hoff, if_true, hd, ge_iff_le]
    rcases hcase with ⟨he, hm, hpos, hle⟩ | ⟨he, hm⟩
    · subst he
      have hn0 : ¬ n.toNat = 0 := by omega
      have hlen : (p.drop off.toNat).length = p.length - off.toNat := by simp
      have hsum : (off + n).toNat = off.toNat + n.toNat := add_toNat off n (by omega)
      simp only [elVarint, nz, hm, hn0, if_false, bne_self_eq_false, Bool.false_eq_true, n_zero_iff, decide_false]
      have hL := loop_eqJ fuel hf p l mode ks ke hp (p.length + 1) 0 (off.toNat + n.toNat) []
        { d_p := p, d_offset := off + n, d_mode := mode, d_keyStart := ks, d_keyEnd := ke, l := l, n := n, packedDataStart := off + n }
        fuel ⟨rfl, rfl, rfl, rfl, rfl, rfl, hsum, rfl⟩ (by omega) (by omega) (by omega) (by omega)
      simp only [Go.seq, LJ, tailJ, Go.skip] at hL
      cases hpl : packedLoop elInt32 p l.toNat (p.length + 1) 0 (off.toNat + n.toNat) [] with
      | mk off2 r =>
        rw [hpl] at hL
        cases r with
        | ok vs =>
          simp only [OutcomeJ] at hL
          obtain ⟨R, s', ho, hR, h1, h2, h3, h4, h5⟩ := hL
          rw [ho]
          exact ⟨R, .nil, s', rfl, h2, h3, h4, h5, rfl, hR, h1⟩
        | err =>
          simp only [OutcomeJ] at hL
          obtain ⟨R, e', s', ho, hne, h1, h2, h3, h4, h5⟩ := hL
          rw [ho]
          exact ⟨R, e', s', rfl, h2, h3, h4, h5, hne, h1⟩
        | panic => simp only [OutcomeJ] at hL
    · cases e with
      | nil => exact absurd rfl he
      | invalidVarint | unexpectedEOF | overflow | other w =>
        cases hmm : decodeVarint (p.drop off.toNat) with
        | ok r => exact absurd hmm (hm r)
        | err => simp [elVarint, nz, hmm]; exact ⟨_, _, _, ⟨⟨rfl, rfl⟩, rfl⟩, by simp⟩
        | panic => exact absurd hmm (decodeVarint_ok _).1


/-! ## `DecodePackedFixed64` (elements read by the translated `DecodeFixed64`) -/

abbrev PSF := Decoder_DecodePackedFixed64.St
abbrev PRF := Decoder_DecodePackedFixed64.R

/-- what follows the loop: the `nRead != l` test and the final return -/
def tailF : PSF → Go.Out PSF PRF :=
  Go.seq (fun s => if (s.nRead != s.l) then (fun s => .ret (([] : List (BitVec 64)), (Go.Err.other "ErrInvalidPackedData")) s) s else Go.skip s)
    (fun s => .ret (s.res, Go.Err.nil) s)

def LF (fuel g : Nat) : PSF → Go.Out PSF PRF :=
  Go.loop Decoder_DecodePackedFixed64.loop1.cond (Decoder_DecodePackedFixed64.loop1.body fuel) Decoder_DecodePackedFixed64.loop1.post g

/-- the relation between a loop state of the translation and the arguments of the model's `packedLoop` -/
structure RelF (p : Bytes) (l mode ks ke : BitVec 64) (nRead off : Nat) (acc : List Nat) (s : PSF) : Prop where
  p : s.d_p = p
  l : s.l = l
  mode : s.d_mode = mode
  ks : s.d_keyStart = ks
  ke : s.d_keyEnd = ke
  nRead : s.nRead.toNat = nRead
  off : s.d_offset.toNat = off
  res : s.res.map (·.toNat) = acc.reverse

/-- what a finished run of loop + tailF amounts to -/
def OutcomeF (p : Bytes) (mode ks ke : BitVec 64) (m : Nat × Res (List Nat)) (o : Go.Out PSF PRF) : Prop :=
  match m with
  | (off2, .ok vs) => ∃ R s', o = .ret (R, .nil) s' ∧ R.map (·.toNat) = vs ∧ s'.d_offset.toNat = off2 ∧
      s'.d_p = p ∧ s'.d_mode = mode ∧ s'.d_keyStart = ks ∧ s'.d_keyEnd = ke
  | (off2, .err) => ∃ R e s', o = .ret (R, e) s' ∧ e ≠ .nil ∧ s'.d_offset.toNat = off2 ∧
      s'.d_p = p ∧ s'.d_mode = mode ∧ s'.d_keyStart = ks ∧ s'.d_keyEnd = ke
  | (_, .panic) => False


/-- **the loop of the source = the loop of the model**, by induction on the model's fuel -/
theorem loop_eqF (fuel : Nat) (hf : 11 ≤ fuel) (p : Bytes) (l mode ks ke : BitVec 64) (hp : p.length < 2 ^ 62) :
    ∀ (k nRead off : Nat) (acc : List Nat) (s : PSF) (g : Nat), RelF p l mode ks ke nRead off acc s →
      off ≤ p.length → nRead ≤ off → p.length - off < k → p.length - off < g →
      OutcomeF p mode ks ke (packedLoop elFixed64 p l.toNat k nRead off acc) (Go.seq (LF fuel g) tailF s) := by
  intro k
  induction k with
  | zero => intro nRead off acc s g hr ho hn hk hg; omega
  | succ k ih =>
    intro nRead off acc s g hr ho hn hk hg
    obtain ⟨g', rfl⟩ : ∃ g', g = g' + 1 := ⟨g - 1, by omega⟩
    have hp63 : p.length < 2 ^ 63 := by omega
    have hcond : Decoder_DecodePackedFixed64.loop1.cond s = some (decide (nRead < l.toNat)) := by
      simp [Decoder_DecodePackedFixed64.loop1.cond, ult_iff, hr.nRead, hr.l]
    simp only [packedLoop, Go.seq, LF, Go.loop, hcond]
    by_cases hlt : nRead < l.toNat
    · simp only [hlt, decide_true, if_true]
      -- one iteration
      have heof : BitVec.sle (BitVec.ofNat 64 s.d_p.length) s.d_offset = decide (p.length ≤ off) := by
        rw [hr.p, eof_test p s.d_offset hp63 (by rw [hr.off]; exact ho), hr.off]
      by_cases he : p.length ≤ off
      · have hge : off ≥ p.length := he
        have hbody : Decoder_DecodePackedFixed64.loop1.body fuel s = .ret (([] : List (BitVec 64)), Go.Err.unexpectedEOF) s := by
          simp [Decoder_DecodePackedFixed64.loop1.body, Go.seq, Go.skip, heof, he]
        simp only [hbody, hge, if_true, OutcomeF]
        exact ⟨_, _, _, rfl, by simp, hr.off, hr.p, hr.mode, hr.ks, hr.ke⟩
      · have hge : ¬ off ≥ p.length := he
        have hle : s.d_offset.toNat ≤ s.d_p.length := by rw [hr.off, hr.p]; exact ho
        obtain ⟨v, n, e, c, hd, hcase⟩ := call_fixed64 fuel (p.drop off) (drop_len p _ hp63)
        have hd' : DecodeFixed64 fuel (s.d_p.drop s.d_offset.toNat) = .ret (v, n, e) c := by rw [hr.p, hr.off]; exact hd
        simp only [hge, if_false, sliceFrom, ho, if_true]
        rcases hcase with ⟨hen, hm, hpos, hlen⟩ | ⟨hen, hm⟩
        · subst hen
          have hn0 : ¬ n.toNat = 0 := by omega
          have hdl : (p.drop off).length = p.length - off := by simp
          have hbody : Decoder_DecodePackedFixed64.loop1.body fuel s =
              .next { s with v := v, n_1 := n, err_1 := Go.Err.nil, nRead := s.nRead + n, d_offset := s.d_offset + n, res := s.res ++ [v] } := by
            simp [Decoder_DecodePackedFixed64.loop1.body, Go.seq, Go.skip, heof, he, hle, hd', n_zero_iff, hn0]
          simp only [hbody, Decoder_DecodePackedFixed64.loop1.post, Go.skip, elFixed64, nz, hm, hn0, if_false]
          have hoff' : (s.d_offset + n).toNat = off + n.toNat := by rw [add_toNat s.d_offset n (by rw [hr.off]; omega), hr.off]
          have hnr' : (s.nRead + n).toNat = nRead + n.toNat := by rw [add_toNat s.nRead n (by rw [hr.nRead]; omega), hr.nRead]
          exact ih (nRead + n.toNat) (off + n.toNat) (v.toNat :: acc) _ g'
            ⟨hr.p, hr.l, hr.mode, hr.ks, hr.ke, hnr', hoff', by simp [hr.res]⟩ (by omega) (by omega) (by omega) (by omega)
        · have hbody : ∃ e', e' ≠ Go.Err.nil ∧ Decoder_DecodePackedFixed64.loop1.body fuel s =
              .ret (([] : List (BitVec 64)), e') { s with v := v, n_1 := n, err_1 := e } := by
            refine ⟨e, hen, ?_⟩
            cases e with
            | nil => exact absurd rfl hen
            | invalidVarint | unexpectedEOF | overflow | other w =>
              simp [Decoder_DecodePackedFixed64.loop1.body, Go.seq, Go.skip, heof, he, hle, hd']
          obtain ⟨e', hne', hb⟩ := hbody
          have hel : elFixed64 (p.drop off) = .err := by simp [elFixed64, nz, hm]
          simp only [hb, hel, OutcomeF]
          exact ⟨_, _, _, rfl, hne', hr.off, hr.p, hr.mode, hr.ks, hr.ke⟩
    · simp only [hlt, decide_false, Bool.false_eq_true, if_false, tailF, Go.seq, Go.skip]
      have hbne : (s.nRead != s.l) = decide (nRead ≠ l.toNat) := by rw [bne_iff, hr.nRead, hr.l]
      by_cases hne : nRead ≠ l.toNat
      · simp only [hbne, hne, decide_true, if_true, ne_eq, not_false_eq_true, OutcomeF]
        exact ⟨_, _, _, rfl, by simp, hr.off, hr.p, hr.mode, hr.ks, hr.ke⟩
      · simp only [hbne, hne, decide_false, Bool.false_eq_true, if_false, ne_eq, OutcomeF]
        exact ⟨_, _, rfl, by rw [hr.res], hr.off, hr.p, hr.mode, hr.ks, hr.ke⟩

/-- **`(*Decoder).DecodePackedUint64` of the source refines `Dec.step .packedFixed64`** -/
theorem DecodePackedFixed64_refines (fuel : Nat) (hf : 11 ≤ fuel) (p : Bytes) (off mode ks ke : BitVec 64) (fast : Bool)
    (hp : p.length < 2 ^ 62) (hfl : p.length + 2 ≤ fuel) (hoff : off.toNat ≤ p.length) :
    ∃ R e s, Decoder_DecodePackedFixed64 fuel p off mode ks ke = .ret (R, e) s ∧
      s.d_p = p ∧ s.d_mode = mode ∧ s.d_keyStart = ks ∧ s.d_keyEnd = ke ∧
      (match ((decOf p off ks ke fast).step .packedFixed64) with
       | (d', .ok (.nats vs), _) => e = .nil ∧ R.map (·.toNat) = vs ∧ s.d_offset.toNat = d'.off
       | (d', .err, _) => e ≠ .nil ∧ s.d_offset.toNat = d'.off
       | _ => False) := by
  have hp63 : p.length < 2 ^ 63 := by omega
  unfold Decoder_DecodePackedFixed64 Decoder_DecodePackedFixed64.body
  simp only [Go.seq, Go.skip, eof_test p off hp63 hoff, Dec.step, Dec.packed, decOf, Dec.len, sliceFrom]
  by_cases heof : p.length ≤ off.toNat
  · simp [heof]
    exact ⟨_, _, _, ⟨⟨rfl, rfl⟩, rfl⟩, by simp⟩
  · obtain ⟨l, n, e, c, hd, hcase⟩ := call_varint fuel hf (p.drop off.toNat) (drop_len p _ hp63)
    simp only [heof, decide_false, Bool.false_eq_true, if_false, hoff, if_true, hd, ge_iff_le]
    rcases hcase with ⟨he, hm, hpos, hle⟩ | ⟨he, hm⟩
    · subst he
      have hn0 : ¬ n.toNat = 0 := by omega
      have hlen : (p.drop off.toNat).length = p.length - off.toNat := by simp
      have hsum : (off + n).toNat = off.toNat + n.toNat := add_toNat off n (by omega)
      simp only [elVarint, nz, hm, hn0, if_false, bne_self_eq_false, Bool.false_eq_true, n_zero_iff, decide_false]
      have hL := loop_eqF fuel hf p l mode ks ke hp (p.length + 1) 0 (off.toNat + n.toNat) []
        { d_p := p, d_offset := off + n, d_mode := mode, d_keyStart := ks, d_keyEnd := ke, l := l, n := n, packedDataStart := off + n }
        fuel ⟨rfl, rfl, rfl, rfl, rfl, rfl, hsum, rfl⟩ (by omega) (by omega) (by omega) (by omega)
      simp only [Go.seq, LF, tailF, Go.skip] at hL
      cases hpl : packedLoop elFixed64 p l.toNat (p.length + 1) 0 (off.toNat + n.toNat) [] with
      | mk off2 r =>
        rw [hpl] at hL
        cases r with
        | ok vs =>
          simp only [OutcomeF] at hL
          obtain ⟨R, s', ho, hR, h1, h2, h3, h4, h5⟩ := hL
          rw [ho]
          exact ⟨R, .nil, s', rfl, h2, h3, h4, h5, rfl, hR, h1⟩
        | err =>
          simp only [OutcomeF] at hL
          obtain ⟨R, e', s', ho, hne, h1, h2, h3, h4, h5⟩ := hL
          rw [ho]
          exact ⟨R, e', s', rfl, h2, h3, h4, h5, hne, h1⟩
        | panic => simp only [OutcomeF] at hL
    · cases e with
      | nil => exact absurd rfl he
      | invalidVarint | unexpectedEOF | overflow | other w =>
        cases hmm : decodeVarint (p.drop off.toNat) with
        | ok r => exact absurd hmm (hm r)
        | err => simp [elVarint, nz, hmm]; exact ⟨_, _, _, ⟨⟨rfl, rfl⟩, rfl⟩, by simp⟩
        | panic => exact absurd hmm (decodeVarint_ok _).1


/-! ## `DecodePackedFixed32` (elements read by the translated `DecodeFixed32`) -/

abbrev PSG := Decoder_DecodePackedFixed32.St
abbrev PRG := Decoder_DecodePackedFixed32.R

/-- what follows the loop: the `nRead != l` test and the final return -/
def tailG : PSG → Go.Out PSG PRG :=
  Go.seq (fun s => if (s.nRead != s.l) then (fun s => .ret (([] : List (BitVec 32)), (Go.Err.other "ErrInvalidPackedData")) s) s else Go.skip s)
    (fun s => .ret (s.res, Go.Err.nil) s)

def LG (fuel g : Nat) : PSG → Go.Out PSG PRG :=
  Go.loop Decoder_DecodePackedFixed32.loop1.cond (Decoder_DecodePackedFixed32.loop1.body fuel) Decoder_DecodePackedFixed32.loop1.post g

/-- the relation between a loop state of the translation and the arguments of the model's `packedLoop` -/
structure RelG (p : Bytes) (l mode ks ke : BitVec 64) (nRead off : Nat) (acc : List Nat) (s : PSG) : Prop where
  p : s.d_p = p
  l : s.l = l
  mode : s.d_mode = mode
  ks : s.d_keyStart = ks
  ke : s.d_keyEnd = ke
  nRead : s.nRead.toNat = nRead
  off : s.d_offset.toNat = off
  res : s.res.map (·.toNat) = acc.reverse

/-- what a finished run of loop + tailG amounts to -/
def OutcomeG (p : Bytes) (mode ks ke : BitVec 64) (m : Nat × Res (List Nat)) (o : Go.Out PSG PRG) : Prop :=
  match m with
  | (off2, .ok vs) => ∃ R s', o = .ret (R, .nil) s' ∧ R.map (·.toNat) = vs ∧ s'.d_offset.toNat = off2 ∧
      s'.d_p = p ∧ s'.d_mode = mode ∧ s'.d_keyStart = ks ∧ s'.d_keyEnd = ke
  | (off2, .err) => ∃ R e s', o = .ret (R, e) s' ∧ e ≠ .nil ∧ s'.d_offset.toNat = off2 ∧
      s'.d_p = p ∧ s'.d_mode = mode ∧ s'.d_keyStart = ks ∧ s'.d_keyEnd = ke
  | (_, .panic) => False


/-- **the loop of the source = the loop of the model**, by induction on the model's fuel -/
theorem loop_eqG (fuel : Nat) (hf : 11 ≤ fuel) (p : Bytes) (l mode ks ke : BitVec 64) (hp : p.length < 2 ^ 62) :
    ∀ (k nRead off : Nat) (acc : List Nat) (s : PSG) (g : Nat), RelG p l mode ks ke nRead off acc s →
      off ≤ p.length → nRead ≤ off → p.length - off < k → p.length - off < g →
      OutcomeG p mode ks ke (packedLoop elFixed32 p l.toNat k nRead off acc) (Go.seq (LG fuel g) tailG s) := by
  intro k
  induction k with
  | zero => intro nRead off acc s g hr ho hn hk hg; omega
  | succ k ih =>
    intro nRead off acc s g hr ho hn hk hg
    obtain ⟨g', rfl⟩ : ∃ g', g = g' + 1 := ⟨g - 1, by omega⟩
    have hp63 : p.length < 2 ^ 63 := by omega
    have hcond : Decoder_DecodePackedFixed32.loop1.cond s = some (decide (nRead < l.toNat)) := by
      simp [Decoder_DecodePackedFixed32.loop1.cond, ult_iff, hr.nRead, hr.l]
    simp only [packedLoop, Go.seq, LG, Go.loop, hcond]
    by_cases hlt : nRead < l.toNat
    · simp only [hlt, decide_true, if_true]
      -- one iteration
      have heof : BitVec.sle (BitVec.ofNat 64 s.d_p.length) s.d_offset = decide (p.length ≤ off) := by
        rw [hr.p, eof_test p s.d_offset hp63 (by rw [hr.off]; exact ho), hr.off]
      by_cases he : p.length ≤ off
      · have hge : off ≥ p.length := he
        have hbody : Decoder_DecodePackedFixed32.loop1.body fuel s = .ret (([] : List (BitVec 32)), Go.Err.unexpectedEOF) s := by
          simp [Decoder_DecodePackedFixed32.loop1.body, Go.seq, Go.skip, heof, he]
        simp only [hbody, hge, if_true, OutcomeG]
        exact ⟨_, _, _, rfl, by simp, hr.off, hr.p, hr.mode, hr.ks, hr.ke⟩
      · have hge : ¬ off ≥ p.length := he
        have hle : s.d_offset.toNat ≤ s.d_p.length := by rw [hr.off, hr.p]; exact ho
        obtain ⟨v, n, e, c, hd, hcase⟩ := call_fixed32 fuel (p.drop off) (drop_len p _ hp63)
        have hd' : DecodeFixed32 fuel (s.d_p.drop s.d_offset.toNat) = .ret (v, n, e) c := by rw [hr.p, hr.off]; exact hd
        simp only [hge, if_false, sliceFrom, ho, if_true]
        rcases hcase with ⟨hen, hm, hpos, hlen⟩ | ⟨hen, hm⟩
        · subst hen
          have hn0 : ¬ n.toNat = 0 := by omega
          have hdl : (p.drop off).length = p.length - off := by simp
          have hbody : Decoder_DecodePackedFixed32.loop1.body fuel s =
              .next { s with v := v, n_1 := n, err_1 := Go.Err.nil, nRead := s.nRead + n, d_offset := s.d_offset + n, res := s.res ++ [v] } := by
            simp [Decoder_DecodePackedFixed32.loop1.body, Go.seq, Go.skip, heof, he, hle, hd', n_zero_iff, hn0]
          simp only [hbody, Decoder_DecodePackedFixed32.loop1.post, Go.skip, elFixed32, nz, hm, hn0, if_false]
          have hoff' : (s.d_offset + n).toNat = off + n.toNat := by rw [add_toNat s.d_offset n (by rw [hr.off]; omega), hr.off]
          have hnr' : (s.nRead + n).toNat = nRead + n.toNat := by rw [add_toNat s.nRead n (by rw [hr.nRead]; omega), hr.nRead]
          exact ih (nRead + n.toNat) (off + n.toNat) (v.toNat :: acc) _ g'
            ⟨hr.p, hr.l, hr.mode, hr.ks, hr.ke, hnr', hoff', by simp [hr.res]⟩ (by omega) (by omega) (by omega) (by omega)
        · have hbody : ∃ e', e' ≠ Go.Err.nil ∧ Decoder_DecodePackedFixed32.loop1.body fuel s =
              .ret (([] : List (BitVec 32)), e') { s with v := v, n_1 := n, err_1 := e } := by
            refine ⟨e, hen, ?_⟩
            cases e with
            | nil => exact absurd rfl hen
            | invalidVarint | unexpectedEOF | overflow | other w =>
              simp [Decoder_DecodePackedFixed32.loop1.body, Go.seq, Go.skip, heof, he, hle, hd']
          obtain ⟨e', hne', hb⟩ := hbody
          have hel : elFixed32 (p.drop off) = .err := by simp [elFixed32, nz, hm]
          simp only [hb, hel, OutcomeG]
          exact ⟨_, _, _, rfl, hne', hr.off, hr.p, hr.mode, hr.ks, hr.ke⟩
    · simp only [hlt, decide_false, Bool.false_eq_true, if_false, tailG, Go.seq, Go.skip]
      have hbne : (s.nRead != s.l) = decide (nRead ≠ l.toNat) := by rw [bne_iff, hr.nRead, hr.l]
      by_cases hne : nRead ≠ l.toNat
      · simp only [hbne, hne, decide_true, if_true, ne_eq, not_false_eq_true, OutcomeG]
        exact ⟨_, _, _, rfl, by simp, hr.off, hr.p, hr.mode, hr.ks, hr.ke⟩
      · simp only [hbne, hne, decide_false, Bool.false_eq_true, if_false, ne_eq, OutcomeG]
        exact ⟨_, _, rfl, by rw [hr.res], hr.off, hr.p, hr.mode, hr.ks, hr.ke⟩

/-- **`(*Decoder).DecodePackedUint64` of the source refines `Dec.step .packedFixed32`** -/
theorem DecodePackedFixed32_refines (fuel : Nat) (hf : 11 ≤ fuel) (p : Bytes) (off mode ks ke : BitVec 64) (fast : Bool)
    (hp : p.length < 2 ^ 62) (hfl : p.length + 2 ≤ fuel) (hoff : off.toNat ≤ p.length) :
    ∃ R e s, Decoder_DecodePackedFixed32 fuel p off mode ks ke = .ret (R, e) s ∧
      s.d_p = p ∧ s.d_mode = mode ∧ s.d_keyStart = ks ∧ s.d_keyEnd = ke ∧
      (match ((decOf p off ks ke fast).step .packedFixed32) with
       | (d', .ok (.nats vs), _) => e = .nil ∧ R.map (·.toNat) = vs ∧ s.d_offset.toNat = d'.off
       | (d', .err, _) => e ≠ .nil ∧ s.d_offset.toNat = d'.off
       | _ => False) := by
  have hp63 : p.length < 2 ^ 63 := by omega
  unfold Decoder_DecodePackedFixed32 Decoder_DecodePackedFixed32.body
  simp only [Go.seq, Go.skip, eof_test p off hp63 hoff, Dec.step, Dec.packed, decOf, Dec.len, sliceFrom]
  by_cases heof : p.length ≤ off.toNat
  · simp [heof]
    exact ⟨_, _, _, ⟨⟨rfl, rfl⟩, rfl⟩, by simp⟩
  · obtain ⟨l, n, e, c, hd, hcase⟩ := call_varint fuel hf (p.drop off.toNat) (drop_len p _ hp63)
    simp only [heof, decide_false, Bool.false_eq_true, if_false, hoff, if_true, hd, ge_iff_le]
    rcases hcase with ⟨he, hm, hpos, hle⟩ | ⟨he, hm⟩
    · subst he
      have hn0 : ¬ n.toNat = 0 := by omega
      have hlen : (p.drop off.toNat).length = p.length - off.toNat := by simp
      have hsum : (off + n).toNat = off.toNat + n.toNat := add_toNat off n (by omega)
      simp only [elVarint, nz, hm, hn0, if_false, bne_self_eq_false, Bool.false_eq_true, n_zero_iff, decide_false]
      have hL := loop_eqG fuel hf p l mode ks ke hp (p.length + 1) 0 (off.toNat + n.toNat) []
        { d_p := p, d_offset := off + n, d_mode := mode, d_keyStart := ks, d_keyEnd := ke, l := l, n := n, packedDataStart := off + n }
        fuel ⟨rfl, rfl, rfl, rfl, rfl, rfl, hsum, rfl⟩ (by omega) (by omega) (by omega) (by omega)
      simp only [Go.seq, LG, tailG, Go.skip] at hL
      cases hpl : packedLoop elFixed32 p l.toNat (p.length + 1) 0 (off.toNat + n.toNat) [] with
      | mk off2 r =>
        rw [hpl] at hL
        cases r with
        | ok vs =>
          simp only [OutcomeG] at hL
          obtain ⟨R, s', ho, hR, h1, h2, h3, h4, h5⟩ := hL
          rw [ho]
          exact ⟨R, .nil, s', rfl, h2, h3, h4, h5, rfl, hR, h1⟩
        | err =>
          simp only [OutcomeG] at hL
          obtain ⟨R, e', s', ho, hne, h1, h2, h3, h4, h5⟩ := hL
          rw [ho]
          exact ⟨R, e', s', rfl, h2, h3, h4, h5, hne, h1⟩
        | panic => simp only [OutcomeG] at hL
    · cases e with
      | nil => exact absurd rfl he
      | invalidVarint | unexpectedEOF | overflow | other w =>
        cases hmm : decodeVarint (p.drop off.toNat) with
        | ok r => exact absurd hmm (hm r)
        | err => simp [elVarint, nz, hmm]; exact ⟨_, _, _, ⟨⟨rfl, rfl⟩, rfl⟩, by simp⟩
        | panic => exact absurd hmm (decodeVarint_ok _).1


/-! ## `DecodePackedBool` (a list of `bool`: any non-zero varint is `true`) -/

theorem bne_zero (v : BitVec 64) : (v != 0#64) = (v.toNat != 0) := by
  rw [bne_iff]
  by_cases h : v.toNat = 0 <;> simp [h]

abbrev PSB := Decoder_DecodePackedBool.St
abbrev PRB := Decoder_DecodePackedBool.R

/-- what follows the loop: the `nRead != l` test and the final return -/
def tailB : PSB → Go.Out PSB PRB :=
  Go.seq (fun s => if (s.nRead != s.l) then (fun s => .ret (([] : List Bool), (Go.Err.other "ErrInvalidPackedData")) s) s else Go.skip s)
    (fun s => .ret (s.res, Go.Err.nil) s)

def LB (fuel g : Nat) : PSB → Go.Out PSB PRB :=
  Go.loop Decoder_DecodePackedBool.loop1.cond (Decoder_DecodePackedBool.loop1.body fuel) Decoder_DecodePackedBool.loop1.post g

/-- the relation between a loop state of the translation and the arguments of the model's `packedLoop` -/
structure RelB (p : Bytes) (l mode ks ke : BitVec 64) (nRead off : Nat) (acc : List Bool) (s : PSB) : Prop where
  p : s.d_p = p
  l : s.l = l
  mode : s.d_mode = mode
  ks : s.d_keyStart = ks
  ke : s.d_keyEnd = ke
  nRead : s.nRead.toNat = nRead
  off : s.d_offset.toNat = off
  res : s.res.map (fun b : Bool => b) = acc.reverse

/-- what a finished run of loop + tailB amounts to -/
def OutcomeB (p : Bytes) (mode ks ke : BitVec 64) (m : Nat × Res (List Bool)) (o : Go.Out PSB PRB) : Prop :=
  match m with
  | (off2, .ok vs) => ∃ R s', o = .ret (R, .nil) s' ∧ R.map (fun b : Bool => b) = vs ∧ s'.d_offset.toNat = off2 ∧
      s'.d_p = p ∧ s'.d_mode = mode ∧ s'.d_keyStart = ks ∧ s'.d_keyEnd = ke
  | (off2, .err) => ∃ R e s', o = .ret (R, e) s' ∧ e ≠ .nil ∧ s'.d_offset.toNat = off2 ∧
      s'.d_p = p ∧ s'.d_mode = mode ∧ s'.d_keyStart = ks ∧ s'.d_keyEnd = ke
  | (_, .panic) => False


/-- **the loop of the source = the loop of the model**, by induction on the model's fuel -/
theorem loop_eqB (fuel : Nat) (hf : 11 ≤ fuel) (p : Bytes) (l mode ks ke : BitVec 64) (hp : p.length < 2 ^ 62) :
    ∀ (k nRead off : Nat) (acc : List Bool) (s : PSB) (g : Nat), RelB p l mode ks ke nRead off acc s →
      off ≤ p.length → nRead ≤ off → p.length - off < k → p.length - off < g →
      OutcomeB p mode ks ke (packedLoop elBool p l.toNat k nRead off acc) (Go.seq (LB fuel g) tailB s) := by
  intro k
  induction k with
  | zero => intro nRead off acc s g hr ho hn hk hg; omega
  | succ k ih =>
    intro nRead off acc s g hr ho hn hk hg
    obtain ⟨g', rfl⟩ : ∃ g', g = g' + 1 := ⟨g - 1, by omega⟩
    have hp63 : p.length < 2 ^ 63 := by omega
    have hcond : Decoder_DecodePackedBool.loop1.cond s = some (decide (nRead < l.toNat)) := by
      simp [Decoder_DecodePackedBool.loop1.cond, ult_iff, hr.nRead, hr.l]
    simp only [packedLoop, Go.seq, LB, Go.loop, hcond]
    by_cases hlt : nRead < l.toNat
    · simp only [hlt, decide_true, if_true]
      -- one iteration
      have heof : BitVec.sle (BitVec.ofNat 64 s.d_p.length) s.d_offset = decide (p.length ≤ off) := by
        rw [hr.p, eof_test p s.d_offset hp63 (by rw [hr.off]; exact ho), hr.off]
      by_cases he : p.length ≤ off
      · have hge : off ≥ p.length := he
        have hbody : Decoder_DecodePackedBool.loop1.body fuel s = .ret (([] : List Bool), Go.Err.unexpectedEOF) s := by
          simp [Decoder_DecodePackedBool.loop1.body, Go.seq, Go.skip, heof, he]
        simp only [hbody, hge, if_true, OutcomeB]
        exact ⟨_, _, _, rfl, by simp, hr.off, hr.p, hr.mode, hr.ks, hr.ke⟩
      · have hge : ¬ off ≥ p.length := he
        have hle : s.d_offset.toNat ≤ s.d_p.length := by rw [hr.off, hr.p]; exact ho
        obtain ⟨v, n, e, c, hd, hcase⟩ := call_varint fuel hf (p.drop off) (drop_len p _ hp63)
        have hd' : DecodeVarint fuel (s.d_p.drop s.d_offset.toNat) = .ret (v, n, e) c := by rw [hr.p, hr.off]; exact hd
        simp only [hge, if_false, sliceFrom, ho, if_true]
        rcases hcase with ⟨hen, hm, hpos, hlen⟩ | ⟨hen, hm⟩
        · subst hen
          have hn0 : ¬ n.toNat = 0 := by omega
          have hdl : (p.drop off).length = p.length - off := by simp
          have hbody : Decoder_DecodePackedBool.loop1.body fuel s =
              .next { s with v := v, n_1 := n, err_1 := Go.Err.nil, nRead := s.nRead + n, d_offset := s.d_offset + n, res := s.res ++ [(v != 0#64)] } := by
            simp [Decoder_DecodePackedBool.loop1.body, Go.seq, Go.skip, heof, he, hle, hd', n_zero_iff, hn0]
          simp only [hbody, Decoder_DecodePackedBool.loop1.post, Go.skip, elBool, Res.map, elVarint, nz, hm, hn0, if_false]
          have hoff' : (s.d_offset + n).toNat = off + n.toNat := by rw [add_toNat s.d_offset n (by rw [hr.off]; omega), hr.off]
          have hnr' : (s.nRead + n).toNat = nRead + n.toNat := by rw [add_toNat s.nRead n (by rw [hr.nRead]; omega), hr.nRead]
          exact ih (nRead + n.toNat) (off + n.toNat) ((v.toNat != 0) :: acc) _ g'
            ⟨hr.p, hr.l, hr.mode, hr.ks, hr.ke, hnr', hoff', by simp [hr.res, bne_zero]⟩ (by omega) (by omega) (by omega) (by omega)
        · have hbody : ∃ e', e' ≠ Go.Err.nil ∧ Decoder_DecodePackedBool.loop1.body fuel s =
              .ret (([] : List Bool), e') { s with v := v, n_1 := n, err_1 := e } := by
            refine ⟨e, hen, ?_⟩
            cases e with
            | nil => exact absurd rfl hen
            | invalidVarint | unexpectedEOF | overflow | other w =>
              simp [Decoder_DecodePackedBool.loop1.body, Go.seq, Go.skip, heof, he, hle, hd']
          obtain ⟨e', hne', hb⟩ := hbody
          cases hmm : decodeVarint (p.drop off) with
          | ok r => exact absurd hmm (hm r)
          | err =>
            simp only [hb, elBool, Res.map, elVarint, nz, hmm, OutcomeB]
            exact ⟨_, _, _, rfl, hne', hr.off, hr.p, hr.mode, hr.ks, hr.ke⟩
          | panic => exact absurd hmm (decodeVarint_ok _).1
    · simp only [hlt, decide_false, Bool.false_eq_true, if_false, tailB, Go.seq, Go.skip]
      have hbne : (s.nRead != s.l) = decide (nRead ≠ l.toNat) := by rw [bne_iff, hr.nRead, hr.l]
      by_cases hne : nRead ≠ l.toNat
      · simp only [hbne, hne, decide_true, if_true, ne_eq, not_false_eq_true, OutcomeB]
        exact ⟨_, _, _, rfl, by simp, hr.off, hr.p, hr.mode, hr.ks, hr.ke⟩
      · simp only [hbne, hne, decide_false, Bool.false_eq_true, if_false, ne_eq, OutcomeB]
        exact ⟨_, _, rfl, by rw [hr.res], hr.off, hr.p, hr.mode, hr.ks, hr.ke⟩

/-- **`(*Decoder).DecodePackedUint64` of the source refines `Dec.step .packedBool`** -/
theorem DecodePackedBool_refines (fuel : Nat) (hf : 11 ≤ fuel) (p : Bytes) (off mode ks ke : BitVec 64) (fast : Bool)
    (hp : p.length < 2 ^ 62) (hfl : p.length + 2 ≤ fuel) (hoff : off.toNat ≤ p.length) :
    ∃ R e s, Decoder_DecodePackedBool fuel p off mode ks ke = .ret (R, e) s ∧
      s.d_p = p ∧ s.d_mode = mode ∧ s.d_keyStart = ks ∧ s.d_keyEnd = ke ∧
      (match ((decOf p off ks ke fast).step .packedBool) with
       | (d', .ok (.bools vs), _) => e = .nil ∧ R.map (fun b : Bool => b) = vs ∧ s.d_offset.toNat = d'.off
       | (d', .err, _) => e ≠ .nil ∧ s.d_offset.toNat = d'.off
       | _ => False) := by
  have hp63 : p.length < 2 ^ 63 := by omega
  unfold Decoder_DecodePackedBool Decoder_DecodePackedBool.body
  simp only [Go.seq, Go.skip, eof_test p off hp63 hoff, Dec.step, Dec.packed, decOf, Dec.len, sliceFrom]
  by_cases heof : p.length ≤ off.toNat
  · simp [heof]
    exact ⟨_, _, _, ⟨⟨rfl, rfl⟩, rfl⟩, by simp⟩
  · obtain ⟨l, n, e, c, hd, hcase⟩ := call_varint fuel hf (p.drop off.toNat) (drop_len p _ hp63)
    simp only [heof, decide_false, Bool.false_eq_true, if_false, hoff, if_true, hd, ge_iff_le]
    rcases hcase with ⟨he, hm, hpos, hle⟩ | ⟨he, hm⟩
    · subst he
      have hn0 : ¬ n.toNat = 0 := by omega
      have hlen : (p.drop off.toNat).length = p.length - off.toNat := by simp
      have hsum : (off + n).toNat = off.toNat + n.toNat := add_toNat off n (by omega)
      simp only [elVarint, nz, hm, hn0, if_false, bne_self_eq_false, Bool.false_eq_true, n_zero_iff, decide_false]
      have hL := loop_eqB fuel hf p l mode ks ke hp (p.length + 1) 0 (off.toNat + n.toNat) []
        { d_p := p, d_offset := off + n, d_mode := mode, d_keyStart := ks, d_keyEnd := ke, l := l, n := n, packedDataStart := off + n }
        fuel ⟨rfl, rfl, rfl, rfl, rfl, rfl, hsum, rfl⟩ (by omega) (by omega) (by omega) (by omega)
      simp only [Go.seq, LB, tailB, Go.skip] at hL
      cases hpl : packedLoop elBool p l.toNat (p.length + 1) 0 (off.toNat + n.toNat) [] with
      | mk off2 r =>
        rw [hpl] at hL
        cases r with
        | ok vs =>
          simp only [OutcomeB] at hL
          obtain ⟨R, s', ho, hR, h1, h2, h3, h4, h5⟩ := hL
          rw [ho]
          exact ⟨R, .nil, s', rfl, h2, h3, h4, h5, rfl, hR, h1⟩
        | err =>
          simp only [OutcomeB] at hL
          obtain ⟨R, e', s', ho, hne, h1, h2, h3, h4, h5⟩ := hL
          rw [ho]
          exact ⟨R, e', s', rfl, h2, h3, h4, h5, hne, h1⟩
        | panic => simp only [OutcomeB] at hL
    · cases e with
      | nil => exact absurd rfl he
      | invalidVarint | unexpectedEOF | overflow | other w =>
        cases hmm : decodeVarint (p.drop off.toNat) with
        | ok r => exact absurd hmm (hm r)
        | err => simp [elVarint, nz, hmm]; exact ⟨_, _, _, ⟨⟨rfl, rfl⟩, rfl⟩, by simp⟩
        | panic => exact absurd hmm (decodeVarint_ok _).1


end Csproto.Bridge.PackedFuncs
