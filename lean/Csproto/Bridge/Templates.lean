import Csproto.Generated.Templates
import Csproto.Model.Gen
/-
  Bridge between the templates of protoc-gen-fastmarshal (facts regenerated from
  /repo/cmd/protoc-gen-fastmarshal/templates on every run) and the structural assumptions the model of
  the generated code (`Model/Gen.lean`, `Model/GenDec.lean`) makes.
  If a template edit invalidates one of them, the corresponding `decide` fails and the properties built
  on the model are no longer shown for the code.
-/
namespace Csproto.Bridge.Templates
open Csproto.Generated

/-- the kinds of the protobuf language (the model's `SK` plus message) -/
def allKinds : List String :=
  ["double", "float", "int32", "int64", "uint32", "uint64", "sint32", "sint64", "fixed32", "fixed64",
   "sfixed32", "sfixed64", "bool", "string", "bytes", "enum", "message"]

/-- the model has one scalar kind per template kind -/
theorem kinds_cover_model : allKinds.length = 17 := by decide

/-- **`SizeOfField`, `MarshalField`, `UnmarshalField` route every kind to exactly one snippet**: the
    three dispatchers are sequences of independent `if`s, so a kind listed twice would be generated
    twice and a kind not listed would silently produce no code (the field would be dropped). -/
theorem size_dispatch_total : ∀ k ∈ allKinds, sizeDispatchKinds.count k = 1 := by decide
theorem marshal_dispatch_total : ∀ k ∈ allKinds, marshalDispatchKinds.count k = 1 := by decide
theorem unmarshal_dispatch_total : ∀ k ∈ allKinds, unmarshalDispatchKinds.count k = 1 := by decide
theorem dispatch_nothing_else :
    (∀ k ∈ sizeDispatchKinds, k ∈ allKinds) ∧ (∀ k ∈ marshalDispatchKinds, k ∈ allKinds) ∧
    (∀ k ∈ unmarshalDispatchKinds, k ∈ allKinds) := by decide

/-- the oneof snippets are if/else chains: every kind has an arm (first match wins) -/
theorem oneof_arms_total :
    (∀ k ∈ allKinds, k ∈ sizeOneofKinds) ∧ (∀ k ∈ allKinds, k ∈ marshalOneofKinds) ∧
    (∀ k ∈ allKinds, k ∈ unmarshalOneofKinds) := by decide

/-- the extension snippets are if/else chains over the kind: every kind has an arm in each of them, and each snippet
    has an arm of its own for a REPEATED extension (which walks the slice / appends to it) — the model's
    `Ext.extFD … true = Card.list`, `Ext.extFD … false = Card.explicit` -/
theorem extension_arms_total :
    (∀ k ∈ allKinds, k ∈ sizeExtensionKinds) ∧ (∀ k ∈ allKinds, k ∈ marshalExtensionKinds) ∧
    (∀ k ∈ allKinds, k ∈ unmarshalExtensionKinds) ∧ (∀ k ∈ allKinds, k ∈ unmarshalRepeatedExtensionKinds) := by decide
theorem extension_repeated_arms :
    extensionRepeatedArms = [("SizeOfExtension", true), ("MarshalExtension", true), ("UnmarshalExtension", true)] ∧
    repeatedExtensionAppends = true := by decide

/-- `UnmarshalNumber` has an arm for every kind `UnmarshalField` sends to it -/
theorem number_arms_total :
    ∀ k ∈ ["bool", "int32", "int64", "uint32", "uint64", "sint32", "sint64", "fixed32", "float",
           "fixed64", "double", "enum"], k ∈ unmarshalNumberKinds := by decide

/-- **C09**: the generated `Size()`/`Marshal()`/`MarshalTo()` do not consult (or write) a size cache:
    in the model they are functions of the message contents alone, as `Gen.sizeFields`/`Gen.marshal` are -/
theorem no_size_cache : sizeCacheMentions = 0 := by decide

/-- **C04 – C10, C16, C17 (the quantifier "× generator options")**: the options the generator accepts are exactly the
    ones the model and the corpus pipeline account for — `apiversion` / `specialname` / `dest` choose names (import
    paths, Go field names, the output path) and `debug` writes to stderr: none of them reaches a snippet's logic;
    `filepermessage` selects the per-message file template, whose routing facts are regenerated alongside the
    single-file ones; `enableunsafedecode` is the decoder-mode parameter `fast` of `Gen.unmarshal`. An option that is
    added to (or dropped from) the generator makes this `decide` fail: what the new option does to the generated
    code is then not covered by any theorem about the model until the model learns about it. (Independently of this
    lemma the corpus pipeline generates, compiles and runs every schema with every boolean option it discovers
    here switched on — `genpipe.BoolOptions`.) -/
theorem generator_options_known :
    generatorOptions = [("apiversion", "value"), ("dest", "string"), ("debug", "bool"), ("filepermessage", "bool"),
      ("specialname", "value"), ("enableunsafedecode", "bool")] := by decide

/-- **C07 (and C06, C08)**: neither the generator's Go code nor its templates look at the `reserved` declarations
    of a message: a reserved number is, to the generated `Unmarshal`, a number the message type does not define —
    `findField md num = none` in the model, the `default:` arm of the generated switch — and is retained like any
    other unknown field -/
theorem generator_ignores_reserved : reservedMentions = 0 := by decide

/-- **C07**: in both file templates `Size()` counts the unknown fields, `MarshalTo` writes them with
    `EncodeRaw` after the known fields, and `Unmarshal` appends every skipped field to them -/
theorem unknown_fields_handled : ∀ t ∈ unknownHandling, t.2.1 = true ∧ t.2.2.1 = true ∧ t.2.2.2 = true := by decide
theorem unknown_fields_both_templates : unknownHandling.map (·.1) = ["singlefile.go.tmpl", "permessage.go.tmpl"] := by decide

/-- **C07 / C09 (ownership of the result)**: in both file templates `Marshal()` fills a buffer it allocates in that
    very call (`buf := make([]byte, siz)`, never re-assigned) and every `return` hands out either that buffer or
    the empty literal — never a slice the message keeps (its retained unknown bytes, a cached encoding): the
    result is the caller's, which is what the model assumes by treating the result as a VALUE (`Gen.marshal`
    returns `Bytes`, later writes to it cannot reach the message) -/
theorem marshal_result_is_fresh :
    ∀ t ∈ marshalReturns, t.2.1 = true ∧ ∀ r ∈ t.2.2, r = "[]byte{}, nil" ∨ r = "buf, err" := by decide
theorem marshal_result_both_templates : marshalReturns.map (·.1) = ["singlefile.go.tmpl", "permessage.go.tmpl"] := by decide

/-- **C07**: nothing in the hand-written package — which the generated `Unmarshal` calls into in the middle of
    its loop (`csproto.SetExtension` in the extension arms, the `Decoder`) — reads or writes a message's
    unknown-field storage: the retained bytes change only where the model says they do (the `default:` arm
    of the generated loop appends, `Reset` clears) -/
theorem shim_leaves_unknown_store_alone : shimUnknownStoreMentions = 0 := by decide

/-- **C17**: the empty shortcuts of `Marshal`/`Unmarshal` are only generated for message types without
    required fields, `Unmarshal` ends with the required-field check, and no `EncodeNested` error is dropped -/
theorem required_guards : ∀ t ∈ requiredGuards, t.2.1 = true ∧ t.2.2.1 = true ∧ t.2.2.2 = true := by decide
theorem encodeNested_errors_checked : ∀ s ∈ encodeNestedSites, s.2 = true := by decide
theorem encodeNested_sites_known : 5 ≤ encodeNestedSites.length := by decide

/-- **C10**: no `DecodeBytes` result is stored into a message without the safe-mode copy -/
theorem bytes_never_aliased_in_safe_mode : ∀ s ∈ decodeBytesSites, s.2 = "copied" ∨ s.2 = "subdecoder" := by decide
theorem bytes_sites_known : ["UnmarshalBytes", "UnmarshalMapEntry", "UnmarshalOneOf", "UnmarshalExtension"].all
    (fun d => decodeBytesSites.any (fun s => s.1 == d && s.2 == "copied")) = true := by decide

/-- **C06**: `Unmarshal` starts with `m.Reset()`: its result cannot depend on the destination's contents -/
theorem unmarshal_resets_first : ∀ t ∈ unmarshalResetsFirst, t.2 = true := by decide
theorem unmarshal_resets_both : unmarshalResetsFirst.length = 2 := by decide

/-- **C09**: the order in which `Size()` sizes and `MarshalTo` writes the proto2 extensions is fixed when the
    code is generated (`range getExtensions` over the per-extension snippet, in both file templates); no
    template enumerates the extensions the *runtime* holds (`RangeExtensions` / `ExtensionDescs` walk a Go map,
    whose order changes from call to call) -/
theorem extension_order_is_static :
    extensionLoops = [("singlefile.go.tmpl", true, true), ("permessage.go.tmpl", true, true)] ∧
    runtimeOrderedIteration = 0 := by decide

end Csproto.Bridge.Templates
