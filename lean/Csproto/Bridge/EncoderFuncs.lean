import Csproto.Bridge.WireFuncs2
import Csproto.Model.Enc
import Csproto.Proofs.Enc
import Csproto.Proofs.Wire
/-
  Bridge for the TRANSLATED `Encoder` methods (fourth batch): `(*Encoder).EncodeUInt64`, `EncodeUInt32`, `EncodeInt64`,
  `EncodeInt32`, `EncodeSInt32`, `EncodeSInt64` of `/repo`'s current encoder.go, translated statement by statement
  (`Generated/WireFuncs.lean`).  `e.offset += EncodeTag(e.p[e.offset:], tag, wt)` is a call of the translated `EncodeTag`
  on `e_p.drop e_offset` (guarded by Go's slice-bounds check) whose stores write through to `e_p` — callee and caller
  share the backing array — followed by the cursor update.

  REFINEMENT: for every buffer a Go slice can hold and every in-range cursor, the translated method and `Enc.step` of the
  hand-written encoder model (`Model/Enc.lean`, what C01, C02, C04, C05, C19 are proved about) agree: when the model's
  step succeeds the method returns with exactly the model's buffer and cursor; when the model's step panics (buffer too
  short) the method panics (index out of range inside `EncodeVarint`, or slice bounds out of range).
-/
set_option linter.unusedSimpArgs false
set_option linter.unusedVariables false
namespace Csproto.Bridge.EncoderFuncs
open Csproto Csproto.Generated.WireFuncs Csproto.Bridge Csproto.Bridge.WireFuncs

theorem writeAt_stage (p : Bytes) (off : Nat) (bs : Bytes) :
    p.take off ++ (bs ++ (p.drop off).drop bs.length) = writeAt p off bs := by
  simp [writeAt, List.drop_drop, List.append_assoc]

theorem adv_toNat (off : BitVec 64) (k : Nat) (h : off.toNat + k < 2 ^ 64) :
    (off + BitVec.ofNat 64 k).toNat = off.toNat + k := by
  rw [BitVec.toNat_add, BitVec.toNat_ofNat, Nat.mod_eq_of_lt (by omega : k < 2 ^ 64), Nat.mod_eq_of_lt h]

theorem store_ok (p : Bytes) (off : Nat) (bs : Bytes) (h : off + bs.length ≤ p.length) :
    ({ buf := p, off := off } : Enc).store bs = .ok { buf := writeAt p off bs, off := off + bs.length } := by
  simp [Enc.store, Enc.cap, h]

theorem store_panic (p : Bytes) (off : Nat) (bs : Bytes) (h : ¬ off + bs.length ≤ p.length) :
    ({ buf := p, off := off } : Enc).store bs = .panic := by
  simp [Enc.store, Enc.cap, h]

/-- writing `a` and then `b` at the cursor is writing `a ++ b` -/
theorem writeAt_writeAt (p : Bytes) (off : Nat) (a b : Bytes) (h : off + a.length + b.length ≤ p.length) :
    writeAt (writeAt p off a) (off + a.length) b = writeAt p off (a ++ b) := by
  have ha : off + a.length ≤ p.length := by omega
  have hd : (writeAt p off a).drop (off + a.length + b.length) = p.drop (off + a.length + b.length) := by
    have hl : (p.take off ++ a).length = off + a.length := by simp; omega
    unfold writeAt
    rw [← List.drop_drop, List.drop_left' hl, List.drop_drop]
  show (writeAt p off a).take (off + a.length) ++ b ++ (writeAt p off a).drop (off + a.length + b.length) = _
  rw [writeAt_take ha, hd]
  simp [writeAt, Nat.add_assoc]

/-- one stage `e.offset += W(e.p[e.offset:], …)` of a method, for a writer `W` with the `_ok` / `_short` contract of the
    translated primitives: with room it leaves `writeAt p off bs` and the cursor behind `bs`; without room it panics -/
theorem stage {σ : Type} (W : Go.Out σ (BitVec 64)) (dst : σ → Bytes) (p : Bytes) (off : BitVec 64) (bs : Bytes)
    (hp : p.length < 2 ^ 63) (hoff : off.toNat ≤ p.length)
    (hok : bs.length ≤ (p.drop off.toNat).length →
      ∃ c, W = .ret (BitVec.ofNat 64 bs.length) c ∧ dst c = bs ++ (p.drop off.toNat).drop bs.length)
    (hshort : (p.drop off.toNat).length < bs.length → W = .panic) :
    (off.toNat + bs.length ≤ p.length →
      ∃ c, W = .ret (BitVec.ofNat 64 bs.length) c ∧ p.take off.toNat ++ dst c = writeAt p off.toNat bs ∧
        (off + BitVec.ofNat 64 bs.length).toNat = off.toNat + bs.length) ∧
    (¬ off.toNat + bs.length ≤ p.length → W = .panic) := by
  have hl : (p.drop off.toNat).length = p.length - off.toNat := by simp
  constructor
  · intro h
    obtain ⟨c, h1, h2⟩ := hok (by omega)
    exact ⟨c, h1, by rw [h2, writeAt_stage], adv_toNat off _ (by omega)⟩
  · intro h
    exact hshort (by omega)

/-- **`(*Encoder).EncodeUInt64` of the source refines `Enc.step (.varint tag v)`** -/
theorem EncodeUInt64_refines (fuel : Nat) (hf : 10 ≤ fuel) (p : Bytes) (off tag : BitVec 64) (v : BitVec 64)
    (hp : p.length < 2 ^ 63) (hoff : off.toNat ≤ p.length) :
    match ({ buf := p, off := off.toNat } : Enc).step (.varint tag.toNat v.toNat) with
    | .ok e' => ∃ s, Encoder_EncodeUInt64 fuel p off tag v = .ret () s ∧ s.e_p = e'.buf ∧ s.e_offset.toNat = e'.off
    | .panic => Encoder_EncodeUInt64 fuel p off tag v = .panic
    | .err _ => False := by
  have hwt : wtVarint = (0#64).toNat := rfl
  obtain ⟨s1ok, s1bad⟩ := stage (EncodeTag fuel (p.drop off.toNat) tag 0#64) (·.dest) p off (encTag tag.toNat wtVarint) hp hoff
    (fun h => by rw [hwt] at h ⊢; exact EncodeTag_ok fuel _ tag 0#64 hf h)
    (fun h => by rw [hwt] at h; exact EncodeTag_short fuel _ tag 0#64 hf h)
  unfold Encoder_EncodeUInt64 Encoder_EncodeUInt64.body
  simp only [Go.seq, hoff, if_true, Enc.step, EncOp.wire]
  by_cases h1 : off.toNat + (encTag tag.toNat wtVarint).length ≤ p.length
  · obtain ⟨c1, hc1, hw1, ha1⟩ := s1ok h1
    have hlen1 : (writeAt p off.toNat (encTag tag.toNat wtVarint)).length = p.length := writeAt_length h1
    obtain ⟨s2ok, s2bad⟩ := stage (EncodeVarint fuel ((writeAt p off.toNat (encTag tag.toNat wtVarint)).drop (off + BitVec.ofNat 64 (encTag tag.toNat wtVarint).length).toNat) v)
      (·.dest) (writeAt p off.toNat (encTag tag.toNat wtVarint)) (off + BitVec.ofNat 64 (encTag tag.toNat wtVarint).length) (encVarint v.toNat)
      (by rw [hlen1]; exact hp) (by rw [hlen1, ha1]; exact h1)
      (fun h => EncodeVarint_ok fuel _ v hf h) (fun h => EncodeVarint_short fuel _ v hf h)
    simp only [hc1, hw1, hlen1, ha1, h1, if_true]
    by_cases h2 : off.toNat + (encTag tag.toNat wtVarint).length + (encVarint v.toNat).length ≤ p.length
    · obtain ⟨c2, hc2, hw2, ha2⟩ := s2ok (by rw [ha1, hlen1]; exact h2)
      have hst : ({ buf := p, off := off.toNat } : Enc).store (encTag tag.toNat wtVarint ++ encVarint v.toNat) =
          .ok { buf := writeAt p off.toNat (encTag tag.toNat wtVarint ++ encVarint v.toNat), off := off.toNat + (encTag tag.toNat wtVarint ++ encVarint v.toNat).length } :=
        store_ok p _ _ (by simp; omega)
      rw [ha1] at hc2 hw2 ha2
      simp only [hst, EncOut.ofRes, hc2, hw2, ha1]
      refine ⟨_, rfl, ?_, ?_⟩
      · exact writeAt_writeAt p off.toNat _ _ h2
      · simp [ha2]; omega
    · have hst : ({ buf := p, off := off.toNat } : Enc).store (encTag tag.toNat wtVarint ++ encVarint v.toNat) = .panic :=
        store_panic p _ _ (by simp; omega)
      simp only [hst, EncOut.ofRes]
      have hb := s2bad (by rw [ha1, hlen1]; exact h2)
      rw [ha1] at hb
      rw [hb]
  · have hst : ({ buf := p, off := off.toNat } : Enc).store (encTag tag.toNat wtVarint ++ encVarint v.toNat) = .panic :=
      store_panic p _ _ (by simp; omega)
    simp only [hst, EncOut.ofRes, s1bad h1]

/-- **`(*Encoder).EncodeInt64` of the source refines `Enc.step (.varint tag (uint64 v))` (`uint64(v)` of an int64 is the same 64 bits)** -/
theorem EncodeInt64_refines (fuel : Nat) (hf : 10 ≤ fuel) (p : Bytes) (off tag : BitVec 64) (v : BitVec 64)
    (hp : p.length < 2 ^ 63) (hoff : off.toNat ≤ p.length) :
    match ({ buf := p, off := off.toNat } : Enc).step (.varint tag.toNat v.toNat) with
    | .ok e' => ∃ s, Encoder_EncodeInt64 fuel p off tag v = .ret () s ∧ s.e_p = e'.buf ∧ s.e_offset.toNat = e'.off
    | .panic => Encoder_EncodeInt64 fuel p off tag v = .panic
    | .err _ => False := by
  have hwt : wtVarint = (0#64).toNat := rfl
  obtain ⟨s1ok, s1bad⟩ := stage (EncodeTag fuel (p.drop off.toNat) tag 0#64) (·.dest) p off (encTag tag.toNat wtVarint) hp hoff
    (fun h => by rw [hwt] at h ⊢; exact EncodeTag_ok fuel _ tag 0#64 hf h)
    (fun h => by rw [hwt] at h; exact EncodeTag_short fuel _ tag 0#64 hf h)
  unfold Encoder_EncodeInt64 Encoder_EncodeInt64.body
  simp only [Go.seq, hoff, if_true, Enc.step, EncOp.wire]
  by_cases h1 : off.toNat + (encTag tag.toNat wtVarint).length ≤ p.length
  · obtain ⟨c1, hc1, hw1, ha1⟩ := s1ok h1
    have hlen1 : (writeAt p off.toNat (encTag tag.toNat wtVarint)).length = p.length := writeAt_length h1
    obtain ⟨s2ok, s2bad⟩ := stage (EncodeVarint fuel ((writeAt p off.toNat (encTag tag.toNat wtVarint)).drop (off + BitVec.ofNat 64 (encTag tag.toNat wtVarint).length).toNat) v)
      (·.dest) (writeAt p off.toNat (encTag tag.toNat wtVarint)) (off + BitVec.ofNat 64 (encTag tag.toNat wtVarint).length) (encVarint v.toNat)
      (by rw [hlen1]; exact hp) (by rw [hlen1, ha1]; exact h1)
      (fun h => EncodeVarint_ok fuel _ v hf h) (fun h => EncodeVarint_short fuel _ v hf h)
    simp only [hc1, hw1, hlen1, ha1, h1, if_true]
    by_cases h2 : off.toNat + (encTag tag.toNat wtVarint).length + (encVarint v.toNat).length ≤ p.length
    · obtain ⟨c2, hc2, hw2, ha2⟩ := s2ok (by rw [ha1, hlen1]; exact h2)
      have hst : ({ buf := p, off := off.toNat } : Enc).store (encTag tag.toNat wtVarint ++ encVarint v.toNat) =
          .ok { buf := writeAt p off.toNat (encTag tag.toNat wtVarint ++ encVarint v.toNat), off := off.toNat + (encTag tag.toNat wtVarint ++ encVarint v.toNat).length } :=
        store_ok p _ _ (by simp; omega)
      rw [ha1] at hc2 hw2 ha2
      simp only [hst, EncOut.ofRes, hc2, hw2, ha1]
      refine ⟨_, rfl, ?_, ?_⟩
      · exact writeAt_writeAt p off.toNat _ _ h2
      · simp [ha2]; omega
    · have hst : ({ buf := p, off := off.toNat } : Enc).store (encTag tag.toNat wtVarint ++ encVarint v.toNat) = .panic :=
        store_panic p _ _ (by simp; omega)
      simp only [hst, EncOut.ofRes]
      have hb := s2bad (by rw [ha1, hlen1]; exact h2)
      rw [ha1] at hb
      rw [hb]
  · have hst : ({ buf := p, off := off.toNat } : Enc).store (encTag tag.toNat wtVarint ++ encVarint v.toNat) = .panic :=
      store_panic p _ _ (by simp; omega)
    simp only [hst, EncOut.ofRes, s1bad h1]

/-- **`(*Encoder).EncodeUInt32` of the source refines `Enc.step (.varint tag (uint64 v))` (zero extension)** -/
theorem EncodeUInt32_refines (fuel : Nat) (hf : 10 ≤ fuel) (p : Bytes) (off tag : BitVec 64) (v : BitVec 32)
    (hp : p.length < 2 ^ 63) (hoff : off.toNat ≤ p.length) :
    match ({ buf := p, off := off.toNat } : Enc).step (.varint tag.toNat (BitVec.setWidth 64 v).toNat) with
    | .ok e' => ∃ s, Encoder_EncodeUInt32 fuel p off tag v = .ret () s ∧ s.e_p = e'.buf ∧ s.e_offset.toNat = e'.off
    | .panic => Encoder_EncodeUInt32 fuel p off tag v = .panic
    | .err _ => False := by
  have hwt : wtVarint = (0#64).toNat := rfl
  obtain ⟨s1ok, s1bad⟩ := stage (EncodeTag fuel (p.drop off.toNat) tag 0#64) (·.dest) p off (encTag tag.toNat wtVarint) hp hoff
    (fun h => by rw [hwt] at h ⊢; exact EncodeTag_ok fuel _ tag 0#64 hf h)
    (fun h => by rw [hwt] at h; exact EncodeTag_short fuel _ tag 0#64 hf h)
  unfold Encoder_EncodeUInt32 Encoder_EncodeUInt32.body
  simp only [Go.seq, hoff, if_true, Enc.step, EncOp.wire]
  by_cases h1 : off.toNat + (encTag tag.toNat wtVarint).length ≤ p.length
  · obtain ⟨c1, hc1, hw1, ha1⟩ := s1ok h1
    have hlen1 : (writeAt p off.toNat (encTag tag.toNat wtVarint)).length = p.length := writeAt_length h1
    obtain ⟨s2ok, s2bad⟩ := stage (EncodeVarint fuel ((writeAt p off.toNat (encTag tag.toNat wtVarint)).drop (off + BitVec.ofNat 64 (encTag tag.toNat wtVarint).length).toNat) (BitVec.setWidth 64 v))
      (·.dest) (writeAt p off.toNat (encTag tag.toNat wtVarint)) (off + BitVec.ofNat 64 (encTag tag.toNat wtVarint).length) (encVarint (BitVec.setWidth 64 v).toNat)
      (by rw [hlen1]; exact hp) (by rw [hlen1, ha1]; exact h1)
      (fun h => EncodeVarint_ok fuel _ (BitVec.setWidth 64 v) hf h) (fun h => EncodeVarint_short fuel _ (BitVec.setWidth 64 v) hf h)
    simp only [hc1, hw1, hlen1, ha1, h1, if_true]
    generalize BitVec.setWidth 64 v = w at *
    by_cases h2 : off.toNat + (encTag tag.toNat wtVarint).length + (encVarint w.toNat).length ≤ p.length
    · obtain ⟨c2, hc2, hw2, ha2⟩ := s2ok (by rw [ha1, hlen1]; exact h2)
      have hst : ({ buf := p, off := off.toNat } : Enc).store (encTag tag.toNat wtVarint ++ encVarint w.toNat) =
          .ok { buf := writeAt p off.toNat (encTag tag.toNat wtVarint ++ encVarint w.toNat), off := off.toNat + (encTag tag.toNat wtVarint ++ encVarint w.toNat).length } :=
        store_ok p _ _ (by simp; omega)
      rw [ha1] at hc2 hw2 ha2
      simp only [hst, EncOut.ofRes, hc2, hw2, ha1]
      refine ⟨_, rfl, ?_, ?_⟩
      · exact writeAt_writeAt p off.toNat _ _ h2
      · simp [ha2]; omega
    · have hst : ({ buf := p, off := off.toNat } : Enc).store (encTag tag.toNat wtVarint ++ encVarint w.toNat) = .panic :=
        store_panic p _ _ (by simp; omega)
      simp only [hst, EncOut.ofRes]
      have hb := s2bad (by rw [ha1, hlen1]; exact h2)
      rw [ha1] at hb
      rw [hb]
  · have hst : ({ buf := p, off := off.toNat } : Enc).store (encTag tag.toNat wtVarint ++ encVarint (BitVec.setWidth 64 v).toNat) = .panic :=
      store_panic p _ _ (by simp; omega)
    simp only [hst, EncOut.ofRes, s1bad h1]

/-- **`(*Encoder).EncodeInt32` of the source refines `Enc.step (.varint tag (uint64 v))`: `uint64(v)` of an int32 SIGN-extends, a negative value is written as ten bytes** -/
theorem EncodeInt32_refines (fuel : Nat) (hf : 10 ≤ fuel) (p : Bytes) (off tag : BitVec 64) (v : BitVec 32)
    (hp : p.length < 2 ^ 63) (hoff : off.toNat ≤ p.length) :
    match ({ buf := p, off := off.toNat } : Enc).step (.varint tag.toNat (BitVec.signExtend 64 v).toNat) with
    | .ok e' => ∃ s, Encoder_EncodeInt32 fuel p off tag v = .ret () s ∧ s.e_p = e'.buf ∧ s.e_offset.toNat = e'.off
    | .panic => Encoder_EncodeInt32 fuel p off tag v = .panic
    | .err _ => False := by
  have hwt : wtVarint = (0#64).toNat := rfl
  obtain ⟨s1ok, s1bad⟩ := stage (EncodeTag fuel (p.drop off.toNat) tag 0#64) (·.dest) p off (encTag tag.toNat wtVarint) hp hoff
    (fun h => by rw [hwt] at h ⊢; exact EncodeTag_ok fuel _ tag 0#64 hf h)
    (fun h => by rw [hwt] at h; exact EncodeTag_short fuel _ tag 0#64 hf h)
  unfold Encoder_EncodeInt32 Encoder_EncodeInt32.body
  simp only [Go.seq, hoff, if_true, Enc.step, EncOp.wire]
  by_cases h1 : off.toNat + (encTag tag.toNat wtVarint).length ≤ p.length
  · obtain ⟨c1, hc1, hw1, ha1⟩ := s1ok h1
    have hlen1 : (writeAt p off.toNat (encTag tag.toNat wtVarint)).length = p.length := writeAt_length h1
    obtain ⟨s2ok, s2bad⟩ := stage (EncodeVarint fuel ((writeAt p off.toNat (encTag tag.toNat wtVarint)).drop (off + BitVec.ofNat 64 (encTag tag.toNat wtVarint).length).toNat) (BitVec.signExtend 64 v))
      (·.dest) (writeAt p off.toNat (encTag tag.toNat wtVarint)) (off + BitVec.ofNat 64 (encTag tag.toNat wtVarint).length) (encVarint (BitVec.signExtend 64 v).toNat)
      (by rw [hlen1]; exact hp) (by rw [hlen1, ha1]; exact h1)
      (fun h => EncodeVarint_ok fuel _ (BitVec.signExtend 64 v) hf h) (fun h => EncodeVarint_short fuel _ (BitVec.signExtend 64 v) hf h)
    simp only [hc1, hw1, hlen1, ha1, h1, if_true]
    generalize BitVec.signExtend 64 v = w at *
    by_cases h2 : off.toNat + (encTag tag.toNat wtVarint).length + (encVarint w.toNat).length ≤ p.length
    · obtain ⟨c2, hc2, hw2, ha2⟩ := s2ok (by rw [ha1, hlen1]; exact h2)
      have hst : ({ buf := p, off := off.toNat } : Enc).store (encTag tag.toNat wtVarint ++ encVarint w.toNat) =
          .ok { buf := writeAt p off.toNat (encTag tag.toNat wtVarint ++ encVarint w.toNat), off := off.toNat + (encTag tag.toNat wtVarint ++ encVarint w.toNat).length } :=
        store_ok p _ _ (by simp; omega)
      rw [ha1] at hc2 hw2 ha2
      simp only [hst, EncOut.ofRes, hc2, hw2, ha1]
      refine ⟨_, rfl, ?_, ?_⟩
      · exact writeAt_writeAt p off.toNat _ _ h2
      · simp [ha2]; omega
    · have hst : ({ buf := p, off := off.toNat } : Enc).store (encTag tag.toNat wtVarint ++ encVarint w.toNat) = .panic :=
        store_panic p _ _ (by simp; omega)
      simp only [hst, EncOut.ofRes]
      have hb := s2bad (by rw [ha1, hlen1]; exact h2)
      rw [ha1] at hb
      rw [hb]
  · have hst : ({ buf := p, off := off.toNat } : Enc).store (encTag tag.toNat wtVarint ++ encVarint (BitVec.signExtend 64 v).toNat) = .panic :=
      store_panic p _ _ (by simp; omega)
    simp only [hst, EncOut.ofRes, s1bad h1]

/-- **`(*Encoder).EncodeSInt64` of the source refines `Enc.step (.zigzag64 tag v)`** -/
theorem EncodeSInt64_refines (fuel : Nat) (hf : 10 ≤ fuel) (p : Bytes) (off tag : BitVec 64) (v : BitVec 64)
    (hp : p.length < 2 ^ 63) (hoff : off.toNat ≤ p.length) :
    match ({ buf := p, off := off.toNat } : Enc).step (.zigzag64 tag.toNat v.toInt) with
    | .ok e' => ∃ s, Encoder_EncodeSInt64 fuel p off tag v = .ret () s ∧ s.e_p = e'.buf ∧ s.e_offset.toNat = e'.off
    | .panic => Encoder_EncodeSInt64 fuel p off tag v = .panic
    | .err _ => False := by
  have hwt : wtVarint = (0#64).toNat := rfl
  obtain ⟨s1ok, s1bad⟩ := stage (EncodeTag fuel (p.drop off.toNat) tag 0#64) (·.dest) p off (encTag tag.toNat wtVarint) hp hoff
    (fun h => by rw [hwt] at h ⊢; exact EncodeTag_ok fuel _ tag 0#64 hf h)
    (fun h => by rw [hwt] at h; exact EncodeTag_short fuel _ tag 0#64 hf h)
  unfold Encoder_EncodeSInt64 Encoder_EncodeSInt64.body
  simp only [Go.seq, hoff, if_true, Enc.step, EncOp.wire]
  by_cases h1 : off.toNat + (encTag tag.toNat wtVarint).length ≤ p.length
  · obtain ⟨c1, hc1, hw1, ha1⟩ := s1ok h1
    have hlen1 : (writeAt p off.toNat (encTag tag.toNat wtVarint)).length = p.length := writeAt_length h1
    obtain ⟨s2ok, s2bad⟩ := stage (EncodeZigZag64 fuel ((writeAt p off.toNat (encTag tag.toNat wtVarint)).drop (off + BitVec.ofNat 64 (encTag tag.toNat wtVarint).length).toNat) v)
      (·.dest) (writeAt p off.toNat (encTag tag.toNat wtVarint)) (off + BitVec.ofNat 64 (encTag tag.toNat wtVarint).length) (encZigZag64 v.toInt)
      (by rw [hlen1]; exact hp) (by rw [hlen1, ha1]; exact h1)
      (fun h => EncodeZigZag64_ok fuel _ v hf h) (fun h => EncodeZigZag64_short fuel _ v hf h)
    simp only [hc1, hw1, hlen1, ha1, h1, if_true]
    by_cases h2 : off.toNat + (encTag tag.toNat wtVarint).length + (encZigZag64 v.toInt).length ≤ p.length
    · obtain ⟨c2, hc2, hw2, ha2⟩ := s2ok (by rw [ha1, hlen1]; exact h2)
      have hst : ({ buf := p, off := off.toNat } : Enc).store (encTag tag.toNat wtVarint ++ encZigZag64 v.toInt) =
          .ok { buf := writeAt p off.toNat (encTag tag.toNat wtVarint ++ encZigZag64 v.toInt), off := off.toNat + (encTag tag.toNat wtVarint ++ encZigZag64 v.toInt).length } :=
        store_ok p _ _ (by simp; omega)
      rw [ha1] at hc2 hw2 ha2
      simp only [hst, EncOut.ofRes, hc2, hw2, ha1]
      refine ⟨_, rfl, ?_, ?_⟩
      · exact writeAt_writeAt p off.toNat _ _ h2
      · simp [ha2]; omega
    · have hst : ({ buf := p, off := off.toNat } : Enc).store (encTag tag.toNat wtVarint ++ encZigZag64 v.toInt) = .panic :=
        store_panic p _ _ (by simp; omega)
      simp only [hst, EncOut.ofRes]
      have hb := s2bad (by rw [ha1, hlen1]; exact h2)
      rw [ha1] at hb
      rw [hb]
  · have hst : ({ buf := p, off := off.toNat } : Enc).store (encTag tag.toNat wtVarint ++ encZigZag64 v.toInt) = .panic :=
      store_panic p _ _ (by simp; omega)
    simp only [hst, EncOut.ofRes, s1bad h1]

/-- **`(*Encoder).EncodeSInt32` of the source refines `Enc.step (.zigzag32 tag v)`** -/
theorem EncodeSInt32_refines (fuel : Nat) (hf : 10 ≤ fuel) (p : Bytes) (off tag : BitVec 64) (v : BitVec 32)
    (hp : p.length < 2 ^ 63) (hoff : off.toNat ≤ p.length) :
    match ({ buf := p, off := off.toNat } : Enc).step (.zigzag32 tag.toNat v.toInt) with
    | .ok e' => ∃ s, Encoder_EncodeSInt32 fuel p off tag v = .ret () s ∧ s.e_p = e'.buf ∧ s.e_offset.toNat = e'.off
    | .panic => Encoder_EncodeSInt32 fuel p off tag v = .panic
    | .err _ => False := by
  have hwt : wtVarint = (0#64).toNat := rfl
  obtain ⟨s1ok, s1bad⟩ := stage (EncodeTag fuel (p.drop off.toNat) tag 0#64) (·.dest) p off (encTag tag.toNat wtVarint) hp hoff
    (fun h => by rw [hwt] at h ⊢; exact EncodeTag_ok fuel _ tag 0#64 hf h)
    (fun h => by rw [hwt] at h; exact EncodeTag_short fuel _ tag 0#64 hf h)
  unfold Encoder_EncodeSInt32 Encoder_EncodeSInt32.body
  simp only [Go.seq, hoff, if_true, Enc.step, EncOp.wire]
  by_cases h1 : off.toNat + (encTag tag.toNat wtVarint).length ≤ p.length
  · obtain ⟨c1, hc1, hw1, ha1⟩ := s1ok h1
    have hlen1 : (writeAt p off.toNat (encTag tag.toNat wtVarint)).length = p.length := writeAt_length h1
    obtain ⟨s2ok, s2bad⟩ := stage (EncodeZigZag32 fuel ((writeAt p off.toNat (encTag tag.toNat wtVarint)).drop (off + BitVec.ofNat 64 (encTag tag.toNat wtVarint).length).toNat) v)
      (·.dest) (writeAt p off.toNat (encTag tag.toNat wtVarint)) (off + BitVec.ofNat 64 (encTag tag.toNat wtVarint).length) (encZigZag32 v.toInt)
      (by rw [hlen1]; exact hp) (by rw [hlen1, ha1]; exact h1)
      (fun h => EncodeZigZag32_ok fuel _ v hf h) (fun h => EncodeZigZag32_short fuel _ v hf h)
    simp only [hc1, hw1, hlen1, ha1, h1, if_true]
    by_cases h2 : off.toNat + (encTag tag.toNat wtVarint).length + (encZigZag32 v.toInt).length ≤ p.length
    · obtain ⟨c2, hc2, hw2, ha2⟩ := s2ok (by rw [ha1, hlen1]; exact h2)
      have hst : ({ buf := p, off := off.toNat } : Enc).store (encTag tag.toNat wtVarint ++ encZigZag32 v.toInt) =
          .ok { buf := writeAt p off.toNat (encTag tag.toNat wtVarint ++ encZigZag32 v.toInt), off := off.toNat + (encTag tag.toNat wtVarint ++ encZigZag32 v.toInt).length } :=
        store_ok p _ _ (by simp; omega)
      rw [ha1] at hc2 hw2 ha2
      simp only [hst, EncOut.ofRes, hc2, hw2, ha1]
      refine ⟨_, rfl, ?_, ?_⟩
      · exact writeAt_writeAt p off.toNat _ _ h2
      · simp [ha2]; omega
    · have hst : ({ buf := p, off := off.toNat } : Enc).store (encTag tag.toNat wtVarint ++ encZigZag32 v.toInt) = .panic :=
        store_panic p _ _ (by simp; omega)
      simp only [hst, EncOut.ofRes]
      have hb := s2bad (by rw [ha1, hlen1]; exact h2)
      rw [ha1] at hb
      rw [hb]
  · have hst : ({ buf := p, off := off.toNat } : Enc).store (encTag tag.toNat wtVarint ++ encZigZag32 v.toInt) = .panic :=
      store_panic p _ _ (by simp; omega)
    simp only [hst, EncOut.ofRes, s1bad h1]

/-! ### `EncodeBool`: key, then one indexed store -/

theorem set_writeAt (q : Bytes) (i : Nat) (b : UInt8) (h : i < q.length) : q.set i b = writeAt q i [b] := by
  rw [List.set_eq_take_append_cons_drop]
  simp [h, writeAt]

/-- **`(*Encoder).EncodeBool` of the source refines `Enc.step (.bool tag v)`**: the byte for `false` is STORED too (the
    destination may hold anything), and the call panics exactly when key + 1 byte do not fit -/
theorem EncodeBool_refines (fuel : Nat) (hf : 10 ≤ fuel) (p : Bytes) (off tag : BitVec 64) (v : Bool)
    (hp : p.length < 2 ^ 63) (hoff : off.toNat ≤ p.length) :
    match ({ buf := p, off := off.toNat } : Enc).step (.bool tag.toNat v) with
    | .ok e' => ∃ s, Encoder_EncodeBool fuel p off tag v = .ret () s ∧ s.e_p = e'.buf ∧ s.e_offset.toNat = e'.off
    | .panic => Encoder_EncodeBool fuel p off tag v = .panic
    | .err _ => False := by
  have hwt : wtVarint = (0#64).toNat := rfl
  obtain ⟨s1ok, s1bad⟩ := stage (EncodeTag fuel (p.drop off.toNat) tag 0#64) (·.dest) p off (encTag tag.toNat wtVarint) hp hoff
    (fun h => by rw [hwt] at h ⊢; exact EncodeTag_ok fuel _ tag 0#64 hf h)
    (fun h => by rw [hwt] at h; exact EncodeTag_short fuel _ tag 0#64 hf h)
  unfold Encoder_EncodeBool Encoder_EncodeBool.body
  simp only [Go.seq, hoff, if_true, Enc.step, EncOp.wire]
  by_cases h1 : off.toNat + (encTag tag.toNat wtVarint).length ≤ p.length
  · obtain ⟨c1, hc1, hw1, ha1⟩ := s1ok h1
    have hlen1 : (writeAt p off.toNat (encTag tag.toNat wtVarint)).length = p.length := writeAt_length h1
    simp only [hc1, hw1, hlen1, ha1]
    by_cases h2 : off.toNat + (encTag tag.toNat wtVarint).length < p.length
    · have hst : ({ buf := p, off := off.toNat } : Enc).store (encTag tag.toNat wtVarint ++ [boolByte v]) =
          .ok { buf := writeAt p off.toNat (encTag tag.toNat wtVarint ++ [boolByte v]), off := off.toNat + (encTag tag.toNat wtVarint ++ [boolByte v]).length } :=
        store_ok p _ _ (by simp only [List.length_append, List.length_singleton]; omega)
      have hww : writeAt (writeAt p off.toNat (encTag tag.toNat wtVarint)) (off.toNat + (encTag tag.toNat wtVarint).length) [boolByte v] =
          writeAt p off.toNat (encTag tag.toNat wtVarint ++ [boolByte v]) :=
        writeAt_writeAt p off.toNat _ _ (by simp only [List.length_singleton]; omega)
      have hsetlen : off.toNat + (encTag tag.toNat wtVarint).length < (writeAt p off.toNat (encTag tag.toNat wtVarint)).length := by
        rw [hlen1]; exact h2
      have hadv : (off + BitVec.ofNat 64 (encTag tag.toNat wtVarint).length + 1#64).toNat = off.toNat + (encTag tag.toNat wtVarint).length + 1 := by
        have := adv_toNat (off + BitVec.ofNat 64 (encTag tag.toNat wtVarint).length) 1 (by rw [ha1]; omega)
        rw [ha1] at this; exact this
      simp only [hst, EncOut.ofRes, h2, if_true]
      cases v
      · simp only [Bool.false_eq_true, if_false, Go.wr]
        refine ⟨_, rfl, ?_, ?_⟩
        · show (writeAt p off.toNat (encTag tag.toNat wtVarint)).set _ _ = _
          rw [set_writeAt _ _ _ hsetlen, ← hww]; rfl
        · simp only [List.length_append, List.length_singleton]; rw [hadv]; omega
      · simp only [if_true, Go.wr]
        refine ⟨_, rfl, ?_, ?_⟩
        · show (writeAt p off.toNat (encTag tag.toNat wtVarint)).set _ _ = _
          rw [set_writeAt _ _ _ hsetlen, ← hww]; rfl
        · simp only [List.length_append, List.length_singleton]; rw [hadv]; omega
    · have hst : ({ buf := p, off := off.toNat } : Enc).store (encTag tag.toNat wtVarint ++ [boolByte v]) = .panic :=
        store_panic p _ _ (by simp only [List.length_append, List.length_singleton]; omega)
      simp only [hst, EncOut.ofRes, h2, if_false]
      cases v <;> simp
  · have hst : ({ buf := p, off := off.toNat } : Enc).store (encTag tag.toNat wtVarint ++ [boolByte v]) = .panic :=
      store_panic p _ _ (by simp only [List.length_append, List.length_singleton]; omega)
    simp only [hst, EncOut.ofRes, s1bad h1]

/-! ### `EncodeBytes`: two indexed stores and a `copy` -/

theorem copyAt_eq (q : Bytes) (lo : Nat) (v : Bytes) : Go.copyAt q lo v = writeAt q lo (v.take (q.length - lo)) := rfl

/-- **`(*Encoder).EncodeBytes` of the source refines `Enc.step (.bytes tag v)`**: key and length prefix are indexed stores
    (panic when they do not fit), the payload is a `copy` — SILENTLY truncated when the buffer is short, and the cursor
    still advances by `len(v)` — exactly as the model says. -/
theorem EncodeBytes_refines (fuel : Nat) (hf : 10 ≤ fuel) (p : Bytes) (off tag : BitVec 64) (v : Bytes)
    (hp : p.length < 2 ^ 62) (hv : v.length < 2 ^ 62) (hoff : off.toNat ≤ p.length) :
    match ({ buf := p, off := off.toNat } : Enc).step (.bytes tag.toNat v) with
    | .ok e' => ∃ s, Encoder_EncodeBytes fuel p off tag v = .ret () s ∧ s.e_p = e'.buf ∧ s.e_offset.toNat = e'.off
    | .panic => Encoder_EncodeBytes fuel p off tag v = .panic
    | .err _ => False := by
  have hp63 : p.length < 2 ^ 63 := by omega
  have hwt : wtLen = (2#64).toNat := rfl
  obtain ⟨N, hNdef, hN⟩ : ∃ N : BitVec 64, N = BitVec.ofNat 64 v.length ∧ N.toNat = v.length := ⟨_, rfl, by simp; omega⟩
  generalize hT : encTag tag.toNat wtLen = T
  obtain ⟨s1ok, s1bad⟩ := stage (EncodeTag fuel (p.drop off.toNat) tag 2#64) (·.dest) p off T hp63 hoff
    (fun h => by rw [← hT, hwt] at h ⊢; exact EncodeTag_ok fuel _ tag 2#64 hf h)
    (fun h => by rw [← hT, hwt] at h; exact EncodeTag_short fuel _ tag 2#64 hf h)
  unfold Encoder_EncodeBytes Encoder_EncodeBytes.body
  simp only [Go.seq, hoff, if_true, Enc.step, hT]
  by_cases h1 : off.toNat + T.length ≤ p.length
  · obtain ⟨c1, hc1, hw1, ha1⟩ := s1ok h1
    have hlen1 : (writeAt p off.toNat T).length = p.length := writeAt_length h1
    have hst1 := store_ok p off.toNat T h1
    obtain ⟨s2ok, s2bad⟩ := stage (EncodeVarint fuel ((writeAt p off.toNat T).drop (off + BitVec.ofNat 64 T.length).toNat) N)
      (·.dest) (writeAt p off.toNat T) (off + BitVec.ofNat 64 T.length) (encVarint v.length)
      (by rw [hlen1]; exact hp63) (by rw [hlen1, ha1]; exact h1)
      (fun h => by have := EncodeVarint_ok fuel _ N hf (by rw [hN]; exact h); rw [hN] at this; exact this)
      (fun h => EncodeVarint_short fuel _ N hf (by rw [hN]; exact h))
    simp only [hc1, hw1, hlen1, ha1, h1, if_true, hst1, Bind.bind, Res.bind, ← hNdef]
    by_cases h2 : off.toNat + T.length + (encVarint v.length).length ≤ p.length
    · obtain ⟨c2, hc2, hw2, ha2⟩ := s2ok (by rw [ha1, hlen1]; exact h2)
      rw [ha1] at hc2 hw2 ha2
      have hlen2 : (writeAt (writeAt p off.toNat T) (off.toNat + T.length) (encVarint v.length)).length = p.length := by
        rw [writeAt_length (by rw [hlen1]; exact h2), hlen1]
      have hst2 := store_ok (writeAt p off.toNat T) (off.toNat + T.length) (encVarint v.length) (by rw [hlen1]; exact h2)
      have hadv3 : (off + BitVec.ofNat 64 T.length + BitVec.ofNat 64 (encVarint v.length).length + N).toNat =
          off.toNat + T.length + (encVarint v.length).length + v.length := by
        rw [BitVec.toNat_add, ha2, hN, Nat.mod_eq_of_lt (by omega)]
      simp only [hc2, hw2, hst2, Enc.copy, Enc.copyAdv, Enc.cap, hlen2, ha2, h2, if_true, EncOut.ofRes, copyAt_eq]
      exact ⟨_, rfl, rfl, by first | exact hadv3 | (rw [hNdef] at hadv3; exact hadv3)⟩
    · have hst2 := store_panic (writeAt p off.toNat T) (off.toNat + T.length) (encVarint v.length) (by rw [hlen1]; exact h2)
      simp only [hst2, EncOut.ofRes]
      have hb := s2bad (by rw [ha1, hlen1]; exact h2)
      rw [ha1] at hb
      first | rw [hb] | (rw [hNdef] at hb; rw [hb]) | erw [hb] | simp only [hb]
  · have hst1 := store_panic p off.toNat T h1
    simp only [hst1, Bind.bind, Res.bind, EncOut.ofRes, s1bad h1]

/-- **`(*Encoder).EncodeMapEntryHeader` of the source refines `Enc.step (.mapHeader tag size)` (key with wire type 2, then the entry size as a varint)** -/
theorem EncodeMapEntryHeader_refines (fuel : Nat) (hf : 10 ≤ fuel) (p : Bytes) (off tag : BitVec 64) (v : BitVec 64)
    (hp : p.length < 2 ^ 63) (hoff : off.toNat ≤ p.length) :
    match ({ buf := p, off := off.toNat } : Enc).step (.mapHeader tag.toNat v.toNat) with
    | .ok e' => ∃ s, Encoder_EncodeMapEntryHeader fuel p off tag v = .ret () s ∧ s.e_p = e'.buf ∧ s.e_offset.toNat = e'.off
    | .panic => Encoder_EncodeMapEntryHeader fuel p off tag v = .panic
    | .err _ => False := by
  have hwt : wtLen = (2#64).toNat := rfl
  obtain ⟨s1ok, s1bad⟩ := stage (EncodeTag fuel (p.drop off.toNat) tag 2#64) (·.dest) p off (encTag tag.toNat wtLen) hp hoff
    (fun h => by rw [hwt] at h ⊢; exact EncodeTag_ok fuel _ tag 2#64 hf h)
    (fun h => by rw [hwt] at h; exact EncodeTag_short fuel _ tag 2#64 hf h)
  unfold Encoder_EncodeMapEntryHeader Encoder_EncodeMapEntryHeader.body
  simp only [Go.seq, hoff, if_true, Enc.step, EncOp.wire]
  by_cases h1 : off.toNat + (encTag tag.toNat wtLen).length ≤ p.length
  · obtain ⟨c1, hc1, hw1, ha1⟩ := s1ok h1
    have hlen1 : (writeAt p off.toNat (encTag tag.toNat wtLen)).length = p.length := writeAt_length h1
    obtain ⟨s2ok, s2bad⟩ := stage (EncodeVarint fuel ((writeAt p off.toNat (encTag tag.toNat wtLen)).drop (off + BitVec.ofNat 64 (encTag tag.toNat wtLen).length).toNat) v)
      (·.dest) (writeAt p off.toNat (encTag tag.toNat wtLen)) (off + BitVec.ofNat 64 (encTag tag.toNat wtLen).length) (encVarint v.toNat)
      (by rw [hlen1]; exact hp) (by rw [hlen1, ha1]; exact h1)
      (fun h => EncodeVarint_ok fuel _ v hf h) (fun h => EncodeVarint_short fuel _ v hf h)
    simp only [hc1, hw1, hlen1, ha1, h1, if_true]
    by_cases h2 : off.toNat + (encTag tag.toNat wtLen).length + (encVarint v.toNat).length ≤ p.length
    · obtain ⟨c2, hc2, hw2, ha2⟩ := s2ok (by rw [ha1, hlen1]; exact h2)
      have hst : ({ buf := p, off := off.toNat } : Enc).store (encTag tag.toNat wtLen ++ encVarint v.toNat) =
          .ok { buf := writeAt p off.toNat (encTag tag.toNat wtLen ++ encVarint v.toNat), off := off.toNat + (encTag tag.toNat wtLen ++ encVarint v.toNat).length } :=
        store_ok p _ _ (by simp; omega)
      rw [ha1] at hc2 hw2 ha2
      simp only [hst, EncOut.ofRes, hc2, hw2, ha1]
      refine ⟨_, rfl, ?_, ?_⟩
      · exact writeAt_writeAt p off.toNat _ _ h2
      · simp [ha2]; omega
    · have hst : ({ buf := p, off := off.toNat } : Enc).store (encTag tag.toNat wtLen ++ encVarint v.toNat) = .panic :=
        store_panic p _ _ (by simp; omega)
      simp only [hst, EncOut.ofRes]
      have hb := s2bad (by rw [ha1, hlen1]; exact h2)
      rw [ha1] at hb
      rw [hb]
  · have hst : ({ buf := p, off := off.toNat } : Enc).store (encTag tag.toNat wtLen ++ encVarint v.toNat) = .panic :=
      store_panic p _ _ (by simp; omega)
    simp only [hst, EncOut.ofRes, s1bad h1]


/-- **`(*Encoder).EncodeRaw` of the source refines `Enc.step (.raw d)`**: nothing for an empty slice; otherwise a `copy`
    (silently truncated when the buffer is short) and the cursor advanced by `len(d)`; a cursor already beyond the buffer
    makes the slice expression panic -/
theorem EncodeRaw_refines (fuel : Nat) (p : Bytes) (off : BitVec 64) (d : Bytes)
    (hp : p.length < 2 ^ 62) (hd : d.length < 2 ^ 62) (hoff63 : off.toNat < 2 ^ 63) :
    match ({ buf := p, off := off.toNat } : Enc).step (.raw d) with
    | .ok e' => ∃ s, Encoder_EncodeRaw fuel p off d = .ret () s ∧ s.e_p = e'.buf ∧ s.e_offset.toNat = e'.off
    | .panic => Encoder_EncodeRaw fuel p off d = .panic
    | .err _ => False := by
  obtain ⟨N, hNdef, hN⟩ : ∃ N : BitVec 64, N = BitVec.ofNat 64 d.length ∧ N.toNat = d.length := ⟨_, rfl, by simp; omega⟩
  have hslt : BitVec.slt 0#64 N = decide (0 < d.length) := by
    have := slt_ofNat 0 d.length (by omega) (by omega)
    rw [hNdef]; simpa using this
  unfold Encoder_EncodeRaw Encoder_EncodeRaw.body
  simp only [Go.seq, Go.skip, Enc.step, ← hNdef, hslt]
  cases hd0 : d with
  | nil => simp
  | cons x r =>
    rw [← hd0]
    have hpos : 0 < d.length := by rw [hd0]; simp
    have hne : d.isEmpty = false := by rw [hd0]; rfl
    simp only [hpos, decide_true, if_true, hne, Bool.false_eq_true, if_false, Enc.copy, Enc.copyAdv, Enc.cap]
    by_cases hle : off.toNat ≤ p.length
    · have hadv : (off + N).toNat = off.toNat + d.length := by rw [BitVec.toNat_add, hN, Nat.mod_eq_of_lt (by omega)]
      simp only [hle, if_true, EncOut.ofRes, copyAt_eq]
      exact ⟨_, rfl, rfl, hadv⟩
    · simp only [hle, if_false, EncOut.ofRes]

/-! ### fixed-width writers: `binary.LittleEndian.PutUint32/64` rendered as `Go.putLE` (trusted rendering of encoding/binary) -/

theorem leB_eq : ∀ (k v : Nat), Go.leB k v = leBytes k v
  | 0, _ => rfl
  | k + 1, v => by simp [Go.leB, leBytes, leB_eq k]

theorem EncodeFixed32_ok (fuel : Nat) (dest : Bytes) (v : BitVec 32) (hd : (encFixed32 v.toNat).length ≤ dest.length) :
    ∃ s', EncodeFixed32 fuel dest v = .ret (BitVec.ofNat 64 (encFixed32 v.toNat).length) s' ∧
      s'.dest = encFixed32 v.toNat ++ dest.drop (encFixed32 v.toNat).length := by
  have h4 : (encFixed32 v.toNat).length = 4 := by simp [encFixed32]
  rw [h4] at hd ⊢
  unfold EncodeFixed32 EncodeFixed32.body
  simp only [Go.seq, hd, if_true]
  exact ⟨_, rfl, by simp [Go.putLE, leB_eq, encFixed32]⟩

theorem EncodeFixed32_short (fuel : Nat) (dest : Bytes) (v : BitVec 32) (hd : dest.length < (encFixed32 v.toNat).length) :
    EncodeFixed32 fuel dest v = .panic := by
  have h4 : (encFixed32 v.toNat).length = 4 := by simp [encFixed32]
  rw [h4] at hd
  have : ¬ 4 ≤ dest.length := by omega
  unfold EncodeFixed32 EncodeFixed32.body
  simp [Go.seq, this]

theorem EncodeFixed64_ok (fuel : Nat) (dest : Bytes) (v : BitVec 64) (hd : (encFixed64 v.toNat).length ≤ dest.length) :
    ∃ s', EncodeFixed64 fuel dest v = .ret (BitVec.ofNat 64 (encFixed64 v.toNat).length) s' ∧
      s'.dest = encFixed64 v.toNat ++ dest.drop (encFixed64 v.toNat).length := by
  have h8 : (encFixed64 v.toNat).length = 8 := by simp [encFixed64]
  rw [h8] at hd ⊢
  unfold EncodeFixed64 EncodeFixed64.body
  simp only [Go.seq, hd, if_true]
  exact ⟨_, rfl, by simp [Go.putLE, leB_eq, encFixed64]⟩

theorem EncodeFixed64_short (fuel : Nat) (dest : Bytes) (v : BitVec 64) (hd : dest.length < (encFixed64 v.toNat).length) :
    EncodeFixed64 fuel dest v = .panic := by
  have h8 : (encFixed64 v.toNat).length = 8 := by simp [encFixed64]
  rw [h8] at hd
  have : ¬ 8 ≤ dest.length := by omega
  unfold EncodeFixed64 EncodeFixed64.body
  simp [Go.seq, this]

/-- **`(*Encoder).EncodeFixed32` of the source refines `Enc.step (.fixed32 tag v)` (key with wire type 5, then the 4 little-endian bytes)** -/
theorem EncodeFixed32_refines (fuel : Nat) (hf : 10 ≤ fuel) (p : Bytes) (off tag : BitVec 64) (v : BitVec 32)
    (hp : p.length < 2 ^ 63) (hoff : off.toNat ≤ p.length) :
    match ({ buf := p, off := off.toNat } : Enc).step (.fixed32 tag.toNat v.toNat) with
    | .ok e' => ∃ s, Encoder_EncodeFixed32 fuel p off tag v = .ret () s ∧ s.e_p = e'.buf ∧ s.e_offset.toNat = e'.off
    | .panic => Encoder_EncodeFixed32 fuel p off tag v = .panic
    | .err _ => False := by
  have hwt : wtFixed32 = (5#64).toNat := rfl
  obtain ⟨s1ok, s1bad⟩ := stage (EncodeTag fuel (p.drop off.toNat) tag 5#64) (·.dest) p off (encTag tag.toNat wtFixed32) hp hoff
    (fun h => by rw [hwt] at h ⊢; exact EncodeTag_ok fuel _ tag 5#64 hf h)
    (fun h => by rw [hwt] at h; exact EncodeTag_short fuel _ tag 5#64 hf h)
  unfold Encoder_EncodeFixed32 Encoder_EncodeFixed32.body
  simp only [Go.seq, hoff, if_true, Enc.step, EncOp.wire]
  by_cases h1 : off.toNat + (encTag tag.toNat wtFixed32).length ≤ p.length
  · obtain ⟨c1, hc1, hw1, ha1⟩ := s1ok h1
    have hlen1 : (writeAt p off.toNat (encTag tag.toNat wtFixed32)).length = p.length := writeAt_length h1
    obtain ⟨s2ok, s2bad⟩ := stage (EncodeFixed32 fuel ((writeAt p off.toNat (encTag tag.toNat wtFixed32)).drop (off + BitVec.ofNat 64 (encTag tag.toNat wtFixed32).length).toNat) v)
      (·.dest) (writeAt p off.toNat (encTag tag.toNat wtFixed32)) (off + BitVec.ofNat 64 (encTag tag.toNat wtFixed32).length) (encFixed32 v.toNat)
      (by rw [hlen1]; exact hp) (by rw [hlen1, ha1]; exact h1)
      (fun h => EncodeFixed32_ok fuel _ v h) (fun h => EncodeFixed32_short fuel _ v h)
    simp only [hc1, hw1, hlen1, ha1, h1, if_true]
    by_cases h2 : off.toNat + (encTag tag.toNat wtFixed32).length + (encFixed32 v.toNat).length ≤ p.length
    · obtain ⟨c2, hc2, hw2, ha2⟩ := s2ok (by rw [ha1, hlen1]; exact h2)
      have hst : ({ buf := p, off := off.toNat } : Enc).store (encTag tag.toNat wtFixed32 ++ encFixed32 v.toNat) =
          .ok { buf := writeAt p off.toNat (encTag tag.toNat wtFixed32 ++ encFixed32 v.toNat), off := off.toNat + (encTag tag.toNat wtFixed32 ++ encFixed32 v.toNat).length } :=
        store_ok p _ _ (by simp; omega)
      rw [ha1] at hc2 hw2 ha2
      simp only [hst, EncOut.ofRes, hc2, hw2, ha1]
      refine ⟨_, rfl, ?_, ?_⟩
      · exact writeAt_writeAt p off.toNat _ _ h2
      · simp [ha2]; omega
    · have hst : ({ buf := p, off := off.toNat } : Enc).store (encTag tag.toNat wtFixed32 ++ encFixed32 v.toNat) = .panic :=
        store_panic p _ _ (by simp; omega)
      simp only [hst, EncOut.ofRes]
      have hb := s2bad (by rw [ha1, hlen1]; exact h2)
      rw [ha1] at hb
      rw [hb]
  · have hst : ({ buf := p, off := off.toNat } : Enc).store (encTag tag.toNat wtFixed32 ++ encFixed32 v.toNat) = .panic :=
      store_panic p _ _ (by simp; omega)
    simp only [hst, EncOut.ofRes, s1bad h1]


/-- **`(*Encoder).EncodeFixed64` of the source refines `Enc.step (.fixed64 tag v)` (key with wire type 1, then the 8 little-endian bytes)** -/
theorem EncodeFixed64_refines (fuel : Nat) (hf : 10 ≤ fuel) (p : Bytes) (off tag : BitVec 64) (v : BitVec 64)
    (hp : p.length < 2 ^ 63) (hoff : off.toNat ≤ p.length) :
    match ({ buf := p, off := off.toNat } : Enc).step (.fixed64 tag.toNat v.toNat) with
    | .ok e' => ∃ s, Encoder_EncodeFixed64 fuel p off tag v = .ret () s ∧ s.e_p = e'.buf ∧ s.e_offset.toNat = e'.off
    | .panic => Encoder_EncodeFixed64 fuel p off tag v = .panic
    | .err _ => False := by
  have hwt : wtFixed64 = (1#64).toNat := rfl
  obtain ⟨s1ok, s1bad⟩ := stage (EncodeTag fuel (p.drop off.toNat) tag 1#64) (·.dest) p off (encTag tag.toNat wtFixed64) hp hoff
    (fun h => by rw [hwt] at h ⊢; exact EncodeTag_ok fuel _ tag 1#64 hf h)
    (fun h => by rw [hwt] at h; exact EncodeTag_short fuel _ tag 1#64 hf h)
  unfold Encoder_EncodeFixed64 Encoder_EncodeFixed64.body
  simp only [Go.seq, hoff, if_true, Enc.step, EncOp.wire]
  by_cases h1 : off.toNat + (encTag tag.toNat wtFixed64).length ≤ p.length
  · obtain ⟨c1, hc1, hw1, ha1⟩ := s1ok h1
    have hlen1 : (writeAt p off.toNat (encTag tag.toNat wtFixed64)).length = p.length := writeAt_length h1
    obtain ⟨s2ok, s2bad⟩ := stage (EncodeFixed64 fuel ((writeAt p off.toNat (encTag tag.toNat wtFixed64)).drop (off + BitVec.ofNat 64 (encTag tag.toNat wtFixed64).length).toNat) v)
      (·.dest) (writeAt p off.toNat (encTag tag.toNat wtFixed64)) (off + BitVec.ofNat 64 (encTag tag.toNat wtFixed64).length) (encFixed64 v.toNat)
      (by rw [hlen1]; exact hp) (by rw [hlen1, ha1]; exact h1)
      (fun h => EncodeFixed64_ok fuel _ v h) (fun h => EncodeFixed64_short fuel _ v h)
    simp only [hc1, hw1, hlen1, ha1, h1, if_true]
    by_cases h2 : off.toNat + (encTag tag.toNat wtFixed64).length + (encFixed64 v.toNat).length ≤ p.length
    · obtain ⟨c2, hc2, hw2, ha2⟩ := s2ok (by rw [ha1, hlen1]; exact h2)
      have hst : ({ buf := p, off := off.toNat } : Enc).store (encTag tag.toNat wtFixed64 ++ encFixed64 v.toNat) =
          .ok { buf := writeAt p off.toNat (encTag tag.toNat wtFixed64 ++ encFixed64 v.toNat), off := off.toNat + (encTag tag.toNat wtFixed64 ++ encFixed64 v.toNat).length } :=
        store_ok p _ _ (by simp; omega)
      rw [ha1] at hc2 hw2 ha2
      simp only [hst, EncOut.ofRes, hc2, hw2, ha1]
      refine ⟨_, rfl, ?_, ?_⟩
      · exact writeAt_writeAt p off.toNat _ _ h2
      · simp [ha2]; omega
    · have hst : ({ buf := p, off := off.toNat } : Enc).store (encTag tag.toNat wtFixed64 ++ encFixed64 v.toNat) = .panic :=
        store_panic p _ _ (by simp; omega)
      simp only [hst, EncOut.ofRes]
      have hb := s2bad (by rw [ha1, hlen1]; exact h2)
      rw [ha1] at hb
      rw [hb]
  · have hst : ({ buf := p, off := off.toNat } : Enc).store (encTag tag.toNat wtFixed64 ++ encFixed64 v.toNat) = .panic :=
      store_panic p _ _ (by simp; omega)
    simp only [hst, EncOut.ofRes, s1bad h1]


end Csproto.Bridge.EncoderFuncs
