import Csproto.Generated.Shim
import Csproto.Generated.Dispatch
import Csproto.Model.Shim
/-
  Bridge for the shim facts (F5–F8): the regenerated wiring tables of clone.go, equal.go,
  marshal_text.go, extensions.go, json.go, grpc_codec.go and message_types.go are what the model
  assumes — every arm of every `switch MsgType(…)` talks to the *owning* runtime, the classification
  skeleton is `deduce`, the cache protocol is Load / deduce / Store, JSON options are wired one to one.
-/
namespace Csproto.Bridge
open Csproto

/-- packages of the runtime that owns a message class -/
def owners : String → List String
  | "MessageTypeGoogle" => ["google.golang.org/protobuf/proto", "google.golang.org/protobuf/encoding/prototext",
      "google.golang.org/protobuf/reflect/protoreflect"]
  | "MessageTypeGoogleV1" => ["github.com/golang/protobuf/proto", "google.golang.org/protobuf/runtime/protoiface",
      "google.golang.org/protobuf/internal/impl"]   -- golang/protobuf's Message / ExtensionDesc are aliases of these
  | "MessageTypeGogo" => ["github.com/gogo/protobuf/proto"]
  | _ => []

/-- **every runtime call inside a `switch MsgType` arm goes to the runtime that owns the class** -/
theorem arms_call_owner :
    Generated.shimCalls.all (fun r => (owners r.2.1).contains r.2.2.1) = true := by decide

/-- **every type assertion inside an arm asserts a type of the owning runtime** (message interface or
    extension descriptor) — a descriptor of a foreign runtime fails the assertion -/
theorem arms_assert_owner :
    Generated.shimAsserts.all (fun r => (owners r.2.1).contains r.2.2.1) = true := by decide

/-- the callee each function must reach, per class -/
def expectedCallee : String → String → List String
  | "Clone", _ => ["Clone"]
  | "Equal", _ => ["Equal"]
  | "HasExtension", _ => ["HasExtension"]
  | "GetExtension", _ => ["GetExtension"]
  | "SetExtension", _ => ["SetExtension"]
  | "ClearExtension", _ => ["ClearExtension"]
  | "ClearAllExtensions", "MessageTypeGoogle" => ["RangeExtensions", "ClearExtension"]
  | "ClearAllExtensions", _ => ["ClearAllExtensions"]
  | "RangeExtensions", "MessageTypeGoogle" => ["RangeExtensions"]
  | "RangeExtensions", _ => ["ExtensionDescs"]
  | "MarshalText", "MessageTypeGoogle" => ["Format"]
  | "MarshalText", _ => ["MarshalTextString"]
  | _, _ => []

def shimFns : List String := ["Clone", "Equal", "HasExtension", "GetExtension", "SetExtension", "ClearExtension",
  "ClearAllExtensions", "RangeExtensions", "MarshalText"]
def classes : List String := ["MessageTypeGoogle", "MessageTypeGoogleV1", "MessageTypeGogo"]

/-- **each function reaches the corresponding function of each runtime, and nothing else** -/
theorem arms_reach_expected :
    (shimFns.all fun fn => classes.all fun cl =>
      ((Generated.shimCalls.filter fun r => r.1 == fn && r.2.1 == cl).map (·.2.2.2)) == expectedCallee fn cl) = true := by
  decide

/-- the classification skeleton of `deduceMsgType` (what `Model.deduce` mirrors branch by branch) -/
theorem deduceSkeleton_ok : Generated.deduceSkeleton =
    ["0:if assert google.golang.org/protobuf/reflect/protoreflect.ProtoMessage", "1:return MessageTypeGoogle",
     "0:if .Kind(…) != reflect.Ptr", "1:return MessageTypeUnknown",
     "0:if assert github.com/gogo/protobuf/proto.Message",
     "1:if github.com/gogo/protobuf/proto.MessageName(…) != \"\"", "2:return MessageTypeGogo",
     "1:return MessageTypeGoogleV1", "0:return MessageTypeUnknown"] := by decide

/-- nil guard, then Load before deduce, Store after -/
theorem msgTypeProtocol_ok : Generated.msgTypeProtocol = ["nilcheck", ".Load", "deduceMsgType", ".Store"] := by decide

/-- JSON detection order (a `json.Marshaler` first, then v2, then the v1/gogo interface) -/
theorem jsonProbes_ok :
    Generated.jsonMarshalProbes = ["encoding/json.Marshaler => .MarshalJSON",
      "google.golang.org/protobuf/reflect/protoreflect.ProtoMessage => .Marshal",
      "google.golang.org/protobuf/runtime/protoiface.MessageV1 => .Marshal",
      "github.com/gogo/protobuf/proto.Message => .Marshal"] ∧
    Generated.jsonUnmarshalProbes = ["encoding/json.Unmarshaler => .UnmarshalJSON",
      "google.golang.org/protobuf/reflect/protoreflect.ProtoMessage => .Unmarshal",
      "google.golang.org/protobuf/runtime/protoiface.MessageV1 => .Unmarshal",
      "github.com/gogo/protobuf/proto.Message => .Unmarshal"] := by decide

/-- the documented meaning of each csproto JSON option, per runtime option struct -/
def expectedWiring : List (String × String × String) :=
  [("google.golang.org/protobuf/encoding/protojson.MarshalOptions", "Indent", "indent"),
   ("google.golang.org/protobuf/encoding/protojson.MarshalOptions", "UseEnumNumbers", "useEnumNumbers"),
   ("google.golang.org/protobuf/encoding/protojson.MarshalOptions", "EmitUnpopulated", "emitZeroValues"),
   ("github.com/golang/protobuf/jsonpb.Marshaler", "Indent", "indent"),
   ("github.com/golang/protobuf/jsonpb.Marshaler", "EnumsAsInts", "useEnumNumbers"),
   ("github.com/golang/protobuf/jsonpb.Marshaler", "EmitDefaults", "emitZeroValues"),
   ("github.com/gogo/protobuf/jsonpb.Marshaler", "Indent", "indent"),
   ("github.com/gogo/protobuf/jsonpb.Marshaler", "EnumsAsInts", "useEnumNumbers"),
   ("github.com/gogo/protobuf/jsonpb.Marshaler", "EmitDefaults", "emitZeroValues"),
   ("google.golang.org/protobuf/encoding/protojson.UnmarshalOptions", "AllowPartial", "allowPartial"),
   ("google.golang.org/protobuf/encoding/protojson.UnmarshalOptions", "DiscardUnknown", "allowUnknownFields"),
   ("github.com/golang/protobuf/jsonpb.Unmarshaler", "AllowUnknownFields", "allowUnknownFields"),
   ("github.com/gogo/protobuf/jsonpb.Unmarshaler", "AllowUnknownFields", "allowUnknownFields")]

/-- **option wiring is exactly the documented one** (a swapped or dropped option breaks this lemma) -/
theorem jsonWiring_ok : Generated.jsonWiring = expectedWiring := by decide

/-- each option constructor sets exactly its own field -/
theorem jsonSetters_ok : Generated.jsonSetters =
    [("JSONIndent", "indent"), ("JSONUseEnumNumbers", "useEnumNumbers"), ("JSONIncludeZeroValues", "emitZeroValues"),
     ("JSONAllowUnknownFields", "allowUnknownFields"), ("JSONAllowPartialMessages", "allowPartial")] := by decide

/-- the gRPC codec forwards to csproto.Marshal / Unmarshal and is named "proto" -/
theorem grpcCodec_ok : Generated.grpcCodec = ["Marshal -> Marshal", "Unmarshal -> Unmarshal", "Name = \"proto\""] := by decide

theorem resetProbes_ok : Generated.resetProbes = ["interface{Reset()} => .Reset"] := by decide
theorem marshalTextProbes_ok : Generated.marshalTextProbes = ["encoding.TextMarshaler => .MarshalText"] := by decide

end Csproto.Bridge
