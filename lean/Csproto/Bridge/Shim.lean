import Csproto.Generated.Shim
import Csproto.Generated.Dispatch
import Csproto.Model.Shim
/-
  Bridge for the shim facts (F5–F8): the regenerated wiring tables of clone.go, equal.go,
  marshal_text.go, extensions.go, json.go, grpc_codec.go and message_types.go are what the model
  assumes — every arm of every `switch MsgType(…)` talks to the *owning* runtime, the classification
  skeleton is `deduce`, the cache protocol is Load / deduce / Store, JSON options are wired one to one.
-/
namespace Csproto.Bridge
open Csproto

/-- packages of the runtime that owns a message class -/
def owners : String → List String
  | "MessageTypeGoogle" => ["google.golang.org/protobuf/proto", "google.golang.org/protobuf/encoding/prototext",
      "google.golang.org/protobuf/reflect/protoreflect"]
  | "MessageTypeGoogleV1" => ["github.com/golang/protobuf/proto", "google.golang.org/protobuf/runtime/protoiface",
      "google.golang.org/protobuf/internal/impl"]   -- golang/protobuf's Message / ExtensionDesc are aliases of these
  | "MessageTypeGogo" => ["github.com/gogo/protobuf/proto"]
  | _ => []

/-- **every runtime call inside a `switch MsgType` arm goes to the runtime that owns the class** -/
theorem arms_call_owner :
    Generated.shimCalls.all (fun r => (owners r.2.1).contains r.2.2.1) = true := by decide

/-- **every type assertion inside an arm asserts a type of the owning runtime** (message interface or
    extension descriptor) — a descriptor of a foreign runtime fails the assertion -/
theorem arms_assert_owner :
    Generated.shimAsserts.all (fun r => (owners r.2.1).contains r.2.2.1) = true := by decide

/-- the callee each function must reach, per class -/
def expectedCallee : String → String → List String
  | "Clone", _ => ["Clone"]
  | "Equal", _ => ["Equal"]
  | "HasExtension", _ => ["HasExtension"]
  | "GetExtension", _ => ["GetExtension"]
  | "SetExtension", _ => ["SetExtension"]
  | "ClearExtension", _ => ["ClearExtension"]
  | "ClearAllExtensions", "MessageTypeGoogle" => ["RangeExtensions", "ClearExtension"]
  | "ClearAllExtensions", _ => ["ClearAllExtensions"]
  | "RangeExtensions", "MessageTypeGoogle" => ["RangeExtensions"]
  | "RangeExtensions", _ => ["ExtensionDescs"]
  | "MarshalText", "MessageTypeGoogle" => ["Format"]
  | "MarshalText", _ => ["MarshalTextString"]
  | _, _ => []

def shimFns : List String := ["Clone", "Equal", "HasExtension", "GetExtension", "SetExtension", "ClearExtension",
  "ClearAllExtensions", "RangeExtensions", "MarshalText"]
def classes : List String := ["MessageTypeGoogle", "MessageTypeGoogleV1", "MessageTypeGogo"]

/-- **each function reaches the corresponding function of each runtime, and nothing else** -/
theorem arms_reach_expected :
    (shimFns.all fun fn => classes.all fun cl =>
      ((Generated.shimCalls.filter fun r => r.1 == fn && r.2.1 == cl).map (·.2.2.2)) == expectedCallee fn cl) = true := by
  decide

/-! ### the control shape of the dispatching functions

  `shimCalls` / `shimAsserts` say which runtime functions and descriptor types occur in an arm.  The
  model (`shimEqual`, `shimUnary`, `C12.csHas` …) assumes more: that an arm is *nothing but* the type
  assertion of the descriptor (where there is one), the refusal when it fails, and the runtime's call
  whose result is returned as it is — no early return in front of the switch, no second condition next
  to `ok`, no local helper in between.  The regenerated statement skeletons make that checkable. -/

/-- the statements each `switch MsgType` arm must consist of: for the three classes the type assertion of the
    descriptor (accessors only), the refusal when it fails (`false` / an error; `ClearExtension` falls through to
    its documented panic), and the owning runtime's call, its result returned as it is; for everything else the
    documented zero result -/
def expectedArms : List (String × String × List String) := [
  ("Clone", "MessageTypeGogo",
    ["0:return gogo.Clone(m.(gogo.Message))"]),
  ("Clone", "MessageTypeGoogle",
    ["0:return protov2.Clone(m.(protoreflect.ProtoMessage))"]),
  ("Clone", "MessageTypeGoogleV1",
    ["0:return golang.Clone(m.(protoiface.MessageV1))"]),
  ("Clone", "default",
    ["0:return nil"]),
  ("Equal", "MessageTypeGogo",
    ["0:return gogo.Equal(m1.(gogo.Message), m2.(gogo.Message))"]),
  ("Equal", "MessageTypeGoogle",
    ["0:return protov2.Equal(m1.(protoreflect.ProtoMessage), m2.(protoreflect.ProtoMessage))"]),
  ("Equal", "MessageTypeGoogleV1",
    ["0:return golang.Equal(m1.(protoiface.MessageV1), m2.(protoiface.MessageV1))"]),
  ("Equal", "default",
    ["0:return false"]),
  ("MarshalText", "MessageTypeGogo",
    ["0:return gogo.MarshalTextString(msg.(gogo.Message)), nil"]),
  ("MarshalText", "MessageTypeGoogle",
    ["0:return prototext.Format(msg.(protoreflect.ProtoMessage)), nil"]),
  ("MarshalText", "MessageTypeGoogleV1",
    ["0:return golang.MarshalTextString(msg.(protoiface.MessageV1)), nil"]),
  ("MarshalText", "default",
    ["0:return \"…\", fmt.Errorf(\"…\", msg)"]),
  ("RangeExtensions", "MessageTypeGogo",
    ["0:exts, err := gogo.ExtensionDescs(msg.(gogo.Message))",
     "0:if err != nil",
     "1:return err",
     "0:for _, ext range exts",
     "1:if err = fn(ext, ext.Name, ext.Field); err != nil",
     "2:return err",
     "0:return nil"]),
  ("RangeExtensions", "MessageTypeGoogle",
    ["0:var err error",
     "0:protov2.RangeExtensions(msg.(protoreflect.ProtoMessage), func#1)",
     "1:func#1",
     "2:err = fn(v, string(t.TypeDescriptor().FullName()), int32(t.TypeDescriptor().Descriptor().Number()))",
     "2:return err == nil",
     "0:return err"]),
  ("RangeExtensions", "MessageTypeGoogleV1",
    ["0:exts, err := golang.ExtensionDescs(msg.(protoiface.MessageV1))",
     "0:if err != nil",
     "1:return err",
     "0:for _, ext range exts",
     "1:if err = fn(ext, string(ext.TypeDescriptor().FullName()), int32(ext.TypeDescriptor().Descriptor().Number())); err != nil",
     "2:return err",
     "0:return nil"]),
  ("RangeExtensions", "MessageTypeUnknown",
    ["0:return fmt.Errorf(\"…\", msg)"]),
  ("HasExtension", "MessageTypeGogo",
    ["0:ed, ok := ext.(*gogo.ExtensionDesc)",
     "0:if !ok",
     "1:return false",
     "0:return gogo.HasExtension(msg.(gogo.Message), ed)"]),
  ("HasExtension", "MessageTypeGoogle",
    ["0:et, ok := ext.(protoreflect.ExtensionType)",
     "0:if !ok",
     "1:return false",
     "0:return protov2.HasExtension(msg.(protoreflect.ProtoMessage), et)"]),
  ("HasExtension", "MessageTypeGoogleV1",
    ["0:ed, ok := ext.(*protoimpl.ExtensionInfo)",
     "0:if !ok",
     "1:return false",
     "0:return golang.HasExtension(msg.(protoiface.MessageV1), ed)"]),
  ("HasExtension", "default",
    ["0:return false"]),
  ("ClearExtension", "MessageTypeGogo",
    ["0:if ed, ok := ext.(*gogo.ExtensionDesc); ok",
     "1:gogo.ClearExtension(msg.(gogo.Message), ed)",
     "1:return"]),
  ("ClearExtension", "MessageTypeGoogle",
    ["0:if et, ok := ext.(protoreflect.ExtensionType); ok",
     "1:protov2.ClearExtension(msg.(protoreflect.ProtoMessage), et)",
     "1:return"]),
  ("ClearExtension", "MessageTypeGoogleV1",
    ["0:if ed, ok := ext.(*protoimpl.ExtensionInfo); ok",
     "1:golang.ClearExtension(msg.(protoiface.MessageV1), ed)",
     "1:return"]),
  ("ClearExtension", "default",
    ["0:panic(fmt.Sprintf(\"…\", msg))"]),
  ("GetExtension", "MessageTypeGogo",
    ["0:ed, ok := ext.(*gogo.ExtensionDesc)",
     "0:if !ok",
     "1:return nil, fmt.Errorf(\"…\", ext)",
     "0:return gogo.GetExtension(msg.(gogo.Message), ed)"]),
  ("GetExtension", "MessageTypeGoogle",
    ["0:et, ok := ext.(protoreflect.ExtensionType)",
     "0:if !ok",
     "1:return nil, fmt.Errorf(\"…\", ext)",
     "0:return protov2.GetExtension(msg.(protoreflect.ProtoMessage), et), nil"]),
  ("GetExtension", "MessageTypeGoogleV1",
    ["0:ed, ok := ext.(*protoimpl.ExtensionInfo)",
     "0:if !ok",
     "1:return nil, fmt.Errorf(\"…\", ext)",
     "0:return golang.GetExtension(msg.(protoiface.MessageV1), ed)"]),
  ("GetExtension", "default",
    ["0:return nil, fmt.Errorf(\"…\", msg)"]),
  ("SetExtension", "MessageTypeGogo",
    ["0:ed, ok := ext.(*gogo.ExtensionDesc)",
     "0:if !ok",
     "1:return fmt.Errorf(\"…\", ext)",
     "0:return gogo.SetExtension(msg.(gogo.Message), ed, val)"]),
  ("SetExtension", "MessageTypeGoogle",
    ["0:et, ok := ext.(protoreflect.ExtensionType)",
     "0:if !ok",
     "1:return fmt.Errorf(\"…\", ext)",
     "0:protov2.SetExtension(msg.(protoreflect.ProtoMessage), et, val)",
     "0:return nil"]),
  ("SetExtension", "MessageTypeGoogleV1",
    ["0:ed, ok := ext.(*protoimpl.ExtensionInfo)",
     "0:if !ok",
     "1:return fmt.Errorf(\"…\", ext)",
     "0:return golang.SetExtension(msg.(protoiface.MessageV1), ed, val)"]),
  ("SetExtension", "default",
    ["0:return fmt.Errorf(\"…\", ext)"]),
  ("ClearAllExtensions", "MessageTypeGogo",
    ["0:gogo.ClearAllExtensions(msg.(gogo.Message))"]),
  ("ClearAllExtensions", "MessageTypeGoogle",
    ["0:m := msg.(protoreflect.ProtoMessage)",
     "0:protov2.RangeExtensions(m, func#1)",
     "1:func#1",
     "2:protov2.ClearExtension(m, xt)",
     "2:return true"]),
  ("ClearAllExtensions", "MessageTypeGoogleV1",
    ["0:golang.ClearAllExtensions(msg.(protoiface.MessageV1))"]),
  ("ClearAllExtensions", "default",
    [])]

/-- **every arm of every dispatching function is exactly the assertion / refusal / runtime call the model
    takes it for** (an extra condition next to `ok`, an extra statement, a local helper, a result that is not
    returned as it is, a missing or an additional arm — all break this lemma).  The extractor lists the arms of
    a function by case name, so the order in which the source writes them does not matter. -/
theorem shimArms_ok : Generated.shimArms = expectedArms := by rfl

/-- every function has exactly one arm for each of the three classes and one for everything else -/
theorem shimArms_complete :
    (shimFns.all fun fn => (classes ++ [if fn == "RangeExtensions" then "MessageTypeUnknown" else "default"]).all fun cl =>
      (expectedArms.filter fun a => a.1 == fn && a.2.1 == cl).length == 1) = true ∧
    expectedArms.length = 4 * shimFns.length := by decide

/-- the statements around the switch: nothing in front of the dispatch but the classification itself (and, for
    `Equal`, the comparison of the two classes; for `MarshalText`, the `encoding.TextMarshaler` probe);
    nothing behind it but the documented mismatch panic of `ClearExtension` -/
def expectedFrames : List (String × List String) := [
  ("Clone",
    ["0:switch MsgType(m)", "1:cases MessageTypeGogo,MessageTypeGoogle,MessageTypeGoogleV1,default"]),
  ("Equal",
    ["0:t1, t2 := MsgType(m1), MsgType(m2)",
     "0:if t1 != t2",
     "1:return false",
     "0:switch t1",
     "1:cases MessageTypeGogo,MessageTypeGoogle,MessageTypeGoogleV1,default"]),
  ("MarshalText",
    ["0:if tm, ok := msg.(encoding.TextMarshaler); ok",
     "1:res, err := tm.MarshalText()",
     "1:if err != nil",
     "2:return \"…\", err",
     "1:return string(res), nil",
     "0:switch MsgType(msg)",
     "1:cases MessageTypeGogo,MessageTypeGoogle,MessageTypeGoogleV1,default"]),
  ("RangeExtensions",
    ["0:msgType := MsgType(msg)",
     "0:switch msgType",
     "1:cases MessageTypeGogo,MessageTypeGoogle,MessageTypeGoogleV1,MessageTypeUnknown",
     "0:return nil"]),
  ("HasExtension",
    ["0:switch MsgType(msg)", "1:cases MessageTypeGogo,MessageTypeGoogle,MessageTypeGoogleV1,default"]),
  ("ClearExtension",
    ["0:switch MsgType(msg)",
     "1:cases MessageTypeGogo,MessageTypeGoogle,MessageTypeGoogleV1,default",
     "0:panic(fmt.Sprintf(\"…\", ext, msg))"]),
  ("GetExtension",
    ["0:switch MsgType(msg)", "1:cases MessageTypeGogo,MessageTypeGoogle,MessageTypeGoogleV1,default"]),
  ("SetExtension",
    ["0:switch MsgType(msg)", "1:cases MessageTypeGogo,MessageTypeGoogle,MessageTypeGoogleV1,default"]),
  ("ClearAllExtensions",
    ["0:switch MsgType(msg)", "1:cases MessageTypeGogo,MessageTypeGoogle,MessageTypeGoogleV1,default"])]

/-- **no dispatching function decides anything before or after its `switch MsgType`** -/
theorem shimFrame_ok : Generated.shimFrame = expectedFrames := by rfl

/-- the classification skeleton of `deduceMsgType` (what `Model.deduce` mirrors branch by branch) -/
theorem deduceSkeleton_ok : Generated.deduceSkeleton =
    ["0:if assert google.golang.org/protobuf/reflect/protoreflect.ProtoMessage", "1:return MessageTypeGoogle",
     "0:if .Kind(…) != reflect.Ptr", "1:return MessageTypeUnknown",
     "0:if assert github.com/gogo/protobuf/proto.Message",
     "1:if github.com/gogo/protobuf/proto.MessageName(…) != \"\"", "2:return MessageTypeGogo",
     "1:return MessageTypeGoogleV1", "0:return MessageTypeUnknown"] := by decide

/-- nil guard, then Load before deduce, Store after -/
theorem msgTypeProtocol_ok : Generated.msgTypeProtocol = ["nilcheck", ".Load", "deduceMsgType", ".Store"] := by decide

/-- JSON detection order (a `json.Marshaler` first, then v2, then the v1/gogo interface) -/
theorem jsonProbes_ok :
    Generated.jsonMarshalProbes = ["encoding/json.Marshaler => .MarshalJSON",
      "google.golang.org/protobuf/reflect/protoreflect.ProtoMessage => .Marshal",
      "google.golang.org/protobuf/runtime/protoiface.MessageV1 => .Marshal",
      "github.com/gogo/protobuf/proto.Message => .Marshal"] ∧
    Generated.jsonUnmarshalProbes = ["encoding/json.Unmarshaler => .UnmarshalJSON",
      "google.golang.org/protobuf/reflect/protoreflect.ProtoMessage => .Unmarshal",
      "google.golang.org/protobuf/runtime/protoiface.MessageV1 => .Unmarshal",
      "github.com/gogo/protobuf/proto.Message => .Unmarshal"] := by decide

/-- the documented meaning of each csproto JSON option, per runtime option struct -/
def expectedWiring : List (String × String × String) :=
  [("google.golang.org/protobuf/encoding/protojson.MarshalOptions", "Indent", "indent"),
   ("google.golang.org/protobuf/encoding/protojson.MarshalOptions", "UseEnumNumbers", "useEnumNumbers"),
   ("google.golang.org/protobuf/encoding/protojson.MarshalOptions", "EmitUnpopulated", "emitZeroValues"),
   ("github.com/golang/protobuf/jsonpb.Marshaler", "Indent", "indent"),
   ("github.com/golang/protobuf/jsonpb.Marshaler", "EnumsAsInts", "useEnumNumbers"),
   ("github.com/golang/protobuf/jsonpb.Marshaler", "EmitDefaults", "emitZeroValues"),
   ("github.com/gogo/protobuf/jsonpb.Marshaler", "Indent", "indent"),
   ("github.com/gogo/protobuf/jsonpb.Marshaler", "EnumsAsInts", "useEnumNumbers"),
   ("github.com/gogo/protobuf/jsonpb.Marshaler", "EmitDefaults", "emitZeroValues"),
   ("google.golang.org/protobuf/encoding/protojson.UnmarshalOptions", "AllowPartial", "allowPartial"),
   ("google.golang.org/protobuf/encoding/protojson.UnmarshalOptions", "DiscardUnknown", "allowUnknownFields"),
   ("github.com/golang/protobuf/jsonpb.Unmarshaler", "AllowUnknownFields", "allowUnknownFields"),
   ("github.com/gogo/protobuf/jsonpb.Unmarshaler", "AllowUnknownFields", "allowUnknownFields")]

/-- **option wiring is exactly the documented one** (a swapped or dropped option breaks this lemma) -/
theorem jsonWiring_ok : Generated.jsonWiring = expectedWiring := by decide

/-- each option constructor sets exactly its own field -/
theorem jsonSetters_ok : Generated.jsonSetters =
    [("JSONIndent", "indent"), ("JSONUseEnumNumbers", "useEnumNumbers"), ("JSONIncludeZeroValues", "emitZeroValues"),
     ("JSONAllowUnknownFields", "allowUnknownFields"), ("JSONAllowPartialMessages", "allowPartial")] := by decide

/-- … and only the option constructors write an option field: what the wiring reads is what the caller set -/
theorem jsonOptionWrites_ok : Generated.jsonOptionWritesElsewhere = [] := by decide

/-- **no arm of the root package asks a runtime to trust its size caches** (`UseCachedSize`): the caller may have
    changed any message of the tree since a cache entry was written (C09 / C11: every Marshal is the marshal of the
    current contents) -/
theorem no_cached_size_requests : Generated.cachedSizeRequests = [] := by decide

/-- the gRPC codec forwards to csproto.Marshal / Unmarshal and is named "proto" -/
theorem grpcCodec_ok : Generated.grpcCodec = ["Marshal -> Marshal", "Unmarshal -> Unmarshal", "Name = \"proto\""] := by decide

theorem resetProbes_ok : Generated.resetProbes = ["interface{Reset()} => .Reset"] := by decide
theorem marshalTextProbes_ok : Generated.marshalTextProbes = ["encoding.TextMarshaler => .MarshalText"] := by decide

end Csproto.Bridge
