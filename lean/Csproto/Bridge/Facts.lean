import Csproto.Generated.Facts
import Csproto.Proofs.Wire
/-
  Bridge: the facts regenerated from /repo's Go source (`Csproto.Generated`) equal the
  hand-written model's definitions.  A changed constant or a changed source expression breaks a
  lemma here (a proof obligation), not merely a test.
-/
namespace Csproto.Bridge
open Csproto

/-! ### F1 constants -/
theorem maxTagValue_ok : Generated.MaxTagValue = (maxTagValue : Int) := by decide
theorem maxTagValue_doc : Generated.MaxTagValue = 2 ^ 29 - 1 := by decide
theorem maxFieldLen_ok : Generated.maxFieldLen = (maxFieldLen : Int) := by decide
theorem wireTypes_ok : Generated.WireTypeVarint = (wtVarint : Int) ∧ Generated.WireTypeFixed64 = (wtFixed64 : Int) ∧
    Generated.WireTypeLengthDelimited = (wtLen : Int) ∧ Generated.WireTypeFixed32 = (wtFixed32 : Int) := by decide
theorem decoderModes_ok : Generated.DecoderModeSafe = 0 ∧ Generated.DecoderModeFast = 1 := by decide

/-! ### F2 source expressions -/

theorem sshift63_false (v : BitVec 64) (h : v.msb = false) : v.sshiftRight 63 = 0#64 := by
  rw [BitVec.sshiftRight_eq_of_msb_false h]
  apply BitVec.eq_of_toNat_eq
  simp [BitVec.toNat_ushiftRight]
  have := BitVec.msb_eq_false_iff_two_mul_lt.mp h
  rw [Nat.shiftRight_eq_div_pow]; apply Nat.div_eq_of_lt; omega

theorem sshift63_true (v : BitVec 64) (h : v.msb = true) : v.sshiftRight 63 = BitVec.allOnes 64 := by
  rw [BitVec.sshiftRight_eq_of_msb_true h]
  apply BitVec.eq_of_toNat_eq
  have h2 := BitVec.msb_eq_true_iff_two_mul_ge.mp h
  have hv := v.isLt
  simp only [BitVec.toNat_not, BitVec.toNat_ushiftRight, BitVec.toNat_allOnes]
  rw [Nat.shiftRight_eq_div_pow]
  have : (2 ^ 64 - 1 - v.toNat) / 2 ^ 63 = 0 := by apply Nat.div_eq_of_lt; omega
  rw [this]

/-- `EncodeZigZag64`: `uint64(v<<1) ^ uint64(v>>63)` is the arithmetic zig-zag of `v` -/
theorem encodeZigZag64_src (v : BitVec 64) : (Generated.EncodeZigZag64_zz v).toNat = zigzag v.toInt := by
  unfold Generated.EncodeZigZag64_zz zigzag
  have hv := v.isLt
  cases h : v.msb
  · rw [sshift63_false v h]
    have h2 := BitVec.msb_eq_false_iff_two_mul_lt.mp h
    have hi : v.toInt = v.toNat := by rw [BitVec.toInt_eq_msb_cond]; simp [h]
    simp only [BitVec.xor_zero, BitVec.toNat_shiftLeft, hi]
    have : (v.toNat <<< 1) % 2 ^ 64 = 2 * v.toNat := by
      rw [Nat.shiftLeft_eq]; omega
    rw [this]
    have : (0:Int) ≤ (v.toNat : Int) := by omega
    simp only [this, if_true]; omega
  · rw [sshift63_true v h]
    have h2 := BitVec.msb_eq_true_iff_two_mul_ge.mp h
    have hi : v.toInt = (v.toNat : Int) - 2 ^ 64 := by rw [BitVec.toInt_eq_msb_cond]; simp [h]
    rw [BitVec.xor_allOnes, BitVec.toNat_not, BitVec.toNat_shiftLeft, hi]
    have : (v.toNat <<< 1) % 2 ^ 64 = 2 * v.toNat - 2 ^ 64 := by
      rw [Nat.shiftLeft_eq]; omega
    rw [this]
    have hneg : ¬ (0 ≤ (v.toNat : Int) - 2 ^ 64) := by omega
    simp only [hneg, if_false]
    omega

/-- `SizeOfZigZag` sizes the same zig-zag image -/
theorem sizeOfZigZag_arg_src (v : BitVec 64) :
    ((v <<< 1) ^^^ (BitVec.sshiftRight v 63)).toNat = zigzag v.toInt := encodeZigZag64_src v


theorem bitLen_le_64 (x : Nat) (h : x < 2 ^ 64) : bitLen x ≤ 64 := by
  by_cases hx : x = 0
  · simp [bitLen, hx]
  · exact (bitLen_le_iff x 64 hx).mpr h

theorem goBitsLen64_toNat (x : BitVec 64) : (Generated.goBitsLen64 x).toNat = bitLen x.toNat := by
  unfold Generated.goBitsLen64
  have := bitLen_le_64 x.toNat x.isLt
  show (BitVec.ofNat 64 (bitLen x.toNat)).toNat = _
  rw [BitVec.toNat_ofNat]; omega

/-- `SizeOfVarint`: `(bits.Len64(v|1) + 6) / 7` in Go's 64-bit `int` arithmetic never wraps and is
    the model's closed form -/
theorem sizeOfVarint_src (v : BitVec 64) : (Generated.SizeOfVarint v).toNat = sizeOfVarint v.toNat := by
  unfold Generated.SizeOfVarint sizeOfVarint
  have hl := goBitsLen64_toNat (v ||| 1#64)
  have hor : (v ||| 1#64).toNat = v.toNat ||| 1 := by simp
  rw [hor] at hl
  have hb := bitLen_le_64 (v.toNat ||| 1) (by rw [← hor]; exact (v ||| 1#64).isLt)
  have hsum : (Generated.goBitsLen64 (v ||| 1#64) + 6#64).toNat = bitLen (v.toNat ||| 1) + 6 := by
    rw [BitVec.toNat_add, hl]; simp; omega
  have hm1 : (Generated.goBitsLen64 (v ||| 1#64) + 6#64).msb = false := by
    rw [BitVec.msb_eq_false_iff_two_mul_lt, hsum]; omega
  have hm2 : (7#64).msb = false := by decide
  rw [BitVec.sdiv_eq, hm1, hm2]
  show ((Generated.goBitsLen64 (v ||| 1#64) + 6#64) / 7#64).toNat = _
  rw [BitVec.toNat_udiv, hsum]
  rfl

/-- `SizeOfTagKey(k) = SizeOfVarint(uint64(uint(k) << 3))` -/
theorem sizeOfTagKey_src (k : BitVec 64) : (Generated.SizeOfTagKey k).toNat = sizeOfTagKey k.toNat := by
  unfold Generated.SizeOfTagKey sizeOfTagKey
  rw [sizeOfVarint_src]
  simp [BitVec.toNat_shiftLeft, two64]

/-- `SizeOfZigZag(v) = SizeOfVarint((v << 1) ^ uint64(int64(v) >> 63))` -/
theorem sizeOfZigZag_src (v : BitVec 64) : (Generated.SizeOfZigZag v).toNat = sizeOfZigZag v.toInt := by
  unfold Generated.SizeOfZigZag sizeOfZigZag
  rw [sizeOfVarint_src, sizeOfZigZag_arg_src]

/-- `EncodeTag`: `(uint64(tag) << 3) | uint64(wireType)` -/
theorem encodeTag_src (tag wt : BitVec 64) : (Generated.EncodeTag_k tag wt).toNat = keyOf tag.toNat wt.toNat := by
  unfold Generated.EncodeTag_k keyOf
  simp [BitVec.toNat_shiftLeft, two64]


theorem sshift31_false (v : BitVec 32) (h : v.msb = false) : v.sshiftRight 31 = 0#32 := by
  rw [BitVec.sshiftRight_eq_of_msb_false h]
  apply BitVec.eq_of_toNat_eq
  simp [BitVec.toNat_ushiftRight]
  have := BitVec.msb_eq_false_iff_two_mul_lt.mp h
  rw [Nat.shiftRight_eq_div_pow]; apply Nat.div_eq_of_lt; omega

theorem sshift31_true (v : BitVec 32) (h : v.msb = true) : v.sshiftRight 31 = BitVec.allOnes 32 := by
  rw [BitVec.sshiftRight_eq_of_msb_true h]
  apply BitVec.eq_of_toNat_eq
  have h2 := BitVec.msb_eq_true_iff_two_mul_ge.mp h
  have hv := v.isLt
  simp only [BitVec.toNat_not, BitVec.toNat_ushiftRight, BitVec.toNat_allOnes]
  rw [Nat.shiftRight_eq_div_pow]
  have : (2 ^ 32 - 1 - v.toNat) / 2 ^ 31 = 0 := by apply Nat.div_eq_of_lt; omega
  rw [this]

/-- `EncodeZigZag32`: `uint64((uint32(v) << 1) ^ uint32(v >> 31))` -/
theorem encodeZigZag32_src (v : BitVec 32) : (Generated.EncodeZigZag32_zz v).toNat = zigzag v.toInt := by
  unfold Generated.EncodeZigZag32_zz zigzag
  have hv := v.isLt
  rw [BitVec.toNat_setWidth]
  cases h : v.msb
  · rw [sshift31_false v h]
    have h2 := BitVec.msb_eq_false_iff_two_mul_lt.mp h
    have hi : v.toInt = v.toNat := by rw [BitVec.toInt_eq_msb_cond]; simp [h]
    simp only [BitVec.xor_zero, BitVec.toNat_shiftLeft, hi]
    have : (v.toNat <<< 1) % 2 ^ 32 = 2 * v.toNat := by
      rw [Nat.shiftLeft_eq]; omega
    rw [this]
    have : (0:Int) ≤ (v.toNat : Int) := by omega
    simp only [this, if_true]; omega
  · rw [sshift31_true v h]
    have h2 := BitVec.msb_eq_true_iff_two_mul_ge.mp h
    have hi : v.toInt = (v.toNat : Int) - 2 ^ 32 := by rw [BitVec.toInt_eq_msb_cond]; simp [h]
    rw [BitVec.xor_allOnes, BitVec.toNat_not, BitVec.toNat_shiftLeft, hi]
    have : (v.toNat <<< 1) % 2 ^ 32 = 2 * v.toNat - 2 ^ 32 := by
      rw [Nat.shiftLeft_eq]; omega
    rw [this]
    have hneg : ¬ (0 ≤ (v.toNat : Int) - 2 ^ 32) := by omega
    simp only [hneg, if_false]
    omega

theorem and_one_cases (dv : BitVec 64) : dv &&& 1#64 = 0#64 ∧ dv.toNat % 2 = 0 ∨ dv &&& 1#64 = 1#64 ∧ dv.toNat % 2 = 1 := by
  have h : (dv &&& 1#64).toNat = dv.toNat % 2 := by simp [Nat.and_one_is_mod]
  rcases Nat.mod_two_eq_zero_or_one dv.toNat with h0 | h1
  · left; exact ⟨BitVec.eq_of_toNat_eq (by rw [h, h0]; rfl), h0⟩
  · right; exact ⟨BitVec.eq_of_toNat_eq (by rw [h, h1]; rfl), h1⟩

/-- `DecodeZigZag64`: `(dv >> 1) ^ uint64((int64(dv&1)<<63)>>63)` read as `int64` -/
theorem decodeZigZag64_src (dv : BitVec 64) : (Generated.DecodeZigZag64_dv dv).toInt = unzigzag dv.toNat := by
  unfold Generated.DecodeZigZag64_dv unzigzag
  have hv := dv.isLt
  have hshr : (dv >>> 1).toNat = dv.toNat / 2 := by simp [BitVec.toNat_ushiftRight, Nat.shiftRight_eq_div_pow]
  rcases and_one_cases dv with ⟨h, hm⟩ | ⟨h, hm⟩
  · rw [h]
    have : BitVec.sshiftRight (0#64 <<< 63) 63 = 0#64 := by decide
    rw [this, BitVec.xor_zero]
    simp only [hm, if_true]
    rw [BitVec.toInt_eq_toNat_cond, hshr]
    have : 2 * (dv.toNat / 2) < 2 ^ 64 := by omega
    simp only [this, if_true]
  · rw [h]
    have : BitVec.sshiftRight (1#64 <<< 63) 63 = BitVec.allOnes 64 := by decide
    rw [this, BitVec.xor_allOnes]
    have hne : ¬ (dv.toNat % 2 = 0) := by omega
    simp only [hne, if_false]
    rw [BitVec.toInt_eq_toNat_cond, BitVec.toNat_not, hshr]
    have : ¬ (2 * (2 ^ 64 - 1 - dv.toNat / 2) < 2 ^ 64) := by omega
    simp only [this, if_false]
    omega


/-- `DecodeZigZag32`: `uint64((uint32(dv) >> 1) ^ uint32((int32(dv&1)<<31)>>31))`, returned as `int32(dv)` -/
theorem decodeZigZag32_src (dv : BitVec 64) :
    ((Generated.DecodeZigZag32_dv dv).setWidth 32).toInt = unzigzag (dv.toNat % two32) := by
  unfold Generated.DecodeZigZag32_dv unzigzag
  have hx : (BitVec.setWidth 32 dv).toNat = dv.toNat % two32 := by simp [BitVec.toNat_setWidth, two32]
  generalize hxe : BitVec.setWidth 32 dv = x at *
  have hxl := x.isLt
  have hround : ∀ y : BitVec 32, BitVec.setWidth 32 (BitVec.setWidth 64 y) = y := by
    intro y; apply BitVec.eq_of_toNat_eq; simp
  rw [hround]
  have hshr : (x >>> 1).toNat = x.toNat / 2 := by simp [BitVec.toNat_ushiftRight, Nat.shiftRight_eq_div_pow]
  have hpar : dv.toNat % 2 = x.toNat % 2 := by rw [hx]; unfold two32; omega
  rw [← hx]
  rcases and_one_cases dv with ⟨h, hm⟩ | ⟨h, hm⟩
  · rw [h]
    have : BitVec.sshiftRight (BitVec.setWidth 32 0#64 <<< 31) 31 = 0#32 := by decide
    rw [this, BitVec.xor_zero]
    have hm' : x.toNat % 2 = 0 := by omega
    simp only [hm', if_true]
    rw [BitVec.toInt_eq_toNat_cond, hshr]
    have : 2 * (x.toNat / 2) < 2 ^ 32 := by omega
    simp only [this, if_true]
  · rw [h]
    have : BitVec.sshiftRight (BitVec.setWidth 32 1#64 <<< 31) 31 = BitVec.allOnes 32 := by decide
    rw [this, BitVec.xor_allOnes]
    have hne : ¬ (x.toNat % 2 = 0) := by omega
    simp only [hne, if_false]
    rw [BitVec.toInt_eq_toNat_cond, BitVec.toNat_not, hshr]
    have : ¬ (2 * (2 ^ 32 - 1 - x.toNat / 2) < 2 ^ 32) := by omega
    simp only [this, if_false]
    omega

end Csproto.Bridge
