import Csproto.Generated.Aliasing
import Csproto.Generated.Templates
/- bridge: who copies decoded data (facts regenerated from decoder.go, lazyproto/decode.go, the templates) -/
namespace Csproto.Bridge.Aliasing
open Csproto.Generated

theorem decodeString_copies_in_safe_mode : decodeStringUnsafeOnlyFast = true ∧ decodeStringSafeCopies = true := by decide
theorem lazy_inputs_are_cloned : lazyDecoderClonesInSafeMode = true ∧ lazyDecodeFuncClones = true := by decide

end Csproto.Bridge.Aliasing
