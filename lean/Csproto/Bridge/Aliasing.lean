import Csproto.Generated.Aliasing
import Csproto.Generated.Templates
/- bridge: who copies decoded data (facts regenerated from decoder.go, lazyproto/decode.go, the templates) -/
namespace Csproto.Bridge.Aliasing
open Csproto.Generated

theorem decodeString_copies_in_safe_mode : decodeStringUnsafeOnlyFast = true ∧ decodeStringSafeCopies = true := by decide
theorem lazy_inputs_are_cloned : lazyDecoderClonesInSafeMode = true ∧ lazyDecodeFuncClones = true := by decide

/-- `NewDecoder` returns a newly constructed `Decoder` whose literal does not mention `mode` — the zero value,
    `DecoderModeSafe` — and `SetMode` is the only function that ever writes a decoder's mode: a decoder is in
    fast mode only if its own user called `SetMode` on it.  (Fails when `NewDecoder` starts recycling objects.) -/
theorem newDecoder_is_fresh_and_safe :
    newDecoderIsFreshLiteral = true ∧ newDecoderLiteralFields.contains "mode" = false ∧
    decoderModeWriters = ["SetMode"] := by decide

/-- the generated `Unmarshal` gets its decoder from one `csproto.NewDecoder(p)` and switches it to fast mode
    only under the `enableunsafedecode` option -/
theorem generated_decoder_setup :
    decoderSetup = [("singlefile.go.tmpl", true, true), ("permessage.go.tmpl", true, true)] := by decide

end Csproto.Bridge.Aliasing
