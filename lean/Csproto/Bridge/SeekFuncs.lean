import Csproto.Bridge.SkipFuncs
/-
  Bridge for the TRANSLATED `(*Decoder).Seek`: `Seek_refines` — for every buffer, in-range cursor, 64-bit `offset` and `whence`,
  the translated method and `Dec.step (.seek offset whence)` agree: the three `whence` values, Go's WRAPPING 64-bit addition of
  `offset` to the cursor / to the length, rejection of a position outside `[0, len]` (cursor unchanged, the old cursor
  returned), acceptance otherwise (cursor = position).  No panic.
-/
set_option linter.unusedSimpArgs false
set_option linter.unusedVariables false
namespace Csproto.Bridge.SeekFuncs
open Csproto Csproto.Generated.WireFuncs Csproto.Bridge Csproto.Bridge.WireFuncs Csproto.Bridge.DecoderFuncs Csproto.Bridge.SkipFuncs

/-- the model's wrap-around `toI64 (toU64 i)` is the signed reading of the 64-bit sum -/
theorem wrap_add (a b : BitVec 64) : toI64 (toU64 (a.toInt + b.toInt)) = (a + b).toInt := by
  rw [BitVec.toInt_add]
  unfold toI64 toU64 two64 two63
  simp only [Int.bmod]
  omega

theorem wrap_id (a : BitVec 64) : toI64 (toU64 a.toInt) = a.toInt := by
  have h1 := a.toInt_lt; have h2 := a.le_toInt
  unfold toI64 toU64 two64 two63
  omega

theorem toInt_ofNat_small (n : Nat) (h : n < 2 ^ 63) : (BitVec.ofNat 64 n).toInt = n := by
  rw [BitVec.toInt_eq_toNat_cond]
  simp [Nat.mod_eq_of_lt (by omega : n < 2 ^ 64)]
  omega

theorem toInt_small (x : BitVec 64) (h : x.toNat < 2 ^ 63) : x.toInt = x.toNat := by
  rw [BitVec.toInt_eq_toNat_cond]; simp; omega

/-- the bounds test `pos < 0 || pos > len(d.p)` -/
theorem bounds_test (p : Bytes) (pos : BitVec 64) (hp : p.length < 2 ^ 63) :
    (BitVec.slt pos 0#64 || BitVec.slt (BitVec.ofNat 64 p.length) pos) = decide (pos.toInt < 0 ∨ pos.toInt > p.length) := by
  have h1 : BitVec.slt pos 0#64 = decide (pos.toInt < 0) := by simp [BitVec.slt]
  have h2 : BitVec.slt (BitVec.ofNat 64 p.length) pos = decide ((p.length : Int) < pos.toInt) := by
    simp only [BitVec.slt, toInt_ofNat_small p.length hp]
  rw [h1, h2]
  by_cases a : pos.toInt < 0 <;> by_cases b : (p.length : Int) < pos.toInt <;> simp [a, b] <;> omega

theorem toInt_ne_lit (w : BitVec 64) (k : Nat) (hk : k < 2 ^ 63) (h : w ≠ BitVec.ofNat 64 k) : w.toInt ≠ (k : Int) := by
  intro he
  apply h
  apply BitVec.toInt_inj.mp
  rw [he, toInt_ofNat_small k hk]

/-- the final part of `Seek` (bounds test, cursor update, result) for a computed position -/
theorem seek_tail (p : Bytes) (off mode ks ke offset whence pos : BitVec 64) (hp : p.length < 2 ^ 63) :
    ∃ r e s,
      (Go.seq (fun s : Decoder_Seek.St => if ((BitVec.slt s.pos 0#64) || (BitVec.slt (BitVec.ofNat 64 s.d_p.length) s.pos)) then (fun s => Go.Out.ret (s.d_offset, (Go.Err.other "errorf")) s) s else Go.skip s)
        (Go.seq (fun s => Go.Out.next { s with d_offset := s.pos })
        (fun s => Go.Out.ret (s.d_offset, Go.Err.nil) s)))
        { d_p := p, d_offset := off, d_mode := mode, d_keyStart := ks, d_keyEnd := ke, offset := offset, whence := whence, pos := pos }
        = .ret (r, e) s ∧ s.d_p = p ∧ s.d_mode = mode ∧ s.d_keyStart = ks ∧ s.d_keyEnd = ke ∧
      (if pos.toInt < 0 ∨ pos.toInt > p.length then e ≠ .nil ∧ s.d_offset = off ∧ r = off
       else e = .nil ∧ r.toInt = pos.toInt ∧ s.d_offset.toNat = pos.toInt.toNat) := by
  have hb := bounds_test p pos hp
  simp only [Go.seq, Go.skip, hb]
  by_cases hbad : pos.toInt < 0 ∨ pos.toInt > p.length
  · simp only [hbad, decide_true, if_true]
    exact ⟨_, _, _, rfl, rfl, rfl, rfl, rfl, by simp, rfl, rfl⟩
  · simp only [hbad, decide_false, Bool.false_eq_true, if_false]
    refine ⟨_, _, _, rfl, rfl, rfl, rfl, rfl, rfl, rfl, ?_⟩
    have hnn : ¬ pos.toInt < 0 := fun h => hbad (Or.inl h)
    show pos.toNat = pos.toInt.toNat
    rw [BitVec.toInt_eq_toNat_cond] at hnn ⊢
    split at hnn <;> omega

/-- **`(*Decoder).Seek` of the source refines `Dec.step (.seek offset whence)`** -/
theorem Seek_refines (fuel : Nat) (p : Bytes) (off mode ks ke offset whence : BitVec 64) (fast : Bool)
    (hp : p.length < 2 ^ 63) (hoff : off.toNat ≤ p.length) :
    ∃ r e s, Decoder_Seek fuel p off mode ks ke offset whence = .ret (r, e) s ∧
      s.d_p = p ∧ s.d_mode = mode ∧ s.d_keyStart = ks ∧ s.d_keyEnd = ke ∧
      (match ((decOf p off ks ke fast).step (.seek offset.toInt whence.toInt)) with
       | (d', .ok (.int q), _) => e = .nil ∧ r.toInt = q ∧ s.d_offset.toNat = d'.off
       | (_, .err, _) => e ≠ .nil ∧ s.d_offset = off ∧ r = off
       | _ => False) := by
  have hoffI : (off.toNat : Int) = off.toInt := (toInt_small off (by omega)).symm
  have hlenI : ((p.length : Nat) : Int) = (BitVec.ofNat 64 p.length).toInt := (toInt_ofNat_small p.length hp).symm
  unfold Decoder_Seek Decoder_Seek.body
  simp only [Go.seq, Dec.step, withAlloc, Dec.seek, decOf, Dec.len, wrap_id]
  by_cases w0 : whence = 0#64
  · subst w0
    obtain ⟨r, e, s, h, h1, h2, h3, h4, h5⟩ := seek_tail p off mode ks ke offset 0#64 offset hp
    simp only [Go.seq, Go.skip] at h
    have : (0#64 : BitVec 64).toInt = 0 := by decide
    simp only [beq_self_eq_true, if_true, Go.skip, this]
    rw [h]
    refine ⟨r, e, s, rfl, h1, h2, h3, h4, ?_⟩
    by_cases hbad : offset.toInt < 0 ∨ offset.toInt > p.length
    · simp only [hbad, if_true] at h5 ⊢; exact h5
    · simp only [hbad, if_false] at h5 ⊢; exact h5
  · have hw0 : whence.toInt ≠ 0 := toInt_ne_lit whence 0 (by omega) w0
    have hb0 : (whence == 0#64) = false := by simp [w0]
    by_cases w1 : whence = 1#64
    · subst w1
      obtain ⟨r, e, s, h, h1, h2, h3, h4, h5⟩ := seek_tail p off mode ks ke offset 1#64 (offset + off) hp
      simp only [Go.seq, Go.skip] at h
      have h11 : (1#64 : BitVec 64).toInt = 1 := by decide
      simp only [hb0, Bool.false_eq_true, if_false, beq_self_eq_true, if_true, h11, hoffI, wrap_add, Go.skip]
      have hne : ¬ ((1 : Int) = 0) := by decide
      simp only [hne, if_false, if_true]
      rw [h]
      refine ⟨r, e, s, rfl, h1, h2, h3, h4, ?_⟩
      by_cases hbad : (offset + off).toInt < 0 ∨ (offset + off).toInt > p.length
      · simp only [hbad, if_true] at h5 ⊢; exact h5
      · simp only [hbad, if_false] at h5 ⊢; exact h5
    · have hw1 : whence.toInt ≠ 1 := toInt_ne_lit whence 1 (by omega) w1
      have hb1 : (whence == 1#64) = false := by simp [w1]
      by_cases w2 : whence = 2#64
      · subst w2
        obtain ⟨r, e, s, h, h1, h2, h3, h4, h5⟩ := seek_tail p off mode ks ke offset 2#64 (offset + BitVec.ofNat 64 p.length) hp
        simp only [Go.seq, Go.skip] at h
        have h22 : (2#64 : BitVec 64).toInt = 2 := by decide
        simp only [hb0, hb1, Bool.false_eq_true, if_false, beq_self_eq_true, if_true, h22, hlenI, wrap_add, Go.skip]
        have hne0 : ¬ ((2 : Int) = 0) := by decide
        have hne1 : ¬ ((2 : Int) = 1) := by decide
        simp only [hne0, hne1, if_false, if_true]
        rw [h]
        refine ⟨r, e, s, rfl, h1, h2, h3, h4, ?_⟩
        by_cases hbad : (offset + BitVec.ofNat 64 p.length).toInt < 0 ∨ (offset + BitVec.ofNat 64 p.length).toInt > (BitVec.ofNat 64 p.length).toInt
        · simp only [hbad, if_true]
          rw [← hlenI] at hbad; simp only [hbad, if_true] at h5; exact h5
        · simp only [hbad, if_false]
          rw [← hlenI] at hbad; simp only [hbad, if_false] at h5; exact h5
      · have hw2 : whence.toInt ≠ 2 := toInt_ne_lit whence 2 (by omega) w2
        have hb2 : (whence == 2#64) = false := by simp [w2]
        simp only [hb0, hb1, hb2, Bool.false_eq_true, if_false, hw0, hw1, hw2]
        exact ⟨_, _, _, rfl, rfl, rfl, rfl, rfl, by simp, rfl, rfl⟩

end Csproto.Bridge.SeekFuncs
