import Csproto.Bridge.EncoderFuncs
import Csproto.Proofs.Wire
/-
  Bridge for a TRANSLATED packed writer: `(*Encoder).EncodePackedUInt64` of `/repo`'s current encoder.go — two `range` loops
  (one that sums `SizeOfVarint` of the elements for the length prefix, one that writes the elements through
  `e.p[e.offset:]`) around the key and the length prefix.

  `EncodePackedUInt64_refines`: for every buffer, in-range cursor, field number and element list (fewer than 2^59 elements),
  the translated method and `Enc.step (.packedVarint tag vs)` agree — an empty list writes nothing; otherwise key, the
  length prefix computed from the per-element sizes, and the elements, exactly the model's bytes at the model's cursor; and
  the method panics exactly when key + prefix + elements do not fit.
-/
set_option linter.unusedSimpArgs false
set_option linter.unusedVariables false
namespace Csproto.Bridge.PackedEncFuncs
open Csproto Csproto.Generated Csproto.Generated.WireFuncs Csproto.Bridge Csproto.Bridge.WireFuncs Csproto.Bridge.EncoderFuncs

abbrev ES := Encoder_EncodePackedUInt64.St

def sizesBody : ES → Go.Out ES Unit := (fun s => .next { s with sz := (s.sz + (SizeOfVarint s.v)) })
def bindV : ES → BitVec 64 → ES := (fun s x => { s with v := x })

theorem sizeOfVarint_le10 (x : BitVec 64) : (SizeOfVarint x).toNat = sizeOfVarint x.toNat ∧ sizeOfVarint x.toNat ≤ 10 := by
  refine ⟨sizeOfVarint_src x, ?_⟩
  rw [sizeOfVarint_eq_length]
  exact encVarint_length_le_10 (by rw [two64_eq]; exact x.isLt)

/-- the first loop: `sz` ends up as the sum of the elements' varint sizes -/
theorem sizes_loop : ∀ (vs : List (BitVec 64)) (s : ES), s.sz.toNat + 10 * vs.length < 2 ^ 63 →
    ∃ s', Go.forEachGo bindV sizesBody vs s = .next s' ∧ s'.e_p = s.e_p ∧ s'.e_offset = s.e_offset ∧ s'.vs = s.vs ∧ s'.tag = s.tag ∧
      s'.sz.toNat = s.sz.toNat + sumSizes sizeOfVarint (vs.map (·.toNat)) := by
  intro vs
  induction vs with
  | nil => intro s _; exact ⟨s, rfl, rfl, rfl, rfl, rfl, by simp [sumSizes]⟩
  | cons x r ih =>
    intro s hb
    obtain ⟨hx, hx10⟩ := sizeOfVarint_le10 x
    simp only [List.length_cons] at hb
    have hadd : (s.sz + SizeOfVarint x).toNat = s.sz.toNat + sizeOfVarint x.toNat := by
      rw [BitVec.toNat_add, hx, Nat.mod_eq_of_lt (by omega)]
    obtain ⟨s', h1, h2, h3, h4, h5, h6⟩ := ih { s with v := x, sz := s.sz + SizeOfVarint x } (by simp only; rw [hadd]; omega)
    refine ⟨s', ?_, h2, h3, h4, h5, ?_⟩
    · simp only [Go.forEachGo, bindV, sizesBody]; exact h1
    · rw [h6]; simp only [hadd, List.map_cons, sumSizes, List.sum_cons]; omega

def writeBody (fuel : Nat) : ES → Go.Out ES Unit :=
  (fun s => if ((s.e_offset).toNat ≤ s.e_p.length) then match (EncodeVarint fuel (s.e_p.drop (s.e_offset).toNat) s.v) with | .ret r c => .next { s with e_p := s.e_p.take (s.e_offset).toNat ++ c.dest, e_offset := (s.e_offset + r) } | .next _ => .panic | .panic => .panic | .diverge => .diverge else .panic)

def flat (vs : List (BitVec 64)) : Bytes := ((vs.map (·.toNat)).map encVarint).flatten

/-- the second loop: the elements' varints one after the other at the cursor, or a panic when they do not all fit -/
theorem write_loop (fuel : Nat) (hf : 10 ≤ fuel) : ∀ (vs : List (BitVec 64)) (s : ES), s.e_p.length < 2 ^ 62 → s.e_offset.toNat ≤ s.e_p.length →
    (s.e_offset.toNat + (flat vs).length ≤ s.e_p.length →
      ∃ s', Go.forEachGo bindV (writeBody fuel) vs s = .next s' ∧ s'.e_p = writeAt s.e_p s.e_offset.toNat (flat vs) ∧
        s'.e_offset.toNat = s.e_offset.toNat + (flat vs).length) ∧
    (¬ s.e_offset.toNat + (flat vs).length ≤ s.e_p.length → Go.forEachGo bindV (writeBody fuel) vs s = .panic) := by
  intro vs
  induction vs with
  | nil =>
    intro s hp ho
    refine ⟨fun _ => ⟨s, rfl, by simp [flat, writeAt], by simp [flat]⟩, fun h => by simp [flat] at h; omega⟩
  | cons x r ih =>
    intro s hp ho
    have hflat : flat (x :: r) = encVarint x.toNat ++ flat r := by simp [flat]
    obtain ⟨sok, sbad⟩ := stage (EncodeVarint fuel (s.e_p.drop s.e_offset.toNat) x) (·.dest) s.e_p s.e_offset (encVarint x.toNat) (by omega) ho
      (fun h => EncodeVarint_ok fuel _ x hf h) (fun h => EncodeVarint_short fuel _ x hf h)
    by_cases h1 : s.e_offset.toNat + (encVarint x.toNat).length ≤ s.e_p.length
    · obtain ⟨c, hc, hw, ha⟩ := sok h1
      have hstep : writeBody fuel (bindV s x) = .next { (bindV s x) with e_p := writeAt s.e_p s.e_offset.toNat (encVarint x.toNat), e_offset := s.e_offset + BitVec.ofNat 64 (encVarint x.toNat).length } := by
        simp only [writeBody, bindV, ho, if_true, hc, hw]
      have hlen1 : (writeAt s.e_p s.e_offset.toNat (encVarint x.toNat)).length = s.e_p.length := writeAt_length h1
      obtain ⟨iok, ibad⟩ := ih { (bindV s x) with e_p := writeAt s.e_p s.e_offset.toNat (encVarint x.toNat), e_offset := s.e_offset + BitVec.ofNat 64 (encVarint x.toNat).length }
        (by simp only; rw [hlen1]; exact hp) (by simp only; rw [hlen1, ha]; exact h1)
      simp only [hlen1, ha] at iok ibad
      constructor
      · intro hfit
        rw [hflat, List.length_append] at hfit
        obtain ⟨s', e1, e2, e3⟩ := iok (by omega)
        refine ⟨s', ?_, ?_, ?_⟩
        · simp only [Go.forEachGo, hstep]; exact e1
        · rw [e2, hflat, writeAt_writeAt _ _ _ _ (by omega)]
        · rw [e3, hflat, List.length_append]; omega
      · intro hno
        rw [hflat, List.length_append] at hno
        simp only [Go.forEachGo, hstep]
        exact ibad (by omega)
    · constructor
      · intro hfit; rw [hflat, List.length_append] at hfit; omega
      · intro _
        have hp' := sbad h1
        simp only [Go.forEachGo, writeBody, bindV, ho, if_true, hp']

theorem seq_next {σ ρ : Type} (a b : σ → Go.Out σ ρ) (s s' : σ) (h : a s = .next s') : Go.seq a b s = b s' := by
  simp [Go.seq, h]
theorem seq_panic {σ ρ : Type} (a b : σ → Go.Out σ ρ) (s : σ) (h : a s = .panic) : Go.seq a b s = .panic := by
  simp [Go.seq, h]

/-- **`(*Encoder).EncodePackedUInt64` of the source refines `Enc.step (.packedVarint tag vs)`** -/
theorem EncodePackedUInt64_refines (fuel : Nat) (hf : 10 ≤ fuel) (p : Bytes) (off tag : BitVec 64) (vs : List (BitVec 64))
    (hp : p.length < 2 ^ 62) (hoff : off.toNat ≤ p.length) (hvs : vs.length < 2 ^ 59) :
    match ({ buf := p, off := off.toNat } : Enc).step (.packedVarint tag.toNat (vs.map (·.toNat))) with
    | .ok e' => ∃ s, Encoder_EncodePackedUInt64 fuel p off tag vs = .ret () s ∧ s.e_p = e'.buf ∧ s.e_offset.toNat = e'.off
    | .panic => Encoder_EncodePackedUInt64 fuel p off tag vs = .panic
    | .err _ => False := by
  have hp63 : p.length < 2 ^ 63 := by omega
  unfold Encoder_EncodePackedUInt64 Encoder_EncodePackedUInt64.body
  cases hvs0 : vs with
  | nil => simp [Go.seq, Enc.step]
  | cons x0 r0 =>
    rw [← hvs0]
    have hne : (vs.map (·.toNat)).isEmpty = false := by rw [hvs0]; rfl
    have hlen0 : ((BitVec.ofNat 64 vs.length) == 0#64) = false := by
      have : 0 < vs.length := by rw [hvs0]; simp
      have h2 : (BitVec.ofNat 64 vs.length).toNat = vs.length := by simp; omega
      have : BitVec.ofNat 64 vs.length ≠ 0#64 := fun h => by rw [h] at h2; simp at h2; omega
      simp [this]
    simp only [Enc.step, hne, Bool.false_eq_true, if_false, EncOp.wire]
    -- abbreviations
    generalize hT : encTag tag.toNat wtLen = T
    generalize hS : sumSizes sizeOfVarint (vs.map (·.toNat)) = S
    have hW : ((vs.map (·.toNat)).map encVarint).flatten = flat vs := rfl
    rw [hW]
    have hwt : wtLen = (2#64).toNat := rfl
    -- first statement (empty test) and the key
    obtain ⟨s1ok, s1bad⟩ := stage (EncodeTag fuel (p.drop off.toNat) tag 2#64) (·.dest) p off T hp63 hoff
      (fun h => by rw [← hT, hwt] at h ⊢; exact EncodeTag_ok fuel _ tag 2#64 hf h)
      (fun h => by rw [← hT, hwt] at h; exact EncodeTag_short fuel _ tag 2#64 hf h)
    simp only [Go.seq, Go.skip, hlen0, Bool.false_eq_true, if_false, hoff, if_true]
    by_cases h1 : off.toNat + T.length ≤ p.length
    · obtain ⟨c1, hc1, hw1, ha1⟩ := s1ok h1
      have hlen1 : (writeAt p off.toNat T).length = p.length := writeAt_length h1
      simp only [hc1, hw1]
      -- the sizes loop
      obtain ⟨s3, hl3, e3p, e3o, e3v, e3t, e3s⟩ := sizes_loop vs
        { e_p := writeAt p off.toNat T, e_offset := off + BitVec.ofNat 64 T.length, tag := tag, vs := vs, sz := 0#64 } (by simp; omega)
      have hf3 : Go.forEach (fun s : ES => s.vs) (fun s x => { s with v := x }) (fun s => Go.Out.next { s with sz := (s.sz + (SizeOfVarint s.v)) })
          { e_p := writeAt p off.toNat T, e_offset := off + BitVec.ofNat 64 T.length, tag := tag, vs := vs, sz := 0#64 } = .next s3 := hl3
      simp only [hf3]
      simp only at e3p e3o e3v e3t e3s
      have hsz : s3.sz.toNat = S := by rw [e3s, hS]; simp
      -- the length prefix
      obtain ⟨s4ok, s4bad⟩ := stage (EncodeVarint fuel (s3.e_p.drop s3.e_offset.toNat) s3.sz) (·.dest) s3.e_p s3.e_offset (encVarint S)
        (by rw [e3p, hlen1]; exact hp63) (by rw [e3p, e3o, hlen1, ha1]; exact h1)
        (fun h => by rw [← hsz] at h ⊢; exact EncodeVarint_ok fuel _ s3.sz hf h) (fun h => by rw [← hsz] at h; exact EncodeVarint_short fuel _ s3.sz hf h)
      have hle3 : s3.e_offset.toNat ≤ s3.e_p.length := by rw [e3p, e3o, hlen1, ha1]; exact h1
      simp only [hle3, if_true]
      by_cases h2 : off.toNat + T.length + (encVarint S).length ≤ p.length
      · obtain ⟨c2, hc2, hw2, ha2⟩ := s4ok (by rw [e3p, e3o, hlen1, ha1]; exact h2)
        simp only [hc2, hw2]
        simp only [e3p, e3o, ha1] at hw2 ha2
        have hq2 : writeAt (writeAt p off.toNat T) (off.toNat + T.length) (encVarint S) = writeAt p off.toNat (T ++ encVarint S) :=
          writeAt_writeAt p off.toNat _ _ h2
        have hlen2 : (writeAt p off.toNat (T ++ encVarint S)).length = p.length := writeAt_length (by simp only [List.length_append]; omega)
        -- the elements
        have e5p : ({ s3 with e_p := writeAt s3.e_p s3.e_offset.toNat (encVarint S), e_offset := s3.e_offset + BitVec.ofNat 64 (encVarint S).length } : ES).e_p = writeAt p off.toNat (T ++ encVarint S) := by
          show writeAt s3.e_p s3.e_offset.toNat (encVarint S) = _
          rw [e3p, e3o, ha1, hq2]
        have e5o : ({ s3 with e_p := writeAt s3.e_p s3.e_offset.toNat (encVarint S), e_offset := s3.e_offset + BitVec.ofNat 64 (encVarint S).length } : ES).e_offset.toNat = off.toNat + T.length + (encVarint S).length := by
          show (s3.e_offset + BitVec.ofNat 64 (encVarint S).length).toNat = _
          rw [e3o, ha2]
        obtain ⟨wok, wbad⟩ := write_loop fuel hf vs ({ s3 with e_p := writeAt s3.e_p s3.e_offset.toNat (encVarint S), e_offset := s3.e_offset + BitVec.ofNat 64 (encVarint S).length } : ES) (by rw [e5p, hlen2]; exact hp) (by rw [e5p, e5o, hlen2]; exact h2)
        rw [e5p, e5o, hlen2] at wok wbad
        have hoffl : off.toNat + T.length + (encVarint S).length = off.toNat + (T ++ encVarint S).length := by
          simp only [List.length_append]; omega
        have hfe : ∀ st : ES, Go.forEach (fun s : ES => s.vs) (fun s x => { s with v := x }) (writeBody fuel) st = Go.forEachGo bindV (writeBody fuel) st.vs st := fun _ => rfl
        by_cases h3 : off.toNat + T.length + (encVarint S).length + (flat vs).length ≤ p.length
        · obtain ⟨s6, hl6, e6p, e6o⟩ := wok h3
          have hst : ({ buf := p, off := off.toNat } : Enc).store (T ++ encVarint S ++ flat vs) =
              .ok { buf := writeAt p off.toNat (T ++ encVarint S ++ flat vs), off := off.toNat + (T ++ encVarint S ++ flat vs).length } :=
            store_ok p _ _ (by simp only [List.length_append]; omega)
          simp only [hst, EncOut.ofRes]
          unfold bindV writeBody at hl6
          rw [e3v] at hl6
          simp only [Go.forEach, e3v]
          refine ⟨s6, ?_, ?_, ?_⟩
          · first | erw [hl6] | simp only [hl6] | (rw [show _ = _ from hl6])
          · rw [e6p, hoffl, writeAt_writeAt p off.toNat _ _ (by simp only [List.length_append]; omega)]
          · rw [e6o]; simp only [List.length_append]; omega
        · have hst : ({ buf := p, off := off.toNat } : Enc).store (T ++ encVarint S ++ flat vs) = .panic :=
            store_panic p _ _ (by simp only [List.length_append]; omega)
          simp only [hst, EncOut.ofRes]
          have hb := wbad h3
          unfold bindV writeBody at hb
          rw [e3v] at hb
          simp only [Go.forEach, e3v]
          first | erw [hb] | simp only [hb]
      · have hst : ({ buf := p, off := off.toNat } : Enc).store (T ++ encVarint S ++ flat vs) = .panic :=
          store_panic p _ _ (by simp only [List.length_append]; omega)
        simp only [hst, EncOut.ofRes]
        rw [s4bad (by rw [e3p, e3o, hlen1, ha1]; exact h2)]
    · have hst : ({ buf := p, off := off.toNat } : Enc).store (T ++ encVarint S ++ flat vs) = .panic :=
        store_panic p _ _ (by simp only [List.length_append]; omega)
      simp only [hst, EncOut.ofRes, s1bad h1]

/-! ## `EncodePackedInt32` -/

abbrev ESI32 := Encoder_EncodePackedInt32.St

def sizesBodyI32 : ESI32 → Go.Out ESI32 Unit := (fun s => .next { s with sz := (s.sz + (SizeOfVarint (BitVec.signExtend 64 s.v))) })
def bindVI32 : ESI32 → BitVec 32 → ESI32 := (fun s x => { s with v := x })

theorem sizeOfVarint_le10I32 (x : BitVec 64) : (SizeOfVarint x).toNat = sizeOfVarint x.toNat ∧ sizeOfVarint x.toNat ≤ 10 := by
  refine ⟨sizeOfVarint_src x, ?_⟩
  rw [sizeOfVarint_eq_length]
  exact encVarint_length_le_10 (by rw [two64_eq]; exact x.isLt)

/-- the first loop: `sz` ends up as the sum of the elements' varint sizes -/
theorem sizes_loopI32 : ∀ (vs : List (BitVec 32)) (s : ESI32), s.sz.toNat + 10 * vs.length < 2 ^ 63 →
    ∃ s', Go.forEachGo bindVI32 sizesBodyI32 vs s = .next s' ∧ s'.e_p = s.e_p ∧ s'.e_offset = s.e_offset ∧ s'.vs = s.vs ∧ s'.tag = s.tag ∧
      s'.sz.toNat = s.sz.toNat + sumSizes sizeOfVarint (vs.map (fun v => (BitVec.signExtend 64 v).toNat)) := by
  intro vs
  induction vs with
  | nil => intro s _; exact ⟨s, rfl, rfl, rfl, rfl, rfl, by simp [sumSizes]⟩
  | cons x r ih =>
    intro s hb
    obtain ⟨hx, hx10⟩ := sizeOfVarint_le10I32 (BitVec.signExtend 64 x)
    simp only [List.length_cons] at hb
    have hadd : (s.sz + SizeOfVarint (BitVec.signExtend 64 x)).toNat = s.sz.toNat + sizeOfVarint (BitVec.signExtend 64 x).toNat := by
      rw [BitVec.toNat_add, hx, Nat.mod_eq_of_lt (by omega)]
    obtain ⟨s', h1, h2, h3, h4, h5, h6⟩ := ih { s with v := x, sz := s.sz + SizeOfVarint (BitVec.signExtend 64 x) } (by simp only; rw [hadd]; omega)
    refine ⟨s', ?_, h2, h3, h4, h5, ?_⟩
    · simp only [Go.forEachGo, bindVI32, sizesBodyI32]; exact h1
    · rw [h6]; simp only [hadd, List.map_cons, sumSizes, List.sum_cons]; omega

def writeBodyI32 (fuel : Nat) : ESI32 → Go.Out ESI32 Unit :=
  (fun s => if ((s.e_offset).toNat ≤ s.e_p.length) then match (EncodeVarint fuel (s.e_p.drop (s.e_offset).toNat) (BitVec.signExtend 64 s.v)) with | .ret r c => .next { s with e_p := s.e_p.take (s.e_offset).toNat ++ c.dest, e_offset := (s.e_offset + r) } | .next _ => .panic | .panic => .panic | .diverge => .diverge else .panic)

def flatI32 (vs : List (BitVec 32)) : Bytes := ((vs.map (fun v => (BitVec.signExtend 64 v).toNat)).map encVarint).flatten

/-- the second loop: the elements' varints one after the other at the cursor, or a panic when they do not all fit -/
theorem write_loopI32 (fuel : Nat) (hf : 10 ≤ fuel) : ∀ (vs : List (BitVec 32)) (s : ESI32), s.e_p.length < 2 ^ 62 → s.e_offset.toNat ≤ s.e_p.length →
    (s.e_offset.toNat + (flatI32 vs).length ≤ s.e_p.length →
      ∃ s', Go.forEachGo bindVI32 (writeBodyI32 fuel) vs s = .next s' ∧ s'.e_p = writeAt s.e_p s.e_offset.toNat (flatI32 vs) ∧
        s'.e_offset.toNat = s.e_offset.toNat + (flatI32 vs).length) ∧
    (¬ s.e_offset.toNat + (flatI32 vs).length ≤ s.e_p.length → Go.forEachGo bindVI32 (writeBodyI32 fuel) vs s = .panic) := by
  intro vs
  induction vs with
  | nil =>
    intro s hp ho
    refine ⟨fun _ => ⟨s, rfl, by simp [flatI32, writeAt], by simp [flatI32]⟩, fun h => by simp [flatI32] at h; omega⟩
  | cons x r ih =>
    intro s hp ho
    have hflat : flatI32 (x :: r) = encVarint (BitVec.signExtend 64 x).toNat ++ flatI32 r := by simp [flatI32]
    obtain ⟨sok, sbad⟩ := stage (EncodeVarint fuel (s.e_p.drop s.e_offset.toNat) (BitVec.signExtend 64 x)) (·.dest) s.e_p s.e_offset (encVarint (BitVec.signExtend 64 x).toNat) (by omega) ho
      (fun h => EncodeVarint_ok fuel _ (BitVec.signExtend 64 x) hf h) (fun h => EncodeVarint_short fuel _ (BitVec.signExtend 64 x) hf h)
    by_cases h1 : s.e_offset.toNat + (encVarint (BitVec.signExtend 64 x).toNat).length ≤ s.e_p.length
    · obtain ⟨c, hc, hw, ha⟩ := sok h1
      have hstep : writeBodyI32 fuel (bindVI32 s x) = .next { (bindVI32 s x) with e_p := writeAt s.e_p s.e_offset.toNat (encVarint (BitVec.signExtend 64 x).toNat), e_offset := s.e_offset + BitVec.ofNat 64 (encVarint (BitVec.signExtend 64 x).toNat).length } := by
        simp only [writeBodyI32, bindVI32, ho, if_true, hc, hw]
      have hlen1 : (writeAt s.e_p s.e_offset.toNat (encVarint (BitVec.signExtend 64 x).toNat)).length = s.e_p.length := writeAt_length h1
      obtain ⟨iok, ibad⟩ := ih { (bindVI32 s x) with e_p := writeAt s.e_p s.e_offset.toNat (encVarint (BitVec.signExtend 64 x).toNat), e_offset := s.e_offset + BitVec.ofNat 64 (encVarint (BitVec.signExtend 64 x).toNat).length }
        (by simp only; rw [hlen1]; exact hp) (by simp only; rw [hlen1, ha]; exact h1)
      simp only [hlen1, ha] at iok ibad
      constructor
      · intro hfit
        rw [hflat, List.length_append] at hfit
        obtain ⟨s', e1, e2, e3⟩ := iok (by omega)
        refine ⟨s', ?_, ?_, ?_⟩
        · simp only [Go.forEachGo, hstep]; exact e1
        · rw [e2, hflat, writeAt_writeAt _ _ _ _ (by omega)]
        · rw [e3, hflat, List.length_append]; omega
      · intro hno
        rw [hflat, List.length_append] at hno
        simp only [Go.forEachGo, hstep]
        exact ibad (by omega)
    · constructor
      · intro hfit; rw [hflat, List.length_append] at hfit; omega
      · intro _
        have hp' := sbad h1
        simp only [Go.forEachGo, writeBodyI32, bindVI32, ho, if_true, hp']

theorem seq_nextI32 {σ ρ : Type} (a b : σ → Go.Out σ ρ) (s s' : σ) (h : a s = .next s') : Go.seq a b s = b s' := by
  simp [Go.seq, h]
theorem seq_panicI32 {σ ρ : Type} (a b : σ → Go.Out σ ρ) (s : σ) (h : a s = .panic) : Go.seq a b s = .panic := by
  simp [Go.seq, h]

/-- **`(*Encoder).EncodePackedUInt64` of the source refines `Enc.step (.packedVarint tag vs)`** -/
theorem EncodePackedInt32_refines (fuel : Nat) (hf : 10 ≤ fuel) (p : Bytes) (off tag : BitVec 64) (vs : List (BitVec 32))
    (hp : p.length < 2 ^ 62) (hoff : off.toNat ≤ p.length) (hvs : vs.length < 2 ^ 59) :
    match ({ buf := p, off := off.toNat } : Enc).step (.packedVarint tag.toNat (vs.map (fun v => (BitVec.signExtend 64 v).toNat))) with
    | .ok e' => ∃ s, Encoder_EncodePackedInt32 fuel p off tag vs = .ret () s ∧ s.e_p = e'.buf ∧ s.e_offset.toNat = e'.off
    | .panic => Encoder_EncodePackedInt32 fuel p off tag vs = .panic
    | .err _ => False := by
  have hp63 : p.length < 2 ^ 63 := by omega
  unfold Encoder_EncodePackedInt32 Encoder_EncodePackedInt32.body
  cases hvs0 : vs with
  | nil => simp [Go.seq, Enc.step]
  | cons x0 r0 =>
    rw [← hvs0]
    have hne : (vs.map (fun v => (BitVec.signExtend 64 v).toNat)).isEmpty = false := by rw [hvs0]; rfl
    have hlen0 : ((BitVec.ofNat 64 vs.length) == 0#64) = false := by
      have : 0 < vs.length := by rw [hvs0]; simp
      have h2 : (BitVec.ofNat 64 vs.length).toNat = vs.length := by simp; omega
      have : BitVec.ofNat 64 vs.length ≠ 0#64 := fun h => by rw [h] at h2; simp at h2; omega
      simp [this]
    simp only [Enc.step, hne, Bool.false_eq_true, if_false, EncOp.wire]
    -- abbreviations
    generalize hT : encTag tag.toNat wtLen = T
    generalize hS : sumSizes sizeOfVarint (vs.map (fun v => (BitVec.signExtend 64 v).toNat)) = S
    have hW : ((vs.map (fun v => (BitVec.signExtend 64 v).toNat)).map encVarint).flatten = flatI32 vs := rfl
    rw [hW]
    have hwt : wtLen = (2#64).toNat := rfl
    -- first statement (empty test) and the key
    obtain ⟨s1ok, s1bad⟩ := stage (EncodeTag fuel (p.drop off.toNat) tag 2#64) (·.dest) p off T hp63 hoff
      (fun h => by rw [← hT, hwt] at h ⊢; exact EncodeTag_ok fuel _ tag 2#64 hf h)
      (fun h => by rw [← hT, hwt] at h; exact EncodeTag_short fuel _ tag 2#64 hf h)
    simp only [Go.seq, Go.skip, hlen0, Bool.false_eq_true, if_false, hoff, if_true]
    by_cases h1 : off.toNat + T.length ≤ p.length
    · obtain ⟨c1, hc1, hw1, ha1⟩ := s1ok h1
      have hlen1 : (writeAt p off.toNat T).length = p.length := writeAt_length h1
      simp only [hc1, hw1]
      -- the sizes loop
      obtain ⟨s3, hl3, e3p, e3o, e3v, e3t, e3s⟩ := sizes_loopI32 vs
        { e_p := writeAt p off.toNat T, e_offset := off + BitVec.ofNat 64 T.length, tag := tag, vs := vs, sz := 0#64 } (by simp; omega)
      have hf3 : Go.forEach (fun s : ESI32 => s.vs) (fun s x => { s with v := x }) (fun s => Go.Out.next { s with sz := (s.sz + (SizeOfVarint (BitVec.signExtend 64 s.v))) })
          { e_p := writeAt p off.toNat T, e_offset := off + BitVec.ofNat 64 T.length, tag := tag, vs := vs, sz := 0#64 } = .next s3 := hl3
      simp only [hf3]
      simp only at e3p e3o e3v e3t e3s
      have hsz : s3.sz.toNat = S := by rw [e3s, hS]; simp
      -- the length prefix
      obtain ⟨s4ok, s4bad⟩ := stage (EncodeVarint fuel (s3.e_p.drop s3.e_offset.toNat) s3.sz) (·.dest) s3.e_p s3.e_offset (encVarint S)
        (by rw [e3p, hlen1]; exact hp63) (by rw [e3p, e3o, hlen1, ha1]; exact h1)
        (fun h => by rw [← hsz] at h ⊢; exact EncodeVarint_ok fuel _ s3.sz hf h) (fun h => by rw [← hsz] at h; exact EncodeVarint_short fuel _ s3.sz hf h)
      have hle3 : s3.e_offset.toNat ≤ s3.e_p.length := by rw [e3p, e3o, hlen1, ha1]; exact h1
      simp only [hle3, if_true]
      by_cases h2 : off.toNat + T.length + (encVarint S).length ≤ p.length
      · obtain ⟨c2, hc2, hw2, ha2⟩ := s4ok (by rw [e3p, e3o, hlen1, ha1]; exact h2)
        simp only [hc2, hw2]
        simp only [e3p, e3o, ha1] at hw2 ha2
        have hq2 : writeAt (writeAt p off.toNat T) (off.toNat + T.length) (encVarint S) = writeAt p off.toNat (T ++ encVarint S) :=
          writeAt_writeAt p off.toNat _ _ h2
        have hlen2 : (writeAt p off.toNat (T ++ encVarint S)).length = p.length := writeAt_length (by simp only [List.length_append]; omega)
        -- the elements
        have e5p : ({ s3 with e_p := writeAt s3.e_p s3.e_offset.toNat (encVarint S), e_offset := s3.e_offset + BitVec.ofNat 64 (encVarint S).length } : ESI32).e_p = writeAt p off.toNat (T ++ encVarint S) := by
          show writeAt s3.e_p s3.e_offset.toNat (encVarint S) = _
          rw [e3p, e3o, ha1, hq2]
        have e5o : ({ s3 with e_p := writeAt s3.e_p s3.e_offset.toNat (encVarint S), e_offset := s3.e_offset + BitVec.ofNat 64 (encVarint S).length } : ESI32).e_offset.toNat = off.toNat + T.length + (encVarint S).length := by
          show (s3.e_offset + BitVec.ofNat 64 (encVarint S).length).toNat = _
          rw [e3o, ha2]
        obtain ⟨wok, wbad⟩ := write_loopI32 fuel hf vs ({ s3 with e_p := writeAt s3.e_p s3.e_offset.toNat (encVarint S), e_offset := s3.e_offset + BitVec.ofNat 64 (encVarint S).length } : ESI32) (by rw [e5p, hlen2]; exact hp) (by rw [e5p, e5o, hlen2]; exact h2)
        rw [e5p, e5o, hlen2] at wok wbad
        have hoffl : off.toNat + T.length + (encVarint S).length = off.toNat + (T ++ encVarint S).length := by
          simp only [List.length_append]; omega
        have hfe : ∀ st : ESI32, Go.forEach (fun s : ESI32 => s.vs) (fun s x => { s with v := x }) (writeBodyI32 fuel) st = Go.forEachGo bindVI32 (writeBodyI32 fuel) st.vs st := fun _ => rfl
        by_cases h3 : off.toNat + T.length + (encVarint S).length + (flatI32 vs).length ≤ p.length
        · obtain ⟨s6, hl6, e6p, e6o⟩ := wok h3
          have hst : ({ buf := p, off := off.toNat } : Enc).store (T ++ encVarint S ++ flatI32 vs) =
              .ok { buf := writeAt p off.toNat (T ++ encVarint S ++ flatI32 vs), off := off.toNat + (T ++ encVarint S ++ flatI32 vs).length } :=
            store_ok p _ _ (by simp only [List.length_append]; omega)
          simp only [hst, EncOut.ofRes]
          unfold bindVI32 writeBodyI32 at hl6
          rw [e3v] at hl6
          simp only [Go.forEach, e3v]
          refine ⟨s6, ?_, ?_, ?_⟩
          · first | erw [hl6] | simp only [hl6] | (rw [show _ = _ from hl6])
          · rw [e6p, hoffl, writeAt_writeAt p off.toNat _ _ (by simp only [List.length_append]; omega)]
          · rw [e6o]; simp only [List.length_append]; omega
        · have hst : ({ buf := p, off := off.toNat } : Enc).store (T ++ encVarint S ++ flatI32 vs) = .panic :=
            store_panic p _ _ (by simp only [List.length_append]; omega)
          simp only [hst, EncOut.ofRes]
          have hb := wbad h3
          unfold bindVI32 writeBodyI32 at hb
          rw [e3v] at hb
          simp only [Go.forEach, e3v]
          first | erw [hb] | simp only [hb]
      · have hst : ({ buf := p, off := off.toNat } : Enc).store (T ++ encVarint S ++ flatI32 vs) = .panic :=
          store_panic p _ _ (by simp only [List.length_append]; omega)
        simp only [hst, EncOut.ofRes]
        rw [s4bad (by rw [e3p, e3o, hlen1, ha1]; exact h2)]
    · have hst : ({ buf := p, off := off.toNat } : Enc).store (T ++ encVarint S ++ flatI32 vs) = .panic :=
        store_panic p _ _ (by simp only [List.length_append]; omega)
      simp only [hst, EncOut.ofRes, s1bad h1]

/-! ## `EncodePackedInt64` -/

abbrev ESI64 := Encoder_EncodePackedInt64.St

def sizesBodyI64 : ESI64 → Go.Out ESI64 Unit := (fun s => .next { s with sz := (s.sz + (SizeOfVarint s.v)) })
def bindVI64 : ESI64 → BitVec 64 → ESI64 := (fun s x => { s with v := x })

theorem sizeOfVarint_le10I64 (x : BitVec 64) : (SizeOfVarint x).toNat = sizeOfVarint x.toNat ∧ sizeOfVarint x.toNat ≤ 10 := by
  refine ⟨sizeOfVarint_src x, ?_⟩
  rw [sizeOfVarint_eq_length]
  exact encVarint_length_le_10 (by rw [two64_eq]; exact x.isLt)

/-- the first loop: `sz` ends up as the sum of the elements' varint sizes -/
theorem sizes_loopI64 : ∀ (vs : List (BitVec 64)) (s : ESI64), s.sz.toNat + 10 * vs.length < 2 ^ 63 →
    ∃ s', Go.forEachGo bindVI64 sizesBodyI64 vs s = .next s' ∧ s'.e_p = s.e_p ∧ s'.e_offset = s.e_offset ∧ s'.vs = s.vs ∧ s'.tag = s.tag ∧
      s'.sz.toNat = s.sz.toNat + sumSizes sizeOfVarint (vs.map (·.toNat)) := by
  intro vs
  induction vs with
  | nil => intro s _; exact ⟨s, rfl, rfl, rfl, rfl, rfl, by simp [sumSizes]⟩
  | cons x r ih =>
    intro s hb
    obtain ⟨hx, hx10⟩ := sizeOfVarint_le10I64 x
    simp only [List.length_cons] at hb
    have hadd : (s.sz + SizeOfVarint x).toNat = s.sz.toNat + sizeOfVarint x.toNat := by
      rw [BitVec.toNat_add, hx, Nat.mod_eq_of_lt (by omega)]
    obtain ⟨s', h1, h2, h3, h4, h5, h6⟩ := ih { s with v := x, sz := s.sz + SizeOfVarint x } (by simp only; rw [hadd]; omega)
    refine ⟨s', ?_, h2, h3, h4, h5, ?_⟩
    · simp only [Go.forEachGo, bindVI64, sizesBodyI64]; exact h1
    · rw [h6]; simp only [hadd, List.map_cons, sumSizes, List.sum_cons]; omega

def writeBodyI64 (fuel : Nat) : ESI64 → Go.Out ESI64 Unit :=
  (fun s => if ((s.e_offset).toNat ≤ s.e_p.length) then match (EncodeVarint fuel (s.e_p.drop (s.e_offset).toNat) s.v) with | .ret r c => .next { s with e_p := s.e_p.take (s.e_offset).toNat ++ c.dest, e_offset := (s.e_offset + r) } | .next _ => .panic | .panic => .panic | .diverge => .diverge else .panic)

def flatI64 (vs : List (BitVec 64)) : Bytes := ((vs.map (·.toNat)).map encVarint).flatten

/-- the second loop: the elements' varints one after the other at the cursor, or a panic when they do not all fit -/
theorem write_loopI64 (fuel : Nat) (hf : 10 ≤ fuel) : ∀ (vs : List (BitVec 64)) (s : ESI64), s.e_p.length < 2 ^ 62 → s.e_offset.toNat ≤ s.e_p.length →
    (s.e_offset.toNat + (flatI64 vs).length ≤ s.e_p.length →
      ∃ s', Go.forEachGo bindVI64 (writeBodyI64 fuel) vs s = .next s' ∧ s'.e_p = writeAt s.e_p s.e_offset.toNat (flatI64 vs) ∧
        s'.e_offset.toNat = s.e_offset.toNat + (flatI64 vs).length) ∧
    (¬ s.e_offset.toNat + (flatI64 vs).length ≤ s.e_p.length → Go.forEachGo bindVI64 (writeBodyI64 fuel) vs s = .panic) := by
  intro vs
  induction vs with
  | nil =>
    intro s hp ho
    refine ⟨fun _ => ⟨s, rfl, by simp [flatI64, writeAt], by simp [flatI64]⟩, fun h => by simp [flatI64] at h; omega⟩
  | cons x r ih =>
    intro s hp ho
    have hflat : flatI64 (x :: r) = encVarint x.toNat ++ flatI64 r := by simp [flatI64]
    obtain ⟨sok, sbad⟩ := stage (EncodeVarint fuel (s.e_p.drop s.e_offset.toNat) x) (·.dest) s.e_p s.e_offset (encVarint x.toNat) (by omega) ho
      (fun h => EncodeVarint_ok fuel _ x hf h) (fun h => EncodeVarint_short fuel _ x hf h)
    by_cases h1 : s.e_offset.toNat + (encVarint x.toNat).length ≤ s.e_p.length
    · obtain ⟨c, hc, hw, ha⟩ := sok h1
      have hstep : writeBodyI64 fuel (bindVI64 s x) = .next { (bindVI64 s x) with e_p := writeAt s.e_p s.e_offset.toNat (encVarint x.toNat), e_offset := s.e_offset + BitVec.ofNat 64 (encVarint x.toNat).length } := by
        simp only [writeBodyI64, bindVI64, ho, if_true, hc, hw]
      have hlen1 : (writeAt s.e_p s.e_offset.toNat (encVarint x.toNat)).length = s.e_p.length := writeAt_length h1
      obtain ⟨iok, ibad⟩ := ih { (bindVI64 s x) with e_p := writeAt s.e_p s.e_offset.toNat (encVarint x.toNat), e_offset := s.e_offset + BitVec.ofNat 64 (encVarint x.toNat).length }
        (by simp only; rw [hlen1]; exact hp) (by simp only; rw [hlen1, ha]; exact h1)
      simp only [hlen1, ha] at iok ibad
      constructor
      · intro hfit
        rw [hflat, List.length_append] at hfit
        obtain ⟨s', e1, e2, e3⟩ := iok (by omega)
        refine ⟨s', ?_, ?_, ?_⟩
        · simp only [Go.forEachGo, hstep]; exact e1
        · rw [e2, hflat, writeAt_writeAt _ _ _ _ (by omega)]
        · rw [e3, hflat, List.length_append]; omega
      · intro hno
        rw [hflat, List.length_append] at hno
        simp only [Go.forEachGo, hstep]
        exact ibad (by omega)
    · constructor
      · intro hfit; rw [hflat, List.length_append] at hfit; omega
      · intro _
        have hp' := sbad h1
        simp only [Go.forEachGo, writeBodyI64, bindVI64, ho, if_true, hp']

theorem seq_nextI64 {σ ρ : Type} (a b : σ → Go.Out σ ρ) (s s' : σ) (h : a s = .next s') : Go.seq a b s = b s' := by
  simp [Go.seq, h]
theorem seq_panicI64 {σ ρ : Type} (a b : σ → Go.Out σ ρ) (s : σ) (h : a s = .panic) : Go.seq a b s = .panic := by
  simp [Go.seq, h]

/-- **`(*Encoder).EncodePackedUInt64` of the source refines `Enc.step (.packedVarint tag vs)`** -/
theorem EncodePackedInt64_refines (fuel : Nat) (hf : 10 ≤ fuel) (p : Bytes) (off tag : BitVec 64) (vs : List (BitVec 64))
    (hp : p.length < 2 ^ 62) (hoff : off.toNat ≤ p.length) (hvs : vs.length < 2 ^ 59) :
    match ({ buf := p, off := off.toNat } : Enc).step (.packedVarint tag.toNat (vs.map (·.toNat))) with
    | .ok e' => ∃ s, Encoder_EncodePackedInt64 fuel p off tag vs = .ret () s ∧ s.e_p = e'.buf ∧ s.e_offset.toNat = e'.off
    | .panic => Encoder_EncodePackedInt64 fuel p off tag vs = .panic
    | .err _ => False := by
  have hp63 : p.length < 2 ^ 63 := by omega
  unfold Encoder_EncodePackedInt64 Encoder_EncodePackedInt64.body
  cases hvs0 : vs with
  | nil => simp [Go.seq, Enc.step]
  | cons x0 r0 =>
    rw [← hvs0]
    have hne : (vs.map (·.toNat)).isEmpty = false := by rw [hvs0]; rfl
    have hlen0 : ((BitVec.ofNat 64 vs.length) == 0#64) = false := by
      have : 0 < vs.length := by rw [hvs0]; simp
      have h2 : (BitVec.ofNat 64 vs.length).toNat = vs.length := by simp; omega
      have : BitVec.ofNat 64 vs.length ≠ 0#64 := fun h => by rw [h] at h2; simp at h2; omega
      simp [this]
    simp only [Enc.step, hne, Bool.false_eq_true, if_false, EncOp.wire]
    -- abbreviations
    generalize hT : encTag tag.toNat wtLen = T
    generalize hS : sumSizes sizeOfVarint (vs.map (·.toNat)) = S
    have hW : ((vs.map (·.toNat)).map encVarint).flatten = flatI64 vs := rfl
    rw [hW]
    have hwt : wtLen = (2#64).toNat := rfl
    -- first statement (empty test) and the key
    obtain ⟨s1ok, s1bad⟩ := stage (EncodeTag fuel (p.drop off.toNat) tag 2#64) (·.dest) p off T hp63 hoff
      (fun h => by rw [← hT, hwt] at h ⊢; exact EncodeTag_ok fuel _ tag 2#64 hf h)
      (fun h => by rw [← hT, hwt] at h; exact EncodeTag_short fuel _ tag 2#64 hf h)
    simp only [Go.seq, Go.skip, hlen0, Bool.false_eq_true, if_false, hoff, if_true]
    by_cases h1 : off.toNat + T.length ≤ p.length
    · obtain ⟨c1, hc1, hw1, ha1⟩ := s1ok h1
      have hlen1 : (writeAt p off.toNat T).length = p.length := writeAt_length h1
      simp only [hc1, hw1]
      -- the sizes loop
      obtain ⟨s3, hl3, e3p, e3o, e3v, e3t, e3s⟩ := sizes_loopI64 vs
        { e_p := writeAt p off.toNat T, e_offset := off + BitVec.ofNat 64 T.length, tag := tag, vs := vs, sz := 0#64 } (by simp; omega)
      have hf3 : Go.forEach (fun s : ESI64 => s.vs) (fun s x => { s with v := x }) (fun s => Go.Out.next { s with sz := (s.sz + (SizeOfVarint s.v)) })
          { e_p := writeAt p off.toNat T, e_offset := off + BitVec.ofNat 64 T.length, tag := tag, vs := vs, sz := 0#64 } = .next s3 := hl3
      simp only [hf3]
      simp only at e3p e3o e3v e3t e3s
      have hsz : s3.sz.toNat = S := by rw [e3s, hS]; simp
      -- the length prefix
      obtain ⟨s4ok, s4bad⟩ := stage (EncodeVarint fuel (s3.e_p.drop s3.e_offset.toNat) s3.sz) (·.dest) s3.e_p s3.e_offset (encVarint S)
        (by rw [e3p, hlen1]; exact hp63) (by rw [e3p, e3o, hlen1, ha1]; exact h1)
        (fun h => by rw [← hsz] at h ⊢; exact EncodeVarint_ok fuel _ s3.sz hf h) (fun h => by rw [← hsz] at h; exact EncodeVarint_short fuel _ s3.sz hf h)
      have hle3 : s3.e_offset.toNat ≤ s3.e_p.length := by rw [e3p, e3o, hlen1, ha1]; exact h1
      simp only [hle3, if_true]
      by_cases h2 : off.toNat + T.length + (encVarint S).length ≤ p.length
      · obtain ⟨c2, hc2, hw2, ha2⟩ := s4ok (by rw [e3p, e3o, hlen1, ha1]; exact h2)
        simp only [hc2, hw2]
        simp only [e3p, e3o, ha1] at hw2 ha2
        have hq2 : writeAt (writeAt p off.toNat T) (off.toNat + T.length) (encVarint S) = writeAt p off.toNat (T ++ encVarint S) :=
          writeAt_writeAt p off.toNat _ _ h2
        have hlen2 : (writeAt p off.toNat (T ++ encVarint S)).length = p.length := writeAt_length (by simp only [List.length_append]; omega)
        -- the elements
        have e5p : ({ s3 with e_p := writeAt s3.e_p s3.e_offset.toNat (encVarint S), e_offset := s3.e_offset + BitVec.ofNat 64 (encVarint S).length } : ESI64).e_p = writeAt p off.toNat (T ++ encVarint S) := by
          show writeAt s3.e_p s3.e_offset.toNat (encVarint S) = _
          rw [e3p, e3o, ha1, hq2]
        have e5o : ({ s3 with e_p := writeAt s3.e_p s3.e_offset.toNat (encVarint S), e_offset := s3.e_offset + BitVec.ofNat 64 (encVarint S).length } : ESI64).e_offset.toNat = off.toNat + T.length + (encVarint S).length := by
          show (s3.e_offset + BitVec.ofNat 64 (encVarint S).length).toNat = _
          rw [e3o, ha2]
        obtain ⟨wok, wbad⟩ := write_loopI64 fuel hf vs ({ s3 with e_p := writeAt s3.e_p s3.e_offset.toNat (encVarint S), e_offset := s3.e_offset + BitVec.ofNat 64 (encVarint S).length } : ESI64) (by rw [e5p, hlen2]; exact hp) (by rw [e5p, e5o, hlen2]; exact h2)
        rw [e5p, e5o, hlen2] at wok wbad
        have hoffl : off.toNat + T.length + (encVarint S).length = off.toNat + (T ++ encVarint S).length := by
          simp only [List.length_append]; omega
        have hfe : ∀ st : ESI64, Go.forEach (fun s : ESI64 => s.vs) (fun s x => { s with v := x }) (writeBodyI64 fuel) st = Go.forEachGo bindVI64 (writeBodyI64 fuel) st.vs st := fun _ => rfl
        by_cases h3 : off.toNat + T.length + (encVarint S).length + (flatI64 vs).length ≤ p.length
        · obtain ⟨s6, hl6, e6p, e6o⟩ := wok h3
          have hst : ({ buf := p, off := off.toNat } : Enc).store (T ++ encVarint S ++ flatI64 vs) =
              .ok { buf := writeAt p off.toNat (T ++ encVarint S ++ flatI64 vs), off := off.toNat + (T ++ encVarint S ++ flatI64 vs).length } :=
            store_ok p _ _ (by simp only [List.length_append]; omega)
          simp only [hst, EncOut.ofRes]
          unfold bindVI64 writeBodyI64 at hl6
          rw [e3v] at hl6
          simp only [Go.forEach, e3v]
          refine ⟨s6, ?_, ?_, ?_⟩
          · first | erw [hl6] | simp only [hl6] | (rw [show _ = _ from hl6])
          · rw [e6p, hoffl, writeAt_writeAt p off.toNat _ _ (by simp only [List.length_append]; omega)]
          · rw [e6o]; simp only [List.length_append]; omega
        · have hst : ({ buf := p, off := off.toNat } : Enc).store (T ++ encVarint S ++ flatI64 vs) = .panic :=
            store_panic p _ _ (by simp only [List.length_append]; omega)
          simp only [hst, EncOut.ofRes]
          have hb := wbad h3
          unfold bindVI64 writeBodyI64 at hb
          rw [e3v] at hb
          simp only [Go.forEach, e3v]
          first | erw [hb] | simp only [hb]
      · have hst : ({ buf := p, off := off.toNat } : Enc).store (T ++ encVarint S ++ flatI64 vs) = .panic :=
          store_panic p _ _ (by simp only [List.length_append]; omega)
        simp only [hst, EncOut.ofRes]
        rw [s4bad (by rw [e3p, e3o, hlen1, ha1]; exact h2)]
    · have hst : ({ buf := p, off := off.toNat } : Enc).store (T ++ encVarint S ++ flatI64 vs) = .panic :=
        store_panic p _ _ (by simp only [List.length_append]; omega)
      simp only [hst, EncOut.ofRes, s1bad h1]

/-! ## `EncodePackedUInt32` -/

abbrev ESU32 := Encoder_EncodePackedUInt32.St

def sizesBodyU32 : ESU32 → Go.Out ESU32 Unit := (fun s => .next { s with sz := (s.sz + (SizeOfVarint (BitVec.setWidth 64 s.v))) })
def bindVU32 : ESU32 → BitVec 32 → ESU32 := (fun s x => { s with v := x })

theorem sizeOfVarint_le10U32 (x : BitVec 64) : (SizeOfVarint x).toNat = sizeOfVarint x.toNat ∧ sizeOfVarint x.toNat ≤ 10 := by
  refine ⟨sizeOfVarint_src x, ?_⟩
  rw [sizeOfVarint_eq_length]
  exact encVarint_length_le_10 (by rw [two64_eq]; exact x.isLt)

/-- the first loop: `sz` ends up as the sum of the elements' varint sizes -/
theorem sizes_loopU32 : ∀ (vs : List (BitVec 32)) (s : ESU32), s.sz.toNat + 10 * vs.length < 2 ^ 63 →
    ∃ s', Go.forEachGo bindVU32 sizesBodyU32 vs s = .next s' ∧ s'.e_p = s.e_p ∧ s'.e_offset = s.e_offset ∧ s'.vs = s.vs ∧ s'.tag = s.tag ∧
      s'.sz.toNat = s.sz.toNat + sumSizes sizeOfVarint (vs.map (fun v => (BitVec.setWidth 64 v).toNat)) := by
  intro vs
  induction vs with
  | nil => intro s _; exact ⟨s, rfl, rfl, rfl, rfl, rfl, by simp [sumSizes]⟩
  | cons x r ih =>
    intro s hb
    obtain ⟨hx, hx10⟩ := sizeOfVarint_le10U32 (BitVec.setWidth 64 x)
    simp only [List.length_cons] at hb
    have hadd : (s.sz + SizeOfVarint (BitVec.setWidth 64 x)).toNat = s.sz.toNat + sizeOfVarint (BitVec.setWidth 64 x).toNat := by
      rw [BitVec.toNat_add, hx, Nat.mod_eq_of_lt (by omega)]
    obtain ⟨s', h1, h2, h3, h4, h5, h6⟩ := ih { s with v := x, sz := s.sz + SizeOfVarint (BitVec.setWidth 64 x) } (by simp only; rw [hadd]; omega)
    refine ⟨s', ?_, h2, h3, h4, h5, ?_⟩
    · simp only [Go.forEachGo, bindVU32, sizesBodyU32]; exact h1
    · rw [h6]; simp only [hadd, List.map_cons, sumSizes, List.sum_cons]; omega

def writeBodyU32 (fuel : Nat) : ESU32 → Go.Out ESU32 Unit :=
  (fun s => if ((s.e_offset).toNat ≤ s.e_p.length) then match (EncodeVarint fuel (s.e_p.drop (s.e_offset).toNat) (BitVec.setWidth 64 s.v)) with | .ret r c => .next { s with e_p := s.e_p.take (s.e_offset).toNat ++ c.dest, e_offset := (s.e_offset + r) } | .next _ => .panic | .panic => .panic | .diverge => .diverge else .panic)

def flatU32 (vs : List (BitVec 32)) : Bytes := ((vs.map (fun v => (BitVec.setWidth 64 v).toNat)).map encVarint).flatten

/-- the second loop: the elements' varints one after the other at the cursor, or a panic when they do not all fit -/
theorem write_loopU32 (fuel : Nat) (hf : 10 ≤ fuel) : ∀ (vs : List (BitVec 32)) (s : ESU32), s.e_p.length < 2 ^ 62 → s.e_offset.toNat ≤ s.e_p.length →
    (s.e_offset.toNat + (flatU32 vs).length ≤ s.e_p.length →
      ∃ s', Go.forEachGo bindVU32 (writeBodyU32 fuel) vs s = .next s' ∧ s'.e_p = writeAt s.e_p s.e_offset.toNat (flatU32 vs) ∧
        s'.e_offset.toNat = s.e_offset.toNat + (flatU32 vs).length) ∧
    (¬ s.e_offset.toNat + (flatU32 vs).length ≤ s.e_p.length → Go.forEachGo bindVU32 (writeBodyU32 fuel) vs s = .panic) := by
  intro vs
  induction vs with
  | nil =>
    intro s hp ho
    refine ⟨fun _ => ⟨s, rfl, by simp [flatU32, writeAt], by simp [flatU32]⟩, fun h => by simp [flatU32] at h; omega⟩
  | cons x r ih =>
    intro s hp ho
    have hflat : flatU32 (x :: r) = encVarint (BitVec.setWidth 64 x).toNat ++ flatU32 r := by simp [flatU32]
    obtain ⟨sok, sbad⟩ := stage (EncodeVarint fuel (s.e_p.drop s.e_offset.toNat) (BitVec.setWidth 64 x)) (·.dest) s.e_p s.e_offset (encVarint (BitVec.setWidth 64 x).toNat) (by omega) ho
      (fun h => EncodeVarint_ok fuel _ (BitVec.setWidth 64 x) hf h) (fun h => EncodeVarint_short fuel _ (BitVec.setWidth 64 x) hf h)
    by_cases h1 : s.e_offset.toNat + (encVarint (BitVec.setWidth 64 x).toNat).length ≤ s.e_p.length
    · obtain ⟨c, hc, hw, ha⟩ := sok h1
      have hstep : writeBodyU32 fuel (bindVU32 s x) = .next { (bindVU32 s x) with e_p := writeAt s.e_p s.e_offset.toNat (encVarint (BitVec.setWidth 64 x).toNat), e_offset := s.e_offset + BitVec.ofNat 64 (encVarint (BitVec.setWidth 64 x).toNat).length } := by
        simp only [writeBodyU32, bindVU32, ho, if_true, hc, hw]
      have hlen1 : (writeAt s.e_p s.e_offset.toNat (encVarint (BitVec.setWidth 64 x).toNat)).length = s.e_p.length := writeAt_length h1
      obtain ⟨iok, ibad⟩ := ih { (bindVU32 s x) with e_p := writeAt s.e_p s.e_offset.toNat (encVarint (BitVec.setWidth 64 x).toNat), e_offset := s.e_offset + BitVec.ofNat 64 (encVarint (BitVec.setWidth 64 x).toNat).length }
        (by simp only; rw [hlen1]; exact hp) (by simp only; rw [hlen1, ha]; exact h1)
      simp only [hlen1, ha] at iok ibad
      constructor
      · intro hfit
        rw [hflat, List.length_append] at hfit
        obtain ⟨s', e1, e2, e3⟩ := iok (by omega)
        refine ⟨s', ?_, ?_, ?_⟩
        · simp only [Go.forEachGo, hstep]; exact e1
        · rw [e2, hflat, writeAt_writeAt _ _ _ _ (by omega)]
        · rw [e3, hflat, List.length_append]; omega
      · intro hno
        rw [hflat, List.length_append] at hno
        simp only [Go.forEachGo, hstep]
        exact ibad (by omega)
    · constructor
      · intro hfit; rw [hflat, List.length_append] at hfit; omega
      · intro _
        have hp' := sbad h1
        simp only [Go.forEachGo, writeBodyU32, bindVU32, ho, if_true, hp']

theorem seq_nextU32 {σ ρ : Type} (a b : σ → Go.Out σ ρ) (s s' : σ) (h : a s = .next s') : Go.seq a b s = b s' := by
  simp [Go.seq, h]
theorem seq_panicU32 {σ ρ : Type} (a b : σ → Go.Out σ ρ) (s : σ) (h : a s = .panic) : Go.seq a b s = .panic := by
  simp [Go.seq, h]

/-- **`(*Encoder).EncodePackedUInt64` of the source refines `Enc.step (.packedVarint tag vs)`** -/
theorem EncodePackedUInt32_refines (fuel : Nat) (hf : 10 ≤ fuel) (p : Bytes) (off tag : BitVec 64) (vs : List (BitVec 32))
    (hp : p.length < 2 ^ 62) (hoff : off.toNat ≤ p.length) (hvs : vs.length < 2 ^ 59) :
    match ({ buf := p, off := off.toNat } : Enc).step (.packedVarint tag.toNat (vs.map (fun v => (BitVec.setWidth 64 v).toNat))) with
    | .ok e' => ∃ s, Encoder_EncodePackedUInt32 fuel p off tag vs = .ret () s ∧ s.e_p = e'.buf ∧ s.e_offset.toNat = e'.off
    | .panic => Encoder_EncodePackedUInt32 fuel p off tag vs = .panic
    | .err _ => False := by
  have hp63 : p.length < 2 ^ 63 := by omega
  unfold Encoder_EncodePackedUInt32 Encoder_EncodePackedUInt32.body
  cases hvs0 : vs with
  | nil => simp [Go.seq, Enc.step]
  | cons x0 r0 =>
    rw [← hvs0]
    have hne : (vs.map (fun v => (BitVec.setWidth 64 v).toNat)).isEmpty = false := by rw [hvs0]; rfl
    have hlen0 : ((BitVec.ofNat 64 vs.length) == 0#64) = false := by
      have : 0 < vs.length := by rw [hvs0]; simp
      have h2 : (BitVec.ofNat 64 vs.length).toNat = vs.length := by simp; omega
      have : BitVec.ofNat 64 vs.length ≠ 0#64 := fun h => by rw [h] at h2; simp at h2; omega
      simp [this]
    simp only [Enc.step, hne, Bool.false_eq_true, if_false, EncOp.wire]
    -- abbreviations
    generalize hT : encTag tag.toNat wtLen = T
    generalize hS : sumSizes sizeOfVarint (vs.map (fun v => (BitVec.setWidth 64 v).toNat)) = S
    have hW : ((vs.map (fun v => (BitVec.setWidth 64 v).toNat)).map encVarint).flatten = flatU32 vs := rfl
    rw [hW]
    have hwt : wtLen = (2#64).toNat := rfl
    -- first statement (empty test) and the key
    obtain ⟨s1ok, s1bad⟩ := stage (EncodeTag fuel (p.drop off.toNat) tag 2#64) (·.dest) p off T hp63 hoff
      (fun h => by rw [← hT, hwt] at h ⊢; exact EncodeTag_ok fuel _ tag 2#64 hf h)
      (fun h => by rw [← hT, hwt] at h; exact EncodeTag_short fuel _ tag 2#64 hf h)
    simp only [Go.seq, Go.skip, hlen0, Bool.false_eq_true, if_false, hoff, if_true]
    by_cases h1 : off.toNat + T.length ≤ p.length
    · obtain ⟨c1, hc1, hw1, ha1⟩ := s1ok h1
      have hlen1 : (writeAt p off.toNat T).length = p.length := writeAt_length h1
      simp only [hc1, hw1]
      -- the sizes loop
      obtain ⟨s3, hl3, e3p, e3o, e3v, e3t, e3s⟩ := sizes_loopU32 vs
        { e_p := writeAt p off.toNat T, e_offset := off + BitVec.ofNat 64 T.length, tag := tag, vs := vs, sz := 0#64 } (by simp; omega)
      have hf3 : Go.forEach (fun s : ESU32 => s.vs) (fun s x => { s with v := x }) (fun s => Go.Out.next { s with sz := (s.sz + (SizeOfVarint (BitVec.setWidth 64 s.v))) })
          { e_p := writeAt p off.toNat T, e_offset := off + BitVec.ofNat 64 T.length, tag := tag, vs := vs, sz := 0#64 } = .next s3 := hl3
      simp only [hf3]
      simp only at e3p e3o e3v e3t e3s
      have hsz : s3.sz.toNat = S := by rw [e3s, hS]; simp
      -- the length prefix
      obtain ⟨s4ok, s4bad⟩ := stage (EncodeVarint fuel (s3.e_p.drop s3.e_offset.toNat) s3.sz) (·.dest) s3.e_p s3.e_offset (encVarint S)
        (by rw [e3p, hlen1]; exact hp63) (by rw [e3p, e3o, hlen1, ha1]; exact h1)
        (fun h => by rw [← hsz] at h ⊢; exact EncodeVarint_ok fuel _ s3.sz hf h) (fun h => by rw [← hsz] at h; exact EncodeVarint_short fuel _ s3.sz hf h)
      have hle3 : s3.e_offset.toNat ≤ s3.e_p.length := by rw [e3p, e3o, hlen1, ha1]; exact h1
      simp only [hle3, if_true]
      by_cases h2 : off.toNat + T.length + (encVarint S).length ≤ p.length
      · obtain ⟨c2, hc2, hw2, ha2⟩ := s4ok (by rw [e3p, e3o, hlen1, ha1]; exact h2)
        simp only [hc2, hw2]
        simp only [e3p, e3o, ha1] at hw2 ha2
        have hq2 : writeAt (writeAt p off.toNat T) (off.toNat + T.length) (encVarint S) = writeAt p off.toNat (T ++ encVarint S) :=
          writeAt_writeAt p off.toNat _ _ h2
        have hlen2 : (writeAt p off.toNat (T ++ encVarint S)).length = p.length := writeAt_length (by simp only [List.length_append]; omega)
        -- the elements
        have e5p : ({ s3 with e_p := writeAt s3.e_p s3.e_offset.toNat (encVarint S), e_offset := s3.e_offset + BitVec.ofNat 64 (encVarint S).length } : ESU32).e_p = writeAt p off.toNat (T ++ encVarint S) := by
          show writeAt s3.e_p s3.e_offset.toNat (encVarint S) = _
          rw [e3p, e3o, ha1, hq2]
        have e5o : ({ s3 with e_p := writeAt s3.e_p s3.e_offset.toNat (encVarint S), e_offset := s3.e_offset + BitVec.ofNat 64 (encVarint S).length } : ESU32).e_offset.toNat = off.toNat + T.length + (encVarint S).length := by
          show (s3.e_offset + BitVec.ofNat 64 (encVarint S).length).toNat = _
          rw [e3o, ha2]
        obtain ⟨wok, wbad⟩ := write_loopU32 fuel hf vs ({ s3 with e_p := writeAt s3.e_p s3.e_offset.toNat (encVarint S), e_offset := s3.e_offset + BitVec.ofNat 64 (encVarint S).length } : ESU32) (by rw [e5p, hlen2]; exact hp) (by rw [e5p, e5o, hlen2]; exact h2)
        rw [e5p, e5o, hlen2] at wok wbad
        have hoffl : off.toNat + T.length + (encVarint S).length = off.toNat + (T ++ encVarint S).length := by
          simp only [List.length_append]; omega
        have hfe : ∀ st : ESU32, Go.forEach (fun s : ESU32 => s.vs) (fun s x => { s with v := x }) (writeBodyU32 fuel) st = Go.forEachGo bindVU32 (writeBodyU32 fuel) st.vs st := fun _ => rfl
        by_cases h3 : off.toNat + T.length + (encVarint S).length + (flatU32 vs).length ≤ p.length
        · obtain ⟨s6, hl6, e6p, e6o⟩ := wok h3
          have hst : ({ buf := p, off := off.toNat } : Enc).store (T ++ encVarint S ++ flatU32 vs) =
              .ok { buf := writeAt p off.toNat (T ++ encVarint S ++ flatU32 vs), off := off.toNat + (T ++ encVarint S ++ flatU32 vs).length } :=
            store_ok p _ _ (by simp only [List.length_append]; omega)
          simp only [hst, EncOut.ofRes]
          unfold bindVU32 writeBodyU32 at hl6
          rw [e3v] at hl6
          simp only [Go.forEach, e3v]
          refine ⟨s6, ?_, ?_, ?_⟩
          · first | erw [hl6] | simp only [hl6] | (rw [show _ = _ from hl6])
          · rw [e6p, hoffl, writeAt_writeAt p off.toNat _ _ (by simp only [List.length_append]; omega)]
          · rw [e6o]; simp only [List.length_append]; omega
        · have hst : ({ buf := p, off := off.toNat } : Enc).store (T ++ encVarint S ++ flatU32 vs) = .panic :=
            store_panic p _ _ (by simp only [List.length_append]; omega)
          simp only [hst, EncOut.ofRes]
          have hb := wbad h3
          unfold bindVU32 writeBodyU32 at hb
          rw [e3v] at hb
          simp only [Go.forEach, e3v]
          first | erw [hb] | simp only [hb]
      · have hst : ({ buf := p, off := off.toNat } : Enc).store (T ++ encVarint S ++ flatU32 vs) = .panic :=
          store_panic p _ _ (by simp only [List.length_append]; omega)
        simp only [hst, EncOut.ofRes]
        rw [s4bad (by rw [e3p, e3o, hlen1, ha1]; exact h2)]
    · have hst : ({ buf := p, off := off.toNat } : Enc).store (T ++ encVarint S ++ flatU32 vs) = .panic :=
        store_panic p _ _ (by simp only [List.length_append]; omega)
      simp only [hst, EncOut.ofRes, s1bad h1]

/-! ## `EncodePackedSInt64` (sizes by `SizeOfZigZag`, elements by the translated `EncodeZigZag64`) -/

abbrev ESS64 := Encoder_EncodePackedSInt64.St

def sizesBodyS64 : ESS64 → Go.Out ESS64 Unit := (fun s => .next { s with sz := (s.sz + (SizeOfZigZag s.v)) })
def bindVS64 : ESS64 → BitVec 64 → ESS64 := (fun s x => { s with v := x })

theorem sizeOfVarint_le10S64 (x : BitVec 64) : (SizeOfZigZag x).toNat = sizeOfZigZag x.toInt ∧ sizeOfZigZag x.toInt ≤ 10 := by
  refine ⟨sizeOfZigZag_src x, ?_⟩
  unfold sizeOfZigZag
  rw [sizeOfVarint_eq_length]
  exact encVarint_length_le_10 (zigzag_lt_two64 (inI64_toInt x))

/-- the first loop: `sz` ends up as the sum of the elements' varint sizes -/
theorem sizes_loopS64 : ∀ (vs : List (BitVec 64)) (s : ESS64), s.sz.toNat + 10 * vs.length < 2 ^ 63 →
    ∃ s', Go.forEachGo bindVS64 sizesBodyS64 vs s = .next s' ∧ s'.e_p = s.e_p ∧ s'.e_offset = s.e_offset ∧ s'.vs = s.vs ∧ s'.tag = s.tag ∧
      s'.sz.toNat = s.sz.toNat + sumSizes sizeOfZigZag (vs.map (·.toInt)) := by
  intro vs
  induction vs with
  | nil => intro s _; exact ⟨s, rfl, rfl, rfl, rfl, rfl, by simp [sumSizes]⟩
  | cons x r ih =>
    intro s hb
    obtain ⟨hx, hx10⟩ := sizeOfVarint_le10S64 x
    simp only [List.length_cons] at hb
    have hadd : (s.sz + SizeOfZigZag x).toNat = s.sz.toNat + sizeOfZigZag x.toInt := by
      rw [BitVec.toNat_add, hx, Nat.mod_eq_of_lt (by omega)]
    obtain ⟨s', h1, h2, h3, h4, h5, h6⟩ := ih { s with v := x, sz := s.sz + SizeOfZigZag x } (by simp only; rw [hadd]; omega)
    refine ⟨s', ?_, h2, h3, h4, h5, ?_⟩
    · simp only [Go.forEachGo, bindVS64, sizesBodyS64]; exact h1
    · rw [h6]; simp only [hadd, List.map_cons, sumSizes, List.sum_cons]; omega

def writeBodyS64 (fuel : Nat) : ESS64 → Go.Out ESS64 Unit :=
  (fun s => if ((s.e_offset).toNat ≤ s.e_p.length) then match (EncodeZigZag64 fuel (s.e_p.drop (s.e_offset).toNat) s.v) with | .ret r c => .next { s with e_p := s.e_p.take (s.e_offset).toNat ++ c.dest, e_offset := (s.e_offset + r) } | .next _ => .panic | .panic => .panic | .diverge => .diverge else .panic)

def flatS64 (vs : List (BitVec 64)) : Bytes := ((vs.map (·.toInt)).map encZigZag64).flatten

/-- the second loop: the elements' varints one after the other at the cursor, or a panic when they do not all fit -/
theorem write_loopS64 (fuel : Nat) (hf : 10 ≤ fuel) : ∀ (vs : List (BitVec 64)) (s : ESS64), s.e_p.length < 2 ^ 62 → s.e_offset.toNat ≤ s.e_p.length →
    (s.e_offset.toNat + (flatS64 vs).length ≤ s.e_p.length →
      ∃ s', Go.forEachGo bindVS64 (writeBodyS64 fuel) vs s = .next s' ∧ s'.e_p = writeAt s.e_p s.e_offset.toNat (flatS64 vs) ∧
        s'.e_offset.toNat = s.e_offset.toNat + (flatS64 vs).length) ∧
    (¬ s.e_offset.toNat + (flatS64 vs).length ≤ s.e_p.length → Go.forEachGo bindVS64 (writeBodyS64 fuel) vs s = .panic) := by
  intro vs
  induction vs with
  | nil =>
    intro s hp ho
    refine ⟨fun _ => ⟨s, rfl, by simp [flatS64, writeAt], by simp [flatS64]⟩, fun h => by simp [flatS64] at h; omega⟩
  | cons x r ih =>
    intro s hp ho
    have hflat : flatS64 (x :: r) = encZigZag64 x.toInt ++ flatS64 r := by simp [flatS64]
    obtain ⟨sok, sbad⟩ := stage (EncodeZigZag64 fuel (s.e_p.drop s.e_offset.toNat) x) (·.dest) s.e_p s.e_offset (encZigZag64 x.toInt) (by omega) ho
      (fun h => EncodeZigZag64_ok fuel _ x hf h) (fun h => EncodeZigZag64_short fuel _ x hf h)
    by_cases h1 : s.e_offset.toNat + (encZigZag64 x.toInt).length ≤ s.e_p.length
    · obtain ⟨c, hc, hw, ha⟩ := sok h1
      have hstep : writeBodyS64 fuel (bindVS64 s x) = .next { (bindVS64 s x) with e_p := writeAt s.e_p s.e_offset.toNat (encZigZag64 x.toInt), e_offset := s.e_offset + BitVec.ofNat 64 (encZigZag64 x.toInt).length } := by
        simp only [writeBodyS64, bindVS64, ho, if_true, hc, hw]
      have hlen1 : (writeAt s.e_p s.e_offset.toNat (encZigZag64 x.toInt)).length = s.e_p.length := writeAt_length h1
      obtain ⟨iok, ibad⟩ := ih { (bindVS64 s x) with e_p := writeAt s.e_p s.e_offset.toNat (encZigZag64 x.toInt), e_offset := s.e_offset + BitVec.ofNat 64 (encZigZag64 x.toInt).length }
        (by simp only; rw [hlen1]; exact hp) (by simp only; rw [hlen1, ha]; exact h1)
      simp only [hlen1, ha] at iok ibad
      constructor
      · intro hfit
        rw [hflat, List.length_append] at hfit
        obtain ⟨s', e1, e2, e3⟩ := iok (by omega)
        refine ⟨s', ?_, ?_, ?_⟩
        · simp only [Go.forEachGo, hstep]; exact e1
        · rw [e2, hflat, writeAt_writeAt _ _ _ _ (by omega)]
        · rw [e3, hflat, List.length_append]; omega
      · intro hno
        rw [hflat, List.length_append] at hno
        simp only [Go.forEachGo, hstep]
        exact ibad (by omega)
    · constructor
      · intro hfit; rw [hflat, List.length_append] at hfit; omega
      · intro _
        have hp' := sbad h1
        simp only [Go.forEachGo, writeBodyS64, bindVS64, ho, if_true, hp']

theorem seq_nextS64 {σ ρ : Type} (a b : σ → Go.Out σ ρ) (s s' : σ) (h : a s = .next s') : Go.seq a b s = b s' := by
  simp [Go.seq, h]
theorem seq_panicS64 {σ ρ : Type} (a b : σ → Go.Out σ ρ) (s : σ) (h : a s = .panic) : Go.seq a b s = .panic := by
  simp [Go.seq, h]

/-- **`(*Encoder).EncodePackedUInt64` of the source refines `Enc.step (.packedVarint tag vs)`** -/
theorem EncodePackedSInt64_refines (fuel : Nat) (hf : 10 ≤ fuel) (p : Bytes) (off tag : BitVec 64) (vs : List (BitVec 64))
    (hp : p.length < 2 ^ 62) (hoff : off.toNat ≤ p.length) (hvs : vs.length < 2 ^ 59) :
    match ({ buf := p, off := off.toNat } : Enc).step (.packedZigzag64 tag.toNat (vs.map (·.toInt))) with
    | .ok e' => ∃ s, Encoder_EncodePackedSInt64 fuel p off tag vs = .ret () s ∧ s.e_p = e'.buf ∧ s.e_offset.toNat = e'.off
    | .panic => Encoder_EncodePackedSInt64 fuel p off tag vs = .panic
    | .err _ => False := by
  have hp63 : p.length < 2 ^ 63 := by omega
  unfold Encoder_EncodePackedSInt64 Encoder_EncodePackedSInt64.body
  cases hvs0 : vs with
  | nil => simp [Go.seq, Enc.step]
  | cons x0 r0 =>
    rw [← hvs0]
    have hne : (vs.map (·.toInt)).isEmpty = false := by rw [hvs0]; rfl
    have hlen0 : ((BitVec.ofNat 64 vs.length) == 0#64) = false := by
      have : 0 < vs.length := by rw [hvs0]; simp
      have h2 : (BitVec.ofNat 64 vs.length).toNat = vs.length := by simp; omega
      have : BitVec.ofNat 64 vs.length ≠ 0#64 := fun h => by rw [h] at h2; simp at h2; omega
      simp [this]
    simp only [Enc.step, hne, Bool.false_eq_true, if_false, EncOp.wire]
    -- abbreviations
    generalize hT : encTag tag.toNat wtLen = T
    generalize hS : sumSizes sizeOfZigZag (vs.map (·.toInt)) = S
    have hW : ((vs.map (·.toInt)).map encZigZag64).flatten = flatS64 vs := rfl
    rw [hW]
    have hwt : wtLen = (2#64).toNat := rfl
    -- first statement (empty test) and the key
    obtain ⟨s1ok, s1bad⟩ := stage (EncodeTag fuel (p.drop off.toNat) tag 2#64) (·.dest) p off T hp63 hoff
      (fun h => by rw [← hT, hwt] at h ⊢; exact EncodeTag_ok fuel _ tag 2#64 hf h)
      (fun h => by rw [← hT, hwt] at h; exact EncodeTag_short fuel _ tag 2#64 hf h)
    simp only [Go.seq, Go.skip, hlen0, Bool.false_eq_true, if_false, hoff, if_true]
    by_cases h1 : off.toNat + T.length ≤ p.length
    · obtain ⟨c1, hc1, hw1, ha1⟩ := s1ok h1
      have hlen1 : (writeAt p off.toNat T).length = p.length := writeAt_length h1
      simp only [hc1, hw1]
      -- the sizes loop
      obtain ⟨s3, hl3, e3p, e3o, e3v, e3t, e3s⟩ := sizes_loopS64 vs
        { e_p := writeAt p off.toNat T, e_offset := off + BitVec.ofNat 64 T.length, tag := tag, vs := vs, sz := 0#64 } (by simp; omega)
      have hf3 : Go.forEach (fun s : ESS64 => s.vs) (fun s x => { s with v := x }) (fun s => Go.Out.next { s with sz := (s.sz + (SizeOfZigZag s.v)) })
          { e_p := writeAt p off.toNat T, e_offset := off + BitVec.ofNat 64 T.length, tag := tag, vs := vs, sz := 0#64 } = .next s3 := hl3
      simp only [hf3]
      simp only at e3p e3o e3v e3t e3s
      have hsz : s3.sz.toNat = S := by rw [e3s, hS]; simp
      -- the length prefix
      obtain ⟨s4ok, s4bad⟩ := stage (EncodeVarint fuel (s3.e_p.drop s3.e_offset.toNat) s3.sz) (·.dest) s3.e_p s3.e_offset (encVarint S)
        (by rw [e3p, hlen1]; exact hp63) (by rw [e3p, e3o, hlen1, ha1]; exact h1)
        (fun h => by rw [← hsz] at h ⊢; exact EncodeVarint_ok fuel _ s3.sz hf h) (fun h => by rw [← hsz] at h; exact EncodeVarint_short fuel _ s3.sz hf h)
      have hle3 : s3.e_offset.toNat ≤ s3.e_p.length := by rw [e3p, e3o, hlen1, ha1]; exact h1
      simp only [hle3, if_true]
      by_cases h2 : off.toNat + T.length + (encVarint S).length ≤ p.length
      · obtain ⟨c2, hc2, hw2, ha2⟩ := s4ok (by rw [e3p, e3o, hlen1, ha1]; exact h2)
        simp only [hc2, hw2]
        simp only [e3p, e3o, ha1] at hw2 ha2
        have hq2 : writeAt (writeAt p off.toNat T) (off.toNat + T.length) (encVarint S) = writeAt p off.toNat (T ++ encVarint S) :=
          writeAt_writeAt p off.toNat _ _ h2
        have hlen2 : (writeAt p off.toNat (T ++ encVarint S)).length = p.length := writeAt_length (by simp only [List.length_append]; omega)
        -- the elements
        have e5p : ({ s3 with e_p := writeAt s3.e_p s3.e_offset.toNat (encVarint S), e_offset := s3.e_offset + BitVec.ofNat 64 (encVarint S).length } : ESS64).e_p = writeAt p off.toNat (T ++ encVarint S) := by
          show writeAt s3.e_p s3.e_offset.toNat (encVarint S) = _
          rw [e3p, e3o, ha1, hq2]
        have e5o : ({ s3 with e_p := writeAt s3.e_p s3.e_offset.toNat (encVarint S), e_offset := s3.e_offset + BitVec.ofNat 64 (encVarint S).length } : ESS64).e_offset.toNat = off.toNat + T.length + (encVarint S).length := by
          show (s3.e_offset + BitVec.ofNat 64 (encVarint S).length).toNat = _
          rw [e3o, ha2]
        obtain ⟨wok, wbad⟩ := write_loopS64 fuel hf vs ({ s3 with e_p := writeAt s3.e_p s3.e_offset.toNat (encVarint S), e_offset := s3.e_offset + BitVec.ofNat 64 (encVarint S).length } : ESS64) (by rw [e5p, hlen2]; exact hp) (by rw [e5p, e5o, hlen2]; exact h2)
        rw [e5p, e5o, hlen2] at wok wbad
        have hoffl : off.toNat + T.length + (encVarint S).length = off.toNat + (T ++ encVarint S).length := by
          simp only [List.length_append]; omega
        have hfe : ∀ st : ESS64, Go.forEach (fun s : ESS64 => s.vs) (fun s x => { s with v := x }) (writeBodyS64 fuel) st = Go.forEachGo bindVS64 (writeBodyS64 fuel) st.vs st := fun _ => rfl
        by_cases h3 : off.toNat + T.length + (encVarint S).length + (flatS64 vs).length ≤ p.length
        · obtain ⟨s6, hl6, e6p, e6o⟩ := wok h3
          have hst : ({ buf := p, off := off.toNat } : Enc).store (T ++ encVarint S ++ flatS64 vs) =
              .ok { buf := writeAt p off.toNat (T ++ encVarint S ++ flatS64 vs), off := off.toNat + (T ++ encVarint S ++ flatS64 vs).length } :=
            store_ok p _ _ (by simp only [List.length_append]; omega)
          simp only [hst, EncOut.ofRes]
          unfold bindVS64 writeBodyS64 at hl6
          rw [e3v] at hl6
          simp only [Go.forEach, e3v]
          refine ⟨s6, ?_, ?_, ?_⟩
          · first | erw [hl6] | simp only [hl6] | (rw [show _ = _ from hl6])
          · rw [e6p, hoffl, writeAt_writeAt p off.toNat _ _ (by simp only [List.length_append]; omega)]
          · rw [e6o]; simp only [List.length_append]; omega
        · have hst : ({ buf := p, off := off.toNat } : Enc).store (T ++ encVarint S ++ flatS64 vs) = .panic :=
            store_panic p _ _ (by simp only [List.length_append]; omega)
          simp only [hst, EncOut.ofRes]
          have hb := wbad h3
          unfold bindVS64 writeBodyS64 at hb
          rw [e3v] at hb
          simp only [Go.forEach, e3v]
          first | erw [hb] | simp only [hb]
      · have hst : ({ buf := p, off := off.toNat } : Enc).store (T ++ encVarint S ++ flatS64 vs) = .panic :=
          store_panic p _ _ (by simp only [List.length_append]; omega)
        simp only [hst, EncOut.ofRes]
        rw [s4bad (by rw [e3p, e3o, hlen1, ha1]; exact h2)]
    · have hst : ({ buf := p, off := off.toNat } : Enc).store (T ++ encVarint S ++ flatS64 vs) = .panic :=
        store_panic p _ _ (by simp only [List.length_append]; omega)
      simp only [hst, EncOut.ofRes, s1bad h1]

/-! ## `EncodePackedSInt32` (sizes by `SizeOfZigZag(uint64(v))` of the sign-extended element, elements by `EncodeZigZag32`) -/

abbrev ESS32 := Encoder_EncodePackedSInt32.St

def sizesBodyS32 : ESS32 → Go.Out ESS32 Unit := (fun s => .next { s with sz := (s.sz + (SizeOfZigZag (BitVec.signExtend 64 s.v))) })
def bindVS32 : ESS32 → BitVec 32 → ESS32 := (fun s x => { s with v := x })

theorem sizeOfVarint_le10S32 (x : BitVec 32) : (SizeOfZigZag (BitVec.signExtend 64 x)).toNat = sizeOfZigZag x.toInt ∧ sizeOfZigZag x.toInt ≤ 10 := by
  have hx : (BitVec.signExtend 64 x).toInt = x.toInt := BitVec.toInt_signExtend_of_le (by omega)
  refine ⟨by rw [sizeOfZigZag_src, hx], ?_⟩
  unfold sizeOfZigZag
  rw [sizeOfVarint_eq_length]
  have h32 := zigzag_lt_two32 (inI32_toInt x)
  exact encVarint_length_le_10 (by unfold two32 at h32; unfold two64; omega)

/-- the first loop: `sz` ends up as the sum of the elements' varint sizes -/
theorem sizes_loopS32 : ∀ (vs : List (BitVec 32)) (s : ESS32), s.sz.toNat + 10 * vs.length < 2 ^ 63 →
    ∃ s', Go.forEachGo bindVS32 sizesBodyS32 vs s = .next s' ∧ s'.e_p = s.e_p ∧ s'.e_offset = s.e_offset ∧ s'.vs = s.vs ∧ s'.tag = s.tag ∧
      s'.sz.toNat = s.sz.toNat + sumSizes sizeOfZigZag (vs.map (·.toInt)) := by
  intro vs
  induction vs with
  | nil => intro s _; exact ⟨s, rfl, rfl, rfl, rfl, rfl, by simp [sumSizes]⟩
  | cons x r ih =>
    intro s hb
    obtain ⟨hx, hx10⟩ := sizeOfVarint_le10S32 x
    simp only [List.length_cons] at hb
    have hadd : (s.sz + SizeOfZigZag (BitVec.signExtend 64 x)).toNat = s.sz.toNat + sizeOfZigZag x.toInt := by
      rw [BitVec.toNat_add, hx, Nat.mod_eq_of_lt (by omega)]
    obtain ⟨s', h1, h2, h3, h4, h5, h6⟩ := ih { s with v := x, sz := s.sz + SizeOfZigZag (BitVec.signExtend 64 x) } (by simp only; rw [hadd]; omega)
    refine ⟨s', ?_, h2, h3, h4, h5, ?_⟩
    · simp only [Go.forEachGo, bindVS32, sizesBodyS32]; exact h1
    · rw [h6]; simp only [hadd, List.map_cons, sumSizes, List.sum_cons]; omega

def writeBodyS32 (fuel : Nat) : ESS32 → Go.Out ESS32 Unit :=
  (fun s => if ((s.e_offset).toNat ≤ s.e_p.length) then match (EncodeZigZag32 fuel (s.e_p.drop (s.e_offset).toNat) s.v) with | .ret r c => .next { s with e_p := s.e_p.take (s.e_offset).toNat ++ c.dest, e_offset := (s.e_offset + r) } | .next _ => .panic | .panic => .panic | .diverge => .diverge else .panic)

def flatS32 (vs : List (BitVec 32)) : Bytes := ((vs.map (·.toInt)).map encZigZag32).flatten

/-- the second loop: the elements' varints one after the other at the cursor, or a panic when they do not all fit -/
theorem write_loopS32 (fuel : Nat) (hf : 10 ≤ fuel) : ∀ (vs : List (BitVec 32)) (s : ESS32), s.e_p.length < 2 ^ 62 → s.e_offset.toNat ≤ s.e_p.length →
    (s.e_offset.toNat + (flatS32 vs).length ≤ s.e_p.length →
      ∃ s', Go.forEachGo bindVS32 (writeBodyS32 fuel) vs s = .next s' ∧ s'.e_p = writeAt s.e_p s.e_offset.toNat (flatS32 vs) ∧
        s'.e_offset.toNat = s.e_offset.toNat + (flatS32 vs).length) ∧
    (¬ s.e_offset.toNat + (flatS32 vs).length ≤ s.e_p.length → Go.forEachGo bindVS32 (writeBodyS32 fuel) vs s = .panic) := by
  intro vs
  induction vs with
  | nil =>
    intro s hp ho
    refine ⟨fun _ => ⟨s, rfl, by simp [flatS32, writeAt], by simp [flatS32]⟩, fun h => by simp [flatS32] at h; omega⟩
  | cons x r ih =>
    intro s hp ho
    have hflat : flatS32 (x :: r) = encZigZag32 x.toInt ++ flatS32 r := by simp [flatS32]
    obtain ⟨sok, sbad⟩ := stage (EncodeZigZag32 fuel (s.e_p.drop s.e_offset.toNat) x) (·.dest) s.e_p s.e_offset (encZigZag32 x.toInt) (by omega) ho
      (fun h => EncodeZigZag32_ok fuel _ x hf h) (fun h => EncodeZigZag32_short fuel _ x hf h)
    by_cases h1 : s.e_offset.toNat + (encZigZag32 x.toInt).length ≤ s.e_p.length
    · obtain ⟨c, hc, hw, ha⟩ := sok h1
      have hstep : writeBodyS32 fuel (bindVS32 s x) = .next { (bindVS32 s x) with e_p := writeAt s.e_p s.e_offset.toNat (encZigZag32 x.toInt), e_offset := s.e_offset + BitVec.ofNat 64 (encZigZag32 x.toInt).length } := by
        simp only [writeBodyS32, bindVS32, ho, if_true, hc, hw]
      have hlen1 : (writeAt s.e_p s.e_offset.toNat (encZigZag32 x.toInt)).length = s.e_p.length := writeAt_length h1
      obtain ⟨iok, ibad⟩ := ih { (bindVS32 s x) with e_p := writeAt s.e_p s.e_offset.toNat (encZigZag32 x.toInt), e_offset := s.e_offset + BitVec.ofNat 64 (encZigZag32 x.toInt).length }
        (by simp only; rw [hlen1]; exact hp) (by simp only; rw [hlen1, ha]; exact h1)
      simp only [hlen1, ha] at iok ibad
      constructor
      · intro hfit
        rw [hflat, List.length_append] at hfit
        obtain ⟨s', e1, e2, e3⟩ := iok (by omega)
        refine ⟨s', ?_, ?_, ?_⟩
        · simp only [Go.forEachGo, hstep]; exact e1
        · rw [e2, hflat, writeAt_writeAt _ _ _ _ (by omega)]
        · rw [e3, hflat, List.length_append]; omega
      · intro hno
        rw [hflat, List.length_append] at hno
        simp only [Go.forEachGo, hstep]
        exact ibad (by omega)
    · constructor
      · intro hfit; rw [hflat, List.length_append] at hfit; omega
      · intro _
        have hp' := sbad h1
        simp only [Go.forEachGo, writeBodyS32, bindVS32, ho, if_true, hp']

theorem seq_nextS32 {σ ρ : Type} (a b : σ → Go.Out σ ρ) (s s' : σ) (h : a s = .next s') : Go.seq a b s = b s' := by
  simp [Go.seq, h]
theorem seq_panicS32 {σ ρ : Type} (a b : σ → Go.Out σ ρ) (s : σ) (h : a s = .panic) : Go.seq a b s = .panic := by
  simp [Go.seq, h]

/-- **`(*Encoder).EncodePackedUInt64` of the source refines `Enc.step (.packedVarint tag vs)`** -/
theorem EncodePackedSInt32_refines (fuel : Nat) (hf : 10 ≤ fuel) (p : Bytes) (off tag : BitVec 64) (vs : List (BitVec 32))
    (hp : p.length < 2 ^ 62) (hoff : off.toNat ≤ p.length) (hvs : vs.length < 2 ^ 59) :
    match ({ buf := p, off := off.toNat } : Enc).step (.packedZigzag32 tag.toNat (vs.map (·.toInt))) with
    | .ok e' => ∃ s, Encoder_EncodePackedSInt32 fuel p off tag vs = .ret () s ∧ s.e_p = e'.buf ∧ s.e_offset.toNat = e'.off
    | .panic => Encoder_EncodePackedSInt32 fuel p off tag vs = .panic
    | .err _ => False := by
  have hp63 : p.length < 2 ^ 63 := by omega
  unfold Encoder_EncodePackedSInt32 Encoder_EncodePackedSInt32.body
  cases hvs0 : vs with
  | nil => simp [Go.seq, Enc.step]
  | cons x0 r0 =>
    rw [← hvs0]
    have hne : (vs.map (·.toInt)).isEmpty = false := by rw [hvs0]; rfl
    have hlen0 : ((BitVec.ofNat 64 vs.length) == 0#64) = false := by
      have : 0 < vs.length := by rw [hvs0]; simp
      have h2 : (BitVec.ofNat 64 vs.length).toNat = vs.length := by simp; omega
      have : BitVec.ofNat 64 vs.length ≠ 0#64 := fun h => by rw [h] at h2; simp at h2; omega
      simp [this]
    simp only [Enc.step, hne, Bool.false_eq_true, if_false, EncOp.wire]
    -- abbreviations
    generalize hT : encTag tag.toNat wtLen = T
    generalize hS : sumSizes sizeOfZigZag (vs.map (·.toInt)) = S
    have hW : ((vs.map (·.toInt)).map encZigZag32).flatten = flatS32 vs := rfl
    rw [hW]
    have hwt : wtLen = (2#64).toNat := rfl
    -- first statement (empty test) and the key
    obtain ⟨s1ok, s1bad⟩ := stage (EncodeTag fuel (p.drop off.toNat) tag 2#64) (·.dest) p off T hp63 hoff
      (fun h => by rw [← hT, hwt] at h ⊢; exact EncodeTag_ok fuel _ tag 2#64 hf h)
      (fun h => by rw [← hT, hwt] at h; exact EncodeTag_short fuel _ tag 2#64 hf h)
    simp only [Go.seq, Go.skip, hlen0, Bool.false_eq_true, if_false, hoff, if_true]
    by_cases h1 : off.toNat + T.length ≤ p.length
    · obtain ⟨c1, hc1, hw1, ha1⟩ := s1ok h1
      have hlen1 : (writeAt p off.toNat T).length = p.length := writeAt_length h1
      simp only [hc1, hw1]
      -- the sizes loop
      obtain ⟨s3, hl3, e3p, e3o, e3v, e3t, e3s⟩ := sizes_loopS32 vs
        { e_p := writeAt p off.toNat T, e_offset := off + BitVec.ofNat 64 T.length, tag := tag, vs := vs, sz := 0#64 } (by simp; omega)
      have hf3 : Go.forEach (fun s : ESS32 => s.vs) (fun s x => { s with v := x }) (fun s => Go.Out.next { s with sz := (s.sz + (SizeOfZigZag (BitVec.signExtend 64 s.v))) })
          { e_p := writeAt p off.toNat T, e_offset := off + BitVec.ofNat 64 T.length, tag := tag, vs := vs, sz := 0#64 } = .next s3 := hl3
      simp only [hf3]
      simp only at e3p e3o e3v e3t e3s
      have hsz : s3.sz.toNat = S := by rw [e3s, hS]; simp
      -- the length prefix
      obtain ⟨s4ok, s4bad⟩ := stage (EncodeVarint fuel (s3.e_p.drop s3.e_offset.toNat) s3.sz) (·.dest) s3.e_p s3.e_offset (encVarint S)
        (by rw [e3p, hlen1]; exact hp63) (by rw [e3p, e3o, hlen1, ha1]; exact h1)
        (fun h => by rw [← hsz] at h ⊢; exact EncodeVarint_ok fuel _ s3.sz hf h) (fun h => by rw [← hsz] at h; exact EncodeVarint_short fuel _ s3.sz hf h)
      have hle3 : s3.e_offset.toNat ≤ s3.e_p.length := by rw [e3p, e3o, hlen1, ha1]; exact h1
      simp only [hle3, if_true]
      by_cases h2 : off.toNat + T.length + (encVarint S).length ≤ p.length
      · obtain ⟨c2, hc2, hw2, ha2⟩ := s4ok (by rw [e3p, e3o, hlen1, ha1]; exact h2)
        simp only [hc2, hw2]
        simp only [e3p, e3o, ha1] at hw2 ha2
        have hq2 : writeAt (writeAt p off.toNat T) (off.toNat + T.length) (encVarint S) = writeAt p off.toNat (T ++ encVarint S) :=
          writeAt_writeAt p off.toNat _ _ h2
        have hlen2 : (writeAt p off.toNat (T ++ encVarint S)).length = p.length := writeAt_length (by simp only [List.length_append]; omega)
        -- the elements
        have e5p : ({ s3 with e_p := writeAt s3.e_p s3.e_offset.toNat (encVarint S), e_offset := s3.e_offset + BitVec.ofNat 64 (encVarint S).length } : ESS32).e_p = writeAt p off.toNat (T ++ encVarint S) := by
          show writeAt s3.e_p s3.e_offset.toNat (encVarint S) = _
          rw [e3p, e3o, ha1, hq2]
        have e5o : ({ s3 with e_p := writeAt s3.e_p s3.e_offset.toNat (encVarint S), e_offset := s3.e_offset + BitVec.ofNat 64 (encVarint S).length } : ESS32).e_offset.toNat = off.toNat + T.length + (encVarint S).length := by
          show (s3.e_offset + BitVec.ofNat 64 (encVarint S).length).toNat = _
          rw [e3o, ha2]
        obtain ⟨wok, wbad⟩ := write_loopS32 fuel hf vs ({ s3 with e_p := writeAt s3.e_p s3.e_offset.toNat (encVarint S), e_offset := s3.e_offset + BitVec.ofNat 64 (encVarint S).length } : ESS32) (by rw [e5p, hlen2]; exact hp) (by rw [e5p, e5o, hlen2]; exact h2)
        rw [e5p, e5o, hlen2] at wok wbad
        have hoffl : off.toNat + T.length + (encVarint S).length = off.toNat + (T ++ encVarint S).length := by
          simp only [List.length_append]; omega
        have hfe : ∀ st : ESS32, Go.forEach (fun s : ESS32 => s.vs) (fun s x => { s with v := x }) (writeBodyS32 fuel) st = Go.forEachGo bindVS32 (writeBodyS32 fuel) st.vs st := fun _ => rfl
        by_cases h3 : off.toNat + T.length + (encVarint S).length + (flatS32 vs).length ≤ p.length
        · obtain ⟨s6, hl6, e6p, e6o⟩ := wok h3
          have hst : ({ buf := p, off := off.toNat } : Enc).store (T ++ encVarint S ++ flatS32 vs) =
              .ok { buf := writeAt p off.toNat (T ++ encVarint S ++ flatS32 vs), off := off.toNat + (T ++ encVarint S ++ flatS32 vs).length } :=
            store_ok p _ _ (by simp only [List.length_append]; omega)
          simp only [hst, EncOut.ofRes]
          unfold bindVS32 writeBodyS32 at hl6
          rw [e3v] at hl6
          simp only [Go.forEach, e3v]
          refine ⟨s6, ?_, ?_, ?_⟩
          · first | erw [hl6] | simp only [hl6] | (rw [show _ = _ from hl6])
          · rw [e6p, hoffl, writeAt_writeAt p off.toNat _ _ (by simp only [List.length_append]; omega)]
          · rw [e6o]; simp only [List.length_append]; omega
        · have hst : ({ buf := p, off := off.toNat } : Enc).store (T ++ encVarint S ++ flatS32 vs) = .panic :=
            store_panic p _ _ (by simp only [List.length_append]; omega)
          simp only [hst, EncOut.ofRes]
          have hb := wbad h3
          unfold bindVS32 writeBodyS32 at hb
          rw [e3v] at hb
          simp only [Go.forEach, e3v]
          first | erw [hb] | simp only [hb]
      · have hst : ({ buf := p, off := off.toNat } : Enc).store (T ++ encVarint S ++ flatS32 vs) = .panic :=
          store_panic p _ _ (by simp only [List.length_append]; omega)
        simp only [hst, EncOut.ofRes]
        rw [s4bad (by rw [e3p, e3o, hlen1, ha1]; exact h2)]
    · have hst : ({ buf := p, off := off.toNat } : Enc).store (T ++ encVarint S ++ flatS32 vs) = .panic :=
        store_panic p _ _ (by simp only [List.length_append]; omega)
      simp only [hst, EncOut.ofRes, s1bad h1]

/-! ## `EncodePackedBool`: the element count as length prefix, one indexed store per element -/

abbrev EB := Encoder_EncodePackedBool.St
def bindB : EB → Bool → EB := (fun s x => { s with v := x })
def boolBody : EB → Go.Out EB Unit :=
  (Go.seq (fun s => if s.v then (fun s => if ((s.e_offset).toNat < s.e_p.length) then .next { s with e_p := Go.wr s.e_p (s.e_offset).toNat 1#8 } else .panic) s else (fun s => if ((s.e_offset).toNat < s.e_p.length) then .next { s with e_p := Go.wr s.e_p (s.e_offset).toNat 0#8 } else .panic) s)
    (fun s => .next { s with e_offset := (s.e_offset + 1#64) }))

theorem wr_bool (q : Bytes) (i : Nat) (x : Bool) (h : i < q.length) :
    Go.wr q i (if x then 1#8 else 0#8) = writeAt q i [boolByte x] := by
  unfold Go.wr
  rw [set_writeAt _ _ _ h]
  cases x <;> rfl

/-- the element loop of `EncodePackedBool`: one STORED byte per element (0x00 for `false` too), or a panic when they do not fit -/
theorem bool_loop : ∀ (vs : List Bool) (s : EB), s.e_p.length < 2 ^ 62 → s.e_offset.toNat ≤ s.e_p.length →
    (s.e_offset.toNat + vs.length ≤ s.e_p.length →
      ∃ s', Go.forEachGo bindB boolBody vs s = .next s' ∧ s'.e_p = writeAt s.e_p s.e_offset.toNat (vs.map boolByte) ∧
        s'.e_offset.toNat = s.e_offset.toNat + vs.length) ∧
    (¬ s.e_offset.toNat + vs.length ≤ s.e_p.length → Go.forEachGo bindB boolBody vs s = .panic) := by
  intro vs
  induction vs with
  | nil =>
    intro s hp ho
    exact ⟨fun _ => ⟨s, rfl, by simp [writeAt], by simp⟩, fun h => by simp at h; omega⟩
  | cons x r ih =>
    intro s hp ho
    by_cases h1 : s.e_offset.toNat < s.e_p.length
    · have hadv : (s.e_offset + 1#64).toNat = s.e_offset.toNat + 1 := by
        rw [BitVec.toNat_add]; simp; omega
      have hstep : boolBody (bindB s x) = .next { (bindB s x) with e_p := writeAt s.e_p s.e_offset.toNat [boolByte x], e_offset := s.e_offset + 1#64 } := by
        cases x
        · simp only [boolBody, bindB, Go.seq, Bool.false_eq_true, if_false, h1, if_true]
          have := wr_bool s.e_p s.e_offset.toNat false h1
          simp only [Bool.false_eq_true, if_false] at this
          rw [this]
        · simp only [boolBody, bindB, Go.seq, if_true, h1]
          have := wr_bool s.e_p s.e_offset.toNat true h1
          simp only [if_true] at this
          rw [this]
      have hlen1 : (writeAt s.e_p s.e_offset.toNat [boolByte x]).length = s.e_p.length := writeAt_length (by simp; omega)
      obtain ⟨iok, ibad⟩ := ih { (bindB s x) with e_p := writeAt s.e_p s.e_offset.toNat [boolByte x], e_offset := s.e_offset + 1#64 }
        (by simp only; rw [hlen1]; exact hp) (by simp only; rw [hlen1, hadv]; omega)
      simp only [hlen1, hadv] at iok ibad
      constructor
      · intro hfit
        simp only [List.length_cons] at hfit
        obtain ⟨s', e1, e2, e3⟩ := iok (by omega)
        refine ⟨s', ?_, ?_, ?_⟩
        · simp only [Go.forEachGo, hstep]; exact e1
        · rw [e2]
          have := writeAt_writeAt s.e_p s.e_offset.toNat [boolByte x] (r.map boolByte) (by simp; omega)
          simpa using this
        · rw [e3]; simp only [List.length_cons]; omega
      · intro hno
        simp only [List.length_cons] at hno
        simp only [Go.forEachGo, hstep]
        exact ibad (by omega)
    · constructor
      · intro hfit; simp only [List.length_cons] at hfit; omega
      · intro _
        cases x <;> simp [Go.forEachGo, boolBody, bindB, Go.seq, h1]

/-- **`(*Encoder).EncodePackedBool` of the source refines `Enc.step (.packedBool tag vs)`**: nothing for an empty list;
    otherwise key, the element count as the length prefix, and one stored byte per element -/
theorem EncodePackedBool_refines (fuel : Nat) (hf : 10 ≤ fuel) (p : Bytes) (off tag : BitVec 64) (vs : List Bool)
    (hp : p.length < 2 ^ 62) (hoff : off.toNat ≤ p.length) (hvs : vs.length < 2 ^ 62) :
    match ({ buf := p, off := off.toNat } : Enc).step (.packedBool tag.toNat vs) with
    | .ok e' => ∃ s, Encoder_EncodePackedBool fuel p off tag vs = .ret () s ∧ s.e_p = e'.buf ∧ s.e_offset.toNat = e'.off
    | .panic => Encoder_EncodePackedBool fuel p off tag vs = .panic
    | .err _ => False := by
  have hp63 : p.length < 2 ^ 63 := by omega
  unfold Encoder_EncodePackedBool Encoder_EncodePackedBool.body
  cases hvs0 : vs with
  | nil => simp [Go.seq, Enc.step]
  | cons x0 r0 =>
    rw [← hvs0]
    have hne : vs.isEmpty = false := by rw [hvs0]; rfl
    obtain ⟨N, hNdef, hN⟩ : ∃ N : BitVec 64, N = BitVec.ofNat 64 vs.length ∧ N.toNat = vs.length := ⟨_, rfl, by simp; omega⟩
    have hlen0 : (N == 0#64) = false := by
      have hpos : 0 < vs.length := by rw [hvs0]; simp
      have : N ≠ 0#64 := fun h => by rw [h] at hN; simp at hN; omega
      simp [this]
    simp only [Enc.step, hne, Bool.false_eq_true, if_false, EncOp.wire]
    generalize hT : encTag tag.toNat wtLen = T
    generalize hS : encVarint vs.length = L
    have hwt : wtLen = (2#64).toNat := rfl
    obtain ⟨s1ok, s1bad⟩ := stage (EncodeTag fuel (p.drop off.toNat) tag 2#64) (·.dest) p off T hp63 hoff
      (fun h => by rw [← hT, hwt] at h ⊢; exact EncodeTag_ok fuel _ tag 2#64 hf h)
      (fun h => by rw [← hT, hwt] at h; exact EncodeTag_short fuel _ tag 2#64 hf h)
    simp only [Go.seq, Go.skip, hlen0, Bool.false_eq_true, if_false, hoff, if_true, ← hNdef]
    by_cases h1 : off.toNat + T.length ≤ p.length
    · obtain ⟨c1, hc1, hw1, ha1⟩ := s1ok h1
      have hlen1 : (writeAt p off.toNat T).length = p.length := writeAt_length h1
      obtain ⟨s2ok, s2bad⟩ := stage (EncodeVarint fuel ((writeAt p off.toNat T).drop (off + BitVec.ofNat 64 T.length).toNat) N)
        (·.dest) (writeAt p off.toNat T) (off + BitVec.ofNat 64 T.length) L
        (by rw [hlen1]; exact hp63) (by rw [hlen1, ha1]; exact h1)
        (fun h => by rw [← hS] at h ⊢; have := EncodeVarint_ok fuel _ N hf (by rw [hN]; exact h); rw [hN] at this; exact this)
        (fun h => by rw [← hS] at h; exact EncodeVarint_short fuel _ N hf (by rw [hN]; exact h))
      simp only [hc1, hw1, hlen1, ha1, h1, if_true, ← hNdef]
      by_cases h2 : off.toNat + T.length + L.length ≤ p.length
      · obtain ⟨c2, hc2, hw2, ha2⟩ := s2ok (by rw [ha1, hlen1]; exact h2)
        simp only [ha1] at hc2 hw2 ha2
        simp only [hc2, hw2]
        have hq2 : writeAt (writeAt p off.toNat T) (off.toNat + T.length) L = writeAt p off.toNat (T ++ L) := writeAt_writeAt p off.toNat _ _ h2
        have hlen2 : (writeAt p off.toNat (T ++ L)).length = p.length := writeAt_length (by simp only [List.length_append]; omega)
        obtain ⟨wok, wbad⟩ := bool_loop vs
          ({ e_p := writeAt (writeAt p off.toNat T) (off.toNat + T.length) L, e_offset := off + BitVec.ofNat 64 T.length + BitVec.ofNat 64 L.length, tag := tag, vs := vs } : EB)
          (by simp only; rw [hq2, hlen2]; exact hp) (by simp only; rw [hq2, hlen2, ha2]; exact h2)
        simp only [hq2, hlen2, ha2] at wok wbad
        have hoffl : off.toNat + T.length + L.length = off.toNat + (T ++ L).length := by simp only [List.length_append]; omega
        by_cases h3 : off.toNat + T.length + L.length + vs.length ≤ p.length
        · obtain ⟨s6, hl6, e6p, e6o⟩ := wok h3
          have hst : ({ buf := p, off := off.toNat } : Enc).store (T ++ L ++ vs.map boolByte) =
              .ok { buf := writeAt p off.toNat (T ++ L ++ vs.map boolByte), off := off.toNat + (T ++ L ++ vs.map boolByte).length } :=
            store_ok p _ _ (by simp only [List.length_append, List.length_map]; omega)
          simp only [hst, EncOut.ofRes]
          unfold bindB boolBody at hl6
          simp only [Go.forEach, hq2]
          refine ⟨s6, ?_, ?_, ?_⟩
          · first | erw [hl6] | simp only [hl6]
          · rw [e6p, hoffl, writeAt_writeAt p off.toNat _ _ (by simp only [List.length_append, List.length_map]; omega)]
          · rw [e6o]; simp only [List.length_append, List.length_map]; omega
        · have hst : ({ buf := p, off := off.toNat } : Enc).store (T ++ L ++ vs.map boolByte) = .panic :=
            store_panic p _ _ (by simp only [List.length_append, List.length_map]; omega)
          simp only [hst, EncOut.ofRes]
          have hb := wbad h3
          unfold bindB boolBody at hb
          simp only [Go.forEach, hq2]
          first | erw [hb] | simp only [hb]
      · have hst : ({ buf := p, off := off.toNat } : Enc).store (T ++ L ++ vs.map boolByte) = .panic :=
          store_panic p _ _ (by simp only [List.length_append, List.length_map]; omega)
        simp only [hst, EncOut.ofRes]
        have hb := s2bad (by rw [ha1, hlen1]; exact h2)
        rw [ha1] at hb
        first | rw [hb] | erw [hb] | simp only [hb]
    · have hst : ({ buf := p, off := off.toNat } : Enc).store (T ++ L ++ vs.map boolByte) = .panic :=
        store_panic p _ _ (by simp only [List.length_append, List.length_map]; omega)
      simp only [hst, EncOut.ofRes, s1bad h1]

end Csproto.Bridge.PackedEncFuncs
