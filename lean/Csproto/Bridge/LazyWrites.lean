import Csproto.Generated.Lazy
/-
  Bridge for F15 (C15): which functions of lazyproto write which fields.  The tables every clone
  shares (tag tables, nested decoders, options, pool pointers) are written only while a decoder or a
  result is being constructed, never by decode / accessors / NestedResult(s) / Close — which is the
  "shared tables are read-only" premise of the ownership model.
-/
namespace Csproto.Bridge

/-- fields reachable from more than one goroutine once a Decoder is shared -/
def sharedFields : List String :=
  ["Decoder.pool", "Decoder.filter", "Decoder.maxBuffer", "Decoder.mode",
   "DecodeResult.pool", "DecodeResult.filter", "DecodeResult.flatTags", "DecodeResult.nestedTags",
   "DecodeResult.nestedDecoders", "DecodeResult.nestedDecoders[]", "DecodeResult.maxBuffer", "DecodeResult.unsafe",
   "FieldData.unsafe"]

/-- functions that run before a decoder / result is published (constructors and option setters) -/
def constructors : List String :=
  ["NewDecoder(literal)", "newBaseResult", "newBaseResult(literal)", "clone", "clone(literal)",
   "WithMaxBufferSize", "WithBufferFilterFunc", "WithMode"]

/-- **shared fields are written only by constructors** (checked over the regenerated write table) -/
theorem shared_written_only_by_constructors :
    Generated.lazyFieldWrites.all (fun w => !sharedFields.contains w.1 || constructors.contains w.2) = true := by
  decide

/-- functions that touch per-result state: they all operate on a result the calling goroutine holds -/
def perResultWriters : List String :=
  ["decode", "decodeWithPool", "close", "Close", "trunc", "NestedResult", "NestedResults", "Decode",
   "BoolValues", "StringValues", "UInt32Values", "Int32Values", "SInt32Values", "UInt64Values", "Int64Values",
   "SInt64Values", "Fixed32Values", "Fixed64Values", "Float32Values", "Float64Values"]

/-- every write is either a constructor write or a write to per-result state by one of the
    result-level functions — there is no third kind -/
theorem writes_classified :
    Generated.lazyFieldWrites.all (fun w => constructors.contains w.2 || perResultWriters.contains w.2) = true := by
  decide

/-- **F17 (C15): no package-level state is mutated at run time.**  The ownership model has two kinds of
    locations only: objects a goroutine holds between `Get` and `Put`, and tables that are written by
    constructors and read afterwards.  A package-level variable that some function of lazyproto assigns,
    indexes into, appends to, deletes from, takes the address of, or hands to another function as a map /
    slice / pointer would be a third kind — reachable from every goroutine with no `Put`/`Get` between the
    accesses (variables of `sync` / `sync/atomic` types are synchronised by construction and not listed).  The
    regenerated table of such mutations is empty. -/
theorem no_package_level_state_mutated : Generated.lazyGlobalWrites = [] := by decide

end Csproto.Bridge
