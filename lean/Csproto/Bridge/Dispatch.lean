import Csproto.Generated.Dispatch
/-
  Bridge for the regenerated dispatch facts (F5): the order in which the code probes interfaces and
  what each arm calls is what the models of C19 (nested bridging) and C11 (runtime shim) assume.
-/
namespace Csproto.Bridge

/-- `EncodeNested`: MarshalerTo first (size, key, length, MarshalTo into the buffer), then
    Marshaler (marshal, then EncodeBytes with the marshaled length), else csproto.Marshal. -/
theorem encodeNested_arms_ok : Generated.EncodeNested_arms =
    ["MarshalerTo:Size,EncodeTag,EncodeVarint,.MarshalTo", "Marshaler:.Marshal,.EncodeBytes", "default:Marshal,.EncodeBytes"] := by decide

theorem decodeNested_arms_ok : Generated.DecodeNested_arms = ["Unmarshaler:.Reset,.Unmarshal", "default:Unmarshal"] := by decide

theorem marshal_probes_ok : Generated.Marshal_probes =
    ["Marshaler:.Marshal", "ProtoV1Marshaler:.XXX_Size,.XXX_Marshal", "proto.Message:proto.Marshal"] := by decide

theorem unmarshal_probes_ok : Generated.Unmarshal_probes =
    ["Unmarshaler:.Reset,.Unmarshal", "ProtoV1Unmarshaler:.Reset,.XXX_Unmarshal", "proto.Message:proto.Unmarshal"] := by decide

theorem size_probes_ok : Generated.Size_probes =
    ["Sizer:.Size", "ProtoV1Sizer:.XXX_Size", "proto.Message:proto.Size"] := by decide

end Csproto.Bridge
