import Csproto.Generated.Lazy
import Csproto.Model.Lazy
/-
  Bridge for F9: the accessor table regenerated from lazyproto/fielddata.go (helper used, expected
  wire type, csproto decode function, fast-mode scratch slice) is the table the model's `accessFD`
  implements.
-/
namespace Csproto.Bridge
open Csproto

def allAccs : List Acc := [.bool, .bools, .bytes, .bytess, .fixed32, .fixed32s, .fixed64, .fixed64s, .float32, .float32s,
  .float64, .float64s, .int32, .int32s, .int64, .int64s, .sint32, .sint32s, .sint64, .sint64s, .string, .strings,
  .uint32, .uint32s, .uint64, .uint64s]

/-- expected wire type of the accessor's element type -/
def accWt : Acc → Nat
  | .bool | .bools | .uint32 | .uint32s | .int32 | .int32s | .sint32 | .sint32s
  | .uint64 | .uint64s | .int64 | .int64s | .sint64 | .sint64s => wtVarint
  | .fixed32 | .fixed32s | .float32 | .float32s => wtFixed32
  | .fixed64 | .fixed64s | .float64 | .float64s => wtFixed64
  | .string | .strings | .bytes | .bytess => wtLen

def accPlural : Acc → Bool
  | .bools | .strings | .bytess | .uint32s | .int32s | .sint32s | .uint64s | .int64s | .sint64s
  | .fixed32s | .fixed64s | .float32s | .float64s => true
  | _ => false

def wtGoName (wt : Nat) : String :=
  if wt = wtVarint then "WireTypeVarint" else if wt = wtFixed32 then "WireTypeFixed32"
  else if wt = wtFixed64 then "WireTypeFixed64" else "WireTypeLengthDelimited"

/-- Go method name, csproto decode function used, fast-mode scratch slice -/
def accInfo : Acc → String × String × String
  | .bool => ("BoolValue", "csproto.DecodeVarint", "-")
  | .bools => ("BoolValues", "csproto.DecodeVarint", "boolSlice")
  | .bytes => ("BytesValue", "slices.Clone", "-")
  | .bytess => ("BytesValues", "slices.Clone", "-")
  | .fixed32 => ("Fixed32Value", "csproto.DecodeFixed32", "-")
  | .fixed32s => ("Fixed32Values", "csproto.DecodeFixed32", "uint32Slice")
  | .fixed64 => ("Fixed64Value", "csproto.DecodeFixed64", "-")
  | .fixed64s => ("Fixed64Values", "csproto.DecodeFixed64", "uint64Slice")
  | .float32 => ("Float32Value", "", "-")
  | .float32s => ("Float32Values", "", "float32Slice")
  | .float64 => ("Float64Value", "", "-")
  | .float64s => ("Float64Values", "", "float64Slice")
  | .int32 => ("Int32Value", "csproto.DecodeVarint", "-")
  | .int32s => ("Int32Values", "csproto.DecodeVarint", "int32Slice")
  | .int64 => ("Int64Value", "csproto.DecodeVarint", "-")
  | .int64s => ("Int64Values", "csproto.DecodeVarint", "int64Slice")
  | .sint32 => ("SInt32Value", "csproto.DecodeVarint", "-")
  | .sint32s => ("SInt32Values", "csproto.DecodeVarint", "int32Slice")
  | .sint64 => ("SInt64Value", "csproto.DecodeZigZag64", "-")
  | .sint64s => ("SInt64Values", "csproto.DecodeZigZag64", "int64Slice")
  | .string => ("StringValue", "", "-")
  | .strings => ("StringValues", "", "stringSlice")
  | .uint32 => ("UInt32Value", "csproto.DecodeVarint", "-")
  | .uint32s => ("UInt32Values", "csproto.DecodeVarint", "uint32Slice")
  | .uint64 => ("UInt64Value", "csproto.DecodeVarint", "-")
  | .uint64s => ("UInt64Values", "csproto.DecodeVarint", "uint64Slice")

/-- one row of the table, assembled from `accInfo`, `accPlural` and — for the wire-type column —
    `accWt`, the very function the mismatch theorem below is about -/
def accRow (a : Acc) : String :=
  let (name, dec, scratch) := accInfo a
  if a = .bytess then name ++ ":-:-:" ++ dec ++ ":" ++ scratch
  else name ++ ":" ++ (if accPlural a then "sliceValue" else "scalarValue") ++ ":" ++ wtGoName (accWt a) ++ ":" ++ dec ++ ":" ++ scratch

/-- the regenerated table is the expected one, accessor by accessor -/
theorem lazyAccessors_ok : Generated.lazyAccessors = allAccs.map accRow := by decide

/-- the model's accessors reject a wire type that is neither the table's nor (for slices)
    length-delimited — for every accessor of the table -/
theorem accessFD_mismatch (fd : FD) (a : Acc) (hne : fd.data ≠ [])
    (h1 : fd.wt ≠ accWt a) (h2 : fd.wt ≠ wtLen) : accessFD fd a = .mismatch := by
  have hl : fd.data.getLast? ≠ none := by simpa using hne
  have he : ¬ fd.data.isEmpty := by simpa using hne
  cases hlast : fd.data.getLast? with
  | none => exact absurd hlast hl
  | some last =>
    cases a <;> simp_all [accessFD, scalarValue, sliceValue, accWt]

/-- F15b: `(*DecodeResult).close` begins with the unconditional loop that empties the recorded data of every field —
    before the pool, the max buffer size or the filter function are looked at. This is the first step of
    `C14Opts.closeFds` (`xs.map FDC.reset`), on which `closeFds_erases_options` rests; and nothing else in `close`
    is a second, conditional place where data would be emptied. -/
theorem lazyClose_resets_first :
    Generated.lazyCloseSteps.head? = some "reset-data" ∧ (Generated.lazyCloseSteps.filter (· = "reset-data")).length = 1 := by decide

end Csproto.Bridge
