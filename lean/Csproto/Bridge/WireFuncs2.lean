import Csproto.Bridge.WireFuncs
import Csproto.Bridge.Facts
import Csproto.Proofs.Wire
/-
  Bridge for the TRANSLATED wire primitives that CALL other translated primitives (second batch):
  `EncodeTag`, `EncodeZigZag32`, `EncodeZigZag64` (encoder.go) and `DecodeZigZag32`, `DecodeZigZag64` (decoder.go).
  `Generated/WireFuncs.lean` holds their bodies, translated statement by statement from `/repo`'s current tree; a call
  of another translated function is a `match` on that function's outcome (a panic or divergence of the callee is one of
  the caller; a callee that stores into the slice it is given writes through to the caller's slice, because both share
  the backing array).

  The theorems prove, for EVERY input: the key / zig-zag encoders write exactly the model's bytes
  (`encTag`, `encZigZag32/64` of `Model/Wire.lean`), leave the rest of the buffer alone, return the length and panic iff
  the buffer is short; the zig-zag decoders return what `decodeZigZag32/64` of the model return; and — without any
  model function in the statement — the source's `EncodeZigZag64` followed by the source's `DecodeZigZag64` is the
  identity on every int64, likewise for 32 bits.
-/
set_option linter.unusedSimpArgs false
set_option linter.unusedVariables false
namespace Csproto.Bridge.WireFuncs
open Csproto Csproto.Generated.WireFuncs Csproto.Bridge

/-! ## encoders that end in `return EncodeVarint(dest, x)` -/

theorem EncodeTag_unfold (fuel : Nat) (dest : Bytes) (tag wt : BitVec 64) :
    EncodeTag fuel dest tag wt =
      (match EncodeVarint fuel dest ((tag <<< 3) ||| wt) with
        | .ret r c => .ret r { dest := c.dest, tag := tag, wireType := wt, k := (tag <<< 3) ||| wt }
        | .next _ => .panic | .panic => .panic | .diverge => .diverge) := by
  unfold EncodeTag EncodeTag.body
  simp only [Go.seq]
  cases EncodeVarint fuel dest ((tag <<< 3) ||| wt) <;> rfl

/-- the key the source composes is the model's `keyOf` -/
theorem key_toNat (tag wt : BitVec 64) : ((tag <<< 3) ||| wt).toNat = keyOf tag.toNat wt.toNat := by
  simp [keyOf, BitVec.toNat_or, BitVec.toNat_shiftLeft, two64]

/-- **`EncodeTag` of the source writes the model's `encTag`**, leaves the rest of the buffer, returns the length -/
theorem EncodeTag_ok (fuel : Nat) (dest : Bytes) (tag wt : BitVec 64) (hf : 10 ≤ fuel)
    (hd : (encTag tag.toNat wt.toNat).length ≤ dest.length) :
    ∃ s', EncodeTag fuel dest tag wt = .ret (BitVec.ofNat 64 (encTag tag.toNat wt.toNat).length) s' ∧
      s'.dest = encTag tag.toNat wt.toNat ++ dest.drop (encTag tag.toNat wt.toNat).length := by
  unfold encTag at *
  rw [← key_toNat] at *
  obtain ⟨c, h1, h2⟩ := EncodeVarint_ok fuel dest ((tag <<< 3) ||| wt) hf hd
  rw [EncodeTag_unfold, h1]
  exact ⟨_, rfl, h2⟩

theorem EncodeTag_short (fuel : Nat) (dest : Bytes) (tag wt : BitVec 64) (hf : 10 ≤ fuel)
    (hd : dest.length < (encTag tag.toNat wt.toNat).length) : EncodeTag fuel dest tag wt = .panic := by
  unfold encTag at *
  rw [← key_toNat] at *
  rw [EncodeTag_unfold, EncodeVarint_short fuel dest _ hf hd]

theorem EncodeZigZag64_unfold (fuel : Nat) (dest : Bytes) (v : BitVec 64) :
    EncodeZigZag64 fuel dest v =
      (match EncodeVarint fuel dest (Generated.EncodeZigZag64_zz v) with
        | .ret r c => .ret r { dest := c.dest, v := v, zz := Generated.EncodeZigZag64_zz v }
        | .next _ => .panic | .panic => .panic | .diverge => .diverge) := by
  unfold EncodeZigZag64 EncodeZigZag64.body Generated.EncodeZigZag64_zz
  simp only [Go.seq]
  cases EncodeVarint fuel dest ((v <<< 1) ^^^ (BitVec.sshiftRight v 63)) <;> rfl

/-- **`EncodeZigZag64` of the source writes the model's `encZigZag64`** of the argument read as an int64 -/
theorem EncodeZigZag64_ok (fuel : Nat) (dest : Bytes) (v : BitVec 64) (hf : 10 ≤ fuel)
    (hd : (encZigZag64 v.toInt).length ≤ dest.length) :
    ∃ s', EncodeZigZag64 fuel dest v = .ret (BitVec.ofNat 64 (encZigZag64 v.toInt).length) s' ∧
      s'.dest = encZigZag64 v.toInt ++ dest.drop (encZigZag64 v.toInt).length := by
  unfold encZigZag64 at *
  rw [← Bridge.encodeZigZag64_src] at *
  obtain ⟨c, h1, h2⟩ := EncodeVarint_ok fuel dest (Generated.EncodeZigZag64_zz v) hf hd
  rw [EncodeZigZag64_unfold, h1]
  exact ⟨_, rfl, h2⟩

theorem EncodeZigZag64_short (fuel : Nat) (dest : Bytes) (v : BitVec 64) (hf : 10 ≤ fuel)
    (hd : dest.length < (encZigZag64 v.toInt).length) : EncodeZigZag64 fuel dest v = .panic := by
  unfold encZigZag64 at *
  rw [← Bridge.encodeZigZag64_src] at *
  rw [EncodeZigZag64_unfold, EncodeVarint_short fuel dest _ hf hd]

theorem EncodeZigZag32_unfold (fuel : Nat) (dest : Bytes) (v : BitVec 32) :
    EncodeZigZag32 fuel dest v =
      (match EncodeVarint fuel dest (Generated.EncodeZigZag32_zz v) with
        | .ret r c => .ret r { dest := c.dest, v := v, zz := Generated.EncodeZigZag32_zz v }
        | .next _ => .panic | .panic => .panic | .diverge => .diverge) := by
  unfold EncodeZigZag32 EncodeZigZag32.body Generated.EncodeZigZag32_zz
  simp only [Go.seq]
  cases EncodeVarint fuel dest (BitVec.setWidth 64 ((v <<< 1) ^^^ (BitVec.sshiftRight v 31))) <;> rfl

/-- **`EncodeZigZag32` of the source writes the model's `encZigZag32`** of the argument read as an int32 -/
theorem EncodeZigZag32_ok (fuel : Nat) (dest : Bytes) (v : BitVec 32) (hf : 10 ≤ fuel)
    (hd : (encZigZag32 v.toInt).length ≤ dest.length) :
    ∃ s', EncodeZigZag32 fuel dest v = .ret (BitVec.ofNat 64 (encZigZag32 v.toInt).length) s' ∧
      s'.dest = encZigZag32 v.toInt ++ dest.drop (encZigZag32 v.toInt).length := by
  unfold encZigZag32 at *
  rw [← Bridge.encodeZigZag32_src] at *
  obtain ⟨c, h1, h2⟩ := EncodeVarint_ok fuel dest (Generated.EncodeZigZag32_zz v) hf hd
  rw [EncodeZigZag32_unfold, h1]
  exact ⟨_, rfl, h2⟩

theorem EncodeZigZag32_short (fuel : Nat) (dest : Bytes) (v : BitVec 32) (hf : 10 ≤ fuel)
    (hd : dest.length < (encZigZag32 v.toInt).length) : EncodeZigZag32 fuel dest v = .panic := by
  unfold encZigZag32 at *
  rw [← Bridge.encodeZigZag32_src] at *
  rw [EncodeZigZag32_unfold, EncodeVarint_short fuel dest _ hf hd]

/-! ## zig-zag decoders: `dv, n, err = DecodeVarint(p)` then the un-zig-zag expression -/

/-- every run of the translated `DecodeVarint` ends in a `return` (for inputs a Go slice can hold) -/
theorem DecodeVarint_returns (fuel : Nat) (hf : 11 ≤ fuel) (p : Bytes) (hp : p.length < 2 ^ 63) :
    ∃ v n e c, DecodeVarint fuel p = .ret (v, n, e) c := by
  have h := DecodeVarint_eq fuel hf p hp
  cases hd : DecodeVarint fuel p with
  | ret r c => obtain ⟨v, n, e⟩ := r; exact ⟨v, n, e, c, rfl⟩
  | next s => rw [hd] at h; simp only [toRes] at h; cases hm : decodeVarint p <;> rw [hm] at h <;> simp at h
  | panic => rw [hd] at h; simp only [toRes] at h; cases hm : decodeVarint p <;> rw [hm] at h <;> simp at h
  | diverge => rw [hd] at h; simp only [toRes] at h; cases hm : decodeVarint p <;> rw [hm] at h <;> simp at h

/-- what a run of `DecodeZigZag64` amounts to in the vocabulary of the model -/
def toResZ64 : Go.Out DecodeZigZag64.St DecodeZigZag64.R → Res (Int × Nat)
  | .ret (v, n, .nil) _ => .ok (v.toInt, n.toNat)
  | .ret _ _ => .err
  | _ => .panic

def toResZ32 : Go.Out DecodeZigZag32.St DecodeZigZag32.R → Res (Int × Nat)
  | .ret (v, n, .nil) _ => .ok (v.toInt, n.toNat)
  | .ret _ _ => .err
  | _ => .panic

theorem n_zero_iff (n : BitVec 64) : (n == 0#64) = decide (n.toNat = 0) := by
  by_cases h : n = 0#64
  · subst h; simp
  · have : n.toNat ≠ 0 := fun h0 => h (BitVec.eq_of_toNat_eq (by simpa using h0))
    simp [h, this]

/-- **`DecodeZigZag64` of the source = `decodeZigZag64` of the model**, for every input a Go slice can hold -/
theorem DecodeZigZag64_eq (fuel : Nat) (hf : 11 ≤ fuel) (p : Bytes) (hp : p.length < 2 ^ 63) :
    toResZ64 (DecodeZigZag64 fuel p) = (match decodeZigZag64 p with | .ok r => .ok r | _ => .err) := by
  have h := DecodeVarint_eq fuel hf p hp
  obtain ⟨v, n, e, c, hd⟩ := DecodeVarint_returns fuel hf p hp
  rw [hd] at h
  unfold DecodeZigZag64 DecodeZigZag64.body decodeZigZag64
  simp only [Go.seq, Go.skip, hd]
  cases e with
  | nil =>
    simp only [toRes] at h
    cases hm : decodeVarint p with
    | ok r =>
      rw [hm] at h; simp only [Res.ok.injEq] at h; subst h
      by_cases hn : n.toNat = 0
      · simp [toResZ64, n_zero_iff, hn]
      · have := decodeZigZag64_src v
        unfold Generated.DecodeZigZag64_dv at this
        simp [toResZ64, n_zero_iff, hn, this]
    | err => rw [hm] at h; simp at h
    | panic => rw [hm] at h; simp at h
  | invalidVarint | unexpectedEOF | overflow | other w =>
    simp only [toRes] at h
    cases hm : decodeVarint p with
    | ok r => rw [hm] at h; simp at h
    | err => simp [toResZ64]
    | panic => simp [toResZ64]

/-- **`DecodeZigZag32` of the source = `decodeZigZag32` of the model** -/
theorem DecodeZigZag32_eq (fuel : Nat) (hf : 11 ≤ fuel) (p : Bytes) (hp : p.length < 2 ^ 63) :
    toResZ32 (DecodeZigZag32 fuel p) = (match decodeZigZag32 p with | .ok r => .ok r | _ => .err) := by
  have h := DecodeVarint_eq fuel hf p hp
  obtain ⟨v, n, e, c, hd⟩ := DecodeVarint_returns fuel hf p hp
  rw [hd] at h
  unfold DecodeZigZag32 DecodeZigZag32.body decodeZigZag32
  simp only [Go.seq, Go.skip, hd]
  cases e with
  | nil =>
    simp only [toRes] at h
    cases hm : decodeVarint p with
    | ok r =>
      rw [hm] at h; simp only [Res.ok.injEq] at h; subst h
      by_cases hn : n.toNat = 0
      · simp [toResZ32, n_zero_iff, hn]
      · have := decodeZigZag32_src v
        unfold Generated.DecodeZigZag32_dv at this
        obtain ⟨f, hf'⟩ : ∃ f : BitVec 64 → BitVec 32, ∀ dv : BitVec 64,
            BitVec.setWidth 32 (BitVec.setWidth 64
              (BitVec.setWidth 32 dv >>> 1 ^^^ (BitVec.setWidth 32 (dv &&& 1#64) <<< 31).sshiftRight 31)) = f dv :=
          ⟨_, fun _ => rfl⟩
        rw [hf'] at this
        simp only [hf']
        simp [toResZ32, n_zero_iff, hn, this]
    | err => rw [hm] at h; simp at h
    | panic => rw [hm] at h; simp at h
  | invalidVarint | unexpectedEOF | overflow | other w =>
    simp only [toRes] at h
    cases hm : decodeVarint p with
    | ok r => rw [hm] at h; simp at h
    | err => simp [toResZ32]
    | panic => simp [toResZ32]

/-! ## round trips of the SOURCE functions (no model function in the statements) -/

theorem inI64_toInt (v : BitVec 64) : InI64 v.toInt := by
  unfold InI64 two63; have := v.toInt_lt; have := v.le_toInt; omega

theorem inI32_toInt (v : BitVec 32) : InI32 v.toInt := by
  unfold InI32 two31; have := v.toInt_lt; have := v.le_toInt; omega

theorem encZigZag64_len_le (i : Int) (h : InI64 i) : (encZigZag64 i).length ≤ 10 :=
  encVarint_length_le_10 (zigzag_lt_two64 h)

theorem encZigZag32_len_le (i : Int) (h : InI32 i) : (encZigZag32 i).length ≤ 10 := by
  have h32 := zigzag_lt_two32 h
  exact encVarint_length_le_10 (by unfold two32 at h32; unfold two64; omega)

/-- **the source's `EncodeZigZag64` followed by the source's `DecodeZigZag64` is the identity on every int64**, for every
    destination buffer with room, whatever it held before; the decoder reports exactly the bytes the encoder wrote. -/
theorem translated_zigzag64_roundtrip (fuel : Nat) (hf : 11 ≤ fuel) (v : BitVec 64) (dest : Bytes)
    (hroom : 10 ≤ dest.length) (hlen : dest.length < 2 ^ 63) :
    ∃ n s', EncodeZigZag64 fuel dest v = .ret n s' ∧ s'.dest.length = dest.length ∧
      toResZ64 (DecodeZigZag64 fuel s'.dest) = .ok (v.toInt, n.toNat) := by
  have h10 := encZigZag64_len_le v.toInt (inI64_toInt v)
  obtain ⟨s', h1, h2⟩ := EncodeZigZag64_ok fuel dest v (by omega) (by omega)
  refine ⟨_, s', h1, ?_, ?_⟩
  · rw [h2]; simp; omega
  · have hl : s'.dest.length < 2 ^ 63 := by rw [h2]; simp; omega
    rw [DecodeZigZag64_eq fuel hf s'.dest hl, h2, decodeZigZag64_enc _ (inI64_toInt v)]
    simp
    omega

/-- the same for 32 bits -/
theorem translated_zigzag32_roundtrip (fuel : Nat) (hf : 11 ≤ fuel) (v : BitVec 32) (dest : Bytes)
    (hroom : 10 ≤ dest.length) (hlen : dest.length < 2 ^ 63) :
    ∃ n s', EncodeZigZag32 fuel dest v = .ret n s' ∧ s'.dest.length = dest.length ∧
      toResZ32 (DecodeZigZag32 fuel s'.dest) = .ok (v.toInt, n.toNat) := by
  have h10 := encZigZag32_len_le v.toInt (inI32_toInt v)
  obtain ⟨s', h1, h2⟩ := EncodeZigZag32_ok fuel dest v (by omega) (by omega)
  refine ⟨_, s', h1, ?_, ?_⟩
  · rw [h2]; simp; omega
  · have hl : s'.dest.length < 2 ^ 63 := by rw [h2]; simp; omega
    rw [DecodeZigZag32_eq fuel hf s'.dest hl, h2, decodeZigZag32_enc _ (inI32_toInt v)]
    simp
    omega

/-- **the key the source's `EncodeTag` writes is read back by the source's `DecodeVarint` as `tag·8 + wireType`**
    (the free-function half of `Decoder.DecodeTag`): every field number below 2^61 and every 3-bit wire type. -/
theorem translated_tag_roundtrip (fuel : Nat) (hf : 11 ≤ fuel) (tag wt : BitVec 64) (dest : Bytes)
    (htag : tag.toNat < 2 ^ 61) (hwt : wt.toNat < 8) (hroom : 10 ≤ dest.length) (hlen : dest.length < 2 ^ 63) :
    ∃ n s', EncodeTag fuel dest tag wt = .ret n s' ∧ s'.dest.length = dest.length ∧
      toRes (DecodeVarint fuel s'.dest) = .ok (tag.toNat * 8 + wt.toNat, n.toNat) := by
  have hk : keyOf tag.toNat wt.toNat < two64 := by rw [← key_toNat, two64_eq]; exact (tag <<< 3 ||| wt).isLt
  have h10 : (encTag tag.toNat wt.toNat).length ≤ 10 := encVarint_length_le_10 hk
  obtain ⟨s', h1, h2⟩ := EncodeTag_ok fuel dest tag wt (by omega) (by omega)
  refine ⟨_, s', h1, ?_, ?_⟩
  · rw [h2]; simp; omega
  · have hl : s'.dest.length < 2 ^ 63 := by rw [h2]; simp; omega
    have hkv : keyOf tag.toNat wt.toNat = tag.toNat * 8 + wt.toNat := by
      unfold keyOf two64
      rw [Nat.shiftLeft_eq, Nat.mod_eq_of_lt (by omega)]
      have h8 : tag.toNat * 8 = tag.toNat * 2 ^ 3 := rfl
      rw [h8, ← Nat.shiftLeft_eq, Nat.shiftLeft_add_eq_or_of_lt (by simpa using hwt)]
    rw [DecodeVarint_eq fuel hf s'.dest hl, h2]
    unfold encTag
    rw [decodeVarint_encVarint _ hk, hkv]
    simp
    unfold encTag at h10; rw [hkv] at h10; omega

end Csproto.Bridge.WireFuncs
