/- REGENERATED on every run by harness/cmd/extract from /repo's Go source. Do not edit. -/
import Csproto.Model.Basic
namespace Csproto.Generated

def MaxTagValue : Int := 536870911
def maxFieldLen : Int := 2147483647
def WireTypeVarint : Int := 0
def WireTypeFixed64 : Int := 1
def WireTypeLengthDelimited : Int := 2
def WireTypeFixed32 : Int := 5
def DecoderModeSafe : Int := 0
def DecoderModeFast : Int := 1

/-- Go `bits.Len64` on the 64-bit pattern (result as a 64-bit `int`). -/
def goBitsLen64 (x : BitVec 64) : BitVec 64 := BitVec.ofNat 64 (if x.toNat = 0 then 0 else Nat.log2 x.toNat + 1)

def SizeOfVarint (v : BitVec 64) : BitVec 64 := (BitVec.sdiv ((goBitsLen64 (v ||| 1#64)) + 6#64) 7#64)
def SizeOfTagKey (k : BitVec 64) : BitVec 64 := (SizeOfVarint (k <<< 3))
def SizeOfZigZag (v : BitVec 64) : BitVec 64 := (SizeOfVarint ((v <<< 1) ^^^ (BitVec.sshiftRight v 63)))
def EncodeZigZag32_zz (v : BitVec 32) : BitVec 64 := (BitVec.setWidth 64 ((v <<< 1) ^^^ (BitVec.sshiftRight v 31)))
def EncodeZigZag64_zz (v : BitVec 64) : BitVec 64 := ((v <<< 1) ^^^ (BitVec.sshiftRight v 63))
def EncodeTag_k (tag : BitVec 64) (wireType : BitVec 64) : BitVec 64 := ((tag <<< 3) ||| wireType)
def DecodeZigZag32_dv (dv : BitVec 64) : BitVec 64 := (BitVec.setWidth 64 (((BitVec.setWidth 32 dv) >>> 1) ^^^ (BitVec.sshiftRight ((BitVec.setWidth 32 (dv &&& 1#64)) <<< 31) 31)))
def DecodeZigZag64_dv (dv : BitVec 64) : BitVec 64 := ((dv >>> 1) ^^^ (BitVec.sshiftRight ((dv &&& 1#64) <<< 63) 63))

end Csproto.Generated
