/- REGENERATED on every run by harness/cmd/extract from /repo's Go source. Do not edit. -/
namespace Csproto.Generated

def protodumpStructFields : List String := ["dumpConfig: indent expand strings", "tagPaths: paths"]
def protodumpGlobals : List String := ["builtBy", "commit", "date", "version"]
def protodumpFieldWrites : List (String × String) := [("dumpConfig.expand", "dumpProtoFile(literal)"), ("dumpConfig.indent", "dumpProto"), ("dumpConfig.indent", "dumpProtoFile(literal)"), ("dumpConfig.strings", "dumpProtoFile(literal)"), ("tagPaths.paths", "Set")]
def dumpInputFlow : List String := ["io.ReadAll"]
def hexCalls : List String := ["fmt.Errorf", "hex.DecodeString", "strings.Index", "strings.Map", "strings.Split", "unicode.IsSpace"]

end Csproto.Generated
