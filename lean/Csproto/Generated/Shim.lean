/- REGENERATED on every run by harness/cmd/extract from /repo's Go source. Do not edit. -/
namespace Csproto.Generated

/-- (function, MessageType case, import path, callee) for every runtime call inside a `switch MsgType` arm -/
def shimCalls : List (String × String × String × String) := [("Clone", "MessageTypeGoogle", "google.golang.org/protobuf/proto", "Clone"),
  ("Clone", "MessageTypeGoogleV1", "github.com/golang/protobuf/proto", "Clone"),
  ("Clone", "MessageTypeGogo", "github.com/gogo/protobuf/proto", "Clone"),
  ("Equal", "MessageTypeGoogleV1", "github.com/golang/protobuf/proto", "Equal"),
  ("Equal", "MessageTypeGoogle", "google.golang.org/protobuf/proto", "Equal"),
  ("Equal", "MessageTypeGogo", "github.com/gogo/protobuf/proto", "Equal"),
  ("RangeExtensions", "MessageTypeGogo", "github.com/gogo/protobuf/proto", "ExtensionDescs"),
  ("RangeExtensions", "MessageTypeGoogleV1", "github.com/golang/protobuf/proto", "ExtensionDescs"),
  ("RangeExtensions", "MessageTypeGoogle", "google.golang.org/protobuf/proto", "RangeExtensions"),
  ("HasExtension", "MessageTypeGoogleV1", "github.com/golang/protobuf/proto", "HasExtension"),
  ("HasExtension", "MessageTypeGoogle", "google.golang.org/protobuf/proto", "HasExtension"),
  ("HasExtension", "MessageTypeGogo", "github.com/gogo/protobuf/proto", "HasExtension"),
  ("ClearExtension", "MessageTypeGoogleV1", "github.com/golang/protobuf/proto", "ClearExtension"),
  ("ClearExtension", "MessageTypeGoogle", "google.golang.org/protobuf/proto", "ClearExtension"),
  ("ClearExtension", "MessageTypeGogo", "github.com/gogo/protobuf/proto", "ClearExtension"),
  ("GetExtension", "MessageTypeGoogleV1", "github.com/golang/protobuf/proto", "GetExtension"),
  ("GetExtension", "MessageTypeGoogle", "google.golang.org/protobuf/proto", "GetExtension"),
  ("GetExtension", "MessageTypeGogo", "github.com/gogo/protobuf/proto", "GetExtension"),
  ("SetExtension", "MessageTypeGoogleV1", "github.com/golang/protobuf/proto", "SetExtension"),
  ("SetExtension", "MessageTypeGoogle", "google.golang.org/protobuf/proto", "SetExtension"),
  ("SetExtension", "MessageTypeGogo", "github.com/gogo/protobuf/proto", "SetExtension"),
  ("ClearAllExtensions", "MessageTypeGoogleV1", "github.com/golang/protobuf/proto", "ClearAllExtensions"),
  ("ClearAllExtensions", "MessageTypeGoogle", "google.golang.org/protobuf/proto", "RangeExtensions"),
  ("ClearAllExtensions", "MessageTypeGoogle", "google.golang.org/protobuf/proto", "ClearExtension"),
  ("ClearAllExtensions", "MessageTypeGogo", "github.com/gogo/protobuf/proto", "ClearAllExtensions"),
  ("MarshalText", "MessageTypeGoogle", "google.golang.org/protobuf/encoding/prototext", "Format"),
  ("MarshalText", "MessageTypeGoogleV1", "github.com/golang/protobuf/proto", "MarshalTextString"),
  ("MarshalText", "MessageTypeGogo", "github.com/gogo/protobuf/proto", "MarshalTextString")]

/-- (function, MessageType case, asserted type) for every type assertion inside an arm -/
def shimAsserts : List (String × String × String × String) := [("Clone", "MessageTypeGoogle", "google.golang.org/protobuf/reflect/protoreflect", "ProtoMessage"),
  ("Clone", "MessageTypeGoogleV1", "google.golang.org/protobuf/runtime/protoiface", "MessageV1"),
  ("Clone", "MessageTypeGogo", "github.com/gogo/protobuf/proto", "Message"),
  ("Equal", "MessageTypeGoogleV1", "google.golang.org/protobuf/runtime/protoiface", "MessageV1"),
  ("Equal", "MessageTypeGoogleV1", "google.golang.org/protobuf/runtime/protoiface", "MessageV1"),
  ("Equal", "MessageTypeGoogle", "google.golang.org/protobuf/reflect/protoreflect", "ProtoMessage"),
  ("Equal", "MessageTypeGoogle", "google.golang.org/protobuf/reflect/protoreflect", "ProtoMessage"),
  ("Equal", "MessageTypeGogo", "github.com/gogo/protobuf/proto", "Message"),
  ("Equal", "MessageTypeGogo", "github.com/gogo/protobuf/proto", "Message"),
  ("RangeExtensions", "MessageTypeGogo", "github.com/gogo/protobuf/proto", "Message"),
  ("RangeExtensions", "MessageTypeGoogleV1", "google.golang.org/protobuf/runtime/protoiface", "MessageV1"),
  ("RangeExtensions", "MessageTypeGoogle", "google.golang.org/protobuf/reflect/protoreflect", "ProtoMessage"),
  ("HasExtension", "MessageTypeGoogleV1", "google.golang.org/protobuf/internal/impl", "*ExtensionInfo"),
  ("HasExtension", "MessageTypeGoogleV1", "google.golang.org/protobuf/runtime/protoiface", "MessageV1"),
  ("HasExtension", "MessageTypeGoogle", "google.golang.org/protobuf/reflect/protoreflect", "ExtensionType"),
  ("HasExtension", "MessageTypeGoogle", "google.golang.org/protobuf/reflect/protoreflect", "ProtoMessage"),
  ("HasExtension", "MessageTypeGogo", "github.com/gogo/protobuf/proto", "*ExtensionDesc"),
  ("HasExtension", "MessageTypeGogo", "github.com/gogo/protobuf/proto", "Message"),
  ("ClearExtension", "MessageTypeGoogleV1", "google.golang.org/protobuf/internal/impl", "*ExtensionInfo"),
  ("ClearExtension", "MessageTypeGoogleV1", "google.golang.org/protobuf/runtime/protoiface", "MessageV1"),
  ("ClearExtension", "MessageTypeGoogle", "google.golang.org/protobuf/reflect/protoreflect", "ExtensionType"),
  ("ClearExtension", "MessageTypeGoogle", "google.golang.org/protobuf/reflect/protoreflect", "ProtoMessage"),
  ("ClearExtension", "MessageTypeGogo", "github.com/gogo/protobuf/proto", "*ExtensionDesc"),
  ("ClearExtension", "MessageTypeGogo", "github.com/gogo/protobuf/proto", "Message"),
  ("GetExtension", "MessageTypeGoogleV1", "google.golang.org/protobuf/internal/impl", "*ExtensionInfo"),
  ("GetExtension", "MessageTypeGoogleV1", "google.golang.org/protobuf/runtime/protoiface", "MessageV1"),
  ("GetExtension", "MessageTypeGoogle", "google.golang.org/protobuf/reflect/protoreflect", "ExtensionType"),
  ("GetExtension", "MessageTypeGoogle", "google.golang.org/protobuf/reflect/protoreflect", "ProtoMessage"),
  ("GetExtension", "MessageTypeGogo", "github.com/gogo/protobuf/proto", "*ExtensionDesc"),
  ("GetExtension", "MessageTypeGogo", "github.com/gogo/protobuf/proto", "Message"),
  ("SetExtension", "MessageTypeGoogleV1", "google.golang.org/protobuf/internal/impl", "*ExtensionInfo"),
  ("SetExtension", "MessageTypeGoogleV1", "google.golang.org/protobuf/runtime/protoiface", "MessageV1"),
  ("SetExtension", "MessageTypeGoogle", "google.golang.org/protobuf/reflect/protoreflect", "ExtensionType"),
  ("SetExtension", "MessageTypeGoogle", "google.golang.org/protobuf/reflect/protoreflect", "ProtoMessage"),
  ("SetExtension", "MessageTypeGogo", "github.com/gogo/protobuf/proto", "*ExtensionDesc"),
  ("SetExtension", "MessageTypeGogo", "github.com/gogo/protobuf/proto", "Message"),
  ("ClearAllExtensions", "MessageTypeGoogleV1", "google.golang.org/protobuf/runtime/protoiface", "MessageV1"),
  ("ClearAllExtensions", "MessageTypeGoogle", "google.golang.org/protobuf/reflect/protoreflect", "ProtoMessage"),
  ("ClearAllExtensions", "MessageTypeGogo", "github.com/gogo/protobuf/proto", "Message"),
  ("MarshalText", "MessageTypeGoogle", "google.golang.org/protobuf/reflect/protoreflect", "ProtoMessage"),
  ("MarshalText", "MessageTypeGoogleV1", "google.golang.org/protobuf/runtime/protoiface", "MessageV1"),
  ("MarshalText", "MessageTypeGogo", "github.com/gogo/protobuf/proto", "Message")]

def deduceSkeleton : List String := ["0:if assert google.golang.org/protobuf/reflect/protoreflect.ProtoMessage", "1:return MessageTypeGoogle", "0:if .Kind(…) != reflect.Ptr", "1:return MessageTypeUnknown", "0:if assert github.com/gogo/protobuf/proto.Message", "1:if github.com/gogo/protobuf/proto.MessageName(…) != \"\"", "2:return MessageTypeGogo", "1:return MessageTypeGoogleV1", "0:return MessageTypeUnknown"]

def msgTypeProtocol : List String := ["nilcheck", ".Load", "deduceMsgType", ".Store"]

def jsonMarshalProbes : List String := ["encoding/json.Marshaler => .MarshalJSON", "google.golang.org/protobuf/reflect/protoreflect.ProtoMessage => .Marshal", "google.golang.org/protobuf/runtime/protoiface.MessageV1 => .Marshal", "github.com/gogo/protobuf/proto.Message => .Marshal"]

def jsonUnmarshalProbes : List String := ["encoding/json.Unmarshaler => .UnmarshalJSON", "google.golang.org/protobuf/reflect/protoreflect.ProtoMessage => .Unmarshal", "google.golang.org/protobuf/runtime/protoiface.MessageV1 => .Unmarshal", "github.com/gogo/protobuf/proto.Message => .Unmarshal"]

def resetProbes : List String := ["interface{Reset()} => .Reset"]

def marshalTextProbes : List String := ["encoding.TextMarshaler => .MarshalText"]

/-- (runtime option struct, its field, csproto option field it is wired to) -/
def jsonWiring : List (String × String × String) := [("google.golang.org/protobuf/encoding/protojson.MarshalOptions", "Indent", "indent"),
  ("google.golang.org/protobuf/encoding/protojson.MarshalOptions", "UseEnumNumbers", "useEnumNumbers"),
  ("google.golang.org/protobuf/encoding/protojson.MarshalOptions", "EmitUnpopulated", "emitZeroValues"),
  ("github.com/golang/protobuf/jsonpb.Marshaler", "Indent", "indent"),
  ("github.com/golang/protobuf/jsonpb.Marshaler", "EnumsAsInts", "useEnumNumbers"),
  ("github.com/golang/protobuf/jsonpb.Marshaler", "EmitDefaults", "emitZeroValues"),
  ("github.com/gogo/protobuf/jsonpb.Marshaler", "Indent", "indent"),
  ("github.com/gogo/protobuf/jsonpb.Marshaler", "EnumsAsInts", "useEnumNumbers"),
  ("github.com/gogo/protobuf/jsonpb.Marshaler", "EmitDefaults", "emitZeroValues"),
  ("google.golang.org/protobuf/encoding/protojson.UnmarshalOptions", "AllowPartial", "allowPartial"),
  ("google.golang.org/protobuf/encoding/protojson.UnmarshalOptions", "DiscardUnknown", "allowUnknownFields"),
  ("github.com/golang/protobuf/jsonpb.Unmarshaler", "AllowUnknownFields", "allowUnknownFields"),
  ("github.com/gogo/protobuf/jsonpb.Unmarshaler", "AllowUnknownFields", "allowUnknownFields")]

def jsonSetters : List (String × String) := [("JSONIndent", "indent"), ("JSONUseEnumNumbers", "useEnumNumbers"), ("JSONIncludeZeroValues", "emitZeroValues"), ("JSONAllowUnknownFields", "allowUnknownFields"), ("JSONAllowPartialMessages", "allowPartial")]

/-- assignments to a JSON option field outside the option constructors -/
def jsonOptionWritesElsewhere : List String := []

/-- places of the root package that ask a runtime to use its cached sizes -/
def cachedSizeRequests : List String := []

def grpcCodec : List String := ["Marshal -> Marshal", "Unmarshal -> Unmarshal", "Name = \"proto\""]

/-- (function, statements outside the arms of its `switch MsgType`): the whole control shape around the dispatch -/
def shimFrame : List (String × List String) := [("Clone", ["0:switch MsgType(m)", "1:cases MessageTypeGogo,MessageTypeGoogle,MessageTypeGoogleV1,default"]),
  ("Equal", ["0:t1, t2 := MsgType(m1), MsgType(m2)", "0:if t1 != t2", "1:return false", "0:switch t1", "1:cases MessageTypeGogo,MessageTypeGoogle,MessageTypeGoogleV1,default"]),
  ("MarshalText", ["0:if tm, ok := msg.(encoding.TextMarshaler); ok", "1:res, err := tm.MarshalText()", "1:if err != nil", "2:return \"…\", err", "1:return string(res), nil", "0:switch MsgType(msg)", "1:cases MessageTypeGogo,MessageTypeGoogle,MessageTypeGoogleV1,default"]),
  ("RangeExtensions", ["0:msgType := MsgType(msg)", "0:switch msgType", "1:cases MessageTypeGogo,MessageTypeGoogle,MessageTypeGoogleV1,MessageTypeUnknown", "0:return nil"]),
  ("HasExtension", ["0:switch MsgType(msg)", "1:cases MessageTypeGogo,MessageTypeGoogle,MessageTypeGoogleV1,default"]),
  ("ClearExtension", ["0:switch MsgType(msg)", "1:cases MessageTypeGogo,MessageTypeGoogle,MessageTypeGoogleV1,default", "0:panic(fmt.Sprintf(\"…\", ext, msg))"]),
  ("GetExtension", ["0:switch MsgType(msg)", "1:cases MessageTypeGogo,MessageTypeGoogle,MessageTypeGoogleV1,default"]),
  ("SetExtension", ["0:switch MsgType(msg)", "1:cases MessageTypeGogo,MessageTypeGoogle,MessageTypeGoogleV1,default"]),
  ("ClearAllExtensions", ["0:switch MsgType(msg)", "1:cases MessageTypeGogo,MessageTypeGoogle,MessageTypeGoogleV1,default"])]

/-- (function, MessageType case, statements of the arm) -/
def shimArms : List (String × String × List String) := [("Clone", "MessageTypeGogo", ["0:return gogo.Clone(m.(gogo.Message))"]),
  ("Clone", "MessageTypeGoogle", ["0:return protov2.Clone(m.(protoreflect.ProtoMessage))"]),
  ("Clone", "MessageTypeGoogleV1", ["0:return golang.Clone(m.(protoiface.MessageV1))"]),
  ("Clone", "default", ["0:return nil"]),
  ("Equal", "MessageTypeGogo", ["0:return gogo.Equal(m1.(gogo.Message), m2.(gogo.Message))"]),
  ("Equal", "MessageTypeGoogle", ["0:return protov2.Equal(m1.(protoreflect.ProtoMessage), m2.(protoreflect.ProtoMessage))"]),
  ("Equal", "MessageTypeGoogleV1", ["0:return golang.Equal(m1.(protoiface.MessageV1), m2.(protoiface.MessageV1))"]),
  ("Equal", "default", ["0:return false"]),
  ("MarshalText", "MessageTypeGogo", ["0:return gogo.MarshalTextString(msg.(gogo.Message)), nil"]),
  ("MarshalText", "MessageTypeGoogle", ["0:return prototext.Format(msg.(protoreflect.ProtoMessage)), nil"]),
  ("MarshalText", "MessageTypeGoogleV1", ["0:return golang.MarshalTextString(msg.(protoiface.MessageV1)), nil"]),
  ("MarshalText", "default", ["0:return \"…\", fmt.Errorf(\"…\", msg)"]),
  ("RangeExtensions", "MessageTypeGogo", ["0:exts, err := gogo.ExtensionDescs(msg.(gogo.Message))", "0:if err != nil", "1:return err", "0:for _, ext range exts", "1:if err = fn(ext, ext.Name, ext.Field); err != nil", "2:return err", "0:return nil"]),
  ("RangeExtensions", "MessageTypeGoogle", ["0:var err error", "0:protov2.RangeExtensions(msg.(protoreflect.ProtoMessage), func#1)", "1:func#1", "2:err = fn(v, string(t.TypeDescriptor().FullName()), int32(t.TypeDescriptor().Descriptor().Number()))", "2:return err == nil", "0:return err"]),
  ("RangeExtensions", "MessageTypeGoogleV1", ["0:exts, err := golang.ExtensionDescs(msg.(protoiface.MessageV1))", "0:if err != nil", "1:return err", "0:for _, ext range exts", "1:if err = fn(ext, string(ext.TypeDescriptor().FullName()), int32(ext.TypeDescriptor().Descriptor().Number())); err != nil", "2:return err", "0:return nil"]),
  ("RangeExtensions", "MessageTypeUnknown", ["0:return fmt.Errorf(\"…\", msg)"]),
  ("HasExtension", "MessageTypeGogo", ["0:ed, ok := ext.(*gogo.ExtensionDesc)", "0:if !ok", "1:return false", "0:return gogo.HasExtension(msg.(gogo.Message), ed)"]),
  ("HasExtension", "MessageTypeGoogle", ["0:et, ok := ext.(protoreflect.ExtensionType)", "0:if !ok", "1:return false", "0:return protov2.HasExtension(msg.(protoreflect.ProtoMessage), et)"]),
  ("HasExtension", "MessageTypeGoogleV1", ["0:ed, ok := ext.(*protoimpl.ExtensionInfo)", "0:if !ok", "1:return false", "0:return golang.HasExtension(msg.(protoiface.MessageV1), ed)"]),
  ("HasExtension", "default", ["0:return false"]),
  ("ClearExtension", "MessageTypeGogo", ["0:if ed, ok := ext.(*gogo.ExtensionDesc); ok", "1:gogo.ClearExtension(msg.(gogo.Message), ed)", "1:return"]),
  ("ClearExtension", "MessageTypeGoogle", ["0:if et, ok := ext.(protoreflect.ExtensionType); ok", "1:protov2.ClearExtension(msg.(protoreflect.ProtoMessage), et)", "1:return"]),
  ("ClearExtension", "MessageTypeGoogleV1", ["0:if ed, ok := ext.(*protoimpl.ExtensionInfo); ok", "1:golang.ClearExtension(msg.(protoiface.MessageV1), ed)", "1:return"]),
  ("ClearExtension", "default", ["0:panic(fmt.Sprintf(\"…\", msg))"]),
  ("GetExtension", "MessageTypeGogo", ["0:ed, ok := ext.(*gogo.ExtensionDesc)", "0:if !ok", "1:return nil, fmt.Errorf(\"…\", ext)", "0:return gogo.GetExtension(msg.(gogo.Message), ed)"]),
  ("GetExtension", "MessageTypeGoogle", ["0:et, ok := ext.(protoreflect.ExtensionType)", "0:if !ok", "1:return nil, fmt.Errorf(\"…\", ext)", "0:return protov2.GetExtension(msg.(protoreflect.ProtoMessage), et), nil"]),
  ("GetExtension", "MessageTypeGoogleV1", ["0:ed, ok := ext.(*protoimpl.ExtensionInfo)", "0:if !ok", "1:return nil, fmt.Errorf(\"…\", ext)", "0:return golang.GetExtension(msg.(protoiface.MessageV1), ed)"]),
  ("GetExtension", "default", ["0:return nil, fmt.Errorf(\"…\", msg)"]),
  ("SetExtension", "MessageTypeGogo", ["0:ed, ok := ext.(*gogo.ExtensionDesc)", "0:if !ok", "1:return fmt.Errorf(\"…\", ext)", "0:return gogo.SetExtension(msg.(gogo.Message), ed, val)"]),
  ("SetExtension", "MessageTypeGoogle", ["0:et, ok := ext.(protoreflect.ExtensionType)", "0:if !ok", "1:return fmt.Errorf(\"…\", ext)", "0:protov2.SetExtension(msg.(protoreflect.ProtoMessage), et, val)", "0:return nil"]),
  ("SetExtension", "MessageTypeGoogleV1", ["0:ed, ok := ext.(*protoimpl.ExtensionInfo)", "0:if !ok", "1:return fmt.Errorf(\"…\", ext)", "0:return golang.SetExtension(msg.(protoiface.MessageV1), ed, val)"]),
  ("SetExtension", "default", ["0:return fmt.Errorf(\"…\", ext)"]),
  ("ClearAllExtensions", "MessageTypeGogo", ["0:gogo.ClearAllExtensions(msg.(gogo.Message))"]),
  ("ClearAllExtensions", "MessageTypeGoogle", ["0:m := msg.(protoreflect.ProtoMessage)", "0:protov2.RangeExtensions(m, func#1)", "1:func#1", "2:protov2.ClearExtension(m, xt)", "2:return true"]),
  ("ClearAllExtensions", "MessageTypeGoogleV1", ["0:golang.ClearAllExtensions(msg.(protoiface.MessageV1))"]),
  ("ClearAllExtensions", "default", [])]


end Csproto.Generated
