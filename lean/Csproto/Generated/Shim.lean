/- REGENERATED on every run by harness/cmd/extract from /repo's Go source. Do not edit. -/
namespace Csproto.Generated

/-- (function, MessageType case, import path, callee) for every runtime call inside a `switch MsgType` arm -/
def shimCalls : List (String × String × String × String) := [("Clone", "MessageTypeGoogle", "google.golang.org/protobuf/proto", "Clone"),
  ("Clone", "MessageTypeGoogleV1", "github.com/golang/protobuf/proto", "Clone"),
  ("Clone", "MessageTypeGogo", "github.com/gogo/protobuf/proto", "Clone"),
  ("Equal", "MessageTypeGoogleV1", "github.com/golang/protobuf/proto", "Equal"),
  ("Equal", "MessageTypeGoogle", "google.golang.org/protobuf/proto", "Equal"),
  ("Equal", "MessageTypeGogo", "github.com/gogo/protobuf/proto", "Equal"),
  ("RangeExtensions", "MessageTypeGogo", "github.com/gogo/protobuf/proto", "ExtensionDescs"),
  ("RangeExtensions", "MessageTypeGoogleV1", "github.com/golang/protobuf/proto", "ExtensionDescs"),
  ("RangeExtensions", "MessageTypeGoogle", "google.golang.org/protobuf/proto", "RangeExtensions"),
  ("HasExtension", "MessageTypeGoogleV1", "github.com/golang/protobuf/proto", "HasExtension"),
  ("HasExtension", "MessageTypeGoogle", "google.golang.org/protobuf/proto", "HasExtension"),
  ("HasExtension", "MessageTypeGogo", "github.com/gogo/protobuf/proto", "HasExtension"),
  ("ClearExtension", "MessageTypeGoogleV1", "github.com/golang/protobuf/proto", "ClearExtension"),
  ("ClearExtension", "MessageTypeGoogle", "google.golang.org/protobuf/proto", "ClearExtension"),
  ("ClearExtension", "MessageTypeGogo", "github.com/gogo/protobuf/proto", "ClearExtension"),
  ("GetExtension", "MessageTypeGoogleV1", "github.com/golang/protobuf/proto", "GetExtension"),
  ("GetExtension", "MessageTypeGoogle", "google.golang.org/protobuf/proto", "GetExtension"),
  ("GetExtension", "MessageTypeGogo", "github.com/gogo/protobuf/proto", "GetExtension"),
  ("SetExtension", "MessageTypeGoogleV1", "github.com/golang/protobuf/proto", "SetExtension"),
  ("SetExtension", "MessageTypeGoogle", "google.golang.org/protobuf/proto", "SetExtension"),
  ("SetExtension", "MessageTypeGogo", "github.com/gogo/protobuf/proto", "SetExtension"),
  ("ClearAllExtensions", "MessageTypeGoogleV1", "github.com/golang/protobuf/proto", "ClearAllExtensions"),
  ("ClearAllExtensions", "MessageTypeGoogle", "google.golang.org/protobuf/proto", "RangeExtensions"),
  ("ClearAllExtensions", "MessageTypeGoogle", "google.golang.org/protobuf/proto", "ClearExtension"),
  ("ClearAllExtensions", "MessageTypeGogo", "github.com/gogo/protobuf/proto", "ClearAllExtensions"),
  ("MarshalText", "MessageTypeGoogle", "google.golang.org/protobuf/encoding/prototext", "Format"),
  ("MarshalText", "MessageTypeGoogleV1", "github.com/golang/protobuf/proto", "MarshalTextString"),
  ("MarshalText", "MessageTypeGogo", "github.com/gogo/protobuf/proto", "MarshalTextString")]

/-- (function, MessageType case, asserted type) for every type assertion inside an arm -/
def shimAsserts : List (String × String × String × String) := [("Clone", "MessageTypeGoogle", "google.golang.org/protobuf/reflect/protoreflect", "ProtoMessage"),
  ("Clone", "MessageTypeGoogleV1", "google.golang.org/protobuf/runtime/protoiface", "MessageV1"),
  ("Clone", "MessageTypeGogo", "github.com/gogo/protobuf/proto", "Message"),
  ("Equal", "MessageTypeGoogleV1", "google.golang.org/protobuf/runtime/protoiface", "MessageV1"),
  ("Equal", "MessageTypeGoogleV1", "google.golang.org/protobuf/runtime/protoiface", "MessageV1"),
  ("Equal", "MessageTypeGoogle", "google.golang.org/protobuf/reflect/protoreflect", "ProtoMessage"),
  ("Equal", "MessageTypeGoogle", "google.golang.org/protobuf/reflect/protoreflect", "ProtoMessage"),
  ("Equal", "MessageTypeGogo", "github.com/gogo/protobuf/proto", "Message"),
  ("Equal", "MessageTypeGogo", "github.com/gogo/protobuf/proto", "Message"),
  ("RangeExtensions", "MessageTypeGogo", "github.com/gogo/protobuf/proto", "Message"),
  ("RangeExtensions", "MessageTypeGoogleV1", "google.golang.org/protobuf/runtime/protoiface", "MessageV1"),
  ("RangeExtensions", "MessageTypeGoogle", "google.golang.org/protobuf/reflect/protoreflect", "ProtoMessage"),
  ("HasExtension", "MessageTypeGoogleV1", "google.golang.org/protobuf/internal/impl", "*ExtensionInfo"),
  ("HasExtension", "MessageTypeGoogleV1", "google.golang.org/protobuf/runtime/protoiface", "MessageV1"),
  ("HasExtension", "MessageTypeGoogle", "google.golang.org/protobuf/reflect/protoreflect", "ExtensionType"),
  ("HasExtension", "MessageTypeGoogle", "google.golang.org/protobuf/reflect/protoreflect", "ProtoMessage"),
  ("HasExtension", "MessageTypeGogo", "github.com/gogo/protobuf/proto", "*ExtensionDesc"),
  ("HasExtension", "MessageTypeGogo", "github.com/gogo/protobuf/proto", "Message"),
  ("ClearExtension", "MessageTypeGoogleV1", "google.golang.org/protobuf/internal/impl", "*ExtensionInfo"),
  ("ClearExtension", "MessageTypeGoogleV1", "google.golang.org/protobuf/runtime/protoiface", "MessageV1"),
  ("ClearExtension", "MessageTypeGoogle", "google.golang.org/protobuf/reflect/protoreflect", "ExtensionType"),
  ("ClearExtension", "MessageTypeGoogle", "google.golang.org/protobuf/reflect/protoreflect", "ProtoMessage"),
  ("ClearExtension", "MessageTypeGogo", "github.com/gogo/protobuf/proto", "*ExtensionDesc"),
  ("ClearExtension", "MessageTypeGogo", "github.com/gogo/protobuf/proto", "Message"),
  ("GetExtension", "MessageTypeGoogleV1", "google.golang.org/protobuf/internal/impl", "*ExtensionInfo"),
  ("GetExtension", "MessageTypeGoogleV1", "google.golang.org/protobuf/runtime/protoiface", "MessageV1"),
  ("GetExtension", "MessageTypeGoogle", "google.golang.org/protobuf/reflect/protoreflect", "ExtensionType"),
  ("GetExtension", "MessageTypeGoogle", "google.golang.org/protobuf/reflect/protoreflect", "ProtoMessage"),
  ("GetExtension", "MessageTypeGogo", "github.com/gogo/protobuf/proto", "*ExtensionDesc"),
  ("GetExtension", "MessageTypeGogo", "github.com/gogo/protobuf/proto", "Message"),
  ("SetExtension", "MessageTypeGoogleV1", "google.golang.org/protobuf/internal/impl", "*ExtensionInfo"),
  ("SetExtension", "MessageTypeGoogleV1", "google.golang.org/protobuf/runtime/protoiface", "MessageV1"),
  ("SetExtension", "MessageTypeGoogle", "google.golang.org/protobuf/reflect/protoreflect", "ExtensionType"),
  ("SetExtension", "MessageTypeGoogle", "google.golang.org/protobuf/reflect/protoreflect", "ProtoMessage"),
  ("SetExtension", "MessageTypeGogo", "github.com/gogo/protobuf/proto", "*ExtensionDesc"),
  ("SetExtension", "MessageTypeGogo", "github.com/gogo/protobuf/proto", "Message"),
  ("ClearAllExtensions", "MessageTypeGoogleV1", "google.golang.org/protobuf/runtime/protoiface", "MessageV1"),
  ("ClearAllExtensions", "MessageTypeGoogle", "google.golang.org/protobuf/reflect/protoreflect", "ProtoMessage"),
  ("ClearAllExtensions", "MessageTypeGogo", "github.com/gogo/protobuf/proto", "Message"),
  ("MarshalText", "MessageTypeGoogle", "google.golang.org/protobuf/reflect/protoreflect", "ProtoMessage"),
  ("MarshalText", "MessageTypeGoogleV1", "google.golang.org/protobuf/runtime/protoiface", "MessageV1"),
  ("MarshalText", "MessageTypeGogo", "github.com/gogo/protobuf/proto", "Message")]

def deduceSkeleton : List String := ["0:if assert google.golang.org/protobuf/reflect/protoreflect.ProtoMessage", "1:return MessageTypeGoogle", "0:if .Kind(…) != reflect.Ptr", "1:return MessageTypeUnknown", "0:if assert github.com/gogo/protobuf/proto.Message", "1:if github.com/gogo/protobuf/proto.MessageName(…) != \"\"", "2:return MessageTypeGogo", "1:return MessageTypeGoogleV1", "0:return MessageTypeUnknown"]

def msgTypeProtocol : List String := ["nilcheck", ".Load", "deduceMsgType", ".Store"]

def jsonMarshalProbes : List String := ["encoding/json.Marshaler => .MarshalJSON", "google.golang.org/protobuf/reflect/protoreflect.ProtoMessage => .Marshal", "google.golang.org/protobuf/runtime/protoiface.MessageV1 => .Marshal", "github.com/gogo/protobuf/proto.Message => .Marshal"]

def jsonUnmarshalProbes : List String := ["encoding/json.Unmarshaler => .UnmarshalJSON", "google.golang.org/protobuf/reflect/protoreflect.ProtoMessage => .Unmarshal", "google.golang.org/protobuf/runtime/protoiface.MessageV1 => .Unmarshal", "github.com/gogo/protobuf/proto.Message => .Unmarshal"]

def resetProbes : List String := ["interface{Reset()} => .Reset"]

def marshalTextProbes : List String := ["encoding.TextMarshaler => .MarshalText"]

/-- (runtime option struct, its field, csproto option field it is wired to) -/
def jsonWiring : List (String × String × String) := [("google.golang.org/protobuf/encoding/protojson.MarshalOptions", "Indent", "indent"),
  ("google.golang.org/protobuf/encoding/protojson.MarshalOptions", "UseEnumNumbers", "useEnumNumbers"),
  ("google.golang.org/protobuf/encoding/protojson.MarshalOptions", "EmitUnpopulated", "emitZeroValues"),
  ("github.com/golang/protobuf/jsonpb.Marshaler", "Indent", "indent"),
  ("github.com/golang/protobuf/jsonpb.Marshaler", "EnumsAsInts", "useEnumNumbers"),
  ("github.com/golang/protobuf/jsonpb.Marshaler", "EmitDefaults", "emitZeroValues"),
  ("github.com/gogo/protobuf/jsonpb.Marshaler", "Indent", "indent"),
  ("github.com/gogo/protobuf/jsonpb.Marshaler", "EnumsAsInts", "useEnumNumbers"),
  ("github.com/gogo/protobuf/jsonpb.Marshaler", "EmitDefaults", "emitZeroValues"),
  ("google.golang.org/protobuf/encoding/protojson.UnmarshalOptions", "AllowPartial", "allowPartial"),
  ("google.golang.org/protobuf/encoding/protojson.UnmarshalOptions", "DiscardUnknown", "allowUnknownFields"),
  ("github.com/golang/protobuf/jsonpb.Unmarshaler", "AllowUnknownFields", "allowUnknownFields"),
  ("github.com/gogo/protobuf/jsonpb.Unmarshaler", "AllowUnknownFields", "allowUnknownFields")]

def jsonSetters : List (String × String) := [("JSONIndent", "indent"), ("JSONUseEnumNumbers", "useEnumNumbers"), ("JSONIncludeZeroValues", "emitZeroValues"), ("JSONAllowUnknownFields", "allowUnknownFields"), ("JSONAllowPartialMessages", "allowPartial")]

def grpcCodec : List String := ["Marshal -> Marshal", "Unmarshal -> Unmarshal", "Name = \"proto\""]

end Csproto.Generated
