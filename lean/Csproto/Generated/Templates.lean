/- REGENERATED on every run by harness/cmd/extract from /repo's templates. Do not edit. -/
namespace Csproto.Generated

/-- kinds routed by the independent `if`s of `SizeOfField` -/
def sizeDispatchKinds : List String := ["int32", "int64", "uint32", "uint64", "enum", "string", "bytes", "bool", "sint32", "sint64", "fixed32", "sfixed32", "float", "fixed64", "sfixed64", "double", "message"]

/-- kinds routed by `MarshalField` -/
def marshalDispatchKinds : List String := ["int32", "int64", "uint32", "uint64", "sint32", "sint64", "fixed32", "float", "fixed64", "double", "bool", "enum", "string", "bytes", "sfixed32", "sfixed64", "message"]

/-- kinds routed by `UnmarshalField` -/
def unmarshalDispatchKinds : List String := ["bool", "int32", "int64", "uint32", "uint64", "sint32", "sint64", "fixed32", "float", "fixed64", "double", "enum", "string", "bytes", "sfixed32", "sfixed64", "message"]

/-- kinds with an arm in the if/else chain of `SizeOfOneOf` -/
def sizeOneofKinds : List String := ["bool", "fixed32", "sfixed32", "float", "fixed64", "sfixed64", "double", "string", "bytes", "int32", "int64", "uint32", "uint32", "uint64", "enum", "sint32", "sint64", "message"]

/-- kinds with an arm in `MarshalOneOf` -/
def marshalOneofKinds : List String := ["bool", "int32", "int64", "uint32", "uint64", "sint32", "sint64", "fixed32", "float", "fixed64", "double", "sfixed32", "sfixed64", "enum", "string", "bytes", "message"]

/-- kinds with an arm in `UnmarshalOneOf` -/
def unmarshalOneofKinds : List String := ["bool", "int32", "int64", "uint32", "uint64", "sint32", "sint64", "fixed32", "fixed64", "float", "double", "double", "sfixed32", "sfixed64", "enum", "string", "bytes", "message"]

/-- kinds with an arm in the if/else chain of `UnmarshalNumber` -/
def unmarshalNumberKinds : List String := ["bool", "int32", "int64", "uint32", "uint64", "enum", "fixed32", "fixed64", "sint32", "sint64", "float", "double", "double"]

/-- kinds with an arm in `SizeOfExtension` (singular and repeated chains) -/
def sizeExtensionKinds : List String := ["bool", "fixed32", "sfixed32", "float", "fixed64", "sfixed64", "double", "int32", "int64", "uint32", "uint64", "enum", "sint32", "sint64", "string", "bytes", "message", "bool", "fixed32", "sfixed32", "float", "fixed64", "sfixed64", "double", "int32", "int64", "uint32", "uint64", "enum", "sint32", "sint64", "string", "bytes", "message"]

/-- kinds with an arm in `MarshalExtension` (singular and repeated chains) -/
def marshalExtensionKinds : List String := ["bool", "int32", "int64", "uint32", "uint64", "sint32", "sint64", "fixed32", "float", "fixed64", "double", "sfixed32", "sfixed64", "enum", "string", "bytes", "message", "bool", "int32", "int64", "uint32", "uint64", "sint32", "sint64", "fixed32", "float", "fixed64", "double", "sfixed32", "sfixed64", "enum", "string", "bytes", "message"]

/-- kinds with an arm in `UnmarshalExtension` (singular) -/
def unmarshalExtensionKinds : List String := ["message", "bool", "int32", "int64", "uint32", "uint64", "sint32", "sint64", "enum", "fixed32", "sfixed32", "float", "fixed64", "sfixed64", "double", "string", "bytes", "bytes"]

/-- kinds with an arm in `UnmarshalRepeatedExtension` -/
def unmarshalRepeatedExtensionKinds : List String := ["bool", "int32", "int64", "uint32", "uint64", "sint32", "sint64", "enum", "fixed32", "sfixed32", "float", "fixed64", "sfixed64", "double", "string", "bytes", "message", "bytes"]

/-- (extension snippet, it has an arm of its own for a repeated extension that walks / appends to the slice) -/
def extensionRepeatedArms : List (String × Bool) := [("SizeOfExtension", true), ("MarshalExtension", true), ("UnmarshalExtension", true)]

/-- `UnmarshalRepeatedExtension` loads the list held so far, appends (one value or a packed run) and stores it back -/
def repeatedExtensionAppends : Bool := true

/-- every `enc.EncodeNested(` call site: (define, its error is assigned and tested) -/
def encodeNestedSites : List (String × Bool) := [("MarshalMapEntry", true), ("MarshalMessage", true), ("MarshalMessage", true), ("MarshalMessage", true), ("MarshalOneOf", true), ("MarshalExtension", true), ("MarshalExtension", true)]

/-- every `DecodeBytes` use of the snippets: (define, copied | subdecoder | aliased) -/
def decodeBytesSites : List (String × String) := [("UnmarshalBytes", "copied"), ("UnmarshalMapEntry", "subdecoder"), ("UnmarshalMapEntry", "copied"), ("UnmarshalOneOf", "copied"), ("UnmarshalRepeatedExtension", "copied"), ("UnmarshalExtension", "copied")]

/-- (template, Size() sizes the extensions by `range getExtensions` over `SizeOfExtension`, MarshalTo writes them by `range getExtensions` over `MarshalExtension`): declaration order, fixed at generation time -/
def extensionLoops : List (String × Bool × Bool) := [("singlefile.go.tmpl", true, true), ("permessage.go.tmpl", true, true)]

/-- mentions, in the three templates, of the runtime calls that enumerate populated extensions in Go-map order (RangeExtensions, ExtensionDescs) -/
def runtimeOrderedIteration : Nat := 0

/-- (template, Unmarshal gets its decoder from exactly one `csproto.NewDecoder(p)`, every `SetMode(` of the template is `dec.SetMode(csproto.DecoderModeFast)` under `{{if $useUnsafeDecoder}}`) -/
def decoderSetup : List (String × Bool × Bool) := [("singlefile.go.tmpl", true, true), ("permessage.go.tmpl", true, true)]

/-- mentions of the runtime's size-cache fields / sync/atomic in the two file templates -/
def sizeCacheMentions : Nat := 0

/-- (template, Size counts the unknown fields, MarshalTo writes them, Unmarshal keeps them) -/
def unknownHandling : List (String × Bool × Bool × Bool) := [("singlefile.go.tmpl", true, true, true), ("permessage.go.tmpl", true, true, true)]

/-- (template, the `siz == 0` shortcut of Marshal is only taken without required fields, likewise the `len(p) == 0` shortcut of Unmarshal, Unmarshal runs the required-field check) -/
def requiredGuards : List (String × Bool × Bool × Bool) := [("singlefile.go.tmpl", true, true, true), ("permessage.go.tmpl", true, true, true)]

/-- (template, Marshal() fills a buffer it allocates itself with `make([]byte, siz)` and never re-assigns it, the operands of every `return` of Marshal()) -/
def marshalReturns : List (String × Bool × List String) := [("singlefile.go.tmpl", true, ["[]byte{}, nil", "buf, err"]), ("permessage.go.tmpl", true, ["[]byte{}, nil", "buf, err"])]

/-- mentions of a message's unknown-field storage (`SetUnknown(`, `XXX_unrecognized`, `unknownFields`) in the non-test Go files of the root package -/
def shimUnknownStoreMentions : Nat := 0

/-- (template, the first statement of the generated Unmarshal is `m.Reset()`) -/
def unmarshalResetsFirst : List (String × Bool) := [("singlefile.go.tmpl", true), ("permessage.go.tmpl", true)]

/-- the output-name suffixes of run.go (single file, file per message) -/
def nameSuffixes : List String := [".pb.fm.go", "_{{.Message.Desc.Name | string | lower}}.pb.fm.go"]

/-- the package-level variables of cmd/protoc-gen-fastmarshal (non-test files) that some function body writes to:
    assignment to the variable or to an element / field of it, increment or decrement, delete or clear, its address taken, a
    receiver-modifying method (Store, Lock, Do, …) called on it -/
def generatorGlobalsWritten : List String := []

/-- the options of the generator: (name, kind) of every `flags.<Kind>Var(&target, "name", …)` call in the non-test Go files of cmd/protoc-gen-fastmarshal (kind `value`: a flag.Value implementation) -/
def generatorOptions : List (String × String) := [("apiversion", "value"), ("dest", "string"), ("debug", "bool"), ("filepermessage", "bool"), ("specialname", "value"), ("enableunsafedecode", "bool")]

/-- how the value options of the generator (`flags.Var(&x.field, "name", …)`, a flag.Value whose Set runs once per `name=value` token) keep what they are given: (option, Go type of the target field, the underlying type in that type's declaration) -/
def generatorValueOptionStores : List (String × String × String) := [("apiversion", "protoAPIVersion", "string"), ("specialname", "specialNames", "map[string]struct{}")]

/-- mentions of `Reserved` (descriptor accessors ReservedRanges / ReservedNames) in the non-test Go files of the generator and of `reserved` in its three templates -/
def reservedMentions : Nat := 0

end Csproto.Generated
