/- REGENERATED on every run by harness/cmd/extract from /repo's Go source. Do not edit. -/
namespace Csproto.Generated

/-- decoder.go DecodeString: the unsafe conversion appears only under `case DecoderModeFast` -/
def decodeStringUnsafeOnlyFast : Bool := true
/-- decoder.go DecodeString: the default (safe) clause converts with `string(b)`, a copy -/
def decodeStringSafeCopies : Bool := true

/-- lazyproto (*Decoder).Decode clones the input when the mode is DecoderModeSafe -/
def lazyDecoderClonesInSafeMode : Bool := true
/-- lazyproto.Decode (package level) always decodes a clone of the input -/
def lazyDecodeFuncClones : Bool := true

/-- decoder.go NewDecoder: the body is `return &Decoder{…}` — a newly constructed value, nothing recycled -/
def newDecoderIsFreshLiteral : Bool := true
/-- the fields that literal sets (every other field, `mode` included, has its zero value: DecoderModeSafe) -/
def newDecoderLiteralFields : List String := ["p", "offset"]
/-- the functions of package csproto that assign the `mode` field of a Decoder -/
def decoderModeWriters : List String := ["SetMode"]

end Csproto.Generated
