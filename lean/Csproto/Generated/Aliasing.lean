/- REGENERATED on every run by harness/cmd/extract from /repo's Go source. Do not edit. -/
namespace Csproto.Generated

/-- decoder.go DecodeString: the unsafe conversion appears only under `case DecoderModeFast` -/
def decodeStringUnsafeOnlyFast : Bool := true
/-- decoder.go DecodeString: the default (safe) clause converts with `string(b)`, a copy -/
def decodeStringSafeCopies : Bool := true

/-- lazyproto (*Decoder).Decode clones the input when the mode is DecoderModeSafe -/
def lazyDecoderClonesInSafeMode : Bool := true
/-- lazyproto.Decode (package level) always decodes a clone of the input -/
def lazyDecodeFuncClones : Bool := true

end Csproto.Generated
