/- REGENERATED on every run by harness/cmd/extract (wirefuncs.go): the bodies of the wire primitives of
   /repo's encoder.go / decoder.go, translated statement by statement. Do not edit. -/
import Csproto.Model.GoSem
import Csproto.Generated.Facts
set_option linter.unusedVariables false
namespace Csproto.Generated.WireFuncs
open Csproto

/-! ### `EncodeVarint` (/repo/encoder.go:405:1) -/

structure EncodeVarint.St where
  dest : Bytes
  v : BitVec 64
  n : BitVec 64 := 0#64

abbrev EncodeVarint.R := BitVec 64

def EncodeVarint.loop1.cond : EncodeVarint.St → Option Bool := (fun s => some (BitVec.ule 128#64 s.v))
def EncodeVarint.loop1.body (fuel : Nat) : EncodeVarint.St → Go.Out EncodeVarint.St EncodeVarint.R :=
  (Go.seq (fun s => if ((s.n).toNat < s.dest.length) then .next { s with dest := Go.wr s.dest (s.n).toNat (BitVec.setWidth 8 ((s.v &&& 127#64) ||| 128#64)) } else .panic)
    (Go.seq (fun s => .next { s with v := (s.v >>> 7) })
    (fun s => .next { s with n := (s.n + 1#64) })))
def EncodeVarint.loop1.post : EncodeVarint.St → Go.Out EncodeVarint.St EncodeVarint.R := Go.skip

/-- the body of `EncodeVarint`, statement by statement -/
def EncodeVarint.body (fuel : Nat) : EncodeVarint.St → Go.Out EncodeVarint.St EncodeVarint.R :=
  (Go.seq (Go.seq (fun s => .next { s with n := 0#64 })
    (Go.seq (Go.seq Go.skip (Go.loop EncodeVarint.loop1.cond (EncodeVarint.loop1.body fuel) EncodeVarint.loop1.post fuel))
    (Go.seq (fun s => if ((s.n).toNat < s.dest.length) then .next { s with dest := Go.wr s.dest (s.n).toNat (BitVec.setWidth 8 s.v) } else .panic)
    (fun s => .ret ((s.n + 1#64)) s))))
    Go.missingReturn)

def EncodeVarint (fuel : Nat) (dest : Bytes) (v : BitVec 64) : Go.Out EncodeVarint.St EncodeVarint.R :=
  EncodeVarint.body fuel { dest := dest, v := v }

/-! ### `DecodeVarint` (/repo/decoder.go:1015:1) -/

structure DecodeVarint.St where
  p : Bytes
  v : BitVec 64 := 0#64
  n : BitVec 64 := 0#64
  err : Go.Err := Go.Err.nil
  shift : BitVec 64 := 0#64
  b : BitVec 64 := 0#64
  i : BitVec 64 := 0#64

abbrev DecodeVarint.R := BitVec 64 × BitVec 64 × Go.Err

def DecodeVarint.loop1.cond : DecodeVarint.St → Option Bool := (fun s => some (BitVec.ult s.shift 64#64))
def DecodeVarint.loop1.body (fuel : Nat) : DecodeVarint.St → Go.Out DecodeVarint.St DecodeVarint.R :=
  (Go.seq (fun s => if (BitVec.sle (BitVec.ofNat 64 s.p.length) s.n) then (fun s => .ret (0#64, 0#64, Go.Err.unexpectedEOF) s) s else Go.skip s)
    (Go.seq (fun s => if ((s.n).toNat < s.p.length) then .next { s with b := (BitVec.setWidth 64 (Go.rd s.p (s.n).toNat)) } else .panic)
    (Go.seq (fun s => .next { s with n := (s.n + 1#64) })
    (Go.seq (fun s => .next { s with v := (s.v ||| ((s.b &&& 127#64) <<< (s.shift).toNat)) })
    (fun s => if ((s.b &&& 128#64) == 0#64) then (fun s => .ret (s.v, s.n, Go.Err.nil) s) s else Go.skip s)))))
def DecodeVarint.loop1.post : DecodeVarint.St → Go.Out DecodeVarint.St DecodeVarint.R := (fun s => .next { s with shift := (s.shift + 7#64) })

def DecodeVarint.loop2.cond : DecodeVarint.St → Option Bool := (fun s => some (BitVec.slt s.i 10#64))
def DecodeVarint.loop2.body (fuel : Nat) : DecodeVarint.St → Go.Out DecodeVarint.St DecodeVarint.R :=
  (Go.seq (fun s => if ((s.i).toNat < s.p.length) then .next { s with b := (BitVec.setWidth 64 (Go.rd s.p (s.i).toNat)) } else .panic)
    (Go.seq (fun s => .next { s with v := (s.v ||| ((s.b &&& 127#64) <<< (s.shift).toNat)) })
    (fun s => if ((s.b &&& 128#64) == 0#64) then (fun s => .ret (s.v, (s.i + 1#64), Go.Err.nil) s) s else Go.skip s)))
def DecodeVarint.loop2.post : DecodeVarint.St → Go.Out DecodeVarint.St DecodeVarint.R := (fun s => .next { s with i := (s.i + 1#64), shift := (s.shift + 7#64) })

/-- the body of `DecodeVarint`, statement by statement -/
def DecodeVarint.body (fuel : Nat) : DecodeVarint.St → Go.Out DecodeVarint.St DecodeVarint.R :=
  (Go.seq (Go.seq (fun s => if ((BitVec.ofNat 64 s.p.length) == 0#64) then (fun s => .ret (0#64, 0#64, Go.Err.invalidVarint) s) s else Go.skip s)
    (Go.seq (fun s => if ((0#64).toNat < s.p.length) then if (BitVec.ult (Go.rd s.p (0#64).toNat) 128#8) then (fun s => if ((0#64).toNat < s.p.length) then .ret ((BitVec.setWidth 64 (Go.rd s.p (0#64).toNat)), 1#64, Go.Err.nil) s else .panic) s else Go.skip s else .panic)
    (Go.seq (fun s => if (BitVec.slt (BitVec.ofNat 64 s.p.length) 10#64) then (Go.seq (Go.seq (fun s => .next { s with shift := 0#64 }) (Go.loop DecodeVarint.loop1.cond (DecodeVarint.loop1.body fuel) DecodeVarint.loop1.post fuel))
    (fun s => .ret (0#64, 0#64, Go.Err.overflow) s)) s else Go.skip s)
    (Go.seq (fun s => if ((0#64).toNat < s.p.length) then .next { s with v := (BitVec.setWidth 64 ((Go.rd s.p (0#64).toNat) &&& 127#8)) } else .panic)
    (Go.seq (Go.seq (fun s => .next { s with i := 1#64, shift := 7#64 }) (Go.loop DecodeVarint.loop2.cond (DecodeVarint.loop2.body fuel) DecodeVarint.loop2.post fuel))
    (fun s => .ret (0#64, 0#64, Go.Err.overflow) s))))))
    Go.missingReturn)

def DecodeVarint (fuel : Nat) (p : Bytes) : Go.Out DecodeVarint.St DecodeVarint.R :=
  DecodeVarint.body fuel { p := p }

/-! ### `DecodeFixed32` (/repo/decoder.go:1087:1) -/

structure DecodeFixed32.St where
  p : Bytes
  v : BitVec 32 := 0#32
  n : BitVec 64 := 0#64
  err : Go.Err := Go.Err.nil

abbrev DecodeFixed32.R := BitVec 32 × BitVec 64 × Go.Err

/-- the body of `DecodeFixed32`, statement by statement -/
def DecodeFixed32.body (fuel : Nat) : DecodeFixed32.St → Go.Out DecodeFixed32.St DecodeFixed32.R :=
  (Go.seq (Go.seq (fun s => if (BitVec.slt (BitVec.ofNat 64 s.p.length) 4#64) then (fun s => .ret (0#32, 0#64, Go.Err.unexpectedEOF) s) s else Go.skip s)
    (Go.seq (fun s => if ((4#64).toNat ≤ s.p.length) then .next { s with p := (s.p.take (4#64).toNat) } else .panic)
    (Go.seq (fun s => if ((0#64).toNat < s.p.length) then .next { s with v := (BitVec.setWidth 32 (Go.rd s.p (0#64).toNat)) } else .panic)
    (Go.seq (fun s => if ((1#64).toNat < s.p.length) then .next { s with v := (s.v ||| ((BitVec.setWidth 32 (Go.rd s.p (1#64).toNat)) <<< 8)) } else .panic)
    (Go.seq (fun s => if ((2#64).toNat < s.p.length) then .next { s with v := (s.v ||| ((BitVec.setWidth 32 (Go.rd s.p (2#64).toNat)) <<< 16)) } else .panic)
    (Go.seq (fun s => if ((3#64).toNat < s.p.length) then .next { s with v := (s.v ||| ((BitVec.setWidth 32 (Go.rd s.p (3#64).toNat)) <<< 24)) } else .panic)
    (fun s => .ret (s.v, 4#64, Go.Err.nil) s)))))))
    Go.missingReturn)

def DecodeFixed32 (fuel : Nat) (p : Bytes) : Go.Out DecodeFixed32.St DecodeFixed32.R :=
  DecodeFixed32.body fuel { p := p }

/-! ### `DecodeFixed64` (/repo/decoder.go:1102:1) -/

structure DecodeFixed64.St where
  p : Bytes
  v : BitVec 64 := 0#64
  n : BitVec 64 := 0#64
  err : Go.Err := Go.Err.nil

abbrev DecodeFixed64.R := BitVec 64 × BitVec 64 × Go.Err

/-- the body of `DecodeFixed64`, statement by statement -/
def DecodeFixed64.body (fuel : Nat) : DecodeFixed64.St → Go.Out DecodeFixed64.St DecodeFixed64.R :=
  (Go.seq (Go.seq (fun s => if (BitVec.slt (BitVec.ofNat 64 s.p.length) 8#64) then (fun s => .ret (0#64, 0#64, Go.Err.unexpectedEOF) s) s else Go.skip s)
    (Go.seq (fun s => if ((8#64).toNat ≤ s.p.length) then .next { s with p := (s.p.take (8#64).toNat) } else .panic)
    (Go.seq (fun s => if ((0#64).toNat < s.p.length) then .next { s with v := (BitVec.setWidth 64 (Go.rd s.p (0#64).toNat)) } else .panic)
    (Go.seq (fun s => if ((1#64).toNat < s.p.length) then .next { s with v := (s.v ||| ((BitVec.setWidth 64 (Go.rd s.p (1#64).toNat)) <<< 8)) } else .panic)
    (Go.seq (fun s => if ((2#64).toNat < s.p.length) then .next { s with v := (s.v ||| ((BitVec.setWidth 64 (Go.rd s.p (2#64).toNat)) <<< 16)) } else .panic)
    (Go.seq (fun s => if ((3#64).toNat < s.p.length) then .next { s with v := (s.v ||| ((BitVec.setWidth 64 (Go.rd s.p (3#64).toNat)) <<< 24)) } else .panic)
    (Go.seq (fun s => if ((4#64).toNat < s.p.length) then .next { s with v := (s.v ||| ((BitVec.setWidth 64 (Go.rd s.p (4#64).toNat)) <<< 32)) } else .panic)
    (Go.seq (fun s => if ((5#64).toNat < s.p.length) then .next { s with v := (s.v ||| ((BitVec.setWidth 64 (Go.rd s.p (5#64).toNat)) <<< 40)) } else .panic)
    (Go.seq (fun s => if ((6#64).toNat < s.p.length) then .next { s with v := (s.v ||| ((BitVec.setWidth 64 (Go.rd s.p (6#64).toNat)) <<< 48)) } else .panic)
    (Go.seq (fun s => if ((7#64).toNat < s.p.length) then .next { s with v := (s.v ||| ((BitVec.setWidth 64 (Go.rd s.p (7#64).toNat)) <<< 56)) } else .panic)
    (fun s => .ret (s.v, 8#64, Go.Err.nil) s)))))))))))
    Go.missingReturn)

def DecodeFixed64 (fuel : Nat) (p : Bytes) : Go.Out DecodeFixed64.St DecodeFixed64.R :=
  DecodeFixed64.body fuel { p := p }

/-! ### `EncodeFixed32` (/repo/encoder.go:418:1) -/

structure EncodeFixed32.St where
  dest : Bytes
  v : BitVec 32

abbrev EncodeFixed32.R := BitVec 64

/-- the body of `EncodeFixed32`, statement by statement -/
def EncodeFixed32.body (fuel : Nat) : EncodeFixed32.St → Go.Out EncodeFixed32.St EncodeFixed32.R :=
  (Go.seq (Go.seq (fun s => if 4 ≤ s.dest.length then .next { s with dest := Go.putLE s.dest 4 (s.v).toNat } else .panic)
    (fun s => .ret (4#64) s))
    Go.missingReturn)

def EncodeFixed32 (fuel : Nat) (dest : Bytes) (v : BitVec 32) : Go.Out EncodeFixed32.St EncodeFixed32.R :=
  EncodeFixed32.body fuel { dest := dest, v := v }

/-! ### `EncodeFixed64` (/repo/encoder.go:425:1) -/

structure EncodeFixed64.St where
  dest : Bytes
  v : BitVec 64

abbrev EncodeFixed64.R := BitVec 64

/-- the body of `EncodeFixed64`, statement by statement -/
def EncodeFixed64.body (fuel : Nat) : EncodeFixed64.St → Go.Out EncodeFixed64.St EncodeFixed64.R :=
  (Go.seq (Go.seq (fun s => if 8 ≤ s.dest.length then .next { s with dest := Go.putLE s.dest 8 (s.v).toNat } else .panic)
    (fun s => .ret (8#64) s))
    Go.missingReturn)

def EncodeFixed64 (fuel : Nat) (dest : Bytes) (v : BitVec 64) : Go.Out EncodeFixed64.St EncodeFixed64.R :=
  EncodeFixed64.body fuel { dest := dest, v := v }

/-! ### `EncodeTag` (/repo/encoder.go:394:1) -/

structure EncodeTag.St where
  dest : Bytes
  tag : BitVec 64
  wireType : BitVec 64
  k : BitVec 64 := 0#64

abbrev EncodeTag.R := BitVec 64

/-- the body of `EncodeTag`, statement by statement -/
def EncodeTag.body (fuel : Nat) : EncodeTag.St → Go.Out EncodeTag.St EncodeTag.R :=
  (Go.seq (Go.seq (fun s => .next { s with k := ((s.tag <<< 3) ||| s.wireType) })
    (fun s => match (EncodeVarint fuel s.dest s.k) with | .ret r c => .ret r { s with dest := c.dest } | .next _ => .panic | .panic => .panic | .diverge => .diverge))
    Go.missingReturn)

def EncodeTag (fuel : Nat) (dest : Bytes) (tag : BitVec 64) (wireType : BitVec 64) : Go.Out EncodeTag.St EncodeTag.R :=
  EncodeTag.body fuel { dest := dest, tag := tag, wireType := wireType }

/-! ### `EncodeZigZag32` (/repo/encoder.go:432:1) -/

structure EncodeZigZag32.St where
  dest : Bytes
  v : BitVec 32
  zz : BitVec 64 := 0#64

abbrev EncodeZigZag32.R := BitVec 64

/-- the body of `EncodeZigZag32`, statement by statement -/
def EncodeZigZag32.body (fuel : Nat) : EncodeZigZag32.St → Go.Out EncodeZigZag32.St EncodeZigZag32.R :=
  (Go.seq (Go.seq (fun s => .next { s with zz := (BitVec.setWidth 64 ((s.v <<< 1) ^^^ (BitVec.sshiftRight s.v 31))) })
    (fun s => match (EncodeVarint fuel s.dest s.zz) with | .ret r c => .ret r { s with dest := c.dest } | .next _ => .panic | .panic => .panic | .diverge => .diverge))
    Go.missingReturn)

def EncodeZigZag32 (fuel : Nat) (dest : Bytes) (v : BitVec 32) : Go.Out EncodeZigZag32.St EncodeZigZag32.R :=
  EncodeZigZag32.body fuel { dest := dest, v := v }

/-! ### `EncodeZigZag64` (/repo/encoder.go:439:1) -/

structure EncodeZigZag64.St where
  dest : Bytes
  v : BitVec 64
  zz : BitVec 64 := 0#64

abbrev EncodeZigZag64.R := BitVec 64

/-- the body of `EncodeZigZag64`, statement by statement -/
def EncodeZigZag64.body (fuel : Nat) : EncodeZigZag64.St → Go.Out EncodeZigZag64.St EncodeZigZag64.R :=
  (Go.seq (Go.seq (fun s => .next { s with zz := ((s.v <<< 1) ^^^ (BitVec.sshiftRight s.v 63)) })
    (fun s => match (EncodeVarint fuel s.dest s.zz) with | .ret r c => .ret r { s with dest := c.dest } | .next _ => .panic | .panic => .panic | .diverge => .diverge))
    Go.missingReturn)

def EncodeZigZag64 (fuel : Nat) (dest : Bytes) (v : BitVec 64) : Go.Out EncodeZigZag64.St EncodeZigZag64.R :=
  EncodeZigZag64.body fuel { dest := dest, v := v }

/-! ### `DecodeZigZag32` (/repo/decoder.go:1055:1) -/

structure DecodeZigZag32.St where
  p : Bytes
  v : BitVec 32 := 0#32
  n : BitVec 64 := 0#64
  err : Go.Err := Go.Err.nil
  dv : BitVec 64 := 0#64

abbrev DecodeZigZag32.R := BitVec 32 × BitVec 64 × Go.Err

/-- the body of `DecodeZigZag32`, statement by statement -/
def DecodeZigZag32.body (fuel : Nat) : DecodeZigZag32.St → Go.Out DecodeZigZag32.St DecodeZigZag32.R :=
  (Go.seq (Go.seq Go.skip
    (Go.seq (fun s => match (DecodeVarint fuel s.p) with | .ret r c => .next { s with dv := r.1, n := r.2.1, err := r.2.2 } | .next _ => .panic | .panic => .panic | .diverge => .diverge)
    (Go.seq (fun s => if (s.err != Go.Err.nil) then (fun s => .ret (0#32, 0#64, s.err) s) s else Go.skip s)
    (Go.seq (fun s => if (s.n == 0#64) then (fun s => .ret (0#32, 0#64, Go.Err.invalidVarint) s) s else Go.skip s)
    (Go.seq (fun s => .next { s with dv := (BitVec.setWidth 64 (((BitVec.setWidth 32 s.dv) >>> 1) ^^^ (BitVec.sshiftRight ((BitVec.setWidth 32 (s.dv &&& 1#64)) <<< 31) 31))) })
    (fun s => .ret ((BitVec.setWidth 32 s.dv), s.n, Go.Err.nil) s))))))
    Go.missingReturn)

def DecodeZigZag32 (fuel : Nat) (p : Bytes) : Go.Out DecodeZigZag32.St DecodeZigZag32.R :=
  DecodeZigZag32.body fuel { p := p }

/-! ### `DecodeZigZag64` (/repo/decoder.go:1072:1) -/

structure DecodeZigZag64.St where
  p : Bytes
  v : BitVec 64 := 0#64
  n : BitVec 64 := 0#64
  err : Go.Err := Go.Err.nil
  dv : BitVec 64 := 0#64

abbrev DecodeZigZag64.R := BitVec 64 × BitVec 64 × Go.Err

/-- the body of `DecodeZigZag64`, statement by statement -/
def DecodeZigZag64.body (fuel : Nat) : DecodeZigZag64.St → Go.Out DecodeZigZag64.St DecodeZigZag64.R :=
  (Go.seq (Go.seq Go.skip
    (Go.seq (fun s => match (DecodeVarint fuel s.p) with | .ret r c => .next { s with dv := r.1, n := r.2.1, err := r.2.2 } | .next _ => .panic | .panic => .panic | .diverge => .diverge)
    (Go.seq (fun s => if (s.err != Go.Err.nil) then (fun s => .ret (0#64, 0#64, s.err) s) s else Go.skip s)
    (Go.seq (fun s => if (s.n == 0#64) then (fun s => .ret (0#64, 0#64, Go.Err.invalidVarint) s) s else Go.skip s)
    (Go.seq (fun s => .next { s with dv := ((s.dv >>> 1) ^^^ (BitVec.sshiftRight ((s.dv &&& 1#64) <<< 63) 63)) })
    (fun s => .ret (s.dv, s.n, Go.Err.nil) s))))))
    Go.missingReturn)

def DecodeZigZag64 (fuel : Nat) (p : Bytes) : Go.Out DecodeZigZag64.St DecodeZigZag64.R :=
  DecodeZigZag64.body fuel { p := p }

/-! ### `Decoder.Offset` (/repo/decoder.go:125:1) -/

structure Decoder_Offset.St where
  d_p : Bytes
  d_offset : BitVec 64
  d_mode : BitVec 64
  d_keyStart : BitVec 64
  d_keyEnd : BitVec 64

abbrev Decoder_Offset.R := BitVec 64

/-- the body of `Decoder_Offset`, statement by statement -/
def Decoder_Offset.body (fuel : Nat) : Decoder_Offset.St → Go.Out Decoder_Offset.St Decoder_Offset.R :=
  (Go.seq (fun s => .ret (s.d_offset) s)
    Go.missingReturn)

def Decoder_Offset (fuel : Nat) (d_p : Bytes) (d_offset : BitVec 64) (d_mode : BitVec 64) (d_keyStart : BitVec 64) (d_keyEnd : BitVec 64) : Go.Out Decoder_Offset.St Decoder_Offset.R :=
  Decoder_Offset.body fuel { d_p := d_p, d_offset := d_offset, d_mode := d_mode, d_keyStart := d_keyStart, d_keyEnd := d_keyEnd }

/-! ### `Decoder.Reset` (/repo/decoder.go:115:1) -/

structure Decoder_Reset.St where
  d_p : Bytes
  d_offset : BitVec 64
  d_mode : BitVec 64
  d_keyStart : BitVec 64
  d_keyEnd : BitVec 64

abbrev Decoder_Reset.R := Unit

/-- the body of `Decoder_Reset`, statement by statement -/
def Decoder_Reset.body (fuel : Nat) : Decoder_Reset.St → Go.Out Decoder_Reset.St Decoder_Reset.R :=
  (Go.seq (fun s => .next { s with d_offset := 0#64 })
    (fun s => .ret () s))

def Decoder_Reset (fuel : Nat) (d_p : Bytes) (d_offset : BitVec 64) (d_mode : BitVec 64) (d_keyStart : BitVec 64) (d_keyEnd : BitVec 64) : Go.Out Decoder_Reset.St Decoder_Reset.R :=
  Decoder_Reset.body fuel { d_p := d_p, d_offset := d_offset, d_mode := d_mode, d_keyStart := d_keyStart, d_keyEnd := d_keyEnd }

/-! ### `Decoder.DecodeTag` (/repo/decoder.go:132:1) -/

structure Decoder_DecodeTag.St where
  d_p : Bytes
  d_offset : BitVec 64
  d_mode : BitVec 64
  d_keyStart : BitVec 64
  d_keyEnd : BitVec 64
  tag : BitVec 64 := 0#64
  wireType : BitVec 64 := 0#64
  err : Go.Err := Go.Err.nil
  v : BitVec 64 := 0#64
  n : BitVec 64 := 0#64

abbrev Decoder_DecodeTag.R := BitVec 64 × BitVec 64 × Go.Err

/-- the body of `Decoder_DecodeTag`, statement by statement -/
def Decoder_DecodeTag.body (fuel : Nat) : Decoder_DecodeTag.St → Go.Out Decoder_DecodeTag.St Decoder_DecodeTag.R :=
  (Go.seq (Go.seq (fun s => if (BitVec.sle (BitVec.ofNat 64 s.d_p.length) s.d_offset) then (fun s => .ret (0#64, 0#64, Go.Err.unexpectedEOF) s) s else Go.skip s)
    (Go.seq (fun s => if ((s.d_offset).toNat ≤ s.d_p.length) then match (DecodeVarint fuel (s.d_p.drop (s.d_offset).toNat)) with | .ret r c => .next { s with v := r.1, n := r.2.1, err := r.2.2 } | .next _ => .panic | .panic => .panic | .diverge => .diverge else .panic)
    (Go.seq (fun s => if (s.err != Go.Err.nil) then (fun s => .ret (0#64, (BitVec.ofInt 64 (-1)), s.err) s) s else Go.skip s)
    (Go.seq (fun s => if (((BitVec.slt s.n 1#64) || (BitVec.ult s.v 1#64)) || (BitVec.ult 536870911#64 (s.v >>> 3))) then (fun s => .ret (0#64, (BitVec.ofInt 64 (-1)), (Go.Err.other "ErrInvalidFieldTag")) s) s else Go.skip s)
    (Go.seq (fun s => .next { s with d_keyStart := s.d_offset, d_keyEnd := (s.d_offset + s.n) })
    (Go.seq (fun s => .next { s with d_offset := (s.d_offset + s.n) })
    (fun s => .ret ((s.v >>> 3), (s.v &&& 7#64), Go.Err.nil) s)))))))
    Go.missingReturn)

def Decoder_DecodeTag (fuel : Nat) (d_p : Bytes) (d_offset : BitVec 64) (d_mode : BitVec 64) (d_keyStart : BitVec 64) (d_keyEnd : BitVec 64) : Go.Out Decoder_DecodeTag.St Decoder_DecodeTag.R :=
  Decoder_DecodeTag.body fuel { d_p := d_p, d_offset := d_offset, d_mode := d_mode, d_keyStart := d_keyStart, d_keyEnd := d_keyEnd }

/-! ### `Decoder.DecodeUInt64` (/repo/decoder.go:240:1) -/

structure Decoder_DecodeUInt64.St where
  d_p : Bytes
  d_offset : BitVec 64
  d_mode : BitVec 64
  d_keyStart : BitVec 64
  d_keyEnd : BitVec 64
  v : BitVec 64 := 0#64
  n : BitVec 64 := 0#64
  err : Go.Err := Go.Err.nil

abbrev Decoder_DecodeUInt64.R := BitVec 64 × Go.Err

/-- the body of `Decoder_DecodeUInt64`, statement by statement -/
def Decoder_DecodeUInt64.body (fuel : Nat) : Decoder_DecodeUInt64.St → Go.Out Decoder_DecodeUInt64.St Decoder_DecodeUInt64.R :=
  (Go.seq (Go.seq (fun s => if (BitVec.sle (BitVec.ofNat 64 s.d_p.length) s.d_offset) then (fun s => .ret (0#64, Go.Err.unexpectedEOF) s) s else Go.skip s)
    (Go.seq (fun s => if ((s.d_offset).toNat ≤ s.d_p.length) then match (DecodeVarint fuel (s.d_p.drop (s.d_offset).toNat)) with | .ret r c => .next { s with v := r.1, n := r.2.1, err := r.2.2 } | .next _ => .panic | .panic => .panic | .diverge => .diverge else .panic)
    (Go.seq (fun s => if (s.err != Go.Err.nil) then (fun s => .ret (0#64, s.err) s) s else Go.skip s)
    (Go.seq (fun s => if (s.n == 0#64) then (fun s => .ret (0#64, Go.Err.invalidVarint) s) s else Go.skip s)
    (Go.seq (fun s => .next { s with d_offset := (s.d_offset + s.n) })
    (fun s => .ret (s.v, Go.Err.nil) s))))))
    Go.missingReturn)

def Decoder_DecodeUInt64 (fuel : Nat) (d_p : Bytes) (d_offset : BitVec 64) (d_mode : BitVec 64) (d_keyStart : BitVec 64) (d_keyEnd : BitVec 64) : Go.Out Decoder_DecodeUInt64.St Decoder_DecodeUInt64.R :=
  Decoder_DecodeUInt64.body fuel { d_p := d_p, d_offset := d_offset, d_mode := d_mode, d_keyStart := d_keyStart, d_keyEnd := d_keyEnd }

/-! ### `Decoder.DecodeInt64` (/repo/decoder.go:280:1) -/

structure Decoder_DecodeInt64.St where
  d_p : Bytes
  d_offset : BitVec 64
  d_mode : BitVec 64
  d_keyStart : BitVec 64
  d_keyEnd : BitVec 64
  v : BitVec 64 := 0#64
  n : BitVec 64 := 0#64
  err : Go.Err := Go.Err.nil

abbrev Decoder_DecodeInt64.R := BitVec 64 × Go.Err

/-- the body of `Decoder_DecodeInt64`, statement by statement -/
def Decoder_DecodeInt64.body (fuel : Nat) : Decoder_DecodeInt64.St → Go.Out Decoder_DecodeInt64.St Decoder_DecodeInt64.R :=
  (Go.seq (Go.seq (fun s => if (BitVec.sle (BitVec.ofNat 64 s.d_p.length) s.d_offset) then (fun s => .ret (0#64, Go.Err.unexpectedEOF) s) s else Go.skip s)
    (Go.seq (fun s => if ((s.d_offset).toNat ≤ s.d_p.length) then match (DecodeVarint fuel (s.d_p.drop (s.d_offset).toNat)) with | .ret r c => .next { s with v := r.1, n := r.2.1, err := r.2.2 } | .next _ => .panic | .panic => .panic | .diverge => .diverge else .panic)
    (Go.seq (fun s => if (s.err != Go.Err.nil) then (fun s => .ret (0#64, s.err) s) s else Go.skip s)
    (Go.seq (fun s => if (s.n == 0#64) then (fun s => .ret (0#64, Go.Err.invalidVarint) s) s else Go.skip s)
    (Go.seq (fun s => .next { s with d_offset := (s.d_offset + s.n) })
    (fun s => .ret (s.v, Go.Err.nil) s))))))
    Go.missingReturn)

def Decoder_DecodeInt64 (fuel : Nat) (d_p : Bytes) (d_offset : BitVec 64) (d_mode : BitVec 64) (d_keyStart : BitVec 64) (d_keyEnd : BitVec 64) : Go.Out Decoder_DecodeInt64.St Decoder_DecodeInt64.R :=
  Decoder_DecodeInt64.body fuel { d_p := d_p, d_offset := d_offset, d_mode := d_mode, d_keyStart := d_keyStart, d_keyEnd := d_keyEnd }

/-! ### `Decoder.DecodeUInt32` (/repo/decoder.go:219:1) -/

structure Decoder_DecodeUInt32.St where
  d_p : Bytes
  d_offset : BitVec 64
  d_mode : BitVec 64
  d_keyStart : BitVec 64
  d_keyEnd : BitVec 64
  v : BitVec 64 := 0#64
  n : BitVec 64 := 0#64
  err : Go.Err := Go.Err.nil

abbrev Decoder_DecodeUInt32.R := BitVec 32 × Go.Err

/-- the body of `Decoder_DecodeUInt32`, statement by statement -/
def Decoder_DecodeUInt32.body (fuel : Nat) : Decoder_DecodeUInt32.St → Go.Out Decoder_DecodeUInt32.St Decoder_DecodeUInt32.R :=
  (Go.seq (Go.seq (fun s => if (BitVec.sle (BitVec.ofNat 64 s.d_p.length) s.d_offset) then (fun s => .ret (0#32, Go.Err.unexpectedEOF) s) s else Go.skip s)
    (Go.seq (fun s => if ((s.d_offset).toNat ≤ s.d_p.length) then match (DecodeVarint fuel (s.d_p.drop (s.d_offset).toNat)) with | .ret r c => .next { s with v := r.1, n := r.2.1, err := r.2.2 } | .next _ => .panic | .panic => .panic | .diverge => .diverge else .panic)
    (Go.seq (fun s => if (s.err != Go.Err.nil) then (fun s => .ret (0#32, s.err) s) s else Go.skip s)
    (Go.seq (fun s => if (s.n == 0#64) then (fun s => .ret (0#32, Go.Err.invalidVarint) s) s else Go.skip s)
    (Go.seq (fun s => if (BitVec.ult 4294967295#64 s.v) then (fun s => .ret (0#32, Go.Err.overflow) s) s else Go.skip s)
    (Go.seq (fun s => .next { s with d_offset := (s.d_offset + s.n) })
    (fun s => .ret ((BitVec.setWidth 32 s.v), Go.Err.nil) s)))))))
    Go.missingReturn)

def Decoder_DecodeUInt32 (fuel : Nat) (d_p : Bytes) (d_offset : BitVec 64) (d_mode : BitVec 64) (d_keyStart : BitVec 64) (d_keyEnd : BitVec 64) : Go.Out Decoder_DecodeUInt32.St Decoder_DecodeUInt32.R :=
  Decoder_DecodeUInt32.body fuel { d_p := d_p, d_offset := d_offset, d_mode := d_mode, d_keyStart := d_keyStart, d_keyEnd := d_keyEnd }

/-! ### `Decoder.DecodeInt32` (/repo/decoder.go:258:1) -/

structure Decoder_DecodeInt32.St where
  d_p : Bytes
  d_offset : BitVec 64
  d_mode : BitVec 64
  d_keyStart : BitVec 64
  d_keyEnd : BitVec 64
  v : BitVec 64 := 0#64
  n : BitVec 64 := 0#64
  err : Go.Err := Go.Err.nil
  i64 : BitVec 64 := 0#64

abbrev Decoder_DecodeInt32.R := BitVec 32 × Go.Err

/-- the body of `Decoder_DecodeInt32`, statement by statement -/
def Decoder_DecodeInt32.body (fuel : Nat) : Decoder_DecodeInt32.St → Go.Out Decoder_DecodeInt32.St Decoder_DecodeInt32.R :=
  (Go.seq (Go.seq (fun s => if (BitVec.sle (BitVec.ofNat 64 s.d_p.length) s.d_offset) then (fun s => .ret (0#32, Go.Err.unexpectedEOF) s) s else Go.skip s)
    (Go.seq (fun s => if ((s.d_offset).toNat ≤ s.d_p.length) then match (DecodeVarint fuel (s.d_p.drop (s.d_offset).toNat)) with | .ret r c => .next { s with v := r.1, n := r.2.1, err := r.2.2 } | .next _ => .panic | .panic => .panic | .diverge => .diverge else .panic)
    (Go.seq (fun s => if (s.err != Go.Err.nil) then (fun s => .ret (0#32, s.err) s) s else Go.skip s)
    (Go.seq (fun s => if (s.n == 0#64) then (fun s => .ret (0#32, Go.Err.invalidVarint) s) s else Go.skip s)
    (Go.seq (Go.seq (fun s => .next { s with i64 := s.v }) (fun s => if ((BitVec.slt 2147483647#64 s.i64) || (BitVec.slt s.i64 (BitVec.ofInt 64 (-2147483648)))) then (fun s => .ret (0#32, Go.Err.overflow) s) s else Go.skip s))
    (Go.seq (fun s => .next { s with d_offset := (s.d_offset + s.n) })
    (fun s => .ret ((BitVec.setWidth 32 s.v), Go.Err.nil) s)))))))
    Go.missingReturn)

def Decoder_DecodeInt32 (fuel : Nat) (d_p : Bytes) (d_offset : BitVec 64) (d_mode : BitVec 64) (d_keyStart : BitVec 64) (d_keyEnd : BitVec 64) : Go.Out Decoder_DecodeInt32.St Decoder_DecodeInt32.R :=
  Decoder_DecodeInt32.body fuel { d_p := d_p, d_offset := d_offset, d_mode := d_mode, d_keyStart := d_keyStart, d_keyEnd := d_keyEnd }

/-! ### `Decoder.DecodeSInt32` (/repo/decoder.go:298:1) -/

structure Decoder_DecodeSInt32.St where
  d_p : Bytes
  d_offset : BitVec 64
  d_mode : BitVec 64
  d_keyStart : BitVec 64
  d_keyEnd : BitVec 64
  v : BitVec 32 := 0#32
  n : BitVec 64 := 0#64
  err : Go.Err := Go.Err.nil

abbrev Decoder_DecodeSInt32.R := BitVec 32 × Go.Err

/-- the body of `Decoder_DecodeSInt32`, statement by statement -/
def Decoder_DecodeSInt32.body (fuel : Nat) : Decoder_DecodeSInt32.St → Go.Out Decoder_DecodeSInt32.St Decoder_DecodeSInt32.R :=
  (Go.seq (Go.seq (fun s => if (BitVec.sle (BitVec.ofNat 64 s.d_p.length) s.d_offset) then (fun s => .ret (0#32, Go.Err.unexpectedEOF) s) s else Go.skip s)
    (Go.seq (fun s => if ((s.d_offset).toNat ≤ s.d_p.length) then match (DecodeZigZag32 fuel (s.d_p.drop (s.d_offset).toNat)) with | .ret r c => .next { s with v := r.1, n := r.2.1, err := r.2.2 } | .next _ => .panic | .panic => .panic | .diverge => .diverge else .panic)
    (Go.seq (fun s => if (s.err != Go.Err.nil) then (fun s => .ret (0#32, s.err) s) s else Go.skip s)
    (Go.seq (fun s => if (s.n == 0#64) then (fun s => .ret (0#32, (Go.Err.other "ErrInvalidZigZagData")) s) s else Go.skip s)
    (Go.seq (fun s => .next { s with d_offset := (s.d_offset + s.n) })
    (fun s => .ret (s.v, Go.Err.nil) s))))))
    Go.missingReturn)

def Decoder_DecodeSInt32 (fuel : Nat) (d_p : Bytes) (d_offset : BitVec 64) (d_mode : BitVec 64) (d_keyStart : BitVec 64) (d_keyEnd : BitVec 64) : Go.Out Decoder_DecodeSInt32.St Decoder_DecodeSInt32.R :=
  Decoder_DecodeSInt32.body fuel { d_p := d_p, d_offset := d_offset, d_mode := d_mode, d_keyStart := d_keyStart, d_keyEnd := d_keyEnd }

/-! ### `Decoder.DecodeSInt64` (/repo/decoder.go:316:1) -/

structure Decoder_DecodeSInt64.St where
  d_p : Bytes
  d_offset : BitVec 64
  d_mode : BitVec 64
  d_keyStart : BitVec 64
  d_keyEnd : BitVec 64
  v : BitVec 64 := 0#64
  n : BitVec 64 := 0#64
  err : Go.Err := Go.Err.nil

abbrev Decoder_DecodeSInt64.R := BitVec 64 × Go.Err

/-- the body of `Decoder_DecodeSInt64`, statement by statement -/
def Decoder_DecodeSInt64.body (fuel : Nat) : Decoder_DecodeSInt64.St → Go.Out Decoder_DecodeSInt64.St Decoder_DecodeSInt64.R :=
  (Go.seq (Go.seq (fun s => if (BitVec.sle (BitVec.ofNat 64 s.d_p.length) s.d_offset) then (fun s => .ret (0#64, Go.Err.unexpectedEOF) s) s else Go.skip s)
    (Go.seq (fun s => if ((s.d_offset).toNat ≤ s.d_p.length) then match (DecodeZigZag64 fuel (s.d_p.drop (s.d_offset).toNat)) with | .ret r c => .next { s with v := r.1, n := r.2.1, err := r.2.2 } | .next _ => .panic | .panic => .panic | .diverge => .diverge else .panic)
    (Go.seq (fun s => if (s.err != Go.Err.nil) then (fun s => .ret (0#64, s.err) s) s else Go.skip s)
    (Go.seq (fun s => if (s.n == 0#64) then (fun s => .ret (0#64, (Go.Err.other "ErrInvalidZigZagData")) s) s else Go.skip s)
    (Go.seq (fun s => .next { s with d_offset := (s.d_offset + s.n) })
    (fun s => .ret (s.v, Go.Err.nil) s))))))
    Go.missingReturn)

def Decoder_DecodeSInt64 (fuel : Nat) (d_p : Bytes) (d_offset : BitVec 64) (d_mode : BitVec 64) (d_keyStart : BitVec 64) (d_keyEnd : BitVec 64) : Go.Out Decoder_DecodeSInt64.St Decoder_DecodeSInt64.R :=
  Decoder_DecodeSInt64.body fuel { d_p := d_p, d_offset := d_offset, d_mode := d_mode, d_keyStart := d_keyStart, d_keyEnd := d_keyEnd }

/-! ### `Decoder.DecodeFixed32` (/repo/decoder.go:334:1) -/

structure Decoder_DecodeFixed32.St where
  d_p : Bytes
  d_offset : BitVec 64
  d_mode : BitVec 64
  d_keyStart : BitVec 64
  d_keyEnd : BitVec 64
  v : BitVec 32 := 0#32
  n : BitVec 64 := 0#64
  err : Go.Err := Go.Err.nil

abbrev Decoder_DecodeFixed32.R := BitVec 32 × Go.Err

/-- the body of `Decoder_DecodeFixed32`, statement by statement -/
def Decoder_DecodeFixed32.body (fuel : Nat) : Decoder_DecodeFixed32.St → Go.Out Decoder_DecodeFixed32.St Decoder_DecodeFixed32.R :=
  (Go.seq (Go.seq (fun s => if (BitVec.sle (BitVec.ofNat 64 s.d_p.length) s.d_offset) then (fun s => .ret (0#32, Go.Err.unexpectedEOF) s) s else Go.skip s)
    (Go.seq (fun s => if ((s.d_offset).toNat ≤ s.d_p.length) then match (DecodeFixed32 fuel (s.d_p.drop (s.d_offset).toNat)) with | .ret r c => .next { s with v := r.1, n := r.2.1, err := r.2.2 } | .next _ => .panic | .panic => .panic | .diverge => .diverge else .panic)
    (Go.seq (fun s => if (s.err != Go.Err.nil) then (fun s => .ret (0#32, s.err) s) s else Go.skip s)
    (Go.seq (fun s => if (s.n == 0#64) then (fun s => .ret (0#32, (Go.Err.other "ErrInvalidFixed32Data")) s) s else Go.skip s)
    (Go.seq (fun s => .next { s with d_offset := (s.d_offset + s.n) })
    (fun s => .ret (s.v, Go.Err.nil) s))))))
    Go.missingReturn)

def Decoder_DecodeFixed32 (fuel : Nat) (d_p : Bytes) (d_offset : BitVec 64) (d_mode : BitVec 64) (d_keyStart : BitVec 64) (d_keyEnd : BitVec 64) : Go.Out Decoder_DecodeFixed32.St Decoder_DecodeFixed32.R :=
  Decoder_DecodeFixed32.body fuel { d_p := d_p, d_offset := d_offset, d_mode := d_mode, d_keyStart := d_keyStart, d_keyEnd := d_keyEnd }

/-! ### `Decoder.DecodeFixed64` (/repo/decoder.go:352:1) -/

structure Decoder_DecodeFixed64.St where
  d_p : Bytes
  d_offset : BitVec 64
  d_mode : BitVec 64
  d_keyStart : BitVec 64
  d_keyEnd : BitVec 64
  v : BitVec 64 := 0#64
  n : BitVec 64 := 0#64
  err : Go.Err := Go.Err.nil

abbrev Decoder_DecodeFixed64.R := BitVec 64 × Go.Err

/-- the body of `Decoder_DecodeFixed64`, statement by statement -/
def Decoder_DecodeFixed64.body (fuel : Nat) : Decoder_DecodeFixed64.St → Go.Out Decoder_DecodeFixed64.St Decoder_DecodeFixed64.R :=
  (Go.seq (Go.seq (fun s => if (BitVec.sle (BitVec.ofNat 64 s.d_p.length) s.d_offset) then (fun s => .ret (0#64, Go.Err.unexpectedEOF) s) s else Go.skip s)
    (Go.seq (fun s => if ((s.d_offset).toNat ≤ s.d_p.length) then match (DecodeFixed64 fuel (s.d_p.drop (s.d_offset).toNat)) with | .ret r c => .next { s with v := r.1, n := r.2.1, err := r.2.2 } | .next _ => .panic | .panic => .panic | .diverge => .diverge else .panic)
    (Go.seq (fun s => if (s.err != Go.Err.nil) then (fun s => .ret (0#64, s.err) s) s else Go.skip s)
    (Go.seq (fun s => if (s.n == 0#64) then (fun s => .ret (0#64, (Go.Err.other "ErrInvalidFixed64Data")) s) s else Go.skip s)
    (Go.seq (fun s => .next { s with d_offset := (s.d_offset + s.n) })
    (fun s => .ret (s.v, Go.Err.nil) s))))))
    Go.missingReturn)

def Decoder_DecodeFixed64 (fuel : Nat) (d_p : Bytes) (d_offset : BitVec 64) (d_mode : BitVec 64) (d_keyStart : BitVec 64) (d_keyEnd : BitVec 64) : Go.Out Decoder_DecodeFixed64.St Decoder_DecodeFixed64.R :=
  Decoder_DecodeFixed64.body fuel { d_p := d_p, d_offset := d_offset, d_mode := d_mode, d_keyStart := d_keyStart, d_keyEnd := d_keyEnd }

/-! ### `Decoder.DecodeBytes` (/repo/decoder.go:190:1) -/

structure Decoder_DecodeBytes.St where
  d_p : Bytes
  d_offset : BitVec 64
  d_mode : BitVec 64
  d_keyStart : BitVec 64
  d_keyEnd : BitVec 64
  l : BitVec 64 := 0#64
  n : BitVec 64 := 0#64
  err : Go.Err := Go.Err.nil
  nb : BitVec 64 := 0#64
  b : Bytes := []

abbrev Decoder_DecodeBytes.R := Bytes × Go.Err

/-- the body of `Decoder_DecodeBytes`, statement by statement -/
def Decoder_DecodeBytes.body (fuel : Nat) : Decoder_DecodeBytes.St → Go.Out Decoder_DecodeBytes.St Decoder_DecodeBytes.R :=
  (Go.seq (Go.seq (fun s => if (BitVec.sle (BitVec.ofNat 64 s.d_p.length) s.d_offset) then (fun s => .ret (([] : Bytes), Go.Err.unexpectedEOF) s) s else Go.skip s)
    (Go.seq (fun s => if ((s.d_offset).toNat ≤ s.d_p.length) then match (DecodeVarint fuel (s.d_p.drop (s.d_offset).toNat)) with | .ret r c => .next { s with l := r.1, n := r.2.1, err := r.2.2 } | .next _ => .panic | .panic => .panic | .diverge => .diverge else .panic)
    (Go.seq (fun s => if ((s.err != Go.Err.nil)) then (fun s => .ret (([] : Bytes), s.err) s) s else if ((s.n == 0#64)) then (fun s => .ret (([] : Bytes), Go.Err.invalidVarint) s) s else if ((BitVec.ult 2147483647#64 s.l)) then (fun s => .ret (([] : Bytes), (Go.Err.other "ErrLenOverflow")) s) s else Go.skip s)
    (Go.seq (fun s => .next { s with nb := s.l })
    (Go.seq (fun s => if (BitVec.slt (BitVec.ofNat 64 s.d_p.length) ((s.d_offset + s.n) + s.nb)) then (fun s => .ret (([] : Bytes), Go.Err.unexpectedEOF) s) s else Go.skip s)
    (Go.seq (fun s => if (((s.d_offset + s.n)).toNat ≤ (((s.d_offset + s.n) + s.nb)).toNat ∧ (((s.d_offset + s.n) + s.nb)).toNat ≤ s.d_p.length) then .next { s with b := ((s.d_p.drop ((s.d_offset + s.n)).toNat).take ((((s.d_offset + s.n) + s.nb)).toNat - ((s.d_offset + s.n)).toNat)) } else .panic)
    (Go.seq (fun s => .next { s with d_offset := (s.d_offset + (s.n + s.nb)) })
    (fun s => .ret (s.b, Go.Err.nil) s))))))))
    Go.missingReturn)

def Decoder_DecodeBytes (fuel : Nat) (d_p : Bytes) (d_offset : BitVec 64) (d_mode : BitVec 64) (d_keyStart : BitVec 64) (d_keyEnd : BitVec 64) : Go.Out Decoder_DecodeBytes.St Decoder_DecodeBytes.R :=
  Decoder_DecodeBytes.body fuel { d_p := d_p, d_offset := d_offset, d_mode := d_mode, d_keyStart := d_keyStart, d_keyEnd := d_keyEnd }

/-! ### `Decoder.Skip` (/repo/decoder.go:939:1) -/

structure Decoder_Skip.St where
  d_p : Bytes
  d_offset : BitVec 64
  d_mode : BitVec 64
  d_keyStart : BitVec 64
  d_keyEnd : BitVec 64
  tag : BitVec 64
  wt : BitVec 64
  sz : BitVec 64 := 0#64
  bof : BitVec 64 := 0#64
  v : BitVec 64 := 0#64
  n : BitVec 64 := 0#64
  err : Go.Err := Go.Err.nil
  thisTag : BitVec 64 := 0#64
  thisWireType : BitVec 64 := 0#64
  skipped : BitVec 64 := 0#64
  l : BitVec 64 := 0#64

abbrev Decoder_Skip.R := Bytes × Go.Err

/-- statement 1 of `Decoder.Skip` -/
def Decoder_Skip.s1 (fuel : Nat) : Decoder_Skip.St → Go.Out Decoder_Skip.St Decoder_Skip.R :=
  (fun s => if (BitVec.sle (BitVec.ofNat 64 s.d_p.length) s.d_offset) then (fun s => .ret (([] : Bytes), Go.Err.unexpectedEOF) s) s else Go.skip s)

/-- statement 2 of `Decoder.Skip` -/
def Decoder_Skip.s2 (fuel : Nat) : Decoder_Skip.St → Go.Out Decoder_Skip.St Decoder_Skip.R :=
  (fun s => .next { s with sz := (SizeOfTagKey s.tag) })

/-- statement 3 of `Decoder.Skip` -/
def Decoder_Skip.s3 (fuel : Nat) : Decoder_Skip.St → Go.Out Decoder_Skip.St Decoder_Skip.R :=
  (fun s => .next { s with bof := (s.d_offset - s.sz) })

/-- statement 4 of `Decoder.Skip` -/
def Decoder_Skip.s4 (fuel : Nat) : Decoder_Skip.St → Go.Out Decoder_Skip.St Decoder_Skip.R :=
  (fun s => if (BitVec.slt s.bof 0#64) then (fun s => .next { s with bof := 0#64 }) s else Go.skip s)

/-- statement 5 of `Decoder.Skip` -/
def Decoder_Skip.s5 (fuel : Nat) : Decoder_Skip.St → Go.Out Decoder_Skip.St Decoder_Skip.R :=
  (fun s => if ((s.d_keyEnd == s.d_offset) && (BitVec.slt s.d_keyStart s.d_keyEnd)) then (fun s => .next { s with bof := s.d_keyStart }) s else Go.skip s)

/-- statement 6 of `Decoder.Skip` -/
def Decoder_Skip.s6 (fuel : Nat) : Decoder_Skip.St → Go.Out Decoder_Skip.St Decoder_Skip.R :=
  (fun s => if (s.d_mode == 0#64) then (Go.seq (fun s => if ((s.bof).toNat ≤ s.d_p.length) then match (DecodeVarint fuel (s.d_p.drop (s.bof).toNat)) with | .ret r c => .next { s with v := r.1, n := r.2.1, err := r.2.2 } | .next _ => .panic | .panic => .panic | .diverge => .diverge else .panic)
    (Go.seq (fun s => if (s.err != Go.Err.nil) then (fun s => .ret (([] : Bytes), s.err) s) s else Go.skip s)
    (Go.seq (fun s => if (s.n != s.sz) then (fun s => .ret (([] : Bytes), Go.Err.invalidVarint) s) s else Go.skip s)
    (Go.seq (fun s => .next { s with thisTag := (s.v >>> 3), thisWireType := (s.v &&& 7#64) })
    (fun s => if ((s.thisTag != s.tag) || (s.thisWireType != s.wt)) then (fun s => .ret (([] : Bytes), (Go.Err.other "DecoderSkipError")) s) s else Go.skip s))))) s else Go.skip s)

/-- statement 7 of `Decoder.Skip` -/
def Decoder_Skip.s7 (fuel : Nat) : Decoder_Skip.St → Go.Out Decoder_Skip.St Decoder_Skip.R :=
  (fun s => .next { s with skipped := 0#64 })

/-- statement 8 of `Decoder.Skip` -/
def Decoder_Skip.s8 (fuel : Nat) : Decoder_Skip.St → Go.Out Decoder_Skip.St Decoder_Skip.R :=
  (fun s => if ((s.wt == 0#64)) then (Go.seq (fun s => if ((s.d_offset).toNat ≤ s.d_p.length) then match (DecodeVarint fuel (s.d_p.drop (s.d_offset).toNat)) with | .ret r c => .next { s with n := r.2.1, err := r.2.2 } | .next _ => .panic | .panic => .panic | .diverge => .diverge else .panic)
    (Go.seq (fun s => if (s.err != Go.Err.nil) then (fun s => .ret (([] : Bytes), s.err) s) s else Go.skip s)
    (fun s => .next { s with skipped := s.n }))) s else if ((s.wt == 1#64)) then (fun s => .next { s with skipped := 8#64 }) s else if ((s.wt == 2#64)) then (Go.seq (fun s => if ((s.d_offset).toNat ≤ s.d_p.length) then match (DecodeVarint fuel (s.d_p.drop (s.d_offset).toNat)) with | .ret r c => .next { s with l := r.1, n := r.2.1, err := r.2.2 } | .next _ => .panic | .panic => .panic | .diverge => .diverge else .panic)
    (Go.seq (fun s => if ((s.err != Go.Err.nil)) then (fun s => .ret (([] : Bytes), s.err) s) s else if ((s.n == 0#64)) then (fun s => .ret (([] : Bytes), Go.Err.invalidVarint) s) s else if ((BitVec.ult 2147483647#64 s.l)) then (fun s => .ret (([] : Bytes), (Go.Err.other "ErrLenOverflow")) s) s else Go.skip s)
    (fun s => .next { s with skipped := (s.n + s.l) }))) s else if ((s.wt == 5#64)) then (fun s => .next { s with skipped := 4#64 }) s else (fun s => .ret (([] : Bytes), (Go.Err.other "errorf")) s) s)

/-- statement 9 of `Decoder.Skip` -/
def Decoder_Skip.s9 (fuel : Nat) : Decoder_Skip.St → Go.Out Decoder_Skip.St Decoder_Skip.R :=
  (fun s => if (BitVec.slt (BitVec.ofNat 64 s.d_p.length) (s.d_offset + s.skipped)) then (fun s => .ret (([] : Bytes), Go.Err.unexpectedEOF) s) s else Go.skip s)

/-- statement 10 of `Decoder.Skip` -/
def Decoder_Skip.s10 (fuel : Nat) : Decoder_Skip.St → Go.Out Decoder_Skip.St Decoder_Skip.R :=
  (fun s => .next { s with d_offset := (s.d_offset + s.skipped) })

/-- statement 11 of `Decoder.Skip` -/
def Decoder_Skip.s11 (fuel : Nat) : Decoder_Skip.St → Go.Out Decoder_Skip.St Decoder_Skip.R :=
  (fun s => if ((s.bof).toNat ≤ (s.d_offset).toNat ∧ (s.d_offset).toNat ≤ s.d_p.length) then .ret (((s.d_p.drop (s.bof).toNat).take ((s.d_offset).toNat - (s.bof).toNat)), Go.Err.nil) s else .panic)

/-- the body of `Decoder_Skip`, statement by statement -/
def Decoder_Skip.body (fuel : Nat) : Decoder_Skip.St → Go.Out Decoder_Skip.St Decoder_Skip.R :=
  (Go.seq (Go.seq (Decoder_Skip.s1 fuel)
    (Go.seq (Decoder_Skip.s2 fuel)
    (Go.seq (Decoder_Skip.s3 fuel)
    (Go.seq (Decoder_Skip.s4 fuel)
    (Go.seq (Decoder_Skip.s5 fuel)
    (Go.seq (Decoder_Skip.s6 fuel)
    (Go.seq (Decoder_Skip.s7 fuel)
    (Go.seq (Decoder_Skip.s8 fuel)
    (Go.seq (Decoder_Skip.s9 fuel)
    (Go.seq (Decoder_Skip.s10 fuel)
    (Decoder_Skip.s11 fuel)))))))))))
    Go.missingReturn)

def Decoder_Skip (fuel : Nat) (d_p : Bytes) (d_offset : BitVec 64) (d_mode : BitVec 64) (d_keyStart : BitVec 64) (d_keyEnd : BitVec 64) (tag : BitVec 64) (wt : BitVec 64) : Go.Out Decoder_Skip.St Decoder_Skip.R :=
  Decoder_Skip.body fuel { d_p := d_p, d_offset := d_offset, d_mode := d_mode, d_keyStart := d_keyStart, d_keyEnd := d_keyEnd, tag := tag, wt := wt }

/-! ### `Decoder.DecodeBool` (/repo/decoder.go:151:1) -/

structure Decoder_DecodeBool.St where
  d_p : Bytes
  d_offset : BitVec 64
  d_mode : BitVec 64
  d_keyStart : BitVec 64
  d_keyEnd : BitVec 64
  b : Bool := false
  err : Go.Err := Go.Err.nil
  v : BitVec 64 := 0#64
  n : BitVec 64 := 0#64

abbrev Decoder_DecodeBool.R := Bool × Go.Err

/-- the body of `Decoder_DecodeBool`, statement by statement -/
def Decoder_DecodeBool.body (fuel : Nat) : Decoder_DecodeBool.St → Go.Out Decoder_DecodeBool.St Decoder_DecodeBool.R :=
  (Go.seq (Go.seq (fun s => if (BitVec.sle (BitVec.ofNat 64 s.d_p.length) s.d_offset) then (fun s => .ret (false, Go.Err.unexpectedEOF) s) s else Go.skip s)
    (Go.seq (fun s => if ((s.d_offset).toNat ≤ s.d_p.length) then match (DecodeVarint fuel (s.d_p.drop (s.d_offset).toNat)) with | .ret r c => .next { s with v := r.1, n := r.2.1, err := r.2.2 } | .next _ => .panic | .panic => .panic | .diverge => .diverge else .panic)
    (Go.seq (fun s => if (s.err != Go.Err.nil) then (fun s => .ret (false, s.err) s) s else Go.skip s)
    (Go.seq (fun s => if (s.n == 0#64) then (fun s => .ret (false, Go.Err.invalidVarint) s) s else Go.skip s)
    (Go.seq (fun s => .next { s with d_offset := (s.d_offset + s.n) })
    (fun s => .ret ((s.v != 0#64), Go.Err.nil) s))))))
    Go.missingReturn)

def Decoder_DecodeBool (fuel : Nat) (d_p : Bytes) (d_offset : BitVec 64) (d_mode : BitVec 64) (d_keyStart : BitVec 64) (d_keyEnd : BitVec 64) : Go.Out Decoder_DecodeBool.St Decoder_DecodeBool.R :=
  Decoder_DecodeBool.body fuel { d_p := d_p, d_offset := d_offset, d_mode := d_mode, d_keyStart := d_keyStart, d_keyEnd := d_keyEnd }

/-! ### `Decoder.More` (/repo/decoder.go:120:1) -/

structure Decoder_More.St where
  d_p : Bytes
  d_offset : BitVec 64
  d_mode : BitVec 64
  d_keyStart : BitVec 64
  d_keyEnd : BitVec 64

abbrev Decoder_More.R := Bool

/-- the body of `Decoder_More`, statement by statement -/
def Decoder_More.body (fuel : Nat) : Decoder_More.St → Go.Out Decoder_More.St Decoder_More.R :=
  (Go.seq (fun s => .ret ((BitVec.slt s.d_offset (BitVec.ofNat 64 s.d_p.length))) s)
    Go.missingReturn)

def Decoder_More (fuel : Nat) (d_p : Bytes) (d_offset : BitVec 64) (d_mode : BitVec 64) (d_keyStart : BitVec 64) (d_keyEnd : BitVec 64) : Go.Out Decoder_More.St Decoder_More.R :=
  Decoder_More.body fuel { d_p := d_p, d_offset := d_offset, d_mode := d_mode, d_keyStart := d_keyStart, d_keyEnd := d_keyEnd }

/-! ### `Decoder.Seek` (/repo/decoder.go:92:1) -/

structure Decoder_Seek.St where
  d_p : Bytes
  d_offset : BitVec 64
  d_mode : BitVec 64
  d_keyStart : BitVec 64
  d_keyEnd : BitVec 64
  offset : BitVec 64
  whence : BitVec 64
  pos : BitVec 64 := 0#64

abbrev Decoder_Seek.R := BitVec 64 × Go.Err

/-- the body of `Decoder_Seek`, statement by statement -/
def Decoder_Seek.body (fuel : Nat) : Decoder_Seek.St → Go.Out Decoder_Seek.St Decoder_Seek.R :=
  (Go.seq (Go.seq (fun s => .next { s with pos := s.offset })
    (Go.seq (fun s => if ((s.whence == 0#64)) then Go.skip s else if ((s.whence == 1#64)) then (fun s => .next { s with pos := (s.pos + s.d_offset) }) s else if ((s.whence == 2#64)) then (fun s => .next { s with pos := (s.pos + (BitVec.ofNat 64 s.d_p.length)) }) s else (fun s => .ret (s.d_offset, (Go.Err.other "errorf")) s) s)
    (Go.seq (fun s => if ((BitVec.slt s.pos 0#64) || (BitVec.slt (BitVec.ofNat 64 s.d_p.length) s.pos)) then (fun s => .ret (s.d_offset, (Go.Err.other "errorf")) s) s else Go.skip s)
    (Go.seq (fun s => .next { s with d_offset := s.pos })
    (fun s => .ret (s.d_offset, Go.Err.nil) s)))))
    Go.missingReturn)

def Decoder_Seek (fuel : Nat) (d_p : Bytes) (d_offset : BitVec 64) (d_mode : BitVec 64) (d_keyStart : BitVec 64) (d_keyEnd : BitVec 64) (offset : BitVec 64) (whence : BitVec 64) : Go.Out Decoder_Seek.St Decoder_Seek.R :=
  Decoder_Seek.body fuel { d_p := d_p, d_offset := d_offset, d_mode := d_mode, d_keyStart := d_keyStart, d_keyEnd := d_keyEnd, offset := offset, whence := whence }

/-! ### `Decoder.DecodePackedUint64` (/repo/decoder.go:584:1) -/

structure Decoder_DecodePackedUint64.St where
  d_p : Bytes
  d_offset : BitVec 64
  d_mode : BitVec 64
  d_keyStart : BitVec 64
  d_keyEnd : BitVec 64
  l : BitVec 64 := 0#64
  nRead : BitVec 64 := 0#64
  n : BitVec 64 := 0#64
  err : Go.Err := Go.Err.nil
  res : List (BitVec 64) := []
  packedDataStart : BitVec 64 := 0#64
  v : BitVec 64 := 0#64
  n_1 : BitVec 64 := 0#64
  err_1 : Go.Err := Go.Err.nil

abbrev Decoder_DecodePackedUint64.R := List (BitVec 64) × Go.Err

def Decoder_DecodePackedUint64.loop1.cond : Decoder_DecodePackedUint64.St → Option Bool := (fun s => some (BitVec.ult s.nRead s.l))
def Decoder_DecodePackedUint64.loop1.body (fuel : Nat) : Decoder_DecodePackedUint64.St → Go.Out Decoder_DecodePackedUint64.St Decoder_DecodePackedUint64.R :=
  (Go.seq (fun s => if (BitVec.sle (BitVec.ofNat 64 s.d_p.length) s.d_offset) then (fun s => .ret (([] : List (BitVec 64)), Go.Err.unexpectedEOF) s) s else Go.skip s)
    (Go.seq (fun s => if ((s.d_offset).toNat ≤ s.d_p.length) then match (DecodeVarint fuel (s.d_p.drop (s.d_offset).toNat)) with | .ret r c => .next { s with v := r.1, n_1 := r.2.1, err_1 := r.2.2 } | .next _ => .panic | .panic => .panic | .diverge => .diverge else .panic)
    (Go.seq (fun s => if (s.err_1 != Go.Err.nil) then (fun s => .ret (([] : List (BitVec 64)), s.err_1) s) s else Go.skip s)
    (Go.seq (fun s => if (s.n_1 == 0#64) then (fun s => .ret (([] : List (BitVec 64)), Go.Err.invalidVarint) s) s else Go.skip s)
    (Go.seq (fun s => .next { s with nRead := (s.nRead + s.n_1) })
    (Go.seq (fun s => .next { s with d_offset := (s.d_offset + s.n_1) })
    (fun s => .next { s with res := (s.res ++ [s.v]) })))))))
def Decoder_DecodePackedUint64.loop1.post : Decoder_DecodePackedUint64.St → Go.Out Decoder_DecodePackedUint64.St Decoder_DecodePackedUint64.R := Go.skip

/-- the body of `Decoder_DecodePackedUint64`, statement by statement -/
def Decoder_DecodePackedUint64.body (fuel : Nat) : Decoder_DecodePackedUint64.St → Go.Out Decoder_DecodePackedUint64.St Decoder_DecodePackedUint64.R :=
  (Go.seq (Go.seq (fun s => if (BitVec.sle (BitVec.ofNat 64 s.d_p.length) s.d_offset) then (fun s => .ret (([] : List (BitVec 64)), Go.Err.unexpectedEOF) s) s else Go.skip s)
    (Go.seq Go.skip
    (Go.seq (fun s => if ((s.d_offset).toNat ≤ s.d_p.length) then match (DecodeVarint fuel (s.d_p.drop (s.d_offset).toNat)) with | .ret r c => .next { s with l := r.1, n := r.2.1, err := r.2.2 } | .next _ => .panic | .panic => .panic | .diverge => .diverge else .panic)
    (Go.seq (fun s => if (s.err != Go.Err.nil) then (fun s => .ret (([] : List (BitVec 64)), s.err) s) s else Go.skip s)
    (Go.seq (fun s => if (s.n == 0#64) then (fun s => .ret (([] : List (BitVec 64)), Go.Err.invalidVarint) s) s else Go.skip s)
    (Go.seq (fun s => .next { s with d_offset := (s.d_offset + s.n) })
    (Go.seq (fun s => .next { s with packedDataStart := s.d_offset })
    (Go.seq (Go.seq Go.skip (Go.loop Decoder_DecodePackedUint64.loop1.cond (Decoder_DecodePackedUint64.loop1.body fuel) Decoder_DecodePackedUint64.loop1.post fuel))
    (Go.seq (fun s => if (s.nRead != s.l) then (fun s => .ret (([] : List (BitVec 64)), (Go.Err.other "ErrInvalidPackedData")) s) s else Go.skip s)
    (fun s => .ret (s.res, Go.Err.nil) s))))))))))
    Go.missingReturn)

def Decoder_DecodePackedUint64 (fuel : Nat) (d_p : Bytes) (d_offset : BitVec 64) (d_mode : BitVec 64) (d_keyStart : BitVec 64) (d_keyEnd : BitVec 64) : Go.Out Decoder_DecodePackedUint64.St Decoder_DecodePackedUint64.R :=
  Decoder_DecodePackedUint64.body fuel { d_p := d_p, d_offset := d_offset, d_mode := d_mode, d_keyStart := d_keyStart, d_keyEnd := d_keyEnd }

/-! ### `Decoder.DecodePackedInt64` (/repo/decoder.go:492:1) -/

structure Decoder_DecodePackedInt64.St where
  d_p : Bytes
  d_offset : BitVec 64
  d_mode : BitVec 64
  d_keyStart : BitVec 64
  d_keyEnd : BitVec 64
  l : BitVec 64 := 0#64
  nRead : BitVec 64 := 0#64
  n : BitVec 64 := 0#64
  err : Go.Err := Go.Err.nil
  res : List (BitVec 64) := []
  packedDataStart : BitVec 64 := 0#64
  v : BitVec 64 := 0#64
  n_1 : BitVec 64 := 0#64
  err_1 : Go.Err := Go.Err.nil

abbrev Decoder_DecodePackedInt64.R := List (BitVec 64) × Go.Err

def Decoder_DecodePackedInt64.loop1.cond : Decoder_DecodePackedInt64.St → Option Bool := (fun s => some (BitVec.ult s.nRead s.l))
def Decoder_DecodePackedInt64.loop1.body (fuel : Nat) : Decoder_DecodePackedInt64.St → Go.Out Decoder_DecodePackedInt64.St Decoder_DecodePackedInt64.R :=
  (Go.seq (fun s => if (BitVec.sle (BitVec.ofNat 64 s.d_p.length) s.d_offset) then (fun s => .ret (([] : List (BitVec 64)), Go.Err.unexpectedEOF) s) s else Go.skip s)
    (Go.seq (fun s => if ((s.d_offset).toNat ≤ s.d_p.length) then match (DecodeVarint fuel (s.d_p.drop (s.d_offset).toNat)) with | .ret r c => .next { s with v := r.1, n_1 := r.2.1, err_1 := r.2.2 } | .next _ => .panic | .panic => .panic | .diverge => .diverge else .panic)
    (Go.seq (fun s => if (s.err_1 != Go.Err.nil) then (fun s => .ret (([] : List (BitVec 64)), s.err_1) s) s else Go.skip s)
    (Go.seq (fun s => if (s.n_1 == 0#64) then (fun s => .ret (([] : List (BitVec 64)), Go.Err.invalidVarint) s) s else Go.skip s)
    (Go.seq (fun s => .next { s with nRead := (s.nRead + s.n_1) })
    (Go.seq (fun s => .next { s with d_offset := (s.d_offset + s.n_1) })
    (fun s => .next { s with res := (s.res ++ [s.v]) })))))))
def Decoder_DecodePackedInt64.loop1.post : Decoder_DecodePackedInt64.St → Go.Out Decoder_DecodePackedInt64.St Decoder_DecodePackedInt64.R := Go.skip

/-- the body of `Decoder_DecodePackedInt64`, statement by statement -/
def Decoder_DecodePackedInt64.body (fuel : Nat) : Decoder_DecodePackedInt64.St → Go.Out Decoder_DecodePackedInt64.St Decoder_DecodePackedInt64.R :=
  (Go.seq (Go.seq (fun s => if (BitVec.sle (BitVec.ofNat 64 s.d_p.length) s.d_offset) then (fun s => .ret (([] : List (BitVec 64)), Go.Err.unexpectedEOF) s) s else Go.skip s)
    (Go.seq Go.skip
    (Go.seq (fun s => if ((s.d_offset).toNat ≤ s.d_p.length) then match (DecodeVarint fuel (s.d_p.drop (s.d_offset).toNat)) with | .ret r c => .next { s with l := r.1, n := r.2.1, err := r.2.2 } | .next _ => .panic | .panic => .panic | .diverge => .diverge else .panic)
    (Go.seq (fun s => if (s.err != Go.Err.nil) then (fun s => .ret (([] : List (BitVec 64)), s.err) s) s else Go.skip s)
    (Go.seq (fun s => if (s.n == 0#64) then (fun s => .ret (([] : List (BitVec 64)), Go.Err.invalidVarint) s) s else Go.skip s)
    (Go.seq (fun s => .next { s with d_offset := (s.d_offset + s.n) })
    (Go.seq (fun s => .next { s with packedDataStart := s.d_offset })
    (Go.seq (Go.seq Go.skip (Go.loop Decoder_DecodePackedInt64.loop1.cond (Decoder_DecodePackedInt64.loop1.body fuel) Decoder_DecodePackedInt64.loop1.post fuel))
    (Go.seq (fun s => if (s.nRead != s.l) then (fun s => .ret (([] : List (BitVec 64)), (Go.Err.other "ErrInvalidPackedData")) s) s else Go.skip s)
    (fun s => .ret (s.res, Go.Err.nil) s))))))))))
    Go.missingReturn)

def Decoder_DecodePackedInt64 (fuel : Nat) (d_p : Bytes) (d_offset : BitVec 64) (d_mode : BitVec 64) (d_keyStart : BitVec 64) (d_keyEnd : BitVec 64) : Go.Out Decoder_DecodePackedInt64.St Decoder_DecodePackedInt64.R :=
  Decoder_DecodePackedInt64.body fuel { d_p := d_p, d_offset := d_offset, d_mode := d_mode, d_keyStart := d_keyStart, d_keyEnd := d_keyEnd }

/-! ### `Decoder.DecodePackedSint64` (/repo/decoder.go:672:1) -/

structure Decoder_DecodePackedSint64.St where
  d_p : Bytes
  d_offset : BitVec 64
  d_mode : BitVec 64
  d_keyStart : BitVec 64
  d_keyEnd : BitVec 64
  l : BitVec 64 := 0#64
  nRead : BitVec 64 := 0#64
  n : BitVec 64 := 0#64
  err : Go.Err := Go.Err.nil
  res : List (BitVec 64) := []
  packedDataStart : BitVec 64 := 0#64
  v : BitVec 64 := 0#64
  n_1 : BitVec 64 := 0#64
  err_1 : Go.Err := Go.Err.nil

abbrev Decoder_DecodePackedSint64.R := List (BitVec 64) × Go.Err

def Decoder_DecodePackedSint64.loop1.cond : Decoder_DecodePackedSint64.St → Option Bool := (fun s => some (BitVec.ult s.nRead s.l))
def Decoder_DecodePackedSint64.loop1.body (fuel : Nat) : Decoder_DecodePackedSint64.St → Go.Out Decoder_DecodePackedSint64.St Decoder_DecodePackedSint64.R :=
  (Go.seq (fun s => if (BitVec.sle (BitVec.ofNat 64 s.d_p.length) s.d_offset) then (fun s => .ret (([] : List (BitVec 64)), Go.Err.unexpectedEOF) s) s else Go.skip s)
    (Go.seq (fun s => if ((s.d_offset).toNat ≤ s.d_p.length) then match (DecodeZigZag64 fuel (s.d_p.drop (s.d_offset).toNat)) with | .ret r c => .next { s with v := r.1, n_1 := r.2.1, err_1 := r.2.2 } | .next _ => .panic | .panic => .panic | .diverge => .diverge else .panic)
    (Go.seq (fun s => if (s.err_1 != Go.Err.nil) then (fun s => .ret (([] : List (BitVec 64)), s.err_1) s) s else Go.skip s)
    (Go.seq (fun s => if (s.n_1 == 0#64) then (fun s => .ret (([] : List (BitVec 64)), Go.Err.invalidVarint) s) s else Go.skip s)
    (Go.seq (fun s => .next { s with nRead := (s.nRead + s.n_1) })
    (Go.seq (fun s => .next { s with d_offset := (s.d_offset + s.n_1) })
    (fun s => .next { s with res := (s.res ++ [s.v]) })))))))
def Decoder_DecodePackedSint64.loop1.post : Decoder_DecodePackedSint64.St → Go.Out Decoder_DecodePackedSint64.St Decoder_DecodePackedSint64.R := Go.skip

/-- the body of `Decoder_DecodePackedSint64`, statement by statement -/
def Decoder_DecodePackedSint64.body (fuel : Nat) : Decoder_DecodePackedSint64.St → Go.Out Decoder_DecodePackedSint64.St Decoder_DecodePackedSint64.R :=
  (Go.seq (Go.seq (fun s => if (BitVec.sle (BitVec.ofNat 64 s.d_p.length) s.d_offset) then (fun s => .ret (([] : List (BitVec 64)), Go.Err.unexpectedEOF) s) s else Go.skip s)
    (Go.seq Go.skip
    (Go.seq (fun s => if ((s.d_offset).toNat ≤ s.d_p.length) then match (DecodeVarint fuel (s.d_p.drop (s.d_offset).toNat)) with | .ret r c => .next { s with l := r.1, n := r.2.1, err := r.2.2 } | .next _ => .panic | .panic => .panic | .diverge => .diverge else .panic)
    (Go.seq (fun s => if (s.err != Go.Err.nil) then (fun s => .ret (([] : List (BitVec 64)), s.err) s) s else Go.skip s)
    (Go.seq (fun s => if (s.n == 0#64) then (fun s => .ret (([] : List (BitVec 64)), Go.Err.invalidVarint) s) s else Go.skip s)
    (Go.seq (fun s => .next { s with d_offset := (s.d_offset + s.n) })
    (Go.seq (fun s => .next { s with packedDataStart := s.d_offset })
    (Go.seq (Go.seq Go.skip (Go.loop Decoder_DecodePackedSint64.loop1.cond (Decoder_DecodePackedSint64.loop1.body fuel) Decoder_DecodePackedSint64.loop1.post fuel))
    (Go.seq (fun s => if (s.nRead != s.l) then (fun s => .ret (([] : List (BitVec 64)), (Go.Err.other "ErrInvalidPackedData")) s) s else Go.skip s)
    (fun s => .ret (s.res, Go.Err.nil) s))))))))))
    Go.missingReturn)

def Decoder_DecodePackedSint64 (fuel : Nat) (d_p : Bytes) (d_offset : BitVec 64) (d_mode : BitVec 64) (d_keyStart : BitVec 64) (d_keyEnd : BitVec 64) : Go.Out Decoder_DecodePackedSint64.St Decoder_DecodePackedSint64.R :=
  Decoder_DecodePackedSint64.body fuel { d_p := d_p, d_offset := d_offset, d_mode := d_mode, d_keyStart := d_keyStart, d_keyEnd := d_keyEnd }

/-! ### `Decoder.DecodePackedSint32` (/repo/decoder.go:628:1) -/

structure Decoder_DecodePackedSint32.St where
  d_p : Bytes
  d_offset : BitVec 64
  d_mode : BitVec 64
  d_keyStart : BitVec 64
  d_keyEnd : BitVec 64
  l : BitVec 64 := 0#64
  nRead : BitVec 64 := 0#64
  n : BitVec 64 := 0#64
  err : Go.Err := Go.Err.nil
  res : List (BitVec 32) := []
  packedDataStart : BitVec 64 := 0#64
  v : BitVec 32 := 0#32
  n_1 : BitVec 64 := 0#64
  err_1 : Go.Err := Go.Err.nil

abbrev Decoder_DecodePackedSint32.R := List (BitVec 32) × Go.Err

def Decoder_DecodePackedSint32.loop1.cond : Decoder_DecodePackedSint32.St → Option Bool := (fun s => some (BitVec.ult s.nRead s.l))
def Decoder_DecodePackedSint32.loop1.body (fuel : Nat) : Decoder_DecodePackedSint32.St → Go.Out Decoder_DecodePackedSint32.St Decoder_DecodePackedSint32.R :=
  (Go.seq (fun s => if (BitVec.sle (BitVec.ofNat 64 s.d_p.length) s.d_offset) then (fun s => .ret (([] : List (BitVec 32)), Go.Err.unexpectedEOF) s) s else Go.skip s)
    (Go.seq (fun s => if ((s.d_offset).toNat ≤ s.d_p.length) then match (DecodeZigZag32 fuel (s.d_p.drop (s.d_offset).toNat)) with | .ret r c => .next { s with v := r.1, n_1 := r.2.1, err_1 := r.2.2 } | .next _ => .panic | .panic => .panic | .diverge => .diverge else .panic)
    (Go.seq (fun s => if (s.err_1 != Go.Err.nil) then (fun s => .ret (([] : List (BitVec 32)), s.err_1) s) s else Go.skip s)
    (Go.seq (fun s => if (s.n_1 == 0#64) then (fun s => .ret (([] : List (BitVec 32)), Go.Err.invalidVarint) s) s else Go.skip s)
    (Go.seq (fun s => .next { s with nRead := (s.nRead + s.n_1) })
    (Go.seq (fun s => .next { s with d_offset := (s.d_offset + s.n_1) })
    (fun s => .next { s with res := (s.res ++ [s.v]) })))))))
def Decoder_DecodePackedSint32.loop1.post : Decoder_DecodePackedSint32.St → Go.Out Decoder_DecodePackedSint32.St Decoder_DecodePackedSint32.R := Go.skip

/-- the body of `Decoder_DecodePackedSint32`, statement by statement -/
def Decoder_DecodePackedSint32.body (fuel : Nat) : Decoder_DecodePackedSint32.St → Go.Out Decoder_DecodePackedSint32.St Decoder_DecodePackedSint32.R :=
  (Go.seq (Go.seq (fun s => if (BitVec.sle (BitVec.ofNat 64 s.d_p.length) s.d_offset) then (fun s => .ret (([] : List (BitVec 32)), Go.Err.unexpectedEOF) s) s else Go.skip s)
    (Go.seq Go.skip
    (Go.seq (fun s => if ((s.d_offset).toNat ≤ s.d_p.length) then match (DecodeVarint fuel (s.d_p.drop (s.d_offset).toNat)) with | .ret r c => .next { s with l := r.1, n := r.2.1, err := r.2.2 } | .next _ => .panic | .panic => .panic | .diverge => .diverge else .panic)
    (Go.seq (fun s => if (s.err != Go.Err.nil) then (fun s => .ret (([] : List (BitVec 32)), s.err) s) s else Go.skip s)
    (Go.seq (fun s => if (s.n == 0#64) then (fun s => .ret (([] : List (BitVec 32)), Go.Err.invalidVarint) s) s else Go.skip s)
    (Go.seq (fun s => .next { s with d_offset := (s.d_offset + s.n) })
    (Go.seq (fun s => .next { s with packedDataStart := s.d_offset })
    (Go.seq (Go.seq Go.skip (Go.loop Decoder_DecodePackedSint32.loop1.cond (Decoder_DecodePackedSint32.loop1.body fuel) Decoder_DecodePackedSint32.loop1.post fuel))
    (Go.seq (fun s => if (s.nRead != s.l) then (fun s => .ret (([] : List (BitVec 32)), (Go.Err.other "ErrInvalidPackedData")) s) s else Go.skip s)
    (fun s => .ret (s.res, Go.Err.nil) s))))))))))
    Go.missingReturn)

def Decoder_DecodePackedSint32 (fuel : Nat) (d_p : Bytes) (d_offset : BitVec 64) (d_mode : BitVec 64) (d_keyStart : BitVec 64) (d_keyEnd : BitVec 64) : Go.Out Decoder_DecodePackedSint32.St Decoder_DecodePackedSint32.R :=
  Decoder_DecodePackedSint32.body fuel { d_p := d_p, d_offset := d_offset, d_mode := d_mode, d_keyStart := d_keyStart, d_keyEnd := d_keyEnd }

/-! ### `Decoder.DecodePackedUint32` (/repo/decoder.go:536:1) -/

structure Decoder_DecodePackedUint32.St where
  d_p : Bytes
  d_offset : BitVec 64
  d_mode : BitVec 64
  d_keyStart : BitVec 64
  d_keyEnd : BitVec 64
  l : BitVec 64 := 0#64
  nRead : BitVec 64 := 0#64
  n : BitVec 64 := 0#64
  err : Go.Err := Go.Err.nil
  res : List (BitVec 32) := []
  packedDataStart : BitVec 64 := 0#64
  v : BitVec 64 := 0#64
  n_1 : BitVec 64 := 0#64
  err_1 : Go.Err := Go.Err.nil

abbrev Decoder_DecodePackedUint32.R := List (BitVec 32) × Go.Err

def Decoder_DecodePackedUint32.loop1.cond : Decoder_DecodePackedUint32.St → Option Bool := (fun s => some (BitVec.ult s.nRead s.l))
def Decoder_DecodePackedUint32.loop1.body (fuel : Nat) : Decoder_DecodePackedUint32.St → Go.Out Decoder_DecodePackedUint32.St Decoder_DecodePackedUint32.R :=
  (Go.seq (fun s => if (BitVec.sle (BitVec.ofNat 64 s.d_p.length) s.d_offset) then (fun s => .ret (([] : List (BitVec 32)), Go.Err.unexpectedEOF) s) s else Go.skip s)
    (Go.seq (fun s => if ((s.d_offset).toNat ≤ s.d_p.length) then match (DecodeVarint fuel (s.d_p.drop (s.d_offset).toNat)) with | .ret r c => .next { s with v := r.1, n_1 := r.2.1, err_1 := r.2.2 } | .next _ => .panic | .panic => .panic | .diverge => .diverge else .panic)
    (Go.seq (fun s => if (s.err_1 != Go.Err.nil) then (fun s => .ret (([] : List (BitVec 32)), s.err_1) s) s else Go.skip s)
    (Go.seq (fun s => if (s.n_1 == 0#64) then (fun s => .ret (([] : List (BitVec 32)), Go.Err.invalidVarint) s) s else Go.skip s)
    (Go.seq (fun s => if (BitVec.ult 4294967295#64 s.v) then (fun s => .ret (([] : List (BitVec 32)), Go.Err.overflow) s) s else Go.skip s)
    (Go.seq (fun s => .next { s with nRead := (s.nRead + s.n_1) })
    (Go.seq (fun s => .next { s with d_offset := (s.d_offset + s.n_1) })
    (fun s => .next { s with res := (s.res ++ [(BitVec.setWidth 32 s.v)]) }))))))))
def Decoder_DecodePackedUint32.loop1.post : Decoder_DecodePackedUint32.St → Go.Out Decoder_DecodePackedUint32.St Decoder_DecodePackedUint32.R := Go.skip

/-- the body of `Decoder_DecodePackedUint32`, statement by statement -/
def Decoder_DecodePackedUint32.body (fuel : Nat) : Decoder_DecodePackedUint32.St → Go.Out Decoder_DecodePackedUint32.St Decoder_DecodePackedUint32.R :=
  (Go.seq (Go.seq (fun s => if (BitVec.sle (BitVec.ofNat 64 s.d_p.length) s.d_offset) then (fun s => .ret (([] : List (BitVec 32)), Go.Err.unexpectedEOF) s) s else Go.skip s)
    (Go.seq Go.skip
    (Go.seq (fun s => if ((s.d_offset).toNat ≤ s.d_p.length) then match (DecodeVarint fuel (s.d_p.drop (s.d_offset).toNat)) with | .ret r c => .next { s with l := r.1, n := r.2.1, err := r.2.2 } | .next _ => .panic | .panic => .panic | .diverge => .diverge else .panic)
    (Go.seq (fun s => if (s.err != Go.Err.nil) then (fun s => .ret (([] : List (BitVec 32)), s.err) s) s else Go.skip s)
    (Go.seq (fun s => if (s.n == 0#64) then (fun s => .ret (([] : List (BitVec 32)), Go.Err.invalidVarint) s) s else Go.skip s)
    (Go.seq (fun s => .next { s with d_offset := (s.d_offset + s.n) })
    (Go.seq (fun s => .next { s with packedDataStart := s.d_offset })
    (Go.seq (Go.seq Go.skip (Go.loop Decoder_DecodePackedUint32.loop1.cond (Decoder_DecodePackedUint32.loop1.body fuel) Decoder_DecodePackedUint32.loop1.post fuel))
    (Go.seq (fun s => if (s.nRead != s.l) then (fun s => .ret (([] : List (BitVec 32)), (Go.Err.other "ErrInvalidPackedData")) s) s else Go.skip s)
    (fun s => .ret (s.res, Go.Err.nil) s))))))))))
    Go.missingReturn)

def Decoder_DecodePackedUint32 (fuel : Nat) (d_p : Bytes) (d_offset : BitVec 64) (d_mode : BitVec 64) (d_keyStart : BitVec 64) (d_keyEnd : BitVec 64) : Go.Out Decoder_DecodePackedUint32.St Decoder_DecodePackedUint32.R :=
  Decoder_DecodePackedUint32.body fuel { d_p := d_p, d_offset := d_offset, d_mode := d_mode, d_keyStart := d_keyStart, d_keyEnd := d_keyEnd }

/-! ### `Decoder.DecodePackedInt32` (/repo/decoder.go:445:1) -/

structure Decoder_DecodePackedInt32.St where
  d_p : Bytes
  d_offset : BitVec 64
  d_mode : BitVec 64
  d_keyStart : BitVec 64
  d_keyEnd : BitVec 64
  l : BitVec 64 := 0#64
  nRead : BitVec 64 := 0#64
  n : BitVec 64 := 0#64
  err : Go.Err := Go.Err.nil
  res : List (BitVec 32) := []
  packedDataStart : BitVec 64 := 0#64
  v : BitVec 64 := 0#64
  n_1 : BitVec 64 := 0#64
  err_1 : Go.Err := Go.Err.nil
  i64 : BitVec 64 := 0#64

abbrev Decoder_DecodePackedInt32.R := List (BitVec 32) × Go.Err

def Decoder_DecodePackedInt32.loop1.cond : Decoder_DecodePackedInt32.St → Option Bool := (fun s => some (BitVec.ult s.nRead s.l))
def Decoder_DecodePackedInt32.loop1.body (fuel : Nat) : Decoder_DecodePackedInt32.St → Go.Out Decoder_DecodePackedInt32.St Decoder_DecodePackedInt32.R :=
  (Go.seq (fun s => if (BitVec.sle (BitVec.ofNat 64 s.d_p.length) s.d_offset) then (fun s => .ret (([] : List (BitVec 32)), Go.Err.unexpectedEOF) s) s else Go.skip s)
    (Go.seq (fun s => if ((s.d_offset).toNat ≤ s.d_p.length) then match (DecodeVarint fuel (s.d_p.drop (s.d_offset).toNat)) with | .ret r c => .next { s with v := r.1, n_1 := r.2.1, err_1 := r.2.2 } | .next _ => .panic | .panic => .panic | .diverge => .diverge else .panic)
    (Go.seq (fun s => if (s.err_1 != Go.Err.nil) then (fun s => .ret (([] : List (BitVec 32)), s.err_1) s) s else Go.skip s)
    (Go.seq (fun s => if (s.n_1 == 0#64) then (fun s => .ret (([] : List (BitVec 32)), Go.Err.invalidVarint) s) s else Go.skip s)
    (Go.seq (Go.seq (fun s => .next { s with i64 := s.v }) (fun s => if ((BitVec.slt 2147483647#64 s.i64) || (BitVec.slt s.i64 (BitVec.ofInt 64 (-2147483648)))) then (fun s => .ret (([] : List (BitVec 32)), Go.Err.overflow) s) s else Go.skip s))
    (Go.seq (fun s => .next { s with nRead := (s.nRead + s.n_1) })
    (Go.seq (fun s => .next { s with d_offset := (s.d_offset + s.n_1) })
    (fun s => .next { s with res := (s.res ++ [(BitVec.setWidth 32 s.v)]) }))))))))
def Decoder_DecodePackedInt32.loop1.post : Decoder_DecodePackedInt32.St → Go.Out Decoder_DecodePackedInt32.St Decoder_DecodePackedInt32.R := Go.skip

/-- the body of `Decoder_DecodePackedInt32`, statement by statement -/
def Decoder_DecodePackedInt32.body (fuel : Nat) : Decoder_DecodePackedInt32.St → Go.Out Decoder_DecodePackedInt32.St Decoder_DecodePackedInt32.R :=
  (Go.seq (Go.seq (fun s => if (BitVec.sle (BitVec.ofNat 64 s.d_p.length) s.d_offset) then (fun s => .ret (([] : List (BitVec 32)), Go.Err.unexpectedEOF) s) s else Go.skip s)
    (Go.seq Go.skip
    (Go.seq (fun s => if ((s.d_offset).toNat ≤ s.d_p.length) then match (DecodeVarint fuel (s.d_p.drop (s.d_offset).toNat)) with | .ret r c => .next { s with l := r.1, n := r.2.1, err := r.2.2 } | .next _ => .panic | .panic => .panic | .diverge => .diverge else .panic)
    (Go.seq (fun s => if (s.err != Go.Err.nil) then (fun s => .ret (([] : List (BitVec 32)), s.err) s) s else Go.skip s)
    (Go.seq (fun s => if (s.n == 0#64) then (fun s => .ret (([] : List (BitVec 32)), Go.Err.invalidVarint) s) s else Go.skip s)
    (Go.seq (fun s => .next { s with d_offset := (s.d_offset + s.n) })
    (Go.seq (fun s => .next { s with packedDataStart := s.d_offset })
    (Go.seq (Go.seq Go.skip (Go.loop Decoder_DecodePackedInt32.loop1.cond (Decoder_DecodePackedInt32.loop1.body fuel) Decoder_DecodePackedInt32.loop1.post fuel))
    (Go.seq (fun s => if (s.nRead != s.l) then (fun s => .ret (([] : List (BitVec 32)), (Go.Err.other "ErrInvalidPackedData")) s) s else Go.skip s)
    (fun s => .ret (s.res, Go.Err.nil) s))))))))))
    Go.missingReturn)

def Decoder_DecodePackedInt32 (fuel : Nat) (d_p : Bytes) (d_offset : BitVec 64) (d_mode : BitVec 64) (d_keyStart : BitVec 64) (d_keyEnd : BitVec 64) : Go.Out Decoder_DecodePackedInt32.St Decoder_DecodePackedInt32.R :=
  Decoder_DecodePackedInt32.body fuel { d_p := d_p, d_offset := d_offset, d_mode := d_mode, d_keyStart := d_keyStart, d_keyEnd := d_keyEnd }

/-! ### `Decoder.DecodePackedFixed64` (/repo/decoder.go:760:1) -/

structure Decoder_DecodePackedFixed64.St where
  d_p : Bytes
  d_offset : BitVec 64
  d_mode : BitVec 64
  d_keyStart : BitVec 64
  d_keyEnd : BitVec 64
  l : BitVec 64 := 0#64
  nRead : BitVec 64 := 0#64
  n : BitVec 64 := 0#64
  err : Go.Err := Go.Err.nil
  res : List (BitVec 64) := []
  packedDataStart : BitVec 64 := 0#64
  v : BitVec 64 := 0#64
  n_1 : BitVec 64 := 0#64
  err_1 : Go.Err := Go.Err.nil

abbrev Decoder_DecodePackedFixed64.R := List (BitVec 64) × Go.Err

def Decoder_DecodePackedFixed64.loop1.cond : Decoder_DecodePackedFixed64.St → Option Bool := (fun s => some (BitVec.ult s.nRead s.l))
def Decoder_DecodePackedFixed64.loop1.body (fuel : Nat) : Decoder_DecodePackedFixed64.St → Go.Out Decoder_DecodePackedFixed64.St Decoder_DecodePackedFixed64.R :=
  (Go.seq (fun s => if (BitVec.sle (BitVec.ofNat 64 s.d_p.length) s.d_offset) then (fun s => .ret (([] : List (BitVec 64)), Go.Err.unexpectedEOF) s) s else Go.skip s)
    (Go.seq (fun s => if ((s.d_offset).toNat ≤ s.d_p.length) then match (DecodeFixed64 fuel (s.d_p.drop (s.d_offset).toNat)) with | .ret r c => .next { s with v := r.1, n_1 := r.2.1, err_1 := r.2.2 } | .next _ => .panic | .panic => .panic | .diverge => .diverge else .panic)
    (Go.seq (fun s => if (s.err_1 != Go.Err.nil) then (fun s => .ret (([] : List (BitVec 64)), s.err_1) s) s else Go.skip s)
    (Go.seq (fun s => if (s.n_1 == 0#64) then (fun s => .ret (([] : List (BitVec 64)), Go.Err.invalidVarint) s) s else Go.skip s)
    (Go.seq (fun s => .next { s with nRead := (s.nRead + s.n_1) })
    (Go.seq (fun s => .next { s with d_offset := (s.d_offset + s.n_1) })
    (fun s => .next { s with res := (s.res ++ [s.v]) })))))))
def Decoder_DecodePackedFixed64.loop1.post : Decoder_DecodePackedFixed64.St → Go.Out Decoder_DecodePackedFixed64.St Decoder_DecodePackedFixed64.R := Go.skip

/-- the body of `Decoder_DecodePackedFixed64`, statement by statement -/
def Decoder_DecodePackedFixed64.body (fuel : Nat) : Decoder_DecodePackedFixed64.St → Go.Out Decoder_DecodePackedFixed64.St Decoder_DecodePackedFixed64.R :=
  (Go.seq (Go.seq (fun s => if (BitVec.sle (BitVec.ofNat 64 s.d_p.length) s.d_offset) then (fun s => .ret (([] : List (BitVec 64)), Go.Err.unexpectedEOF) s) s else Go.skip s)
    (Go.seq Go.skip
    (Go.seq (fun s => if ((s.d_offset).toNat ≤ s.d_p.length) then match (DecodeVarint fuel (s.d_p.drop (s.d_offset).toNat)) with | .ret r c => .next { s with l := r.1, n := r.2.1, err := r.2.2 } | .next _ => .panic | .panic => .panic | .diverge => .diverge else .panic)
    (Go.seq (fun s => if (s.err != Go.Err.nil) then (fun s => .ret (([] : List (BitVec 64)), s.err) s) s else Go.skip s)
    (Go.seq (fun s => if (s.n == 0#64) then (fun s => .ret (([] : List (BitVec 64)), Go.Err.invalidVarint) s) s else Go.skip s)
    (Go.seq (fun s => .next { s with d_offset := (s.d_offset + s.n) })
    (Go.seq (fun s => .next { s with packedDataStart := s.d_offset })
    (Go.seq (Go.seq Go.skip (Go.loop Decoder_DecodePackedFixed64.loop1.cond (Decoder_DecodePackedFixed64.loop1.body fuel) Decoder_DecodePackedFixed64.loop1.post fuel))
    (Go.seq (fun s => if (s.nRead != s.l) then (fun s => .ret (([] : List (BitVec 64)), (Go.Err.other "ErrInvalidPackedData")) s) s else Go.skip s)
    (fun s => .ret (s.res, Go.Err.nil) s))))))))))
    Go.missingReturn)

def Decoder_DecodePackedFixed64 (fuel : Nat) (d_p : Bytes) (d_offset : BitVec 64) (d_mode : BitVec 64) (d_keyStart : BitVec 64) (d_keyEnd : BitVec 64) : Go.Out Decoder_DecodePackedFixed64.St Decoder_DecodePackedFixed64.R :=
  Decoder_DecodePackedFixed64.body fuel { d_p := d_p, d_offset := d_offset, d_mode := d_mode, d_keyStart := d_keyStart, d_keyEnd := d_keyEnd }

/-! ### `Decoder.DecodePackedFixed32` (/repo/decoder.go:716:1) -/

structure Decoder_DecodePackedFixed32.St where
  d_p : Bytes
  d_offset : BitVec 64
  d_mode : BitVec 64
  d_keyStart : BitVec 64
  d_keyEnd : BitVec 64
  l : BitVec 64 := 0#64
  nRead : BitVec 64 := 0#64
  n : BitVec 64 := 0#64
  err : Go.Err := Go.Err.nil
  res : List (BitVec 32) := []
  packedDataStart : BitVec 64 := 0#64
  v : BitVec 32 := 0#32
  n_1 : BitVec 64 := 0#64
  err_1 : Go.Err := Go.Err.nil

abbrev Decoder_DecodePackedFixed32.R := List (BitVec 32) × Go.Err

def Decoder_DecodePackedFixed32.loop1.cond : Decoder_DecodePackedFixed32.St → Option Bool := (fun s => some (BitVec.ult s.nRead s.l))
def Decoder_DecodePackedFixed32.loop1.body (fuel : Nat) : Decoder_DecodePackedFixed32.St → Go.Out Decoder_DecodePackedFixed32.St Decoder_DecodePackedFixed32.R :=
  (Go.seq (fun s => if (BitVec.sle (BitVec.ofNat 64 s.d_p.length) s.d_offset) then (fun s => .ret (([] : List (BitVec 32)), Go.Err.unexpectedEOF) s) s else Go.skip s)
    (Go.seq (fun s => if ((s.d_offset).toNat ≤ s.d_p.length) then match (DecodeFixed32 fuel (s.d_p.drop (s.d_offset).toNat)) with | .ret r c => .next { s with v := r.1, n_1 := r.2.1, err_1 := r.2.2 } | .next _ => .panic | .panic => .panic | .diverge => .diverge else .panic)
    (Go.seq (fun s => if (s.err_1 != Go.Err.nil) then (fun s => .ret (([] : List (BitVec 32)), s.err_1) s) s else Go.skip s)
    (Go.seq (fun s => if (s.n_1 == 0#64) then (fun s => .ret (([] : List (BitVec 32)), Go.Err.invalidVarint) s) s else Go.skip s)
    (Go.seq (fun s => .next { s with nRead := (s.nRead + s.n_1) })
    (Go.seq (fun s => .next { s with d_offset := (s.d_offset + s.n_1) })
    (fun s => .next { s with res := (s.res ++ [s.v]) })))))))
def Decoder_DecodePackedFixed32.loop1.post : Decoder_DecodePackedFixed32.St → Go.Out Decoder_DecodePackedFixed32.St Decoder_DecodePackedFixed32.R := Go.skip

/-- the body of `Decoder_DecodePackedFixed32`, statement by statement -/
def Decoder_DecodePackedFixed32.body (fuel : Nat) : Decoder_DecodePackedFixed32.St → Go.Out Decoder_DecodePackedFixed32.St Decoder_DecodePackedFixed32.R :=
  (Go.seq (Go.seq (fun s => if (BitVec.sle (BitVec.ofNat 64 s.d_p.length) s.d_offset) then (fun s => .ret (([] : List (BitVec 32)), Go.Err.unexpectedEOF) s) s else Go.skip s)
    (Go.seq Go.skip
    (Go.seq (fun s => if ((s.d_offset).toNat ≤ s.d_p.length) then match (DecodeVarint fuel (s.d_p.drop (s.d_offset).toNat)) with | .ret r c => .next { s with l := r.1, n := r.2.1, err := r.2.2 } | .next _ => .panic | .panic => .panic | .diverge => .diverge else .panic)
    (Go.seq (fun s => if (s.err != Go.Err.nil) then (fun s => .ret (([] : List (BitVec 32)), s.err) s) s else Go.skip s)
    (Go.seq (fun s => if (s.n == 0#64) then (fun s => .ret (([] : List (BitVec 32)), Go.Err.invalidVarint) s) s else Go.skip s)
    (Go.seq (fun s => .next { s with d_offset := (s.d_offset + s.n) })
    (Go.seq (fun s => .next { s with packedDataStart := s.d_offset })
    (Go.seq (Go.seq Go.skip (Go.loop Decoder_DecodePackedFixed32.loop1.cond (Decoder_DecodePackedFixed32.loop1.body fuel) Decoder_DecodePackedFixed32.loop1.post fuel))
    (Go.seq (fun s => if (s.nRead != s.l) then (fun s => .ret (([] : List (BitVec 32)), (Go.Err.other "ErrInvalidPackedData")) s) s else Go.skip s)
    (fun s => .ret (s.res, Go.Err.nil) s))))))))))
    Go.missingReturn)

def Decoder_DecodePackedFixed32 (fuel : Nat) (d_p : Bytes) (d_offset : BitVec 64) (d_mode : BitVec 64) (d_keyStart : BitVec 64) (d_keyEnd : BitVec 64) : Go.Out Decoder_DecodePackedFixed32.St Decoder_DecodePackedFixed32.R :=
  Decoder_DecodePackedFixed32.body fuel { d_p := d_p, d_offset := d_offset, d_mode := d_mode, d_keyStart := d_keyStart, d_keyEnd := d_keyEnd }

/-! ### `Decoder.DecodePackedBool` (/repo/decoder.go:402:1) -/

structure Decoder_DecodePackedBool.St where
  d_p : Bytes
  d_offset : BitVec 64
  d_mode : BitVec 64
  d_keyStart : BitVec 64
  d_keyEnd : BitVec 64
  l : BitVec 64 := 0#64
  nRead : BitVec 64 := 0#64
  n : BitVec 64 := 0#64
  err : Go.Err := Go.Err.nil
  res : List Bool := []
  packedDataStart : BitVec 64 := 0#64
  v : BitVec 64 := 0#64
  n_1 : BitVec 64 := 0#64
  err_1 : Go.Err := Go.Err.nil

abbrev Decoder_DecodePackedBool.R := List Bool × Go.Err

def Decoder_DecodePackedBool.loop1.cond : Decoder_DecodePackedBool.St → Option Bool := (fun s => some (BitVec.ult s.nRead s.l))
def Decoder_DecodePackedBool.loop1.body (fuel : Nat) : Decoder_DecodePackedBool.St → Go.Out Decoder_DecodePackedBool.St Decoder_DecodePackedBool.R :=
  (Go.seq (fun s => if (BitVec.sle (BitVec.ofNat 64 s.d_p.length) s.d_offset) then (fun s => .ret (([] : List Bool), Go.Err.unexpectedEOF) s) s else Go.skip s)
    (Go.seq (fun s => if ((s.d_offset).toNat ≤ s.d_p.length) then match (DecodeVarint fuel (s.d_p.drop (s.d_offset).toNat)) with | .ret r c => .next { s with v := r.1, n_1 := r.2.1, err_1 := r.2.2 } | .next _ => .panic | .panic => .panic | .diverge => .diverge else .panic)
    (Go.seq (fun s => if (s.err_1 != Go.Err.nil) then (fun s => .ret (([] : List Bool), s.err_1) s) s else Go.skip s)
    (Go.seq (fun s => if (s.n_1 == 0#64) then (fun s => .ret (([] : List Bool), Go.Err.invalidVarint) s) s else Go.skip s)
    (Go.seq (fun s => .next { s with nRead := (s.nRead + s.n_1) })
    (Go.seq (fun s => .next { s with d_offset := (s.d_offset + s.n_1) })
    (fun s => .next { s with res := (s.res ++ [(s.v != 0#64)]) })))))))
def Decoder_DecodePackedBool.loop1.post : Decoder_DecodePackedBool.St → Go.Out Decoder_DecodePackedBool.St Decoder_DecodePackedBool.R := Go.skip

/-- the body of `Decoder_DecodePackedBool`, statement by statement -/
def Decoder_DecodePackedBool.body (fuel : Nat) : Decoder_DecodePackedBool.St → Go.Out Decoder_DecodePackedBool.St Decoder_DecodePackedBool.R :=
  (Go.seq (Go.seq (fun s => if (BitVec.sle (BitVec.ofNat 64 s.d_p.length) s.d_offset) then (fun s => .ret (([] : List Bool), Go.Err.unexpectedEOF) s) s else Go.skip s)
    (Go.seq Go.skip
    (Go.seq (fun s => if ((s.d_offset).toNat ≤ s.d_p.length) then match (DecodeVarint fuel (s.d_p.drop (s.d_offset).toNat)) with | .ret r c => .next { s with l := r.1, n := r.2.1, err := r.2.2 } | .next _ => .panic | .panic => .panic | .diverge => .diverge else .panic)
    (Go.seq (fun s => if (s.err != Go.Err.nil) then (fun s => .ret (([] : List Bool), s.err) s) s else Go.skip s)
    (Go.seq (fun s => if (s.n == 0#64) then (fun s => .ret (([] : List Bool), Go.Err.invalidVarint) s) s else Go.skip s)
    (Go.seq (fun s => .next { s with d_offset := (s.d_offset + s.n) })
    (Go.seq (fun s => .next { s with packedDataStart := s.d_offset })
    (Go.seq (Go.seq Go.skip (Go.loop Decoder_DecodePackedBool.loop1.cond (Decoder_DecodePackedBool.loop1.body fuel) Decoder_DecodePackedBool.loop1.post fuel))
    (Go.seq (fun s => if (s.nRead != s.l) then (fun s => .ret (([] : List Bool), (Go.Err.other "ErrInvalidPackedData")) s) s else Go.skip s)
    (fun s => .ret (s.res, Go.Err.nil) s))))))))))
    Go.missingReturn)

def Decoder_DecodePackedBool (fuel : Nat) (d_p : Bytes) (d_offset : BitVec 64) (d_mode : BitVec 64) (d_keyStart : BitVec 64) (d_keyEnd : BitVec 64) : Go.Out Decoder_DecodePackedBool.St Decoder_DecodePackedBool.R :=
  Decoder_DecodePackedBool.body fuel { d_p := d_p, d_offset := d_offset, d_mode := d_mode, d_keyStart := d_keyStart, d_keyEnd := d_keyEnd }

/-! ### `Encoder.EncodeBytes` (/repo/encoder.go:42:1) -/

structure Encoder_EncodeBytes.St where
  e_p : Bytes
  e_offset : BitVec 64
  tag : BitVec 64
  v : Bytes

abbrev Encoder_EncodeBytes.R := Unit

/-- the body of `Encoder_EncodeBytes`, statement by statement -/
def Encoder_EncodeBytes.body (fuel : Nat) : Encoder_EncodeBytes.St → Go.Out Encoder_EncodeBytes.St Encoder_EncodeBytes.R :=
  (Go.seq (Go.seq (fun s => if ((s.e_offset).toNat ≤ s.e_p.length) then match (EncodeTag fuel (s.e_p.drop (s.e_offset).toNat) s.tag 2#64) with | .ret r c => .next { s with e_p := s.e_p.take (s.e_offset).toNat ++ c.dest, e_offset := (s.e_offset + r) } | .next _ => .panic | .panic => .panic | .diverge => .diverge else .panic)
    (Go.seq (fun s => if ((s.e_offset).toNat ≤ s.e_p.length) then match (EncodeVarint fuel (s.e_p.drop (s.e_offset).toNat) (BitVec.ofNat 64 s.v.length)) with | .ret r c => .next { s with e_p := s.e_p.take (s.e_offset).toNat ++ c.dest, e_offset := (s.e_offset + r) } | .next _ => .panic | .panic => .panic | .diverge => .diverge else .panic)
    (Go.seq (fun s => if ((s.e_offset).toNat ≤ s.e_p.length) then .next { s with e_p := Go.copyAt s.e_p (s.e_offset).toNat s.v } else .panic)
    (fun s => .next { s with e_offset := (s.e_offset + (BitVec.ofNat 64 s.v.length)) }))))
    (fun s => .ret () s))

def Encoder_EncodeBytes (fuel : Nat) (e_p : Bytes) (e_offset : BitVec 64) (tag : BitVec 64) (v : Bytes) : Go.Out Encoder_EncodeBytes.St Encoder_EncodeBytes.R :=
  Encoder_EncodeBytes.body fuel { e_p := e_p, e_offset := e_offset, tag := tag, v := v }

/-! ### `Encoder.EncodeMapEntryHeader` (/repo/encoder.go:377:1) -/

structure Encoder_EncodeMapEntryHeader.St where
  e_p : Bytes
  e_offset : BitVec 64
  tag : BitVec 64
  size : BitVec 64

abbrev Encoder_EncodeMapEntryHeader.R := Unit

/-- the body of `Encoder_EncodeMapEntryHeader`, statement by statement -/
def Encoder_EncodeMapEntryHeader.body (fuel : Nat) : Encoder_EncodeMapEntryHeader.St → Go.Out Encoder_EncodeMapEntryHeader.St Encoder_EncodeMapEntryHeader.R :=
  (Go.seq (Go.seq (fun s => if ((s.e_offset).toNat ≤ s.e_p.length) then match (EncodeTag fuel (s.e_p.drop (s.e_offset).toNat) s.tag 2#64) with | .ret r c => .next { s with e_p := s.e_p.take (s.e_offset).toNat ++ c.dest, e_offset := (s.e_offset + r) } | .next _ => .panic | .panic => .panic | .diverge => .diverge else .panic)
    (fun s => if ((s.e_offset).toNat ≤ s.e_p.length) then match (EncodeVarint fuel (s.e_p.drop (s.e_offset).toNat) s.size) with | .ret r c => .next { s with e_p := s.e_p.take (s.e_offset).toNat ++ c.dest, e_offset := (s.e_offset + r) } | .next _ => .panic | .panic => .panic | .diverge => .diverge else .panic))
    (fun s => .ret () s))

def Encoder_EncodeMapEntryHeader (fuel : Nat) (e_p : Bytes) (e_offset : BitVec 64) (tag : BitVec 64) (size : BitVec 64) : Go.Out Encoder_EncodeMapEntryHeader.St Encoder_EncodeMapEntryHeader.R :=
  Encoder_EncodeMapEntryHeader.body fuel { e_p := e_p, e_offset := e_offset, tag := tag, size := size }

/-! ### `Encoder.EncodeRaw` (/repo/encoder.go:368:1) -/

structure Encoder_EncodeRaw.St where
  e_p : Bytes
  e_offset : BitVec 64
  d : Bytes
  l : BitVec 64 := 0#64

abbrev Encoder_EncodeRaw.R := Unit

/-- the body of `Encoder_EncodeRaw`, statement by statement -/
def Encoder_EncodeRaw.body (fuel : Nat) : Encoder_EncodeRaw.St → Go.Out Encoder_EncodeRaw.St Encoder_EncodeRaw.R :=
  (Go.seq (Go.seq (fun s => .next { s with l := (BitVec.ofNat 64 s.d.length) }) (fun s => if (BitVec.slt 0#64 s.l) then (Go.seq (fun s => if ((s.e_offset).toNat ≤ s.e_p.length) then .next { s with e_p := Go.copyAt s.e_p (s.e_offset).toNat s.d } else .panic)
    (fun s => .next { s with e_offset := (s.e_offset + s.l) })) s else Go.skip s))
    (fun s => .ret () s))

def Encoder_EncodeRaw (fuel : Nat) (e_p : Bytes) (e_offset : BitVec 64) (d : Bytes) : Go.Out Encoder_EncodeRaw.St Encoder_EncodeRaw.R :=
  Encoder_EncodeRaw.body fuel { e_p := e_p, e_offset := e_offset, d := d }

/-! ### `Encoder.EncodeFixed32` (/repo/encoder.go:87:1) -/

structure Encoder_EncodeFixed32.St where
  e_p : Bytes
  e_offset : BitVec 64
  tag : BitVec 64
  v : BitVec 32

abbrev Encoder_EncodeFixed32.R := Unit

/-- the body of `Encoder_EncodeFixed32`, statement by statement -/
def Encoder_EncodeFixed32.body (fuel : Nat) : Encoder_EncodeFixed32.St → Go.Out Encoder_EncodeFixed32.St Encoder_EncodeFixed32.R :=
  (Go.seq (Go.seq (fun s => if ((s.e_offset).toNat ≤ s.e_p.length) then match (EncodeTag fuel (s.e_p.drop (s.e_offset).toNat) s.tag 5#64) with | .ret r c => .next { s with e_p := s.e_p.take (s.e_offset).toNat ++ c.dest, e_offset := (s.e_offset + r) } | .next _ => .panic | .panic => .panic | .diverge => .diverge else .panic)
    (fun s => if ((s.e_offset).toNat ≤ s.e_p.length) then match (EncodeFixed32 fuel (s.e_p.drop (s.e_offset).toNat) s.v) with | .ret r c => .next { s with e_p := s.e_p.take (s.e_offset).toNat ++ c.dest, e_offset := (s.e_offset + r) } | .next _ => .panic | .panic => .panic | .diverge => .diverge else .panic))
    (fun s => .ret () s))

def Encoder_EncodeFixed32 (fuel : Nat) (e_p : Bytes) (e_offset : BitVec 64) (tag : BitVec 64) (v : BitVec 32) : Go.Out Encoder_EncodeFixed32.St Encoder_EncodeFixed32.R :=
  Encoder_EncodeFixed32.body fuel { e_p := e_p, e_offset := e_offset, tag := tag, v := v }

/-! ### `Encoder.EncodeFixed64` (/repo/encoder.go:94:1) -/

structure Encoder_EncodeFixed64.St where
  e_p : Bytes
  e_offset : BitVec 64
  tag : BitVec 64
  v : BitVec 64

abbrev Encoder_EncodeFixed64.R := Unit

/-- the body of `Encoder_EncodeFixed64`, statement by statement -/
def Encoder_EncodeFixed64.body (fuel : Nat) : Encoder_EncodeFixed64.St → Go.Out Encoder_EncodeFixed64.St Encoder_EncodeFixed64.R :=
  (Go.seq (Go.seq (fun s => if ((s.e_offset).toNat ≤ s.e_p.length) then match (EncodeTag fuel (s.e_p.drop (s.e_offset).toNat) s.tag 1#64) with | .ret r c => .next { s with e_p := s.e_p.take (s.e_offset).toNat ++ c.dest, e_offset := (s.e_offset + r) } | .next _ => .panic | .panic => .panic | .diverge => .diverge else .panic)
    (fun s => if ((s.e_offset).toNat ≤ s.e_p.length) then match (EncodeFixed64 fuel (s.e_p.drop (s.e_offset).toNat) s.v) with | .ret r c => .next { s with e_p := s.e_p.take (s.e_offset).toNat ++ c.dest, e_offset := (s.e_offset + r) } | .next _ => .panic | .panic => .panic | .diverge => .diverge else .panic))
    (fun s => .ret () s))

def Encoder_EncodeFixed64 (fuel : Nat) (e_p : Bytes) (e_offset : BitVec 64) (tag : BitVec 64) (v : BitVec 64) : Go.Out Encoder_EncodeFixed64.St Encoder_EncodeFixed64.R :=
  Encoder_EncodeFixed64.body fuel { e_p := e_p, e_offset := e_offset, tag := tag, v := v }

/-! ### `Encoder.EncodePackedBool` (/repo/encoder.go:117:1) -/

structure Encoder_EncodePackedBool.St where
  e_p : Bytes
  e_offset : BitVec 64
  tag : BitVec 64
  vs : List Bool
  v : Bool := false

abbrev Encoder_EncodePackedBool.R := Unit

/-- the body of `Encoder_EncodePackedBool`, statement by statement -/
def Encoder_EncodePackedBool.body (fuel : Nat) : Encoder_EncodePackedBool.St → Go.Out Encoder_EncodePackedBool.St Encoder_EncodePackedBool.R :=
  (Go.seq (Go.seq (fun s => if ((BitVec.ofNat 64 s.vs.length) == 0#64) then (fun s => .ret () s) s else Go.skip s)
    (Go.seq (fun s => if ((s.e_offset).toNat ≤ s.e_p.length) then match (EncodeTag fuel (s.e_p.drop (s.e_offset).toNat) s.tag 2#64) with | .ret r c => .next { s with e_p := s.e_p.take (s.e_offset).toNat ++ c.dest, e_offset := (s.e_offset + r) } | .next _ => .panic | .panic => .panic | .diverge => .diverge else .panic)
    (Go.seq (fun s => if ((s.e_offset).toNat ≤ s.e_p.length) then match (EncodeVarint fuel (s.e_p.drop (s.e_offset).toNat) (BitVec.ofNat 64 s.vs.length)) with | .ret r c => .next { s with e_p := s.e_p.take (s.e_offset).toNat ++ c.dest, e_offset := (s.e_offset + r) } | .next _ => .panic | .panic => .panic | .diverge => .diverge else .panic)
    (Go.forEach (fun s => s.vs) (fun s x => { s with v := x })
    (Go.seq (fun s => if s.v then (fun s => if ((s.e_offset).toNat < s.e_p.length) then .next { s with e_p := Go.wr s.e_p (s.e_offset).toNat 1#8 } else .panic) s else (fun s => if ((s.e_offset).toNat < s.e_p.length) then .next { s with e_p := Go.wr s.e_p (s.e_offset).toNat 0#8 } else .panic) s)
    (fun s => .next { s with e_offset := (s.e_offset + 1#64) }))))))
    (fun s => .ret () s))

def Encoder_EncodePackedBool (fuel : Nat) (e_p : Bytes) (e_offset : BitVec 64) (tag : BitVec 64) (vs : List Bool) : Go.Out Encoder_EncodePackedBool.St Encoder_EncodePackedBool.R :=
  Encoder_EncodePackedBool.body fuel { e_p := e_p, e_offset := e_offset, tag := tag, vs := vs }

/-! ### `Encoder.EncodePackedUInt64` (/repo/encoder.go:198:1) -/

structure Encoder_EncodePackedUInt64.St where
  e_p : Bytes
  e_offset : BitVec 64
  tag : BitVec 64
  vs : List (BitVec 64)
  sz : BitVec 64 := 0#64
  v : BitVec 64 := 0#64

abbrev Encoder_EncodePackedUInt64.R := Unit

/-- the body of `Encoder_EncodePackedUInt64`, statement by statement -/
def Encoder_EncodePackedUInt64.body (fuel : Nat) : Encoder_EncodePackedUInt64.St → Go.Out Encoder_EncodePackedUInt64.St Encoder_EncodePackedUInt64.R :=
  (Go.seq (Go.seq (fun s => if ((BitVec.ofNat 64 s.vs.length) == 0#64) then (fun s => .ret () s) s else Go.skip s)
    (Go.seq (fun s => if ((s.e_offset).toNat ≤ s.e_p.length) then match (EncodeTag fuel (s.e_p.drop (s.e_offset).toNat) s.tag 2#64) with | .ret r c => .next { s with e_p := s.e_p.take (s.e_offset).toNat ++ c.dest, e_offset := (s.e_offset + r) } | .next _ => .panic | .panic => .panic | .diverge => .diverge else .panic)
    (Go.seq (fun s => .next { s with sz := 0#64 })
    (Go.seq (Go.forEach (fun s => s.vs) (fun s x => { s with v := x })
    (fun s => .next { s with sz := (s.sz + (SizeOfVarint s.v)) }))
    (Go.seq (fun s => if ((s.e_offset).toNat ≤ s.e_p.length) then match (EncodeVarint fuel (s.e_p.drop (s.e_offset).toNat) s.sz) with | .ret r c => .next { s with e_p := s.e_p.take (s.e_offset).toNat ++ c.dest, e_offset := (s.e_offset + r) } | .next _ => .panic | .panic => .panic | .diverge => .diverge else .panic)
    (Go.forEach (fun s => s.vs) (fun s x => { s with v := x })
    (fun s => if ((s.e_offset).toNat ≤ s.e_p.length) then match (EncodeVarint fuel (s.e_p.drop (s.e_offset).toNat) s.v) with | .ret r c => .next { s with e_p := s.e_p.take (s.e_offset).toNat ++ c.dest, e_offset := (s.e_offset + r) } | .next _ => .panic | .panic => .panic | .diverge => .diverge else .panic)))))))
    (fun s => .ret () s))

def Encoder_EncodePackedUInt64 (fuel : Nat) (e_p : Bytes) (e_offset : BitVec 64) (tag : BitVec 64) (vs : List (BitVec 64)) : Go.Out Encoder_EncodePackedUInt64.St Encoder_EncodePackedUInt64.R :=
  Encoder_EncodePackedUInt64.body fuel { e_p := e_p, e_offset := e_offset, tag := tag, vs := vs }

/-! ### `Encoder.EncodePackedInt32` (/repo/encoder.go:138:1) -/

structure Encoder_EncodePackedInt32.St where
  e_p : Bytes
  e_offset : BitVec 64
  tag : BitVec 64
  vs : List (BitVec 32)
  sz : BitVec 64 := 0#64
  v : BitVec 32 := 0#32

abbrev Encoder_EncodePackedInt32.R := Unit

/-- the body of `Encoder_EncodePackedInt32`, statement by statement -/
def Encoder_EncodePackedInt32.body (fuel : Nat) : Encoder_EncodePackedInt32.St → Go.Out Encoder_EncodePackedInt32.St Encoder_EncodePackedInt32.R :=
  (Go.seq (Go.seq (fun s => if ((BitVec.ofNat 64 s.vs.length) == 0#64) then (fun s => .ret () s) s else Go.skip s)
    (Go.seq (fun s => if ((s.e_offset).toNat ≤ s.e_p.length) then match (EncodeTag fuel (s.e_p.drop (s.e_offset).toNat) s.tag 2#64) with | .ret r c => .next { s with e_p := s.e_p.take (s.e_offset).toNat ++ c.dest, e_offset := (s.e_offset + r) } | .next _ => .panic | .panic => .panic | .diverge => .diverge else .panic)
    (Go.seq (fun s => .next { s with sz := 0#64 })
    (Go.seq (Go.forEach (fun s => s.vs) (fun s x => { s with v := x })
    (fun s => .next { s with sz := (s.sz + (SizeOfVarint (BitVec.signExtend 64 s.v))) }))
    (Go.seq (fun s => if ((s.e_offset).toNat ≤ s.e_p.length) then match (EncodeVarint fuel (s.e_p.drop (s.e_offset).toNat) s.sz) with | .ret r c => .next { s with e_p := s.e_p.take (s.e_offset).toNat ++ c.dest, e_offset := (s.e_offset + r) } | .next _ => .panic | .panic => .panic | .diverge => .diverge else .panic)
    (Go.forEach (fun s => s.vs) (fun s x => { s with v := x })
    (fun s => if ((s.e_offset).toNat ≤ s.e_p.length) then match (EncodeVarint fuel (s.e_p.drop (s.e_offset).toNat) (BitVec.signExtend 64 s.v)) with | .ret r c => .next { s with e_p := s.e_p.take (s.e_offset).toNat ++ c.dest, e_offset := (s.e_offset + r) } | .next _ => .panic | .panic => .panic | .diverge => .diverge else .panic)))))))
    (fun s => .ret () s))

def Encoder_EncodePackedInt32 (fuel : Nat) (e_p : Bytes) (e_offset : BitVec 64) (tag : BitVec 64) (vs : List (BitVec 32)) : Go.Out Encoder_EncodePackedInt32.St Encoder_EncodePackedInt32.R :=
  Encoder_EncodePackedInt32.body fuel { e_p := e_p, e_offset := e_offset, tag := tag, vs := vs }

/-! ### `Encoder.EncodePackedInt64` (/repo/encoder.go:158:1) -/

structure Encoder_EncodePackedInt64.St where
  e_p : Bytes
  e_offset : BitVec 64
  tag : BitVec 64
  vs : List (BitVec 64)
  sz : BitVec 64 := 0#64
  v : BitVec 64 := 0#64

abbrev Encoder_EncodePackedInt64.R := Unit

/-- the body of `Encoder_EncodePackedInt64`, statement by statement -/
def Encoder_EncodePackedInt64.body (fuel : Nat) : Encoder_EncodePackedInt64.St → Go.Out Encoder_EncodePackedInt64.St Encoder_EncodePackedInt64.R :=
  (Go.seq (Go.seq (fun s => if ((BitVec.ofNat 64 s.vs.length) == 0#64) then (fun s => .ret () s) s else Go.skip s)
    (Go.seq (fun s => if ((s.e_offset).toNat ≤ s.e_p.length) then match (EncodeTag fuel (s.e_p.drop (s.e_offset).toNat) s.tag 2#64) with | .ret r c => .next { s with e_p := s.e_p.take (s.e_offset).toNat ++ c.dest, e_offset := (s.e_offset + r) } | .next _ => .panic | .panic => .panic | .diverge => .diverge else .panic)
    (Go.seq (fun s => .next { s with sz := 0#64 })
    (Go.seq (Go.forEach (fun s => s.vs) (fun s x => { s with v := x })
    (fun s => .next { s with sz := (s.sz + (SizeOfVarint s.v)) }))
    (Go.seq (fun s => if ((s.e_offset).toNat ≤ s.e_p.length) then match (EncodeVarint fuel (s.e_p.drop (s.e_offset).toNat) s.sz) with | .ret r c => .next { s with e_p := s.e_p.take (s.e_offset).toNat ++ c.dest, e_offset := (s.e_offset + r) } | .next _ => .panic | .panic => .panic | .diverge => .diverge else .panic)
    (Go.forEach (fun s => s.vs) (fun s x => { s with v := x })
    (fun s => if ((s.e_offset).toNat ≤ s.e_p.length) then match (EncodeVarint fuel (s.e_p.drop (s.e_offset).toNat) s.v) with | .ret r c => .next { s with e_p := s.e_p.take (s.e_offset).toNat ++ c.dest, e_offset := (s.e_offset + r) } | .next _ => .panic | .panic => .panic | .diverge => .diverge else .panic)))))))
    (fun s => .ret () s))

def Encoder_EncodePackedInt64 (fuel : Nat) (e_p : Bytes) (e_offset : BitVec 64) (tag : BitVec 64) (vs : List (BitVec 64)) : Go.Out Encoder_EncodePackedInt64.St Encoder_EncodePackedInt64.R :=
  Encoder_EncodePackedInt64.body fuel { e_p := e_p, e_offset := e_offset, tag := tag, vs := vs }

/-! ### `Encoder.EncodePackedUInt32` (/repo/encoder.go:178:1) -/

structure Encoder_EncodePackedUInt32.St where
  e_p : Bytes
  e_offset : BitVec 64
  tag : BitVec 64
  vs : List (BitVec 32)
  sz : BitVec 64 := 0#64
  v : BitVec 32 := 0#32

abbrev Encoder_EncodePackedUInt32.R := Unit

/-- the body of `Encoder_EncodePackedUInt32`, statement by statement -/
def Encoder_EncodePackedUInt32.body (fuel : Nat) : Encoder_EncodePackedUInt32.St → Go.Out Encoder_EncodePackedUInt32.St Encoder_EncodePackedUInt32.R :=
  (Go.seq (Go.seq (fun s => if ((BitVec.ofNat 64 s.vs.length) == 0#64) then (fun s => .ret () s) s else Go.skip s)
    (Go.seq (fun s => if ((s.e_offset).toNat ≤ s.e_p.length) then match (EncodeTag fuel (s.e_p.drop (s.e_offset).toNat) s.tag 2#64) with | .ret r c => .next { s with e_p := s.e_p.take (s.e_offset).toNat ++ c.dest, e_offset := (s.e_offset + r) } | .next _ => .panic | .panic => .panic | .diverge => .diverge else .panic)
    (Go.seq (fun s => .next { s with sz := 0#64 })
    (Go.seq (Go.forEach (fun s => s.vs) (fun s x => { s with v := x })
    (fun s => .next { s with sz := (s.sz + (SizeOfVarint (BitVec.setWidth 64 s.v))) }))
    (Go.seq (fun s => if ((s.e_offset).toNat ≤ s.e_p.length) then match (EncodeVarint fuel (s.e_p.drop (s.e_offset).toNat) s.sz) with | .ret r c => .next { s with e_p := s.e_p.take (s.e_offset).toNat ++ c.dest, e_offset := (s.e_offset + r) } | .next _ => .panic | .panic => .panic | .diverge => .diverge else .panic)
    (Go.forEach (fun s => s.vs) (fun s x => { s with v := x })
    (fun s => if ((s.e_offset).toNat ≤ s.e_p.length) then match (EncodeVarint fuel (s.e_p.drop (s.e_offset).toNat) (BitVec.setWidth 64 s.v)) with | .ret r c => .next { s with e_p := s.e_p.take (s.e_offset).toNat ++ c.dest, e_offset := (s.e_offset + r) } | .next _ => .panic | .panic => .panic | .diverge => .diverge else .panic)))))))
    (fun s => .ret () s))

def Encoder_EncodePackedUInt32 (fuel : Nat) (e_p : Bytes) (e_offset : BitVec 64) (tag : BitVec 64) (vs : List (BitVec 32)) : Go.Out Encoder_EncodePackedUInt32.St Encoder_EncodePackedUInt32.R :=
  Encoder_EncodePackedUInt32.body fuel { e_p := e_p, e_offset := e_offset, tag := tag, vs := vs }

/-! ### `Encoder.EncodePackedSInt64` (/repo/encoder.go:238:1) -/

structure Encoder_EncodePackedSInt64.St where
  e_p : Bytes
  e_offset : BitVec 64
  tag : BitVec 64
  vs : List (BitVec 64)
  sz : BitVec 64 := 0#64
  v : BitVec 64 := 0#64

abbrev Encoder_EncodePackedSInt64.R := Unit

/-- the body of `Encoder_EncodePackedSInt64`, statement by statement -/
def Encoder_EncodePackedSInt64.body (fuel : Nat) : Encoder_EncodePackedSInt64.St → Go.Out Encoder_EncodePackedSInt64.St Encoder_EncodePackedSInt64.R :=
  (Go.seq (Go.seq (fun s => if ((BitVec.ofNat 64 s.vs.length) == 0#64) then (fun s => .ret () s) s else Go.skip s)
    (Go.seq (fun s => if ((s.e_offset).toNat ≤ s.e_p.length) then match (EncodeTag fuel (s.e_p.drop (s.e_offset).toNat) s.tag 2#64) with | .ret r c => .next { s with e_p := s.e_p.take (s.e_offset).toNat ++ c.dest, e_offset := (s.e_offset + r) } | .next _ => .panic | .panic => .panic | .diverge => .diverge else .panic)
    (Go.seq (fun s => .next { s with sz := 0#64 })
    (Go.seq (Go.forEach (fun s => s.vs) (fun s x => { s with v := x })
    (fun s => .next { s with sz := (s.sz + (SizeOfZigZag s.v)) }))
    (Go.seq (fun s => if ((s.e_offset).toNat ≤ s.e_p.length) then match (EncodeVarint fuel (s.e_p.drop (s.e_offset).toNat) s.sz) with | .ret r c => .next { s with e_p := s.e_p.take (s.e_offset).toNat ++ c.dest, e_offset := (s.e_offset + r) } | .next _ => .panic | .panic => .panic | .diverge => .diverge else .panic)
    (Go.forEach (fun s => s.vs) (fun s x => { s with v := x })
    (fun s => if ((s.e_offset).toNat ≤ s.e_p.length) then match (EncodeZigZag64 fuel (s.e_p.drop (s.e_offset).toNat) s.v) with | .ret r c => .next { s with e_p := s.e_p.take (s.e_offset).toNat ++ c.dest, e_offset := (s.e_offset + r) } | .next _ => .panic | .panic => .panic | .diverge => .diverge else .panic)))))))
    (fun s => .ret () s))

def Encoder_EncodePackedSInt64 (fuel : Nat) (e_p : Bytes) (e_offset : BitVec 64) (tag : BitVec 64) (vs : List (BitVec 64)) : Go.Out Encoder_EncodePackedSInt64.St Encoder_EncodePackedSInt64.R :=
  Encoder_EncodePackedSInt64.body fuel { e_p := e_p, e_offset := e_offset, tag := tag, vs := vs }

/-! ### `Encoder.EncodePackedSInt32` (/repo/encoder.go:218:1) -/

structure Encoder_EncodePackedSInt32.St where
  e_p : Bytes
  e_offset : BitVec 64
  tag : BitVec 64
  vs : List (BitVec 32)
  sz : BitVec 64 := 0#64
  v : BitVec 32 := 0#32

abbrev Encoder_EncodePackedSInt32.R := Unit

/-- the body of `Encoder_EncodePackedSInt32`, statement by statement -/
def Encoder_EncodePackedSInt32.body (fuel : Nat) : Encoder_EncodePackedSInt32.St → Go.Out Encoder_EncodePackedSInt32.St Encoder_EncodePackedSInt32.R :=
  (Go.seq (Go.seq (fun s => if ((BitVec.ofNat 64 s.vs.length) == 0#64) then (fun s => .ret () s) s else Go.skip s)
    (Go.seq (fun s => if ((s.e_offset).toNat ≤ s.e_p.length) then match (EncodeTag fuel (s.e_p.drop (s.e_offset).toNat) s.tag 2#64) with | .ret r c => .next { s with e_p := s.e_p.take (s.e_offset).toNat ++ c.dest, e_offset := (s.e_offset + r) } | .next _ => .panic | .panic => .panic | .diverge => .diverge else .panic)
    (Go.seq (fun s => .next { s with sz := 0#64 })
    (Go.seq (Go.forEach (fun s => s.vs) (fun s x => { s with v := x })
    (fun s => .next { s with sz := (s.sz + (SizeOfZigZag (BitVec.signExtend 64 s.v))) }))
    (Go.seq (fun s => if ((s.e_offset).toNat ≤ s.e_p.length) then match (EncodeVarint fuel (s.e_p.drop (s.e_offset).toNat) s.sz) with | .ret r c => .next { s with e_p := s.e_p.take (s.e_offset).toNat ++ c.dest, e_offset := (s.e_offset + r) } | .next _ => .panic | .panic => .panic | .diverge => .diverge else .panic)
    (Go.forEach (fun s => s.vs) (fun s x => { s with v := x })
    (fun s => if ((s.e_offset).toNat ≤ s.e_p.length) then match (EncodeZigZag32 fuel (s.e_p.drop (s.e_offset).toNat) s.v) with | .ret r c => .next { s with e_p := s.e_p.take (s.e_offset).toNat ++ c.dest, e_offset := (s.e_offset + r) } | .next _ => .panic | .panic => .panic | .diverge => .diverge else .panic)))))))
    (fun s => .ret () s))

def Encoder_EncodePackedSInt32 (fuel : Nat) (e_p : Bytes) (e_offset : BitVec 64) (tag : BitVec 64) (vs : List (BitVec 32)) : Go.Out Encoder_EncodePackedSInt32.St Encoder_EncodePackedSInt32.R :=
  Encoder_EncodePackedSInt32.body fuel { e_p := e_p, e_offset := e_offset, tag := tag, vs := vs }

/-! ### `Encoder.EncodeBool` (/repo/encoder.go:25:1) -/

structure Encoder_EncodeBool.St where
  e_p : Bytes
  e_offset : BitVec 64
  tag : BitVec 64
  v : Bool

abbrev Encoder_EncodeBool.R := Unit

/-- the body of `Encoder_EncodeBool`, statement by statement -/
def Encoder_EncodeBool.body (fuel : Nat) : Encoder_EncodeBool.St → Go.Out Encoder_EncodeBool.St Encoder_EncodeBool.R :=
  (Go.seq (Go.seq (fun s => if ((s.e_offset).toNat ≤ s.e_p.length) then match (EncodeTag fuel (s.e_p.drop (s.e_offset).toNat) s.tag 0#64) with | .ret r c => .next { s with e_p := s.e_p.take (s.e_offset).toNat ++ c.dest, e_offset := (s.e_offset + r) } | .next _ => .panic | .panic => .panic | .diverge => .diverge else .panic)
    (Go.seq (fun s => if s.v then (fun s => if ((s.e_offset).toNat < s.e_p.length) then .next { s with e_p := Go.wr s.e_p (s.e_offset).toNat 1#8 } else .panic) s else (fun s => if ((s.e_offset).toNat < s.e_p.length) then .next { s with e_p := Go.wr s.e_p (s.e_offset).toNat 0#8 } else .panic) s)
    (fun s => .next { s with e_offset := (s.e_offset + 1#64) })))
    (fun s => .ret () s))

def Encoder_EncodeBool (fuel : Nat) (e_p : Bytes) (e_offset : BitVec 64) (tag : BitVec 64) (v : Bool) : Go.Out Encoder_EncodeBool.St Encoder_EncodeBool.R :=
  Encoder_EncodeBool.body fuel { e_p := e_p, e_offset := e_offset, tag := tag, v := v }

/-! ### `Encoder.EncodeUInt64` (/repo/encoder.go:56:1) -/

structure Encoder_EncodeUInt64.St where
  e_p : Bytes
  e_offset : BitVec 64
  tag : BitVec 64
  v : BitVec 64

abbrev Encoder_EncodeUInt64.R := Unit

/-- the body of `Encoder_EncodeUInt64`, statement by statement -/
def Encoder_EncodeUInt64.body (fuel : Nat) : Encoder_EncodeUInt64.St → Go.Out Encoder_EncodeUInt64.St Encoder_EncodeUInt64.R :=
  (Go.seq (Go.seq (fun s => if ((s.e_offset).toNat ≤ s.e_p.length) then match (EncodeTag fuel (s.e_p.drop (s.e_offset).toNat) s.tag 0#64) with | .ret r c => .next { s with e_p := s.e_p.take (s.e_offset).toNat ++ c.dest, e_offset := (s.e_offset + r) } | .next _ => .panic | .panic => .panic | .diverge => .diverge else .panic)
    (fun s => if ((s.e_offset).toNat ≤ s.e_p.length) then match (EncodeVarint fuel (s.e_p.drop (s.e_offset).toNat) s.v) with | .ret r c => .next { s with e_p := s.e_p.take (s.e_offset).toNat ++ c.dest, e_offset := (s.e_offset + r) } | .next _ => .panic | .panic => .panic | .diverge => .diverge else .panic))
    (fun s => .ret () s))

def Encoder_EncodeUInt64 (fuel : Nat) (e_p : Bytes) (e_offset : BitVec 64) (tag : BitVec 64) (v : BitVec 64) : Go.Out Encoder_EncodeUInt64.St Encoder_EncodeUInt64.R :=
  Encoder_EncodeUInt64.body fuel { e_p := e_p, e_offset := e_offset, tag := tag, v := v }

/-! ### `Encoder.EncodeUInt32` (/repo/encoder.go:50:1) -/

structure Encoder_EncodeUInt32.St where
  e_p : Bytes
  e_offset : BitVec 64
  tag : BitVec 64
  v : BitVec 32

abbrev Encoder_EncodeUInt32.R := Unit

/-- the body of `Encoder_EncodeUInt32`, statement by statement -/
def Encoder_EncodeUInt32.body (fuel : Nat) : Encoder_EncodeUInt32.St → Go.Out Encoder_EncodeUInt32.St Encoder_EncodeUInt32.R :=
  (Go.seq (Go.seq (fun s => if ((s.e_offset).toNat ≤ s.e_p.length) then match (EncodeTag fuel (s.e_p.drop (s.e_offset).toNat) s.tag 0#64) with | .ret r c => .next { s with e_p := s.e_p.take (s.e_offset).toNat ++ c.dest, e_offset := (s.e_offset + r) } | .next _ => .panic | .panic => .panic | .diverge => .diverge else .panic)
    (fun s => if ((s.e_offset).toNat ≤ s.e_p.length) then match (EncodeVarint fuel (s.e_p.drop (s.e_offset).toNat) (BitVec.setWidth 64 s.v)) with | .ret r c => .next { s with e_p := s.e_p.take (s.e_offset).toNat ++ c.dest, e_offset := (s.e_offset + r) } | .next _ => .panic | .panic => .panic | .diverge => .diverge else .panic))
    (fun s => .ret () s))

def Encoder_EncodeUInt32 (fuel : Nat) (e_p : Bytes) (e_offset : BitVec 64) (tag : BitVec 64) (v : BitVec 32) : Go.Out Encoder_EncodeUInt32.St Encoder_EncodeUInt32.R :=
  Encoder_EncodeUInt32.body fuel { e_p := e_p, e_offset := e_offset, tag := tag, v := v }

/-! ### `Encoder.EncodeInt64` (/repo/encoder.go:68:1) -/

structure Encoder_EncodeInt64.St where
  e_p : Bytes
  e_offset : BitVec 64
  tag : BitVec 64
  v : BitVec 64

abbrev Encoder_EncodeInt64.R := Unit

/-- the body of `Encoder_EncodeInt64`, statement by statement -/
def Encoder_EncodeInt64.body (fuel : Nat) : Encoder_EncodeInt64.St → Go.Out Encoder_EncodeInt64.St Encoder_EncodeInt64.R :=
  (Go.seq (Go.seq (fun s => if ((s.e_offset).toNat ≤ s.e_p.length) then match (EncodeTag fuel (s.e_p.drop (s.e_offset).toNat) s.tag 0#64) with | .ret r c => .next { s with e_p := s.e_p.take (s.e_offset).toNat ++ c.dest, e_offset := (s.e_offset + r) } | .next _ => .panic | .panic => .panic | .diverge => .diverge else .panic)
    (fun s => if ((s.e_offset).toNat ≤ s.e_p.length) then match (EncodeVarint fuel (s.e_p.drop (s.e_offset).toNat) s.v) with | .ret r c => .next { s with e_p := s.e_p.take (s.e_offset).toNat ++ c.dest, e_offset := (s.e_offset + r) } | .next _ => .panic | .panic => .panic | .diverge => .diverge else .panic))
    (fun s => .ret () s))

def Encoder_EncodeInt64 (fuel : Nat) (e_p : Bytes) (e_offset : BitVec 64) (tag : BitVec 64) (v : BitVec 64) : Go.Out Encoder_EncodeInt64.St Encoder_EncodeInt64.R :=
  Encoder_EncodeInt64.body fuel { e_p := e_p, e_offset := e_offset, tag := tag, v := v }

/-! ### `Encoder.EncodeInt32` (/repo/encoder.go:62:1) -/

structure Encoder_EncodeInt32.St where
  e_p : Bytes
  e_offset : BitVec 64
  tag : BitVec 64
  v : BitVec 32

abbrev Encoder_EncodeInt32.R := Unit

/-- the body of `Encoder_EncodeInt32`, statement by statement -/
def Encoder_EncodeInt32.body (fuel : Nat) : Encoder_EncodeInt32.St → Go.Out Encoder_EncodeInt32.St Encoder_EncodeInt32.R :=
  (Go.seq (Go.seq (fun s => if ((s.e_offset).toNat ≤ s.e_p.length) then match (EncodeTag fuel (s.e_p.drop (s.e_offset).toNat) s.tag 0#64) with | .ret r c => .next { s with e_p := s.e_p.take (s.e_offset).toNat ++ c.dest, e_offset := (s.e_offset + r) } | .next _ => .panic | .panic => .panic | .diverge => .diverge else .panic)
    (fun s => if ((s.e_offset).toNat ≤ s.e_p.length) then match (EncodeVarint fuel (s.e_p.drop (s.e_offset).toNat) (BitVec.signExtend 64 s.v)) with | .ret r c => .next { s with e_p := s.e_p.take (s.e_offset).toNat ++ c.dest, e_offset := (s.e_offset + r) } | .next _ => .panic | .panic => .panic | .diverge => .diverge else .panic))
    (fun s => .ret () s))

def Encoder_EncodeInt32 (fuel : Nat) (e_p : Bytes) (e_offset : BitVec 64) (tag : BitVec 64) (v : BitVec 32) : Go.Out Encoder_EncodeInt32.St Encoder_EncodeInt32.R :=
  Encoder_EncodeInt32.body fuel { e_p := e_p, e_offset := e_offset, tag := tag, v := v }

/-! ### `Encoder.EncodeSInt32` (/repo/encoder.go:74:1) -/

structure Encoder_EncodeSInt32.St where
  e_p : Bytes
  e_offset : BitVec 64
  tag : BitVec 64
  v : BitVec 32

abbrev Encoder_EncodeSInt32.R := Unit

/-- the body of `Encoder_EncodeSInt32`, statement by statement -/
def Encoder_EncodeSInt32.body (fuel : Nat) : Encoder_EncodeSInt32.St → Go.Out Encoder_EncodeSInt32.St Encoder_EncodeSInt32.R :=
  (Go.seq (Go.seq (fun s => if ((s.e_offset).toNat ≤ s.e_p.length) then match (EncodeTag fuel (s.e_p.drop (s.e_offset).toNat) s.tag 0#64) with | .ret r c => .next { s with e_p := s.e_p.take (s.e_offset).toNat ++ c.dest, e_offset := (s.e_offset + r) } | .next _ => .panic | .panic => .panic | .diverge => .diverge else .panic)
    (fun s => if ((s.e_offset).toNat ≤ s.e_p.length) then match (EncodeZigZag32 fuel (s.e_p.drop (s.e_offset).toNat) s.v) with | .ret r c => .next { s with e_p := s.e_p.take (s.e_offset).toNat ++ c.dest, e_offset := (s.e_offset + r) } | .next _ => .panic | .panic => .panic | .diverge => .diverge else .panic))
    (fun s => .ret () s))

def Encoder_EncodeSInt32 (fuel : Nat) (e_p : Bytes) (e_offset : BitVec 64) (tag : BitVec 64) (v : BitVec 32) : Go.Out Encoder_EncodeSInt32.St Encoder_EncodeSInt32.R :=
  Encoder_EncodeSInt32.body fuel { e_p := e_p, e_offset := e_offset, tag := tag, v := v }

/-! ### `Encoder.EncodeSInt64` (/repo/encoder.go:80:1) -/

structure Encoder_EncodeSInt64.St where
  e_p : Bytes
  e_offset : BitVec 64
  tag : BitVec 64
  v : BitVec 64

abbrev Encoder_EncodeSInt64.R := Unit

/-- the body of `Encoder_EncodeSInt64`, statement by statement -/
def Encoder_EncodeSInt64.body (fuel : Nat) : Encoder_EncodeSInt64.St → Go.Out Encoder_EncodeSInt64.St Encoder_EncodeSInt64.R :=
  (Go.seq (Go.seq (fun s => if ((s.e_offset).toNat ≤ s.e_p.length) then match (EncodeTag fuel (s.e_p.drop (s.e_offset).toNat) s.tag 0#64) with | .ret r c => .next { s with e_p := s.e_p.take (s.e_offset).toNat ++ c.dest, e_offset := (s.e_offset + r) } | .next _ => .panic | .panic => .panic | .diverge => .diverge else .panic)
    (fun s => if ((s.e_offset).toNat ≤ s.e_p.length) then match (EncodeZigZag64 fuel (s.e_p.drop (s.e_offset).toNat) s.v) with | .ret r c => .next { s with e_p := s.e_p.take (s.e_offset).toNat ++ c.dest, e_offset := (s.e_offset + r) } | .next _ => .panic | .panic => .panic | .diverge => .diverge else .panic))
    (fun s => .ret () s))

def Encoder_EncodeSInt64 (fuel : Nat) (e_p : Bytes) (e_offset : BitVec 64) (tag : BitVec 64) (v : BitVec 64) : Go.Out Encoder_EncodeSInt64.St Encoder_EncodeSInt64.R :=
  Encoder_EncodeSInt64.body fuel { e_p := e_p, e_offset := e_offset, tag := tag, v := v }

end Csproto.Generated.WireFuncs
