/- REGENERATED on every run by harness/cmd/extract from /repo's Go source. Do not edit. -/
namespace Csproto.Generated

def EncodeNested_arms : List String := ["MarshalerTo:Size,EncodeTag,EncodeVarint,.MarshalTo", "Marshaler:.Marshal,.EncodeBytes", "default:Marshal,.EncodeBytes"]
def DecodeNested_arms : List String := ["Unmarshaler:.Reset,.Unmarshal", "default:Unmarshal"]
def Marshal_probes : List String := ["Marshaler:.Marshal", "ProtoV1Marshaler:.XXX_Size,.XXX_Marshal", "proto.Message:proto.Marshal"]
def Unmarshal_probes : List String := ["Unmarshaler:.Reset,.Unmarshal", "ProtoV1Unmarshaler:.Reset,.XXX_Unmarshal", "proto.Message:proto.Unmarshal"]
def Size_probes : List String := ["Sizer:.Size", "ProtoV1Sizer:.XXX_Size", "proto.Message:proto.Size"]

end Csproto.Generated
