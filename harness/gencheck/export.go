package gencheck

import (
	"google.golang.org/protobuf/reflect/protoreflect"
	"google.golang.org/protobuf/types/dynamicpb"

	"csverif/internal/prng"
)

// RandMessage: a random value tree of the message type (used by the shim-level checks too).
func RandMessage(r *prng.Rng, md protoreflect.MessageDescriptor, requiredAlways bool) *dynamicpb.Message {
	return randMessage(r, md, genOpts{requiredAlways: requiredAlways})
}
