package gencheck

import (
	"bytes"
	"fmt"
	"github.com/CrowdStrike/csproto"
	"os"
	"reflect"
	"regexp"
	"runtime"
	"sort"
	"strconv"
	"strings"
	"sync"
	"unsafe"

	"google.golang.org/protobuf/encoding/protowire"
	"google.golang.org/protobuf/proto"
	"google.golang.org/protobuf/reflect/protodesc"
	"google.golang.org/protobuf/reflect/protoreflect"
	"google.golang.org/protobuf/reflect/protoregistry"
	"google.golang.org/protobuf/types/descriptorpb"
	"google.golang.org/protobuf/types/dynamicpb"

	"csverif/internal/prng"
)

type runner struct {
	prop    string
	tier    string
	r       *prng.Rng
	targets []*Target
	// the bytes the previous marshal case produced (C05: contents of a "recycled" destination buffer)
	recycled []byte
	// the next marshal case holds its empty lists as empty NON-NIL slices: every nil slice / map of the Go value, and every
	// repeated extension the value does not carry (set to an empty list through the runtime)
	forceEmpty bool
}

func safeCall(f func()) (panicMsg string) {
	defer func() {
		if x := recover(); x != nil {
			panicMsg = fmt.Sprint(x)
		}
	}()
	f()
	return ""
}

func (t *Target) where(name string) string { return t.Schema + "/" + t.Variant + "/" + name }

// fieldClass summarises which template arms a message value exercises (for violation signatures).
func dynSummary(m protoreflect.Message) string {
	var parts []string
	m.Range(func(fd protoreflect.FieldDescriptor, v protoreflect.Value) bool {
		card := "singular"
		switch {
		case fd.IsMap():
			card = "map"
		case fd.IsList():
			card = "repeated"
			if fd.IsPacked() {
				card = "packed"
			}
		case fd.ContainingOneof() != nil && !fd.ContainingOneof().IsSynthetic():
			card = "oneof"
		case fd.IsExtension():
			card = "extension"
		}
		parts = append(parts, fmt.Sprintf("%s:%s", fd.Kind(), card))
		return true
	})
	return strings.Join(parts, ",")
}

// build a generated message holding the reference message's value
func (t *Target) build(name string, ref proto.Message) (interface{}, error) {
	m := t.Messages[name].New()
	err := t.populate(m, refBytes(ref))
	return m, err
}

// nilOneMapValue replaces the value of one entry of a message-valued map of the Go message by a nil
// pointer — the generated code treats such an entry as absent — and removes the entry from the reference
// value, so that both still denote the same message. It returns which entry that was (nil: none changed):
// the model of the generated code is asked about the value WITH the nil-valued entry.
func nilOneMapValue(m interface{}, ref *dynamicpb.Message) *nilMapEntry {
	v := reflect.ValueOf(m)
	if v.Kind() != reflect.Ptr || v.IsNil() || v.Elem().Kind() != reflect.Struct {
		return nil
	}
	v = v.Elem()
	for i := 0; i < v.NumField(); i++ {
		f := v.Field(i)
		if f.Kind() != reflect.Map || f.Len() == 0 || f.Type().Elem().Kind() != reflect.Ptr || !f.CanSet() {
			continue
		}
		parts := strings.Split(v.Type().Field(i).Tag.Get("protobuf"), ",")
		if len(parts) < 2 {
			continue
		}
		num, err := strconv.Atoi(parts[1])
		if err != nil {
			continue
		}
		fd := ref.Descriptor().Fields().ByNumber(protoreflect.FieldNumber(num))
		if fd == nil || !fd.IsMap() || fd.MapValue().Message() == nil {
			continue
		}
		keys := f.MapKeys()
		sort.Slice(keys, func(a, b int) bool { return fmt.Sprint(keys[a].Interface()) < fmt.Sprint(keys[b].Interface()) })
		k := keys[0]
		var mk protoreflect.MapKey
		switch k.Kind() {
		case reflect.String:
			mk = protoreflect.ValueOfString(k.String()).MapKey()
		case reflect.Bool:
			mk = protoreflect.ValueOfBool(k.Bool()).MapKey()
		case reflect.Int32:
			mk = protoreflect.ValueOfInt32(int32(k.Int())).MapKey()
		case reflect.Int64:
			mk = protoreflect.ValueOfInt64(k.Int()).MapKey()
		case reflect.Uint32:
			mk = protoreflect.ValueOfUint32(uint32(k.Uint())).MapKey()
		case reflect.Uint64:
			mk = protoreflect.ValueOfUint64(k.Uint()).MapKey()
		default:
			continue
		}
		if !ref.Get(fd).Map().Has(mk) {
			continue
		}
		ref.Mutable(fd).Map().Clear(mk)
		f.SetMapIndex(k, reflect.Zero(f.Type().Elem()))
		return &nilMapEntry{fd: fd, key: mk}
	}
	return nil
}

// nilOneListElement replaces one element of a repeated message field of the Go message by a nil pointer and
// the same element of the reference value by an EMPTY message: a nil element of a list is written as an
// empty element (the list keeps its length), so both still denote the same message.
func nilOneListElement(r *prng.Rng, m interface{}, ref *dynamicpb.Message) bool {
	v := reflect.ValueOf(m)
	if v.Kind() != reflect.Ptr || v.IsNil() || v.Elem().Kind() != reflect.Struct {
		return false
	}
	v = v.Elem()
	for i := 0; i < v.NumField(); i++ {
		f := v.Field(i)
		if f.Kind() != reflect.Slice || f.Len() == 0 || f.Type().Elem().Kind() != reflect.Ptr || f.Type().Elem().Elem().Kind() != reflect.Struct || !f.CanSet() {
			continue
		}
		parts := strings.Split(v.Type().Field(i).Tag.Get("protobuf"), ",")
		if len(parts) < 2 {
			continue
		}
		num, err := strconv.Atoi(parts[1])
		if err != nil {
			continue
		}
		fd := ref.Descriptor().Fields().ByNumber(protoreflect.FieldNumber(num))
		if fd == nil || !fd.IsList() || fd.Message() == nil || ref.Get(fd).List().Len() != f.Len() {
			continue
		}
		// an element with required fields would turn "uninitialised" by being emptied: leave those lists alone
		if proto.CheckInitialized(dynamicpb.NewMessage(fd.Message())) != nil {
			continue
		}
		j := r.Intn(f.Len())
		f.Index(j).Set(reflect.Zero(f.Type().Elem()))
		ref.Mutable(fd).List().Set(j, protoreflect.ValueOfMessage(dynamicpb.NewMessage(fd.Message())))
		return true
	}
	return false
}

// ---------- C04 / C05 / C17(marshal side) ----------

// foreignExtensionCase: an extension of the message that is declared in ANOTHER .proto file than the message itself (the
// ordinary way third parties extend a base message) is set through the runtime's API; the generated Marshal must carry
// it like the runtime's own Marshal does (finding B33: it only knows the extensions declared in the message's own file).
func (rn *runner) foreignExtensionCase(t *Target, name string) {
	if t.Runtime != "v2" && t.Runtime != "v1" {
		return
	}
	md := t.desc(name)
	if md.ExtensionRanges().Len() == 0 || hasRequired(md) {
		return
	}
	used := map[protoreflect.FieldNumber]bool{}
	for _, x := range knownExtensions(md) {
		used[x.Number()] = true
	}
	rg := md.ExtensionRanges().Get(0)
	num := protoreflect.FieldNumber(0)
	for c := rg[0]; c < rg[1] && c < rg[0]+200; c++ {
		if !used[c] && md.Fields().ByNumber(c) == nil {
			num = c
			break
		}
	}
	full, err := protoregistry.GlobalFiles.FindDescriptorByName(md.FullName())
	if num == 0 || err != nil {
		return
	}
	fdp := &descriptorpb.FileDescriptorProto{Name: proto.String("csverif_other_team_" + strings.ReplaceAll(string(md.FullName()), ".", "_") + ".proto"),
		Package: proto.String("csverif.otherteam"), Syntax: proto.String("proto2"), Dependency: []string{full.ParentFile().Path()},
		Extension: []*descriptorpb.FieldDescriptorProto{{Name: proto.String("tenant"), Number: proto.Int32(int32(num)), Type: descriptorpb.FieldDescriptorProto_TYPE_STRING.Enum(),
			Label: descriptorpb.FieldDescriptorProto_LABEL_OPTIONAL.Enum(), Extendee: proto.String("." + string(md.FullName()))}}}
	fd, err := protodesc.NewFile(fdp, protoregistry.GlobalFiles)
	if err != nil {
		return
	}
	xt := dynamicpb.NewExtensionType(fd.Extensions().Get(0))
	f, ok := t.Messages[name]
	if !ok {
		return
	}
	m, ok := f.New().(proto.Message)
	if !ok {
		return
	}
	desc := map[string]interface{}{"type": t.where(name), "case": "an extension declared in another .proto file, set through the runtime", "extension": fmt.Sprintf("extend %s { optional string tenant = %d; }", md.FullName(), num)}
	var b, want []byte
	var merr error
	if p := safeCall(func() {
		proto.SetExtension(m, xt, "acme")
		want, _ = proto.Marshal(m)
		b, merr = m.(FM).Marshal()
	}); p != "" || merr != nil {
		Violation("C05", "marshal", "marshal/foreign-extension-panic", "Marshal of a message carrying an extension declared in another file failed", desc, "bytes", fmt.Sprint(p, merr))
		return
	}
	rt := &protoregistry.Types{}
	rt.RegisterExtension(xt)
	got, ref := dynamicpb.NewMessage(md), dynamicpb.NewMessage(md)
	e1 := proto.UnmarshalOptions{Resolver: rt}.Unmarshal(b, got)
	e2 := proto.UnmarshalOptions{Resolver: rt}.Unmarshal(want, ref)
	outcome := "ok"
	if e1 != nil || e2 != nil || !proto.Equal(got, ref) {
		outcome = "dropped"
		Violation("C05", "marshal", "marshal/extension-declared-in-another-file-dropped", "the generated Marshal drops an extension that is set on the message but declared in another .proto file than the message (the runtime's own Marshal writes it)", desc, hx(want), hx(b))
	}
	Count("marshal", fmt.Sprint(desc), "foreign-file-extension/"+outcome, len(b), true)
}

func (rn *runner) marshalCase(t *Target, name string, ref *dynamicpb.Message, label string) {
	md := t.desc(name)
	m, err := t.build(name, ref)
	if err != nil {
		Note("populate failed for " + t.where(name) + ": " + err.Error())
		return
	}
	if rn.prop == "C05" && rn.r.Chance(1, 6) {
		// the message is sized / marshaled, then changed IN PLACE (nested runtime-owned messages included), then written
		// with MarshalTo into a larger buffer: the bytes must be those of the current contents
		defer func() {
			var log []string
			safeCall(func() { m.(FM).Marshal(); t.runtimeSizeMarshal(m) })
			for k := 1 + rn.r.Intn(3); k > 0; k-- {
				log = append(log, mutateStruct(rn.r, reflect.ValueOf(m)))
			}
			if sig, what, want, got := rn.marshalToNoSize(t, name, m); sig != "" {
				desc := map[string]interface{}{"type": t.where(name), "case": label + ", then Marshal, runtime Size+Marshal, " + strings.Join(log, ", ") + ", MarshalTo(larger buffer)"}
				Violation("C05", "marshal", "after-mutation/"+sig, what+" (a value is altered / dropped on the wire)", desc, want, got)
			}
		}()
	}
	if rn.forceEmpty || rn.r.Chance(1, 3) {
		tweakP(rn.r, reflect.ValueOf(m), 0, rn.forceEmpty)
	}
	// repeated extensions the value does not carry, set to an empty non-nil list through the runtime's SetExtension — on the
	// message and on the messages nested in it: nothing is written for them (the reference value stays what it is)
	if len(t.Exts) > 0 && (rn.forceEmpty || rn.r.Chance(1, 3)) {
		if set := t.emptyRepeatedExtensions(rn.r, m, rn.forceEmpty); len(set) > 0 {
			label += " (set to an empty non-nil list through the runtime's SetExtension: " + trunc(strings.Join(set, " "), 200) + ")"
		}
	}
	var nilEnt *nilMapEntry
	if rn.r.Chance(1, 5) {
		if nilEnt = nilOneMapValue(m, ref); nilEnt != nil {
			label += " (one message-valued map entry set to nil)"
		}
	}
	// (not for Gogo: its runtime treats a nil element of a repeated message field as an invalid message —
	// "repeated field has nil element" — so such a value is not a message of that runtime)
	if t.Runtime != "gogo" && rn.r.Chance(1, 5) && nilOneListElement(rn.r, m, ref) {
		label += " (one element of a repeated message field set to nil)"
	}
	initialized := proto.CheckInitialized(ref) == nil
	desc := map[string]interface{}{"type": t.where(name), "case": label, "value": trunc(fmt.Sprint(ref), 300), "reference_bytes": trunc(hx(refBytes(ref)), 300)}
	Journal(fmt.Sprintf("%s marshal %s %s %s", rn.prop, t.where(name), label, hx(refBytes(ref))))
	fm := m.(FM)
	var size int
	var b []byte
	var merr error
	outcome := "ok"
	if p := safeCall(func() { size = fm.Size() }); p != "" {
		if rn.prop == "C04" {
			Violation("C04", "marshal", "size-panic/"+sigOf(ref), "generated Size() panicked", desc, "", p)
		}
		Count("marshal", fmt.Sprint(desc), "size-panic", 0, true)
		return
	}
	if p := safeCall(func() { b, merr = fm.Marshal() }); p != "" {
		outcome = "marshal-panic"
		if rn.prop == "C04" {
			Violation("C04", "marshal", "marshal-panic/"+sigOf(ref), "generated Marshal() panicked", desc, "no panic", p)
		}
		Count("marshal", fmt.Sprint(desc), outcome, size, true)
		modelMarshal(md, ref, nilEnt, size, nil, nil, true)
		return
	}
	modelMarshal(md, ref, nilEnt, size, b, merr, false)
	switch rn.prop {
	case "C17":
		if initialized && merr != nil {
			Violation("C17", "marshal", "required/spurious-error", "Marshal returned an error although every required field is set", desc, "bytes", merr.Error())
		}
		if !initialized && merr == nil {
			Violation("C17", "marshal", "required/missing-not-reported/"+missingWhere(ref), "Marshal returned bytes although a required field is unset", desc, "error", hx(b))
		}
		Count("marshal", fmt.Sprint(desc), fmt.Sprintf("initialized=%v/err=%v", initialized, merr != nil), size, !initialized)
		return
	}
	if merr != nil {
		if initialized {
			Violation(rn.prop, "marshal", "marshal-error/"+sigOf(ref), "generated Marshal() failed on a fully initialised message", desc, "", merr.Error())
		}
		Count("marshal", fmt.Sprint(desc), "marshal-error", size, true)
		return
	}
	if rn.prop == "C04" {
		if len(b) != size {
			outcome = "size-mismatch"
			Violation("C04", "marshal", "size-vs-marshal/"+sigOf(ref), "Size() differs from len(Marshal())", desc, fmt.Sprint(len(b)), fmt.Sprint(size))
		}
		// MarshalTo into a caller-supplied buffer of exactly Size() bytes, on a fresh copy
		m2, _ := t.build(name, ref)
		fm2 := m2.(FM)
		var sz2 int
		var dest []byte
		var terr error
		if p := safeCall(func() {
			sz2 = fm2.Size()
			dest = bytes.Repeat([]byte{0xAA}, sz2) // a byte MarshalTo leaves untouched (slack) stays visible
			terr = fm2.MarshalTo(dest)
		}); p != "" {
			outcome = "marshalto-panic"
			Violation("C04", "marshal", "marshalto-panic/"+sigOf(ref), "MarshalTo(make([]byte, Size())) panicked", desc, "no panic", p)
		} else if terr == nil && !sameModuloMaps(md, dest, b) {
			outcome = "marshalto-mismatch"
			Violation("C04", "marshal", "marshalto-bytes/"+sigOf(ref), "MarshalTo into an exact buffer wrote different bytes than Marshal()", desc, hx(b), hx(dest))
		}
	}
	if rn.prop == "C05" && initialized {
		got, derr := t.toDyn(name, b)
		if derr != nil {
			outcome = "not-decodable"
			Violation("C05", "marshal", "reference-rejects/"+sigOf(ref), "the reference runtime cannot decode the generated Marshal() output", desc, "", derr.Error()+" bytes="+hx(b))
		} else if !proto.Equal(got, ref) {
			outcome = "differs"
			Violation("C05", "marshal", "reference-differs/"+diffSig(ref, got), "the reference runtime decodes Marshal() output to a different message (value or presence)", desc, trunc(fmt.Sprint(ref), 300), trunc(fmt.Sprint(got), 300)+" bytes="+trunc(hx(b), 200))
		} else if o := rn.marshalToDirty(t, name, fm, ref, nilEnt, desc); o != "" {
			outcome = o
		}
		rn.recycled = append(rn.recycled[:0], b...)
	}
	Count("marshal", fmt.Sprint(desc), outcome, len(b), len(b) > 0)
}

// marshalToDirty (C05): the generated MarshalTo is the other way the generated code produces "the bytes of
// Marshal" — into a buffer the CALLER brings, which in every realistic use (buffer pool, scratch buffer, ring
// buffer) held other data before. Whatever the buffer held, what MarshalTo leaves in dest[:Size()] must decode,
// by the reference runtime, to the message. Fills: all-ones, 0x01 (a stale byte that is a valid one-byte varint /
// bool / length), 0x7f, and the bytes of the previous case's output followed by 0x5a (a recycled buffer); the
// buffer is longer than Size() so that dest is a prefix of a larger scratch area.
func (rn *runner) marshalToDirty(t *Target, name string, fm FM, ref *dynamicpb.Message, nilEnt *nilMapEntry, desc map[string]interface{}) string {
	fills := []struct {
		what string
		fill func(buf []byte)
	}{
		{"0xff", func(buf []byte) {
			for i := range buf {
				buf[i] = 0xff
			}
		}},
		{"0x01", func(buf []byte) {
			for i := range buf {
				buf[i] = 0x01
			}
		}},
		{"0x7f", func(buf []byte) {
			for i := range buf {
				buf[i] = 0x7f
			}
		}},
		{"the previous output, then 0x5a", func(buf []byte) {
			n := copy(buf, rn.recycled)
			for i := n; i < len(buf); i++ {
				buf[i] = 0x5a
			}
		}},
	}
	var rejected func()
	for _, f := range fills {
		var dest []byte
		var terr error
		var sz int
		if p := safeCall(func() {
			sz = fm.Size()
			scratch := make([]byte, sz+8)
			f.fill(scratch)
			dest = scratch[:sz]
			terr = fm.MarshalTo(dest)
		}); p != "" || terr != nil {
			return "" // C04's business
		}
		if f.what == "0xff" {
			// correspondence: the model's MarshalTo overwrites the whole buffer (C05.marshalTo_overwrites_any_buffer)
			modelMarshalTo(t.desc(name), ref, nilEnt, sz, dest)
		}
		d2 := map[string]interface{}{"history": "Size(); MarshalTo(dest) with dest = scratch[:Size()], scratch pre-filled with " + f.what}
		for k, v := range desc {
			d2[k] = v
		}
		got, derr := t.toDyn(name, dest)
		if derr != nil {
			if rejected == nil {
				d, g := d2, derr.Error()+" bytes="+trunc(hx(dest), 200)
				rejected = func() {
					Violation("C05", "marshal", "marshalto-dirty-buffer/reference-rejects/"+sigOf(ref), "the reference runtime cannot decode what the generated MarshalTo() wrote into a buffer that held other data before (a byte of the encoding was not stored)", d, "", g)
				}
			}
			continue
		}
		if !proto.Equal(got, ref) {
			// the most telling witness: well-formed output that means something else
			Violation("C05", "marshal", "marshalto-dirty-buffer/reference-differs/"+diffSig(ref, got), "the reference runtime decodes what the generated MarshalTo() wrote into a buffer that held other data before to a different message (value or presence): a byte of the encoding was not stored, the stale one shows through", d2, trunc(fmt.Sprint(ref), 300), trunc(fmt.Sprint(got), 300)+" bytes="+trunc(hx(dest), 200))
			return "marshalto-dirty-differs"
		}
	}
	if rejected != nil {
		rejected()
		return "marshalto-dirty-not-decodable"
	}
	Extra("marshalto-into-dirty-buffers-decoded-by-reference", len(fills))
	return ""
}

func sigOf(ref protoreflect.Message) string {
	s := dynSummary(ref)
	if len(s) > 60 {
		s = s[:60]
	}
	return string(ref.Descriptor().Name()) + "[" + s + "]"
}

// diffSig names the first field in which two messages differ.
func diffSig(a, b protoreflect.Message) string {
	fields := a.Descriptor().Fields()
	for i := 0; i < fields.Len(); i++ {
		fd := fields.Get(i)
		if a.Has(fd) != b.Has(fd) {
			return fmt.Sprintf("%s.%s/presence(%s)", a.Descriptor().Name(), fd.Name(), fd.Kind())
		}
		if a.Has(fd) && !fieldEqual(fd, a.Get(fd), b.Get(fd)) {
			return fmt.Sprintf("%s.%s/value(%s)", a.Descriptor().Name(), fd.Name(), fd.Kind())
		}
	}
	if !bytes.Equal(a.GetUnknown(), b.GetUnknown()) {
		return string(a.Descriptor().Name()) + "/unknown-fields"
	}
	return string(a.Descriptor().Name()) + "/extensions-or-other"
}

func fieldEqual(fd protoreflect.FieldDescriptor, x, y protoreflect.Value) bool {
	a := dynamicpb.NewMessage(fd.ContainingMessage())
	b := dynamicpb.NewMessage(fd.ContainingMessage())
	a.Set(fd, x)
	b.Set(fd, y)
	return proto.Equal(a, b)
}

func missingWhere(ref protoreflect.Message) string {
	for i := 0; i < ref.Descriptor().Fields().Len(); i++ {
		fd := ref.Descriptor().Fields().Get(i)
		if fd.Cardinality() == protoreflect.Required && !ref.Has(fd) {
			return "top-level"
		}
	}
	return "nested"
}

func hasMaps(md protoreflect.MessageDescriptor, seen map[protoreflect.FullName]bool) bool {
	if seen[md.FullName()] {
		return false
	}
	seen[md.FullName()] = true
	for i := 0; i < md.Fields().Len(); i++ {
		fd := md.Fields().Get(i)
		if fd.IsMap() {
			return true
		}
		if fd.Kind() == protoreflect.MessageKind && hasMaps(fd.Message(), seen) {
			return true
		}
	}
	return false
}

// sameModuloMaps: identical bytes, or (for messages containing maps) same length and same decoded message.
func sameModuloMaps(md protoreflect.MessageDescriptor, a, b []byte) bool {
	if bytes.Equal(a, b) {
		return true
	}
	if len(a) != len(b) || !hasMaps(md, map[protoreflect.FullName]bool{}) {
		return false
	}
	x, y := dynamicpb.NewMessage(md), dynamicpb.NewMessage(md)
	o := proto.UnmarshalOptions{AllowPartial: true}
	if o.Unmarshal(a, x) != nil || o.Unmarshal(b, y) != nil {
		return false
	}
	return proto.Equal(x, y)
}

// singleFieldCases: each field alone at boundary values (zero, empty, negative, extremes).
// singleFieldMessages: each field alone at boundary values (zero, empty, negative, extremes) on top of
// the minimal message; with emptyNested a message-typed field holds an empty message even when its type
// declares required fields (C17).
func singleFieldMessages(md protoreflect.MessageDescriptor, emptyNested bool, yield func(label string, m *dynamicpb.Message)) {
	base := func() *dynamicpb.Message {
		if hasRequired(md) {
			return minimalMessage(md)
		}
		return dynamicpb.NewMessage(md)
	}
	nested := func(d protoreflect.MessageDescriptor) protoreflect.Value {
		if emptyNested {
			return protoreflect.ValueOfMessage(dynamicpb.NewMessage(d))
		}
		return protoreflect.ValueOfMessage(minimalMessage(d))
	}
	// nestedK: the k-th value of a message-typed position — minimal for odd k, for even k a message with every
	// scalar field set (a nested message that has a size, also when it is the only / the last thing written)
	nestedK := func(d protoreflect.MessageDescriptor, k int) protoreflect.Value {
		if emptyNested || k%2 == 1 {
			return nested(d)
		}
		return protoreflect.ValueOfMessage(filledMessage(d, 0))
	}
	for i := 0; i < md.Fields().Len(); i++ {
		fd := md.Fields().Get(i)
		for k := 0; k < 4; k++ {
			m := base()
			label := fmt.Sprintf("single-field %s #%d", fd.Name(), k)
			switch {
			case fd.IsMap():
				mp := m.Mutable(fd).Map()
				for j := 0; j < k; j++ {
					var v protoreflect.Value
					if fd.MapValue().Kind() == protoreflect.MessageKind {
						v = nestedK(fd.MapValue().Message(), j+k)
					} else {
						v = boundary(fd.MapValue(), j+k)
					}
					mp.Set(boundary(fd.MapKey(), j).MapKey(), v)
				}
			case fd.IsList():
				l := m.Mutable(fd).List()
				for j := 0; j < k; j++ {
					if fd.Kind() == protoreflect.MessageKind {
						l.Append(nestedK(fd.Message(), j+k))
					} else {
						l.Append(boundary(fd, j+k))
					}
				}
			case fd.Kind() == protoreflect.MessageKind:
				if k == 0 || k == 3 {
					continue
				}
				m.Set(fd, nestedK(fd.Message(), k))
			default:
				m.Set(fd, boundary(fd, k))
			}
			yield(label, m)
		}
		// scalar lists whose payload crosses the one-byte length limit (16, 32, 128 elements)
		if fd.IsList() && fd.Kind() != protoreflect.MessageKind {
			for _, n := range []int{16, 32, 128} {
				m := base()
				l := m.Mutable(fd).List()
				for j := 0; j < n; j++ {
					l.Append(boundary(fd, j))
				}
				yield(fmt.Sprintf("single-field %s x%d", fd.Name(), n), m)
			}
		}
	}
	yield("minimal", base())
}

// packedElemSize: the bytes one element of a packed list of fd's kind takes (0: not a packable kind).
func packedElemSize(fd protoreflect.FieldDescriptor, v protoreflect.Value) int {
	switch fd.Kind() {
	case protoreflect.BoolKind:
		return 1
	case protoreflect.EnumKind:
		return protowire.SizeVarint(uint64(int64(v.Enum())))
	case protoreflect.Int32Kind, protoreflect.Int64Kind:
		return protowire.SizeVarint(uint64(v.Int()))
	case protoreflect.Uint32Kind, protoreflect.Uint64Kind:
		return protowire.SizeVarint(v.Uint())
	case protoreflect.Sint32Kind, protoreflect.Sint64Kind:
		return protowire.SizeVarint(protowire.EncodeZigZag(v.Int()))
	case protoreflect.Fixed32Kind, protoreflect.Sfixed32Kind, protoreflect.FloatKind:
		return 4
	case protoreflect.Fixed64Kind, protoreflect.Sfixed64Kind, protoreflect.DoubleKind:
		return 8
	}
	return 0
}

// payloadLimits: the payload sizes at which a length prefix grows by one byte (2^7 is crossed by the x16 / x32 / x128
// lists of singleFieldMessages and the 130-byte blobs of boundary; 2^21 and beyond: see bigPayloadMessages).
var payloadLimits = []int{1 << 14}

// bigPayloadMessages: for every length-delimited scalar position of md — a PACKED list of any kind, a string / bytes
// field (singular, or one element of a list) — the message with that field alone and a payload of exactly L-1, L and
// L+1 bytes for every limit L of payloadLimits (fixed-width kinds: the nearest multiples of the element width on both
// sides). Packed lists come in three compositions: the kind's widest encoding repeated and topped up with its
// narrowest one, the narrowest one alone (the longest list), and both alternating — a prefix sized from the element
// count, from an assumed width, or reserved before the elements are written is wrong in one of them.
func bigPayloadMessages(md protoreflect.MessageDescriptor, yield func(label string, m *dynamicpb.Message)) {
	base := func() *dynamicpb.Message {
		if hasRequired(md) {
			return minimalMessage(md)
		}
		return dynamicpb.NewMessage(md)
	}
	for i := 0; i < md.Fields().Len(); i++ {
		fd := md.Fields().Get(i)
		if fd.IsMap() || fd.Message() != nil {
			continue
		}
		if fd.Kind() == protoreflect.StringKind || fd.Kind() == protoreflect.BytesKind {
			for _, lim := range payloadLimits {
				for _, total := range []int{lim - 1, lim, lim + 1} {
					var v protoreflect.Value
					if fd.Kind() == protoreflect.StringKind {
						v = protoreflect.ValueOfString(strings.Repeat("s", total))
					} else {
						v = protoreflect.ValueOfBytes(bytes.Repeat([]byte{0x80}, total))
					}
					m := base()
					if fd.IsList() {
						m.Mutable(fd).List().Append(v)
					} else {
						m.Set(fd, v)
					}
					yield(fmt.Sprintf("single-field %s payload=%d bytes", fd.Name(), total), m)
				}
			}
			continue
		}
		if !fd.IsList() || !fd.IsPacked() {
			continue
		}
		// the widest and the narrowest element of the kind
		ext := extremeScalars(fd)
		wide, narrow := ext[0], ext[0]
		for _, v := range ext {
			if packedElemSize(fd, v) > packedElemSize(fd, wide) {
				wide = v
			}
			if packedElemSize(fd, v) < packedElemSize(fd, narrow) {
				narrow = v
			}
		}
		ww, nw := packedElemSize(fd, wide), packedElemSize(fd, narrow)
		if ww == 0 {
			continue
		}
		emit := func(what string, total int, vs []protoreflect.Value) {
			m := base()
			l := m.Mutable(fd).List()
			got := 0
			for _, v := range vs {
				l.Append(v)
				got += packedElemSize(fd, v)
			}
			yield(fmt.Sprintf("single-field %s packed payload=%d bytes (%d elements, %s; limit %d)", fd.Name(), got, len(vs), what, total), m)
		}
		for _, lim := range payloadLimits {
			for _, total := range []int{lim - 1, lim, lim + 1} {
				// widest first, topped up with the narrowest (rounded up to a whole element)
				var vs []protoreflect.Value
				rest := total
				for ; rest >= ww; rest -= ww {
					vs = append(vs, wide)
				}
				for ; rest > 0; rest -= nw {
					vs = append(vs, narrow)
				}
				emit("widest then narrowest", total, vs)
			}
			if nw < ww {
				var vs []protoreflect.Value
				for rest := lim; rest > 0; rest -= nw {
					vs = append(vs, narrow)
				}
				emit("narrowest only", lim, vs)
				vs = nil
				for rest, k := lim+1, 0; rest > 0; k++ {
					v := narrow
					if k%2 == 0 && rest >= ww {
						v = wide
					}
					vs = append(vs, v)
					rest -= packedElemSize(fd, v)
				}
				emit("alternating", lim+1, vs)
			} else {
				// fixed width: the last list below the limit
				var vs []protoreflect.Value
				for rest := lim - ww; rest >= ww; rest -= ww {
					vs = append(vs, wide)
				}
				emit("last below the limit", lim-1, vs)
			}
		}
	}
}

// singleExtensionMessages: like singleFieldMessages, for the proto2 extensions of md the generated code knows: the
// message with that extension alone — a list of 0 (nothing set), 1, 2, 3 boundary elements and of 16 / 32 / 128 (the
// payload a packed declaration would give crosses the one-byte length limit), a singular one at four boundary values.
func singleExtensionMessages(md protoreflect.MessageDescriptor, exts *protoregistry.Types, yield func(label string, m *dynamicpb.Message)) {
	if md.ExtensionRanges().Len() == 0 || exts == nil {
		return
	}
	var xts []protoreflect.ExtensionType
	exts.RangeExtensionsByMessage(md.FullName(), func(xt protoreflect.ExtensionType) bool {
		xts = append(xts, xt)
		return true
	})
	sort.Slice(xts, func(i, j int) bool { return xts[i].TypeDescriptor().Number() < xts[j].TypeDescriptor().Number() })
	base := func() *dynamicpb.Message {
		if hasRequired(md) {
			return minimalMessage(md)
		}
		return dynamicpb.NewMessage(md)
	}
	elem := func(xd protoreflect.FieldDescriptor, k int) protoreflect.Value {
		if xd.Message() != nil {
			if k%2 == 1 {
				return protoreflect.ValueOfMessage(minimalMessage(xd.Message()))
			}
			return protoreflect.ValueOfMessage(filledMessage(xd.Message(), 0))
		}
		return boundary(xd, k)
	}
	for _, xt := range xts {
		xd := xt.TypeDescriptor()
		if xd.Kind() == protoreflect.GroupKind {
			continue
		}
		if !xd.IsList() {
			for k := 0; k < 4; k++ {
				m := base()
				m.Set(xd, elem(xd, k))
				yield(fmt.Sprintf("single-extension %s #%d", xd.Name(), k), m)
			}
			continue
		}
		ns := []int{0, 1, 2, 3}
		if xd.Message() == nil {
			ns = append(ns, 16, 32, 128)
		}
		for _, n := range ns {
			m := base()
			if n > 0 {
				l := m.NewField(xd).List()
				for j := 0; j < n; j++ {
					l.Append(elem(xd, j+n))
				}
				m.Set(xd, protoreflect.ValueOfList(l))
			}
			yield(fmt.Sprintf("single-extension %s x%d", xd.Name(), n), m)
		}
	}
}

func (rn *runner) singleFieldCases(t *Target, name string) {
	singleFieldMessages(t.desc(name), false, func(label string, m *dynamicpb.Message) {
		// the cases that leave every list empty hold the empty lists as non-nil slices
		rn.forceEmpty = strings.HasSuffix(label, " #0") || label == "minimal"
		rn.marshalCase(t, name, m, label)
		rn.forceEmpty = false
	})
	singleExtensionMessages(t.desc(name), t.extTypes(), func(label string, m *dynamicpb.Message) {
		rn.forceEmpty = strings.HasSuffix(label, " x0")
		rn.marshalCase(t, name, m, label)
		rn.forceEmpty = false
	})
	if rn.prop == "C04" || rn.prop == "C05" {
		bigPayloadMessages(t.desc(name), func(label string, m *dynamicpb.Message) { rn.marshalCase(t, name, m, label) })
	}
	if rn.prop == "C04" && hasRequired(t.desc(name)) {
		// a message value with NO field set although the type declares required ones is a message value too: Marshal
		// reports an error or it does not, but Size / Marshal / MarshalTo must agree and must not panic
		rn.marshalCase(t, name, dynamicpb.NewMessage(t.desc(name)), "nothing set (required fields unset)")
	}
	if rn.prop == "C17" {
		singleFieldMessages(t.desc(name), true, func(label string, m *dynamicpb.Message) { rn.marshalCase(t, name, m, label+" (empty nested)") })
	}
}

func boundary(fd protoreflect.FieldDescriptor, k int) protoreflect.Value {
	switch fd.Kind() {
	case protoreflect.BoolKind:
		return protoreflect.ValueOfBool(k%2 == 1)
	case protoreflect.Int32Kind, protoreflect.Sint32Kind, protoreflect.Sfixed32Kind:
		return protoreflect.ValueOfInt32([]int32{0, -1, 2147483647, -2147483648}[k%4])
	case protoreflect.Int64Kind, protoreflect.Sint64Kind, protoreflect.Sfixed64Kind:
		return protoreflect.ValueOfInt64([]int64{0, -1, 9223372036854775807, -9223372036854775808}[k%4])
	case protoreflect.Uint32Kind, protoreflect.Fixed32Kind:
		return protoreflect.ValueOfUint32([]uint32{0, 1, 4294967295, 128}[k%4])
	case protoreflect.Uint64Kind, protoreflect.Fixed64Kind:
		return protoreflect.ValueOfUint64([]uint64{0, 1, 18446744073709551615, 16384}[k%4])
	case protoreflect.FloatKind:
		return protoreflect.ValueOfFloat32([]float32{0, float32(negZero()), 3.5, -1e30}[k%4])
	case protoreflect.DoubleKind:
		return protoreflect.ValueOfFloat64([]float64{0, negZero(), 3.5, -1e300}[k%4])
	case protoreflect.StringKind:
		if fd.ParentFile().Syntax() == protoreflect.Proto2 && k%8 == 5 {
			return protoreflect.ValueOfString("a\xffb\xc3") // not UTF-8: legal in a proto2 string field
		}
		return protoreflect.ValueOfString([]string{"", "a", "hello world", strings.Repeat("x", 130), "", "héllo 日本", "a", strings.Repeat("x", 130)}[k%8])
	case protoreflect.BytesKind:
		return protoreflect.ValueOfBytes([][]byte{{}, {0}, {1, 2, 3}, bytes.Repeat([]byte{0xff}, 130)}[k%4])
	case protoreflect.EnumKind:
		vs := fd.Enum().Values()
		return protoreflect.ValueOfEnum(vs.Get(k % vs.Len()).Number())
	}
	panic("boundary kind")
}

func negZero() float64 { z := 0.0; return -z }

func (rn *runner) runMarshal(ts []*Target, n int) {
	for _, t := range ts {
		for _, name := range sortedNames(t.Messages) {
			rn.singleFieldCases(t, name)
			md := t.desc(name)
			if rn.prop == "C05" {
				rn.foreignExtensionCase(t, name)
			}
			for i := 0; i < n; i++ {
				// (C04: one value in four leaves required fields unset at random, at any depth — C17 always does)
				partial := rn.prop == "C17" || (rn.prop == "C04" && rn.r.Chance(1, 4))
				ref := randMessage(rn.r, md, genOpts{requiredAlways: !partial, exts: t.extTypes()})
				label := "random"
				if rn.r.Chance(1, 5) {
					// a message that carries unknown fields (read from a newer writer): they count and are written
					var unk []rec
					for k := 1 + rn.r.Intn(2); k > 0; k-- {
						unk = append(unk, t.unknownViaRuntime(rn.r, md))
					}
					ref.SetUnknown(emitRecs(unk))
					label = "random+unknown"
				}
				rn.marshalCase(t, name, ref, label)
			}
		}
	}
}

// ---------- wire-level variants (C06, C07, C08, C10) ----------

type rec struct {
	num protowire.Number
	typ protowire.Type
	val []byte // raw value bytes (for bytes type: including the length prefix)
}

func parseRecs(b []byte) ([]rec, bool) {
	var out []rec
	for len(b) > 0 {
		num, typ, n := protowire.ConsumeTag(b)
		if n < 0 {
			return nil, false
		}
		b = b[n:]
		m := protowire.ConsumeFieldValue(num, typ, b)
		if m < 0 {
			return nil, false
		}
		out = append(out, rec{num, typ, append([]byte{}, b[:m]...)})
		b = b[m:]
	}
	return out, true
}

func emitRecs(rs []rec) []byte {
	var b []byte
	for _, r := range rs {
		b = protowire.AppendTag(b, r.num, r.typ)
		b = append(b, r.val...)
	}
	return b
}

func payloadOf(r rec) []byte {
	v, _ := protowire.ConsumeBytes(r.val)
	return v
}

func lenRec(num protowire.Number, payload []byte) rec {
	return rec{num, protowire.BytesType, protowire.AppendBytes(nil, payload)}
}

// lastWins rewrites an encoding so that, of several occurrences of one singular message field, only the
// last survives (recursively). It is the input on which "replace" and "merge" semantics coincide; used
// to recognise the known finding B9 precisely (generated Unmarshal replaces where the runtimes merge).
func lastWins(md protoreflect.MessageDescriptor, b []byte) ([]byte, bool) {
	// a message type of another generator's package (google.protobuf.*) is decoded by its own runtime, which
	// merges: the finding does not reach inside it
	if strings.HasPrefix(string(md.FullName()), "google.protobuf.") {
		return b, false
	}
	rs, ok := parseRecs(b)
	if !ok {
		return b, false
	}
	changed := false
	last := map[protowire.Number]int{}
	for i, x := range rs {
		last[x.num] = i
	}
	var out []rec
	for i, x := range rs {
		fd := md.Fields().ByNumber(x.num)
		if fd == nil || x.typ != protowire.BytesType || fd.Message() == nil {
			out = append(out, x)
			continue
		}
		switch {
		case fd.IsMap():
			// normalise a message-typed value inside the entry
			if vd := fd.MapValue(); vd.Message() != nil {
				if nb, ch := lastWins(fd.Message(), payloadOf(x)); ch {
					x = lenRec(x.num, nb)
					changed = true
				}
			}
		case fd.IsList():
			if nb, ch := lastWins(fd.Message(), payloadOf(x)); ch {
				x = lenRec(x.num, nb)
				changed = true
			}
		default:
			if last[x.num] != i {
				changed = true
				continue // an earlier occurrence: dropped
			}
			if nb, ch := lastWins(fd.Message(), payloadOf(x)); ch {
				x = lenRec(x.num, nb)
				changed = true
			}
		}
		out = append(out, x)
	}
	if !changed {
		return b, false
	}
	return emitRecs(out), true
}

// splitOccurrenceIncomplete: some occurrence of a singular message field that occurs several times lacks,
// taken alone, a required field (the generated code checks each occurrence on its own).
func splitOccurrenceIncomplete(t *Target, md protoreflect.MessageDescriptor, b []byte) bool {
	rs, ok := parseRecs(b)
	if !ok {
		return false
	}
	count := map[protowire.Number]int{}
	for _, x := range rs {
		count[x.num]++
	}
	for _, x := range rs {
		fd := md.Fields().ByNumber(x.num)
		if fd == nil || x.typ != protowire.BytesType || fd.Message() == nil || fd.IsMap() {
			continue
		}
		if !fd.IsList() && count[x.num] > 1 {
			d := dynamicpb.NewMessage(fd.Message())
			if err := (proto.UnmarshalOptions{Resolver: t.extTypes()}).Unmarshal(payloadOf(x), d); err != nil && strings.Contains(err.Error(), "required") {
				return true
			}
		}
		if splitOccurrenceIncomplete(t, fd.Message(), payloadOf(x)) {
			return true
		}
	}
	return false
}

func packable(fd protoreflect.FieldDescriptor) bool {
	switch fd.Kind() {
	case protoreflect.StringKind, protoreflect.BytesKind, protoreflect.MessageKind, protoreflect.GroupKind:
		return false
	}
	return fd.IsList()
}

func elemWireType(fd protoreflect.FieldDescriptor) protowire.Type {
	switch fd.Kind() {
	case protoreflect.Fixed32Kind, protoreflect.Sfixed32Kind, protoreflect.FloatKind:
		return protowire.Fixed32Type
	case protoreflect.Fixed64Kind, protoreflect.Sfixed64Kind, protoreflect.DoubleKind:
		return protowire.Fixed64Type
	}
	return protowire.VarintType
}

func splitPacked(fd protoreflect.FieldDescriptor, payload []byte) [][]byte {
	var elems [][]byte
	wt := elemWireType(fd)
	for len(payload) > 0 {
		n := protowire.ConsumeFieldValue(1, wt, payload)
		if n < 0 {
			return nil
		}
		elems = append(elems, payload[:n])
		payload = payload[n:]
	}
	return elems
}

var unknownNumbers = []protowire.Number{900, 19000 - 1, 1 << 21, 1 << 26, 1<<29 - 1}

// undefinedNumber: the schema of md does not define field number n — it is neither a declared field nor the
// number of an extension declared for md. With inRanges=false every number inside an extension range counts as
// defined (used where a value travels through a runtime's own decoder, which may keep such a field in its
// extension store instead of the unknown bytes).
func undefinedNumber(md protoreflect.MessageDescriptor, n protowire.Number, inRanges bool) bool {
	if n < 1 || n > 1<<29-1 || (n >= 19000 && n <= 19999) {
		return false
	}
	if md == nil {
		return true
	}
	if md.Fields().ByNumber(n) != nil || knownExtNums[md.FullName()][n] {
		return false
	}
	return inRanges || !md.ExtensionRanges().Has(n)
}

// nearNumbers: the undefined numbers next to something the schema defines — N-1 and N+1 of every declared field
// and every declared extension N, and both sides of both ends of every extension range (an off-by-one in a
// number comparison, `<=` for `<`, an inclusive upper bound, shows on exactly these).
func nearNumbers(md protoreflect.MessageDescriptor, inRanges bool) []protowire.Number {
	if md == nil {
		return nil
	}
	seen := map[protowire.Number]bool{}
	var out []protowire.Number
	add := func(n protowire.Number) {
		if !seen[n] && undefinedNumber(md, n, inRanges) {
			seen[n] = true
			out = append(out, n)
		}
	}
	for i := 0; i < md.Fields().Len(); i++ {
		n := md.Fields().Get(i).Number()
		add(n - 1)
		add(n + 1)
	}
	var xs []protowire.Number
	for n := range knownExtNums[md.FullName()] {
		xs = append(xs, n)
	}
	sort.Slice(xs, func(a, b int) bool { return xs[a] < xs[b] })
	for _, n := range xs {
		add(n - 1)
		add(n + 1)
	}
	for i := 0; i < md.ExtensionRanges().Len(); i++ {
		r := md.ExtensionRanges().Get(i) // [r[0], r[1])
		add(r[0] - 1)
		add(r[0])
		add(r[1] - 1)
		add(r[1])
	}
	for i := 0; i < md.ReservedRanges().Len(); i++ {
		r := md.ReservedRanges().Get(i) // [r[0], r[1])
		add(r[0] - 1)
		add(r[0])
		add(r[1] - 1)
		add(r[1])
	}
	return out
}

// reservedNumbers: field numbers the schema of md lists as `reserved` (numbers of deleted fields) — the first, the
// last and a middle number of every reserved range. To a decoder they are undefined numbers like any other: data a
// peer with another version of the schema sends for them is an unknown field.
func reservedNumbers(md protoreflect.MessageDescriptor) []protowire.Number {
	if md == nil {
		return nil
	}
	seen := map[protowire.Number]bool{}
	var out []protowire.Number
	for i := 0; i < md.ReservedRanges().Len(); i++ {
		r := md.ReservedRanges().Get(i) // [r[0], r[1])
		for _, n := range []protowire.Number{r[0], r[1] - 1, r[0] + (r[1]-r[0])/2, r[0] + 1, r[1] - 2} {
			if n >= r[0] && n < r[1] && !seen[n] && undefinedNumber(md, n, true) {
				seen[n] = true
				out = append(out, n)
			}
		}
	}
	return out
}

// unknownValue: a well-formed field with number num that the schema does not define, of one of the four wire
// types (which < 0: any).
func unknownValue(r *prng.Rng, num protowire.Number, which int) rec {
	if which < 0 {
		which = r.Intn(4)
	}
	switch which % 4 {
	case 0:
		return rec{num, protowire.VarintType, protowire.AppendVarint(nil, r.U64Interesting())}
	case 1:
		return rec{num, protowire.Fixed32Type, protowire.AppendFixed32(nil, uint32(r.U64()))}
	case 2:
		return rec{num, protowire.Fixed64Type, protowire.AppendFixed64(nil, r.U64())}
	default:
		// lengths around the one-byte / two-byte boundary of the length prefix too
		return lenRec(num, r.Bytes([]int{0, 1, 2, 3, 4, 5, 127, 128, 129, 255, 256, 300}[r.Intn(12)]))
	}
}

// unknownNumber picks a field number the schema of md does not define: half of the time (when there is one)
// a number adjacent to a declared field / extension / extension-range end, otherwise one of the far numbers.
func unknownNumber(r *prng.Rng, md protoreflect.MessageDescriptor, inRanges bool) protowire.Number {
	if md != nil && md.ReservedRanges().Len() > 0 && r.Chance(1, 3) {
		// (reserved and extension ranges never overlap: these are outside every extension range)
		if res := reservedNumbers(md); len(res) > 0 {
			return res[r.Intn(len(res))]
		}
	}
	if near := nearNumbers(md, inRanges); len(near) > 0 && r.Chance(1, 2) {
		return near[r.Intn(len(near))]
	}
	start := r.Intn(len(unknownNumbers))
	for i := range unknownNumbers {
		if c := unknownNumbers[(start+i)%len(unknownNumbers)]; undefinedNumber(md, c, inRanges) {
			return c
		}
	}
	for c := protowire.Number(1); c < 5000; c++ {
		if undefinedNumber(md, c, inRanges) {
			return c
		}
	}
	return 18999 // every number is declared: cannot happen with the corpus schemas
}

// randUnknown: a field the schema of md does not define (a declared field or declared extension is not
// "unknown": a conforming writer never emits it with a foreign wire type); numbers inside an extension range that
// no declared extension uses are included.
func randUnknown(r *prng.Rng, md protoreflect.MessageDescriptor) rec {
	return unknownValue(r, unknownNumber(r, md, true), -1)
}

// unknownViaRuntime: an unknown field for a value that reaches the generated code through the runtime's own
// decoder (populate / deep copies). Gogo's table-driven decoder keeps a field whose number lies inside an
// extension range in XXX_InternalExtensions, not in XXX_unrecognized — such a value is not one the generated
// Unmarshal can produce — so for Gogo the number stays outside the extension ranges.
func (t *Target) unknownViaRuntime(r *prng.Rng, md protoreflect.MessageDescriptor) rec {
	if t.Runtime == "gogo" {
		return randUnknownOutsideRanges(r, md)
	}
	return randUnknown(r, md)
}

// randUnknownOutsideRanges: the same, but never a number inside an extension range (for values that are
// handed to a runtime's own decoder before the generated code sees them).
func randUnknownOutsideRanges(r *prng.Rng, md protoreflect.MessageDescriptor) rec {
	return unknownValue(r, unknownNumber(r, md, false), -1)
}

// variant rewrites a valid encoding into another legal encoding of a message of the same schema.
func variant(r *prng.Rng, md protoreflect.MessageDescriptor, b []byte, depth int, withUnknown bool) ([]byte, []string) {
	rs, ok := parseRecs(b)
	if !ok {
		return b, nil
	}
	var applied []string
	var out []rec
	for _, x := range rs {
		fd := md.Fields().ByNumber(x.num)
		if fd == nil {
			out = append(out, x)
			continue
		}
		switch {
		case fd.IsMap() && x.typ == protowire.BytesType:
			ers, ok := parseRecs(payloadOf(x))
			if ok {
				switch r.Intn(8) {
				case 0: // value before key
					for i, j := 0, len(ers)-1; i < j; i, j = i+1, j-1 {
						ers[i], ers[j] = ers[j], ers[i]
					}
					applied = append(applied, "map-entry-reversed")
				case 1: // drop the key or the value (defaults apply)
					if len(ers) > 0 {
						ers = append(ers[:0:0], ers[1:]...)
						applied = append(applied, "map-entry-field-omitted")
					}
				case 2: // key twice: last wins
					for _, e := range ers {
						if e.num == 1 {
							ers = append([]rec{e}, ers...)
							applied = append(applied, "map-entry-key-twice")
							break
						}
					}
				case 3: // an unknown field inside the entry: next to the value's number or far away, any wire type, any position
					if withUnknown {
						u := unknownValue(r, []protowire.Number{3, 7, 1<<29 - 1}[r.Intn(3)], -1)
						pos := r.Intn(len(ers) + 1)
						ers = append(ers[:pos:pos], append([]rec{u}, ers[pos:]...)...)
						applied = append(applied, "map-entry-unknown-field")
					}
				case 4: // key, another value, value: the LAST value counts (scalar values only: messages merge)
					if fd.MapValue().Message() == nil {
						for i, e := range ers {
							if e.num == 2 {
								dup := otherValue(r, e)
								rest := append(append([]rec{}, ers[:i]...), ers[i+1:]...)
								ers = append(append(rest, dup), e)
								applied = append(applied, "map-entry-value-again-after-both")
								break
							}
						}
					}
				case 5: // another key, value, key: the LAST key counts
					for i, e := range ers {
						if e.num == 1 {
							dup := otherValue(r, e)
							rest := append(append([]rec{}, ers[:i]...), ers[i+1:]...)
							ers = append(append([]rec{dup}, rest...), e)
							applied = append(applied, "map-entry-key-again-after-both")
							break
						}
					}
				}
				if vm := fd.MapValue().Message(); vm != nil && withUnknown && r.Chance(1, 2) {
					// unknown fields INSIDE the message that is the entry's value (and inside its children)
					for i, e := range ers {
						if e.num == 2 && e.typ == protowire.BytesType {
							ers[i] = lenRec(2, sprinkleUnknown(r, vm, payloadOf(e), depth+1))
							applied = append(applied, "map-value:unknown-field")
						}
					}
				}
				out = append(out, lenRec(x.num, emitRecs(ers)))
				continue
			}
			out = append(out, x)
		case packable(fd) && x.typ == protowire.BytesType:
			elems := splitPacked(fd, payloadOf(x))
			switch r.Intn(3) {
			case 0: // unpack
				for _, e := range elems {
					out = append(out, rec{x.num, elemWireType(fd), e})
				}
				applied = append(applied, "unpacked")
			case 1: // split into two packed runs
				if len(elems) >= 2 {
					k := 1 + r.Intn(len(elems)-1)
					out = append(out, lenRec(x.num, bytes.Join(elems[:k], nil)), lenRec(x.num, bytes.Join(elems[k:], nil)))
					applied = append(applied, "packed-split")
				} else {
					out = append(out, x)
				}
			default:
				out = append(out, x)
			}
		case packable(fd) && x.typ != protowire.BytesType:
			if r.Chance(1, 2) { // an unpacked element written as a one-element packed run
				out = append(out, lenRec(x.num, x.val))
				applied = append(applied, "packed-singleton")
			} else {
				out = append(out, x)
			}
		case fd.Kind() == protoreflect.MessageKind && !fd.IsList() && x.typ == protowire.BytesType:
			inner := payloadOf(x)
			if depth < 2 {
				var ap []string
				inner, ap = variant(r, fd.Message(), inner, depth+1, withUnknown)
				for _, a := range ap {
					applied = append(applied, "nested:"+a)
				}
			}
			irs, ok := parseRecs(inner)
			if ok && len(irs) >= 2 && r.Chance(1, 3) && (fd.ContainingOneof() == nil || fd.ContainingOneof().IsSynthetic()) {
				k := 1 + r.Intn(len(irs)-1)
				out = append(out, lenRec(x.num, emitRecs(irs[:k])), lenRec(x.num, emitRecs(irs[k:])))
				applied = append(applied, "singular-message-split")
			} else {
				out = append(out, lenRec(x.num, inner))
			}
		case fd.Kind() == protoreflect.MessageKind && fd.IsList() && x.typ == protowire.BytesType:
			inner := payloadOf(x)
			if depth < 2 {
				var ap []string
				inner, ap = variant(r, fd.Message(), inner, depth+1, withUnknown)
				for _, a := range ap {
					if a == "unknown-field" || strings.HasSuffix(a, ":unknown-field") {
						applied = append(applied, "element:"+a)
					}
				}
			}
			out = append(out, lenRec(x.num, inner))
		case !fd.IsList() && r.Chance(1, 5) && (fd.ContainingOneof() == nil || fd.ContainingOneof().IsSynthetic()):
			// a singular scalar occurring twice: the earlier value must be overridden
			dup := x
			switch x.typ {
			case protowire.VarintType:
				dup.val = protowire.AppendVarint(nil, r.U64Interesting()&0x7f)
			case protowire.Fixed32Type:
				dup.val = protowire.AppendFixed32(nil, uint32(r.U64()))
			case protowire.Fixed64Type:
				dup.val = protowire.AppendFixed64(nil, r.U64())
			case protowire.BytesType:
				dup.val = protowire.AppendBytes(nil, []byte("dup"))
			}
			out = append(out, dup, x)
			applied = append(applied, "singular-twice")
		default:
			out = append(out, x)
		}
	}
	if withUnknown {
		for n := r.Intn(3); n > 0; n-- {
			pos := r.Intn(len(out) + 1)
			out = append(out[:pos:pos], append([]rec{randUnknown(r, md)}, out[pos:]...)...)
			applied = append(applied, "unknown-field")
		}
	}
	if r.Chance(1, 2) && len(out) > 1 {
		// reorder fields, keeping the relative order of occurrences of the same number
		perm := append([]rec{}, out...)
		for i := len(perm) - 1; i > 0; i-- {
			j := r.Intn(i + 1)
			perm[i], perm[j] = perm[j], perm[i]
		}
		byNum := map[protowire.Number][]rec{}
		for _, x := range out {
			byNum[x.num] = append(byNum[x.num], x)
		}
		next := map[protowire.Number]int{}
		for i, x := range perm {
			perm[i] = byNum[x.num][next[x.num]]
			next[x.num]++
		}
		out = perm
		applied = append(applied, "reordered")
	}
	if r.Chance(1, 6) {
		// an empty packed run (legal: zero elements) of some repeated scalar field, somewhere or as the very last field
		var cands []protoreflect.FieldDescriptor
		for i := 0; i < md.Fields().Len(); i++ {
			if fd := md.Fields().Get(i); packable(fd) {
				cands = append(cands, fd)
			}
		}
		if len(cands) > 0 {
			e := lenRec(protowire.Number(cands[r.Intn(len(cands))].Number()), nil)
			if r.Bool() {
				out = append(out, e)
				applied = append(applied, "empty-packed-run-last")
			} else {
				pos := r.Intn(len(out) + 1)
				out = append(out[:pos:pos], append([]rec{e}, out[pos:]...)...)
				applied = append(applied, "empty-packed-run")
			}
		}
	}
	return emitRecs(out), applied
}

// sprinkleUnknown inserts one or two fields the schema of md does not define at random positions of a valid
// encoding b of a message of type md, and (half of the time each, three levels down at most) does the same inside
// the message-typed fields of b; nothing else is rewritten.
func sprinkleUnknown(r *prng.Rng, md protoreflect.MessageDescriptor, b []byte, depth int) []byte {
	rs, ok := parseRecs(b)
	if !ok {
		return b
	}
	if depth < 3 {
		for i, x := range rs {
			fd := md.Fields().ByNumber(x.num)
			if fd == nil || fd.IsMap() || fd.Message() == nil || x.typ != protowire.BytesType || !r.Chance(1, 2) {
				continue
			}
			rs[i] = lenRec(x.num, sprinkleUnknown(r, fd.Message(), payloadOf(x), depth+1))
		}
	}
	for n := 1 + r.Intn(2); n > 0; n-- {
		pos := r.Intn(len(rs) + 1)
		rs = append(rs[:pos:pos], append([]rec{randUnknown(r, md)}, rs[pos:]...)...)
	}
	return emitRecs(rs)
}

// unknownInside yields valid encodings of a message of type md that carry fields the schema does not define INSIDE
// a child message, for every nesting position: every message-typed field of md in turn (singular, oneof member,
// list element, map value) — whether the child's type has generated code of this target or is served by the
// target's runtime (well-known types, types of files generated without fast-marshal code) — holds
//   - a child with its declared scalar fields set and unknown fields before, between and after them (wire types
//     in rotation),
//   - a child that holds nothing but one unknown field (on top of its required fields, if any),
//   - (three levels at most) a child that in turn carries unknown fields inside each of ITS message-typed fields;
// the other declared scalar fields of md are set, so that the child has neighbours on both sides.
func (rn *runner) unknownInside(t *Target, md protoreflect.MessageDescriptor, depth int, yield func(enc []byte, path, how string)) {
	r := rn.r
	k := r.Intn(4)
	unk := func(cm protoreflect.MessageDescriptor) rec {
		k++
		return unknownValue(r, unknownNumber(r, cm, true), k)
	}
	for i := 0; i < md.Fields().Len(); i++ {
		fd := md.Fields().Get(i)
		cm := fd.Message()
		if fd.IsMap() {
			cm = fd.MapValue().Message()
		}
		if cm == nil {
			continue
		}
		// the enclosing message: declared scalar fields set, minus fd itself and the other members of fd's oneof
		skip := map[protowire.Number]bool{protowire.Number(fd.Number()): true}
		if oo := fd.ContainingOneof(); oo != nil && !oo.IsSynthetic() {
			for j := 0; j < oo.Fields().Len(); j++ {
				skip[protowire.Number(oo.Fields().Get(j).Number())] = true
			}
		}
		var before, after []rec
		prs, _ := parseRecs(refBytes(filledMessage(md, 1)))
		for _, x := range prs {
			switch {
			case skip[x.num]:
			case x.num < protowire.Number(fd.Number()):
				before = append(before, x)
			default:
				after = append(after, x)
			}
		}
		fill := refBytes(filledMessage(cm, 1))
		minimal := refBytes(minimalMessage(cm))
		var entry []rec // map: the records of one entry, the value's payload to be replaced
		if fd.IsMap() {
			m := dynamicpb.NewMessage(md)
			m.Mutable(fd).Map().Set(boundary(fd.MapKey(), 1).MapKey(), protoreflect.ValueOfMessage(minimalMessage(cm)))
			if xs, ok := parseRecs(refBytes(m)); ok && len(xs) == 1 {
				entry, _ = parseRecs(payloadOf(xs[0]))
			}
			if len(entry) == 0 {
				continue
			}
		}
		emit := func(payload []byte, path, how string) {
			num := protowire.Number(fd.Number())
			out := append([]rec{}, before...)
			switch {
			case fd.IsMap():
				var ers []rec
				replaced := false
				for _, e := range entry {
					if e.num == 2 {
						e = lenRec(2, payload)
						replaced = true
					}
					ers = append(ers, e)
				}
				if !replaced {
					ers = append(ers, lenRec(2, payload))
				}
				out = append(out, lenRec(num, emitRecs(ers)))
				path = fmt.Sprintf("/%d{}%s", num, path)
			case fd.IsList():
				// three elements, the middle one carrying the unknown fields
				out = append(out, lenRec(num, fill), lenRec(num, payload), lenRec(num, minimal))
				path = fmt.Sprintf("/%d[1]%s", num, path)
			default:
				out = append(out, lenRec(num, payload))
				path = fmt.Sprintf("/%d%s", num, path)
			}
			yield(emitRecs(append(out, after...)), path, how)
		}
		frs, _ := parseRecs(fill)
		{
			half := len(frs) / 2
			var p []rec
			p = append(p, unk(cm))
			p = append(p, frs[:half]...)
			if len(frs) > 1 {
				p = append(p, unk(cm))
			}
			p = append(p, frs[half:]...)
			p = append(p, unk(cm))
			emit(emitRecs(p), "", "declared-fields-set-and-unknown-fields-before-between-after")
		}
		{
			mrs, _ := parseRecs(minimal)
			emit(emitRecs(append(mrs, unk(cm))), "", "nothing-but-one-unknown-field")
		}
		if depth < 2 {
			rn.unknownInside(t, cm, depth+1, emit)
		}
	}
}

// directedUnknown yields valid encodings of message type name that put fields the schema does not define where
// their handling is most likely to go wrong:
//   - nothing but unknown fields (on top of the required fields, if any): one field of each wire type, and several;
//   - every declared field and every declared extension N in turn, set, with unknown fields numbered N+1 and N-1
//     (where the schema leaves them undefined) immediately BEFORE and immediately AFTER it, and between two
//     occurrences of N;
//   - the undefined numbers on both sides of both ends of every extension range, before and after a set extension;
//   - unknown fields INSIDE the child at every nesting position (unknownInside).
func (rn *runner) directedUnknown(t *Target, name string, yield func(enc []byte, applied []string)) {
	md := t.desc(name)
	r := rn.r
	base := func() *dynamicpb.Message {
		if hasRequired(md) {
			return minimalMessage(md)
		}
		return dynamicpb.NewMessage(md)
	}
	baseRecs, _ := parseRecs(refBytes(base()))
	only := "only-unknown-fields"
	if len(baseRecs) > 0 {
		only = "required-fields-and-unknown-fields-only"
	}
	for k := 0; k < 4; k++ {
		u := unknownValue(r, unknownNumber(r, md, true), k)
		yield(emitRecs(append(append([]rec{}, baseRecs...), u)), []string{only, "one-unknown-field"})
	}
	{
		var before, after []rec
		for k := 2 + r.Intn(3); k > 0; k-- {
			u := unknownValue(r, unknownNumber(r, md, true), -1)
			if r.Bool() {
				before = append(before, u)
			} else {
				after = append(after, u)
			}
		}
		yield(emitRecs(append(append(before, baseRecs...), after...)), []string{only, "several-unknown-fields"})
	}
	// neighbours of a declared number
	around := func(label string, m *dynamicpb.Message, n protowire.Number) {
		lo, hi := undefinedNumber(md, n-1, true), undefinedNumber(md, n+1, true)
		loNum, hiNum := n-1, n+1
		how := "unknown-neighbour-numbers-before-and-after"
		if !lo && !hi {
			// both neighbouring numbers are declared: the POSITION next to field N still matters (an arm that leaves
			// the decode loop its own way, a run of unknown fields closed late) — any undefined number will do
			hi, hiNum = true, unknownNumber(r, md, true)
			how = "unknown-fields-immediately-before-and-after"
		}
		recs, ok := parseRecs(refBytes(m))
		if !ok {
			return
		}
		first, second, last := -1, -1, -1
		for i, x := range recs {
			if x.num == n {
				if first < 0 {
					first = i
				} else if second < 0 {
					second = i
				}
				last = i
			}
		}
		if first < 0 {
			return
		}
		var out []rec
		for i, x := range recs {
			if i == first {
				if hi {
					out = append(out, unknownValue(r, hiNum, -1))
				}
				if lo {
					out = append(out, unknownValue(r, loNum, -1))
				}
			}
			if i == second && second > 0 {
				if hi {
					out = append(out, unknownValue(r, hiNum, -1))
				} else {
					out = append(out, unknownValue(r, loNum, -1))
				}
			}
			out = append(out, x)
			if i == last {
				if lo {
					out = append(out, unknownValue(r, loNum, -1))
				}
				if hi {
					out = append(out, unknownValue(r, hiNum, -1))
				}
			}
		}
		yield(emitRecs(out), []string{label, how})
	}
	for i := 0; i < md.Fields().Len(); i++ {
		fd := md.Fields().Get(i)
		m := base()
		switch {
		case fd.IsMap():
			var v protoreflect.Value
			if fd.MapValue().Message() != nil {
				v = protoreflect.ValueOfMessage(minimalMessage(fd.MapValue().Message()))
			} else {
				v = boundary(fd.MapValue(), 1)
			}
			m.Mutable(fd).Map().Set(boundary(fd.MapKey(), 1).MapKey(), v)
			if fd.MapKey().Kind() != protoreflect.BoolKind {
				m.Mutable(fd).Map().Set(boundary(fd.MapKey(), 2).MapKey(), v)
			}
		case fd.IsList():
			for j := 1; j <= 2; j++ {
				if fd.Message() != nil {
					m.Mutable(fd).List().Append(protoreflect.ValueOfMessage(minimalMessage(fd.Message())))
				} else {
					m.Mutable(fd).List().Append(boundary(fd, j))
				}
			}
		case fd.Message() != nil:
			m.Set(fd, protoreflect.ValueOfMessage(minimalMessage(fd.Message())))
		default:
			m.Set(fd, boundary(fd, 1))
		}
		around("field "+string(fd.Name()), m, fd.Number())
	}
	var exts []protoreflect.ExtensionType
	t.extTypes().RangeExtensionsByMessage(md.FullName(), func(xt protoreflect.ExtensionType) bool {
		exts = append(exts, xt)
		return true
	})
	sort.Slice(exts, func(a, b int) bool { return exts[a].TypeDescriptor().Number() < exts[b].TypeDescriptor().Number() })
	setExt := func(m *dynamicpb.Message, xt protoreflect.ExtensionType) bool {
		xd := xt.TypeDescriptor()
		switch {
		case xd.IsList() || xd.IsMap():
			return false
		case xd.Message() != nil:
			m.Set(xd, protoreflect.ValueOfMessage(minimalMessage(xd.Message())))
		default:
			m.Set(xd, boundary(xd, 1))
		}
		return true
	}
	for _, xt := range exts {
		m := base()
		if setExt(m, xt) {
			around("extension "+string(xt.TypeDescriptor().Name()), m, xt.TypeDescriptor().Number())
		}
	}
	// both sides of both ends of every extension range
	for i := 0; i < md.ExtensionRanges().Len(); i++ {
		rg := md.ExtensionRanges().Get(i)
		var ends []rec
		for _, n := range []protowire.Number{rg[0] - 1, rg[0], rg[1] - 1, rg[1]} {
			if undefinedNumber(md, n, true) {
				ends = append(ends, unknownValue(r, n, -1))
			}
		}
		if len(ends) == 0 {
			continue
		}
		m := base()
		for _, xt := range exts {
			if n := xt.TypeDescriptor().Number(); n >= rg[0] && n < rg[1] && setExt(m, xt) {
				break
			}
		}
		recs, _ := parseRecs(refBytes(m))
		out := append(append([]rec{}, ends...), recs...)
		for j := len(ends) - 1; j >= 0; j-- {
			out = append(out, unknownValue(r, ends[j].num, -1))
		}
		yield(emitRecs(out), []string{fmt.Sprintf("extension range %d to %d", rg[0], rg[1]-1), "unknown-numbers-at-the-range-ends-before-and-after"})
	}
	// every reserved range: its first, last and a middle number (and the undefined numbers next to its ends), one
	// record of each wire type, before and after the records of the nearest declared scalar field (reserved numbers of
	// NESTED message types are reached by the random stream: variant recurses with the nested type's descriptor)
	for i := 0; i < md.ReservedRanges().Len(); i++ {
		rg := md.ReservedRanges().Get(i)
		var nums []protowire.Number
		for _, n := range []protowire.Number{rg[0] - 1, rg[0], rg[0] + (rg[1]-rg[0])/2, rg[1] - 1, rg[1]} {
			if undefinedNumber(md, n, true) && (len(nums) == 0 || nums[len(nums)-1] != n) {
				nums = append(nums, n)
			}
		}
		if len(nums) == 0 {
			continue
		}
		m := base()
		if md.Fields().Len() > 0 {
			// one declared field set next to the reserved numbers: the nearest one by number
			best := md.Fields().Get(0)
			dist := func(fd protoreflect.FieldDescriptor) protowire.Number {
				if d := fd.Number() - rg[0]; d >= 0 {
					return d
				}
				return rg[0] - fd.Number()
			}
			for j := 1; j < md.Fields().Len(); j++ {
				if fd := md.Fields().Get(j); dist(fd) < dist(best) {
					best = fd
				}
			}
			if !best.IsMap() && !best.IsList() && best.Message() == nil && best.ContainingOneof() == nil {
				m.Set(best, boundary(best, 1))
			}
		}
		recs, _ := parseRecs(refBytes(m))
		var out []rec
		for k, n := range nums {
			out = append(out, unknownValue(r, n, k))
		}
		out = append(out, recs...)
		for k := len(nums) - 1; k >= 0; k-- {
			out = append(out, unknownValue(r, nums[k], k+1), unknownValue(r, nums[k], k+2), unknownValue(r, nums[k], k+3))
		}
		yield(emitRecs(out), []string{fmt.Sprintf("reserved range %d to %d", rg[0], rg[1]-1), "unknown-fields-with-reserved-numbers-before-and-after"})
	}
	// every nesting position: unknown fields inside the children (generated and runtime-served), three levels down
	rn.unknownInside(t, md, 0, func(enc []byte, path, how string) {
		yield(enc, []string{"unknown-fields-inside-the-nested-message-at " + path, how})
	})
}

// otherValue: a record of the same number and wire type as x carrying a different value.
func otherValue(r *prng.Rng, x rec) rec {
	dup := x
	switch x.typ {
	case protowire.VarintType:
		v, _ := protowire.ConsumeVarint(x.val)
		if v <= 1 { // possibly a bool: stay within {0, 1}
			dup.val = protowire.AppendVarint(nil, 1-v)
			return dup
		}
		dup.val = protowire.AppendVarint(nil, (v+1+uint64(r.Intn(5)))&0x7f)
		if bytes.Equal(dup.val, x.val) {
			dup.val = protowire.AppendVarint(nil, (v+7)&0x7f)
		}
	case protowire.Fixed32Type:
		dup.val = protowire.AppendFixed32(nil, uint32(r.U64())|1)
	case protowire.Fixed64Type:
		dup.val = protowire.AppendFixed64(nil, r.U64()|1)
	case protowire.BytesType:
		dup.val = protowire.AppendBytes(nil, append([]byte("other-"), payloadOf(x)...))
	}
	return dup
}

// junkMessage: a generated message of the same type holding unrelated content (destination pre-fill).
func (rn *runner) junkMessage(t *Target, name string) interface{} {
	m, _ := t.build(name, randMessage(rn.r, t.desc(name), genOpts{requiredAlways: true}))
	return m
}

func (rn *runner) unmarshalCase(t *Target, name string, enc []byte, applied []string, malformed bool) {
	md := t.desc(name)
	desc := map[string]interface{}{"type": t.where(name), "encoding": trunc(hx(enc), 600), "variant": strings.Join(applied, "+")}
	Journal(fmt.Sprintf("%s unmarshal %s %s", rn.prop, t.where(name), hx(enc)))
	want := dynamicpb.NewMessage(md)
	var refErr error
	if p := safeCall(func() { refErr = proto.UnmarshalOptions{Resolver: t.extTypes()}.Unmarshal(enc, want) }); p != "" {
		// the reference runtime itself gives up on some malformed inputs (protobuf-go 1.36.4, slow path: a map
		// entry whose key field recurs with another wire type -> "cannot convert nil to map key"): a rejection
		refErr = fmt.Errorf("reference runtime panicked: %s", p)
		want = dynamicpb.NewMessage(md)
		Extra("reference-runtime-panicked", 1)
	}
	refPartialErr := refErr
	if refErr != nil && strings.Contains(refErr.Error(), "required field") {
		refErr = nil // decoded, only uninitialised
	} else {
		refPartialErr = nil
	}
	m := rn.junkMessage(t, name)
	buf := append([]byte{}, enc...)
	if rn.prop == "C10" && !t.Unsafe && !malformed {
		// the Unmarshal under test is not the first thing this process does: other components (lazyproto, hand-written
		// decoders in fast mode, generated code with the unsafe option) ran to completion before it
		if did := rn.priorActivity(rn.targets, t, name, enc); did != "" {
			desc["before"] = did
		}
	}
	var uerr error
	var before runtime.MemStats
	measure := malformed && rn.r.Chance(1, 6)
	if measure {
		runtime.ReadMemStats(&before)
	}
	if p := safeCall(func() { uerr = m.(FM).Unmarshal(buf) }); p != "" {
		prop := rn.prop
		if prop != "C06" && prop != "C08" {
			prop = "C08"
		}
		if malformed || prop == "C08" {
			Violation("C08", "unmarshal", "unmarshal-panic/"+panicClass(p), "generated Unmarshal() panicked", desc, "error or message", p)
		} else {
			Violation(prop, "unmarshal", "unmarshal-panic/"+panicClass(p), "generated Unmarshal() panicked on a valid encoding", desc, "message", p)
		}
		Count("unmarshal", fmt.Sprint(desc), "panic", len(enc), true)
		rn.modelUnmarshal(t, name, md, enc, m, nil, true, malformed)
		return
	}
	if measure {
		var after runtime.MemStats
		runtime.ReadMemStats(&after)
		if grown := after.TotalAlloc - before.TotalAlloc; grown > uint64(4096*len(enc)+(4<<20)) {
			Violation("C08", "unmarshal", "allocation/out-of-proportion", "Unmarshal allocated memory out of proportion to the input", desc, fmt.Sprintf("<= %d bytes", 4096*len(enc)+(4<<20)), fmt.Sprint(grown))
		}
	}
	rn.modelUnmarshal(t, name, md, enc, m, uerr, false, malformed)
	outcome := "both-accept"
	switch {
	case uerr != nil && refErr != nil:
		outcome = "both-reject"
	case uerr != nil:
		outcome = "only-reference-accepts"
		if rn.prop != "C07" && rn.prop != "C10" && rn.isMergeFinding(t, name, enc, nil, uerr) {
			Violation(rn.prop, "unmarshal", "merge/singular-message-last-wins", "a singular message field occurring more than once is replaced by its last occurrence instead of merged (here: the last occurrence alone lacks a required field)", desc, trunc(fmt.Sprint(want), 300), uerr.Error())
			break
		}
		if !malformed && rn.prop == "C07" && refPartialErr == nil && len(want.GetUnknown()) > 0 && !rn.isMergeFinding(t, name, enc, nil, uerr) {
			Violation("C07", "unmarshal", "unknown-fields-not-retained/input-rejected", "generated Unmarshal() rejected a valid encoding that carries unknown fields (they cannot be retained)", desc, trunc(fmt.Sprint(want), 300), uerr.Error())
		}
		if !malformed && rn.prop == "C06" && refPartialErr == nil {
			Violation("C06", "unmarshal", "valid-encoding-rejected/"+errClass(uerr.Error()), "generated Unmarshal() rejected a valid encoding that the reference runtime accepts", desc, trunc(fmt.Sprint(want), 300), uerr.Error())
		}
		if rn.prop == "C17" && refPartialErr == nil {
			Violation("C17", "unmarshal", "required/spurious-error", "Unmarshal reported an error although no required field is missing", desc, "message", uerr.Error())
		}
	case refErr != nil:
		outcome = "only-generated-accepts"
	default:
		if rn.prop == "C17" {
			if refPartialErr != nil {
				Violation("C17", "unmarshal", "required/missing-not-reported/"+missingWhere(want), "Unmarshal accepted bytes that lack a required field", desc, refPartialErr.Error(), "no error")
			}
			break
		}
		// both accept: the messages must be equal
		got, rerr := t.readBack(name, m)
		if rerr != nil {
			Note("readBack failed for " + t.where(name) + ": " + rerr.Error())
			break
		}
		gd, derr := t.toDyn(name, got)
		if derr != nil || !proto.Equal(gd, want) {
			outcome = "disagree"
			if gd != nil && rn.prop != "C07" && rn.prop != "C10" && rn.isMergeFinding(t, name, enc, gd, nil) {
				Violation(rn.prop, "unmarshal", "merge/singular-message-last-wins", "a singular message field occurring more than once is replaced by its last occurrence instead of merged", desc, trunc(fmt.Sprint(want), 300), trunc(fmt.Sprint(gd), 300))
				break
			}
			prop, sig := rn.prop, "unmarshal-differs/"+diffSig(want, gd)
			if len(applied) > 0 {
				sig += "/" + strings.Join(dedup(applied), "+")
			}
			if prop == "C07" {
				if bytes.Equal(gd.GetUnknown(), want.GetUnknown()) {
					// the same at the top level; one level down and deeper the comparison is meaningful only where
					// "replace" and "merge" of a repeated singular message coincide (open finding B9 otherwise)
					// … as far as a trip through the runtime's encoder and the reference decoder shows: bytes of a DECLARED
					// field kept among the unknown bytes are decoded again on that trip. What the message itself holds:
					if raw, ok := rawUnknown(m); ok && !bytes.Equal(raw, want.GetUnknown()) {
						Violation("C07", "unmarshal", "unknown-set-differs", "after generated Unmarshal() the message holds, as unknown bytes, something else than the fields the schema does not define (bytes of a declared field were retained as well, or unknown bytes were lost or reordered)",
							desc, hx(want.GetUnknown()), hx(raw))
						break
					}
					if _, mergeSensitive := lastWins(md, enc); mergeSensitive || gd == nil || t.unknownTree(gd) == t.unknownTree(want) {
						break // not an unknown-field matter
					}
					Violation("C07", "unmarshal", "unknown-fields-not-retained-by-unmarshal/nested-message", "after generated Unmarshal() a NESTED message does not hold the unknown fields the input carries for it", desc, trunc(t.unknownTree(want), 300), trunc(t.unknownTree(gd), 300))
					break
				}
				sig = "unknown-fields-not-retained-by-unmarshal"
			}
			if prop == "C10" {
				break
			}
			Violation(prop, "unmarshal", sig, "generated Unmarshal() and the reference runtime decode the same bytes to different messages", desc, trunc(fmt.Sprint(want), 300), trunc(fmt.Sprint(gd), 300))
		}
		// equal after a trip through the runtime's encoder — but a field the schema DEFINES (an extension) that was
		// merely kept as unknown bytes survives that trip too: the unknown fields held by the decoded message
		// itself must be the reference's unknown fields, no more and no less
		if outcome != "disagree" && (rn.prop == "C06" || rn.prop == "C07" || rn.prop == "C08") {
			if raw, ok := rawUnknown(m); ok && !bytes.Equal(raw, want.GetUnknown()) {
				outcome = "disagree"
				Violation(rn.prop, "unmarshal", "unknown-set-differs", "after generated Unmarshal() the message holds, as unknown bytes, something else than the fields the schema does not define (a declared field / extension was left undecoded, or unknown bytes were lost or reordered)",
					desc, hx(want.GetUnknown()), hx(raw))
			}
		}
		switch rn.prop {
		case "C07":
			// (below the top level the comparison is meaningful only where "replace" and "merge" of a repeated singular
			// message coincide: open finding B9 otherwise)
			_, mergeSensitive := lastWins(md, enc)
			rn.unknownRoundTrip(t, name, m, want, !mergeSensitive, desc, buf)
		case "C10":
			rn.clobber(t, name, m, buf, got, desc)
		}
	}
	if (rn.prop == "C06" || rn.prop == "C08" || rn.prop == "C09") && uerr == nil {
		// the decoded message is the caller's: overwriting what it hands out must not show in any later result
		scribbled += scribble(m)
		if scribbleCalls++; scribbleCalls%500 == 0 {
			Extra("scribbled-cells", scribbled)
			scribbled = 0
		}
	}
	Count("unmarshal", fmt.Sprint(desc), outcome, len(enc), len(enc) > 0)
}

// rawUnknown returns the unknown-field bytes the message value itself holds (top level).
func rawUnknown(m interface{}) ([]byte, bool) {
	if pm, ok := m.(proto.Message); ok {
		return pm.ProtoReflect().GetUnknown(), true
	}
	v := reflect.ValueOf(m)
	if v.Kind() == reflect.Ptr && !v.IsNil() && v.Elem().Kind() == reflect.Struct {
		if f := v.Elem().FieldByName("XXX_unrecognized"); f.IsValid() && f.Kind() == reflect.Slice {
			return f.Bytes(), true
		}
	}
	return nil, false
}

var reDigits = regexp.MustCompile(`[0-9]+`)
var reQuoted = regexp.MustCompile(`'[^']*'`)

// errClass reduces an error message to its shape (numbers and quoted names removed).
func errClass(e string) string {
	return trunc(reDigits.ReplaceAllString(reQuoted.ReplaceAllString(e, "'_'"), "N"), 120)
}

// isMergeFinding reports whether the generated result is exactly what the reference runtime yields once
// every repeated occurrence of a singular message field is reduced to its last one (known finding B9).
func (rn *runner) isMergeFinding(t *Target, name string, enc []byte, got *dynamicpb.Message, uerr error) bool {
	md := t.desc(name)
	nb, changed := lastWins(md, enc)
	if !changed {
		return false
	}
	want2 := dynamicpb.NewMessage(md)
	var err2 error
	if p := safeCall(func() { err2 = proto.UnmarshalOptions{Resolver: t.extTypes()}.Unmarshal(nb, want2) }); p != "" {
		return false
	}
	if uerr != nil {
		// generated Unmarshal failed: attributable only if the reduced input is rejected by the reference
		// too, for a missing required field
		if !strings.Contains(uerr.Error(), "required") {
			return false
		}
		return (err2 != nil && strings.Contains(err2.Error(), "required")) || splitOccurrenceIncomplete(t, md, enc)
	}
	if err2 != nil && !strings.Contains(err2.Error(), "required") {
		return false
	}
	return proto.Equal(got, want2)
}

func panicClass(p string) string {
	switch {
	case strings.Contains(p, "index out of range"), strings.Contains(p, "slice bounds"):
		return "bounds"
	case strings.Contains(p, "nil pointer"):
		return "nil"
	case strings.Contains(p, "makeslice"), strings.Contains(p, "out of memory"):
		return "alloc"
	}
	return "other"
}

func dedup(xs []string) []string {
	seen := map[string]bool{}
	var out []string
	for _, x := range xs {
		if !seen[x] {
			seen[x] = true
			out = append(out, x)
		}
	}
	return out
}

// C07: Marshal after Unmarshal must re-emit the unknown fields byte for byte, and Size must count them — and keep
// doing so whatever the CALLER does meanwhile with the buffers that are the caller's: the input buffer it handed to
// Unmarshal (safe mode), the result of Marshal (overwritten, appended to), the destination of MarshalTo (held other
// data before); operations on the message that do not concern unknown fields (csproto.SetExtension / ClearExtension
// of a DECLARED extension) must leave them alone; and a second Unmarshal into the same message leaves exactly the
// second input's unknown fields.
// unknownTree renders the unknown fields a message holds at every level: one "path=hex" item per message value
// (top level, singular / repeated / map-valued message fields, recursively) that holds any — message values of
// generated types and of runtime-served types alike (the latter marked "*").
func (t *Target) unknownTree(m protoreflect.Message) string {
	var items []string
	var walk func(m protoreflect.Message, path string, depth int)
	walk = func(m protoreflect.Message, path string, depth int) {
		if u := m.GetUnknown(); len(u) > 0 {
			if !t.generatedType(m.Descriptor()) {
				// a message value this target has no generated code for (a well-known type, a type of an imported file
				// that was generated without fast-marshal code): its runtime decodes and writes it on behalf of the
				// enclosing generated code, and must be handed — and hand back — every field it does not know. The
				// runtimes keep them byte for byte; Gogo alone re-orders ACROSS field numbers (see canonUnknown)
				path += "*"
				if t.Runtime == "gogo" {
					u = canonUnknown(u)
				}
			}
			items = append(items, path+"="+hx(u))
		}
		if depth > 8 {
			return
		}
		type sub struct {
			path string
			m    protoreflect.Message
		}
		var subs []sub
		m.Range(func(fd protoreflect.FieldDescriptor, v protoreflect.Value) bool {
			if fd.Message() == nil && !(fd.IsMap() && fd.MapValue().Message() != nil) {
				return true
			}
			p := fmt.Sprintf("%s/%d", path, fd.Number())
			switch {
			case fd.IsMap():
				if fd.MapValue().Message() == nil {
					return true
				}
				v.Map().Range(func(k protoreflect.MapKey, mv protoreflect.Value) bool {
					subs = append(subs, sub{fmt.Sprintf("%s{%v}", p, k.Interface()), mv.Message()})
					return true
				})
			case fd.IsList():
				for i := 0; i < v.List().Len(); i++ {
					subs = append(subs, sub{fmt.Sprintf("%s[%d]", p, i), v.List().Get(i).Message()})
				}
			default:
				subs = append(subs, sub{p, v.Message()})
			}
			return true
		})
		sort.Slice(subs, func(a, b int) bool { return subs[a].path < subs[b].path })
		for _, x := range subs {
			walk(x.m, x.path, depth+1)
		}
	}
	walk(m, "", 0)
	return strings.Join(items, " ")
}

// generatedType: this target has generated (fast-marshal) code for message type md. Every other message type
// reachable from the target's messages is served by the target's Protobuf runtime.
func (t *Target) generatedType(md protoreflect.MessageDescriptor) bool {
	pkg := string(t.file.Package()) + "."
	if !strings.HasPrefix(string(md.FullName()), pkg) {
		return false
	}
	_, ok := t.Messages[strings.TrimPrefix(string(md.FullName()), pkg)]
	return ok
}

// canonUnknown: the records of u stably sorted by field number. Gogo's table-driven decoder keeps an unknown field
// whose number lies inside an extension range with the extensions (written first, by number) and the others in
// XXX_unrecognized (written last): the records of one number keep their order and their bytes, records of different
// numbers may change places.
func canonUnknown(u []byte) []byte {
	rs, ok := parseRecs(u)
	if !ok {
		return u
	}
	sort.SliceStable(rs, func(a, b int) bool { return rs[a].num < rs[b].num })
	return emitRecs(rs)
}

func (rn *runner) unknownRoundTrip(t *Target, name string, m interface{}, want *dynamicpb.Message, deep bool, desc map[string]interface{}, input []byte) {
	wantUnk := append([]byte{}, want.GetUnknown()...)
	// deep: also compare the unknown fields of the nested messages (nil: top level only)
	var wantTree *string
	if deep {
		s := t.unknownTree(want)
		wantTree = &s
	}
	var log []string
	log = append(log, "Unmarshal(input)")
	hdesc := func() map[string]interface{} {
		d := map[string]interface{}{"history": strings.Join(log, " ; ")}
		for k, v := range desc {
			d[k] = v
		}
		return d
	}
	// marshalAndCompare: the unknown fields the reference finds in what Marshal() returns now
	marshalAndCompare := func(sig, what string, expect []byte, expectTree *string) ([]byte, bool) {
		var b []byte
		var err error
		var size int
		if p := safeCall(func() { size = m.(FM).Size(); b, err = m.(FM).Marshal() }); p != "" || err != nil {
			return nil, false // C04's business
		}
		log = append(log, "Size(); Marshal()")
		back, derr := t.toDyn(name, b)
		if derr != nil {
			if len(expect) > 0 {
				Violation("C07", "unknown", sig+"/output-not-parseable", "the bytes Marshal() returns cannot be parsed: the unknown fields are not re-emitted ("+what+")", hdesc(), hx(expect), trunc(hx(b), 300)+" ("+derr.Error()+")")
			}
			return b, false
		}
		if !bytes.Equal(back.GetUnknown(), expect) {
			Violation("C07", "unknown", sig, "unknown fields present in the input are not re-emitted byte for byte by the next Marshal() ("+what+")", hdesc(), hx(expect), hx(back.GetUnknown()))
			return b, false
		}
		if expectTree != nil {
			if got := t.unknownTree(back); got != *expectTree {
				Violation("C07", "unknown", sig+"/nested-message", "unknown fields the input carries for a NESTED message are not re-emitted byte for byte by the next Marshal() ("+what+")", hdesc(), trunc(*expectTree, 300), trunc(got, 300))
				return b, false
			}
		}
		if (len(expect) > 0 || (expectTree != nil && *expectTree != "")) && size != len(b) {
			Violation("C07", "unknown", "unknown-fields-not-counted-by-size", "Size() does not account for the unknown fields", hdesc(), fmt.Sprint(len(b)), fmt.Sprint(size))
			return b, false
		}
		return b, true
	}
	if !t.Unsafe && len(input) > 0 {
		// safe mode: the input buffer is the caller's again as soon as Unmarshal returns
		for i := range input {
			input[i] = 0xff
		}
		log = append(log, "overwrite the input buffer with 0xff")
	}
	b, ok := marshalAndCompare("unknown-fields-lost-on-marshal", "first Marshal after Unmarshal", wantUnk, wantTree)
	if !ok {
		Count("unknown", fmt.Sprint(desc), "round-trip-failed", len(b), len(wantUnk) > 0)
		return
	}
	// the result belongs to the caller: overwrite it, append a trailer to it (writes into its spare capacity)
	first := append([]byte{}, b...)
	for i := range b {
		b[i] = 0xff
	}
	b = append(b, bytes.Repeat([]byte{0xee}, 24)...)
	log = append(log, "overwrite the bytes Marshal() returned with 0xff and append 24 bytes to them")
	if raw, rok := rawUnknown(m); rok && !bytes.Equal(raw, wantUnk) {
		// (the next Marshal, below, shows the consequence)
		Violation("C07", "unknown", "unknown-fields-corrupted/marshal-result-shares-memory-with-the-message", "after the caller wrote into the buffer Marshal() returned, the unknown bytes held by the message changed: the next Marshal() cannot re-emit them", hdesc(), hx(wantUnk), hx(raw))
	}
	second, ok := marshalAndCompare("unknown-fields-lost-on-marshal/after-caller-reused-earlier-result", "second Marshal, after the caller overwrote and extended the buffer the first one returned", wantUnk, wantTree)
	if !ok {
		Count("unknown", fmt.Sprint(desc), "round-trip-failed", len(second), len(wantUnk) > 0)
		return
	}
	// MarshalTo into a buffer that held other data before
	{
		var dest []byte
		var terr error
		if p := safeCall(func() {
			sz := m.(FM).Size()
			scratch := bytes.Repeat([]byte{0xa5}, sz+8)
			dest = scratch[:sz]
			terr = m.(FM).MarshalTo(dest)
		}); p == "" && terr == nil {
			log = append(log, "MarshalTo(buffer pre-filled with 0xa5)")
			back, derr := t.toDyn(name, dest)
			if derr != nil || !bytes.Equal(back.GetUnknown(), wantUnk) || (wantTree != nil && t.unknownTree(back) != *wantTree) {
				got := "not parseable: " + trunc(hx(dest), 300)
				if derr == nil {
					got = t.unknownTree(back)
				}
				Violation("C07", "unknown", "unknown-fields-lost-on-marshal/marshalto-dirty-buffer", "unknown fields are not re-emitted byte for byte by MarshalTo() into a buffer that held other data before", hdesc(), hx(wantUnk), got)
				Count("unknown", fmt.Sprint(desc), "round-trip-failed", len(dest), len(wantUnk) > 0)
				return
			}
		}
	}
	// operations on DECLARED extensions do not concern the fields the schema does not define
	if xs := t.extsOf(name); len(xs) > 0 && rn.r.Chance(2, 3) {
		x := xs[rn.r.Intn(len(xs))]
		var has bool
		opOK := false
		switch rn.r.Intn(4) {
		case 3:
			// ClearAllExtensions: whatever it does to undecoded fields INSIDE the extension ranges (the golang/protobuf v1
			// API drops them, google.golang.org/protobuf keeps them), a field whose number lies outside every range is no
			// extension at all and must stay
			md := t.desc(name)
			outside := func(raw []byte) []byte {
				rs, ok := parseRecs(raw)
				if !ok {
					return raw
				}
				var keep []rec
				for _, x := range rs {
					if !md.ExtensionRanges().Has(x.num) {
						keep = append(keep, x)
					}
				}
				return emitRecs(keep)
			}
			if p := safeCall(func() { csproto.ClearAllExtensions(m) }); p == "" {
				log = append(log, "csproto.ClearAllExtensions")
				var b []byte
				var err error
				if p := safeCall(func() { b, err = m.(FM).Marshal() }); p == "" && err == nil {
					log = append(log, "Marshal()")
					if back, derr := t.toDyn(name, b); derr != nil || !bytes.Equal(outside(back.GetUnknown()), outside(wantUnk)) {
						got := "not parseable: " + trunc(hx(b), 300)
						if derr == nil {
							got = hx(outside(back.GetUnknown()))
						}
						Violation("C07", "unknown", "unknown-fields-lost/clear-all-extensions-dropped-a-field-outside-the-extension-ranges", "csproto.ClearAllExtensions removed unknown fields whose numbers lie outside every extension range of the message type (they are not extensions): the next Marshal() does not re-emit them", hdesc(), hx(outside(wantUnk)), got)
						Count("unknown", fmt.Sprint(desc), "lost", len(first), true)
						return
					}
				}
				// from here on only the fields outside the ranges are known to be retained
				wantUnk = outside(wantUnk)
				if raw, rok := rawUnknown(m); rok {
					wantUnk = append([]byte{}, raw...)
				}
			}
		case 0:
			if v := t.extValue(rn.r, x); v != nil {
				var err error
				if p := safeCall(func() { err = csproto.SetExtension(m, x.Desc, v) }); p == "" && err == nil {
					log = append(log, fmt.Sprintf("csproto.SetExtension(%s (%d), %s)", x.Name, x.Num, trunc(valString(v), 40)))
					opOK = true
				}
			}
		case 1:
			if p := safeCall(func() { csproto.ClearExtension(m, x.Desc) }); p == "" {
				log = append(log, fmt.Sprintf("csproto.ClearExtension(%s (%d))", x.Name, x.Num))
				opOK = true
			}
		default:
			if p := safeCall(func() { has = csproto.HasExtension(m, x.Desc); csproto.GetExtension(m, x.Desc) }); p == "" {
				log = append(log, fmt.Sprintf("csproto.HasExtension/GetExtension(%s (%d)) = %v", x.Name, x.Num, has))
				opOK = true
			}
		}
		if opOK {
			if raw, rok := rawUnknown(m); rok && !bytes.Equal(raw, wantUnk) {
				Violation("C07", "unknown", "unknown-fields-lost/extension-accessor-of-a-declared-extension", "an accessor call for a DECLARED extension changed the unknown bytes the message retains (fields with other numbers)", hdesc(), hx(wantUnk), hx(raw))
				Count("unknown", fmt.Sprint(desc), "lost", len(first), true)
				return
			}
			if _, ok := marshalAndCompare("unknown-fields-lost-on-marshal/after-extension-accessor", "Marshal after an accessor call for a declared extension", wantUnk, nil); !ok {
				Count("unknown", fmt.Sprint(desc), "round-trip-failed", len(first), len(wantUnk) > 0)
				return
			}
		}
	}
	// a second input into the same message: exactly ITS unknown fields from now on
	if rn.r.Chance(1, 2) {
		md := t.desc(name)
		var base []rec
		if hasRequired(md) {
			base, _ = parseRecs(refBytes(minimalMessage(md)))
		}
		var us []rec
		for k := rn.r.Intn(3); k > 0; k-- {
			us = append(us, randUnknown(rn.r, md))
		}
		in2 := emitRecs(append(append([]rec{}, base...), us...))
		want2 := dynamicpb.NewMessage(md)
		if err := (proto.UnmarshalOptions{Resolver: t.extTypes(), AllowPartial: true}).Unmarshal(in2, want2); err == nil {
			var uerr error
			buf2 := append([]byte{}, in2...)
			if p := safeCall(func() { uerr = m.(FM).Unmarshal(buf2) }); p == "" && uerr == nil {
				log = append(log, "Unmarshal("+hx(in2)+") into the same message")
				tree2 := t.unknownTree(want2)
				if _, ok := marshalAndCompare("unknown-fields-of-an-earlier-input-kept-or-new-ones-lost", "Marshal after a second Unmarshal into the same message", want2.GetUnknown(), &tree2); !ok {
					Count("unknown", fmt.Sprint(desc), "round-trip-failed", len(in2), true)
					return
				}
			}
		}
	}
	Count("unknown", fmt.Sprint(desc), "round-trip", len(first), len(wantUnk) > 0)
}

// extsOf: the generated extension descriptors declared for message type name.
func (t *Target) extsOf(name string) []ExtVar {
	var out []ExtVar
	for _, x := range t.Exts {
		if x.Extendee == name {
			out = append(out, x)
		}
	}
	return out
}

// C10: the decoded message must not change when the caller overwrites / reuses the input buffer.
func (rn *runner) clobber(t *Target, name string, m interface{}, buf []byte, snapshot []byte, desc map[string]interface{}) {
	if t.Unsafe {
		return // the user opted into aliasing
	}
	for i := range buf {
		buf[i] = 0xff
	}
	after, err := t.readBack(name, m)
	if err != nil || !bytes.Equal(after, snapshot) {
		a, _ := t.toDyn(name, snapshot)
		b, _ := t.toDyn(name, after)
		sig := "aliases-input"
		if a != nil && b != nil {
			sig = "aliases-input/" + diffSig(a, b)
		}
		Violation("C10", "clobber", sig, "the decoded message changed after the caller overwrote the input buffer (safe mode)", desc, hx(snapshot), hx(after))
	}
	Count("clobber", fmt.Sprint(desc), "checked", len(buf), len(buf) > 0)
}

func damage(r *prng.Rng, b []byte) ([]byte, string) {
	b = append([]byte{}, b...)
	switch r.Intn(7) {
	case 6:
		// the key of one top-level field rewritten with another wire type, payload untouched
		type span struct {
			start, keyLen int
			num           protowire.Number
			typ           protowire.Type
		}
		var recs []span
		for off := 0; off < len(b); {
			num, typ, n := protowire.ConsumeTag(b[off:])
			if n < 0 {
				break
			}
			m := protowire.ConsumeFieldValue(num, typ, b[off+n:])
			if m < 0 {
				break
			}
			recs = append(recs, span{off, n, num, typ})
			off += n + m
		}
		if len(recs) > 0 {
			rec := recs[r.Intn(len(recs))]
			nt := []protowire.Type{protowire.VarintType, protowire.Fixed64Type, protowire.BytesType, protowire.Fixed32Type}[r.Intn(4)]
			if nt == rec.typ {
				nt = protowire.VarintType
				if rec.typ == protowire.VarintType {
					nt = protowire.BytesType
				}
			}
			out := append([]byte{}, b[:rec.start]...)
			out = protowire.AppendTag(out, rec.num, nt)
			out = append(out, b[rec.start+rec.keyLen:]...)
			return out, "wire-type-swapped"
		}
	case 0:
		if len(b) > 0 {
			return b[:r.Intn(len(b))], "truncated"
		}
	case 1:
		if len(b) > 0 {
			b[r.Intn(len(b))] ^= byte(1 << uint(r.Intn(8)))
			return b, "bit-flip"
		}
	case 2:
		if len(b) > 0 {
			i := r.Intn(len(b))
			for j := i; j < len(b) && j < i+1+r.Intn(10); j++ {
				b[j] |= 0x80
			}
			return b, "length-inflated"
		}
	case 3:
		return r.Bytes(r.Intn(30)), "junk"
	case 4:
		hdr := protowire.AppendTag(nil, protowire.Number(1+r.Intn(20)), protowire.BytesType)
		hdr = protowire.AppendVarint(hdr, r.U64Interesting())
		return append(hdr, b...), "huge-length"
	}
	return append(b, 0x80), "dangling-continuation"
}

type pathCase struct {
	what string
	enc  []byte
}

// pathological: a fixed corpus that runs first — declared lengths around every boundary the decoder
// compares against (2^31, 2^32, 2^63, 2^64), on a field the type knows and on one it must skip.
func pathological(md protoreflect.MessageDescriptor) []pathCase {
	var out []pathCase
	nums := []protowire.Number{900}
	for i := 0; i < md.Fields().Len(); i++ {
		fd := md.Fields().Get(i)
		if fd.Kind() == protoreflect.StringKind || fd.Kind() == protoreflect.BytesKind || fd.Kind() == protoreflect.MessageKind || fd.IsPacked() {
			nums = append(nums, fd.Number())
			break
		}
	}
	for _, num := range nums {
		for md.Fields().ByNumber(num) == nil && md.ExtensionRanges().Has(num) {
			num = 19000 - 1
			break
		}
		for _, l := range []uint64{1<<31 - 1, 1 << 31, 1<<32 - 1, 1 << 32, 1 << 35, 1<<63 - 1, 1 << 63, 1<<64 - 1, 1<<63 - 9, 1<<63 - 2} {
			for _, tail := range [][]byte{nil, {1, 2, 3}} {
				b := protowire.AppendTag(nil, num, protowire.BytesType)
				b = protowire.AppendVarint(b, l)
				out = append(out, pathCase{fmt.Sprintf("declared-length-%d-on-field-%d", l, num), append(b, tail...)})
			}
		}
	}
	return out
}

func (rn *runner) runUnmarshal(ts []*Target, n int) {
	for _, t := range ts {
		for _, name := range sortedNames(t.Messages) {
			md := t.desc(name)
			if rn.prop == "C17" {
				rn.unmarshalCase(t, name, nil, []string{"empty-input"}, false)
			}
			if rn.prop == "C08" {
				for _, pc := range pathological(md) {
					rn.unmarshalCase(t, name, pc.enc, []string{pc.what}, true)
				}
			}
			if rn.prop == "C06" || rn.prop == "C08" || rn.prop == "C10" {
				// every field alone at its boundary values, as the reference encodes it and rewritten
				singleFieldMessages(md, false, func(label string, m *dynamicpb.Message) {
					enc := refBytes(m)
					rn.unmarshalCase(t, name, enc, []string{label}, false)
					if v, applied := variant(rn.r, md, enc, 0, true); len(applied) > 0 {
						rn.unmarshalCase(t, name, v, append([]string{label}, applied...), false)
					}
				})
			}
			if rn.prop == "C06" || rn.prop == "C07" || rn.prop == "C08" || rn.prop == "C10" {
				rn.directedUnknown(t, name, func(enc []byte, applied []string) { rn.unmarshalCase(t, name, enc, applied, false) })
			}
			for i := 0; i < n; i++ {
				ref := randMessage(rn.r, md, genOpts{requiredAlways: rn.prop != "C17", exts: t.extTypes()})
				enc := refBytes(ref)
				var applied []string
				if rn.prop != "C17" {
					enc, applied = variant(rn.r, md, enc, 0, true)
				}
				if rn.prop == "C08" {
					var how string
					enc, how = damage(rn.r, enc)
					rn.unmarshalCase(t, name, enc, append(applied, how), true)
					continue
				}
				rn.unmarshalCase(t, name, enc, applied, false)
				if rn.prop == "C07" && i%3 == 0 {
					// the same with the key of one unknown field written non-minimally (a padded varint): not
					// what a conforming writer emits, so the input may be refused — but when it is accepted
					// (the reference parsers do accept it) the field must be kept byte for byte like any other
					if padded, ok := padUnknownKey(rn.r, md, enc); ok {
						rn.unmarshalCase(t, name, padded, append(append([]string{}, applied...), "padded-unknown-key"), true)
					}
				}
			}
		}
	}
}

// padUnknownKey re-encodes the key of one top-level field the schema does not define with one or two
// redundant continuation bytes.
func padUnknownKey(r *prng.Rng, md protoreflect.MessageDescriptor, b []byte) ([]byte, bool) {
	type span struct{ start, keyLen int }
	var cands []span
	for off := 0; off < len(b); {
		num, typ, n := protowire.ConsumeTag(b[off:])
		if n < 0 {
			return nil, false
		}
		m := protowire.ConsumeFieldValue(num, typ, b[off+n:])
		if m < 0 {
			return nil, false
		}
		if md.Fields().ByNumber(num) == nil && !md.ExtensionRanges().Has(num) {
			cands = append(cands, span{off, n})
		}
		off += n + m
	}
	if len(cands) == 0 {
		return nil, false
	}
	c := cands[r.Intn(len(cands))]
	key := append([]byte{}, b[c.start:c.start+c.keyLen]...)
	if len(key) > 3 {
		return nil, false // keep the key within the five bytes every parser reads
	}
	key[len(key)-1] |= 0x80
	for i := r.Intn(2); i > 0; i-- {
		key = append(key, 0x80)
	}
	key = append(key, 0x00)
	out := append([]byte{}, b[:c.start]...)
	out = append(out, key...)
	return append(out, b[c.start+c.keyLen:]...), true
}

// ---------- C09: histories ----------

// mutateStruct changes one exported field of the generated struct in place (grow / shrink / set / clear).
func mutateStruct(r *prng.Rng, v reflect.Value) string {
	v = v.Elem()
	var cands []int
	for i := 0; i < v.NumField(); i++ {
		sf := v.Type().Field(i)
		if sf.PkgPath != "" || strings.HasPrefix(sf.Name, "XXX_") {
			continue
		}
		cands = append(cands, i)
	}
	if len(cands) == 0 {
		return "none"
	}
	i := cands[r.Intn(len(cands))]
	f := v.Field(i)
	nm := v.Type().Field(i).Name
	switch f.Kind() {
	case reflect.String:
		f.SetString(f.String() + strings.Repeat("g", 1+r.Intn(200)))
		return "grow-string " + nm
	case reflect.Slice:
		if et := f.Type().Elem(); et.Kind() == reflect.Ptr && et.Elem().Kind() == reflect.Struct && f.Len() > 0 && r.Chance(1, 3) {
			// a message that is an ELEMENT of the list changes in place (the list itself stays as it is)
			if k := r.Intn(f.Len()); !f.Index(k).IsNil() {
				return fmt.Sprintf("set-elem %s[%d] (%s)", nm, k, mutateStruct(r, f.Index(k)))
			}
		}
		if r.Chance(1, 5) {
			// emptied by re-slicing (buffer reuse): a non-nil slice of length zero
			if f.Len() > 0 {
				f.Set(f.Slice(0, 0))
			} else {
				f.Set(reflect.MakeSlice(f.Type(), 0, 2))
			}
			return "empty-non-nil " + nm
		}
		if f.Len() > 0 && r.Chance(1, 3) {
			f.Set(f.Slice(0, f.Len()-1))
			return "shrink " + nm
		}
		if f.Type().Elem().Kind() == reflect.Uint8 {
			f.Set(reflect.ValueOf(append(append([]byte{}, f.Bytes()...), r.Bytes(1+r.Intn(150))...)))
			return "grow-bytes " + nm
		}
		el := reflect.New(f.Type().Elem()).Elem()
		if el.Kind() == reflect.Ptr {
			el.Set(reflect.New(el.Type().Elem()))
		} else if el.Kind() == reflect.String {
			el.SetString("appended")
		} else if el.CanInt() {
			el.SetInt(int64(r.Intn(1 << 20)))
		} else if el.CanUint() {
			el.SetUint(uint64(r.Intn(1 << 20)))
		}
		f.Set(reflect.Append(f, el))
		return "append " + nm
	case reflect.Interface:
		// the member of a oneof that is set right now changes in place (the wrapper struct holds one field)
		if !f.IsNil() && f.Elem().Kind() == reflect.Ptr && !f.Elem().IsNil() && f.Elem().Elem().Kind() == reflect.Struct {
			return "set-oneof " + nm + " (" + mutateStruct(r, f.Elem()) + ")"
		}
	case reflect.Ptr:
		if !f.IsNil() && r.Chance(1, 3) {
			if sf := v.Type().Field(i); !strings.Contains(string(sf.Tag), ",req") && !strings.Contains(string(sf.Tag), ",oneof") {
				f.Set(reflect.Zero(f.Type()))
				return "clear " + nm
			}
		}
		if f.IsNil() {
			f.Set(reflect.New(f.Type().Elem()))
		}
		e := f.Elem()
		switch {
		case e.Kind() == reflect.String:
			e.SetString(e.String() + strings.Repeat("p", 1+r.Intn(200)))
		case e.CanInt():
			e.SetInt(int64(r.U64Interesting()) >> 33)
		case e.CanUint():
			e.SetUint(r.U64Interesting() >> 33)
		case e.Kind() == reflect.Bool:
			e.SetBool(!e.Bool())
		case e.Kind() == reflect.Struct:
			return "set-sub " + nm + " (" + mutateStruct(r, f) + ")"
		}
		return "set " + nm
	case reflect.Bool:
		f.SetBool(!f.Bool())
		return "flip " + nm
	case reflect.Map:
		if et := f.Type().Elem(); et.Kind() == reflect.Ptr && et.Elem().Kind() == reflect.Struct && f.Len() > 0 && r.Chance(1, 2) {
			// a message that is a VALUE of the map changes in place (keys in a fixed order: the choice is reproducible)
			keys := f.MapKeys()
			sort.Slice(keys, func(a, b int) bool { return fmt.Sprint(keys[a].Interface()) < fmt.Sprint(keys[b].Interface()) })
			if k := keys[r.Intn(len(keys))]; !f.MapIndex(k).IsNil() {
				return fmt.Sprintf("set-value %s[%v] (%s)", nm, k.Interface(), mutateStruct(r, f.MapIndex(k)))
			}
		}
		if f.IsNil() {
			f.Set(reflect.MakeMap(f.Type()))
		}
		k := reflect.New(f.Type().Key()).Elem()
		if k.Kind() == reflect.String {
			k.SetString(fmt.Sprint("k", r.Intn(1000)))
		} else if k.CanInt() {
			k.SetInt(int64(r.Intn(1000)))
		} else if k.CanUint() {
			k.SetUint(uint64(r.Intn(1000)))
		} else if k.Kind() == reflect.Bool {
			k.SetBool(r.Bool())
		}
		val := reflect.New(f.Type().Elem()).Elem()
		if val.Kind() == reflect.Ptr {
			val.Set(reflect.New(val.Type().Elem()))
		}
		f.SetMapIndex(k, val)
		return "map-insert " + nm
	default:
		if f.CanInt() {
			f.SetInt(int64(r.U64Interesting()) >> 33)
			return "set " + nm
		}
		if f.CanUint() {
			f.SetUint(r.U64Interesting() >> 33)
			return "set " + nm
		}
		if f.CanFloat() {
			f.SetFloat(float64(r.Intn(1000)) / 4)
			return "set " + nm
		}
	}
	return "none"
}

type resetter interface{ Reset() }

// marshalToNoSize: MarshalTo into a sentinel-filled buffer with slack, without calling Size() first; the bytes written
// must be those of a fresh deep copy's Marshal and nothing beyond them may be touched.
func (rn *runner) marshalToNoSize(t *Target, name string, m interface{}) (sig, what, want, got string) {
	md := t.desc(name)
	cp := t.deepCopy(name, m)
	if cp == nil {
		return
	}
	exp, err := cp.(FM).Marshal()
	if err != nil {
		return
	}
	dest := bytes.Repeat([]byte{0xA5}, len(exp)+40)
	var terr error
	if p := safeCall(func() { terr = m.(FM).MarshalTo(dest) }); p != "" {
		return "marshalto-larger-buffer-panic", "MarshalTo() into a buffer larger than Size() panicked", "no panic", p
	}
	if terr != nil {
		return
	}
	if !sameModuloMaps(md, dest[:len(exp)], exp) {
		return "marshalto-larger-buffer-differs", "MarshalTo() into a larger buffer (no Size() call before it) wrote bytes that differ from marshaling a fresh deep copy of the current contents", hx(exp), hx(dest[:len(exp)])
	}
	for _, c := range dest[len(exp):] {
		if c != 0xA5 {
			return "marshalto-larger-buffer-overrun", "MarshalTo() wrote beyond the encoding of the message", hx(exp), hx(dest)
		}
	}
	return
}

func (rn *runner) history(t *Target, name string, steps int) {
	md := t.desc(name)
	// (proto2 extensions of the type included: a message that starts out with several of them set)
	m, _ := t.build(name, randMessage(rn.r, md, genOpts{requiredAlways: true, exts: t.extTypes()}))
	var log []string
	var scratch []byte
	var codec csproto.GrpcCodec
	xs := t.extsOf(name)
	api := apiFor(t.Runtime)
	// every Marshal result handed out so far: it belongs to the caller and must not change when the message
	// (or any other) is marshaled again
	type heldOut struct {
		live, snap []byte
		how        string
	}
	var held []heldOut
	heldIntact := func(step int) bool {
		for _, h := range held {
			if !bytes.Equal(h.live, h.snap) {
				desc := map[string]interface{}{"type": t.where(name), "history": strings.Join(log, " ; ")}
				Violation("C09", "histories", "stale-state/earlier-result-overwritten", "the bytes returned by an earlier "+h.how+" changed after later calls: they are no longer the bytes of the contents at the time of that call", desc, hx(h.snap), hx(h.live))
				Count("histories", fmt.Sprint(desc), "overwritten", step, true)
				return false
			}
		}
		return true
	}
	expected := func() ([]byte, bool) {
		// marshal a fresh deep copy of the current contents
		cp := t.deepCopy(name, m)
		if cp == nil {
			return nil, false
		}
		b, err := cp.(FM).Marshal()
		return b, err == nil
	}
	// MarshalTo into a buffer that is LARGER than needed (a pooled / pre-sized scratch buffer), with no Size() call
	// of the caller in between: whatever sizes the code — or the runtime, for embedded messages it serves — remembers
	// from earlier calls are stale by now
	noSizeMarshalTo := func(step int) bool {
		log = append(log, "MarshalTo(larger buffer, no Size() first)")
		desc := map[string]interface{}{"type": t.where(name), "history": strings.Join(log, " ; ")}
		if sig, what, want, got := rn.marshalToNoSize(t, name, m); sig != "" {
			Violation("C09", "histories", "stale-state/"+sig, what, desc, want, got)
			Count("histories", fmt.Sprint(desc), "stale", step, true)
			return false
		}
		return true
	}
	for i := 0; i < steps; i++ {
		Journal(fmt.Sprintf("C09 history %s %s", t.where(name), strings.Join(log, " ; ")))
		op := rn.r.Intn(12)
		switch op {
		case 11:
			if !noSizeMarshalTo(i) {
				return
			}
		case 10:
			// MarshalTo into a buffer the caller keeps reusing: it still holds the previous output (or 0xA5)
			log = append(log, "MarshalTo(reused buffer)")
			want, ok := expected()
			desc := map[string]interface{}{"type": t.where(name), "history": strings.Join(log, " ; ")}
			var err error
			var dest []byte
			if p := safeCall(func() {
				sz := m.(FM).Size()
				for len(scratch) < sz {
					scratch = append(scratch, 0xA5)
				}
				dest = scratch[:sz]
				err = m.(FM).MarshalTo(dest)
			}); p != "" {
				Violation("C09", "histories", "stale-state/marshalto-panic", "Size()+MarshalTo() panicked after a history of mutations and Size/Marshal calls", desc, "no panic", p)
				Count("histories", fmt.Sprint(desc), "panic", i, true)
				return
			}
			if ok && err == nil && !sameModuloMaps(md, dest, want) {
				at, ww, wg := firstDiff(want, dest)
				desc["first difference at byte"] = at
				Violation("C09", "histories", "stale-state/marshalto-differs-from-fresh-copy", "MarshalTo() into a reused buffer left bytes that differ from marshaling a fresh deep copy of the current contents", desc, ww, wg)
				Count("histories", fmt.Sprint(desc), "stale", i, true)
				return
			}
		case 0, 1, 2:
			if len(xs) > 0 && rn.r.Chance(1, 2) {
				// proto2 extensions are contents too: set / replace / clear one through the owning runtime's API
				x := xs[rn.r.Intn(len(xs))]
				if rn.r.Chance(1, 4) {
					log = append(log, "clear-extension("+x.Name+")")
					safeCall(func() { api.clear(m, x.Desc) })
				} else if v := t.extValue(rn.r, x); v != nil {
					log = append(log, "set-extension("+x.Name+")")
					safeCall(func() { api.set(m, x.Desc, v) })
				}
				break
			}
			log = append(log, "mutate("+mutateStruct(rn.r, reflect.ValueOf(m))+")")
		case 3:
			if rn.r.Bool() {
				log = append(log, "csproto.Size")
				safeCall(func() { csproto.Size(m) })
				break
			}
			log = append(log, "Size")
			safeCall(func() { m.(FM).Size() })
		case 4:
			log = append(log, "runtime.Size+Marshal")
			safeCall(func() { t.runtimeSizeMarshal(m) })
		case 5:
			other, what := rn.historyPayload(t, md)
			route := []string{"Unmarshal", "csproto.Unmarshal", "GrpcCodec.Unmarshal"}[rn.r.Intn(3)]
			log = append(log, route+"("+what+")")
			unmarshalVia := func(dst interface{}, p []byte) (err error) {
				switch route {
				case "Unmarshal":
					return dst.(FM).Unmarshal(p)
				case "csproto.Unmarshal":
					return csproto.Unmarshal(p, dst)
				}
				return codec.Unmarshal(p, dst)
			}
			var uerr error
			if p := safeCall(func() { uerr = unmarshalVia(m, clonePayload(other)) }); p != "" {
				break // a panic of Unmarshal is C08's business
			}
			// the contents now are the payload's and nothing else: the same call on a NEW message must leave the same
			// contents (whatever the message held before — fields, extensions, unknown fields — is gone)
			fresh := t.Messages[name].New()
			var ferr error
			if p := safeCall(func() { ferr = unmarshalVia(fresh, clonePayload(other)) }); p != "" || (uerr == nil) != (ferr == nil) {
				break
			}
			left, lerr := t.readBack(name, m)
			clean, cerr := t.readBack(name, fresh)
			if lerr == nil && cerr == nil && !bytes.Equal(left, clean) {
				desc := map[string]interface{}{"type": t.where(name), "history": strings.Join(log, " ; "), "payload": trunc(hx(other), 300)}
				Violation("C09", "histories", "stale-state/unmarshal-keeps-earlier-contents", "after Unmarshal the message does not hold the payload's contents: the same call on a new message leaves different contents, i.e. data of the message's earlier life survives (or is lost) and every later Marshal emits it", desc, hx(clean), hx(left))
				Count("histories", fmt.Sprint(desc), "stale", i, true)
				return
			}
		case 6:
			if rn.r.Bool() {
				log = append(log, "csproto.Reset")
				safeCall(func() { csproto.Reset(m) })
				break
			}
			log = append(log, "Reset")
			safeCall(func() { m.(resetter).Reset() })
		}
		if op == 6 {
			// whichever way it was reset: the contents now are those of a new message (nothing of the earlier
			// life — fields, extensions, unknown fields — is left to be marshaled)
			left, lerr := t.readBack(name, m)
			empty, eerr := t.readBack(name, t.Messages[name].New())
			if lerr == nil && eerr == nil && !bytes.Equal(left, empty) {
				desc := map[string]interface{}{"type": t.where(name), "history": strings.Join(log, " ; ")}
				Violation("C09", "histories", "stale-state/reset-leaves-contents", "after Reset the message still holds data of its earlier contents, which every later Marshal emits", desc, hx(empty), hx(left))
				Count("histories", fmt.Sprint(desc), "stale", i, true)
				return
			}
		}
		switch op {
		case 7:
			if rn.r.Bool() {
				log = append(log, "csproto.Clone")
				var cp interface{}
				safeCall(func() { cp = csproto.Clone(m) })
				if _, ok := cp.(FM); ok && reflect.TypeOf(cp) == reflect.TypeOf(m) && !reflect.ValueOf(cp).IsNil() {
					m = cp
				}
				break
			}
			log = append(log, "Clone")
			if cp := t.runtimeClone(m); cp != nil {
				m = cp
			}
		default:
			// what the step is observed with. Not always a Marshal (which sizes the whole tree first): after a mutation, a
			// Size or a runtime call the next thing may just as well be a MarshalTo that nobody sized for, or nothing at
			// all, so that several changes and calls pile up before the next output
			if op <= 4 {
				if k := rn.r.Intn(8); k < 2 {
					if !noSizeMarshalTo(i) {
						return
					}
					continue
				} else if k == 2 {
					continue
				}
			}
			how := []string{"Marshal", "csproto.Marshal", "GrpcCodec.Marshal"}[rn.r.Intn(3)]
			log = append(log, how)
			want, ok := expected()
			var got []byte
			var err error
			desc := map[string]interface{}{"type": t.where(name), "history": strings.Join(log, " ; ")}
			if p := safeCall(func() {
				switch how {
				case "csproto.Marshal":
					got, err = csproto.Marshal(m)
				case "GrpcCodec.Marshal":
					got, err = codec.Marshal(m)
				default:
					got, err = m.(FM).Marshal()
				}
			}); p != "" {
				Violation("C09", "histories", "stale-state/marshal-panic", "Marshal() panicked after a history of mutations and Size/Marshal calls", desc, "no panic", p)
				Count("histories", fmt.Sprint(desc), "panic", i, true)
				return
			}
			if ok && err == nil && !sameModuloMaps(md, got, want) {
				at, ww, wg := firstDiff(want, got)
				desc["first difference at byte"] = at
				Violation("C09", "histories", "stale-state/marshal-differs-from-fresh-copy", "Marshal() returned bytes that differ from marshaling a fresh deep copy of the current contents", desc, ww, wg)
				Count("histories", fmt.Sprint(desc), "stale", i, true)
				return
			}
			if err == nil {
				if !heldIntact(i) {
					return
				}
				held = append(held, heldOut{live: got, snap: append([]byte{}, got...), how: how})
			}
			// nobody touched the message: asking again — sequentially, and from several goroutines at once —
			// returns the same bytes every time (the order of map entries excepted)
			if ok && err == nil && rn.r.Chance(1, 2) {
				if bad, p := rn.marshalAgain(t, md, m, got, rn.r.Chance(1, 3)); bad != nil || p != "" {
					log = append(log, "Marshal again (message untouched)")
					desc := map[string]interface{}{"type": t.where(name), "history": strings.Join(log, " ; ")}
					if p != "" {
						Violation("C09", "histories", "stale-state/marshal-panic", "a repeated Size()/Marshal() on the untouched message panicked", desc, "no panic", p)
					} else {
						at, wa, wb := firstDiff(got, bad)
						desc["first difference at byte"] = at
						Violation("C09", "histories", "nondeterministic/marshal-differs-between-calls", "two Marshal calls on a message that nobody modified in between returned different bytes: the output depends on something else than the contents", desc, wa, wb)
					}
					Count("histories", fmt.Sprint(desc), "nondeterministic", i, true)
					return
				}
			}
		}
	}
	if !heldIntact(steps) {
		return
	}
	Count("histories", t.where(name)+strings.Join(log, ";"), "ok", steps, true)
}

// firstDiff: offset of the first differing byte and a window of both byte strings starting there
func firstDiff(a, b []byte) (int, string, string) {
	i := 0
	for i < len(a) && i < len(b) && a[i] == b[i] {
		i++
	}
	win := func(x []byte) string {
		end := i + 48
		if end > len(x) {
			end = len(x)
		}
		return fmt.Sprintf("len=%d …[%d:] %s", len(x), i, hx(x[i:end]))
	}
	return i, win(a), win(b)
}

func clonePayload(p []byte) []byte {
	if p == nil {
		return nil
	}
	return append([]byte{}, p...)
}

// historyPayload: what a history step unmarshals into the message it has been using — another message of the
// type (with extensions, half of them with a field this schema does not define), or NOTHING: the nil slice and
// the empty non-nil slice are the encoding of a message with nothing set.
func (rn *runner) historyPayload(t *Target, md protoreflect.MessageDescriptor) ([]byte, string) {
	switch rn.r.Intn(8) {
	case 0:
		return nil, "nil"
	case 1:
		return []byte{}, "empty"
	}
	other := refBytes(randMessage(rn.r, md, genOpts{requiredAlways: true, exts: t.extTypes()}))
	what := "other"
	if rn.r.Bool() {
		// … written by a newer schema: carries a field this schema does not define
		other = append(other, emitRecs([]rec{t.unknownViaRuntime(rn.r, md)})...)
		what = "other+unknown field"
	}
	return other, what
}

// marshalAgain: further Size/Marshal calls on a message nobody modifies — through the generated methods and
// through csproto, three times in a row and (concurrent) from four goroutines at once. It returns the first
// result that differs from `first` (nil: none) and the first panic.
func (rn *runner) marshalAgain(t *Target, md protoreflect.MessageDescriptor, m interface{}, first []byte, concurrent bool) (bad []byte, panicked string) {
	one := func(k int) ([]byte, string) {
		var b []byte
		var err error
		p := safeCall(func() {
			switch k % 3 {
			case 0:
				b, err = m.(FM).Marshal()
			case 1:
				csproto.Size(m)
				b, err = csproto.Marshal(m)
			default:
				sz := m.(FM).Size()
				b = make([]byte, sz)
				err = m.(FM).MarshalTo(b)
			}
		})
		if p != "" {
			return nil, p
		}
		if err != nil || sameModuloMaps(md, b, first) {
			return nil, ""
		}
		if b == nil {
			b = []byte{}
		}
		return b, ""
	}
	if !concurrent {
		for k := 0; k < 3; k++ {
			if b, p := one(k); b != nil || p != "" {
				return b, p
			}
		}
		return nil, ""
	}
	const G = 4
	var wg sync.WaitGroup
	res := make([][]byte, G)
	pan := make([]string, G)
	for g := 0; g < G; g++ {
		wg.Add(1)
		go func(g int) {
			defer wg.Done()
			for k := 0; k < 3 && res[g] == nil && pan[g] == ""; k++ {
				res[g], pan[g] = one(g + k)
			}
		}(g)
	}
	wg.Wait()
	for g := 0; g < G; g++ {
		if res[g] != nil || pan[g] != "" {
			return res[g], pan[g]
		}
	}
	return nil, ""
}

// helperPointers: csproto.Bool / Int32 / … / String hand out the pointers that optional fields are assigned
// with. Two messages built through them must not share memory: writing through a field of one (`*a.F = x`, a
// legal mutation of a) must leave the bytes of the other unchanged, and a third message built afterwards with
// the same arguments must marshal like the second did.
func (rn *runner) helperPointers(t *Target, name string) {
	type slot struct {
		idx int
		mk  func() reflect.Value  // pointer from the csproto helper
		wr  func(p reflect.Value) // write another value through the pointer
	}
	probe := reflect.ValueOf(t.Messages[name].New()).Elem()
	var slots []slot
	for i := 0; i < probe.NumField(); i++ {
		sf := probe.Type().Field(i)
		if sf.PkgPath != "" || sf.Type.Kind() != reflect.Ptr || sf.Type.Elem().PkgPath() != "" {
			continue
		}
		var sl slot
		sl.idx = i
		switch sf.Type.Elem().Kind() {
		case reflect.Bool:
			sl.mk = func() reflect.Value { return reflect.ValueOf(csproto.Bool(true)) }
			sl.wr = func(p reflect.Value) { p.Elem().SetBool(false) }
		case reflect.Int32:
			sl.mk = func() reflect.Value { return reflect.ValueOf(csproto.Int32(7)) }
			sl.wr = func(p reflect.Value) { p.Elem().SetInt(-9) }
		case reflect.Int64:
			sl.mk = func() reflect.Value { return reflect.ValueOf(csproto.Int64(7)) }
			sl.wr = func(p reflect.Value) { p.Elem().SetInt(-9) }
		case reflect.Uint32:
			sl.mk = func() reflect.Value { return reflect.ValueOf(csproto.Uint32(7)) }
			sl.wr = func(p reflect.Value) { p.Elem().SetUint(300) }
		case reflect.Uint64:
			sl.mk = func() reflect.Value { return reflect.ValueOf(csproto.Uint64(7)) }
			sl.wr = func(p reflect.Value) { p.Elem().SetUint(300) }
		case reflect.Float32:
			sl.mk = func() reflect.Value { return reflect.ValueOf(csproto.Float32(1.5)) }
			sl.wr = func(p reflect.Value) { p.Elem().SetFloat(-2) }
		case reflect.Float64:
			sl.mk = func() reflect.Value { return reflect.ValueOf(csproto.Float64(1.5)) }
			sl.wr = func(p reflect.Value) { p.Elem().SetFloat(-2) }
		case reflect.String:
			sl.mk = func() reflect.Value { return reflect.ValueOf(csproto.String("s")) }
			sl.wr = func(p reflect.Value) { p.Elem().SetString("changed") }
		default:
			continue
		}
		slots = append(slots, sl)
	}
	if len(slots) == 0 {
		return
	}
	mk := func() interface{} {
		m := t.Messages[name].New()
		v := reflect.ValueOf(m).Elem()
		for _, sl := range slots {
			v.Field(sl.idx).Set(sl.mk())
		}
		return m
	}
	a, b := mk(), mk()
	var snap []byte
	var err error
	if p := safeCall(func() { snap, err = csproto.Marshal(b) }); p != "" || err != nil {
		return
	}
	desc := map[string]interface{}{"type": t.where(name), "history": "a, b := messages whose optional scalar fields are assigned with csproto.Bool(true), csproto.Int32(7), …; csproto.Marshal(b); *a.<every field> = another value; csproto.Marshal(b); c := built like b; csproto.Marshal(c)"}
	for _, sl := range slots {
		sl.wr(reflect.ValueOf(a).Elem().Field(sl.idx))
	}
	outcome := "ok"
	var now, fresh []byte
	safeCall(func() { now, _ = csproto.Marshal(b) })
	safeCall(func() { fresh, _ = csproto.Marshal(mk()) })
	switch {
	case !bytes.Equal(now, snap):
		outcome = "shared"
		Violation("C09", "helpers", "helpers/shared-pointer", "mutating message a through its own field pointers changed what Marshal returns for message b, which nobody touched (the pointer helpers hand out shared memory)", desc, hx(snap), hx(now))
	case !bytes.Equal(fresh, snap):
		outcome = "poisoned"
		Violation("C09", "helpers", "helpers/poisoned", "a message built with the same helper calls as before marshals differently after an unrelated message was mutated", desc, hx(snap), hx(fresh))
	}
	Count("helpers", t.where(name), outcome, len(slots), true)
}

func (t *Target) deepCopy(name string, m interface{}) interface{} {
	if t.Runtime != "gogo" {
		// structural copy that neither touches the original (a runtime Marshal would refresh its size
		// caches) nor loses values (proto.Clone drops a proto3 -0.0); caches start out empty in the copy
		cp := reflect.New(reflect.TypeOf(m).Elem())
		rawDeepCopy(cp.Elem(), reflect.ValueOf(m).Elem())
		return cp.Interface()
	}
	b, err := t.readBack(name, m)
	if err != nil {
		return nil
	}
	cp := t.Messages[name].New()
	if t.populate(cp, b) != nil {
		return nil
	}
	return cp
}

// implicitBytes: a singular proto3 `bytes` field without presence (no oneof / optional marker in its tag).
func implicitBytes(sf reflect.StructField) bool {
	if sf.Type.Kind() != reflect.Slice || sf.Type.Elem().Kind() != reflect.Uint8 {
		return false
	}
	tag := "," + sf.Tag.Get("protobuf") + ","
	return strings.Contains(tag, ",bytes,") && strings.Contains(tag, ",opt,") && strings.Contains(tag, ",proto3,") && !strings.Contains(tag, ",oneof,")
}

// rawDeepCopy copies src into dst (same type), including unexported fields, except the runtime's caches
// and bookkeeping (state, sizeCache), which stay zero.
func rawDeepCopy(dst, src reflect.Value) {
	if !src.CanInterface() { // unexported: re-derive an accessible value over the same memory
		if !src.CanAddr() {
			return
		}
		src = reflect.NewAt(src.Type(), unsafe.Pointer(src.UnsafeAddr())).Elem()
	}
	if !dst.CanSet() {
		dst = reflect.NewAt(dst.Type(), unsafe.Pointer(dst.UnsafeAddr())).Elem()
	}
	switch src.Kind() {
	case reflect.Ptr:
		if src.IsNil() {
			return
		}
		if src.Elem().Kind() != reflect.Struct {
			n := reflect.New(src.Type().Elem())
			n.Elem().Set(src.Elem())
			dst.Set(n)
			return
		}
		n := reflect.New(src.Type().Elem())
		rawDeepCopy(n.Elem(), src.Elem())
		dst.Set(n)
	case reflect.Struct:
		for i := 0; i < src.NumField(); i++ {
			switch src.Type().Field(i).Name {
			case "state", "sizeCache", "XXX_sizecache", "XXX_NoUnkeyedLiteral":
				continue
			}
			if implicitBytes(src.Type().Field(i)) && src.Field(i).Len() == 0 {
				continue // proto3 bytes without presence: empty IS unset, a fresh copy holds nil
			}
			rawDeepCopy(dst.Field(i), src.Field(i))
		}
	case reflect.Slice:
		if src.IsNil() {
			return
		}
		n := reflect.MakeSlice(src.Type(), src.Len(), src.Len())
		for i := 0; i < src.Len(); i++ {
			rawDeepCopy(n.Index(i), src.Index(i))
		}
		dst.Set(n)
	case reflect.Map:
		if src.IsNil() {
			return
		}
		n := reflect.MakeMapWithSize(src.Type(), src.Len())
		it := src.MapRange()
		for it.Next() {
			v := reflect.New(src.Type().Elem()).Elem()
			if k := it.Value().Kind(); k == reflect.Ptr || k == reflect.Slice {
				rawDeepCopy(v, it.Value())
			} else {
				v.Set(it.Value()) // scalars and the runtime's own extension records
			}
			n.SetMapIndex(it.Key(), v)
		}
		dst.Set(n)
	case reflect.Interface:
		if src.IsNil() {
			return
		}
		inner := src.Elem()
		if inner.Kind() == reflect.Ptr && inner.Elem().Kind() == reflect.Struct { // oneof wrapper
			n := reflect.New(inner.Type().Elem())
			rawDeepCopy(n.Elem(), inner.Elem())
			dst.Set(n)
			return
		}
		dst.Set(inner)
	default:
		dst.Set(src)
	}
}

func (t *Target) runtimeSizeMarshal(m interface{}) {
	if t.Runtime == "gogo" {
		if x, ok := m.(interface{ XXX_Size() int }); ok {
			x.XXX_Size()
		}
		m.(xxxMarshaler).XXX_Marshal(nil, false)
		return
	}
	proto.Size(m.(proto.Message))
	proto.MarshalOptions{AllowPartial: true}.Marshal(m.(proto.Message))
}

func (t *Target) runtimeClone(m interface{}) interface{} {
	if t.Runtime == "gogo" {
		return nil
	}
	return proto.Clone(m.(proto.Message))
}

func (rn *runner) runHistories(ts []*Target, n int) {
	for _, t := range ts {
		for _, name := range sortedNames(t.Messages) {
			for i := 0; i < n; i++ {
				rn.history(t, name, 4+rn.r.Intn(9))
			}
			rn.helperPointers(t, name)
			if t.Runtime == "gogo" {
				for i := 0; i < n; i++ {
					rn.plainHistory(t, name)
				}
			}
		}
	}
}

// plainHistory: the same clause through csproto.Marshal on a message WITHOUT generated methods (the gogo
// twin type, served by csproto's XXX_Size/XXX_Marshal arm): never sized before, then after a mutation of
// a nested message — each result must decode to the current contents.
func (rn *runner) plainHistory(t *Target, name string) {
	md := t.desc(name)
	ref := randMessage(rn.r, md, genOpts{requiredAlways: true})
	tw := t.Messages[name].Twin()
	if err := tw.(xxxUnmarshaler).XXX_Unmarshal(refBytes(ref)); err != nil && !strings.Contains(err.Error(), "required") {
		return
	}
	var log []string
	check := func() bool {
		log = append(log, "csproto.Marshal")
		desc := map[string]interface{}{"type": t.where(name) + " (plain twin)", "history": strings.Join(log, " ; ")}
		var got []byte
		var err error
		if p := safeCall(func() { got, err = csproto.Marshal(tw) }); p != "" {
			Violation("C09", "histories", "stale-state/csproto-marshal-plain-panic", "csproto.Marshal panicked on a message served by the runtime arm", desc, "no panic", p)
			return false
		}
		if err != nil {
			return true
		}
		// a fresh deep copy through the runtime: size pass, then marshal
		cp := t.Messages[name].Twin()
		isoCopy(reflect.ValueOf(cp).Elem(), reflect.ValueOf(tw).Elem(), twinTypes(cp))
		cp.(xxxMarshaler).XXX_Size()
		want, werr := cp.(xxxMarshaler).XXX_Marshal(nil, true)
		if werr != nil {
			return true
		}
		if !sameModuloMaps(md, got, want) {
			Violation("C09", "histories", "stale-state/csproto-marshal-plain-differs", "csproto.Marshal of a runtime-served message differs from marshaling a fresh copy of its contents", desc, hx(want), hx(got))
			return false
		}
		Count("histories", fmt.Sprint(desc), "ok-plain", len(got), len(got) > 0)
		return true
	}
	if !check() {
		return
	}
	for i := 0; i < 3; i++ {
		log = append(log, "mutate("+mutateStruct(rn.r, reflect.ValueOf(tw))+")")
		if !check() {
			return
		}
	}
	// Unmarshal into the used message through csproto (the XXX_Unmarshal arm): afterwards it holds the payload's
	// contents — what the same call leaves in a new message — and nothing of its earlier life
	payload, what := rn.historyPayload(t, md)
	route := "csproto.Unmarshal"
	if rn.r.Bool() {
		route = "GrpcCodec.Unmarshal"
	}
	log = append(log, route+"("+what+")")
	call := func(dst interface{}) error {
		if route == "csproto.Unmarshal" {
			return csproto.Unmarshal(clonePayload(payload), dst)
		}
		return csproto.GrpcCodec{}.Unmarshal(clonePayload(payload), dst)
	}
	fresh := t.Messages[name].Twin()
	var e1, e2 error
	if p := safeCall(func() { e1 = call(tw); e2 = call(fresh) }); p != "" || (e1 == nil) != (e2 == nil) {
		return
	}
	render := func(x interface{}) ([]byte, error) {
		x.(xxxMarshaler).XXX_Size()
		b, err := x.(xxxMarshaler).XXX_Marshal(nil, true)
		if err != nil && strings.Contains(err.Error(), "required field") {
			err = nil
		}
		return b, err
	}
	var left, clean []byte
	var lerr, cerr error
	if p := safeCall(func() { left, lerr = render(tw); clean, cerr = render(fresh) }); p != "" || lerr != nil || cerr != nil {
		return
	}
	if !bytes.Equal(left, clean) {
		desc := map[string]interface{}{"type": t.where(name) + " (plain twin)", "history": strings.Join(log, " ; "), "payload": trunc(hx(payload), 300)}
		Violation("C09", "histories", "stale-state/unmarshal-keeps-earlier-contents", "after Unmarshal the message does not hold the payload's contents: the same call on a new message leaves different contents", desc, hx(clean), hx(left))
		return
	}
	check()
}

// Main is called by the generated program: gencheck <property> <tier> <seed>.
func Main(targets []*Target) {
	defer stdout.w.Flush()
	if len(os.Args) < 4 {
		fmt.Fprintln(os.Stderr, "usage: run <property> <tier> <seed>")
		os.Exit(2)
	}
	prop, tier := os.Args[1], os.Args[2]
	seed := uint64(atoiDefault(os.Args[3], 1))
	if p := os.Getenv("VERIF_JOURNAL"); p != "" {
		journalFile, _ = os.OpenFile(p, os.O_CREATE|os.O_WRONLY, 0o644)
	}
	for _, t := range targets {
		if err := t.init(); err != nil {
			Note("cannot load descriptors of " + t.Schema + "/" + t.Variant + ": " + err.Error())
			return
		}
	}
	if prop == "C12" {
		for _, t := range handTargets() {
			if err := t.init(); err != nil {
				Note("hand-made target left out, cannot load descriptors of " + t.Schema + "/" + t.Variant + ": " + err.Error())
				continue
			}
			targets = append(targets, t)
		}
	}
	rn := &runner{prop: prop, tier: tier, r: prng.New(seed), targets: targets}
	n := 12
	if tier == "thorough" {
		n = 400
	}
	firstUseRounds := 600
	if tier == "thorough" {
		firstUseRounds = 20000
	}
	switch prop {
	case "C04":
		// (first: round 0 of every type is its first use in this process; a generator of its own, so that the
		// sequential stream below is the same as without it)
		(&runner{prop: prop, tier: tier, r: prng.New(seed ^ 0x66697273), targets: targets}).firstUse(targets, firstUseRounds)
		rn.runMarshal(targets, n)
	case "C05":
		rn.runMarshal(targets, n)
	case "C06", "C07", "C10":
		rn.runUnmarshal(targets, n)
	case "C08":
		rn.runUnmarshal(targets, 2*n)
	case "C09":
		(&runner{prop: prop, tier: tier, r: prng.New(seed ^ 0x66697273), targets: targets}).firstUse(targets, firstUseRounds/3)
		rn.runHistories(targets, n)
		rn.runtimeOnlyHistory(4 * n)
	case "C17":
		rn.runMarshal(targets, n)
		rn.runUnmarshal(targets, n)
	case "C12":
		rn.runExtensions(targets, 4*n)
	}
}
