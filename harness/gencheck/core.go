// Package gencheck is linked into a generated main program together with the packages produced by
// protoc-gen-go / protoc-gen-gogo and /repo's protoc-gen-fastmarshal for the schema corpus. It
// evaluates the generated-code properties (C04–C10, C17) on those real types and reports, as JSON
// lines on stdout, oracle violations, statistics and request lines for the Lean model.
package gencheck

import (
	"bufio"
	"encoding/hex"
	"encoding/json"
	"fmt"
	"math"
	"os"
	"reflect"
	"sort"
	"strconv"
	"strings"

	"google.golang.org/protobuf/proto"
	"google.golang.org/protobuf/reflect/protodesc"
	"google.golang.org/protobuf/reflect/protoreflect"
	"google.golang.org/protobuf/reflect/protoregistry"
	"google.golang.org/protobuf/types/descriptorpb"
	"google.golang.org/protobuf/types/dynamicpb"

	"csverif/internal/prng"
)

// FM is the method set the generator under test adds to every message.
type FM interface {
	Size() int
	Marshal() ([]byte, error)
	MarshalTo(dest []byte) error
	Unmarshal(p []byte) error
}

type Factory struct {
	New  func() interface{}
	Twin func() interface{} // gogo only: the same struct generated without fast-marshal methods
}

type Target struct {
	Schema   string
	Variant  string
	Runtime  string // gogo | v1 | v2
	Unsafe   bool
	FDSet    []byte // serialized FileDescriptorSet: dependencies first, the schema's file last
	Messages map[string]Factory
	Exts     []ExtVar

	files *protoregistry.Files
	paths []string // the files of FDSet, in order
	file  protoreflect.FileDescriptor
	exts  *protoregistry.Types
	// the generated extension descriptors by the Go type of the extended message (see extsByGoType)
	extsOfType map[reflect.Type][]ExtVar
}

// ExtVar: a generated proto2 extension descriptor variable (E_…)
type ExtVar struct {
	Name     string // proto field name
	Num      int32
	Kind     string
	Extendee string
	Desc     interface{}
}

func (t *Target) init() error {
	var set descriptorpb.FileDescriptorSet
	if err := proto.Unmarshal(t.FDSet, &set); err != nil {
		return err
	}
	files, err := protodesc.NewFiles(&set)
	if err != nil {
		return err
	}
	t.files = files
	t.paths = nil
	for _, f := range set.File {
		t.paths = append(t.paths, f.GetName())
	}
	last := set.File[len(set.File)-1]
	fd, err := files.FindFileByPath(last.GetName())
	if err != nil {
		return err
	}
	t.file = fd
	// the extension numbers the generated code of this target knows, per extended message type
	t.extTypes().RangeExtensions(func(xt protoreflect.ExtensionType) bool {
		xd := xt.TypeDescriptor()
		full := xd.ContainingMessage().FullName()
		if knownExtNums[full] == nil {
			knownExtNums[full] = map[protoreflect.FieldNumber]bool{}
		}
		knownExtNums[full][xd.Number()] = true
		return true
	})
	return nil
}

// knownExtNums: message full name -> numbers of the extensions declared for it in the schema (the ones the
// generated code decodes; any other number inside an extension range is a field the schema does not define).
var knownExtNums = map[protoreflect.FullName]map[protoreflect.FieldNumber]bool{}

func (t *Target) desc(name string) protoreflect.MessageDescriptor {
	d, err := t.files.FindDescriptorByName(protoreflect.FullName(string(t.file.Package()) + "." + name))
	if err != nil {
		panic("gencheck: no descriptor for " + name)
	}
	return d.(protoreflect.MessageDescriptor)
}

// resolver for extensions when decoding with dynamicpb
func (t *Target) extTypes() *protoregistry.Types {
	if t.exts != nil {
		return t.exts
	}
	types := &protoregistry.Types{}
	t.exts = types
	var walkMsgs func(ms protoreflect.MessageDescriptors)
	addExts := func(xs protoreflect.ExtensionDescriptors) {
		for i := 0; i < xs.Len(); i++ {
			types.RegisterExtension(dynamicpb.NewExtensionType(xs.Get(i)))
		}
	}
	walkMsgs = func(ms protoreflect.MessageDescriptors) {
		for i := 0; i < ms.Len(); i++ {
			addExts(ms.Get(i).Extensions())
			walkMsgs(ms.Get(i).Messages())
		}
	}
	addExts(t.file.Extensions())
	walkMsgs(t.file.Messages())
	// … and those declared in the imported files of the set (a package split over several .proto files whose
	// generated code knows the extensions of its own file)
	for _, path := range t.paths {
		if fd, err := t.files.FindFileByPath(path); err == nil && fd.Path() != t.file.Path() {
			addExts(fd.Extensions())
			walkMsgs(fd.Messages())
		}
	}
	return types
}

// ---------- output ----------

type out struct {
	w *bufio.Writer
}

var stdout = &out{w: bufio.NewWriterSize(os.Stdout, 1<<16)}

func (o *out) emit(v map[string]interface{}) {
	b, _ := json.Marshal(v)
	o.w.Write(b)
	o.w.WriteByte('\n')
}

func Violation(prop, stream, sig, what string, input interface{}, expected, got string) {
	stdout.emit(map[string]interface{}{"kind": "violation", "property": prop, "stream": stream, "signature": sig, "what": what,
		"input": input, "expected": trunc(expected, 400), "got": trunc(got, 400)})
}

func Count(stream, key, outcome string, size int, nontrivial bool) {
	stdout.emit(map[string]interface{}{"kind": "count", "stream": stream, "key": key, "outcome": outcome, "size": size, "nontrivial": nontrivial})
}

func Model(stream, req, impl string) {
	stdout.emit(map[string]interface{}{"kind": "model", "stream": stream, "req": req, "impl": impl})
}

func Sample(v interface{}) { stdout.emit(map[string]interface{}{"kind": "sample", "sample": v}) }
func Note(s string)        { stdout.emit(map[string]interface{}{"kind": "note", "note": s}) }
func Extra(k string, n int) {
	stdout.emit(map[string]interface{}{"kind": "extra", "key": k, "n": n})
}

var journalFile *os.File

func Journal(desc string) {
	if journalFile != nil {
		journalFile.WriteAt([]byte(fmt.Sprintf("%-4096s", trunc(desc, 4000))), 0)
	}
}

func trunc(s string, n int) string {
	if len(s) > n {
		return s[:n] + "…"
	}
	return s
}

func hx(b []byte) string {
	if len(b) == 0 {
		return "-"
	}
	return hex.EncodeToString(b)
}

// ---------- moving values between the reference (dynamicpb) and the generated types ----------

type xxxUnmarshaler interface{ XXX_Unmarshal([]byte) error }
type xxxMarshaler interface {
	XXX_Size() int
	XXX_Marshal(b []byte, deterministic bool) ([]byte, error)
}

// populate fills the generated message m from wire bytes using the *runtime's own* decoder, never the
// generated Unmarshal.
func (t *Target) populate(m interface{}, b []byte) error {
	if t.Runtime == "gogo" {
		err := m.(xxxUnmarshaler).XXX_Unmarshal(b)
		if err != nil && strings.Contains(err.Error(), "required field") {
			return nil
		}
		return err
	}
	return proto.UnmarshalOptions{AllowPartial: true, Merge: true, Resolver: t.genResolver()}.Unmarshal(b, m.(proto.Message))
}

// genResolver resolves extensions to the generated extension types of a v1/v2 target (global registry).
func (t *Target) genResolver() interface {
	protoregistry.ExtensionTypeResolver
	protoregistry.MessageTypeResolver
} {
	return protoregistry.GlobalTypes
}

// readBack renders the generated message m through the runtime's own encoder (never the generated
// Marshal): for gogo via the twin type without fast-marshal methods.
func (t *Target) readBack(name string, m interface{}) (b []byte, err error) {
	defer func() {
		if r := recover(); r != nil {
			err = fmt.Errorf("readBack panic: %v", r)
		}
	}()
	if t.Runtime == "gogo" {
		tw := t.Messages[name].Twin()
		isoCopy(reflect.ValueOf(tw).Elem(), reflect.ValueOf(m).Elem(), twinTypes(tw))
		// the table-driven marshaler reads the nested sizes its size pass cached: XXX_Size must run first
		tw.(xxxMarshaler).XXX_Size()
		b, err := tw.(xxxMarshaler).XXX_Marshal(nil, true)
		if err != nil && strings.Contains(err.Error(), "required field") {
			return b, nil
		}
		return b, err
	}
	return proto.MarshalOptions{Deterministic: true, AllowPartial: true}.Marshal(m.(proto.Message))
}

func (t *Target) toDyn(name string, b []byte) (*dynamicpb.Message, error) {
	d := dynamicpb.NewMessage(t.desc(name))
	err := proto.UnmarshalOptions{AllowPartial: true, Resolver: t.extTypes()}.Unmarshal(b, d)
	return d, err
}

// twinTypes maps the names of the oneof wrapper types of the twin package to their reflect types.
func twinTypes(tw interface{}) map[string]reflect.Type {
	res := map[string]reflect.Type{}
	var walk func(t reflect.Type, seen map[reflect.Type]bool)
	walk = func(t reflect.Type, seen map[reflect.Type]bool) {
		for t.Kind() == reflect.Ptr || t.Kind() == reflect.Slice {
			t = t.Elem()
		}
		if t.Kind() == reflect.Map {
			walk(t.Elem(), seen)
			return
		}
		if t.Kind() != reflect.Struct || seen[t] {
			return
		}
		seen[t] = true
		if m, ok := reflect.PtrTo(t).MethodByName("XXX_OneofWrappers"); ok {
			outs := m.Func.Call([]reflect.Value{reflect.New(t)})
			ws := outs[0].Interface().([]interface{})
			for _, w := range ws {
				wt := reflect.TypeOf(w).Elem()
				res[wt.Name()] = wt
				walk(wt, seen)
			}
		}
		for i := 0; i < t.NumField(); i++ {
			walk(t.Field(i).Type, seen)
		}
	}
	walk(reflect.TypeOf(tw), map[reflect.Type]bool{})
	return res
}

// isoCopy deep-copies src into dst where both are structurally identical generated structs from two
// packages (same field order and kinds).
func isoCopy(dst, src reflect.Value, wrappers map[string]reflect.Type) {
	switch src.Kind() {
	case reflect.Ptr:
		if src.IsNil() {
			return
		}
		dst.Set(reflect.New(dst.Type().Elem()))
		isoCopy(dst.Elem(), src.Elem(), wrappers)
	case reflect.Struct:
		if src.Type() == dst.Type() {
			// a runtime-owned struct shared by both packages (gogo's XXX_InternalExtensions): same value
			dst.Set(src)
			return
		}
		for i := 0; i < src.NumField(); i++ {
			if src.Type().Field(i).PkgPath != "" { // unexported
				continue
			}
			if !dst.Field(i).CanSet() {
				continue
			}
			isoCopy(dst.Field(i), src.Field(i), wrappers)
		}
	case reflect.Slice:
		if src.IsNil() {
			return
		}
		if src.Type().Elem().Kind() == reflect.Uint8 {
			dst.Set(reflect.ValueOf(append([]byte{}, src.Bytes()...)))
			return
		}
		n := reflect.MakeSlice(dst.Type(), src.Len(), src.Len())
		for i := 0; i < src.Len(); i++ {
			isoCopy(n.Index(i), src.Index(i), wrappers)
		}
		dst.Set(n)
	case reflect.Map:
		if src.IsNil() {
			return
		}
		n := reflect.MakeMapWithSize(dst.Type(), src.Len())
		it := src.MapRange()
		for it.Next() {
			v := reflect.New(dst.Type().Elem()).Elem()
			isoCopy(v, it.Value(), wrappers)
			k := reflect.New(dst.Type().Key()).Elem()
			isoCopy(k, it.Key(), wrappers)
			n.SetMapIndex(k, v)
		}
		dst.Set(n)
	case reflect.Interface: // oneof wrapper
		if src.IsNil() {
			return
		}
		sw := src.Elem() // *Wrapper
		wt, ok := wrappers[sw.Type().Elem().Name()]
		if !ok {
			panic("gencheck: no twin oneof wrapper for " + sw.Type().Elem().Name())
		}
		nw := reflect.New(wt)
		isoCopy(nw.Elem(), sw.Elem(), wrappers)
		dst.Set(nw)
	default:
		dst.Set(src.Convert(dst.Type()))
	}
}

// ---------- random reference messages ----------

type genOpts struct {
	requiredAlways bool
	depth          int
	exts           *protoregistry.Types // extension types that random messages may set (nil: none)
}

func interestingU64(r *prng.Rng) uint64 { return r.U64Interesting() }

// extremeScalars: the values of a numeric kind with the longest and the shortest encodings
func extremeScalars(fd protoreflect.FieldDescriptor) []protoreflect.Value {
	switch fd.Kind() {
	case protoreflect.BoolKind:
		return []protoreflect.Value{protoreflect.ValueOfBool(true), protoreflect.ValueOfBool(false)}
	case protoreflect.EnumKind:
		vs := fd.Enum().Values()
		out := []protoreflect.Value{protoreflect.ValueOfEnum(-1), protoreflect.ValueOfEnum(math.MinInt32), protoreflect.ValueOfEnum(math.MaxInt32)}
		for i := 0; i < vs.Len(); i++ {
			out = append(out, protoreflect.ValueOfEnum(vs.Get(i).Number()))
		}
		return out
	case protoreflect.Int32Kind, protoreflect.Sint32Kind, protoreflect.Sfixed32Kind:
		return []protoreflect.Value{protoreflect.ValueOfInt32(-1), protoreflect.ValueOfInt32(math.MinInt32), protoreflect.ValueOfInt32(math.MaxInt32), protoreflect.ValueOfInt32(0), protoreflect.ValueOfInt32(-64), protoreflect.ValueOfInt32(1 << 28)}
	case protoreflect.Int64Kind, protoreflect.Sint64Kind, protoreflect.Sfixed64Kind:
		return []protoreflect.Value{protoreflect.ValueOfInt64(-1), protoreflect.ValueOfInt64(math.MinInt64), protoreflect.ValueOfInt64(math.MaxInt64), protoreflect.ValueOfInt64(0), protoreflect.ValueOfInt64(1 << 56), protoreflect.ValueOfInt64(-(1 << 62))}
	case protoreflect.Uint32Kind, protoreflect.Fixed32Kind:
		return []protoreflect.Value{protoreflect.ValueOfUint32(math.MaxUint32), protoreflect.ValueOfUint32(0), protoreflect.ValueOfUint32(1 << 28), protoreflect.ValueOfUint32(1<<31 + 1)}
	case protoreflect.Uint64Kind, protoreflect.Fixed64Kind:
		return []protoreflect.Value{protoreflect.ValueOfUint64(math.MaxUint64), protoreflect.ValueOfUint64(0), protoreflect.ValueOfUint64(1 << 63), protoreflect.ValueOfUint64(1 << 56)}
	case protoreflect.FloatKind:
		return []protoreflect.Value{protoreflect.ValueOfFloat32(float32(math.Inf(-1))), protoreflect.ValueOfFloat32(0), protoreflect.ValueOfFloat32(-1.5)}
	case protoreflect.DoubleKind:
		return []protoreflect.Value{protoreflect.ValueOfFloat64(math.Inf(-1)), protoreflect.ValueOfFloat64(0), protoreflect.ValueOfFloat64(-1.5)}
	}
	return []protoreflect.Value{fd.Default()}
}

func randScalar(r *prng.Rng, fd protoreflect.FieldDescriptor) protoreflect.Value {
	u := interestingU64(r)
	if r.Chance(1, 6) {
		u = 0
	}
	switch fd.Kind() {
	case protoreflect.BoolKind:
		return protoreflect.ValueOfBool(u&1 == 1)
	case protoreflect.Int32Kind, protoreflect.Sint32Kind, protoreflect.Sfixed32Kind:
		return protoreflect.ValueOfInt32(int32(u))
	case protoreflect.Int64Kind, protoreflect.Sint64Kind, protoreflect.Sfixed64Kind:
		return protoreflect.ValueOfInt64(int64(u))
	case protoreflect.Uint32Kind, protoreflect.Fixed32Kind:
		return protoreflect.ValueOfUint32(uint32(u))
	case protoreflect.Uint64Kind, protoreflect.Fixed64Kind:
		return protoreflect.ValueOfUint64(u)
	case protoreflect.FloatKind:
		return protoreflect.ValueOfFloat32(floatFrom32(r, uint32(u)))
	case protoreflect.DoubleKind:
		return protoreflect.ValueOfFloat64(floatFrom64(r, u))
	case protoreflect.StringKind:
		n := blobLen(r)
		b := make([]byte, n)
		for i := range b {
			b[i] = byte(32 + r.Intn(95))
		}
		if n > 0 && n < 1000 && r.Chance(1, 4) {
			// multi-byte UTF-8 (2-, 3- and 4-byte sequences) spliced in at a random position
			ins := []string{"é", "ß", "日本", "\u2028", "😀", "\ufffd"}[r.Intn(6)]
			at := r.Intn(n + 1)
			b = append(b[:at:at], append([]byte(ins), b[at:]...)...)
		}
		if n > 0 && n < 1000 && fd.ParentFile().Syntax() == protoreflect.Proto2 && r.Chance(1, 5) {
			// proto2 string fields are not required to hold valid UTF-8 and no runtime checks them: stray
			// continuation bytes, a truncated sequence, a run of invalid bytes
			ins := [][]byte{{0xff}, {0x80}, {0xc3}, {0xe2, 0x82}, {0xff, 0xfe, 0xfd, 0xfc, 0xfb}, {0xc0, 0xaf}}[r.Intn(6)]
			at := r.Intn(n + 1)
			b = append(b[:at:at], append(append([]byte{}, ins...), b[at:]...)...)
		}
		return protoreflect.ValueOfString(string(b))
	case protoreflect.BytesKind:
		return protoreflect.ValueOfBytes(r.Bytes(blobLen(r)))
	case protoreflect.EnumKind:
		vs := fd.Enum().Values()
		return protoreflect.ValueOfEnum(vs.Get(r.Intn(vs.Len())).Number())
	}
	panic("gencheck: scalar kind " + fd.Kind().String())
}

// bigOK rations the very large values (a list / blob beyond 16 KiB): at most one in 60 candidate draws.
var bigDraws, lastBig = 0, -1000

func bigOK() bool {
	bigDraws++
	if bigDraws-lastBig < 60 {
		return false
	}
	lastBig = bigDraws
	return true
}

// blobLen: string / bytes lengths around the one-byte length limit, rarely beyond the two-byte one.
func blobLen(r *prng.Rng) int {
	switch {
	case r.Chance(1, 60) && bigOK():
		return 16383 + r.Intn(3)
	case r.Chance(1, 6):
		return 126 + r.Intn(4)
	}
	return []int{0, 1, 3, 12, 130}[r.Intn(5)]
}

func randMessage(r *prng.Rng, md protoreflect.MessageDescriptor, o genOpts) *dynamicpb.Message {
	m := dynamicpb.NewMessage(md)
	fields := md.Fields()
	// at most one member per real oneof
	chosen := map[string]protoreflect.FieldDescriptor{}
	for i := 0; i < md.Oneofs().Len(); i++ {
		oo := md.Oneofs().Get(i)
		if oo.IsSynthetic() {
			continue
		}
		if r.Chance(3, 4) {
			chosen[string(oo.Name())] = oo.Fields().Get(r.Intn(oo.Fields().Len()))
		}
	}
	for i := 0; i < fields.Len(); i++ {
		fd := fields.Get(i)
		if oo := fd.ContainingOneof(); oo != nil && !oo.IsSynthetic() {
			if chosen[string(oo.Name())] != fd {
				continue
			}
		} else if fd.Cardinality() == protoreflect.Required {
			if !o.requiredAlways && r.Chance(1, 3) {
				continue
			}
		} else if !r.Chance(2, 3) {
			continue
		}
		switch {
		case fd.IsMap():
			mp := m.Mutable(fd).Map()
			for n := r.Intn(4); n > 0; n-- {
				k := randScalar(r, fd.MapKey()).MapKey()
				if fd.MapValue().Kind() == protoreflect.MessageKind {
					mp.Set(k, protoreflect.ValueOfMessage(subMessage(r, fd.MapValue().Message(), o)))
				} else {
					mp.Set(k, randScalar(r, fd.MapValue()))
				}
			}
		case fd.IsList():
			l := m.Mutable(fd).List()
			n := []int{0, 1, 2, 3, 5}[r.Intn(5)]
			if fd.Kind() != protoreflect.MessageKind && r.Chance(1, 6) {
				// scalar lists whose payload crosses the 1-byte (and, rarely, the 2-byte) length limit
				n = []int{13, 16, 17, 31, 32, 33, 64, 127, 128, 130, 300}[r.Intn(11)]
				if r.Chance(1, 12) && bigOK() {
					n = 2100 // payload beyond the two-byte length limit (the list-based model is slow on these: rationed)
				}
			}
			if fd.Kind() != protoreflect.MessageKind && fd.Kind() != protoreflect.StringKind && fd.Kind() != protoreflect.BytesKind && r.Chance(1, 5) {
				// a list of ONE extreme value repeated (all elements at their widest / narrowest encoding), at every length
				// from 1 to 40 and around 127/128 payload bytes: length prefixes computed from an element COUNT or from an
				// assumed per-element width are wrong exactly here (e.g. 13 x int32(-1) = 130 payload bytes)
				ext := extremeScalars(fd)
				v := ext[r.Intn(len(ext))]
				n = 1 + r.Intn(40)
				if r.Chance(1, 4) {
					n = []int{12, 13, 14, 15, 16, 18, 19, 25, 26, 31, 32, 42, 43, 63, 64, 65, 127, 128, 129}[r.Intn(19)]
				}
				for ; n > 0; n-- {
					l.Append(v)
				}
				break
			}
			for ; n > 0; n-- {
				if fd.Kind() == protoreflect.MessageKind {
					l.Append(protoreflect.ValueOfMessage(subMessage(r, fd.Message(), o)))
				} else {
					l.Append(randScalar(r, fd))
				}
			}
		case fd.Kind() == protoreflect.MessageKind:
			m.Set(fd, protoreflect.ValueOfMessage(subMessage(r, fd.Message(), o)))
		default:
			m.Set(fd, randScalar(r, fd))
		}
	}
	// proto2 extensions of this message type (scalar, enum, string/bytes, message)
	if o.exts != nil && md.ExtensionRanges().Len() > 0 {
		// (the registry hands them out in Go-map order: sorted by number, so that a seed replays the same values)
		var xts []protoreflect.ExtensionType
		o.exts.RangeExtensionsByMessage(md.FullName(), func(xt protoreflect.ExtensionType) bool {
			xts = append(xts, xt)
			return true
		})
		sort.Slice(xts, func(i, j int) bool { return xts[i].TypeDescriptor().Number() < xts[j].TypeDescriptor().Number() })
		for _, xt := range xts {
			xd := xt.TypeDescriptor()
			if !r.Chance(1, 2) {
				continue
			}
			if xd.IsList() {
				// a repeated extension: the runtimes hold a slice (an empty one is "not set")
				l := m.NewField(xd).List()
				n := []int{0, 1, 2, 3, 5}[r.Intn(5)]
				if xd.Message() == nil && r.Chance(1, 8) {
					n = []int{16, 33, 128, 130}[r.Intn(4)]
				}
				for ; n > 0; n-- {
					if xd.Message() != nil {
						l.Append(protoreflect.ValueOfMessage(subMessage(r, xd.Message(), o)))
					} else {
						l.Append(randScalar(r, xd))
					}
				}
				if l.Len() > 0 {
					m.Set(xd, protoreflect.ValueOfList(l))
				}
				continue
			}
			if xd.Message() != nil {
				m.Set(xd, protoreflect.ValueOfMessage(subMessage(r, xd.Message(), o)))
			} else {
				m.Set(xd, randScalar(r, xd))
			}
		}
	}
	return m
}

func subMessage(r *prng.Rng, md protoreflect.MessageDescriptor, o genOpts) protoreflect.Message {
	if o.depth >= 3 || r.Chance(1, 5) {
		// an empty nested message — unless it has required fields that must be set
		if !o.requiredAlways || !hasRequired(md) {
			return dynamicpb.NewMessage(md)
		}
	}
	o.depth++
	if o.depth > 5 {
		return minimalMessage(md)
	}
	return randMessage(r, md, o)
}

func hasRequired(md protoreflect.MessageDescriptor) bool {
	for i := 0; i < md.Fields().Len(); i++ {
		if md.Fields().Get(i).Cardinality() == protoreflect.Required {
			return true
		}
	}
	return false
}

// minimalMessage sets only the required fields (recursively) with zero values.
func minimalMessage(md protoreflect.MessageDescriptor) *dynamicpb.Message {
	m := dynamicpb.NewMessage(md)
	for i := 0; i < md.Fields().Len(); i++ {
		fd := md.Fields().Get(i)
		if fd.Cardinality() != protoreflect.Required {
			continue
		}
		if fd.Kind() == protoreflect.MessageKind {
			m.Set(fd, protoreflect.ValueOfMessage(minimalMessage(fd.Message())))
		} else {
			m.Set(fd, fd.Default())
		}
	}
	return m
}

// filledMessage: every scalar field (singular, one element of a list, the first member of each real oneof) holds a
// non-default boundary value; message-typed fields one level down, then only the required ones.
func filledMessage(md protoreflect.MessageDescriptor, depth int) *dynamicpb.Message {
	m := dynamicpb.NewMessage(md)
	seenOneof := map[protoreflect.FullName]bool{}
	for i := 0; i < md.Fields().Len(); i++ {
		fd := md.Fields().Get(i)
		if oo := fd.ContainingOneof(); oo != nil && !oo.IsSynthetic() {
			if seenOneof[oo.FullName()] {
				continue
			}
			seenOneof[oo.FullName()] = true
		}
		switch {
		case fd.IsMap():
			continue
		case fd.Message() != nil:
			var sub *dynamicpb.Message
			switch {
			case depth < 1:
				sub = filledMessage(fd.Message(), depth+1)
			case fd.Cardinality() == protoreflect.Required:
				sub = minimalMessage(fd.Message())
			default:
				continue
			}
			if fd.IsList() {
				m.Mutable(fd).List().Append(protoreflect.ValueOfMessage(sub))
			} else {
				m.Set(fd, protoreflect.ValueOfMessage(sub))
			}
		case fd.IsList():
			m.Mutable(fd).List().Append(boundary(fd, 1))
		default:
			m.Set(fd, boundary(fd, 1))
		}
	}
	return m
}

func refBytes(m proto.Message) []byte {
	b, err := proto.MarshalOptions{Deterministic: true, AllowPartial: true}.Marshal(m)
	if err != nil {
		panic("gencheck: reference marshal: " + err.Error())
	}
	return b
}

// tweak applies Go-level representation changes that do not change the message's meaning:
// nil slices/maps become empty non-nil ones.
func tweak(r *prng.Rng, v reflect.Value, depth int) { tweakP(r, v, depth, false) }

// tweakP: always — EVERY nil slice / map (at every depth reached) becomes an empty non-nil one, not one in three.
func tweakP(r *prng.Rng, v reflect.Value, depth int, always bool) {
	if depth > 3 {
		return
	}
	switch v.Kind() {
	case reflect.Ptr:
		if !v.IsNil() && v.Elem().Kind() == reflect.Struct {
			tweakP(r, v.Elem(), depth, always)
		}
	case reflect.Struct:
		for i := 0; i < v.NumField(); i++ {
			sf := v.Type().Field(i)
			if sf.PkgPath != "" || strings.HasPrefix(sf.Name, "XXX_") {
				continue
			}
			f := v.Field(i)
			switch f.Kind() {
			case reflect.Slice:
				if f.Type().Elem().Kind() == reflect.Uint8 {
					// a bytes field with explicit presence: nil and empty differ in meaning; without presence
					// (proto3) a non-nil empty slice is the same contents as nil
					if implicitBytes(sf) && f.Len() == 0 && (always || r.Chance(1, 2)) && f.CanSet() {
						f.Set(reflect.MakeSlice(f.Type(), 0, 4))
					}
					continue
				}
				if f.IsNil() && (always || r.Chance(1, 3)) && f.CanSet() {
					f.Set(reflect.MakeSlice(f.Type(), 0, 0))
				} else {
					for j := 0; j < f.Len(); j++ {
						tweakP(r, f.Index(j), depth+1, always)
					}
				}
			case reflect.Map:
				if f.IsNil() && (always || r.Chance(1, 3)) && f.CanSet() {
					f.Set(reflect.MakeMap(f.Type()))
				} else if f.Type().Elem().Kind() == reflect.Ptr {
					// the messages held as map values
					keys := f.MapKeys()
					sort.Slice(keys, func(a, b int) bool { return fmt.Sprint(keys[a].Interface()) < fmt.Sprint(keys[b].Interface()) })
					for _, k := range keys {
						tweakP(r, f.MapIndex(k), depth+1, always)
					}
				}
			case reflect.Ptr:
				tweakP(r, f, depth+1, always)
			}
		}
	}
}

func sortedNames(m map[string]Factory) []string {
	ns := make([]string, 0, len(m))
	for n := range m {
		ns = append(ns, n)
	}
	sort.Strings(ns)
	return ns
}

func atoiDefault(s string, d int) int {
	if v, err := strconv.Atoi(s); err == nil {
		return v
	}
	return d
}
