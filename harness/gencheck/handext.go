package gencheck

// C12: extendable message types that no generator run of the corpus produces, added by hand so that every runtime
// flavour and every descriptor kind of the dispatcher meets extension ranges with boundaries:
//
//   - an OLD-STYLE golang/protobuf message (struct tags + XXX_InternalExtensions + ExtensionRangeArray(), what
//     protoc-gen-go emitted before 1.4): the only kind of value csproto classifies as MessageTypeGoogleV1, i.e. the
//     only way into the `google.*` arms of extensions.go — with hand-built v1 ExtensionDesc values;
//   - the same shape for Gogo without any generated marshal code (hand-built gogo ExtensionDesc values);
//   - descriptor.proto's own options messages (`extensions 1000 to max`) of Gogo (gogo ExtensionDesc: the registered
//     gogoproto options and hand-built ones at the ends of the range) and of protobuf-go (extension types made by
//     dynamicpb, i.e. protoreflect.ExtensionType values that are NOT *protoimpl.ExtensionInfo).
//
// Ranges: `100 to 199`, `300` (one number), `1000 to max`; extensions at the first and the last number of each and
// at 2^29-1; a second extendee whose extensions reuse the numbers with other types.  v1-style ExtensionRange{Start,
// End} has both ends inclusive, descriptor.proto / protoreflect.FieldRanges have an exclusive end.

import (
	"fmt"

	gogoplugin "github.com/gogo/protobuf/gogoproto"
	gogoproto "github.com/gogo/protobuf/proto"
	gogodesc "github.com/gogo/protobuf/protoc-gen-gogo/descriptor"
	golangproto "github.com/golang/protobuf/proto" //nolint
	"google.golang.org/protobuf/proto"
	"google.golang.org/protobuf/reflect/protodesc"
	"google.golang.org/protobuf/reflect/protoreflect"
	"google.golang.org/protobuf/reflect/protoregistry"
	"google.golang.org/protobuf/types/descriptorpb"
	"google.golang.org/protobuf/types/dynamicpb"
)

// ---------- old-style golang/protobuf messages ----------

type LegacyBounded struct {
	Name                               *string  `protobuf:"bytes,1,opt,name=name" json:"name,omitempty"`
	XXX_NoUnkeyedLiteral               struct{} `json:"-"`
	golangproto.XXX_InternalExtensions `json:"-"`
	XXX_unrecognized                   []byte `json:"-"`
	XXX_sizecache                      int32  `json:"-"`
}

func (m *LegacyBounded) Reset()         { *m = LegacyBounded{} }
func (m *LegacyBounded) String() string { return golangproto.CompactTextString(m) }
func (*LegacyBounded) ProtoMessage()    {}
func (*LegacyBounded) ExtensionRangeArray() []golangproto.ExtensionRange {
	return []golangproto.ExtensionRange{{Start: 100, End: 199}, {Start: 300, End: 300}, {Start: 1000, End: 536870911}}
}

type LegacyOther struct {
	Id                                 *int32   `protobuf:"varint,1,opt,name=id" json:"id,omitempty"`
	XXX_NoUnkeyedLiteral               struct{} `json:"-"`
	golangproto.XXX_InternalExtensions `json:"-"`
	XXX_unrecognized                   []byte `json:"-"`
	XXX_sizecache                      int32  `json:"-"`
}

func (m *LegacyOther) Reset()         { *m = LegacyOther{} }
func (m *LegacyOther) String() string { return golangproto.CompactTextString(m) }
func (*LegacyOther) ProtoMessage()    {}
func (*LegacyOther) ExtensionRangeArray() []golangproto.ExtensionRange {
	return []golangproto.ExtensionRange{{Start: 100, End: 199}, {Start: 536870911, End: 536870911}}
}

// ---------- the same for Gogo, no generated marshal code ----------

type GogoBounded struct {
	Name                             *string  `protobuf:"bytes,1,opt,name=name" json:"name,omitempty"`
	XXX_NoUnkeyedLiteral             struct{} `json:"-"`
	gogoproto.XXX_InternalExtensions `json:"-"`
	XXX_unrecognized                 []byte `json:"-"`
	XXX_sizecache                    int32  `json:"-"`
}

func (m *GogoBounded) Reset()         { *m = GogoBounded{} }
func (m *GogoBounded) String() string { return gogoproto.CompactTextString(m) }
func (*GogoBounded) ProtoMessage()    {}
func (*GogoBounded) ExtensionRangeArray() []gogoproto.ExtensionRange {
	return []gogoproto.ExtensionRange{{Start: 100, End: 199}, {Start: 300, End: 300}, {Start: 1000, End: 536870911}}
}

type GogoOther struct {
	Id                               *int32   `protobuf:"varint,1,opt,name=id" json:"id,omitempty"`
	XXX_NoUnkeyedLiteral             struct{} `json:"-"`
	gogoproto.XXX_InternalExtensions `json:"-"`
	XXX_unrecognized                 []byte `json:"-"`
	XXX_sizecache                    int32  `json:"-"`
}

func (m *GogoOther) Reset()         { *m = GogoOther{} }
func (m *GogoOther) String() string { return gogoproto.CompactTextString(m) }
func (*GogoOther) ProtoMessage()    {}
func (*GogoOther) ExtensionRangeArray() []gogoproto.ExtensionRange {
	return []gogoproto.ExtensionRange{{Start: 100, End: 199}, {Start: 536870911, End: 536870911}}
}

// ---------- the extension table ----------

type handExt struct {
	name     string
	num      int32
	kind     string
	extendee string // Bounded | Other (legacy shapes) / MessageOptions | FieldOptions (options)
}

var legacyExts = []handExt{
	{"b_first", 100, "int32", "Bounded"}, {"b_mid", 150, "string", "Bounded"}, {"b_last", 199, "sint64", "Bounded"},
	{"b_single", 300, "bool", "Bounded"}, {"b_lo", 1000, "bytes", "Bounded"}, {"b_below_max", 536870910, "double", "Bounded"},
	{"b_max", 536870911, "uint64", "Bounded"},
	{"o_first", 100, "string", "Other"}, {"o_last", 199, "int32", "Other"}, {"o_max", 536870911, "sint32", "Other"},
}

var optionExts = []handExt{
	{"h_lo", 1000, "int32", "MessageOptions"}, {"h_mid", 70000, "string", "MessageOptions"}, {"h_below_max", 536870910, "sint64", "MessageOptions"},
	{"h_max", 536870911, "uint64", "MessageOptions"},
	{"f_lo", 1000, "string", "FieldOptions"}, {"f_max", 536870911, "bool", "FieldOptions"},
}

// wire encoding name of the v1 struct tag, Go type of the value (v1 convention: pointers to scalars)
func v1TagAndType(kind string) (string, interface{}) {
	switch kind {
	case "int32":
		return "varint", (*int32)(nil)
	case "sint32":
		return "zigzag32", (*int32)(nil)
	case "sint64":
		return "zigzag64", (*int64)(nil)
	case "uint64":
		return "varint", (*uint64)(nil)
	case "bool":
		return "varint", (*bool)(nil)
	case "double":
		return "fixed64", (*float64)(nil)
	case "string":
		return "bytes", (*string)(nil)
	case "bytes":
		return "bytes", ([]byte)(nil)
	}
	panic("handext: kind " + kind)
}

func fieldType(kind string) descriptorpb.FieldDescriptorProto_Type {
	return map[string]descriptorpb.FieldDescriptorProto_Type{
		"int32": descriptorpb.FieldDescriptorProto_TYPE_INT32, "sint32": descriptorpb.FieldDescriptorProto_TYPE_SINT32,
		"sint64": descriptorpb.FieldDescriptorProto_TYPE_SINT64, "uint64": descriptorpb.FieldDescriptorProto_TYPE_UINT64,
		"bool": descriptorpb.FieldDescriptorProto_TYPE_BOOL, "double": descriptorpb.FieldDescriptorProto_TYPE_DOUBLE,
		"string": descriptorpb.FieldDescriptorProto_TYPE_STRING, "bytes": descriptorpb.FieldDescriptorProto_TYPE_BYTES}[kind]
}

func extDecls(pkg string, xs []handExt) []*descriptorpb.FieldDescriptorProto {
	var out []*descriptorpb.FieldDescriptorProto
	for _, x := range xs {
		out = append(out, &descriptorpb.FieldDescriptorProto{Name: proto.String(x.name), Number: proto.Int32(x.num), Type: fieldType(x.kind).Enum(),
			Label: descriptorpb.FieldDescriptorProto_LABEL_OPTIONAL.Enum(), Extendee: proto.String("." + pkg + "." + x.extendee)})
	}
	return out
}

func rangesOf(rs ...[2]int32) []*descriptorpb.DescriptorProto_ExtensionRange {
	var out []*descriptorpb.DescriptorProto_ExtensionRange
	for _, r := range rs {
		out = append(out, &descriptorpb.DescriptorProto_ExtensionRange{Start: proto.Int32(r[0]), End: proto.Int32(r[1])})
	}
	return out
}

func mustFDSet(files ...*descriptorpb.FileDescriptorProto) []byte {
	b, err := proto.Marshal(&descriptorpb.FileDescriptorSet{File: files})
	if err != nil {
		panic(err)
	}
	return b
}

// handTargets builds the hand-made C12 targets; anything that cannot be set up is reported as a note and left out.
func handTargets() (ts []*Target) {
	defer func() {
		if r := recover(); r != nil {
			Note(fmt.Sprintf("hand-made extension targets not available: %v", r))
		}
	}()
	// --- legacy shapes: one schema, two runtimes
	legacyFile := &descriptorpb.FileDescriptorProto{Name: proto.String("handlegacy.proto"), Package: proto.String("handlegacy"), Syntax: proto.String("proto2"),
		MessageType: []*descriptorpb.DescriptorProto{
			{Name: proto.String("Bounded"), Field: []*descriptorpb.FieldDescriptorProto{{Name: proto.String("name"), Number: proto.Int32(1), Type: descriptorpb.FieldDescriptorProto_TYPE_STRING.Enum(), Label: descriptorpb.FieldDescriptorProto_LABEL_OPTIONAL.Enum(), JsonName: proto.String("name")}},
				ExtensionRange: rangesOf([2]int32{100, 200}, [2]int32{300, 301}, [2]int32{1000, 536870912})},
			{Name: proto.String("Other"), Field: []*descriptorpb.FieldDescriptorProto{{Name: proto.String("id"), Number: proto.Int32(1), Type: descriptorpb.FieldDescriptorProto_TYPE_INT32.Enum(), Label: descriptorpb.FieldDescriptorProto_LABEL_OPTIONAL.Enum(), JsonName: proto.String("id")}},
				ExtensionRange: rangesOf([2]int32{100, 200}, [2]int32{536870911, 536870912})}},
		Extension: extDecls("handlegacy", legacyExts)}
	legacySet := mustFDSet(legacyFile)

	golangproto.RegisterType((*LegacyBounded)(nil), "handlegacy.golang.LegacyBounded")
	golangproto.RegisterType((*LegacyOther)(nil), "handlegacy.golang.LegacyOther")
	gogoproto.RegisterType((*GogoBounded)(nil), "handlegacy.gogo.GogoBounded")
	gogoproto.RegisterType((*GogoOther)(nil), "handlegacy.gogo.GogoOther")
	v1 := &Target{Schema: "hand-legacy", Variant: "golang-v1-oldstyle", Runtime: "v1legacy", FDSet: legacySet, Messages: map[string]Factory{
		"Bounded": {New: func() interface{} { return &LegacyBounded{} }}, "Other": {New: func() interface{} { return &LegacyOther{} }}}}
	gg := &Target{Schema: "hand-legacy", Variant: "gogo-plain", Runtime: "gogo", FDSet: legacySet, Messages: map[string]Factory{
		"Bounded": {New: func() interface{} { return &GogoBounded{} }}, "Other": {New: func() interface{} { return &GogoOther{} }}}}
	for _, x := range legacyExts {
		tag, typ := v1TagAndType(x.kind)
		var v1ext, ggext interface{} = (*LegacyBounded)(nil), (*GogoBounded)(nil)
		if x.extendee == "Other" {
			v1ext, ggext = (*LegacyOther)(nil), (*GogoOther)(nil)
		}
		d1 := &golangproto.ExtensionDesc{ExtendedType: v1ext.(golangproto.Message), ExtensionType: typ, Field: x.num, Name: "handlegacy.golang." + x.name,
			Tag: fmt.Sprintf("%s,%d,opt,name=%s", tag, x.num, x.name), Filename: "handlegacy.proto"}
		golangproto.RegisterExtension(d1)
		v1.Exts = append(v1.Exts, ExtVar{Name: x.name, Num: x.num, Kind: x.kind, Extendee: x.extendee, Desc: d1})
		d2 := &gogoproto.ExtensionDesc{ExtendedType: ggext.(gogoproto.Message), ExtensionType: typ, Field: x.num, Name: "handlegacy.gogo." + x.name,
			Tag: fmt.Sprintf("%s,%d,opt,name=%s", tag, x.num, x.name), Filename: "handlegacy.proto"}
		gogoproto.RegisterExtension(d2)
		gg.Exts = append(gg.Exts, ExtVar{Name: x.name, Num: x.num, Kind: x.kind, Extendee: x.extendee, Desc: d2})
	}
	ts = append(ts, v1, gg)

	// --- descriptor.proto options
	descFile := protodesc.ToFileDescriptorProto(descriptorpb.File_google_protobuf_descriptor_proto)
	optFile := &descriptorpb.FileDescriptorProto{Name: proto.String("handopts.proto"), Package: proto.String("google.protobuf"), Syntax: proto.String("proto2"),
		Dependency: []string{descFile.GetName()}, Extension: extDecls("google.protobuf", optionExts)}
	// (the registered gogoproto options used below are declared too, so that the reference decoder knows them)
	optFile.Extension = append(optFile.Extension,
		&descriptorpb.FieldDescriptorProto{Name: proto.String("goproto_getters"), Number: proto.Int32(gogoplugin.E_GoprotoGetters.Field), Type: descriptorpb.FieldDescriptorProto_TYPE_BOOL.Enum(), Label: descriptorpb.FieldDescriptorProto_LABEL_OPTIONAL.Enum(), Extendee: proto.String(".google.protobuf.MessageOptions")},
		&descriptorpb.FieldDescriptorProto{Name: proto.String("customname"), Number: proto.Int32(gogoplugin.E_Customname.Field), Type: descriptorpb.FieldDescriptorProto_TYPE_STRING.Enum(), Label: descriptorpb.FieldDescriptorProto_LABEL_OPTIONAL.Enum(), Extendee: proto.String(".google.protobuf.FieldOptions")})
	optSet := mustFDSet(descFile, optFile)
	go1 := &Target{Schema: "hand-options", Variant: "gogo-descriptor", Runtime: "gogo", FDSet: optSet, Messages: map[string]Factory{
		"MessageOptions": {New: func() interface{} { return &gogodesc.MessageOptions{} }}, "FieldOptions": {New: func() interface{} { return &gogodesc.FieldOptions{} }}}}
	go1.Exts = append(go1.Exts, ExtVar{Name: "goproto_getters", Num: gogoplugin.E_GoprotoGetters.Field, Kind: "bool", Extendee: "MessageOptions", Desc: gogoplugin.E_GoprotoGetters},
		ExtVar{Name: "customname", Num: gogoplugin.E_Customname.Field, Kind: "string", Extendee: "FieldOptions", Desc: gogoplugin.E_Customname})
	for _, x := range optionExts {
		tag, typ := v1TagAndType(x.kind)
		var ext gogoproto.Message = (*gogodesc.MessageOptions)(nil)
		if x.extendee == "FieldOptions" {
			ext = (*gogodesc.FieldOptions)(nil)
		}
		d := &gogoproto.ExtensionDesc{ExtendedType: ext, ExtensionType: typ, Field: x.num, Name: "handopts.gogo." + x.name,
			Tag: fmt.Sprintf("%s,%d,opt,name=%s", tag, x.num, x.name), Filename: "handopts.proto"}
		gogoproto.RegisterExtension(d)
		go1.Exts = append(go1.Exts, ExtVar{Name: x.name, Num: x.num, Kind: x.kind, Extendee: x.extendee, Desc: d})
	}
	ts = append(ts, go1)
	// protobuf-go: dynamicpb extension types whose extendee is the real descriptorpb descriptor
	onlyMine := proto.Clone(optFile).(*descriptorpb.FileDescriptorProto)
	onlyMine.Extension = extDecls("google.protobuf", optionExts)
	onlyMine.Name = proto.String("handopts_dynamic.proto")
	for _, x := range onlyMine.Extension {
		x.Name = proto.String("dyn_" + x.GetName())
	}
	fd, err := protodesc.NewFile(onlyMine, protoregistry.GlobalFiles)
	if err != nil {
		Note("hand-made options extensions (dynamicpb) not available: " + err.Error())
		return ts
	}
	v2 := &Target{Schema: "hand-options", Variant: "protobuf-go-descriptor+dynamicpb-extension-types", Runtime: "v2", FDSet: optSet, Messages: map[string]Factory{
		"MessageOptions": {New: func() interface{} { return &descriptorpb.MessageOptions{} }}, "FieldOptions": {New: func() interface{} { return &descriptorpb.FieldOptions{} }}}}
	for i, x := range optionExts {
		var xt protoreflect.ExtensionType = dynamicpb.NewExtensionType(fd.Extensions().Get(i))
		v2.Exts = append(v2.Exts, ExtVar{Name: x.name, Num: x.num, Kind: x.kind, Extendee: x.extendee, Desc: xt})
	}
	ts = append(ts, v2)
	return ts
}
