package gencheck

// C12: csproto's proto2 extension accessors against the owning runtime's own extension API.

import (
	"bytes"
	"fmt"
	"reflect"
	"sort"
	"strings"

	"github.com/CrowdStrike/csproto"
	gogoproto "github.com/gogo/protobuf/proto"
	"google.golang.org/protobuf/proto"
	"google.golang.org/protobuf/reflect/protoreflect"

	"csverif/internal/prng"
)

// runtime's own API, selected by the target's runtime
type extAPI struct {
	set      func(m, d, v interface{}) error
	get      func(m, d interface{}) (interface{}, error)
	has      func(m, d interface{}) bool
	clear    func(m, d interface{})
	clearAll func(m interface{})
	numbers  func(m interface{}) []int32 // field numbers of the extensions that are set
	marshal  func(m interface{}) ([]byte, error)
	number   func(d interface{}) int
}

func apiFor(rt string) *extAPI {
	switch rt {
	case "gogo":
		return &extAPI{
			set: func(m, d, v interface{}) error {
				return gogoproto.SetExtension(m.(gogoproto.Message), d.(*gogoproto.ExtensionDesc), v)
			},
			get: func(m, d interface{}) (interface{}, error) {
				return gogoproto.GetExtension(m.(gogoproto.Message), d.(*gogoproto.ExtensionDesc))
			},
			has: func(m, d interface{}) bool {
				return gogoproto.HasExtension(m.(gogoproto.Message), d.(*gogoproto.ExtensionDesc))
			},
			clear:    func(m, d interface{}) { gogoproto.ClearExtension(m.(gogoproto.Message), d.(*gogoproto.ExtensionDesc)) },
			clearAll: func(m interface{}) { gogoproto.ClearAllExtensions(m.(gogoproto.Message)) },
			numbers: func(m interface{}) []int32 {
				ds, _ := gogoproto.ExtensionDescs(m.(gogoproto.Message))
				var out []int32
				for _, d := range ds {
					out = append(out, d.Field)
				}
				return out
			},
			marshal: func(m interface{}) ([]byte, error) { return gogoproto.Marshal(m.(gogoproto.Message)) },
			number:  func(d interface{}) int { return int(d.(*gogoproto.ExtensionDesc).Field) },
		}
	}
	// "v1" targets are protoc-gen-go messages used through the golang/protobuf v1 API: they are
	// google.golang.org/protobuf messages (csproto classifies them as MessageTypeGoogle), so their owning
	// runtime's extension API is the v2 one.
	return &extAPI{
		set: func(m, d, v interface{}) (err error) {
			defer func() {
				if r := recover(); r != nil {
					err = fmt.Errorf("panic: %v", r)
				}
			}()
			proto.SetExtension(m.(proto.Message), d.(protoreflect.ExtensionType), v)
			return nil
		},
		get: func(m, d interface{}) (interface{}, error) {
			return proto.GetExtension(m.(proto.Message), d.(protoreflect.ExtensionType)), nil
		},
		has: func(m, d interface{}) bool {
			return proto.HasExtension(m.(proto.Message), d.(protoreflect.ExtensionType))
		},
		clear: func(m, d interface{}) { proto.ClearExtension(m.(proto.Message), d.(protoreflect.ExtensionType)) },
		clearAll: func(m interface{}) {
			mm := m.(proto.Message)
			proto.RangeExtensions(mm, func(xt protoreflect.ExtensionType, _ interface{}) bool { proto.ClearExtension(mm, xt); return true })
		},
		numbers: func(m interface{}) []int32 {
			var out []int32
			proto.RangeExtensions(m.(proto.Message), func(xt protoreflect.ExtensionType, _ interface{}) bool {
				out = append(out, int32(xt.TypeDescriptor().Number()))
				return true
			})
			return out
		},
		marshal: func(m interface{}) ([]byte, error) {
			return proto.MarshalOptions{Deterministic: true}.Marshal(m.(proto.Message))
		},
		number: func(d interface{}) int { return int(d.(protoreflect.ExtensionType).TypeDescriptor().Number()) },
	}
}

// extValue: a Go value of the dynamic type the runtime expects for the extension kind
// (pointers to scalars for gogo / golang v1, plain scalars for google v2).
func (t *Target) extValue(r *prng.Rng, x ExtVar) interface{} {
	ptr := t.Runtime == "gogo"
	u := r.U64Interesting()
	switch {
	case x.Kind == "int32" || x.Kind == "sint32" || x.Kind == "sfixed32":
		v := int32(u)
		if ptr {
			return &v
		}
		return v
	case x.Kind == "int64" || x.Kind == "sint64" || x.Kind == "sfixed64":
		v := int64(u)
		if ptr {
			return &v
		}
		return v
	case x.Kind == "uint32" || x.Kind == "fixed32":
		v := uint32(u)
		if ptr {
			return &v
		}
		return v
	case x.Kind == "uint64" || x.Kind == "fixed64":
		if ptr {
			return &u
		}
		return u
	case x.Kind == "bool":
		v := u%2 == 1
		if ptr {
			return &v
		}
		return v
	case x.Kind == "float":
		v := float32(int32(u)) / 4
		if ptr {
			return &v
		}
		return v
	case x.Kind == "double":
		v := float64(int64(u)) / 8
		if ptr {
			return &v
		}
		return v
	case x.Kind == "string":
		v := string(bytes.Map(func(c rune) rune { return 'a' + c%26 }, r.Bytes(r.Intn(12))))
		if ptr {
			return &v
		}
		return v
	case x.Kind == "bytes":
		return r.Bytes(r.Intn(12))
	case strings.HasPrefix(x.Kind, "enum:"):
		// the enum's Go type: take it from the descriptor's declared extension type
		et := extGoType(x.Desc)
		if et == nil {
			return nil
		}
		ev := reflect.New(derefType(et)).Elem()
		ev.SetInt(int64(u % 3))
		if ptr {
			p := reflect.New(ev.Type())
			p.Elem().Set(ev)
			return p.Interface()
		}
		return ev.Interface()
	case strings.HasPrefix(x.Kind, "msg:"):
		name := strings.TrimPrefix(x.Kind, "msg:")
		f, ok := t.Messages[name]
		if !ok {
			return nil
		}
		m := f.New()
		ref := randMessage(r, t.desc(name), genOpts{requiredAlways: true, depth: 1})
		if t.populate(m, refBytes(ref)) != nil {
			return nil
		}
		return m
	}
	return nil
}

func derefType(t reflect.Type) reflect.Type {
	for t.Kind() == reflect.Ptr {
		t = t.Elem()
	}
	return t
}

// extGoType: the Go type registered for the extension's value (legacy ExtensionType field)
func extGoType(d interface{}) reflect.Type {
	v := reflect.ValueOf(d)
	if v.Kind() == reflect.Ptr {
		v = v.Elem()
	}
	f := v.FieldByName("ExtensionType")
	if !f.IsValid() || f.IsNil() {
		return nil
	}
	return f.Elem().Type()
}

func valString(v interface{}) string {
	if v == nil {
		return "<nil>"
	}
	rv := reflect.ValueOf(v)
	if rv.Kind() == reflect.Ptr {
		if rv.IsNil() {
			return "<nil>"
		}
		if rv.Elem().Kind() == reflect.Struct {
			b, _ := csproto.Marshal(v)
			return "msg:" + hx(b)
		}
		return fmt.Sprint(rv.Elem().Interface())
	}
	if b, ok := v.([]byte); ok {
		return "bytes:" + hx(b)
	}
	return fmt.Sprint(v)
}

func sortedNums(ns []int32) string {
	sort.Slice(ns, func(i, j int) bool { return ns[i] < ns[j] })
	return fmt.Sprint(ns)
}

func rangeNumbers(m interface{}) ([]int32, error) {
	var out []int32
	err := csproto.RangeExtensions(m, func(_ interface{}, _ string, field int32) error { out = append(out, field); return nil })
	return out, err
}

// extHistory: one random history on a pair of messages, `a` driven through csproto, `b` through the runtime
func (rn *runner) extHistory(t *Target, extendee string, xs []ExtVar, steps int) {
	api := apiFor(t.Runtime)
	a, b := t.Messages[extendee].New(), t.Messages[extendee].New()
	set := map[int32]string{} // abstract store: number -> rendered value
	var log []string
	desc := func() map[string]interface{} {
		return map[string]interface{}{"type": t.where(extendee), "history": strings.Join(log, " ; ")}
	}
	fail := func(sig, what, want, got string) {
		Violation("C12", "extensions", sig, what, desc(), want, got)
	}
	for i := 0; i < steps; i++ {
		x := xs[rn.r.Intn(len(xs))]
		Journal(fmt.Sprintf("C12 ext %s %s", t.where(extendee), strings.Join(log, " ; ")))
		switch op := rn.r.Intn(8); op {
		case 0, 1, 2: // Set
			v := t.extValue(rn.r, x)
			if v == nil {
				continue
			}
			log = append(log, fmt.Sprintf("Set(%s,%s)", x.Name, trunc(valString(v), 40)))
			var ea, eb error
			if p := safeCall(func() { ea = csproto.SetExtension(a, x.Desc, v) }); p != "" {
				fail("ext/set-panic", "csproto.SetExtension panicked", "no panic", p)
				return
			}
			eb = api.set(b, x.Desc, v)
			if (ea == nil) != (eb == nil) {
				fail("ext/set-error-differs", "SetExtension error differs from the runtime's", fmt.Sprint(eb), fmt.Sprint(ea))
				return
			}
			if ea == nil {
				set[x.Num] = valString(v)
			}
		case 3: // Clear
			log = append(log, fmt.Sprintf("Clear(%s)", x.Name))
			if p := safeCall(func() { csproto.ClearExtension(a, x.Desc) }); p != "" {
				fail("ext/clear-panic", "csproto.ClearExtension panicked on a matching descriptor", "no panic", p)
				return
			}
			api.clear(b, x.Desc)
			delete(set, x.Num)
		case 4: // ClearAll
			log = append(log, "ClearAll")
			if p := safeCall(func() { csproto.ClearAllExtensions(a) }); p != "" {
				fail("ext/clearall-panic", "csproto.ClearAllExtensions panicked", "no panic", p)
				return
			}
			api.clearAll(b)
			set = map[int32]string{}
		default:
			log = append(log, fmt.Sprintf("Observe(%s)", x.Name))
		}
		// observe everything after every step
		for _, y := range xs {
			_, want := set[y.Num]
			var has bool
			if p := safeCall(func() { has = csproto.HasExtension(a, y.Desc) }); p != "" {
				fail("ext/has-panic", "csproto.HasExtension panicked", "no panic", p)
				return
			}
			if has != want || has != api.has(b, y.Desc) {
				fail("ext/has-incoherent/"+kindClass(y.Kind), "HasExtension disagrees with the history / the runtime", fmt.Sprintf("%s: %v (runtime %v)", y.Name, want, api.has(b, y.Desc)), fmt.Sprint(has))
				return
			}
			var gv, rv interface{}
			var ge, re error
			if p := safeCall(func() { gv, ge = csproto.GetExtension(a, y.Desc) }); p != "" {
				fail("ext/get-panic", "csproto.GetExtension panicked", "no panic", p)
				return
			}
			rv, re = api.get(b, y.Desc)
			if (ge == nil) != (re == nil) || (ge == nil && valString(gv) != valString(rv)) {
				fail("ext/get-differs/"+kindClass(y.Kind), "GetExtension differs from the runtime's own", fmt.Sprintf("%s %v", valString(rv), re), fmt.Sprintf("%s %v", valString(gv), ge))
				return
			}
			if want && ge == nil && valString(gv) != set[y.Num] {
				fail("ext/get-not-what-was-set/"+kindClass(y.Kind), "GetExtension does not return the value set", set[y.Num], valString(gv))
				return
			}
			n, nerr := csproto.ExtensionFieldNumber(y.Desc)
			if nerr != nil || n != int(y.Num) || n != api.number(y.Desc) {
				fail("ext/field-number", "ExtensionFieldNumber differs from the declared number", fmt.Sprint(y.Num), fmt.Sprintf("%d %v", n, nerr))
				return
			}
		}
		got, rerr := rangeNumbers(a)
		var want []int32
		for n := range set {
			want = append(want, n)
		}
		if rerr != nil || sortedNums(got) != sortedNums(want) || sortedNums(got) != sortedNums(api.numbers(b)) {
			fail("ext/range-incoherent", "RangeExtensions does not visit exactly the extensions that are set", sortedNums(want)+" (runtime "+sortedNums(api.numbers(b))+")", fmt.Sprintf("%s %v", sortedNums(got), rerr))
			return
		}
		// marshaled bytes: both messages agree, and carry exactly the set extensions
		ba, ea := api.marshal(a)
		bb, eb := api.marshal(b)
		if ea != nil || eb != nil {
			continue
		}
		da, derr := t.toDyn(extendee, ba)
		db, _ := t.toDyn(extendee, bb)
		if derr != nil || db == nil || !proto.Equal(da, db) {
			fail("ext/bytes-differ", "the message driven through csproto marshals differently from the one driven through the runtime", hx(bb), hx(ba))
			return
		}
		var present []int32
		da.Range(func(fd protoreflect.FieldDescriptor, _ protoreflect.Value) bool {
			if fd.IsExtension() {
				present = append(present, int32(fd.Number()))
			}
			return true
		})
		if sortedNums(present) != sortedNums(want) || len(da.GetUnknown()) != 0 {
			fail("ext/bytes-incoherent", "marshaled bytes do not carry exactly the extensions that are set", sortedNums(want), sortedNums(present)+" unknown="+hx(da.GetUnknown()))
			return
		}
		// the same through csproto.Marshal, i.e. through the generated Size()/MarshalTo() where the type has them
		var bc []byte
		var ec error
		if p := safeCall(func() { bc, ec = csproto.Marshal(a) }); p != "" {
			fail("ext/marshal-panic", "csproto.Marshal panicked on a message with extensions", "no panic", p)
			return
		}
		if ec == nil {
			dc, derr := t.toDyn(extendee, bc)
			if derr != nil || dc == nil {
				fail("ext/csproto-bytes-unparseable", "the bytes of csproto.Marshal are not parseable by the reference", hx(bb), hx(bc))
				return
			}
			present = present[:0]
			dc.Range(func(fd protoreflect.FieldDescriptor, _ protoreflect.Value) bool {
				if fd.IsExtension() {
					present = append(present, int32(fd.Number()))
				}
				return true
			})
			if sortedNums(present) != sortedNums(want) || len(dc.GetUnknown()) != 0 {
				fail("ext/csproto-bytes-incoherent", "the bytes of csproto.Marshal do not carry exactly the extensions that are set (a cleared or never-set extension appears, or a set one is missing)", sortedNums(want), sortedNums(present)+" unknown="+hx(dc.GetUnknown())+" bytes="+hx(bc))
				return
			}
			if !proto.Equal(dc, db) {
				fail("ext/csproto-bytes-differ", "csproto.Marshal of the message driven through csproto decodes to a different message than the runtime's bytes of the twin", hx(bb), hx(bc))
				return
			}
		}
	}
	Count("extensions", t.where(extendee)+strings.Join(log, ";"), "ok", steps, len(log) > 0)
}

func kindClass(k string) string {
	if i := strings.Index(k, ":"); i >= 0 {
		return k[:i]
	}
	return k
}

// extMismatch: a descriptor of another runtime family must be refused without touching the message
func (rn *runner) extMismatch(t *Target, other *Target, extendee string) {
	api := apiFor(t.Runtime)
	var mine, theirs []ExtVar
	for _, x := range t.Exts {
		if x.Extendee == extendee {
			mine = append(mine, x)
		}
	}
	for _, x := range other.Exts {
		if x.Extendee == extendee {
			theirs = append(theirs, x)
		}
	}
	if len(mine) == 0 || len(theirs) == 0 {
		return
	}
	m := t.Messages[extendee].New()
	for _, x := range mine[:1+rn.r.Intn(len(mine))] {
		if v := t.extValue(rn.r, x); v != nil {
			api.set(m, x.Desc, v)
		}
	}
	before, _ := api.marshal(m)
	x := theirs[rn.r.Intn(len(theirs))]
	desc := map[string]interface{}{"message": t.where(extendee), "descriptor": other.where(extendee) + "." + x.Name}
	check := func(what string) bool {
		after, _ := api.marshal(m)
		if !bytes.Equal(before, after) {
			Violation("C12", "mismatch", "ext/mismatch-modified/"+what, "a call with another runtime's descriptor modified the message", desc, hx(before), hx(after))
			return false
		}
		return true
	}
	var has bool
	if p := safeCall(func() { has = csproto.HasExtension(m, x.Desc) }); p != "" || has {
		Violation("C12", "mismatch", "ext/mismatch-has", "HasExtension with another runtime's descriptor must be false", desc, "false", fmt.Sprint(has, p))
		return
	}
	var gerr, serr error
	v := other.extValue(rn.r, x)
	if p := safeCall(func() { _, gerr = csproto.GetExtension(m, x.Desc) }); p != "" || gerr == nil {
		Violation("C12", "mismatch", "ext/mismatch-get", "GetExtension with another runtime's descriptor must return an error", desc, "error", fmt.Sprint(gerr, p))
		return
	}
	if p := safeCall(func() { serr = csproto.SetExtension(m, x.Desc, v) }); p != "" || serr == nil {
		Violation("C12", "mismatch", "ext/mismatch-set", "SetExtension with another runtime's descriptor must return an error", desc, "error", fmt.Sprint(serr, p))
		return
	}
	safeCall(func() { csproto.ClearExtension(m, x.Desc) }) // documented to panic; the message must stay untouched
	if !check("clear") {
		return
	}
	Count("mismatch", fmt.Sprint(desc), "refused", 1, true)
}

func family(rt string) string {
	if rt == "gogo" {
		return "gogo"
	}
	return "google"
}

func (rn *runner) runExtensions(ts []*Target, n int) {
	for _, t := range ts {
		byExt := map[string][]ExtVar{}
		for _, x := range t.Exts {
			byExt[x.Extendee] = append(byExt[x.Extendee], x)
		}
		var names []string
		for e := range byExt {
			names = append(names, e)
		}
		sort.Strings(names)
		for _, e := range names {
			if _, ok := t.Messages[e]; !ok {
				continue
			}
			for i := 0; i < n; i++ {
				rn.extHistory(t, e, byExt[e], 4+rn.r.Intn(9))
			}
			for _, o := range ts {
				if o.Schema == t.Schema && family(o.Runtime) != family(t.Runtime) {
					for i := 0; i < n/4+1; i++ {
						rn.extMismatch(t, o, e)
					}
				}
			}
		}
	}
}
