package gencheck

// C12: csproto's proto2 extension accessors against the owning runtime's own extension API.

import (
	"bytes"
	"fmt"
	"reflect"
	"sort"
	"strings"

	"github.com/CrowdStrike/csproto"
	gogoproto "github.com/gogo/protobuf/proto"
	golangproto "github.com/golang/protobuf/proto" //nolint
	"google.golang.org/protobuf/proto"
	"google.golang.org/protobuf/reflect/protoreflect"
	"google.golang.org/protobuf/runtime/protoimpl"

	"csverif/internal/prng"
)

// runtime's own API, selected by the target's runtime
type extAPI struct {
	set      func(m, d, v interface{}) error
	get      func(m, d interface{}) (interface{}, error)
	has      func(m, d interface{}) bool
	clear    func(m, d interface{})
	clearAll func(m interface{})
	numbers  func(m interface{}) []int32 // field numbers of the extensions that are set
	marshal  func(m interface{}) ([]byte, error)
	number   func(d interface{}) int
}

func apiFor(rt string) *extAPI {
	switch rt {
	case "gogo":
		return &extAPI{
			set: func(m, d, v interface{}) error {
				return gogoproto.SetExtension(m.(gogoproto.Message), d.(*gogoproto.ExtensionDesc), v)
			},
			get: func(m, d interface{}) (interface{}, error) {
				return gogoproto.GetExtension(m.(gogoproto.Message), d.(*gogoproto.ExtensionDesc))
			},
			has: func(m, d interface{}) bool {
				return gogoproto.HasExtension(m.(gogoproto.Message), d.(*gogoproto.ExtensionDesc))
			},
			clear:    func(m, d interface{}) { gogoproto.ClearExtension(m.(gogoproto.Message), d.(*gogoproto.ExtensionDesc)) },
			clearAll: func(m interface{}) { gogoproto.ClearAllExtensions(m.(gogoproto.Message)) },
			numbers: func(m interface{}) []int32 {
				ds, _ := gogoproto.ExtensionDescs(m.(gogoproto.Message))
				var out []int32
				for _, d := range ds {
					out = append(out, d.Field)
				}
				return out
			},
			marshal: func(m interface{}) ([]byte, error) { return gogoproto.Marshal(m.(gogoproto.Message)) },
			number:  func(d interface{}) int { return int(d.(*gogoproto.ExtensionDesc).Field) },
		}
	case "v1legacy":
		// old-style golang/protobuf messages (csproto: MessageTypeGoogleV1): the golang/protobuf v1 API owns them
		return &extAPI{
			set: func(m, d, v interface{}) error {
				return golangproto.SetExtension(m.(golangproto.Message), d.(*golangproto.ExtensionDesc), v)
			},
			get: func(m, d interface{}) (interface{}, error) {
				return golangproto.GetExtension(m.(golangproto.Message), d.(*golangproto.ExtensionDesc))
			},
			has: func(m, d interface{}) bool {
				return golangproto.HasExtension(m.(golangproto.Message), d.(*golangproto.ExtensionDesc))
			},
			clear: func(m, d interface{}) {
				golangproto.ClearExtension(m.(golangproto.Message), d.(*golangproto.ExtensionDesc))
			},
			clearAll: func(m interface{}) { golangproto.ClearAllExtensions(m.(golangproto.Message)) },
			numbers: func(m interface{}) []int32 {
				ds, _ := golangproto.ExtensionDescs(m.(golangproto.Message))
				var out []int32
				for _, d := range ds {
					out = append(out, int32(d.TypeDescriptor().Number()))
				}
				return out
			},
			marshal: func(m interface{}) ([]byte, error) { return golangproto.Marshal(m.(golangproto.Message)) },
			number:  func(d interface{}) int { return int(d.(*golangproto.ExtensionDesc).TypeDescriptor().Number()) },
		}
	}
	// "v1" targets are protoc-gen-go messages used through the golang/protobuf v1 API: they are
	// google.golang.org/protobuf messages (csproto classifies them as MessageTypeGoogle), so their owning
	// runtime's extension API is the v2 one.
	return &extAPI{
		set: func(m, d, v interface{}) (err error) {
			defer func() {
				if r := recover(); r != nil {
					err = fmt.Errorf("panic: %v", r)
				}
			}()
			proto.SetExtension(m.(proto.Message), d.(protoreflect.ExtensionType), v)
			return nil
		},
		get: func(m, d interface{}) (interface{}, error) {
			return proto.GetExtension(m.(proto.Message), d.(protoreflect.ExtensionType)), nil
		},
		has: func(m, d interface{}) bool {
			return proto.HasExtension(m.(proto.Message), d.(protoreflect.ExtensionType))
		},
		clear: func(m, d interface{}) { proto.ClearExtension(m.(proto.Message), d.(protoreflect.ExtensionType)) },
		clearAll: func(m interface{}) {
			mm := m.(proto.Message)
			proto.RangeExtensions(mm, func(xt protoreflect.ExtensionType, _ interface{}) bool { proto.ClearExtension(mm, xt); return true })
		},
		numbers: func(m interface{}) []int32 {
			var out []int32
			proto.RangeExtensions(m.(proto.Message), func(xt protoreflect.ExtensionType, _ interface{}) bool {
				out = append(out, int32(xt.TypeDescriptor().Number()))
				return true
			})
			return out
		},
		marshal: func(m interface{}) ([]byte, error) {
			return proto.MarshalOptions{Deterministic: true}.Marshal(m.(proto.Message))
		},
		number: func(d interface{}) int { return int(d.(protoreflect.ExtensionType).TypeDescriptor().Number()) },
	}
}

// extValue: a Go value of the dynamic type the runtime expects for the extension kind
// (pointers to scalars for gogo / golang v1, plain scalars for google v2).
func (t *Target) extValue(r *prng.Rng, x ExtVar) interface{} {
	ptr := t.Runtime == "gogo" || t.Runtime == "v1legacy" // the v1 convention: pointers to scalars
	// a REPEATED extension: every runtime holds a slice of plain elements ([]int32, [][]byte, []*M)
	if et := extGoType(x.Desc); et != nil && et.Kind() == reflect.Slice && !(x.Kind == "bytes" && et.Elem().Kind() == reflect.Uint8) {
		n := 1 + r.Intn(3)
		sl := reflect.MakeSlice(et, 0, n)
		for i := 0; i < n; i++ {
			e := t.extElem(r, x, false)
			if e == nil {
				return nil
			}
			ev := reflect.ValueOf(e)
			if ev.Type() != et.Elem() {
				if !ev.Type().ConvertibleTo(et.Elem()) {
					return nil
				}
				ev = ev.Convert(et.Elem())
			}
			sl = reflect.Append(sl, ev)
		}
		return sl.Interface()
	}
	return t.extElem(r, x, ptr)
}

// extElem: one value of the extension's kind (ptr: the v1 convention for singular scalars)
func (t *Target) extElem(r *prng.Rng, x ExtVar, ptr bool) interface{} {
	u := r.U64Interesting()
	switch {
	case x.Kind == "int32" || x.Kind == "sint32" || x.Kind == "sfixed32":
		v := int32(u)
		if ptr {
			return &v
		}
		return v
	case x.Kind == "int64" || x.Kind == "sint64" || x.Kind == "sfixed64":
		v := int64(u)
		if ptr {
			return &v
		}
		return v
	case x.Kind == "uint32" || x.Kind == "fixed32":
		v := uint32(u)
		if ptr {
			return &v
		}
		return v
	case x.Kind == "uint64" || x.Kind == "fixed64":
		if ptr {
			return &u
		}
		return u
	case x.Kind == "bool":
		v := u%2 == 1
		if ptr {
			return &v
		}
		return v
	case x.Kind == "float":
		v := float32(int32(u)) / 4
		if ptr {
			return &v
		}
		return v
	case x.Kind == "double":
		v := float64(int64(u)) / 8
		if ptr {
			return &v
		}
		return v
	case x.Kind == "string":
		v := string(bytes.Map(func(c rune) rune { return 'a' + c%26 }, r.Bytes(r.Intn(12))))
		if ptr {
			return &v
		}
		return v
	case x.Kind == "bytes":
		return r.Bytes(r.Intn(12))
	case strings.HasPrefix(x.Kind, "enum:"):
		// the enum's Go type: take it from the descriptor's declared extension type
		et := extGoType(x.Desc)
		if et == nil {
			return nil
		}
		dt := derefType(et)
		if dt.Kind() == reflect.Slice { // a repeated enum extension: the element type
			dt = dt.Elem()
		}
		ev := reflect.New(dt).Elem()
		ev.SetInt(int64(u % 3))
		if ptr {
			p := reflect.New(ev.Type())
			p.Elem().Set(ev)
			return p.Interface()
		}
		return ev.Interface()
	case strings.HasPrefix(x.Kind, "msg:"):
		name := strings.TrimPrefix(x.Kind, "msg:")
		f, ok := t.Messages[name]
		if !ok {
			return nil
		}
		m := f.New()
		ref := randMessage(r, t.desc(name), genOpts{requiredAlways: true, depth: 1})
		if t.populate(m, refBytes(ref)) != nil {
			return nil
		}
		return m
	}
	return nil
}

// isRepeatedExt: the runtime holds the extension's value as a slice of elements ([]int32, [][]byte, []*M)
func isRepeatedExt(x ExtVar) bool {
	et := extGoType(x.Desc)
	return et != nil && et.Kind() == reflect.Slice && !(x.Kind == "bytes" && et.Elem().Kind() == reflect.Uint8)
}

// extsByGoType: the target's generated extension descriptors, keyed by the Go type (*M) of the message they extend
func (t *Target) extsByGoType() map[reflect.Type][]ExtVar {
	if t.extsOfType == nil {
		t.extsOfType = map[reflect.Type][]ExtVar{}
		for _, x := range t.Exts {
			if f, ok := t.Messages[x.Extendee]; ok {
				ty := reflect.TypeOf(f.New())
				t.extsOfType[ty] = append(t.extsOfType[ty], x)
			}
		}
	}
	return t.extsOfType
}

// emptyRepeatedExtensions: a repeated extension that the message does not carry is SET — through the owning runtime's own
// SetExtension — to an empty, non-nil list ([]int32{}, []*M{}), on m itself and on the messages held inside it (singular
// fields, list elements, map values, oneof members, message-valued extensions that are set). A list without elements
// holds nothing: the message means what it meant before (the reference value does not change) and not one byte may be
// written for it, but the runtimes differ in what they answer afterwards: Gogo / golang v1 HasExtension say "set",
// google v2 says "not set". force: every such extension of m itself; otherwise each with probability 1/2.
// It returns what was set (for the case label).
func (t *Target) emptyRepeatedExtensions(r *prng.Rng, m interface{}, force bool) []string {
	byType := t.extsByGoType()
	if len(byType) == 0 {
		return nil
	}
	api := apiFor(t.Runtime)
	var done []string
	var walk func(v reflect.Value, depth int, path string)
	walk = func(v reflect.Value, depth int, path string) {
		if depth > 4 {
			return
		}
		switch v.Kind() {
		case reflect.Interface:
			if !v.IsNil() {
				walk(v.Elem(), depth, path)
			}
		case reflect.Slice:
			if v.Type().Elem().Kind() == reflect.Ptr {
				for j := 0; j < v.Len(); j++ {
					walk(v.Index(j), depth+1, fmt.Sprintf("%s[%d]", path, j))
				}
			}
		case reflect.Map:
			if v.Type().Elem().Kind() == reflect.Ptr {
				keys := v.MapKeys()
				sort.Slice(keys, func(a, b int) bool { return fmt.Sprint(keys[a].Interface()) < fmt.Sprint(keys[b].Interface()) })
				for _, k := range keys {
					walk(v.MapIndex(k), depth+1, fmt.Sprintf("%s[%v]", path, k.Interface()))
				}
			}
		case reflect.Ptr:
			if v.IsNil() || v.Elem().Kind() != reflect.Struct || !v.CanInterface() {
				return
			}
			msg := v.Interface()
			for _, x := range byType[v.Type()] {
				x := x
				switch {
				case isRepeatedExt(x) && !api.has(msg, x.Desc):
					if !(force && depth == 0) && !r.Chance(1, 2) {
						continue
					}
					var err error
					if p := safeCall(func() { err = api.set(msg, x.Desc, reflect.MakeSlice(extGoType(x.Desc), 0, 0).Interface()) }); p == "" && err == nil {
						done = append(done, path+x.Name)
					}
				case strings.HasPrefix(x.Kind, "msg:") && api.has(msg, x.Desc):
					var val interface{}
					if p := safeCall(func() { val, _ = api.get(msg, x.Desc) }); p == "" && val != nil {
						walk(reflect.ValueOf(val), depth+1, path+x.Name+".")
					}
				}
			}
			sv := v.Elem()
			for i := 0; i < sv.NumField(); i++ {
				sf := sv.Type().Field(i)
				if sf.PkgPath != "" || strings.HasPrefix(sf.Name, "XXX_") {
					continue
				}
				switch sf.Type.Kind() {
				case reflect.Ptr, reflect.Slice, reflect.Map, reflect.Interface:
					walk(sv.Field(i), depth+1, path+sf.Name+".")
				}
			}
		}
	}
	walk(reflect.ValueOf(m), 0, "")
	return done
}

func derefType(t reflect.Type) reflect.Type {
	for t.Kind() == reflect.Ptr {
		t = t.Elem()
	}
	return t
}

// extGoType: the Go type registered for the extension's value (legacy ExtensionType field)
func extGoType(d interface{}) reflect.Type {
	v := reflect.ValueOf(d)
	if v.Kind() == reflect.Ptr {
		v = v.Elem()
	}
	f := v.FieldByName("ExtensionType")
	if !f.IsValid() || f.IsNil() {
		return nil
	}
	return f.Elem().Type()
}

func valString(v interface{}) string {
	if v == nil {
		return "<nil>"
	}
	rv := reflect.ValueOf(v)
	if rv.Kind() == reflect.Ptr {
		if rv.IsNil() {
			return "<nil>"
		}
		if rv.Elem().Kind() == reflect.Struct {
			b, _ := csproto.Marshal(v)
			return "msg:" + hx(b)
		}
		return fmt.Sprint(rv.Elem().Interface())
	}
	if b, ok := v.([]byte); ok {
		return "bytes:" + hx(b)
	}
	return fmt.Sprint(v)
}

func sortedNums(ns []int32) string {
	sort.Slice(ns, func(i, j int) bool { return ns[i] < ns[j] })
	return fmt.Sprint(ns)
}

func rangeNumbers(m interface{}) ([]int32, error) {
	var out []int32
	err := csproto.RangeExtensions(m, func(_ interface{}, _ string, field int32) error { out = append(out, field); return nil })
	return out, err
}

// extHistory: one random history on a pair of messages, `a` driven through csproto, `b` through the runtime
func (rn *runner) extHistory(t *Target, extendee string, xs []ExtVar, steps int) {
	api := apiFor(t.Runtime)
	a, b := t.Messages[extendee].New(), t.Messages[extendee].New()
	set := map[int32]string{} // abstract store: number -> rendered value
	var log []string
	desc := func() map[string]interface{} {
		return map[string]interface{}{"type": t.where(extendee), "history": strings.Join(log, " ; ")}
	}
	fail := func(sig, what, want, got string) {
		Violation("C12", "extensions", sig, what, desc(), want, got)
	}
	// the same history for the Lean model of the dispatcher (C12.runCs on the abstract store): one op and one
	// observed answer per call; values are named by their position in the table of distinct rendered values
	mh := newModelHistory(a, t.Runtime, xs[0].Desc)
	defer mh.emit("extensions")
	for i := 0; i < steps; i++ {
		x := xs[rn.r.Intn(len(xs))]
		Journal(fmt.Sprintf("C12 ext %s %s", t.where(extendee), strings.Join(log, " ; ")))
		switch op := rn.r.Intn(8); op {
		case 0, 1, 2: // Set
			v := t.extValue(rn.r, x)
			if v == nil {
				continue
			}
			log = append(log, fmt.Sprintf("Set(%s,%s)", x.Name, trunc(valString(v), 40)))
			var ea, eb error
			if p := safeCall(func() { ea = csproto.SetExtension(a, x.Desc, v) }); p != "" {
				fail("ext/set-panic", "csproto.SetExtension panicked", "no panic", p)
				return
			}
			eb = api.set(b, x.Desc, v)
			if (ea == nil) != (eb == nil) {
				fail("ext/set-error-differs", "SetExtension error differs from the runtime's", fmt.Sprint(eb), fmt.Sprint(ea))
				return
			}
			if ea == nil {
				set[x.Num] = valString(v)
				mh.op(fmt.Sprintf("set %d %d", x.Num, mh.id(valString(v))), "u")
			}
		case 3: // Clear
			log = append(log, fmt.Sprintf("Clear(%s)", x.Name))
			if p := safeCall(func() { csproto.ClearExtension(a, x.Desc) }); p != "" {
				fail("ext/clear-panic", "csproto.ClearExtension panicked on a matching descriptor", "no panic", p)
				return
			}
			api.clear(b, x.Desc)
			delete(set, x.Num)
			mh.op(fmt.Sprintf("clear %d", x.Num), "u")
		case 4: // ClearAll
			log = append(log, "ClearAll")
			if p := safeCall(func() { csproto.ClearAllExtensions(a) }); p != "" {
				fail("ext/clearall-panic", "csproto.ClearAllExtensions panicked", "no panic", p)
				return
			}
			api.clearAll(b)
			set = map[int32]string{}
			mh.op("clearall", "u")
		default:
			log = append(log, fmt.Sprintf("Observe(%s)", x.Name))
		}
		// observe everything after every step
		for _, y := range xs {
			_, want := set[y.Num]
			var has bool
			if p := safeCall(func() { has = csproto.HasExtension(a, y.Desc) }); p != "" {
				fail("ext/has-panic", "csproto.HasExtension panicked", "no panic", p)
				return
			}
			mh.op(fmt.Sprintf("has %d", y.Num), "b"+b01(has))
			if has != want || has != api.has(b, y.Desc) {
				fail("ext/has-incoherent/"+kindClass(y.Kind), "HasExtension disagrees with the history / the runtime", fmt.Sprintf("%s: %v (runtime %v)", y.Name, want, api.has(b, y.Desc)), fmt.Sprint(has))
				return
			}
			var gv, rv interface{}
			var ge, re error
			if p := safeCall(func() { gv, ge = csproto.GetExtension(a, y.Desc) }); p != "" {
				fail("ext/get-panic", "csproto.GetExtension panicked", "no panic", p)
				return
			}
			if want { // (what Get returns for an extension that is not set differs between the runtimes: default value / error)
				if ge != nil {
					mh.op(fmt.Sprintf("get %d", y.Num), "err")
				} else {
					mh.op(fmt.Sprintf("get %d", y.Num), fmt.Sprintf("v%d", mh.id(valString(gv))))
				}
			}
			rv, re = api.get(b, y.Desc)
			if (ge == nil) != (re == nil) || (ge == nil && valString(gv) != valString(rv)) {
				fail("ext/get-differs/"+kindClass(y.Kind), "GetExtension differs from the runtime's own", fmt.Sprintf("%s %v", valString(rv), re), fmt.Sprintf("%s %v", valString(gv), ge))
				return
			}
			if want && ge == nil && valString(gv) != set[y.Num] {
				fail("ext/get-not-what-was-set/"+kindClass(y.Kind), "GetExtension does not return the value set", set[y.Num], valString(gv))
				return
			}
			n, nerr := csproto.ExtensionFieldNumber(y.Desc)
			if nerr != nil || n != int(y.Num) || n != api.number(y.Desc) {
				fail("ext/field-number", "ExtensionFieldNumber differs from the declared number", fmt.Sprint(y.Num), fmt.Sprintf("%d %v", n, nerr))
				return
			}
		}
		got, rerr := rangeNumbers(a)
		if rerr != nil {
			mh.op("range", "err")
		} else {
			mh.op("range", "k"+numList(got))
		}
		var want []int32
		for n := range set {
			want = append(want, n)
		}
		if rerr != nil || sortedNums(got) != sortedNums(want) || sortedNums(got) != sortedNums(api.numbers(b)) {
			fail("ext/range-incoherent", "RangeExtensions does not visit exactly the extensions that are set", sortedNums(want)+" (runtime "+sortedNums(api.numbers(b))+")", fmt.Sprintf("%s %v", sortedNums(got), rerr))
			return
		}
		// marshaled bytes: both messages agree, and carry exactly the set extensions
		ba, ea := api.marshal(a)
		bb, eb := api.marshal(b)
		if ea != nil || eb != nil {
			continue
		}
		da, derr := t.toDyn(extendee, ba)
		db, _ := t.toDyn(extendee, bb)
		if derr != nil || db == nil || !proto.Equal(da, db) {
			fail("ext/bytes-differ", "the message driven through csproto marshals differently from the one driven through the runtime", hx(bb), hx(ba))
			return
		}
		var present []int32
		da.Range(func(fd protoreflect.FieldDescriptor, _ protoreflect.Value) bool {
			if fd.IsExtension() {
				present = append(present, int32(fd.Number()))
			}
			return true
		})
		if sortedNums(present) != sortedNums(want) || len(da.GetUnknown()) != 0 {
			fail("ext/bytes-incoherent", "marshaled bytes do not carry exactly the extensions that are set", sortedNums(want), sortedNums(present)+" unknown="+hx(da.GetUnknown()))
			return
		}
		// the same through csproto.Marshal, i.e. through the generated Size()/MarshalTo() where the type has them
		var bc []byte
		var ec error
		if p := safeCall(func() { bc, ec = csproto.Marshal(a) }); p != "" {
			fail("ext/marshal-panic", "csproto.Marshal panicked on a message with extensions", "no panic", p)
			return
		}
		if ec == nil {
			dc, derr := t.toDyn(extendee, bc)
			if derr != nil || dc == nil {
				fail("ext/csproto-bytes-unparseable", "the bytes of csproto.Marshal are not parseable by the reference", hx(bb), hx(bc))
				return
			}
			present = present[:0]
			dc.Range(func(fd protoreflect.FieldDescriptor, _ protoreflect.Value) bool {
				if fd.IsExtension() {
					present = append(present, int32(fd.Number()))
				}
				return true
			})
			if sortedNums(present) != sortedNums(want) || len(dc.GetUnknown()) != 0 {
				fail("ext/csproto-bytes-incoherent", "the bytes of csproto.Marshal do not carry exactly the extensions that are set (a cleared or never-set extension appears, or a set one is missing)", sortedNums(want), sortedNums(present)+" unknown="+hx(dc.GetUnknown())+" bytes="+hx(bc))
				return
			}
			if !proto.Equal(dc, db) {
				fail("ext/csproto-bytes-differ", "csproto.Marshal of the message driven through csproto decodes to a different message than the runtime's bytes of the twin", hx(bb), hx(bc))
				return
			}
		}
	}
	Count("extensions", t.where(extendee)+strings.Join(log, ";"), "ok", steps, len(log) > 0)
}

// modelHistory collects one request line for the Lean model of the extension dispatcher (driver command `M ext`)
type modelHistory struct {
	mt     int
	dk     string
	init   []string
	ops    []string
	outs   []string
	values map[string]int
}

// descKind: the dynamic type of a descriptor argument as the model names it
func descKind(d interface{}) string {
	switch d.(type) {
	case *gogoproto.ExtensionDesc:
		return "gogoDesc"
	case *protoimpl.ExtensionInfo:
		return "googleInfo"
	case protoreflect.ExtensionType:
		return "otherV2Type"
	}
	return "other"
}

func newModelHistory(m interface{}, runtime string, desc interface{}) *modelHistory {
	dk := "googleInfo"
	if runtime == "gogo" {
		dk = "gogoDesc"
	}
	if desc != nil {
		dk = descKind(desc)
	}
	return &modelHistory{mt: int(csproto.MsgType(m)), dk: dk, values: map[string]int{}}
}

func (h *modelHistory) id(rendered string) int {
	if n, ok := h.values[rendered]; ok {
		return n
	}
	n := len(h.values)
	h.values[rendered] = n
	return n
}

func (h *modelHistory) op(op, out string) {
	h.ops = append(h.ops, op)
	h.outs = append(h.outs, out)
}

func (h *modelHistory) emit(stream string) {
	if len(h.ops) == 0 {
		return
	}
	init := "-"
	if len(h.init) > 0 {
		init = strings.Join(h.init, ",")
	}
	Model(stream, fmt.Sprintf("M ext %d %s %s ; %s", h.mt, h.dk, init, strings.Join(h.ops, " ; ")), strings.Join(h.outs, " "))
}

func b01(b bool) string {
	if b {
		return "1"
	}
	return "0"
}

// numList: sorted, comma separated, "-" when empty (the model's list format)
func numList(ns []int32) string {
	if len(ns) == 0 {
		return "-"
	}
	c := append([]int32{}, ns...)
	sort.Slice(c, func(i, j int) bool { return c[i] < c[j] })
	var parts []string
	for _, n := range c {
		parts = append(parts, fmt.Sprint(n))
	}
	return strings.Join(parts, ",")
}

func kindClass(k string) string {
	if i := strings.Index(k, ":"); i >= 0 {
		return k[:i]
	}
	return k
}

// extMismatch: a descriptor of another runtime family must be refused without touching the message
func (rn *runner) extMismatch(t *Target, other *Target, extendee string) {
	api := apiFor(t.Runtime)
	var mine, theirs []ExtVar
	for _, x := range t.Exts {
		if x.Extendee == extendee {
			mine = append(mine, x)
		}
	}
	for _, x := range other.Exts {
		if x.Extendee == extendee {
			theirs = append(theirs, x)
		}
	}
	if len(mine) == 0 || len(theirs) == 0 {
		return
	}
	m := t.Messages[extendee].New()
	x := theirs[rn.r.Intn(len(theirs))]
	mh := newModelHistory(m, t.Runtime, x.Desc)
	for _, y := range mine[:1+rn.r.Intn(len(mine))] {
		if v := t.extValue(rn.r, y); v != nil {
			if api.set(m, y.Desc, v) == nil {
				mh.init = append(mh.init, fmt.Sprintf("%d:%d", y.Num, mh.id(valString(v))))
			}
		}
	}
	before, _ := api.marshal(m)
	desc := map[string]interface{}{"message": t.where(extendee), "descriptor": other.where(extendee) + "." + x.Name}
	check := func(what string) bool {
		after, _ := api.marshal(m)
		if !bytes.Equal(before, after) {
			Violation("C12", "mismatch", "ext/mismatch-modified/"+what, "a call with another runtime's descriptor modified the message", desc, hx(before), hx(after))
			return false
		}
		return true
	}
	var has bool
	if p := safeCall(func() { has = csproto.HasExtension(m, x.Desc) }); p != "" || has {
		Violation("C12", "mismatch", "ext/mismatch-has", "HasExtension with another runtime's descriptor must be false", desc, "false", fmt.Sprint(has, p))
		return
	}
	var gerr, serr error
	v := other.extValue(rn.r, x)
	if p := safeCall(func() { _, gerr = csproto.GetExtension(m, x.Desc) }); p != "" || gerr == nil {
		Violation("C12", "mismatch", "ext/mismatch-get", "GetExtension with another runtime's descriptor must return an error", desc, "error", fmt.Sprint(gerr, p))
		return
	}
	if p := safeCall(func() { serr = csproto.SetExtension(m, x.Desc, v) }); p != "" || serr == nil {
		Violation("C12", "mismatch", "ext/mismatch-set", "SetExtension with another runtime's descriptor must return an error", desc, "error", fmt.Sprint(serr, p))
		return
	}
	pc := safeCall(func() { csproto.ClearExtension(m, x.Desc) }) // documented to panic; the message must stay untouched
	if !check("clear") {
		return
	}
	// the same four calls through the Lean model of the dispatcher, from the same store
	mh.op(fmt.Sprintf("has %d", x.Num), "b"+b01(has))
	mh.op(fmt.Sprintf("get %d", x.Num), map[bool]string{true: "err", false: "v?"}[gerr != nil])
	mh.op(fmt.Sprintf("set %d %d", x.Num, 99), map[bool]string{true: "err", false: "u"}[serr != nil])
	mh.op(fmt.Sprintf("clear %d", x.Num), map[bool]string{true: "panic", false: "u"}[pc != ""])
	if got, rerr := rangeNumbers(m); rerr == nil {
		mh.op("range", "k"+numList(got))
	}
	mh.emit("mismatch")
	Count("mismatch", fmt.Sprint(desc), "refused", 1, true)
}

// extForeign: a descriptor of the message's OWN runtime that extends ANOTHER message (preferably one whose number
// is also the number of an extension of this message).  The runtimes differ here — Gogo's Has/Clear only look at
// the number, Get/Set check the extended type; protobuf-go answers false or panics — and "each result equals what
// the owning runtime's own extension API returns": the same calls are made through csproto on `a` and through the
// runtime on a twin `b` with the same contents; wherever the runtime answers, csproto must give the same answer,
// and the two messages must stay the same message.
func (rn *runner) extForeign(t *Target, extendee string, mine []ExtVar, foreign []ExtVar) {
	api := apiFor(t.Runtime)
	a, b := t.Messages[extendee].New(), t.Messages[extendee].New()
	var log []string
	nums := map[int32]bool{}
	for _, y := range mine {
		if !rn.r.Chance(2, 3) {
			continue
		}
		if v := t.extValue(rn.r, y); v != nil && api.set(a, y.Desc, v) == nil && api.set(b, y.Desc, v) == nil {
			nums[y.Num] = true
			log = append(log, fmt.Sprintf("Set(%s=%d,%s)", y.Name, y.Num, trunc(valString(v), 30)))
		}
	}
	// prefer foreign descriptors whose number is in use in this message
	var same, rest []ExtVar
	for _, x := range foreign {
		if nums[x.Num] {
			same = append(same, x)
		} else {
			rest = append(rest, x)
		}
	}
	pick := append(same, rest...)
	if len(same) > 0 && rn.r.Chance(3, 4) {
		pick = same
	}
	x := pick[rn.r.Intn(len(pick))]
	desc := func() map[string]interface{} {
		return map[string]interface{}{"message": t.where(extendee), "descriptor": fmt.Sprintf("%s (number %d, extends %s)", x.Name, x.Num, x.Extendee), "history": strings.Join(log, " ; ")}
	}
	outcome := "same-as-runtime"
	fail := func(sig, what, want, got string) {
		outcome = "differs"
		Violation("C12", "foreign-extendee", sig, what, desc(), want, got)
	}
	v := t.extValue(rn.r, x)
	order := []string{"has", "get", "has", "set", "has", "clear", "has", "get"}
	if rn.r.Bool() {
		order = []string{"has", "clear", "has", "get", "set", "has", "get", "clear"}
	}
	for _, op := range order {
		if op == "set" && v == nil {
			continue
		}
		call := func(viaCs bool, m interface{}) (res string) {
			switch op {
			case "has":
				if viaCs {
					return fmt.Sprint(csproto.HasExtension(m, x.Desc))
				}
				return fmt.Sprint(api.has(m, x.Desc))
			case "get":
				var gv interface{}
				var ge error
				if viaCs {
					gv, ge = csproto.GetExtension(m, x.Desc)
				} else {
					gv, ge = api.get(m, x.Desc)
				}
				if ge != nil {
					return "error"
				}
				return valString(gv)
			case "set":
				var e error
				if viaCs {
					e = csproto.SetExtension(m, x.Desc, v)
				} else if e = api.set(m, x.Desc, v); e != nil && strings.HasPrefix(e.Error(), "panic: ") {
					panic(e.Error()) // (the v2 API panics; apiFor turned that into an error)
				}
				return fmt.Sprint("error=", e != nil)
			default:
				if viaCs {
					csproto.ClearExtension(m, x.Desc)
				} else {
					api.clear(m, x.Desc)
				}
				return "done"
			}
		}
		log = append(log, op+"("+x.Name+")")
		Journal(fmt.Sprintf("C12 foreign %s %s", t.where(extendee), strings.Join(log, " ; ")))
		var rb, ra string
		pb := safeCall(func() { rb = call(false, b) })
		pa := safeCall(func() { ra = call(true, a) })
		if pb == "" { // the runtime has an answer
			if pa != "" {
				fail("ext/foreign-extendee-panic/"+op, "csproto panicked on a descriptor of another extendee where the owning runtime answers", rb, "panic: "+pa)
				break
			}
			if ra != rb {
				fail("ext/foreign-extendee-differs/"+op, "with a descriptor of the same runtime that extends another message, csproto's answer differs from the owning runtime's", rb, ra)
				break
			}
		}
		ba, ea := api.marshal(a)
		bb, eb := api.marshal(b)
		if ea != nil || eb != nil {
			continue
		}
		da, derr := t.toDyn(extendee, ba)
		db, _ := t.toDyn(extendee, bb)
		if derr != nil || db == nil || !proto.Equal(da, db) {
			fail("ext/foreign-extendee-state/"+op, "after the same call with a descriptor of another extendee, the message driven through csproto and the one driven through the runtime are different messages", hx(bb), hx(ba))
			break
		}
	}
	Count("foreign-extendee", fmt.Sprint(desc()), outcome, len(order), true)
}

func family(rt string) string {
	if rt == "gogo" {
		return "gogo"
	}
	return "google"
}

func (rn *runner) runExtensions(ts []*Target, n int) {
	for _, t := range ts {
		byExt := map[string][]ExtVar{}
		for _, x := range t.Exts {
			byExt[x.Extendee] = append(byExt[x.Extendee], x)
		}
		var names []string
		for e := range byExt {
			names = append(names, e)
		}
		sort.Strings(names)
		for _, e := range names {
			if _, ok := t.Messages[e]; !ok {
				continue
			}
			for i := 0; i < n; i++ {
				rn.extHistory(t, e, byExt[e], 4+rn.r.Intn(9))
			}
			for _, o := range ts {
				if o.Schema == t.Schema && family(o.Runtime) != family(t.Runtime) {
					for i := 0; i < n/4+1; i++ {
						rn.extMismatch(t, o, e)
					}
				}
			}
			for _, e2 := range names {
				if _, ok := t.Messages[e2]; ok && e2 != e {
					for i := 0; i < n/2+1; i++ {
						rn.extForeign(t, e, byExt[e], byExt[e2])
					}
				}
			}
		}
	}
}
