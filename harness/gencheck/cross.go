package gencheck

// Workloads that cross component boundaries or goroutines:
//
//   - firstUse (C04, C09): CONCURRENT FIRST USE of a message type. csproto keeps process-wide state about Go types
//     (the message-type cache behind MsgType, which the generated code of a type with proto2 extensions consults
//     through csproto.HasExtension / GetExtension). Every round empties that state (csproto.VerifResetMsgTypeCache,
//     `verif` build tag) and releases several goroutines at once, each working on a message of its own.
//   - priorActivity (C10): OTHER COMPONENTS RAN BEFORE the Unmarshal under test — lazyproto decodes in both modes,
//     hand-written decoders switched to fast mode and dropped, generated code with the unsafe option — so that state
//     that outlives a decode (pools, caches) is in whatever condition those left it in.
//   - lazyClobber (C10): the lazyproto half of the property on the same inputs.
//   - runtimeOnlyHistory (C09): the Unmarshal/Marshal clause through csproto for a message served by the
//     google.golang.org/protobuf arm of the dispatchers.

import (
	"bytes"
	"fmt"
	"reflect"
	"runtime"
	"sort"
	"strings"
	"sync"
	"sync/atomic"
	"time"

	"github.com/CrowdStrike/csproto"
	"github.com/CrowdStrike/csproto/lazyproto"
	"google.golang.org/protobuf/proto"
	"google.golang.org/protobuf/reflect/protoreflect"
	"google.golang.org/protobuf/types/descriptorpb"
	"google.golang.org/protobuf/types/dynamicpb"
)

// ---------- concurrent first use ----------

// spinBarrier lines goroutines up to within a few tens of nanoseconds (a channel close wakes them one by one).
type spinBarrier struct {
	n, count, gen int32
}

func (b *spinBarrier) wait() {
	g := atomic.LoadInt32(&b.gen)
	if atomic.AddInt32(&b.count, 1) == b.n {
		atomic.StoreInt32(&b.count, 0)
		atomic.AddInt32(&b.gen, 1)
		return
	}
	// spin briefly (the others are a few instructions away when the machine is idle), then give the processor
	// up: on a loaded machine a waiting goroutine must not burn the time slice the missing one needs
	for i := 1; atomic.LoadInt32(&b.gen) == g; i++ {
		switch {
		case i < 3000:
		case i < 3200:
			runtime.Gosched()
		default:
			time.Sleep(20 * time.Microsecond)
		}
	}
}

type firstUseFailure struct {
	sig, what, expected, got string
	round, worker            int
	call                     string
}

// firstUse: for every message type of the corpus that can carry proto2 extensions (and a sample of the others),
// `rounds` rounds of: forget everything csproto has learned about Go types; G goroutines, each owning one
// message, start together and call Size / Marshal / MarshalTo (generated methods and csproto.Size / csproto.Marshal).
// C04: no call panics, Size() = len(Marshal()), MarshalTo fills a Size()-byte buffer exactly. C09: each result is
// the bytes the same message gave before, when nothing else was running.
func (rn *runner) firstUse(ts []*Target, rounds int) {
	G := runtime.GOMAXPROCS(0) - 1
	if G > 8 {
		G = 8
	}
	if G < 2 {
		G = 2
	}
	for _, t := range ts {
		for _, name := range sortedNames(t.Messages) {
			xs := t.extsOf(name)
			n := rounds
			if len(xs) == 0 {
				// no generated call depends on per-type state today; keep a thin sample so that a new dependency shows
				if n = rounds / 100; n < 2 {
					n = 2
				}
			}
			rn.firstUseType(t, name, xs, G, n)
		}
	}
}

func (rn *runner) firstUseType(t *Target, name string, xs []ExtVar, G, rounds int) {
	md := t.desc(name)
	api := apiFor(t.Runtime)
	msgs := make([]interface{}, G)
	for g := 0; g < G; g++ {
		// built through the owning runtime (its decoder and its extension API), which does not go through
		// csproto: the rounds below are the first time csproto sees the type (in round 0: the first time in this
		// process, where the workload runs before everything else)
		ref := randMessage(rn.r, md, genOpts{requiredAlways: true, exts: t.extTypes()})
		m, err := t.build(name, ref)
		if err != nil {
			return
		}
		// at least two extensions set
		for k := 0; k < 2 && len(xs) > 0; k++ {
			x := xs[rn.r.Intn(len(xs))]
			if v := t.extValue(rn.r, x); v != nil {
				safeCall(func() { api.set(m, x.Desc, v) })
			}
		}
		msgs[g] = m
	}
	Journal(fmt.Sprintf("%s first-use %s", rn.prop, t.where(name)))
	noMaps := !hasMaps(md, map[protoreflect.FullName]bool{})
	same := func(a, b []byte) bool {
		if noMaps {
			return bytes.Equal(a, b)
		}
		return sameModuloMaps(md, a, b)
	}
	bar := &spinBarrier{n: int32(G)}
	fails := make([]*firstUseFailure, G)
	first := make([][]byte, G) // each goroutine's first result
	var wg sync.WaitGroup
	for g := 0; g < G; g++ {
		wg.Add(1)
		go func(g int) {
			defer wg.Done()
			m := msgs[g]
			fm := m.(FM)
			for r := 0; r < rounds; r++ {
				bar.wait()
				if g == 0 && r > 0 {
					csproto.VerifResetMsgTypeCache() // every round is the first use of the type in this "process"
				}
				bar.wait()
				if fails[g] != nil {
					continue // keep taking part in the barrier
				}
				var size int
				var b []byte
				var err error
				call := ""
				p := safeCall(func() {
					switch (r + g) % 3 {
					case 0:
						call = "Size(); Marshal()"
						size = fm.Size()
						b, err = fm.Marshal()
					case 1:
						call = "csproto.Size(m); csproto.Marshal(m)"
						size = csproto.Size(m)
						b, err = csproto.Marshal(m)
					default:
						call = "Size(); MarshalTo(make([]byte, Size()))"
						size = fm.Size()
						b = bytes.Repeat([]byte{0xAA}, size)
						err = fm.MarshalTo(b)
					}
				})
				f := &firstUseFailure{round: r, worker: g, call: call}
				switch {
				case p != "":
					f.sig, f.what, f.expected, f.got = "first-use/panic", "a Size/Marshal/MarshalTo call panicked during the concurrent first use of the message type", "no panic", p
				case err != nil:
					continue // (a message that cannot be marshaled: the sequential streams deal with it)
				case len(b) != size:
					f.sig, f.what = "first-use/size-vs-marshal", "during the concurrent first use of the message type Size() and the marshaled bytes disagree (this goroutine's own, unshared message)"
					f.expected, f.got = "Size() = len(bytes)", fmt.Sprintf("Size()=%d len(bytes)=%d", size, len(b))
				case first[g] == nil:
					first[g] = append([]byte{}, b...)
					continue
				case !same(b, first[g]):
					f.sig, f.what, f.expected, f.got = "first-use/wrong-bytes", "during the concurrent first use of the message type the marshaled bytes differ from what the same, unmodified message gave in an earlier round", hx(first[g]), hx(b)
				default:
					continue
				}
				fails[g] = f
			}
		}(g)
	}
	wg.Wait()
	// now that nothing else runs: what each message marshals to
	var values []string
	for g := 0; g < G; g++ {
		var want []byte
		var werr error
		if p := safeCall(func() { want, werr = msgs[g].(FM).Marshal() }); p != "" || werr != nil {
			values = append(values, "?")
			continue
		}
		values = append(values, trunc(hx(want), 120))
		if fails[g] == nil && first[g] != nil && !same(first[g], want) {
			fails[g] = &firstUseFailure{sig: "first-use/wrong-bytes", what: "during the concurrent first use of the message type the marshaled bytes differ from the bytes of the same, unmodified message marshaled afterwards on its own",
				expected: hx(want), got: hx(first[g]), round: 0, worker: g, call: "first call of this goroutine"}
		}
	}
	outcome := "ok"
	for _, f := range fails {
		if f == nil {
			continue
		}
		outcome = f.sig
		if rn.prop == "C04" && f.sig == "first-use/wrong-bytes" {
			continue // size and bytes agree with each other: not C04's clause (C09 reports it)
		}
		desc := map[string]interface{}{"type": t.where(name), "workload": fmt.Sprintf("%d goroutines, each with its own message; before every round but the first csproto.VerifResetMsgTypeCache(); all start together", G),
			"round": f.round, "goroutine": f.worker, "call": f.call, "messages (sequential Marshal)": values}
		Violation(rn.prop, "first-use", f.sig, f.what, desc, trunc(f.expected, 300), trunc(f.got, 300))
	}
	Count("first-use", t.where(name), outcome, rounds*G, len(xs) > 0)
}

// ---------- C10: other components ran before ----------

// lazyDef: a lazyproto definition asking for every field of the type (message-typed fields one level down).
func lazyDef(md protoreflect.MessageDescriptor) lazyproto.Def {
	validTag := func(n protoreflect.FieldNumber) bool { return n >= 1 && n <= 536870911 && (n < 19000 || n > 19999) }
	def := lazyproto.NewDef()
	for i := 0; i < md.Fields().Len(); i++ {
		fd := md.Fields().Get(i)
		if !validTag(fd.Number()) {
			continue
		}
		if fd.Message() != nil {
			var sub []int
			for j := 0; j < fd.Message().Fields().Len(); j++ {
				if n := fd.Message().Fields().Get(j).Number(); validTag(n) {
					sub = append(sub, int(n))
				}
			}
			if len(sub) > 0 {
				def.NestedTag(int(fd.Number()), sub...)
				continue
			}
		}
		def.Tags(int(fd.Number()))
	}
	return def
}

// lazyValues renders every string / bytes value the result hands out (top level and one level down), copying
// nothing: the rendered text is made from whatever memory the values point to at the time of the call.
type lazyView struct {
	path string
	str  []string
	raw  [][]byte
}

func lazyViews(md protoreflect.MessageDescriptor, res *lazyproto.DecodeResult) []lazyView {
	var out []lazyView
	var walk func(md protoreflect.MessageDescriptor, r *lazyproto.DecodeResult, prefix string, depth int)
	walk = func(md protoreflect.MessageDescriptor, r *lazyproto.DecodeResult, prefix string, depth int) {
		for i := 0; i < md.Fields().Len(); i++ {
			fd := md.Fields().Get(i)
			tag := int(fd.Number())
			path := fmt.Sprintf("%s%d", prefix, tag)
			switch {
			case fd.Kind() == protoreflect.StringKind && !fd.IsMap():
				if vs, err := r.StringValues(tag); err == nil {
					out = append(out, lazyView{path: path, str: vs})
				}
			case fd.Kind() == protoreflect.BytesKind && !fd.IsMap():
				if vs, err := r.BytesValues(tag); err == nil {
					out = append(out, lazyView{path: path, raw: vs})
				}
			case fd.Message() != nil && depth == 0:
				subs, err := r.NestedResults(tag)
				if err != nil {
					continue
				}
				for k, sub := range subs {
					if sub != nil {
						walk(fd.Message(), sub, fmt.Sprintf("%s[%d].", path, k), depth+1)
					}
				}
			}
		}
	}
	walk(md, res, "", 0)
	return out
}

func renderViews(vs []lazyView) string {
	var sb strings.Builder
	for _, v := range vs {
		fmt.Fprintf(&sb, "%s=", v.path)
		for _, s := range v.str {
			fmt.Fprintf(&sb, "%q,", s)
		}
		for _, b := range v.raw {
			fmt.Fprintf(&sb, "%x,", b)
		}
		sb.WriteByte(' ')
	}
	return sb.String()
}

// lazyDecode runs one complete lazyproto decode of data (a copy is made: the lazy decode gets a buffer of its
// own) in the given mode; safe mode: the values handed out must survive the overwriting of that buffer
// (the lazyproto half of C10). The result is closed at the end.
func (rn *runner) lazyDecode(t *Target, name string, data []byte, fast, viaFunc bool) {
	md := t.desc(name)
	def := lazyDef(md)
	if len(def) == 0 || len(data) == 0 {
		return
	}
	buf := append([]byte{}, data...)
	var res *lazyproto.DecodeResult
	mode := "safe"
	if viaFunc {
		mode = "package-level Decode"
		safeCall(func() {
			if r, err := lazyproto.Decode(buf, def); err == nil {
				res = &r
			}
		})
	} else {
		m := csproto.DecoderModeSafe
		if fast {
			m, mode = csproto.DecoderModeFast, "fast"
		}
		safeCall(func() {
			if dec, err := lazyproto.NewDecoder(def, lazyproto.WithMode(m)); err == nil {
				res, _ = dec.Decode(buf)
			}
		})
	}
	if res == nil {
		return
	}
	var views []lazyView
	if p := safeCall(func() { views = lazyViews(md, res) }); p != "" {
		return // C13 / C14's business
	}
	if !fast && len(views) > 0 {
		before := renderViews(views)
		for i := range buf {
			buf[i] = 0xff
		}
		buf = buf[:0]
		after := renderViews(views)
		outcome := "intact"
		if after != before {
			outcome = "changed"
			desc := map[string]interface{}{"type": t.where(name), "encoding": trunc(hx(data), 600), "lazy decoder mode": mode}
			Violation("C10", "lazy-clobber", "lazy-aliases-input", "string / bytes values obtained from a lazy decode result (safe mode) changed after the caller overwrote and truncated the input buffer", desc, trunc(before, 300), trunc(after, 300))
		}
		Count("lazy-clobber", t.where(name)+hx(data)+mode, outcome, len(data), true)
	}
	safeCall(func() { res.Close() })
}

// handBack calls the method, if the Decoder type has one, that gives a decoder back for reuse (no such method
// today; a pooled decoder would come with one).
func handBack(d *csproto.Decoder) {
	v := reflect.ValueOf(d)
	for _, n := range []string{"Release", "Close", "Free", "Recycle"} {
		if m := v.MethodByName(n); m.IsValid() && m.Type().NumIn() == 0 {
			safeCall(func() { m.Call(nil) })
			return
		}
	}
}

// priorActivity: what ran in the process before the Unmarshal under test. It returns a description for the
// violation report ("" when nothing ran).
func (rn *runner) priorActivity(ts []*Target, t *Target, name string, enc []byte) string {
	if rn.r.Chance(1, 3) {
		return ""
	}
	var did []string
	for k := 1 + rn.r.Intn(3); k > 0; k-- {
		switch rn.r.Intn(6) {
		case 0:
			did = append(did, "lazyproto decode (safe mode) + accessors + Close")
			rn.lazyDecode(t, name, enc, false, false)
		case 1:
			did = append(did, "lazyproto decode (fast mode) + accessors + Close")
			rn.lazyDecode(t, name, enc, true, false)
		case 2:
			did = append(did, "lazyproto.Decode (package level) + accessors")
			rn.lazyDecode(t, name, enc, false, true)
		case 3:
			// a hand-written decoder in fast mode walks the same bytes and is dropped (handed back where the API allows)
			did = append(did, "csproto.NewDecoder + SetMode(fast) + read all fields, dropped")
			safeCall(func() {
				d := csproto.NewDecoder(append([]byte{}, enc...))
				d.SetMode(csproto.DecoderModeFast)
				for d.More() {
					tag, wt, err := d.DecodeTag()
					if err != nil {
						break
					}
					if wt == csproto.WireTypeLengthDelimited {
						if _, err = d.DecodeString(); err != nil {
							break
						}
					} else if _, err = d.Skip(tag, wt); err != nil {
						break
					}
				}
				handBack(d)
			})
		case 4:
			// a decoder whose mode is switched back and forth, then dropped
			did = append(did, "csproto.NewDecoder + SetMode(fast) + SetMode(safe) + SetMode(fast), dropped")
			safeCall(func() {
				d := csproto.NewDecoder(append([]byte{}, enc...))
				d.SetMode(csproto.DecoderModeFast)
				d.SetMode(csproto.DecoderModeSafe)
				d.DecodeTag()
				d.SetMode(csproto.DecoderModeFast)
				handBack(d)
			})
		default:
			// generated code with the unsafe-decoding option on another message
			var us []*Target
			for _, o := range ts {
				if o.Unsafe && o.Schema == t.Schema {
					us = append(us, o)
				}
			}
			if len(us) == 0 {
				continue
			}
			o := us[rn.r.Intn(len(us))]
			f, ok := o.Messages[name]
			if !ok {
				continue
			}
			did = append(did, "generated Unmarshal with enableunsafedecode=true ("+o.where(name)+")")
			safeCall(func() { f.New().(FM).Unmarshal(append([]byte{}, enc...)) })
		}
	}
	return strings.Join(did, " ; ")
}

// ---------- C09: a message served by the google.golang.org/protobuf arm ----------

// runtimeOnlyHistory: csproto.Unmarshal / GrpcCodec.Unmarshal into a USED message that has no generated methods
// (descriptorpb types: the proto.Message arm of the dispatchers), payloads including the empty ones; afterwards
// the message must hold the payload's contents, and csproto.Marshal must return the bytes of a fresh copy.
func (rn *runner) runtimeOnlyHistory(n int) {
	mk := func(k int) proto.Message {
		switch k % 3 {
		case 0:
			return &descriptorpb.EnumValueDescriptorProto{Name: proto.String(fmt.Sprint("v", k)), Number: proto.Int32(int32(k))}
		case 1:
			return &descriptorpb.FieldDescriptorProto{Name: proto.String("f"), Number: proto.Int32(int32(k + 1)), JsonName: proto.String("j"), Options: &descriptorpb.FieldOptions{Packed: proto.Bool(k%2 == 0)}}
		}
		return &descriptorpb.DescriptorProto{Name: proto.String("M"), ReservedName: []string{"a", "b"}, Field: []*descriptorpb.FieldDescriptorProto{{Name: proto.String("x")}}}
	}
	var codec csproto.GrpcCodec
	for i := 0; i < n; i++ {
		m := mk(i)
		var log []string
		for step := 0; step < 4; step++ {
			var payload []byte
			what := "other"
			switch rn.r.Intn(4) {
			case 0:
				payload, what = nil, "nil"
			case 1:
				payload, what = []byte{}, "empty"
			default:
				payload, _ = proto.Marshal(mk(i + step + 1))
			}
			route := "csproto.Unmarshal"
			if rn.r.Bool() {
				route = "GrpcCodec.Unmarshal"
			}
			log = append(log, route+"("+what+")")
			call := func(dst proto.Message) (err error) {
				if route == "csproto.Unmarshal" {
					return csproto.Unmarshal(clonePayload(payload), dst)
				}
				return codec.Unmarshal(clonePayload(payload), dst)
			}
			fresh := m.ProtoReflect().New().Interface()
			var e1, e2 error
			if p := safeCall(func() { e1 = call(m); e2 = call(fresh) }); p != "" || e1 != nil || e2 != nil {
				break
			}
			desc := map[string]interface{}{"type": string(m.ProtoReflect().Descriptor().FullName()) + " (no generated methods)", "history": strings.Join(log, " ; "), "payload": hx(payload)}
			if !proto.Equal(m, fresh) {
				Violation("C09", "histories", "stale-state/unmarshal-keeps-earlier-contents", "after Unmarshal the message does not hold the payload's contents: the same call on a new message leaves different contents", desc, fmt.Sprint(fresh), fmt.Sprint(m))
				Count("histories", fmt.Sprint(desc), "stale", step, true)
				return
			}
			log = append(log, "csproto.Marshal")
			var got []byte
			var err error
			safeCall(func() { got, err = csproto.Marshal(m) })
			want, _ := proto.Marshal(proto.Clone(m))
			if err == nil && !bytes.Equal(got, want) {
				Violation("C09", "histories", "stale-state/marshal-differs-from-fresh-copy", "csproto.Marshal returned bytes that differ from marshaling a fresh deep copy of the current contents", desc, hx(want), hx(got))
				return
			}
			Count("histories", fmt.Sprint(desc), "ok-runtime-only", len(got), true)
		}
	}
}

var _ = sort.Strings
var _ = dynamicpb.NewMessage
