package gencheck

// Rendering of (descriptor, message) into the line protocol of the Lean model of the generated code
// (lean/Driver/Gen.lean): the schema in the field order the generated code visits, the value with the
// exact Go-level bit patterns, map entries in a canonical order.

import (
	"bytes"
	"fmt"
	"math"
	"sort"
	"strings"

	"google.golang.org/protobuf/encoding/protowire"
	"google.golang.org/protobuf/proto"
	"google.golang.org/protobuf/reflect/protoreflect"
	"google.golang.org/protobuf/types/dynamicpb"
)

type modelSchema struct {
	canonNaN bool // render every NaN as one token (decoded values pass through float64, which quiets signalling NaNs)
	index    map[protoreflect.FullName]int
	mds      []protoreflect.MessageDescriptor
	text     string
	ok       bool // false: uses a feature the model does not cover (extensions, groups)
	foreign  bool // contains a message type without generated code (well-known types): decoded by the runtime
}

// visitOrder: declared fields that are not members of a real oneof, then the members of each real oneof
// (the order of the template's `range .Fields` / `range .Oneofs`).
func visitOrder(md protoreflect.MessageDescriptor) []protoreflect.FieldDescriptor {
	var out []protoreflect.FieldDescriptor
	for i := 0; i < md.Fields().Len(); i++ {
		fd := md.Fields().Get(i)
		if o := fd.ContainingOneof(); o == nil || o.IsSynthetic() {
			out = append(out, fd)
		}
	}
	for i := 0; i < md.Oneofs().Len(); i++ {
		o := md.Oneofs().Get(i)
		if o.IsSynthetic() {
			continue
		}
		for j := 0; j < o.Fields().Len(); j++ {
			out = append(out, o.Fields().Get(j))
		}
	}
	// … then the proto2 extensions of md that the generated code knows (`range getExtensions .`)
	out = append(out, knownExtensions(md)...)
	return out
}

var knownExtCache = map[protoreflect.FullName][]protoreflect.FieldDescriptor{}

// knownExtensions: the proto2 extensions of md that the code generated for md handles — those declared in md's own
// .proto file — in the order of the generator's getExtensions(): the file-level declarations first, then the
// declarations inside the messages of the file, breadth first. The descriptors are extension TYPE descriptors
// (dynamicpb), so that Has/Get of a dynamic message accept them.
func knownExtensions(md protoreflect.MessageDescriptor) []protoreflect.FieldDescriptor {
	if md.ExtensionRanges().Len() == 0 {
		return nil
	}
	if xs, ok := knownExtCache[md.FullName()]; ok {
		return xs
	}
	var out []protoreflect.FieldDescriptor
	add := func(xs protoreflect.ExtensionDescriptors) {
		for i := 0; i < xs.Len(); i++ {
			if xs.Get(i).ContainingMessage().FullName() == md.FullName() {
				out = append(out, dynamicpb.NewExtensionType(xs.Get(i)).TypeDescriptor())
			}
		}
	}
	f := md.ParentFile()
	add(f.Extensions())
	var queue []protoreflect.MessageDescriptor
	for i := 0; i < f.Messages().Len(); i++ {
		queue = append(queue, f.Messages().Get(i))
	}
	for len(queue) > 0 {
		m := queue[0]
		queue = queue[1:]
		add(m.Extensions())
		for i := 0; i < m.Messages().Len(); i++ {
			if mm := m.Messages().Get(i); !mm.IsMapEntry() {
				queue = append(queue, mm)
			}
		}
	}
	knownExtCache[md.FullName()] = out
	return out
}

func kindName(k protoreflect.Kind) string {
	switch k {
	case protoreflect.DoubleKind:
		return "double"
	case protoreflect.FloatKind:
		return "float"
	case protoreflect.Int32Kind:
		return "int32"
	case protoreflect.Int64Kind:
		return "int64"
	case protoreflect.Uint32Kind:
		return "uint32"
	case protoreflect.Uint64Kind:
		return "uint64"
	case protoreflect.Sint32Kind:
		return "sint32"
	case protoreflect.Sint64Kind:
		return "sint64"
	case protoreflect.Fixed32Kind:
		return "fixed32"
	case protoreflect.Fixed64Kind:
		return "fixed64"
	case protoreflect.Sfixed32Kind:
		return "sfixed32"
	case protoreflect.Sfixed64Kind:
		return "sfixed64"
	case protoreflect.BoolKind:
		return "bool"
	case protoreflect.StringKind:
		return "string"
	case protoreflect.BytesKind:
		return "bytes"
	case protoreflect.EnumKind:
		return "enum"
	}
	return "?"
}

func buildModelSchema(root protoreflect.MessageDescriptor) *modelSchema {
	ms := &modelSchema{index: map[protoreflect.FullName]int{}, ok: true}
	var add func(md protoreflect.MessageDescriptor)
	add = func(md protoreflect.MessageDescriptor) {
		if _, seen := ms.index[md.FullName()]; seen {
			return
		}
		ms.index[md.FullName()] = len(ms.mds)
		ms.mds = append(ms.mds, md)
		if md.ParentFile().Path() != root.ParentFile().Path() {
			// a message type of another .proto file (an imported file that is not generated with this one, a well-known type): it is
			// decoded by its own runtime, whose acceptance of malformed input is not part of the model of the generated code
			ms.foreign = true
		}
		if strings.HasPrefix(md.ParentFile().Path(), "google/protobuf/") {
			ms.foreign = true
			if md.ExtensionRanges().Len() > 0 {
				// descriptor.proto's option messages: marshaled by their runtime, in an order of its own
				ms.ok = false
			}
		}
		for _, fd := range visitOrder(md) {
			if fd.Kind() == protoreflect.GroupKind {
				ms.ok = false
			}
			if fd.Message() != nil {
				add(fd.Message())
			}
		}
	}
	add(root)
	var msgs []string
	for _, md := range ms.mds {
		var fs []string
		groups := map[protoreflect.FullName]int{}
		for _, fd := range visitOrder(md) {
			ty := kindName(fd.Kind())
			if fd.Message() != nil {
				ty = fmt.Sprintf("m%d", ms.index[fd.Message().FullName()])
			}
			card := "i"
			switch {
			case fd.IsExtension() && fd.IsList():
				card = "l" // a repeated extension is written one record per element, whatever its packed option says
			case fd.IsExtension():
				card = "x" // a singular extension: presence and value live in the runtime's extension store
			case md.IsMapEntry():
				card = "a"
			case fd.IsMap():
				card = "m"
			case fd.IsList():
				card = "l"
				if fd.IsPacked() {
					card = "p"
				}
			case fd.ContainingOneof() != nil && !fd.ContainingOneof().IsSynthetic():
				g, ok := groups[fd.ContainingOneof().FullName()]
				if !ok {
					g = len(groups)
					groups[fd.ContainingOneof().FullName()] = g
				}
				card = fmt.Sprintf("o%d", g)
			case fd.Cardinality() == protoreflect.Required:
				card = "r"
			case fd.HasPresence():
				card = "e"
			}
			fs = append(fs, fmt.Sprintf("%d:%s:%s", fd.Number(), ty, card))
		}
		if len(fs) == 0 {
			msgs = append(msgs, "-")
		} else {
			msgs = append(msgs, strings.Join(fs, ","))
		}
	}
	ms.text = strings.Join(msgs, "|")
	return ms
}

func (ms *modelSchema) scalarToken(fd protoreflect.FieldDescriptor, v protoreflect.Value) string {
	if ms.canonNaN && (fd.Kind() == protoreflect.FloatKind || fd.Kind() == protoreflect.DoubleKind) && math.IsNaN(v.Float()) {
		return "nNaN"
	}
	switch fd.Kind() {
	case protoreflect.BoolKind:
		if v.Bool() {
			return "n1"
		}
		return "n0"
	case protoreflect.Int32Kind, protoreflect.Sint32Kind, protoreflect.Sfixed32Kind:
		return fmt.Sprintf("n%d", uint32(int32(v.Int())))
	case protoreflect.EnumKind:
		return fmt.Sprintf("n%d", uint32(int32(v.Enum())))
	case protoreflect.Int64Kind, protoreflect.Sint64Kind, protoreflect.Sfixed64Kind:
		return fmt.Sprintf("n%d", uint64(v.Int()))
	case protoreflect.Uint32Kind, protoreflect.Fixed32Kind, protoreflect.Uint64Kind, protoreflect.Fixed64Kind:
		return fmt.Sprintf("n%d", v.Uint())
	case protoreflect.FloatKind:
		return fmt.Sprintf("n%d", math.Float32bits(float32(v.Float())))
	case protoreflect.DoubleKind:
		return fmt.Sprintf("n%d", math.Float64bits(v.Float()))
	case protoreflect.StringKind:
		return "h" + hx([]byte(v.String()))
	case protoreflect.BytesKind:
		return "h" + hx(v.Bytes())
	}
	return "?"
}

// keyWire: the wire bytes of a map key (the canonical entry order sorts by them)
func keyWire(fd protoreflect.FieldDescriptor, k protoreflect.MapKey) []byte {
	v := k.Value()
	switch fd.Kind() {
	case protoreflect.BoolKind:
		return protowire.AppendVarint(nil, protowire.EncodeBool(v.Bool()))
	case protoreflect.Int32Kind, protoreflect.Int64Kind:
		return protowire.AppendVarint(nil, uint64(v.Int()))
	case protoreflect.Sint32Kind, protoreflect.Sint64Kind:
		return protowire.AppendVarint(nil, protowire.EncodeZigZag(v.Int()))
	case protoreflect.Uint32Kind, protoreflect.Uint64Kind:
		return protowire.AppendVarint(nil, v.Uint())
	case protoreflect.Fixed32Kind:
		return protowire.AppendFixed32(nil, uint32(v.Uint()))
	case protoreflect.Sfixed32Kind:
		return protowire.AppendFixed32(nil, uint32(v.Int()))
	case protoreflect.Fixed64Kind:
		return protowire.AppendFixed64(nil, v.Uint())
	case protoreflect.Sfixed64Kind:
		return protowire.AppendFixed64(nil, uint64(v.Int()))
	case protoreflect.StringKind:
		return protowire.AppendBytes(nil, []byte(v.String()))
	}
	return nil
}

// nilMapEntry names one entry of a message-valued map field of the top-level message whose Go value is a
// nil pointer. A protoreflect message cannot hold such an entry, so it travels next to the reference value;
// the model sees it as an entry whose value position holds the "unset" token: `{ <key> _ } u-`.
type nilMapEntry struct {
	fd  protoreflect.FieldDescriptor
	key protoreflect.MapKey
}

func (ms *modelSchema) valueTokens(m protoreflect.Message, out *[]string) {
	ms.valueTokensNil(m, nil, out)
}

// valueTokensNil renders m; nilEnt (may be nil) is an additional nil-valued entry of one of m's own map fields.
func (ms *modelSchema) valueTokensNil(m protoreflect.Message, nilEnt *nilMapEntry, out *[]string) {
	*out = append(*out, "{")
	for _, fd := range visitOrder(m.Descriptor()) {
		switch {
		case fd.IsMap():
			mp := m.Get(fd).Map()
			type ent struct {
				kw    []byte
				k     protoreflect.MapKey
				v     protoreflect.Value
				isNil bool
			}
			var es []ent
			mp.Range(func(k protoreflect.MapKey, v protoreflect.Value) bool {
				es = append(es, ent{keyWire(fd.MapKey(), k), k, v, false})
				return true
			})
			if nilEnt != nil && nilEnt.fd.Number() == fd.Number() && fd.MapValue().Message() != nil && !mp.Has(nilEnt.key) {
				es = append(es, ent{keyWire(fd.MapKey(), nilEnt.key), nilEnt.key, protoreflect.Value{}, true})
			}
			sort.Slice(es, func(i, j int) bool { return bytes.Compare(es[i].kw, es[j].kw) < 0 })
			*out = append(*out, "[")
			for _, e := range es {
				*out = append(*out, "{", ms.scalarToken(fd.MapKey(), e.k.Value()))
				if e.isNil {
					*out = append(*out, "_") // nil pointer in value position
				} else if fd.MapValue().Message() != nil {
					ms.valueTokens(e.v.Message(), out)
				} else {
					*out = append(*out, ms.scalarToken(fd.MapValue(), e.v))
				}
				*out = append(*out, "}", "u-")
			}
			*out = append(*out, "]")
		case fd.IsList():
			l := m.Get(fd).List()
			*out = append(*out, "[")
			for i := 0; i < l.Len(); i++ {
				if fd.Message() != nil {
					ms.valueTokens(l.Get(i).Message(), out)
				} else {
					*out = append(*out, ms.scalarToken(fd, l.Get(i)))
				}
			}
			*out = append(*out, "]")
		case fd.Message() != nil:
			if m.Has(fd) {
				ms.valueTokens(m.Get(fd).Message(), out)
			} else {
				*out = append(*out, "_")
			}
		case fd.HasPresence():
			if m.Has(fd) {
				*out = append(*out, ms.scalarToken(fd, m.Get(fd)))
			} else {
				*out = append(*out, "_")
			}
		default:
			*out = append(*out, ms.scalarToken(fd, m.Get(fd))) // implicit presence: always a Go value
		}
	}
	*out = append(*out, "}", "u"+hx(m.GetUnknown()))
}

func (ms *modelSchema) value(m protoreflect.Message) string {
	return ms.valueNil(m, nil)
}

// valueNil: the value of m plus (nilEnt != nil) one nil-valued entry of one of its message-valued maps.
func (ms *modelSchema) valueNil(m protoreflect.Message, nilEnt *nilMapEntry) string {
	var toks []string
	ms.valueTokensNil(m, nilEnt, &toks)
	return strings.Join(toks, " ")
}

// hasExtensionsSet: the value uses proto2 extensions anywhere (not covered by the model)
func usesUnmodelled(m protoreflect.Message) bool {
	bad := false
	m.Range(func(fd protoreflect.FieldDescriptor, v protoreflect.Value) bool {
		if fd.IsExtension() {
			known := false
			for _, x := range knownExtensions(m.Descriptor()) {
				if x.Number() == fd.Number() {
					known = true
				}
			}
			if !known { // declared in another file: the code generated for the extendee cannot know it
				bad = true
				return false
			}
		}
		return true
	})
	return bad
}

// uninitExtensionValue: somewhere in m a proto2 extension of message type is set to a value with an unset required field
func uninitExtensionValue(m protoreflect.Message) bool {
	bad := false
	var sub func(fd protoreflect.FieldDescriptor, v protoreflect.Value) bool
	sub = func(fd protoreflect.FieldDescriptor, v protoreflect.Value) bool {
		if fd.Message() == nil || fd.IsMap() && fd.MapValue().Message() == nil {
			return true
		}
		each := func(mv protoreflect.Message) {
			if fd.IsExtension() && proto.CheckInitialized(mv.Interface()) != nil {
				bad = true
			} else if uninitExtensionValue(mv) {
				bad = true
			}
		}
		switch {
		case fd.IsMap():
			v.Map().Range(func(_ protoreflect.MapKey, e protoreflect.Value) bool { each(e.Message()); return !bad })
		case fd.IsList():
			for i := 0; i < v.List().Len() && !bad; i++ {
				each(v.List().Get(i).Message())
			}
		default:
			each(v.Message())
		}
		return !bad
	}
	m.Range(sub)
	return bad
}

// canonMapOrder sorts the records of every map field by the wire bytes of the entry key, recursively
// (lengths do not change). Go map iteration order is the only nondeterminism of the generated Marshal.
func canonMapOrder(md protoreflect.MessageDescriptor, b []byte) []byte {
	rs, ok := parseRecs(b)
	if !ok {
		return b
	}
	// canonicalise nested payloads first
	for i, x := range rs {
		fd := md.Fields().ByNumber(x.num)
		if fd == nil || x.typ != protowire.BytesType || fd.Message() == nil {
			continue
		}
		if fd.IsMap() {
			if vd := fd.MapValue(); vd.Message() != nil {
				ers, ok := parseRecs(payloadOf(x))
				if ok {
					for j, e := range ers {
						if e.num == 2 && e.typ == protowire.BytesType {
							ers[j] = lenRec(2, canonMapOrder(vd.Message(), payloadOf(e)))
						}
					}
					rs[i] = lenRec(x.num, emitRecs(ers))
				}
			}
			continue
		}
		rs[i] = lenRec(x.num, canonMapOrder(fd.Message(), payloadOf(x)))
	}
	keyOf := func(x rec) []byte {
		ers, ok := parseRecs(payloadOf(x))
		if !ok {
			return nil
		}
		for _, e := range ers {
			if e.num == 1 {
				return e.val
			}
		}
		return nil
	}
	// stable sort of each maximal run of records of one map field
	for i := 0; i < len(rs); {
		fd := md.Fields().ByNumber(rs[i].num)
		j := i + 1
		if fd != nil && fd.IsMap() {
			for j < len(rs) && rs[j].num == rs[i].num {
				j++
			}
			run := rs[i:j]
			sort.SliceStable(run, func(a, c int) bool { return bytes.Compare(keyOf(run[a]), keyOf(run[c])) < 0 })
		}
		i = j
	}
	return emitRecs(rs)
}

var schemaCache = map[protoreflect.FullName]*modelSchema{}

func modelSchemaFor(md protoreflect.MessageDescriptor) *modelSchema {
	if s, ok := schemaCache[md.FullName()]; ok {
		return s
	}
	s := buildModelSchema(md)
	schemaCache[md.FullName()] = s
	return s
}

// modelMarshal sends one marshal case to the Lean model; impl is what the generated code did. nilEnt (may be
// nil): the Go message marshaled additionally holds that nil-valued map entry, which ref cannot express — the
// model is asked about the value WITH the entry.
func modelMarshal(md protoreflect.MessageDescriptor, ref protoreflect.Message, nilEnt *nilMapEntry, size int, b []byte, merr error, panicked bool) {
	ms := modelSchemaFor(md)
	if !ms.ok || usesUnmodelled(ref) {
		Extra("model-skipped-unmodelled-feature", 1)
		return
	}
	if merr != nil && !panicked && uninitExtensionValue(ref) {
		// Marshal failed, and a message-typed EXTENSION value lacks a required field: Gogo and the golang v1 API keep an
		// extension that arrived as bytes undecoded and refuse to hand out such a value (GetExtension returns an
		// error), so what Size() reports for this unmarshalable message depends on the owning runtime — there are no
		// bytes whose length it could equal. Only "both fail" is compared (the oracle above does that).
		Extra("model-skipped-failed-marshal-with-uninitialised-extension-value", 1)
		return
	}
	impl := fmt.Sprintf("size=%d ok %s", size, hx(canonMapOrder(md, b)))
	switch {
	case panicked:
		impl = fmt.Sprintf("size=%d panic", size)
	case merr != nil:
		impl = fmt.Sprintf("size=%d err", size)
	}
	if nilEnt != nil {
		Extra("model-asked-with-nil-valued-map-entry", 1)
	}
	Model("gen-marshal", "G marshal ; "+ms.text+" ; 0 ; "+ms.valueNil(ref, nilEnt), impl)
}

// modelMarshalTo: the same request as modelMarshal, answered by what a successful MarshalTo() left in a destination
// of Size() bytes that held other data before — the model fills the whole buffer with the encoding.
func modelMarshalTo(md protoreflect.MessageDescriptor, ref protoreflect.Message, nilEnt *nilMapEntry, size int, dest []byte) {
	ms := modelSchemaFor(md)
	if !ms.ok || usesUnmodelled(ref) {
		return
	}
	Model("gen-marshalto-dirty-buffer", "G marshal ; "+ms.text+" ; 0 ; "+ms.valueNil(ref, nilEnt), fmt.Sprintf("size=%d ok %s", size, hx(canonMapOrder(md, dest))))
}

// modelUnmarshal sends one unmarshal case to the Lean model; impl is what the generated code did.
func (rn *runner) modelUnmarshal(t *Target, name string, md protoreflect.MessageDescriptor, enc []byte, m interface{}, uerr error, panicked bool, malformed bool) {
	ms := modelSchemaFor(md)
	if ms.foreign && malformed {
		// a nested well-known type is decoded by the Protobuf runtime, whose acceptance of malformed
		// input is not part of the model of the generated code
		Extra("model-skipped-foreign-message-malformed-input", 1)
		return
	}
	if !ms.ok {
		Extra("model-skipped-unmodelled-feature", 1)
		return
	}
	impl := "err"
	switch {
	case panicked:
		impl = "panic"
	case uerr == nil:
		got, rerr := t.readBack(name, m)
		if rerr != nil {
			return
		}
		gd, derr := t.toDyn(name, got)
		if derr != nil {
			return
		}
		out := *ms
		out.canonNaN = true
		impl = "ok " + out.value(gd)
	}
	fast := "0"
	if t.Unsafe {
		fast = "1"
	}
	Model("gen-unmarshal", "G unmarshal ; "+ms.text+" ; 0 ; "+fast+" ; "+hx(enc), impl)
}
