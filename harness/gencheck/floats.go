package gencheck

import (
	"math"

	"csverif/internal/prng"
)

func floatFrom32(r *prng.Rng, bits uint32) float32 {
	switch r.Intn(8) {
	case 0:
		return 0
	case 1:
		return float32(math.Copysign(0, -1))
	case 2:
		return float32(math.Inf(1))
	case 3:
		return 1.5
	case 4:
		return math.Float32frombits(0x7fc00000) // a NaN (payload-free: proto.Equal treats NaNs as equal)
	}
	f := math.Float32frombits(bits)
	if f != f {
		return 2.25
	}
	return f
}

func floatFrom64(r *prng.Rng, bits uint64) float64 {
	switch r.Intn(8) {
	case 0:
		return 0
	case 1:
		return math.Copysign(0, -1)
	case 2:
		return math.Inf(-1)
	case 3:
		return -2.5
	case 4:
		return math.NaN()
	}
	f := math.Float64frombits(bits)
	if f != f {
		return 3.75
	}
	return f
}
