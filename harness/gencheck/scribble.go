package gencheck

import (
	"reflect"
	"strings"
)

// scribble overwrites, IN PLACE, everything a decoded message hands to its owner through a pointer or a slice: the
// pointees of optional scalar fields (`*m.Flag = !*m.Flag`), the elements of repeated scalar fields, the bytes of bytes
// fields, recursively through nested messages, lists of messages and oneof wrappers.  A decoded message belongs to the
// caller, who may do this; nothing a LATER Unmarshal (or Marshal) returns may depend on it.  Called after a case's
// comparisons are done, so that whatever the generated code or the csproto helpers share between results (pointer helpers
// handing out package-level variables, cached empty slices, pooled scratch space) shows up as a wrong value in a later case.
var scribbled, scribbleCalls int

func scribble(m interface{}) int {
	return scribbleValue(reflect.ValueOf(m), 0)
}

func scribbleScalar(v reflect.Value) bool {
	switch v.Kind() {
	case reflect.Bool:
		v.SetBool(!v.Bool())
	case reflect.Int32, reflect.Int64:
		v.SetInt(v.Int() ^ 0x55)
	case reflect.Uint32, reflect.Uint64:
		v.SetUint(v.Uint() ^ 0x55)
	case reflect.Float32, reflect.Float64:
		v.SetFloat(v.Float() + 1.5)
	case reflect.String:
		v.SetString(v.String() + "~")
	default:
		return false
	}
	return true
}

func scribbleValue(v reflect.Value, depth int) int {
	if depth > 6 || !v.IsValid() {
		return 0
	}
	n := 0
	switch v.Kind() {
	case reflect.Interface:
		if !v.IsNil() {
			n += scribbleValue(v.Elem(), depth)
		}
	case reflect.Ptr:
		if v.IsNil() {
			return 0
		}
		e := v.Elem()
		if e.Kind() == reflect.Struct {
			for i := 0; i < e.NumField(); i++ {
				sf := e.Type().Field(i)
				if sf.PkgPath != "" || strings.HasPrefix(sf.Name, "XXX_") {
					continue
				}
				f := e.Field(i)
				switch f.Kind() {
				case reflect.Ptr, reflect.Interface, reflect.Slice:
					n += scribbleValue(f, depth+1)
				}
			}
		} else if e.CanSet() && scribbleScalar(e) {
			n++
		}
	case reflect.Slice:
		for i := 0; i < v.Len(); i++ {
			el := v.Index(i)
			switch el.Kind() {
			case reflect.Uint8:
				el.SetUint(0xEE)
				n++
			case reflect.Ptr, reflect.Interface, reflect.Slice:
				n += scribbleValue(el, depth+1)
			default:
				if el.CanSet() && scribbleScalar(el) {
					n++
				}
			}
		}
	}
	return n
}
