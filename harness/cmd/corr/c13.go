package main

import (
	"fmt"
	"strings"

	"github.com/CrowdStrike/csproto"
	"github.com/CrowdStrike/csproto/lazyproto"

	"csverif/internal/fw"
)

func init() { props["C13"] = runC13 }

// lazyCase: one message, one definition, a batch of accessor requests, one entry point / mode.
func lazyCase(c *fw.Ctx, stream string, malformed bool) {
	r := c.Rng
	fs := genLzFields(r, 0)
	def := genLzDef(r, fs, 0)
	data := encodeLz(r, fs)
	if r.Chance(1, 25) {
		data = nil // the empty message
	}
	orig := append([]byte{}, data...)
	if malformed {
		switch r.Intn(6) {
		case 5: // a record with field number 0 between two records of the message (top level or inside a length-delimited payload)
			data = lzSpliceRecord(r, data, lzZeroKeyRecord(r))
		case 0:
			if len(data) > 0 {
				data = data[:r.Intn(len(data))]
			}
		case 1:
			if len(data) > 0 {
				data[r.Intn(len(data))] ^= byte(1 << uint(r.Intn(8)))
			}
		case 2:
			data = r.Bytes(r.Intn(20))
		case 3: // same tag with two wire types
			data = append(data, 0x08, 0x01, 0x0d, 1, 2, 3, 4, 0x0a, 0x00)
		default:
			if len(data) > 0 {
				i := r.Intn(len(data))
				data[i] |= 0x80
			}
		}
	}
	fast := r.Bool()
	viaFunc := r.Chance(1, 3) // deprecated package-level Decode
	pooled := "1"
	if viaFunc {
		pooled = "0"
	}
	desc := fmt.Sprintf("def=%s fast=%v func=%v data=%s", def.String(), fast, viaFunc, trunc(hexs(data), 600))
	c.Journal("C13 " + desc)
	modelData := data
	if viaFunc && len(def.entries) == 0 {
		modelData = nil // Decode() with an empty definition returns the empty result without looking at the data
	}
	req := []string{fmt.Sprintf("L %s %s", pooled, def.String()), fmt.Sprintf("decode 0 %s new:0", hexs(modelData))}
	var rep []string
	var res *lazyproto.DecodeResult
	var derr error
	var usedDec *lazyproto.Decoder
	panicked := false
	func() {
		defer func() {
			if x := recover(); x != nil {
				panicked = true
			}
		}()
		if viaFunc {
			var v lazyproto.DecodeResult
			v, derr = lazyproto.Decode(data, def.toDef())
			res = &v
			if len(data) == 0 || len(def.entries) == 0 {
				res = nil // the empty result: every accessor answers not-defined, like a nil result
			}
		} else {
			mode := csproto.DecoderModeSafe
			if fast {
				mode = csproto.DecoderModeFast
			}
			dec, err := lazyproto.NewDecoder(def.toDef(), lazyproto.WithMode(mode))
			if err != nil {
				derr = err
				return
			}
			usedDec = dec
			res, derr = dec.Decode(data)
		}
	}()
	recs, wellFormed := refParse(data)
	_ = recs
	outcome := "decoded"
	switch {
	case panicked:
		rep = append(rep, "panic")
		outcome = "panic"
		c.Violate(fw.Violation{Stream: stream, Signature: "lazy/decode-panic", What: "lazy decode panicked", Input: desc})
	case derr != nil:
		rep = append(rep, "err")
		outcome = "decode-error"
		if wellFormed && !malformed {
			c.Violate(fw.Violation{Stream: stream, Signature: "lazy/decode-error-on-well-formed", What: "lazy decoding failed on a well-formed message", Input: desc, Got: derr.Error()})
		}
	case res == nil || len(data) == 0 || (viaFunc && len(def.entries) == 0):
		rep = append(rep, "nil")
		outcome = "nil-result"
	default:
		rep = append(rep, "ok")
	}
	if outcome == "decoded" || outcome == "nil-result" {
		nAcc := 6
		for i := 0; i < nAcc; i++ {
			path := genLzPath(r, def, fs)
			name := accNames[r.Intn(len(accNames))]
			got := accessPath(res, path, name)
			req = append(req, fmt.Sprintf("acc 0 %s %s", pathString(path), name))
			rep = append(rep, got)
			if got == "panic" {
				outcome = "accessor-panic"
				c.Violate(fw.Violation{Stream: stream, Signature: "lazy/accessor-panic/" + name, What: "accessor panicked", Input: desc + " path=" + pathString(path)})
				break
			}
			if !malformed && wellFormed {
				if want, ok := refPathAnswer(data, def, path, name); ok && want != got {
					outcome = "answer-mismatch"
					c.Violate(fw.Violation{Stream: stream, Signature: "lazy/answer/" + name, What: "accessor result differs from the reference parse of the same bytes",
						Input: desc + " path=" + pathString(path), Expected: trunc(want, 300), Got: trunc(got, 300)})
				}
			}
		}
		if res != nil && !viaFunc {
			func() {
				defer func() {
					if x := recover(); x != nil {
						c.Violate(fw.Violation{Stream: stream, Signature: "lazy/close-panic", What: "Close panicked", Input: desc})
					}
				}()
				res.Close()
			}()
		}
	}
	// a failed pass leaves nothing behind: the well-formed original decoded next with the same Decoder
	// answers exactly as the reference parse of the original
	if malformed && derr != nil && usedDec != nil && len(orig) > 0 {
		func() {
			defer func() {
				if x := recover(); x != nil {
					c.Violate(fw.Violation{Stream: stream, Signature: "lazy/panic-after-failed-decode", What: "decoding a well-formed message after a failed decode panicked", Input: desc})
				}
			}()
			res2, err2 := usedDec.Decode(orig)
			if err2 != nil || res2 == nil {
				if _, ok := refParse(orig); ok && err2 != nil {
					c.Violate(fw.Violation{Stream: stream, Signature: "lazy/decode-error-after-failed-decode", What: "a well-formed message is rejected by a Decoder whose previous input was malformed",
						Input: desc + " then=" + trunc(hexs(orig), 300), Got: err2.Error()})
				}
				return
			}
			for i := 0; i < 6; i++ {
				path := genLzPath(r, def, fs)
				name := accNames[r.Intn(len(accNames))]
				got := accessPath(res2, path, name)
				if want, ok := refPathAnswer(orig, def, path, name); ok && want != got {
					c.Violate(fw.Violation{Stream: stream, Signature: "lazy/answer-after-failed-decode/" + name, What: "after a failed decode, the next result of the same Decoder exposes values that are not those of its own input",
						Input: desc + " then=" + trunc(hexs(orig), 300) + " path=" + pathString(path), Expected: trunc(want, 300), Got: trunc(got, 300)})
					break
				}
			}
			res2.Close()
		}()
	}
	if malformed {
		// on damaged input the property only asks for "an error or a result, never a panic": which error a
		// failing nested decode reports (overflow vs invalid data) is not part of it, and not in the model
		coarse := func(s string) string {
			parts := strings.Split(s, " ; ")
			for i, p := range parts {
				if p == "of" {
					parts[i] = "err"
				}
			}
			return strings.Join(parts, " ; ")
		}
		c.ModelCmp(stream, strings.Join(req, " ; "), coarse(strings.Join(rep, " ; ")), coarse)
	} else {
		c.Model(stream, strings.Join(req, " ; "), strings.Join(rep, " ; "))
	}
	c.Count(stream, desc, outcome, len(data), len(data) > 0 && len(def.entries) > 0)
	if r.Intn(250) == 0 {
		c.Sample(map[string]interface{}{"stream": stream, "case": trunc(desc, 220), "requests": trunc(strings.Join(req[2:], " ; "), 200), "replies": trunc(strings.Join(rep, " ; "), 200)})
	}
}

// lazyReuseCase: ONE Decoder (random mode and buffer-trimming options) decodes a series of messages of one
// schema, each read through random and exhaustive accessor requests, through NestedResult(s), and closed
// before the next one is decoded — so every result after the first lives in a recycled object. Each answer
// must be what the reference parse of THAT message finds (the property quantifies over messages and
// definitions, not over the state the decoder's pool happens to be in).
func lazyReuseCase(c *fw.Ctx) {
	const stream = "reuse"
	r := c.Rng
	fs := genLzFields(r, 0)
	def := genLzDef(r, fs, 0)
	opt := genOptCombo(r)
	opts := opt.options()
	dec, err := lazyproto.NewDecoder(def.toDef(), opts...)
	if err != nil {
		return
	}
	desc := fmt.Sprintf("def=%s %s", def.String(), opt)
	var hist []string
	violated := false
	viol := func(sig, what, want, got string) {
		if violated {
			return
		}
		violated = true
		c.Violate(fw.Violation{Stream: stream, Signature: sig, What: what,
			Input: map[string]interface{}{"decoder": desc, "messages decoded and closed so far, then the failing request": strings.Join(hist, " ; ")}, Expected: trunc(want, 300), Got: trunc(got, 300)})
	}
	rounds := 4 + r.Intn(5)
	for round := 0; round < rounds && !violated; round++ {
		for _, f := range fs {
			f.count = []int{0, 1, 1, 2, 3, 5}[r.Intn(6)]
		}
		in := encodeLz(r, fs)
		nestedBad := false
		if r.Chance(1, 6) {
			if bad, ok := nestedCorruptInput(r, def, fs, in); ok {
				in, nestedBad = bad, true
			}
		}
		hist = append(hist, "decode "+trunc(hexs(in), 400))
		c.Journal("C13 reuse " + desc + " | " + trunc(strings.Join(hist, " ; "), 3000))
		var res *lazyproto.DecodeResult
		var derr error
		if p := safely(func() { res, derr = dec.Decode(append([]byte{}, in...)) }); p != "" {
			viol("lazy/decode-panic", "lazy decode panicked", "", p)
			break
		}
		if derr != nil {
			viol("lazy/decode-error-on-well-formed", "lazy decoding failed on a well-formed message (Decoder used before)", "ok", derr.Error())
			break
		}
		check := func(path []int, name string) {
			got := accessPath(res, path, name)
			hist = append(hist, fmt.Sprintf("%s(%s)", name, pathString(path)))
			if got == "panic" {
				viol("lazy/accessor-panic/"+name, "accessor panicked", "", "panic")
				return
			}
			if want, ok := refPathAnswer(in, def, path, name); ok && want != got {
				viol("lazy/answer-on-reused-decoder/"+name, "accessor result differs from the reference parse of the same bytes (the Decoder had decoded and closed other messages before)", want, got)
			}
			hist = hist[:len(hist)-1]
		}
		if !nestedBad {
			for i := 0; i < 5 && !violated; i++ {
				check(genLzPath(r, def, fs), accNames[r.Intn(len(accNames))])
			}
		}
		// every accessor on one declared tag
		if len(def.entries) > 0 && !violated {
			e := def.entries[r.Intn(len(def.entries))]
			for _, name := range accNames {
				if violated {
					break
				}
				check([]int{e.key}, name)
			}
		}
		// nested results of every declared nested tag, each compared with the reference parse of its own bytes
		for _, e := range def.entries {
			if e.sub == nil || e.key < 0 || violated || res == nil {
				continue
			}
			var nrs []*lazyproto.DecodeResult
			var nerr error
			if p := safely(func() { nrs, nerr = res.NestedResults(e.key) }); p != "" {
				viol("lazy/nesteds-panic", "NestedResults panicked", "", p)
				break
			}
			if nerr != nil {
				continue
			}
			payloads := allPayloads(in, e.key)
			for i, nr := range nrs {
				if nr == nil || i >= len(payloads) || violated {
					continue
				}
				for _, se := range e.sub.entries {
					name := accNames[r.Intn(len(accNames))]
					got := accessPath(nr, []int{se.key}, name)
					if want, ok := refPathAnswer(payloads[i], e.sub, []int{se.key}, name); ok && want != got {
						hist = append(hist, fmt.Sprintf("NestedResults(%d)[%d].%s(%d)", e.key, i, name, se.key))
						viol("lazy/nested-answer-on-reused-decoder/"+name, "a nested result's accessor differs from the reference parse of that occurrence's bytes (the Decoder had decoded and closed other messages before)", want, got)
					}
				}
			}
		}
		if res != nil {
			if p := safely(func() { res.Close() }); p != "" {
				viol("lazy/close-panic", "Close panicked", "", p)
			}
		}
		hist = append(hist, "close")
	}
	outcome := "ok"
	if violated {
		outcome = "violation"
	}
	c.Count(stream, desc+strings.Join(hist, ";"), outcome, len(hist), len(def.entries) > 0)
}

func runC13(c *fw.Ctx) int {
	c.Facts = extractFacts(c)
	c.Prove("C13")
	n := 2500
	if c.Tier == "thorough" {
		n = 120000
	}
	for i := 0; i < n; i++ {
		lazyCase(c, "valid", false)
		if i%3 == 0 {
			lazyCase(c, "malformed", true)
		}
		if i%4 == 0 {
			lazyReuseCase(c)
		}
		if i%4 == 2 {
			lazyLiveCase(c)
		}
		if i%5000 == 4999 {
			c.FlushModel()
		}
	}
	if c.Tier == "thorough" {
		c.LeanChecker("C13")
	}
	return c.Finish(
		"valid: schema-free random value trees (varint / packed varint / fixed32 / packed fixed32 / fixed64 / packed fixed64 / bytes / nested messages to depth 3, 0-3 occurrences per tag, fields interleaved in random order, empty nested messages, the empty message) x random definitions (declared-present, declared-absent, undeclared, negative raw tags, nested defs, nesting declared on non-message tags) x 6 random (path, accessor) requests out of the 26 accessors x {safe, fast} x {Decoder object, deprecated Decode function}; answers compared with the Lean model and with an independent protowire walk; reuse: one Decoder per case (random mode x WithMaxBufferSize {none,0,1,2,64} x buffer filter {none, 1, half, negative, zero, huge, capacity-dependent, cycling}, every combination) decoding 4-8 messages of one schema one after the other (some with a damaged last occurrence of a repeated nested field), each read through random requests, all 26 accessors on one tag and NestedResults of every nested tag, and closed before the next — answers compared with the reference walk of that message only; live: one Decoder per case (same option combinations) with 2-4 root results OPEN AT THE SAME TIME: 14-39 operations drawn from Decode of a further message, path requests of any length (26 accessors) on any open root or nested result, NestedResult / NestedResults handles that are kept and read again later, *FieldData objects taken out with FieldData(path…) and read again later, Close of any open root (not in opening order) or of a nested handle, further Decodes that recycle the closed objects while the other results are still being read; every answer compared with the reference walk of that result's own (sub-)message bytes and, with the observed object identities as the pools' choices, with the Lean pool machine; malformed: the same damaged by truncation / bit flips / junk / mixed wire types / continuation bits / a spliced-in record with field number 0 (key 0x00..0x07, also not minimally spelled; at the top level or inside a length-delimited payload) (no panic, model agreement); one definition in five declares exactly the consecutive field numbers 1..n; requests for tag 0; non-trivial = non-empty message with a non-empty definition",
		append(trustedCommon, "protowire-based reference walk written in the harness (oracle for well-formed messages)"),
		[]string{"error identity compared with errors.Is / errors.As classes: not-found, not-defined, nesting-not-defined, wire-type mismatch, overflow, other",
			"for the empty message / empty nested message declared tags answer not-defined (which wraps not-found)"})
}
