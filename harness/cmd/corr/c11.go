package main

import (
	"bytes"
	"fmt"
	"reflect"
	"strings"
	"sync"

	"github.com/CrowdStrike/csproto"
	gogoproto "github.com/gogo/protobuf/proto"
	protov2 "google.golang.org/protobuf/proto"

	"csverif/internal/fw"
)

func init() { props["C11"] = runC11 }

func capsOf(v interface{}) string {
	b := func(x bool) string {
		if x {
			return "1"
		}
		return "0"
	}
	if v == nil {
		return "10000"
	}
	_, isV2 := v.(protov2.Message)
	isPtr := reflect.TypeOf(v).Kind() == reflect.Ptr
	gm, isV1 := v.(gogoproto.Message)
	reg := false
	if isV1 {
		func() {
			defer func() { recover() }()
			reg = gogoproto.MessageName(gm) != ""
		}()
	}
	return "0" + b(isV2) + b(isPtr) + b(isV1) + b(reg)
}

func safely(f func()) (panicMsg string) {
	defer func() {
		if x := recover(); x != nil {
			panicMsg = fmt.Sprint(x)
		}
	}()
	f()
	return ""
}

// growMessage changes the encoded size of a message through its exported fields (first string, bytes
// or integer field found, depth first); false if it found nothing to change.
func growMessage(v reflect.Value) bool {
	for v.Kind() == reflect.Ptr {
		if v.IsNil() {
			return false
		}
		v = v.Elem()
	}
	if v.Kind() != reflect.Struct {
		return false
	}
	for i := 0; i < v.NumField(); i++ {
		sf := v.Type().Field(i)
		if sf.PkgPath != "" || strings.HasPrefix(sf.Name, "XXX_") {
			continue
		}
		f := v.Field(i)
		switch f.Kind() {
		case reflect.String:
			f.SetString(f.String() + strings.Repeat("g", 200))
			return true
		case reflect.Int32, reflect.Int64:
			f.SetInt(int64(1)<<30 + 12345)
			return true
		case reflect.Uint32, reflect.Uint64:
			f.SetUint(uint64(1)<<30 + 12345)
			return true
		case reflect.Slice:
			if f.Type().Elem().Kind() == reflect.Uint8 {
				f.SetBytes(append(append([]byte{}, f.Bytes()...), bytes.Repeat([]byte{7}, 200)...))
				return true
			}
			for j := 0; j < f.Len(); j++ {
				if growMessage(f.Index(j)) {
					return true
				}
			}
		case reflect.Ptr:
			if !f.IsNil() && f.Elem().Kind() != reflect.Struct {
				switch f.Elem().Kind() {
				case reflect.String:
					f.Elem().SetString(f.Elem().String() + strings.Repeat("g", 200))
					return true
				case reflect.Int32, reflect.Int64:
					f.Elem().SetInt(int64(1)<<30 + 12345)
					return true
				}
			} else if growMessage(f) {
				return true
			}
		}
	}
	return false
}

func classCase(c *fw.Ctx, t shimType) {
	r := c.Rng
	m := t.gen(r)
	desc := t.name
	c.Journal("C11 " + desc)
	bad := func(sig, what, exp, got string) {
		c.Violate(fw.Violation{Stream: "classes", Signature: "shim/" + sig + "/" + t.ops.class, What: what, Input: fmt.Sprintf("%s value=%v", desc, m), Expected: trunc(exp, 300), Got: trunc(got, 300)})
	}
	outcome := "ok"
	fail := func(sig, what, exp, got string) { outcome = sig; bad(sig, what, exp, got) }
	// classification (implementation vs model vs documented class)
	csproto.VerifResetMsgTypeCache()
	mt := int(csproto.MsgType(m))
	c.Model("classes", "M deduce "+capsOf(m), fmt.Sprint(mt))
	if mt != t.mt {
		fail("classification", "MsgType returned the wrong runtime", fmt.Sprint(t.mt), fmt.Sprint(mt))
	}
	if p := safely(func() {
		// Marshal / Size / Unmarshal in both directions
		b1, err := csproto.Marshal(m)
		if err != nil {
			fail("marshal-error", "csproto.Marshal failed", "", err.Error())
			return
		}
		if sz := csproto.Size(m); sz != len(b1) {
			fail("size", "csproto.Size differs from the length of csproto.Marshal", fmt.Sprint(len(b1)), fmt.Sprint(sz))
		}
		m2 := t.fresh()
		if err := t.ops.unmarshal(b1, m2); err != nil || !t.ops.equal(m, m2) {
			fail("marshal-vs-runtime", "bytes from csproto.Marshal do not decode to an equal message with the runtime's Unmarshal", fmt.Sprint(m), fmt.Sprint(m2, err))
		}
		b2, err := t.ops.marshal(m)
		if err != nil {
			fail("runtime-marshal-error", "the runtime's own Marshal failed", "", err.Error())
			return
		}
		m3 := t.fresh()
		if err := csproto.Unmarshal(b2, m3); err != nil || !t.ops.equal(m, m3) {
			fail("unmarshal-vs-runtime", "bytes from the runtime's Marshal do not decode to an equal message with csproto.Unmarshal", fmt.Sprint(m), fmt.Sprint(m3, err))
		}
		// … and into a destination that already holds another value: the runtimes' Unmarshal resets first
		other := t.gen(r)
		d1, d2 := t.ops.clone(other), t.ops.clone(other)
		e1, e2 := csproto.Unmarshal(b2, d1), t.ops.unmarshal(b2, d2)
		if (e1 == nil) != (e2 == nil) || (e1 == nil && !t.ops.equal(d1, d2)) {
			fail("unmarshal-into-used-vs-runtime", "csproto.Unmarshal into a message that already holds data differs from the runtime's Unmarshal into the same message",
				fmt.Sprint(d2, e2), fmt.Sprint(d1, e1))
		}
		d3 := t.ops.clone(other)
		if e3 := (csproto.GrpcCodec{}).Unmarshal(b2, d3); (e3 == nil) != (e2 == nil) || (e3 == nil && !t.ops.equal(d3, d2)) {
			fail("grpc-unmarshal-into-used-vs-runtime", "GrpcCodec.Unmarshal into a message that already holds data differs from the runtime's Unmarshal",
				fmt.Sprint(d2, e2), fmt.Sprint(d3, e3))
		}
		// the gRPC codec is the same pair of functions
		codec := csproto.GrpcCodec{}
		b3, err := codec.Marshal(m)
		m4 := t.fresh()
		uerr := codec.Unmarshal(b3, m4)
		if err != nil || uerr != nil || !t.ops.equal(m, m4) || codec.Name() != "proto" {
			fail("grpc-codec", "GrpcCodec round trip / name", "equal message, name proto", fmt.Sprintf("%v marshalErr=%v unmarshalErr=%v name=%s bytes=%x", m4, err, uerr, codec.Name(), b3))
		}
		// Clone / Equal
		cl := csproto.Clone(m)
		if cl == nil || !t.ops.equal(m, cl) || reflect.ValueOf(cl).Pointer() == reflect.ValueOf(m).Pointer() {
			fail("clone", "csproto.Clone is not a distinct equal copy", fmt.Sprint(m), fmt.Sprint(cl))
			return
		}
		if !t.ops.equal(cl, t.ops.clone(m)) {
			fail("clone-vs-runtime", "csproto.Clone differs from the runtime's Clone", "", "")
		}
		if !csproto.Equal(m, cl) {
			fail("equal", "csproto.Equal(m, clone) is false", "true", "false")
		}
		t.mutate(cl)
		if csproto.Equal(m, cl) != t.ops.equal(m, cl) {
			fail("equal-vs-runtime", "csproto.Equal differs from the runtime's Equal on unequal messages", fmt.Sprint(t.ops.equal(m, cl)), fmt.Sprint(csproto.Equal(m, cl)))
		}
		// MarshalText
		txt, err := csproto.MarshalText(m)
		if err != nil || txt != t.ops.text(m) {
			fail("text", "csproto.MarshalText differs from the runtime's text format", t.ops.text(m), txt)
		}
		// Size / Marshal stay truthful after the message changed (no stale cached size on any path)
		mm := csproto.Clone(m)
		csproto.Size(mm)
		csproto.Marshal(mm)
		if growMessage(reflect.ValueOf(mm)) {
			sz := csproto.Size(mm) // first, so that nothing has refreshed a size cache since the change
			b4, err := csproto.Marshal(mm)
			want, werr := t.ops.marshal(t.ops.clone(mm))
			m5 := t.fresh()
			if err != nil || werr != nil || sz != len(b4) || sz != t.ops.size(t.ops.clone(mm)) || t.ops.unmarshal(b4, m5) != nil || !t.ops.equal(mm, m5) {
				fail("stale-after-mutation", "after Size/Marshal, a field change, and Size/Marshal again: size or bytes are not those of the current contents", fmt.Sprintf("size %d bytes %x", len(want), want), fmt.Sprintf("size %d bytes %x err=%v", sz, b4, err))
			}
		}
		// Reset
		csproto.Reset(cl)
		if !t.ops.equal(cl, t.fresh()) {
			fail("reset", "csproto.Reset did not clear the message", "empty message", fmt.Sprint(cl))
		}
	}); p != "" {
		fail("panic", "a csproto function panicked on a supported message", "", p)
	}
	c.Count("classes", desc+fmt.Sprint(m), outcome, 1, true)
}

func crossRuntimeEqual(c *fw.Ctx, ts []shimType) {
	r := c.Rng
	a, b := ts[r.Intn(len(ts))], ts[r.Intn(len(ts))]
	if a.ops.class == b.ops.class {
		return
	}
	ma, mb := a.gen(r), b.gen(r)
	var got bool
	p0 := safely(func() { got = csproto.Equal(ma, mb) })
	// the model of the dispatcher: different classes -> false whatever a runtime would say
	c.Model("classes", fmt.Sprintf("M equal %d %d 0 1", int(csproto.MsgType(ma)), int(csproto.MsgType(mb))), map[bool]string{true: "panic", false: b01(got)}[p0 != ""])
	if p := p0; p != "" || got {
		c.Violate(fw.Violation{Stream: "classes", Signature: "shim/cross-runtime-equal", What: "Equal on messages of different runtimes must be false, not a panic", Input: a.name + " vs " + b.name, Expected: "false", Got: fmt.Sprint(got, p)})
	}
	c.Count("classes", "cross "+a.name+b.name, "cross-runtime-equal", 1, true)
}

func unsupportedCaseRun(c *fw.Ctx, u unsupportedCase) {
	c.Journal("C11 unsupported " + u.name)
	outcome := "ok"
	check := func(fn string, f func() string, want string) {
		var got string
		if p := safely(func() { got = f() }); p != "" {
			outcome = "panic"
			c.Violate(fw.Violation{Stream: "unsupported", Signature: "shim/unsupported-panic/" + fn, What: fn + " panicked on a value of an unsupported type instead of returning the documented error / zero value", Input: u.name + " (" + describe(u.v) + ")", Expected: want, Got: "panic: " + p})
			return
		}
		if got != want {
			outcome = "wrong-result"
			c.Violate(fw.Violation{Stream: "unsupported", Signature: "shim/unsupported-result/" + fn, What: fn + " did not return the documented result for an unsupported type", Input: u.name + " (" + describe(u.v) + ")", Expected: want, Got: got})
		}
	}
	csproto.VerifResetMsgTypeCache()
	c.Model("unsupported", "M deduce "+capsOf(u.v), fmt.Sprint(func() (s string) {
		defer func() {
			if recover() != nil {
				s = "panic"
			}
		}()
		return fmt.Sprint(int(csproto.MsgType(u.v)))
	}()))
	check("MsgType", func() string { return fmt.Sprint(int(csproto.MsgType(u.v))) }, "0")
	check("Marshal", func() string { _, err := csproto.Marshal(u.v); return fmt.Sprint(err == csproto.ErrMarshaler) }, "true")
	check("Unmarshal", func() string { return fmt.Sprint(csproto.Unmarshal([]byte{8, 1}, u.v) == csproto.ErrUnmarshaler) }, "true")
	check("Size", func() string { return fmt.Sprint(csproto.Size(u.v)) }, "0")
	check("Clone", func() string { return fmt.Sprint(csproto.Clone(u.v) == nil) }, "true")
	check("Equal", func() string { return fmt.Sprint(csproto.Equal(u.v, u.v)) }, "false")
	check("MarshalText", func() string { _, err := csproto.MarshalText(u.v); return fmt.Sprint(err != nil) }, "true")
	check("GrpcCodec.Marshal", func() string { _, err := csproto.GrpcCodec{}.Marshal(u.v); return fmt.Sprint(err != nil) }, "true")
	check("HasExtension", func() string { return fmt.Sprint(csproto.HasExtension(u.v, nil)) }, "false")
	check("GetExtension", func() string { _, err := csproto.GetExtension(u.v, nil); return fmt.Sprint(err != nil) }, "true")
	check("SetExtension", func() string { return fmt.Sprint(csproto.SetExtension(u.v, nil, 1) != nil) }, "true")
	check("ClearAllExtensions", func() string { csproto.ClearAllExtensions(u.v); return "ok" }, "ok")
	check("RangeExtensions", func() string {
		return fmt.Sprint(csproto.RangeExtensions(u.v, func(interface{}, string, int32) error { return nil }) != nil)
	}, "true")
	c.Count("unsupported", u.name, outcome, 1, true)
}

func firstUseRace(c *fw.Ctx, t shimType, G int) {
	m := t.gen(c.Rng)
	csproto.VerifResetMsgTypeCache()
	res := make([]int, G)
	var wg sync.WaitGroup
	start := make(chan struct{})
	for g := 0; g < G; g++ {
		wg.Add(1)
		go func(g int) {
			defer wg.Done()
			<-start
			res[g] = int(csproto.MsgType(m))
		}(g)
	}
	close(start)
	wg.Wait()
	outcome := "stable"
	for g, v := range res {
		if v != t.mt {
			outcome = "unstable"
			c.Violate(fw.Violation{Stream: "first-use", Signature: "shim/first-use-classification", What: fmt.Sprintf("goroutine %d of %d got a different classification on concurrent first use", g, G), Input: t.name, Expected: fmt.Sprint(t.mt), Got: fmt.Sprint(v)})
			break
		}
	}
	again := int(csproto.MsgType(m))
	if again != t.mt {
		outcome = "cache-wrong"
		c.Violate(fw.Violation{Stream: "first-use", Signature: "shim/first-use-cache", What: "the cached classification after concurrent first use is wrong", Input: t.name, Expected: fmt.Sprint(t.mt), Got: fmt.Sprint(again)})
	}
	c.Count("first-use", fmt.Sprintf("%s G=%d %v", t.name, G, m), outcome, G, true)
}

var _ = bytes.Equal

func runC11(c *fw.Ctx) int {
	c.Facts = extractFacts(c)
	c.Prove("C11")
	fc := floatCorpus()
	ts := append(shimCorpus(), fc...)
	n := 40
	if c.Tier == "thorough" {
		n = 3000
	}
	for i := 0; i < n; i++ {
		for _, t := range ts {
			classCase(c, t)
		}
		crossRuntimeEqual(c, ts)
	}
	// argument pairs (same pointer, clones, wire copies, copies that differ in one float, empty, typed nil) and every
	// other function against the owning runtime: every float position x every special value, then random values
	rounds, plain := 1, n/4
	if c.Tier == "thorough" {
		rounds, plain = 8, 150
	}
	for _, t := range fc {
		floatCases(c, t, rounds)
	}
	for i := 0; i < plain; i++ {
		for _, t := range ts {
			plainPairs(c, t)
		}
	}
	// histories: field changes anywhere in the value tree between Size / Marshal calls of the runtime and of csproto
	hist, histRounds := append(append([]shimType{}, ts...), nestedShimCorpus()...), 30
	if c.Tier == "thorough" {
		histRounds = 1500
	}
	for i := 0; i < histRounds; i++ {
		for _, t := range hist {
			shimHistory(c, t)
		}
	}
	for _, u := range unsupportedValues() {
		unsupportedCaseRun(c, u)
	}
	races := 60
	if c.Tier == "thorough" {
		races = 5000
	}
	for i := 0; i < races; i++ {
		firstUseRace(c, ts[c.Rng.Intn(len(ts))], []int{2, 4, 16, 64}[c.Rng.Intn(4)])
	}
	c.Sample(map[string]interface{}{"stream": "classes", "types": func() []string {
		var s []string
		for _, t := range ts {
			s = append(s, t.name)
		}
		return s
	}()})
	if c.Tier == "thorough" {
		c.LeanChecker("C11")
	}
	return c.Finish(
		"classes: 32 real message types (gogo with and without fast-marshal methods, golang v1 old-style plain types, golang-v1-API and google v2 generated types with fast-marshal methods, google v2 and gogo well-known types incl. an empty message; 17 of them with float/double fields: singular, optional, repeated, in nested and repeated nested messages, as map values and oneof members) with random values: Marshal/Unmarshal in both directions against the owning runtime's own functions, Size = len(Marshal), GrpcCodec, Clone, Equal (equal and mutated copies, cross-runtime pairs), MarshalText, Reset, MsgType vs the Lean classification of the measured capability vector; unsupported: 10 values of unsupported kinds through 13 functions (documented error / zero value, no panic); pairs: for every float position of a populated message x {NaN, a second NaN payload, -0.0, +0.0, +Inf, -Inf, smallest denormal, 1.5} and for random values of every type: csproto.Equal against the runtime's Equal on the pairs (m, m) same pointer, (m, runtime clone) both ways, (m, csproto.Clone(m)), (m, copy through the wire), (m, copy with an unknown field), (m, mutated copy) both ways, (m, copy that differs in that one float) both ways, (m, empty) both ways, (m, typed nil) both ways, same-pointer pairs of the wire copy / the unknown-field copy / an empty message / typed nil, each pair also sent to the Lean model of the Equal dispatcher (classification of both arguments, pointer identity, the runtime's answer); Clone, MarshalText, Marshal/Size, Unmarshal, GrpcCodec and Reset against the runtime's function on the same values (messages compared with the runtime's Equal, or by text where that is not reflexive); histories: for every type above and 7 types whose values hold messages two to four levels deep (descriptorpb / gogo descriptor files, structpb lists and structs, generated messages with generated and runtime-served messages as singular fields, oneof members and map values), 3-9 steps drawn from: change ONE site anywhere in the value tree (string / bytes lengths across 0, 1, 127/128, 200, 300; integers across the varint widths; list append / drop; map insert / delete / value change; half of the time inside a sub-message), the runtime's Size, the runtime's Marshal, csproto.Size, csproto.Marshal, GrpcCodec.Marshal — every csproto result compared with the owning runtime's result on a fresh clone (length, and both decoded by the runtime's Unmarshal); first-use: 2-64 goroutines classify a value concurrently right after the type cache was emptied; non-trivial = every case",
		append(trustedCommon, "the three protobuf runtimes' own Marshal/Unmarshal/Size/Clone/Equal/text functions (the oracle compares against them)", "sync.Map assumed linearizable"),
		[]string{"data-race freedom of the type cache is not carried by the model (sync.Map is assumed linearizable); the interleaving model proves that every interleaving returns and caches deduce(v)",
			"an old-style golang v1 type with fast-marshal methods cannot be produced offline (no such generator is cached); that combination is not exercised"})
}
