package main

// C18, stream "required": required fields ANYWHERE in the message tree, not only at the top level of a proto2
// message.  A proto3 message has no required fields of its own but may embed proto2 messages that do — as a
// singular field, a list element, a map value, a oneof member, directly or through further messages.  Whatever the
// syntax of the outermost message, a JSON text in which one of those keys is missing must be refused by the
// unmarshaling adapter unless JSONAllowPartialMessages(true) is given, and accepted (with the runtime's result) when
// it is — exactly what the owning runtime's protojson does with AllowPartial false / true.
//
// The message types: every Google-runtime type of the JSON corpus that can reach a required field, plus two
// hand-written schemas served by dynamicpb (a proto2 file with required fields three levels deep and a proto3 file
// that imports it and embeds its messages in every position).

import (
	"encoding/json"
	"fmt"
	"sort"
	"strings"

	"github.com/CrowdStrike/csproto"
	"google.golang.org/protobuf/encoding/protojson"
	"google.golang.org/protobuf/proto"
	"google.golang.org/protobuf/reflect/protodesc"
	"google.golang.org/protobuf/reflect/protoreflect"
	"google.golang.org/protobuf/reflect/protoregistry"
	"google.golang.org/protobuf/types/descriptorpb"
	"google.golang.org/protobuf/types/dynamicpb"

	"csverif/gencheck"
	"csverif/internal/fw"
)

// ---------- hand-written schemas ----------

type hf struct {
	name  string
	num   int32
	kind  string // scalar kind | "msg:<FullName>" | "map:<keykind>:<value kind or msg:…>"
	label string // opt | req | rep | oneof:<name>
}

type hm struct {
	name   string
	fields []hf
}

var scalarTypes = map[string]descriptorpb.FieldDescriptorProto_Type{
	"string": descriptorpb.FieldDescriptorProto_TYPE_STRING, "int32": descriptorpb.FieldDescriptorProto_TYPE_INT32,
	"int64": descriptorpb.FieldDescriptorProto_TYPE_INT64, "bool": descriptorpb.FieldDescriptorProto_TYPE_BOOL,
	"bytes": descriptorpb.FieldDescriptorProto_TYPE_BYTES, "double": descriptorpb.FieldDescriptorProto_TYPE_DOUBLE,
	"uint32": descriptorpb.FieldDescriptorProto_TYPE_UINT32,
}

func handFile(path, pkg, syntax string, deps []string, msgs []hm) *descriptorpb.FileDescriptorProto {
	fdp := &descriptorpb.FileDescriptorProto{Name: proto.String(path), Package: proto.String(pkg), Syntax: proto.String(syntax), Dependency: deps}
	setType := func(f *descriptorpb.FieldDescriptorProto, kind string) {
		if strings.HasPrefix(kind, "msg:") {
			f.Type = descriptorpb.FieldDescriptorProto_TYPE_MESSAGE.Enum()
			f.TypeName = proto.String("." + strings.TrimPrefix(kind, "msg:"))
			return
		}
		f.Type = scalarTypes[kind].Enum()
	}
	for _, m := range msgs {
		dp := &descriptorpb.DescriptorProto{Name: proto.String(m.name)}
		oneofs := map[string]int32{}
		for _, f := range m.fields {
			fp := &descriptorpb.FieldDescriptorProto{Name: proto.String(f.name), Number: proto.Int32(f.num), Label: descriptorpb.FieldDescriptorProto_LABEL_OPTIONAL.Enum()}
			switch {
			case f.label == "req":
				fp.Label = descriptorpb.FieldDescriptorProto_LABEL_REQUIRED.Enum()
			case f.label == "rep":
				fp.Label = descriptorpb.FieldDescriptorProto_LABEL_REPEATED.Enum()
			case strings.HasPrefix(f.label, "oneof:"):
				on := strings.TrimPrefix(f.label, "oneof:")
				idx, ok := oneofs[on]
				if !ok {
					idx = int32(len(dp.OneofDecl))
					oneofs[on] = idx
					dp.OneofDecl = append(dp.OneofDecl, &descriptorpb.OneofDescriptorProto{Name: proto.String(on)})
				}
				fp.OneofIndex = proto.Int32(idx)
			}
			if strings.HasPrefix(f.kind, "map:") {
				parts := strings.SplitN(strings.TrimPrefix(f.kind, "map:"), ":", 2)
				entry := "" // protoc's name of the entry type: the field name in camel case + "Entry"
				for _, w := range strings.Split(f.name, "_") {
					entry += strings.ToUpper(w[:1]) + w[1:]
				}
				entry += "Entry"
				kf := &descriptorpb.FieldDescriptorProto{Name: proto.String("key"), Number: proto.Int32(1), Label: descriptorpb.FieldDescriptorProto_LABEL_OPTIONAL.Enum()}
				vf := &descriptorpb.FieldDescriptorProto{Name: proto.String("value"), Number: proto.Int32(2), Label: descriptorpb.FieldDescriptorProto_LABEL_OPTIONAL.Enum()}
				setType(kf, parts[0])
				setType(vf, parts[1])
				dp.NestedType = append(dp.NestedType, &descriptorpb.DescriptorProto{Name: proto.String(entry), Field: []*descriptorpb.FieldDescriptorProto{kf, vf},
					Options: &descriptorpb.MessageOptions{MapEntry: proto.Bool(true)}})
				fp.Label = descriptorpb.FieldDescriptorProto_LABEL_REPEATED.Enum()
				fp.Type = descriptorpb.FieldDescriptorProto_TYPE_MESSAGE.Enum()
				fp.TypeName = proto.String("." + pkg + "." + m.name + "." + entry)
			} else {
				setType(fp, f.kind)
			}
			dp.Field = append(dp.Field, fp)
		}
		fdp.MessageType = append(fdp.MessageType, dp)
	}
	return fdp
}

// requiredSchemas: c18req (proto2) and c18hold (proto3, importing it).
func requiredSchemas() ([]jsonType, error) {
	req := handFile("c18/req2.proto", "c18req", "proto2", nil, []hm{
		{"Leaf", []hf{{"id", 1, "string", "req"}, {"n", 2, "int32", "opt"}}},
		{"Mid", []hf{{"leaf", 1, "msg:c18req.Leaf", "opt"}, {"leaves", 2, "msg:c18req.Leaf", "rep"}, {"tag", 3, "string", "opt"}, {"ver", 4, "int32", "req"},
			{"by_name", 5, "map:string:msg:c18req.Leaf", "opt"}}},
		{"Top2", []hf{{"name", 1, "string", "req"}, {"mid", 2, "msg:c18req.Mid", "opt"}, {"mids", 3, "msg:c18req.Mid", "rep"}, {"by", 4, "map:string:msg:c18req.Leaf", "opt"},
			{"alt", 5, "msg:c18req.Leaf", "oneof:pick"}, {"s", 6, "string", "oneof:pick"}, {"must", 7, "msg:c18req.Leaf", "req"}}},
		{"NoReqOfItsOwn", []hf{{"label", 1, "string", "opt"}, {"mid", 2, "msg:c18req.Mid", "opt"}, {"leaves", 3, "msg:c18req.Leaf", "rep"}}},
	})
	hold := handFile("c18/hold3.proto", "c18hold", "proto3", []string{"c18/req2.proto"}, []hm{
		{"Inner3", []hf{{"leaf", 1, "msg:c18req.Leaf", "opt"}, {"note", 2, "string", "opt"}, {"more", 3, "msg:c18req.Mid", "rep"}}},
		{"Single3", []hf{{"name", 1, "string", "opt"}, {"one", 2, "msg:c18req.Leaf", "opt"}}},
		{"List3", []hf{{"many", 1, "msg:c18req.Leaf", "rep"}, {"k", 2, "int32", "opt"}}},
		{"Map3", []hf{{"by", 1, "map:string:msg:c18req.Leaf", "opt"}, {"mids", 2, "map:int32:msg:c18req.Mid", "opt"}}},
		{"Oneof3", []hf{{"alt", 1, "msg:c18req.Leaf", "oneof:pick"}, {"k", 2, "int32", "oneof:pick"}, {"mid", 3, "msg:c18req.Mid", "oneof:pick"}}},
		{"Deep3", []hf{{"deep", 1, "msg:c18hold.Inner3", "opt"}, {"deeps", 2, "msg:c18hold.Inner3", "rep"}, {"by", 3, "map:string:msg:c18hold.Inner3", "opt"}, {"self", 4, "msg:c18hold.Deep3", "opt"}}},
		{"Hold3", []hf{{"name", 1, "string", "opt"}, {"one", 2, "msg:c18req.Leaf", "opt"}, {"many", 3, "msg:c18req.Leaf", "rep"}, {"by", 4, "map:string:msg:c18req.Leaf", "opt"},
			{"alt", 5, "msg:c18req.Leaf", "oneof:pick"}, {"k", 6, "int32", "oneof:pick"}, {"deep", 7, "msg:c18hold.Inner3", "opt"}, {"top", 8, "msg:c18req.Top2", "opt"}}},
	})
	files := &protoregistry.Files{}
	var out []jsonType
	for _, fdp := range []*descriptorpb.FileDescriptorProto{req, hold} {
		fd, err := protodesc.NewFile(fdp, files)
		if err != nil {
			return nil, fmt.Errorf("hand-written schema %s: %w", fdp.GetName(), err)
		}
		if err := files.RegisterFile(fd); err != nil {
			return nil, err
		}
		for i := 0; i < fd.Messages().Len(); i++ {
			md := fd.Messages().Get(i)
			out = append(out, jsonType{name: "dynamicpb:" + string(md.FullName()) + " (" + fd.Syntax().String() + ")", md: md,
				fresh: func() interface{} { return dynamicpb.NewMessage(md) }})
		}
	}
	return out, nil
}

// ---------- where the required keys of a JSON object are ----------

// ownJSONForm: well-known types are not written as an object of their fields
func ownJSONForm(md protoreflect.MessageDescriptor) bool {
	return strings.HasPrefix(string(md.FullName()), "google.protobuf.")
}

// reachesRequired: can a value of md hold a message with a required field (at any depth)?
func reachesRequired(md protoreflect.MessageDescriptor, seen map[protoreflect.FullName]bool) bool {
	if seen[md.FullName()] || ownJSONForm(md) {
		return false
	}
	seen[md.FullName()] = true
	for i := 0; i < md.Fields().Len(); i++ {
		fd := md.Fields().Get(i)
		if fd.Cardinality() == protoreflect.Required {
			return true
		}
		sub := fd.Message()
		if fd.IsMap() {
			sub = fd.MapValue().Message()
		}
		if sub != nil && reachesRequired(sub, seen) {
			return true
		}
	}
	return false
}

type requiredSite struct {
	path string
	obj  map[string]interface{}
	key  string
}

// requiredSites walks the parsed JSON text of a message along its descriptor and lists every key of a required
// field that is present, with the object that holds it.
func requiredSites(md protoreflect.MessageDescriptor, v interface{}, path string, out *[]requiredSite) {
	obj, ok := v.(map[string]interface{})
	if !ok || ownJSONForm(md) {
		return
	}
	for i := 0; i < md.Fields().Len(); i++ {
		fd := md.Fields().Get(i)
		key := fd.JSONName()
		val, present := obj[key]
		if !present {
			key = string(fd.Name())
			val, present = obj[key]
		}
		if !present || val == nil {
			continue
		}
		if fd.Cardinality() == protoreflect.Required {
			*out = append(*out, requiredSite{path + "." + key, obj, key})
		}
		switch {
		case fd.IsMap():
			if sub := fd.MapValue().Message(); sub != nil {
				if mp, ok := val.(map[string]interface{}); ok {
					keys := make([]string, 0, len(mp))
					for k := range mp {
						keys = append(keys, k)
					}
					sort.Strings(keys)
					for _, k := range keys {
						requiredSites(sub, mp[k], fmt.Sprintf("%s.%s[%q]", path, key, k), out)
					}
				}
			}
		case fd.Message() == nil:
		case fd.IsList():
			if l, ok := val.([]interface{}); ok {
				for j, x := range l {
					requiredSites(fd.Message(), x, fmt.Sprintf("%s.%s[%d]", path, key, j), out)
				}
			}
		default:
			requiredSites(fd.Message(), val, path+"."+key, out)
		}
	}
}

// requiredCase: one random fully initialized value, its JSON text with ONE required key removed somewhere in the
// tree, through the adapter without / with the partial-messages option and through protojson with AllowPartial
// false / true.
func requiredCase(c *fw.Ctx, t jsonType) {
	r := c.Rng
	for try := 0; try < 6; try++ {
		ref := gencheck.RandMessage(r, t.md, true)
		sanitizeForJSON(ref)
		wire, err := proto.MarshalOptions{Deterministic: true, AllowPartial: true}.Marshal(ref)
		if err != nil {
			continue
		}
		m := t.fresh()
		if t.unmarshalWire(wire, m) != nil {
			continue
		}
		full, err := protojson.MarshalOptions{AllowPartial: true, UseProtoNames: r.Intn(3) == 0}.Marshal(m.(proto.Message))
		if err != nil {
			continue
		}
		var generic interface{}
		if json.Unmarshal(full, &generic) != nil {
			continue
		}
		var sites []requiredSite
		requiredSites(t.md, generic, "$", &sites)
		if len(sites) == 0 {
			continue
		}
		s := sites[r.Intn(len(sites))]
		delete(s.obj, s.key)
		partial, err := json.Marshal(generic)
		if err != nil {
			continue
		}
		desc := map[string]interface{}{"type": t.name, "syntax of the outermost message": t.md.ParentFile().Syntax().String(), "required key removed": s.path, "json": trunc(string(partial), 600)}
		c.Journal("C18 required " + fmt.Sprint(desc))
		// the runtime's own decoder with the equivalent options decides what the text is
		w1, w2 := t.fresh(), t.fresh()
		wantStrict := protojson.UnmarshalOptions{}.Unmarshal(partial, w1.(proto.Message))
		wantLax := protojson.UnmarshalOptions{AllowPartial: true}.Unmarshal(partial, w2.(proto.Message))
		if wantStrict == nil || wantLax != nil {
			c.Count("required", fmt.Sprint(desc), "runtime-does-not-tell-the-two-apart", len(partial), false)
			continue
		}
		outcome := "ok"
		viol := func(sig, what, want, got string) {
			outcome = sig
			c.Violate(fw.Violation{Stream: "required", Signature: sig, What: what, Input: desc, Expected: trunc(want, 400), Got: trunc(got, 400)})
		}
		g1, g2, g3 := t.fresh(), t.fresh(), t.fresh()
		var strict, lax, explicit error
		if p := safely(func() {
			strict = csproto.JSONUnmarshaler(g1).UnmarshalJSON(partial)
			lax = csproto.JSONUnmarshaler(g2, csproto.JSONAllowPartialMessages(true)).UnmarshalJSON(partial)
			explicit = csproto.JSONUnmarshaler(g3, csproto.JSONAllowPartialMessages(false)).UnmarshalJSON(partial)
		}); p != "" {
			viol("json/unmarshal-panic", "JSONUnmarshaler panicked", "no panic", p)
			return
		}
		switch {
		case strict == nil:
			viol("json/required-missing-accepted", "a JSON text that lacks a required field (somewhere in the message tree) was accepted without JSONAllowPartialMessages; the owning runtime's decoder refuses it", wantStrict.Error(), "accepted: "+fmt.Sprint(g1))
		case explicit == nil:
			viol("json/required-missing-accepted", "a JSON text that lacks a required field (somewhere in the message tree) was accepted with JSONAllowPartialMessages(false); the owning runtime's decoder refuses it", wantStrict.Error(), "accepted: "+fmt.Sprint(g3))
		case lax != nil:
			viol("json/allow-partial", "a JSON text that lacks a required field was refused although JSONAllowPartialMessages(true) was given; the owning runtime's decoder accepts it with AllowPartial", "accepted", lax.Error())
		case !t.equal(g2, w2):
			viol("json/allow-partial", "with JSONAllowPartialMessages(true) the adapter decodes another message than the owning runtime's decoder with AllowPartial", fmt.Sprint(w2), fmt.Sprint(g2))
		}
		c.Count("required", fmt.Sprint(desc), outcome, len(partial), true)
		return
	}
}

// requiredStream: n rounds over every Google-runtime type that can reach a required field.
func requiredStream(c *fw.Ctx, ts []jsonType, n int) {
	var sel []jsonType
	for _, t := range ts {
		if !t.gogo && !t.wkt && reachesRequired(t.md, map[protoreflect.FullName]bool{}) {
			sel = append(sel, t)
		}
	}
	for i := 0; i < n; i++ {
		for _, t := range sel {
			requiredCase(c, t)
		}
	}
	var names []string
	for _, t := range sel {
		names = append(names, t.name)
	}
	c.Sample(map[string]interface{}{"stream": "required", "types": names})
}
